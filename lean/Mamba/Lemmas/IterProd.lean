import Mathlib.Data.List.Chain
import Mamba.Spec.Iter
import Mamba.Lemmas.IterBase
import Mamba.Model.IterProd
import Mamba.Lemmas.IterChain
import Mamba.Lemmas.IterGeneric
import Mathlib.Data.List.Lex
namespace Iter
open Spec

theorem mem_prodList : ∀ (dims x : List Int), x ∈ prodList dims ↔ InProd dims x := by
  intro dims
  induction dims with
  | nil => intro x; cases x <;> simp [prodList, InProd]
  | cons n ns ih =>
    intro x
    cases x with
    | nil => simp [prodList, InProd]
    | cons a x =>
      simp only [prodList, List.mem_flatMap, List.mem_range, List.mem_map, InProd]
      constructor
      · rintro ⟨b, hb, y, hy, h⟩
        injection h with h1 h2
        subst h1 h2
        exact ⟨by omega, by omega, (ih _).mp hy⟩
      · rintro ⟨h0, h1, h2⟩
        exact ⟨a.toNat, by omega, x, (ih _).mpr h2, by simp [Int.toNat_of_nonneg h0]⟩

theorem prodList_eq_nil_iff : ∀ dims : List Int, prodList dims = [] ↔ ∃ n ∈ dims, n < 1 := by
  intro dims
  induction dims with
  | nil => simp [prodList]
  | cons n ns ih =>
    simp only [prodList, List.flatMap_eq_nil_iff, List.mem_range, List.map_eq_nil_iff, List.mem_cons,
      exists_eq_or_imp]
    rw [ih]
    constructor
    · intro h
      by_cases hn : n < 1
      · exact Or.inl hn
      · exact Or.inr (h 0 (by omega))
    · rintro (h | h)
      · intro a ha; omega
      · intro _ _; exact h

/-- the successor chain of the product, with its first and last elements -/
theorem prodList_chain : ∀ dims : List Int,
    (prodList dims).IsChain (fun x y => prodSucc dims x = some y) ∧
    (prodList dims ≠ [] → (prodList dims).head? = some (zeros dims.length) ∧
      ∃ l, (prodList dims).getLast? = some l ∧ prodSucc dims l = none) := by
  intro dims
  induction dims with
  | nil => simp [prodList, prodSucc, zeros]
  | cons n ns ih =>
    obtain ⟨ihc, ihe⟩ := ih
    by_cases hns : prodList ns = []
    · have : prodList (n :: ns) = [] := by simp [prodList, hns]
      simp [this]
    · obtain ⟨hhead, l, hlast, hl⟩ := ihe hns
      have key := isChain_flatMap_range (fun x y => prodSucc (n :: ns) x = some y)
        (fun (a : Nat) => (prodList ns).map (fun x => (a : Int) :: x)) n.toNat
        (by
          intro a _
          rw [List.isChain_map]
          exact ihc.imp (fun x y h => by simp [prodSucc, h]))
        (by intro a _; simpa using hns)
        (by
          intro a ha x hx y hy
          simp only [List.getLast?_map, hlast, Option.map_some, Option.mem_def, Option.some.injEq] at hx
          simp only [List.head?_map, hhead, Option.map_some, Option.mem_def, Option.some.injEq] at hy
          subst hx hy
          have : (a : Int) + 1 < n := by omega
          simp [prodSucc, hl, this])
      refine ⟨key.1, fun hne => ?_⟩
      have hpos : 0 < n.toNat := by
        rcases Nat.eq_zero_or_pos n.toNat with h | h
        · simp [prodList, h] at hne
        · exact h
      obtain ⟨k1, k2⟩ := key.2 hpos
      refine ⟨?_, ?_⟩
      · show ((List.range n.toNat).flatMap _).head? = _
        rw [k2]; simp [hhead, zeros, List.replicate_succ]
      · refine ⟨((n.toNat - 1 : Nat) : Int) :: l, ?_, ?_⟩
        · show ((List.range n.toNat).flatMap _).getLast? = _
          rw [k1]; simp [hlast]
        · have : ¬ (((n.toNat - 1 : Nat) : Int) + 1 < n) := by omega
          simp [prodSucc, hl, this]

theorem zeros_succ' (k : Nat) : zeros (k + 1) = zeros k ++ [0] := by
  simp [zeros, List.replicate_succ']

theorem prodSucc_snoc : ∀ (dpre pre : List Int) (n a : Int), dpre.length = pre.length →
    prodSucc (dpre ++ [n]) (pre ++ [a]) =
      if a + 1 < n then some (pre ++ [a + 1]) else (prodSucc dpre pre).map (· ++ [0]) := by
  intro dpre
  induction dpre with
  | nil =>
    intro pre n a h
    cases pre with
    | nil => simp [prodSucc, zeros]
    | cons _ _ => simp at h
  | cons d ds ih =>
    intro pre n a h
    cases pre with
    | nil => simp at h
    | cons b p =>
      simp only [List.length_cons, Nat.add_right_cancel_iff] at h
      simp only [List.cons_append, prodSucc, ih p n a h]
      by_cases hn : a + 1 < n
      · simp [hn]
      · simp only [hn, if_false]
        cases hp : prodSucc ds p with
        | some y => simp
        | none =>
          simp only [Option.map_none, List.length_append, List.length_cons, List.length_nil]
          by_cases hb : b + 1 < d
          · simp [hb, zeros_succ']
          · simp [hb]

theorem prod_zero : ∀ (suf pre : List Int),
    Prod.zero suf.length (pre.length : Int) (pre ++ suf) = .ok (pre ++ zeros suf.length) := by
  intro suf
  induction suf with
  | nil => intro pre; simp [Prod.zero, zeros]
  | cons a r ih =>
    intro pre
    have := ih (pre ++ [0])
    simp only [List.length_append, List.length_cons, List.length_nil, List.append_assoc,
      List.cons_append, List.nil_append, Int.natCast_add, Int.natCast_one, Nat.zero_add] at this
    simp [Prod.zero, this, zeros, List.replicate_succ] at this ⊢

theorem prod_scan : ∀ (j : Nat) (pre dpre suf dsuf : List Int), pre.length = j → dpre.length = j →
    suf.length = dsuf.length →
    Prod.scan (dpre ++ dsuf) j (pre ++ suf) = .ok ((prodSucc dpre pre).map (· ++ zeros suf.length)) := by
  intro j
  induction j with
  | zero =>
    intro pre dpre suf dsuf hp hd _
    have : pre = [] := List.length_eq_zero_iff.mp hp
    have : dpre = [] := List.length_eq_zero_iff.mp hd
    subst_vars
    simp [Prod.scan, prodSucc]
  | succ j ih =>
    intro pre dpre suf dsuf hp hd hs
    obtain ⟨pre', a, rfl⟩ : ∃ p a, pre = p ++ [a] :=
      ⟨pre.dropLast, pre.getLast (by intro h; simp [h] at hp), by simp [List.dropLast_append_getLast]⟩
    obtain ⟨dpre', n, rfl⟩ : ∃ p a, dpre = p ++ [a] :=
      ⟨dpre.dropLast, dpre.getLast (by intro h; simp [h] at hd), by simp [List.dropLast_append_getLast]⟩
    simp only [List.length_append, List.length_cons, List.length_nil, Nat.zero_add,
      Nat.add_right_cancel_iff] at hp hd
    have e1 : pre' ++ [a] ++ suf = pre' ++ a :: suf := by simp
    have e2 : dpre' ++ [n] ++ dsuf = dpre' ++ n :: dsuf := by simp
    rw [prodSucc_snoc dpre' pre' n a (by omega)]
    unfold Prod.scan
    rw [e1, e2]
    have g1 : get (pre' ++ a :: suf) (j : Int) = .ok a := by rw [← hp]; simp
    have g2 : get (dpre' ++ n :: dsuf) (j : Int) = .ok n := by rw [← hd]; simp
    simp only [g1, g2, Outcome.bind_ok]
    by_cases hn : a < n - 1
    · have hn' : a + 1 < n := by omega
      have s1 : set (pre' ++ a :: suf) (j : Int) (a + 1) = .ok (pre' ++ (a + 1) :: suf) := by
        rw [← hp]; simp
      simp only [hn, hn', if_true, s1, Outcome.bind_ok]
      have z := prod_zero suf (pre' ++ [a + 1])
      simp only [List.length_append, List.length_cons, List.length_nil, Nat.zero_add, hp,
        List.append_assoc, List.cons_append, List.nil_append, Int.natCast_add, Int.natCast_one] at z
      have hl : (pre' ++ (a + 1) :: suf).length - (j + 1) = suf.length := by simp [hp]; omega
      rw [hl, z]
      simp
    · have hn' : ¬ a + 1 < n := by omega
      simp only [hn, hn', if_false]
      have := ih pre' dpre' (a :: suf) (n :: dsuf) hp hd (by simp [hs])
      rw [this]
      cases prodSucc dpre' pre' with
      | none => simp
      | some y => simp [zeros, List.replicate_succ]

theorem prodSucc_length : ∀ (dims x y : List Int), prodSucc dims x = some y → y.length = dims.length := by
  intro dims
  induction dims with
  | nil => intro x y h; cases x <;> simp [prodSucc] at h
  | cons n ns ih =>
    intro x y h
    cases x with
    | nil => simp [prodSucc] at h
    | cons a x =>
      simp only [prodSucc] at h
      cases hp : prodSucc ns x with
      | some z =>
        rw [hp] at h
        simp only [Option.some.injEq] at h
        subst h
        simp [ih x z hp]
      | none =>
        rw [hp] at h
        simp only at h
        by_cases hn : a + 1 < n
        · simp only [hn, if_true, Option.some.injEq] at h
          subst h
          simp [zeros]
        · simp [hn] at h

theorem prodSucc_lt : ∀ (dims x y : List Int), prodSucc dims x = some y → x < y := by
  intro dims
  induction dims with
  | nil => intro x y h; cases x <;> simp [prodSucc] at h
  | cons n ns ih =>
    intro x y h
    cases x with
    | nil => simp [prodSucc] at h
    | cons a x =>
      simp only [prodSucc] at h
      cases hp : prodSucc ns x with
      | some z =>
        rw [hp] at h
        simp only [Option.some.injEq] at h
        subst h
        exact List.cons_lt_cons_iff.mpr (Or.inr ⟨rfl, ih x z hp⟩)
      | none =>
        rw [hp] at h
        simp only at h
        by_cases hn : a + 1 < n
        · simp only [hn, if_true, Option.some.injEq] at h
          subst h
          exact List.cons_lt_cons_iff.mpr (Or.inl (by omega))
        · simp [hn] at h

theorem prodList_sorted (dims : List Int) : (prodList dims).Pairwise (· < ·) :=
  List.isChain_iff_pairwise.mp ((prodList_chain dims).1.imp (fun _ _ h => prodSucc_lt dims _ _ h))

/-- the scan of `Next` computes the lexicographic successor -/
theorem prod_scan_full (dims st : List Int) (h : st.length = dims.length) :
    Prod.scan dims st.length st = .ok (prodSucc dims st) := by
  have := prod_scan st.length st dims [] [] rfl h.symm rfl
  simp only [List.append_nil, zeros] at this
  rw [this]
  cases prodSucc dims st <;> simp

/-- state invariant: `s` shows the element `x` of the product of `dims` -/
def Prod.Rep (dims : List Int) (s : Prod) (x : List Int) : Prop :=
  s.n = dims ∧ s.state = x ∧ x.length = dims.length ∧ s.empty = dims.isEmpty

/-- exhausted states -/
def Prod.Dead (dims : List Int) (s : Prod) : Prop :=
  s.n = dims ∧ s.state.length = dims.length ∧ (s.empty = true ∨ (prodSucc dims s.state = none ∧ dims ≠ []))

theorem Prod.next_dead (dims : List Int) (s : Prod) (h : Prod.Dead dims s) :
    ∃ s', Prod.next s = .ok (s', false) ∧ Prod.Dead dims s' := by
  obtain ⟨hn, hl, hd⟩ := h
  unfold Prod.next
  rw [hn, prod_scan_full dims s.state hl]
  rcases hd with he | ⟨hs, hne⟩
  · cases hp : prodSucc dims s.state with
    | some y =>
      refine ⟨{ s with state := y }, by simp [he, hn], hn, ?_, Or.inl he⟩
      simp [prodSucc_length dims _ _ hp]
    | none => exact ⟨s, by simp [he], hn, hl, Or.inl he⟩
  · refine ⟨s, ?_, hn, hl, Or.inr ⟨hs, hne⟩⟩
    have : s.state.length ≠ 0 := by
      rw [hl]; intro h0; exact hne (List.length_eq_zero_iff.mp h0)
    simp [hs, this]

theorem Prod.next_step (dims : List Int) (x y : List Int) (hxy : prodSucc dims x = some y) (s : Prod)
    (h : Prod.Rep dims s x) : ∃ s', Prod.next s = .ok (s', true) ∧ Prod.Rep dims s' y := by
  obtain ⟨hn, hs, hl, he⟩ := h
  have hne : dims ≠ [] := by
    rintro rfl; cases x <;> simp [prodSucc] at hxy
  have he' : s.empty = false := by
    rw [he]; cases dims with
    | nil => exact absurd rfl hne
    | cons _ _ => rfl
  refine ⟨{ s with state := y }, ?_, hn, rfl, prodSucc_length dims x y hxy, ?_⟩
  · unfold Prod.next
    rw [hn, hs, prod_scan_full dims x hl, hxy]
    simp [he']
  · simpa using he


theorem Prod.init_eq (dims : List Int) :
    Prod.init dims = .ok ⟨if dims = [] then [] else zeros (dims.length - 1) ++ [-1], dims,
      dims.any (fun v => v < 1)⟩ := by
  unfold Prod.init make
  have h0 : ¬ ((dims.length : Int) < 0) := by omega
  simp only [h0, if_false, Int.toNat_natCast, Outcome.bind_ok, Outcome.pure_eq]
  cases hd : dims.length with
  | zero =>
    have : dims = [] := List.length_eq_zero_iff.mp hd
    simp [this]
  | succ m =>
    have hne : dims ≠ [] := by intro h; simp [h] at hd
    have e : ((m + 1 : Nat) : Int) - 1 = (m : Int) := by omega
    have r : List.replicate (m + 1) (0 : Int) = List.replicate m 0 ++ [0] := List.replicate_succ'
    have hpos : ((m + 1 : Nat) : Int) > 0 := by omega
    simp only [hpos, if_true, e, r, hne, if_false]
    have := set_append_length (List.replicate m (0:Int)) [] 0 (-1)
    simp only [List.length_replicate] at this
    simp [this, zeros]

theorem Prod.enumerates_lemma (dims : List Int) :
    ∃ s0, Prod.init dims = .ok s0 ∧ ∀ bound, (prodList dims).length < bound →
      ∃ s', outputs Prod.it bound s0 = (prodList dims, s', .exhausted) ∧
        ∀ k, extras Prod.it k s' = .ok (List.replicate k none) := by
  refine ⟨_, Prod.init_eq dims, fun bound hb => ?_⟩
  obtain ⟨hchain, hends⟩ := prodList_chain dims
  have hinitlen : (if dims = [] then [] else zeros (dims.length - 1) ++ [-1] : List Int).length = dims.length := by
    cases dims with
    | nil => simp
    | cons a l => simp [zeros]
  obtain ⟨s', h1, _, h3⟩ := enumerates_aux Prod.it (Prod.Rep dims) (Prod.Dead dims)
    (fun x y => prodSucc dims x = some y)
    (⟨if dims = [] then [] else zeros (dims.length - 1) ++ [-1], dims, dims.any (fun v => v < 1)⟩ : Prod)
    (prodList dims) hchain
    (by
      rintro s x ⟨hn, hs, hl, he⟩
      exact ⟨s, by simp [Prod.it, hs], hn, hs, hl, he⟩)
    (by
      intro hnil
      apply Prod.next_dead
      refine ⟨rfl, hinitlen, Or.inl ?_⟩
      obtain ⟨n, hn, hlt⟩ := (prodList_eq_nil_iff dims).mp hnil
      simp only [List.any_eq_true, decide_eq_true_eq]
      exact ⟨n, hn, hlt⟩)
    (by
      intro x hx
      have hne : prodList dims ≠ [] := by intro h; simp [h] at hx
      obtain ⟨hhead, _⟩ := hends hne
      rw [hhead] at hx
      simp only [Option.mem_def, Option.some.injEq] at hx
      subst hx
      have hall : ∀ n ∈ dims, ¬ n < 1 := by
        intro n hn hlt
        exact hne ((prodList_eq_nil_iff dims).mpr ⟨n, hn, hlt⟩)
      have hany : dims.any (fun v => decide (v < 1)) = false := by
        simp only [List.any_eq_false, decide_eq_true_eq]
        exact hall
      rcases List.eq_nil_or_concat dims with rfl | ⟨dpre, n, hcc⟩
      on_goal 2 => rw [List.concat_eq_append] at hcc; subst hcc
      · exact ⟨⟨[], [], true⟩, by simp [Prod.it, Prod.next, Prod.scan], rfl, rfl, rfl, rfl⟩
      · have hn1 : ¬ n < 1 := hall n (by simp)
        refine ⟨⟨zeros (dpre ++ [n]).length, dpre ++ [n], false⟩, ?_, rfl, rfl, by simp [zeros], by simp⟩
        have hne' : dpre ++ [n] ≠ [] := by simp
        have hlen1 : (dpre ++ [n]).length - 1 = dpre.length := by simp
        have hl : (zeros dpre.length ++ [-1]).length = (dpre ++ [n]).length := by simp [zeros]
        have hscan := prod_scan_full (dpre ++ [n]) (zeros dpre.length ++ [-1]) hl
        rw [prodSucc_snoc dpre (zeros dpre.length) n (-1) (by simp [zeros])] at hscan
        have hlt : (-1 : Int) + 1 < n := by omega
        simp only [hlt, if_true] at hscan
        simp only [Prod.it, Prod.next, hne', if_false, hany, hlen1, hscan]
        simp [zeros, List.replicate_succ'])
    (fun x y hxy s hs => Prod.next_step dims x y hxy s hs)
    (by
      intro x hx s hs
      have hne : prodList dims ≠ [] := by intro h; simp [h] at hx
      obtain ⟨_, l, hlast, hl⟩ := hends hne
      rw [hlast] at hx
      simp only [Option.mem_def, Option.some.injEq] at hx
      subst hx
      obtain ⟨hn, hst, hlen, he⟩ := hs
      apply Prod.next_dead
      refine ⟨hn, by rw [hst, hlen], ?_⟩
      cases dims with
      | nil => exact Or.inl (by simpa using he)
      | cons a r => exact Or.inr ⟨by rw [hst]; exact hl, by simp⟩)
    (fun s hs => Prod.next_dead dims s hs) bound hb
  exact ⟨s', h1, h3⟩


end Iter
