import Mamba.Model.CanonF
/-!
# Basic lemmas for the faithful model `Model/CanonF.lean`: counted loops and Go slices
-/
namespace CanonF

/-- `osplit h`: split every `match`/`if` in the hypothesis `h : … = Outcome.ok _` (repeatedly), discarding the branches
that end in `panic` / `outOfFuel`; the equations of the scrutinees are left in the context (`heq✝`). -/
syntax "osplit " ident : tactic
macro_rules
  | `(tactic| osplit $h:ident) =>
    `(tactic| repeat' (first
        | (split at $h:ident)
        | (dsimp only at $h:ident; split at $h:ident)
        | (exfalso; simp at $h:ident; done)))

/-! ## counted loops -/

theorem forRange_inv {σ : Type} (f : Nat → σ → Outcome σ) (P : Nat → σ → Prop) :
    ∀ (k lo : Nat) (s r : σ), P lo s →
      (∀ i s s', lo ≤ i → i < lo + k → P i s → f i s = .ok s' → P (i + 1) s') →
      forRange f k lo s = .ok r → P (lo + k) r := by
  intro k
  induction k with
  | zero => intro lo s r h0 _ h; simp [forRange] at h; subst h; simpa using h0
  | succ k ih =>
    intro lo s r h0 hs h
    rw [forRange] at h
    cases hf : f lo s with
    | ok s' =>
      rw [hf] at h
      have := ih (lo + 1) s' r (hs lo s s' (Nat.le_refl _) (by omega) h0 hf)
        (fun i s s' h1 h2 => hs i s s' (by omega) (by omega)) h
      rw [show lo + (k + 1) = lo + 1 + k by omega]; exact this
    | panic => rw [hf] at h; cases h
    | outOfFuel => rw [hf] at h; cases h

theorem forRange_total {σ : Type} (f : Nat → σ → Outcome σ) (P : Nat → σ → Prop) :
    ∀ (k lo : Nat) (s : σ), P lo s →
      (∀ i s, lo ≤ i → i < lo + k → P i s → ∃ s', f i s = .ok s' ∧ P (i + 1) s') →
      ∃ r, forRange f k lo s = .ok r ∧ P (lo + k) r := by
  intro k
  induction k with
  | zero => intro lo s h0 _; exact ⟨s, rfl, by simpa using h0⟩
  | succ k ih =>
    intro lo s h0 hs
    obtain ⟨s', hf, hp⟩ := hs lo s (Nat.le_refl _) (by omega) h0
    obtain ⟨r, hr, hpr⟩ := ih (lo + 1) s' hp (fun i s h1 h2 => hs i s (by omega) (by omega))
    refine ⟨r, ?_, ?_⟩
    · rw [forRange, hf]; exact hr
    · rw [show lo + (k + 1) = lo + 1 + k by omega]; exact hpr

theorem forDown_inv {σ : Type} (f : Nat → σ → Outcome σ) (P : Nat → σ → Prop) :
    ∀ (k : Nat) (s r : σ), P k s →
      (∀ i s s', i < k → P (i + 1) s → f i s = .ok s' → P i s') →
      forDown f k s = .ok r → P 0 r := by
  intro k
  induction k with
  | zero => intro s r h0 _ h; simp [forDown] at h; subst h; exact h0
  | succ k ih =>
    intro s r h0 hs h
    rw [forDown] at h
    cases hf : f k s with
    | ok s' =>
      rw [hf] at h
      exact ih s' r (hs k s s' (by omega) h0 hf) (fun i s s' h1 => hs i s s' (by omega)) h
    | panic => rw [hf] at h; cases h
    | outOfFuel => rw [hf] at h; cases h

theorem forDown_total {σ : Type} (f : Nat → σ → Outcome σ) (P : Nat → σ → Prop) :
    ∀ (k : Nat) (s : σ), P k s →
      (∀ i s, i < k → P (i + 1) s → ∃ s', f i s = .ok s' ∧ P i s') →
      ∃ r, forDown f k s = .ok r ∧ P 0 r := by
  intro k
  induction k with
  | zero => intro s h0 _; exact ⟨s, rfl, h0⟩
  | succ k ih =>
    intro s h0 hs
    obtain ⟨s', hf, hp⟩ := hs k s (by omega) h0
    obtain ⟨r, hr, hpr⟩ := ih s' hp (fun i s h1 => hs i s (by omega))
    exact ⟨r, by rw [forDown, hf]; exact hr, hpr⟩

theorem forList_inv {σ β : Type} (f : β → σ → Outcome σ) (P : σ → Prop) :
    ∀ (l : List β) (s r : σ), P s → (∀ x s s', x ∈ l → P s → f x s = .ok s' → P s') →
      forList f l s = .ok r → P r := by
  intro l
  induction l with
  | nil => intro s r h0 _ h; simp [forList] at h; subst h; exact h0
  | cons x xs ih =>
    intro s r h0 hs h
    rw [forList] at h
    cases hf : f x s with
    | ok s' =>
      rw [hf] at h
      exact ih s' r (hs x s s' (List.mem_cons_self ..) h0 hf)
        (fun y s s' hy => hs y s s' (List.mem_cons_of_mem _ hy)) h
    | panic => rw [hf] at h; cases h
    | outOfFuel => rw [hf] at h; cases h

theorem forList_total {σ β : Type} (f : β → σ → Outcome σ) (P : σ → Prop) :
    ∀ (l : List β) (s : σ), P s → (∀ x s, x ∈ l → P s → ∃ s', f x s = .ok s' ∧ P s') →
      ∃ r, forList f l s = .ok r ∧ P r := by
  intro l
  induction l with
  | nil => intro s h0 _; exact ⟨s, rfl, h0⟩
  | cons x xs ih =>
    intro s h0 hs
    obtain ⟨s', hf, hp⟩ := hs x s (List.mem_cons_self ..) h0
    obtain ⟨r, hr, hpr⟩ := ih s' hp (fun y s hy => hs y s (List.mem_cons_of_mem _ hy))
    exact ⟨r, by rw [forList, hf]; exact hr, hpr⟩

/-! ## slices -/

namespace Sl
variable {α : Type}

/-- the length does not exceed the capacity -/
def WF (s : Sl α) : Prop := s.len ≤ s.data.size

theorem length_toList (s : Sl α) (h : s.WF) : s.toList.length = s.len := by
  simp [toList, WF] at *; omega

theorem getElem?_toList (s : Sl α) (i : Nat) :
    s.toList[i]? = if i < s.len then s.data[i]? else none := by
  simp only [toList, List.getElem?_take]
  split <;> simp

theorem get_eq_ok {s : Sl α} {i : Nat} {v : α} : s.get i = .ok v ↔ i < s.len ∧ s.data[i]? = some v := by
  unfold get
  by_cases h : i < s.len
  · simp only [h, if_true, true_and]
    cases hd : s.data[i]? <;> simp
  · simp [h]

theorem get_ok_of_lt {s : Sl α} (hw : s.WF) {i : Nat} (h : i < s.len) : ∃ v, s.get i = .ok v ∧ s.data[i]? = some v := by
  have : i < s.data.size := Nat.lt_of_lt_of_le h hw
  exact ⟨s.data[i], get_eq_ok.2 ⟨h, by simp [this]⟩, by simp [this]⟩

theorem get_lt {s : Sl α} {i : Nat} {v : α} (h : s.get i = .ok v) : i < s.len := (get_eq_ok.1 h).1

theorem set_eq_ok {s s' : Sl α} {i : Nat} {v : α} :
    s.set i v = .ok s' ↔ (i < s.len ∧ i < s.data.size) ∧ s' = ⟨s.data.setIfInBounds i v, s.len⟩ := by
  unfold set
  by_cases h : i < s.len ∧ i < s.data.size
  · simp [h]; exact eq_comm
  · simp [h]

theorem set_ok_of_lt {s : Sl α} (hw : s.WF) {i : Nat} (h : i < s.len) (v : α) :
    s.set i v = .ok ⟨s.data.setIfInBounds i v, s.len⟩ := by
  have : i < s.data.size := Nat.lt_of_lt_of_le h hw
  simp [set, h, this]

theorem reslice_eq_ok {s s' : Sl α} {k : Nat} : s.reslice k = .ok s' ↔ k ≤ s.data.size ∧ s' = ⟨s.data, k⟩ := by
  unfold reslice
  by_cases h : k ≤ s.data.size
  · simp [h]; exact eq_comm
  · simp [h]

@[simp] theorem size_writeList (a : Array α) (d : Nat) (l : List α) : (writeList a d l).size = a.size := by
  induction l generalizing a d with
  | nil => rfl
  | cons x xs ih => simp [writeList, ih]

theorem getElem?_writeList (a : Array α) (d : Nat) (l : List α) (i : Nat) :
    (writeList a d l)[i]? = if d ≤ i ∧ i < d + l.length ∧ i < a.size then l[i - d]? else a[i]? := by
  induction l generalizing a d with
  | nil => simp [writeList]; intro h1 h2; omega
  | cons x xs ih =>
    rw [writeList, ih]
    simp only [Array.size_setIfInBounds, List.length_cons, Array.getElem?_setIfInBounds]
    by_cases h1 : d + 1 ≤ i ∧ i < d + 1 + xs.length ∧ i < a.size
    · have h2 : d ≤ i ∧ i < d + (xs.length + 1) ∧ i < a.size := by omega
      rw [if_pos h1, if_pos h2]
      have : i - d = (i - (d + 1)) + 1 := by omega
      rw [this, List.getElem?_cons_succ]
    · rw [if_neg h1]
      by_cases h3 : d = i
      · subst h3
        by_cases h4 : d < a.size
        · simp [h4]
        · simp [h4]
      · simp only [h3, if_false]
        have h2 : ¬ (d ≤ i ∧ i < d + (xs.length + 1) ∧ i < a.size) := by omega
        rw [if_neg h2]


theorem toList_eq_of_getElem? {s t : Sl α} (hl : s.len = t.len)
    (h : ∀ i, i < s.len → s.data[i]? = t.data[i]?) : s.toList = t.toList := by
  apply List.ext_getElem?
  intro i
  rw [getElem?_toList, getElem?_toList, ← hl]
  split
  · exact h i ‹_›
  · rfl

theorem toList_set {s s' : Sl α} {i : Nat} {v : α} (h : s.set i v = .ok s') : s'.toList = s.toList.set i v := by
  obtain ⟨⟨h1, h2⟩, rfl⟩ := set_eq_ok.1 h
  apply List.ext_getElem?
  intro j
  simp only [getElem?_toList, List.getElem?_set, Array.getElem?_setIfInBounds]
  by_cases hj : j < s.len
  · simp only [hj, if_true]
    by_cases hij : i = j
    · subst hij; simp [h2, toList]; omega
    · simp [hij]
  · simp only [hj, if_false]
    by_cases hij : i = j
    · subst hij; exact absurd h1 hj
    · simp [hij]

theorem set_wf {s s' : Sl α} {i : Nat} {v : α} (hw : s.WF) (h : s.set i v = .ok s') : s'.WF := by
  obtain ⟨_, rfl⟩ := set_eq_ok.1 h
  simpa [WF] using hw

theorem set_len {s s' : Sl α} {i : Nat} {v : α} (h : s.set i v = .ok s') : s'.len = s.len := by
  obtain ⟨_, rfl⟩ := set_eq_ok.1 h; rfl

theorem set_cap {s s' : Sl α} {i : Nat} {v : α} (h : s.set i v = .ok s') : s'.data.size = s.data.size := by
  obtain ⟨_, rfl⟩ := set_eq_ok.1 h; simp

theorem set_data {s s' : Sl α} {i : Nat} {v : α} (h : s.set i v = .ok s') (j : Nat) :
    s'.data[j]? = if j = i then some v else s.data[j]? := by
  obtain ⟨⟨_, h2⟩, rfl⟩ := set_eq_ok.1 h
  simp only [Array.getElem?_setIfInBounds]
  by_cases hj : i = j
  · subst hj; simp [h2]
  · simp [hj, Ne.symm hj]

theorem get_eq_toList {s : Sl α} {i : Nat} {v : α} : s.get i = .ok v ↔ s.toList[i]? = some v := by
  rw [get_eq_ok, getElem?_toList]
  by_cases h : i < s.len <;> simp [h]

theorem reslice_len {s s' : Sl α} {k : Nat} (h : s.reslice k = .ok s') : s'.len = k ∧ s'.data = s.data ∧ s'.WF := by
  obtain ⟨h1, rfl⟩ := reslice_eq_ok.1 h
  exact ⟨rfl, rfl, h1⟩

/-- the list view of `writeList` -/
theorem toList_writeList (a : Array α) (d : Nat) (l : List α) (h : d + l.length ≤ a.size) :
    (writeList a d l).toList = a.toList.take d ++ l ++ a.toList.drop (d + l.length) := by
  apply List.ext_getElem?
  intro i
  rw [Array.getElem?_toList, getElem?_writeList]
  by_cases h1 : i < d
  · have : ¬ (d ≤ i ∧ i < d + l.length ∧ i < a.size) := by omega
    rw [if_neg this, List.append_assoc, List.getElem?_append_left (by simp; omega)]
    simp [h1]
  · by_cases h2 : i < d + l.length
    · have : d ≤ i ∧ i < d + l.length ∧ i < a.size := by omega
      rw [if_pos this, List.append_assoc, List.getElem?_append_right (by simp; omega)]
      have hl : (List.take d a.toList).length = d := by simp; omega
      rw [hl, List.getElem?_append_left (by omega)]
    · have : ¬ (d ≤ i ∧ i < d + l.length ∧ i < a.size) := by omega
      have hl : (List.take d a.toList ++ l).length = d + l.length := by simp; omega
      rw [if_neg this, List.getElem?_append_right (by rw [hl]; omega)]
      rw [hl, List.getElem?_drop, show d + l.length + (i - (d + l.length)) = i by omega, Array.getElem?_toList]

theorem copyFrom_len (s : Sl α) (src : List α) : (s.copyFrom src).len = s.len := rfl
theorem copyFrom_cap (s : Sl α) (src : List α) : (s.copyFrom src).data.size = s.data.size := by simp [copyFrom]
theorem copyFrom_wf {s : Sl α} (hw : s.WF) (src : List α) : (s.copyFrom src).WF := by
  simp [WF, copyFrom]; exact hw

theorem copyFrom_data (s : Sl α) (hw : s.WF) (src : List α) (i : Nat) :
    (s.copyFrom src).data[i]? = if i < src.length ∧ i < s.len then src[i]? else s.data[i]? := by
  simp only [copyFrom, getElem?_writeList, List.length_take]
  have := hw
  unfold WF at this
  by_cases h : i < src.length ∧ i < s.len
  · rw [if_pos h, if_pos (by omega)]
    simp [h.2]
  · rw [if_neg h, if_neg (by omega)]

/-- copying a full-length source gives exactly the source -/
theorem copyFrom_toList (s : Sl α) (hw : s.WF) (src : List α) (h : src.length = s.len) :
    (s.copyFrom src).toList = src := by
  apply List.ext_getElem?
  intro i
  rw [getElem?_toList, copyFrom_data s hw, copyFrom_len]
  by_cases hi : i < s.len
  · simp [hi, h]
  · simp [hi]; omega


theorem copyAt_eq_ok {s s' : Sl α} {d : Nat} {src : List α} :
    s.copyAt d src = .ok s' ↔ d ≤ s.len ∧ s' = ⟨writeList s.data d (src.take (s.len - d)), s.len⟩ := by
  unfold copyAt
  by_cases h : d ≤ s.len
  · simp [h]; exact eq_comm
  · simp [h]

theorem copyAt_data {s s' : Sl α} {d : Nat} {src : List α} (hw : s.WF) (h : s.copyAt d src = .ok s') (i : Nat) :
    s'.data[i]? = if d ≤ i ∧ i < d + src.length ∧ i < s.len then src[i - d]? else s.data[i]? := by
  obtain ⟨h1, rfl⟩ := copyAt_eq_ok.1 h
  simp only [getElem?_writeList, List.length_take]
  have := hw; unfold WF at this
  by_cases hc : d ≤ i ∧ i < d + src.length ∧ i < s.len
  · rw [if_pos hc, if_pos (by omega)]
    simp [List.getElem?_take]; omega
  · rw [if_neg hc, if_neg (by omega)]

theorem copyAt_len {s s' : Sl α} {d : Nat} {src : List α} (h : s.copyAt d src = .ok s') :
    s'.len = s.len ∧ s'.data.size = s.data.size := by
  obtain ⟨_, rfl⟩ := copyAt_eq_ok.1 h; simp

theorem copySelf_eq_ok {s s' : Sl α} {d a b : Nat} :
    s.copySelf d a b = .ok s' ↔ (d ≤ s.len ∧ a ≤ b ∧ b ≤ s.data.size) ∧
      s' = ⟨writeList s.data d (((s.data.extract a b).toList).take (s.len - d)), s.len⟩ := by
  unfold copySelf
  by_cases h : d ≤ s.len ∧ a ≤ b ∧ b ≤ s.data.size
  · simp [h]; exact eq_comm
  · simp [h]

theorem copySelf_len {s s' : Sl α} {d a b : Nat} (h : s.copySelf d a b = .ok s') :
    s'.len = s.len ∧ s'.data.size = s.data.size := by
  obtain ⟨_, rfl⟩ := copySelf_eq_ok.1 h; simp

/-- `copy(s[d:], s[a:b])`: position `i` in `[d, d + min(len - d, b - a))` receives the old `s[a + (i - d)]` -/
theorem copySelf_data {s s' : Sl α} {d a b : Nat} (hw : s.WF) (h : s.copySelf d a b = .ok s') (i : Nat) :
    s'.data[i]? = if d ≤ i ∧ i < d + (b - a) ∧ i < s.len then s.data[a + (i - d)]? else s.data[i]? := by
  obtain ⟨⟨h1, h2, h3⟩, rfl⟩ := copySelf_eq_ok.1 h
  simp only [getElem?_writeList, List.length_take, Array.length_toList, Array.size_extract]
  have := hw; unfold WF at this
  by_cases hc : d ≤ i ∧ i < d + (b - a) ∧ i < s.len
  · rw [if_pos hc, if_pos (by omega)]
    rw [List.getElem?_take, if_pos (by omega), Array.getElem?_toList, Array.getElem?_extract, if_pos (by omega)]
  · rw [if_neg hc, if_neg (by omega)]

theorem insertAt_spec {s s' : Sl α} {b : Nat} {v : α} (hw : s.WF) (h : insertAt s b v = .ok s') :
    b ≤ s.len ∧ s.len + 1 ≤ s.data.size ∧ s'.len = s.len + 1 ∧ s'.data.size = s.data.size ∧
      s'.toList = s.toList.take b ++ v :: s.toList.drop b ∧
      (∀ i, s.len + 1 ≤ i → s'.data[i]? = s.data[i]?) := by
  unfold insertAt at h
  cases h1 : s.reslice (s.len + 1) with
  | ok s1 =>
    rw [h1] at h
    obtain ⟨e1, e2, w1⟩ := reslice_len h1
    simp only at h
    cases h2 : s1.copySelf (b + 1) b s1.len with
    | ok s2 =>
      rw [h2] at h
      simp only at h
      obtain ⟨⟨c1, c2, c3⟩, _⟩ := copySelf_eq_ok.1 h2
      have d2 := copySelf_data w1 h2
      obtain ⟨l2, z2⟩ := copySelf_len h2
      have d3 := set_data h
      have l3 := set_len h
      have z3 := set_cap h
      obtain ⟨⟨g1, g2⟩, _⟩ := set_eq_ok.1 h
      have hsz : s.len + 1 ≤ s.data.size := by rw [← e2, ← e1]; exact w1
      refine ⟨by omega, hsz, by omega, by rw [z3, z2, e2], ?_, ?_⟩
      · apply List.ext_getElem?
        intro i
        rw [getElem?_toList, d3, d2, l3, l2, e1, e2]
        have hlen : s.toList.length = s.len := length_toList s hw
        have htk : (List.take b s.toList).length = b := by rw [List.length_take, hlen]; omega
        by_cases hi : i < b
        · have : ¬ (b + 1 ≤ i ∧ i < b + 1 + (s.len + 1 - b) ∧ i < s.len + 1) := by omega
          rw [if_pos (by omega), if_neg (by omega), if_neg this,
            List.getElem?_append_left (by omega), List.getElem?_take, if_pos hi, getElem?_toList, if_pos (by omega)]
        · by_cases hib : i = b
          · subst hib
            rw [if_pos (by omega), if_pos rfl, List.getElem?_append_right (by omega), htk]
            simp
          · by_cases hil : i < s.len + 1
            · rw [if_pos hil, if_neg hib, if_pos (by omega), List.getElem?_append_right (by omega)]
              rw [htk, show i - b = (i - b - 1) + 1 by omega, List.getElem?_cons_succ, List.getElem?_drop,
                getElem?_toList, if_pos (by omega), show b + (i - (b + 1)) = b + (i - b - 1) by omega]
            · rw [if_neg hil]
              symm; apply List.getElem?_eq_none
              simp [hlen]; omega
      · intro i hi
        rw [d3, d2, if_neg (by omega), if_neg (by omega), e2]
    | panic => rw [h2] at h; cases h
    | outOfFuel => rw [h2] at h; cases h
  | panic => rw [h1] at h; cases h
  | outOfFuel => rw [h1] at h; cases h


theorem swap_spec {s s' : Sl α} {i j : Nat} (h : s.swap i j = .ok s') :
    i < s.len ∧ j < s.len ∧ i < s.data.size ∧ j < s.data.size ∧ s'.len = s.len ∧ s'.data.size = s.data.size ∧
      ∃ x y, s.data[i]? = some x ∧ s.data[j]? = some y ∧
        ∀ k, s'.data[k]? = if k = j then some x else if k = i then some y else s.data[k]? := by
  unfold swap at h
  cases hx : s.get i with
  | ok x =>
    cases hy : s.get j with
    | ok y =>
      rw [hx, hy] at h
      simp only at h
      cases h1 : s.set i y with
      | ok s1 =>
        rw [h1] at h
        simp only at h
        obtain ⟨a1, a2⟩ := get_eq_ok.1 hx
        obtain ⟨b1, b2⟩ := get_eq_ok.1 hy
        obtain ⟨⟨c1, c2⟩, _⟩ := set_eq_ok.1 h1
        obtain ⟨⟨e1, e2⟩, _⟩ := set_eq_ok.1 h
        have l1 := set_len h1; have z1 := set_cap h1
        refine ⟨a1, b1, c2, by omega, by rw [set_len h, l1], by rw [set_cap h, z1], x, y, a2, b2, ?_⟩
        intro k
        rw [set_data h, set_data h1]
      | panic => rw [h1] at h; cases h
      | outOfFuel => rw [h1] at h; cases h
    | panic => rw [hx, hy] at h; cases h
    | outOfFuel => rw [hx, hy] at h; cases h
  | panic => rw [hx] at h; cases h
  | outOfFuel => rw [hx] at h; cases h

/-- a swap permutes the visible part -/
theorem swap_perm {s s' : Sl α} {i j : Nat} (h : s.swap i j = .ok s') : s'.toList.Perm s.toList := by
  obtain ⟨hi, hj, hi', hj', hl, hz, x, y, hx, hy, hd⟩ := swap_spec h
  have e : s'.toList = (s.toList.set i y).set j x := by
    apply List.ext_getElem?
    intro k
    rw [getElem?_toList, hd, hl, List.getElem?_set, List.getElem?_set, getElem?_toList]
    by_cases hk : k < s.len
    · simp only [hk, if_true]
      by_cases hkj : j = k
      · subst hkj; simp [toList]; omega
      · rw [if_neg (Ne.symm hkj), if_neg hkj]
        by_cases hki : i = k
        · subst hki; simp [toList]; omega
        · rw [if_neg (Ne.symm hki), if_neg hki]
    · simp only [hk, if_false]
      have : j ≠ k := by omega
      have : i ≠ k := by omega
      simp [*]
  rw [e]
  have hxi : s.toList[i]? = some x := by rw [getElem?_toList, if_pos hi, hx]
  have hyj : s.toList[j]? = some y := by rw [getElem?_toList, if_pos hj, hy]
  have hil : i < s.toList.length := by
    rcases List.getElem?_eq_some_iff.1 hxi with ⟨h, _⟩; exact h
  have hjl : j < s.toList.length := by
    rcases List.getElem?_eq_some_iff.1 hyj with ⟨h, _⟩; exact h
  have hx' : s.toList[i] = x := by rcases List.getElem?_eq_some_iff.1 hxi with ⟨_, h⟩; exact h
  have hy' : s.toList[j] = y := by rcases List.getElem?_eq_some_iff.1 hyj with ⟨_, h⟩; exact h
  rw [← hx', ← hy']
  exact List.set_set_perm hil hjl

end Sl
end CanonF
