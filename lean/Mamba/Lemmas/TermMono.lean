import Mamba.Lemmas.TermAug
namespace Search

variable (O : Oracle) (pre pr : DG → Bool)

theorem run_outer (f : Nat) (cont sf : Bool) (s : State) :
    run O pre pr (f + 1) (.outer cont sf) s =
      if !cont then
        if s.g.nv = s.n then .ok (s, true)
        else
          match addAugmentations O s.n s.g s.choices s.cache with
          | .ok (ch, cache, num) =>
            run O pre pr f (.step true) { s with choices := ch, cache := cache, currentPath := s.currentPath.push num }
          | .panic => .panic
          | .outOfFuel => .outOfFuel
      else run O pre pr f (.step sf) s := rfl

theorem run_step (f : Nat) (sf : Bool) (s : State) :
    run O pre pr (f + 1) (.step sf) s =
      if s.choices.size = 0 then .ok (s, false)
      else
        match s.currentPath.back? with
        | none => .panic
        | some cp => run O pre pr f (.inner sf cp) s := rfl

theorem run_inner_zero (f : Nat) (sf : Bool) (s : State) :
    run O pre pr (f + 1) (.inner sf 0) s =
      match (if !sf then removeClear s else .ok s) with
      | .ok s1 =>
        if s1.currentPath.size = 0 then .panic
        else run O pre pr f (.step false) { s1 with currentPath := s1.currentPath.pop }
      | .panic => .panic
      | .outOfFuel => .outOfFuel := rfl

theorem run_inner_succ (f : Nat) (sf : Bool) (i : Nat) (s : State) :
    run O pre pr (f + 1) (.inner sf (i + 1)) s =
      match s.choices.back? with
      | none => .panic
      | some x =>
        let s0 := { s with choices := s.choices.pop }
        if s0.m = 0 then .panic
        else if i % s0.m != s0.a && ((s.currentPath.size : Nat) : Int) == splitLevel s0.n then
          run O pre pr f (.inner sf i) s0
        else
          let v := bitsOf x
          match (if !sf then removeClear s0 else .ok s0) with
          | .panic => .panic
          | .outOfFuel => .outOfFuel
          | .ok s1 =>
            match s1.g.addVertex v with
            | .panic => .panic
            | .outOfFuel => .outOfFuel
            | .ok g2 =>
              let s2 := { s1 with g := g2, cache := none }
              if pre g2 then run O pre pr f (.inner false i) s2
              else
                match isCanonical O s2.n g2 v s2.cache with
                | .panic => .panic
                | .outOfFuel => .outOfFuel
                | .ok (cache, canon) =>
                  let s3 := { s2 with cache := cache }
                  if canon && !pr g2 then
                    if s3.currentPath.size = 0 then .panic
                    else
                      run O pre pr f (.outer false false)
                        { s3 with currentPath := s3.currentPath.setIfInBounds (s3.currentPath.size - 1) i }
                  else run O pre pr f (.inner false i) s3 := rfl

/-- more fuel does not change a result of `run` -/
theorem run_mono :
    ∀ (f : Nat) (mode : Mode) (s : State) (r : State × Bool), run O pre pr f mode s = .ok r →
      run O pre pr (f + 1) mode s = .ok r
  | 0, _, _, _ => by intro h; simp [run] at h
  | f + 1, .outer cont sf, s, r => by
    rw [run_outer, run_outer]
    repeat' split
    all_goals (intro h; first | exact h | exact run_mono f _ _ _ h | cases h)
  | f + 1, .step sf, s, r => by
    rw [run_step, run_step]
    repeat' split
    all_goals (intro h; first | exact h | exact run_mono f _ _ _ h | cases h)
  | f + 1, .inner sf 0, s, r => by
    rw [run_inner_zero, run_inner_zero]
    repeat' split
    all_goals (intro h; first | exact h | exact run_mono f _ _ _ h | cases h)
  | f + 1, .inner sf (i + 1), s, r => by
    rw [run_inner_succ, run_inner_succ]
    simp only
    repeat' split
    all_goals (intro h; first | exact h | exact run_mono f _ _ _ h | cases h)

theorem run_mono_le {f f' : Nat} (hle : f ≤ f') {mode : Mode} {s : State}
    {r : State × Bool} (h : run O pre pr f mode s = .ok r) : run O pre pr f' mode s = .ok r := by
  obtain ⟨k, rfl⟩ := Nat.exists_eq_add_of_le hle
  induction k with
  | zero => exact h
  | succ k ih => exact run_mono O pre pr _ _ _ _ (ih (Nat.le_add_right _ _))

end Search
