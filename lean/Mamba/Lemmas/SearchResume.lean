import Mamba.Lemmas.SearchInv
/-! Save/Load resumes exactly (property C04): the invariant of reachable iterator states, `load ∘ save`, and the
irrelevance of the cache at `Next` boundaries. -/
namespace Search

/-- invariant of the iterator between two calls of `Next` -/
structure Inv (s : State) : Prop where
  sized : s.g.Sized
  le : s.g.nv ≤ s.n
  fresh : s.first = true → s.cache = none ∧ s.g.nv ≤ 1

theorem init_inv (n a m : Nat) : Inv (init n a m) :=
  ⟨⟨by simp [init, DG.empty], by simp [init, DG.empty, tri]⟩, Nat.zero_le _, fun _ => ⟨rfl, Nat.zero_le _⟩⟩

theorem core_inv {s : State} (h : Inv s) : Inv s.core :=
  ⟨h.sized, h.le, fun hf => ⟨rfl, (h.fresh hf).2⟩⟩

theorem tri_le_one {k : Nat} (h : k ≤ 1) : tri k = 0 := by
  cases k with
  | zero => rfl
  | succ k => cases k with
    | zero => rfl
    | succ k => omega

theorem single_sized {g : DG} (hs : g.Sized) (h1 : g.nv ≤ 1) : g.single.Sized ∧ g.single.nv = 1 := by
  refine ⟨⟨by simp [DG.single], ?_⟩, rfl⟩
  have := hs.edges
  rw [tri_le_one h1] at this
  simp only [DG.single, this]
  rfl

/-- `Next` preserves the invariant -/
theorem next_inv (O : Oracle) (pre pr : DG → Bool) (fuel : Nat) {s s' : State} {b : Bool}
    (h : next O pre pr fuel s = .ok (s', b)) (hi : Inv s) : Inv s' := by
  unfold next at h
  split at h
  · -- n = 0
    split at h <;> cases h
    · exact ⟨hi.sized, hi.le, fun hf => by simp at hf⟩
    · exact hi
  · split at h
    · -- n = 1
      rename_i h0 h1
      have hs := single_sized hi.sized (h1 ▸ hi.le)
      simp only at h
      split at h <;> cases h
      · exact ⟨hs.1, by simp [hs.2, h1], fun hf => by simp at hf⟩
      · exact ⟨hs.1, by simp [hs.2, h1], fun hf => ⟨(hi.fresh hf).1, by simp [hs.2]⟩⟩
    · rename_i h0 h1
      have hn2 : 2 ≤ s.n := by omega
      split at h
      · -- first
        rename_i hf
        have hs := single_sized hi.sized (hi.fresh hf).2
        simp only at h
        split at h
        · cases h
          exact ⟨hs.1, by simp only [hs.2]; omega, fun hf' => by simp at hf'⟩
        · have := run_inv O pre pr fuel _ _ _ _ h
          have hp := this.1
          have hz := this.2 ⟨hs.1, by simp only [hs.2]; omega, fun hh => by simp [Mode.sf] at hh⟩
          exact ⟨hz.1, hz.2, fun hf' => by rw [hp.2.2.2] at hf'; simp at hf'⟩
      · rename_i hf
        have := run_inv O pre pr fuel _ _ _ _ h
        have hp := this.1
        have hz := this.2 ⟨hi.sized, hi.le, fun hh => by simp [Mode.sf] at hh⟩
        exact ⟨hz.1, hz.2, fun hf' => by rw [hp.2.2.2] at hf'; exact absurd hf' hf⟩

/-! ### `load ∘ save` -/

theorem copyInto_eq {α : Type} (dst src : Array α) (h : dst.size = src.size) : copyInto dst src = src := by
  apply Array.ext
  · simp [copyInto, h]
  · intro i h1 h2
    simp [copyInto, h2]

/-- `Load` after `Save` rebuilds the state, except for the cached automorphism data -/
theorem load_save_core {s : State} (hi : Inv s) : load (save s) = .ok s.core := by
  unfold load save
  have h1 : ¬ s.g.nv > s.n := Nat.not_lt.2 hi.le
  have h2 : ¬ s.g.edges.size > tri s.n := by
    rw [hi.sized.edges]; exact Nat.not_lt.2 (tri_mono hi.le)
  simp only [h1, h2, if_false, init, State.core]
  rw [copyInto_eq _ _ (by simp [hi.sized.degs]), copyInto_eq _ _ (by simp)]

/-! ### the cache is dead at `Next` boundaries -/

/-- two states that differ at most in the cache, and not even there while `first` is set -/
structure Similar (s t : State) : Prop where
  core : s.core = t.core
  first : s.first = true → s.cache = t.cache

theorem State.eq_of_core {s t : State} (h : s.core = t.core) (hc : s.cache = t.cache) : s = t := by
  cases s; cases t
  simp only [State.core, State.mk.injEq] at h
  simp only at hc
  simp [h, hc]

theorem State.eq_with_cache (s t : State) (h : s.core = t.core) : s = { t with cache := s.cache } := by
  cases s; cases t
  simp only [State.core, State.mk.injEq] at h
  simp [h]

/-- **`Next` does not depend on the cached automorphism data** (no hypothesis on the oracle is needed: between two
calls of `Next` the cache is overwritten before it is read, except in the very first call, where it is empty) -/
theorem next_similar (O : Oracle) (pre pr : DG → Bool) (fuel : Nat) {s t : State} (h : Similar s t) :
    eraseCache (next O pre pr fuel s) = eraseCache (next O pre pr fuel t) := by
  by_cases hf : s.first = true
  · rw [State.eq_of_core h.core (h.first hf)]
  · have hf' : s.first = false := by simpa using hf
    have ht : t.first = false := by
      have := (core_eq_iff.1 h.core).2.2.2.1; rw [← this]; exact hf'
    rw [State.eq_with_cache s t h.core]
    generalize s.cache = c
    obtain ⟨n, a, m, first, g, ch, cp, tc⟩ := t
    simp only at ht
    subst ht
    unfold next
    simp only [Bool.false_and, Bool.false_eq_true, if_false]
    split
    · rfl
    · split
      · rfl
      · exact run_cache_dead O pre pr fuel (.outer true false) ⟨n, a, m, false, g, ch, cp, tc⟩ c rfl

theorem eraseCache_ok {r : Outcome (State × Bool)} {s : State} {b : Bool} (h : eraseCache r = .ok (s, b)) :
    ∃ s0, r = .ok (s0, b) ∧ s0.core = s := by
  cases r with
  | ok p => obtain ⟨s0, b0⟩ := p; simp only [eraseCache, Outcome.ok.injEq, Prod.mk.injEq] at h; exact ⟨s0, by rw [h.2], h.1⟩
  | panic => cases h
  | outOfFuel => cases h

/-- after one `Next` from similar states: same answer, similar states -/
theorem next_similar_ok (O : Oracle) (pre pr : DG → Bool) (fuel : Nat) {s t s' : State} {b : Bool}
    (h : Similar s t) (hs : Inv s) (ht : Inv t) (hn : next O pre pr fuel s = .ok (s', b)) :
    ∃ t', next O pre pr fuel t = .ok (t', b) ∧ Similar s' t' := by
  have := next_similar O pre pr fuel h
  rw [hn] at this
  obtain ⟨t', ht', hc⟩ := eraseCache_ok this.symm
  refine ⟨t', ht', ⟨hc.symm, fun hf => ?_⟩⟩
  have h1 := (next_inv O pre pr fuel hn hs).fresh hf
  have hf2 : t'.first = true := by
    have := (core_eq_iff.1 hc).2.2.2.1; rw [this]; exact hf
  have h2 := (next_inv O pre pr fuel ht' ht).fresh hf2
  rw [h1.1, h2.1]

theorem next_similar_fail (O : Oracle) (pre pr : DG → Bool) (fuel : Nat) {s t : State} (h : Similar s t) :
    (next O pre pr fuel s = .panic → next O pre pr fuel t = .panic) ∧
    (next O pre pr fuel s = .outOfFuel → next O pre pr fuel t = .outOfFuel) := by
  have := next_similar O pre pr fuel h
  constructor <;> intro hn <;> rw [hn] at this <;> cases ht : next O pre pr fuel t <;>
    simp [ht, eraseCache] at this ⊢

theorem Similar.g_eq {s t : State} (h : Similar s t) : s.g = t.g := (core_eq_iff.1 h.core).2.2.2.2.1

/-- forget the cache of the final state of `advance` / `exhaust` -/
def eraseOut : Outcome (List DG × State) → Outcome (List DG × State)
  | .ok (l, s) => .ok (l, s.core)
  | .panic => .panic
  | .outOfFuel => .outOfFuel

/-- `k` calls of `Next` from similar states yield the same graphs and end in similar states -/
theorem advance_similar (O : Oracle) (pre pr : DG → Bool) (fuel : Nat) :
    ∀ (k : Nat) (s t : State), Similar s t → Inv s → Inv t →
      eraseOut (advance O pre pr fuel k s) = eraseOut (advance O pre pr fuel k t)
  | 0, s, t, h, _, _ => by simp [advance, eraseOut, h.core]
  | k + 1, s, t, h, hs, ht => by
    simp only [advance]
    cases hn : next O pre pr fuel s with
    | ok p =>
      obtain ⟨s1, b⟩ := p
      obtain ⟨t1, ht1, hsim⟩ := next_similar_ok O pre pr fuel h hs ht hn
      rw [ht1]
      simp only
      have ih := advance_similar O pre pr fuel k s1 t1 hsim (next_inv O pre pr fuel hn hs)
        (next_inv O pre pr fuel ht1 ht)
      rw [hsim.g_eq]
      cases ha : advance O pre pr fuel k s1 <;> cases hb : advance O pre pr fuel k t1 <;>
        simp only [ha, hb, eraseOut] at ih ⊢ <;> try cases ih
      all_goals (try rfl)
      rename_i p q
      obtain ⟨l1, u1⟩ := p
      obtain ⟨l2, u2⟩ := q
      simp only [Outcome.ok.injEq, Prod.mk.injEq] at ih
      simp [ih.1, ih.2]
    | panic => rw [(next_similar_fail O pre pr fuel h).1 hn]
    | outOfFuel => rw [(next_similar_fail O pre pr fuel h).2 hn]

theorem exhaust_similar (O : Oracle) (pre pr : DG → Bool) (fuel : Nat) :
    ∀ (lim : Nat) (s t : State), Similar s t → Inv s → Inv t →
      eraseOut (exhaust O pre pr fuel lim s) = eraseOut (exhaust O pre pr fuel lim t)
  | 0, _, _, _, _, _ => rfl
  | k + 1, s, t, h, hs, ht => by
    simp only [exhaust]
    cases hn : next O pre pr fuel s with
    | ok p =>
      obtain ⟨s1, b⟩ := p
      obtain ⟨t1, ht1, hsim⟩ := next_similar_ok O pre pr fuel h hs ht hn
      rw [ht1]
      cases b with
      | false => simp [eraseOut, hsim.core]
      | true =>
        simp only
        have ih := exhaust_similar O pre pr fuel k s1 t1 hsim (next_inv O pre pr fuel hn hs)
          (next_inv O pre pr fuel ht1 ht)
        rw [hsim.g_eq]
        cases ha : exhaust O pre pr fuel k s1 <;> cases hb : exhaust O pre pr fuel k t1 <;>
          simp only [ha, hb, eraseOut] at ih ⊢ <;> try cases ih
        all_goals (try rfl)
        rename_i p q
        obtain ⟨l1, u1⟩ := p
        obtain ⟨l2, u2⟩ := q
        simp only [Outcome.ok.injEq, Prod.mk.injEq] at ih
        simp [ih.1, ih.2]
    | panic => rw [(next_similar_fail O pre pr fuel h).1 hn]
    | outOfFuel => rw [(next_similar_fail O pre pr fuel h).2 hn]

theorem similar_core {s : State} (hi : Inv s) : Similar s.core s :=
  ⟨by cases s; rfl, fun hf => by
    have : s.first = true := by cases s; exact hf
    rw [(hi.fresh this).1]; cases s; rfl⟩

theorem advance_inv (O : Oracle) (pre pr : DG → Bool) (fuel : Nat) :
    ∀ (k : Nat) (s s' : State) (out : List DG), advance O pre pr fuel k s = .ok (out, s') → Inv s → Inv s'
  | 0, s, s', out, h, hi => by simp only [advance] at h; cases h; exact hi
  | k + 1, s, s', out, h, hi => by
    simp only [advance] at h
    split at h
    · rename_i s1 b hn
      split at h
      · rename_i out' s2 ha
        cases h
        exact advance_inv O pre pr fuel k s1 _ _ ha (next_inv O pre pr fuel hn hi)
      · cases h
      · cases h
    · cases h
    · cases h

theorem eraseOut_ok {r : Outcome (List DG × State)} {l : List DG} {s : State} (h : eraseOut r = .ok (l, s)) :
    ∃ s0, r = .ok (l, s0) ∧ s0.core = s := by
  cases r with
  | ok p =>
    obtain ⟨l0, s0⟩ := p
    simp only [eraseOut, Outcome.ok.injEq, Prod.mk.injEq] at h
    exact ⟨s0, by rw [h.1], h.2⟩
  | panic => cases h
  | outOfFuel => cases h

theorem eraseOut_fail {r r' : Outcome (List DG × State)} (h : eraseOut r = eraseOut r') :
    (r = .panic → r' = .panic) ∧ (r = .outOfFuel → r' = .outOfFuel) := by
  constructor <;> intro hr <;> subst hr <;> cases r' <;> simp [eraseOut] at h ⊢

theorem save_core (s : State) : save s.core = save s := rfl

/-- a save/load chain started in similar states gives the same output -/
theorem chain_similar (O : Oracle) (pre pr : DG → Bool) (fuel lim : Nat) (ks : List Nat) {s t : State}
    (h : Similar s t) (hs : Inv s) (ht : Inv t) :
    chain O pre pr fuel lim ks s = chain O pre pr fuel lim ks t := by
  cases ks with
  | nil =>
    simp only [chain]
    have := exhaust_similar O pre pr fuel lim s t h hs ht
    cases ha : exhaust O pre pr fuel lim s with
    | ok p =>
      obtain ⟨l, s1⟩ := p
      rw [ha] at this
      obtain ⟨t1, ht1, _⟩ := eraseOut_ok this.symm
      rw [ht1]
    | panic => rw [(eraseOut_fail this).1 ha]
    | outOfFuel => rw [(eraseOut_fail this).2 ha]
  | cons k ks =>
    simp only [chain]
    have := advance_similar O pre pr fuel k s t h hs ht
    cases ha : advance O pre pr fuel k s with
    | ok p =>
      obtain ⟨l, s1⟩ := p
      rw [ha] at this
      obtain ⟨t1, ht1, hc⟩ := eraseOut_ok this.symm
      rw [ht1]
      simp only
      have e1 := load_save_core (advance_inv O pre pr fuel k s s1 l ha hs)
      have e2 := load_save_core (advance_inv O pre pr fuel k t t1 l ht1 ht)
      rw [e1, e2, hc]
    | panic => rw [(eraseOut_fail this).1 ha]
    | outOfFuel => rw [(eraseOut_fail this).2 ha]

/-- deleting every `Save`/`Load` from a chain does not change what is yielded -/
theorem chain_walk (O : Oracle) (pre pr : DG → Bool) (fuel lim : Nat) :
    ∀ (ks : List Nat) (s : State), Inv s → chain O pre pr fuel lim ks s = walk O pre pr fuel lim ks s
  | [], _, _ => rfl
  | k :: ks, s, hs => by
    simp only [chain, walk]
    cases ha : advance O pre pr fuel k s with
    | ok p =>
      obtain ⟨l, s1⟩ := p
      simp only
      have hi := advance_inv O pre pr fuel k s s1 l ha hs
      rw [load_save_core hi]
      simp only
      rw [chain_similar O pre pr fuel lim ks (similar_core hi) (core_inv hi) hi, chain_walk O pre pr fuel lim ks s1 hi]
    | panic => rfl
    | outOfFuel => rfl

/-- states reachable from `WithPruning` by any interleaving of `Next` and `Load ∘ Save` -/
inductive Reachable (O : Oracle) (pre pr : DG → Bool) : State → Prop
  | init (n a m : Nat) : Reachable O pre pr (init n a m)
  | next {s s' : State} {b : Bool} (fuel : Nat) : Reachable O pre pr s → next O pre pr fuel s = .ok (s', b) →
      Reachable O pre pr s'
  | load {s s' : State} : Reachable O pre pr s → load (save s) = .ok s' → Reachable O pre pr s'


end Search
