import Mamba.Model.DawgGob
/-! Round trip of `encodeUint64With` / `decodeUint64With` for every consistent set of constants (C14).

`VarintCfg.Consistent` lists what the round trip needs of the literals of the Go code: the byte-count arithmetic is
rigid (64-bit values, leading-zero shift at least 3, 8 bits per byte, 8 value bytes, first value byte at position 1, full length 9, prefix written =
prefix read + 8, big-endian shifts), the one-byte thresholds and the limits have slack (`encBelow ≤ decBelow ≤
decPrefixBase + 1`, `decTooManyFrom ≥ 9`, `decBufSize ≥ 8`). The property file discharges it for the generated
constants by `decide`. -/
namespace Dawg

/-- big-endian bytes of `x`, exactly `n` of them (the low `n` bytes) -/
def beBytes : Nat → Nat → List Nat
  | 0, _ => []
  | n + 1, x => beBytes n (x / 256) ++ [x % 256]

/-- big-endian value of a byte list -/
def beValue (acc : Nat) : List Nat → Nat
  | [] => acc
  | b :: bs => beValue (acc * 256 + b) bs

def VarintCfg.Consistent (c : VarintCfg) : Prop :=
  c.lzBits = 64 ∧ 3 ≤ c.lzShift ∧ c.encBufFull = 9 ∧ c.encLoopBound = 8 ∧ c.encDstOffset = 1 ∧
  c.encShiftUnit = 8 ∧ c.encShiftTop = 7 ∧ c.decShift = 8 ∧
  c.encPrefixSum = c.decPrefixBase + 8 ∧ c.encPrefixSum ≤ 255 ∧
  1 ≤ c.encBelow ∧ c.encBelow ≤ c.decBelow ∧ c.decBelow ≤ c.decPrefixBase + 1 ∧
  9 ≤ c.decTooManyFrom ∧ 8 ≤ c.decBufSize

instance (c : VarintCfg) : Decidable c.Consistent := by unfold VarintCfg.Consistent; infer_instance

theorem length_beBytes (n x : Nat) : (beBytes n x).length = n := by
  induction n generalizing x with
  | zero => rfl
  | succ n ih => simp [beBytes, ih]

theorem beBytes_lt (n x : Nat) : ∀ b ∈ beBytes n x, b < 256 := by
  induction n generalizing x with
  | zero => intro b hb; cases hb
  | succ n ih =>
    intro b hb
    simp only [beBytes, List.mem_append, List.mem_singleton] at hb
    rcases hb with hb | rfl
    · exact ih _ b hb
    · exact Nat.mod_lt _ (by decide)

theorem beValue_append (acc : Nat) (l : List Nat) (b : Nat) :
    beValue acc (l ++ [b]) = beValue acc l * 256 + b := by
  induction l generalizing acc with
  | nil => rfl
  | cons a l ih => simp [beValue, ih]

theorem beValue_beBytes (n acc x : Nat) : beValue acc (beBytes n x) = acc * 256 ^ n + x % 256 ^ n := by
  induction n generalizing x with
  | zero => simp [beBytes, beValue, Nat.mod_one]
  | succ n ih =>
    rw [beBytes, beValue_append, ih]
    have h : x % 256 ^ (n + 1) = (x / 256 % 256 ^ n) * 256 + x % 256 := by
      rw [Nat.pow_succ, Nat.mul_comm (256 ^ n) 256, Nat.mod_mul]
      omega
    rw [h, Nat.pow_succ]
    rw [Nat.add_mul, Nat.mul_assoc, Nat.add_assoc]

/-- `x<<8 | b` is `x*256 + b` on bytes, as long as nothing is shifted out of 64 bits -/
theorem beValueWith_eq (acc : Nat) (l : List Nat) (hl : ∀ b ∈ l, b < 256) (hfit : (acc + 1) * 256 ^ l.length ≤ 2 ^ 64) :
    beValueWith 8 acc l = beValue acc l := by
  induction l generalizing acc with
  | nil => rfl
  | cons b l ih =>
    have hb : b < 2 ^ 8 := hl b List.mem_cons_self
    have hb' : b < 256 := hl b List.mem_cons_self
    simp only [beValueWith, beValue]
    have hpow : 256 ^ (b :: l).length = 256 * 256 ^ l.length := by
      rw [List.length_cons, Nat.pow_succ, Nat.mul_comm]
    rw [hpow] at hfit
    have hpos : 0 < 256 ^ l.length := Nat.pow_pos (by decide)
    have h1 : (acc + 1) * 256 ≤ (acc + 1) * (256 * 256 ^ l.length) :=
      Nat.mul_le_mul_left _ (Nat.le_mul_of_pos_right _ hpos)
    have hlt : acc <<< 8 < 2 ^ 64 := by rw [Nat.shiftLeft_eq]; omega
    rw [Nat.mod_eq_of_lt hlt, ← Nat.shiftLeft_add_eq_or_of_lt hb, Nat.shiftLeft_eq]
    apply ih _ (fun b' hb' => hl b' (List.mem_cons_of_mem _ hb'))
    have h2 : (acc * 2 ^ 8 + b + 1) * 256 ^ l.length ≤ ((acc + 1) * 256) * 256 ^ l.length :=
      Nat.mul_le_mul_right _ (by omega)
    rw [Nat.mul_assoc] at h2
    omega

/-- the copy loop writes the big-endian bytes -/
theorem range_map_shift (n x : Nat) :
    (List.range n).map (fun i => (x >>> (8 * (n - 1 - i))) % 256) = beBytes n x := by
  induction n generalizing x with
  | zero => rfl
  | succ n ih =>
    rw [List.range_succ, List.map_append, beBytes, ← ih (x / 256)]
    congr 1
    · apply List.map_congr_left
      intro i hi
      rw [List.mem_range] at hi
      have e : 8 * (n + 1 - 1 - i) = 8 + 8 * (n - 1 - i) := by omega
      rw [e, Nat.shiftRight_eq_div_pow, Nat.shiftRight_eq_div_pow, Nat.pow_add, Nat.div_div_eq_div_mul]
    · simp

/-- decoding what `encodeUint64With` wrote gives the value back and leaves the rest of the input, for every consistent
set of constants and every 64-bit value -/
theorem decode_encode_with (c : VarintCfg) (hc : c.Consistent) (x : Nat) (hx : x < 2 ^ 64) (rest : List Nat) :
    decodeUint64With c (encodeUint64With c x ++ rest) = .ok (x, rest) := by
  obtain ⟨hlzb, hlzs, hfull, hloop, hoff, hunit, htop, hdsh, hsum, hsum255, hE1, hED, hDP, hTM, hbuf⟩ := hc
  unfold encodeUint64With
  by_cases hsmall : x < c.encBelow
  · rw [if_pos hsmall]
    simp only [List.cons_append, List.nil_append, decodeUint64With]
    rw [if_pos (by omega)]
  · rw [if_neg hsmall]
    dsimp only
    have hx0 : x ≠ 0 := by omega
    have hlog : x.log2 < 64 := (Nat.log2_lt hx0).2 hx
    -- number of leading zero bytes and of value bytes
    have hzb : lz c.lzBits x >>> c.lzShift ≤ (63 - x.log2) / 8 := by
      rw [hlzb, Nat.shiftRight_eq_div_pow]
      simp only [lz, hx0, if_false]
      have : 64 - (x.log2 + 1) = 63 - x.log2 := by omega
      rw [this]
      exact Nat.div_le_div_left (by
        have : 2 ^ 3 ≤ 2 ^ c.lzShift := Nat.pow_le_pow_right (by decide) hlzs
        simpa using this) (by decide)
    generalize hzdef : lz c.lzBits x >>> c.lzShift = zb at hzb
    have hzb7 : zb ≤ 7 := by omega
    have hbits : x.log2 + 1 ≤ 8 * (8 - zb) := by omega
    have hlt : x < 256 ^ (8 - zb) := by
      have h1 : x < 2 ^ (x.log2 + 1) := Nat.lt_log2_self
      have h2 : 2 ^ (x.log2 + 1) ≤ 2 ^ (8 * (8 - zb)) := Nat.pow_le_pow_right (by decide) hbits
      rw [Nat.pow_mul] at h2
      exact Nat.lt_of_lt_of_le h1 h2
    -- shape of the encoding
    have hbody : (List.range (c.encLoopBound - zb)).map
        (fun i => (x >>> (c.encShiftUnit * (c.encShiftTop - (i + zb)))) % 256) = beBytes (8 - zb) x := by
      rw [hloop, hunit, htop, ← range_map_shift]
      apply List.map_congr_left
      intro i hi
      rw [List.mem_range] at hi
      have : 7 - (i + zb) = 8 - zb - 1 - i := by omega
      rw [this]
    have hfirst : (c.encPrefixSum - zb) % 256 = c.decPrefixBase + (8 - zb) := by
      rw [Nat.mod_eq_of_lt (by omega)]; omega
    rw [hbody, hfirst, hoff, hfull]
    have htake : (((c.decPrefixBase + (8 - zb)) :: List.replicate (1 - 1) 0 ++ beBytes (8 - zb) x) ++
        List.replicate 9 0).take (9 - zb) = (c.decPrefixBase + (8 - zb)) :: beBytes (8 - zb) x := by
      simp only [Nat.sub_self, List.replicate_zero, List.nil_append, List.cons_append]
      have e : 9 - zb = (8 - zb) + 1 := by omega
      rw [e, List.take_succ_cons]
      rw [List.take_append_of_le_length (by simp [length_beBytes])]
      rw [List.take_of_length_le (by simp [length_beBytes])]
    rw [htake]
    simp only [List.cons_append, decodeUint64With]
    rw [if_neg (by omega), if_neg (by omega)]
    have hn : c.decPrefixBase + (8 - zb) - c.decPrefixBase = 8 - zb := by omega
    simp only [hn]
    rw [if_neg (by omega), if_neg (by omega), if_neg (by simp [length_beBytes])]
    have h5 : (beBytes (8 - zb) x ++ rest).take (8 - zb) = beBytes (8 - zb) x := by
      rw [List.take_append_of_le_length (by simp [length_beBytes])]
      rw [List.take_of_length_le (by simp [length_beBytes])]
    have h6 : (beBytes (8 - zb) x ++ rest).drop (8 - zb) = rest := by
      rw [List.drop_append_of_le_length (by simp [length_beBytes])]
      rw [List.drop_of_length_le (by simp [length_beBytes])]
      rfl
    have hfit : (0 + 1) * 256 ^ (beBytes (8 - zb) x).length ≤ 2 ^ 64 := by
      rw [length_beBytes, Nat.zero_add, Nat.one_mul]
      have : 256 ^ (8 - zb) ≤ 256 ^ 8 := Nat.pow_le_pow_right (by decide) (by omega)
      exact Nat.le_trans this (by decide)
    rw [h5, h6, hdsh, beValueWith_eq _ _ (beBytes_lt _ _) hfit, beValue_beBytes, Nat.mod_eq_of_lt hlt]
    simp

/-- the constants of the Go source as it is now are consistent (re-checked on every run against the regenerated
`Gen/DawgConsts.lean`) -/
theorem genCfg_consistent : genCfg.Consistent := by decide

theorem decodeUint64_encodeUint64_append (x : Nat) (hx : x < 2 ^ 64) (rest : List Nat) :
    decodeUint64 (encodeUint64 x ++ rest) = .ok (x, rest) :=
  decode_encode_with genCfg genCfg_consistent x hx rest

theorem encodeUint64_ne_nil (x : Nat) (hx : x < 2 ^ 64) : encodeUint64 x ≠ [] := by
  intro h
  have := decodeUint64_encodeUint64_append x hx []
  rw [h] at this
  simp [decodeUint64, decodeUint64With] at this

theorem length_le_flatMap_encode (L : List Nat) (hL : ∀ x ∈ L, x < 2 ^ 64) (rest : List Nat) :
    L.length ≤ (L.flatMap encodeUint64 ++ rest).length := by
  induction L with
  | nil => simp
  | cons a L ih =>
    have h1 := encodeUint64_ne_nil a (hL a List.mem_cons_self)
    have h2 : 0 < (encodeUint64 a).length := List.length_pos_iff.2 h1
    have h3 := ih (fun x hx => hL x (List.mem_cons_of_mem _ hx))
    simp only [List.flatMap_cons, List.length_append, List.length_cons] at h3 ⊢
    omega

end Dawg
