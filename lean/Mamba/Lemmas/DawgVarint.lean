import Mamba.Model.DawgGob
/-! Lemmas about `encodeUint64` / `decodeUint64` (C14). -/
namespace Dawg

theorem length_beBytes (n x : Nat) : (beBytes n x).length = n := by
  induction n generalizing x with
  | zero => rfl
  | succ n ih => simp [beBytes, ih]

theorem beValue_append (acc : Nat) (l : List Nat) (b : Nat) :
    beValue acc (l ++ [b]) = beValue acc l * 256 + b := by
  induction l generalizing acc with
  | nil => rfl
  | cons a l ih => simp [beValue, ih]

theorem beValue_beBytes (n acc x : Nat) : beValue acc (beBytes n x) = acc * 256 ^ n + x % 256 ^ n := by
  induction n generalizing x with
  | zero => simp [beBytes, beValue, Nat.mod_one]
  | succ n ih =>
    rw [beBytes, beValue_append, ih]
    have h : x % 256 ^ (n + 1) = (x / 256 % 256 ^ n) * 256 + x % 256 := by
      rw [Nat.pow_succ, Nat.mul_comm (256 ^ n) 256, Nat.mod_mul]
      omega
    rw [h, Nat.pow_succ]
    rw [Nat.add_mul, Nat.mul_assoc, Nat.add_assoc]

theorem byteLen_le (f x : Nat) : byteLen f x ≤ f := by
  induction f generalizing x with
  | zero => simp [byteLen]
  | succ f ih =>
    rw [byteLen]
    split
    · omega
    · have := ih (x / 256); omega

theorem lt_pow_byteLen (f x : Nat) (h : x < 256 ^ f) : x < 256 ^ byteLen f x := by
  induction f generalizing x with
  | zero => simpa [byteLen] using h
  | succ f ih =>
    rw [byteLen]
    split
    · next h0 => subst h0; simp
    · have h1 : x / 256 < 256 ^ f := by
        rw [Nat.div_lt_iff_lt_mul (by decide)]
        rwa [Nat.pow_succ] at h
      have := ih (x / 256) h1
      rw [Nat.pow_succ]
      omega

theorem byteLen_pos (f x : Nat) (hf : 0 < f) (hx : 0 < x) : 0 < byteLen f x := by
  cases f with
  | zero => omega
  | succ f => rw [byteLen]; split <;> omega

/-- decoding what `encodeUint64` wrote gives the value back and leaves the rest of the input -/
theorem decodeUint64_encodeUint64_append (x : Nat) (hx : x < 2 ^ 64) (rest : List Nat) :
    decodeUint64 (encodeUint64 x ++ rest) = some (x, rest) := by
  unfold encodeUint64
  split
  · next h => simp [decodeUint64, h]
  · next h =>
    have hn8 : byteLen 8 x ≤ 8 := byteLen_le 8 x
    have hpos : 0 < byteLen 8 x := byteLen_pos 8 x (by decide) (by omega)
    have hlt : x < 256 ^ byteLen 8 x := lt_pow_byteLen 8 x (by simpa using hx)
    simp only [List.cons_append, decodeUint64]
    have h1 : ¬ (128 + byteLen 8 x ≤ 127) := by omega
    have h2 : 128 + byteLen 8 x - 128 = byteLen 8 x := by omega
    simp only [h1, if_false, h2]
    have h3 : ¬ (byteLen 8 x > 8) := by omega
    have h4 : ¬ ((beBytes (byteLen 8 x) x ++ rest).length < byteLen 8 x) := by
      simp [length_beBytes]
    simp only [h3, h4, if_false]
    have h5 : (beBytes (byteLen 8 x) x ++ rest).take (byteLen 8 x) = beBytes (byteLen 8 x) x := by
      rw [List.take_append_of_le_length (by simp [length_beBytes])]
      rw [List.take_of_length_le (by simp [length_beBytes])]
    have h6 : (beBytes (byteLen 8 x) x ++ rest).drop (byteLen 8 x) = rest := by
      rw [List.drop_append_of_le_length (by simp [length_beBytes])]
      rw [List.drop_of_length_le (by simp [length_beBytes])]
      rfl
    rw [h5, h6, beValue_beBytes, Nat.mod_eq_of_lt hlt]
    simp

end Dawg
