import Mamba.Lemmas.C06Hand
/-! C06: `CompleteGraph`. -/
namespace Construct
open GraphSpec


theorem deg_symm (n : Nat) (rel : Nat → Nat → Bool) (v : Nat) (hv : v < n) :
    (Families.symm n rel).deg v = (List.range n).countP (fun u => u != v && (rel v u || rel u v)) := by
  simp only [G.deg, G.nbrs, Families.symm, List.countP_eq_length_filter]
  congr 1
  apply List.filter_congr
  intro u hu
  have := List.mem_range.mp hu
  simp [hv, this, bne_comm]

theorem countP_range_bne (n v : Nat) : (List.range n).countP (fun u => u != v) = n - if v < n then 1 else 0 := by
  have h := List.length_eq_countP_add_countP (fun u => u == v) (l := List.range n)
  rw [countP_range_beq] at h
  simp only [List.length_range] at h
  have : (List.range n).countP (fun u => u != v) = (List.range n).countP (fun a => ¬(a == v) = true) := by
    apply List.countP_congr; intro u _; simp
  rw [this]; omega

theorem writeAll_replicate (n : Nat) (is : List Nat) (x : Int) (a : Array Int) (h : ∀ k ∈ is, k < a.size) :
    ∃ a', writeAll a is x = .ok a' ∧ a'.size = a.size ∧
      ∀ k, a'[k]? = if k ∈ is ∧ k < a.size then some x else a[k]? :=
  foldlM_setAt x is a h

theorem completeGraph_ok (n : Nat) : ∃ d, completeGraph n = .ok d ∧ d.WF ∧ d.abs = Families.complete n := by
  obtain ⟨dg, g1, g2, g3⟩ := foldlM_setAt ((n : Int) - 1) (List.range n) (Array.replicate n (0 : Int)) (by simp)
  obtain ⟨e, e1, e2, e3⟩ := writeOnes_zeros (tri n) (List.range (tri n)) (by simp)
  refine ⟨⟨n, (tri n : Nat), dg, e⟩, ?_, ?_⟩
  · simp only [completeGraph, tri_def, Array.size_replicate, writeAll, zeros] at *
    rw [g1]; simp only [Outcome.bind_ok]; rw [e1]; rfl
  · let d : Dense := ⟨n, (tri n : Nat), dg, e⟩
    have hs : d.edges.size = tri d.n := e2
    have habs : d.abs = Families.complete n := by
      apply abs_eq_symm d hs
      intro u v huv hv
      have : tri v + u < tri n := tri_add_lt huv hv
      simp [d, e3, this]
    refine ⟨⟨e2, by simpa using g2, ?_, ?_⟩, habs⟩
    · show ((tri n : Nat) : Int) = (d.abs.m : Int)
      rw [m_of_idxs d hs (List.range (tri n)) List.nodup_range (by simp [d]) e3]; simp
    · intro v hv
      have hv' : v < n := hv
      show dg[v]? = some ((d.abs.deg v : Nat) : Int)
      rw [habs, Families.complete, deg_symm n _ v hv', g3 v]
      simp only [Bool.or_self, Bool.and_true, countP_range_bne, hv', ↓reduceIte]
      simp [hv']; omega


end Construct
