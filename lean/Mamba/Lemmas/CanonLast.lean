import Mamba.Lemmas.CanonTransport
namespace Search
open Disjoint GSearch GraphSpec

/-- adjacency in a one-vertex extension, by cases -/
theorem ext_adj_old {g : G} (S : List Nat) {u v : Nat} (hu : u < g.n) (hv : v < g.n) : (ext g S).adj u v = g.adj u v := by
  have e1 : (u == g.n) = false := by simp [Nat.ne_of_lt hu]
  have e2 : (v == g.n) = false := by simp [Nat.ne_of_lt hv]
  simp [ext, hu, hv, e1, e2]

theorem ext_adj_new {g : G} (S : List Nat) {v : Nat} (hv : v < g.n) : (ext g S).adj v g.n = S.contains v := by
  have e2 : (v == g.n) = false := by simp [Nat.ne_of_lt hv]
  simp [ext, hv, e2]

/-- an isomorphism of one-vertex extensions that fixes the new vertex restricts to an equivalence of the extensions -/
theorem restrict_last {P Q g2 h2 : DG} {x y : Nat} (hP : Built P) (hQ : Built Q) (hx : InRange P x) (hy : InRange Q y)
    (ha : P.addVertex (bitsOf x) = .ok g2) (hb : Q.addVertex (bitsOf y) = .ok h2) {ψ : Nat → Nat}
    (i : IsIso g2 h2 ψ) (hlast : ψ P.nv = Q.nv) : ExtEquiv P (bitsOf x) Q (bitsOf y) := by
  have hg2 := addVertex_toG hP.sized (bitsOf_nodup x) hx ha
  have hh2 := addVertex_toG hQ.sized (bitsOf_nodup y) hy hb
  have n1 : g2.nv = P.nv + 1 := addVertex_nv ha
  have n2 : h2.nv = Q.nv + 1 := addVertex_nv hb
  have hnv : P.nv = Q.nv := by have := i.nv; omega
  have hmaps : ∀ u, u < P.nv → ψ u < Q.nv := by
    intro u hu
    have h1 : ψ u < h2.nv := i.nv ▸ i.bij.maps u (by omega)
    have h2' : ψ u ≠ Q.nv := by
      intro e
      have := i.bij.inj u P.nv (by omega) (by omega) (e.trans hlast.symm)
      omega
    omega
  refine ⟨hnv, ψ, ⟨fun u hu => hnv ▸ hmaps u hu, ?_, ?_⟩, ?_, ?_⟩
  · intro u v hu hv h; exact i.bij.inj u v (by omega) (by omega) h
  · intro w hw
    obtain ⟨u, hu, he⟩ := i.bij.surj w (by omega)
    refine ⟨u, ?_, he⟩
    by_contra hnu
    have : u = P.nv := by omega
    rw [this, hlast] at he
    omega
  · intro u v hu hv
    have := i.adj u v (by omega) (by omega)
    rw [hg2, hh2, ext_adj_old (g := P.toG) _ hu hv,
      ext_adj_old (g := Q.toG) _ (hmaps u hu) (hmaps v hv)] at this
    exact this
  · intro v hv
    have := i.adj v P.nv (by omega) (by omega)
    rw [hg2, hh2, hlast] at this
    have e1 := ext_adj_new (g := P.toG) (bitsOf x) (show v < P.toG.n from hv)
    have e2 := ext_adj_new (g := Q.toG) (bitsOf y) (show ψ v < Q.toG.n from hmaps v hv)
    rw [show P.toG.n = P.nv from rfl] at e1
    rw [show Q.toG.n = Q.nv from rfl] at e2
    rw [e1, e2] at this
    constructor
    · intro hm
      have : (bitsOf y).contains (ψ v) = true := by rw [← this]; exact List.contains_iff_mem.2 hm
      exact List.contains_iff_mem.1 this
    · intro hm
      have : (bitsOf x).contains v = true := by rw [this]; exact List.contains_iff_mem.2 hm
      exact List.contains_iff_mem.1 this

/-- an equivalence of extensions extends to an isomorphism of the children that fixes the new vertex -/
theorem extend_last {P Q g2 h2 : DG} {x y : Nat} (hP : Built P) (hQ : Built Q) (hx : InRange P x) (hy : InRange Q y)
    (ha : P.addVertex (bitsOf x) = .ok g2) (hb : Q.addVertex (bitsOf y) = .ok h2)
    (e : ExtEquiv P (bitsOf x) Q (bitsOf y)) : ∃ ψ, IsIso g2 h2 ψ ∧ ψ P.nv = Q.nv := by
  obtain ⟨hn, σ, hσ, hadj, hS⟩ := e
  have hg2 := addVertex_toG hP.sized (bitsOf_nodup x) hx ha
  have hh2 := addVertex_toG hQ.sized (bitsOf_nodup y) hy hb
  have n1 : g2.nv = P.nv + 1 := addVertex_nv ha
  have n2 : h2.nv = Q.nv + 1 := addVertex_nv hb
  let τ : Nat → Nat := fun u => if u < P.nv then σ u else u
  have hτ : IsBij (P.nv + 1) τ := by
    refine ⟨?_, ?_, ?_⟩
    · intro u hu
      simp only [τ]
      split
      · exact Nat.lt_succ_of_lt (hσ.maps u ‹_›)
      · exact hu
    · intro u v hu hv he
      simp only [τ] at he
      by_cases h1 : u < P.nv <;> by_cases h2 : v < P.nv <;> simp only [h1, h2, if_true, if_false] at he
      · exact hσ.inj u v h1 h2 he
      · have := hσ.maps u h1; omega
      · have := hσ.maps v h2; omega
      · exact he
    · intro w hw
      by_cases h1 : w < P.nv
      · obtain ⟨u, hu, rfl⟩ := hσ.surj w h1
        exact ⟨u, Nat.lt_succ_of_lt hu, by simp [τ, hu]⟩
      · exact ⟨w, hw, by simp [τ, h1]⟩
  have hc : ∀ w, w < P.nv → (bitsOf x).contains w = (bitsOf y).contains (σ w) := by
    intro w hw
    have := hS w hw
    cases h1 : (bitsOf x).contains w <;> cases h2 : (bitsOf y).contains (σ w) <;> simp_all [List.contains_iff_mem]
  refine ⟨τ, ⟨by omega, n1 ▸ hτ, ?_⟩, by simp [τ, hn]⟩
  intro u v hu hv
  rw [hg2, hh2]
  have hu' : u < P.nv + 1 := by omega
  have hv' : v < P.nv + 1 := by omega
  by_cases h1 : u < P.nv <;> by_cases h2 : v < P.nv
  · have m1 : σ u < Q.nv := hn ▸ hσ.maps u h1
    have m2 : σ v < Q.nv := hn ▸ hσ.maps v h2
    simp only [τ, h1, h2, if_true]
    rw [ext_adj_old (g := P.toG) _ h1 h2, ext_adj_old (g := Q.toG) _ m1 m2]
    exact hadj u v h1 h2
  · have hv'' : v = P.nv := by omega
    have m1 : σ u < Q.nv := hn ▸ hσ.maps u h1
    simp only [τ, h1, h2, if_true, if_false]
    rw [hv'']
    have e1 := ext_adj_new (g := P.toG) (bitsOf x) (show u < P.toG.n from h1)
    have e2 := ext_adj_new (g := Q.toG) (bitsOf y) (show σ u < Q.toG.n from m1)
    rw [show P.toG.n = P.nv from rfl] at e1
    rw [show Q.toG.n = Q.nv from rfl] at e2
    rw [e1, hn, e2]
    exact hc u h1
  · have hu'' : u = P.nv := by omega
    have m2 : σ v < Q.nv := hn ▸ hσ.maps v h2
    simp only [τ, h1, h2, if_true, if_false]
    rw [hu'', (ext_wf (toG_wf P) (bitsOf x)).symm P.nv v, (ext_wf (toG_wf Q) (bitsOf y)).symm P.nv (σ v)]
    have e1 := ext_adj_new (g := P.toG) (bitsOf x) (show v < P.toG.n from h2)
    have e2 := ext_adj_new (g := Q.toG) (bitsOf y) (show σ v < Q.toG.n from m2)
    rw [show P.toG.n = P.nv from rfl] at e1
    rw [show Q.toG.n = Q.nv from rfl] at e2
    rw [e1, hn, e2]
    exact hc v h2
  · have hu'' : u = P.nv := by omega
    have hv'' : v = P.nv := by omega
    simp only [τ, h1, h2, if_false]
    rw [hu'', hv'', (ext_wf (toG_wf P) _).irrefl, (ext_wf (toG_wf Q) _).irrefl]

end Search
