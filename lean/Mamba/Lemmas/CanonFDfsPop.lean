import Mamba.Lemmas.CanonFDfsIdx
/-!
# The complete DFS invariant: the top frame is popped (`dfs_pop`)

All children of the top frame are processed (`TopOK … 0`). The node of the frame is complete (`cov_pop_step`), the frame is
popped, the vertex path loses its last entry and the child of the new top frame that was being explored — the popped node —
is processed and complete (`FrameAux1.finish_child`).
-/

namespace CanonF

section
variable {n m : Nat} {nb : Nbrs} {rf : Nat} {r : IR.St}
  (hnb : NbOK nb n)

set_option linter.unusedVariables false in
include hnb in
theorem dfs_pop_v (st sz : Nat) (ls : List (Nat × Nat)) (s : LS) (hc : Core n s)
    (ht : TopOK s.op 0 s.path s.choices ((st, sz) :: ls)) (hsk : s.skipDeage = false)
    (hage : s.op.age + 1 = s.path.length)
    (hJ : CertN n m nb ((st, sz) :: ls) s) (gh : Gh) (h : DNv n nb rf r gh ((st, sz) :: ls) s) :
    DAv n nb rf r { gh with vs := gh.vs.dropLast } ls { s with path := s.path.drop 1, choices := s.choices.drop 1 } := by
  obtain ⟨hw, hG, hcov, haux⟩ := h
  obtain ⟨p, ps, c, cs, st', sz', ls', e1, e2, e3⟩ := topOK_path_ne ht
  cases e3
  have ht' := ht
  rw [e1, e2] at ht'
  simp only [TopOK] at ht'
  obtain ⟨_, tsz, tc, _, tl⟩ := ht'
  have hw' := hw
  obtain ⟨h1, h2, h3, h4, h5, h6, h7⟩ := hw'
  rw [e1, e2] at haux h5
  rw [e1] at h3
  simp only [List.length_cons] at h3
  have hhead := FrameAux.head haux
  have htail := FrameAux.tail haux
  have h5t := h5.tail
  -- the first leaf has been reached
  have hcnt : 0 < s.count := by
    rcases Nat.eq_zero_or_pos s.count with h0 | hpos
    · have := hhead.ph1 h0
      simp only [if_true] at this
      omega
    · exact hpos
  -- the recorded generators preserve the colouring of the popped node if it is on the first path
  have hE1 : ∀ qs, s.path.drop 1 = qs → onFirstB s qs = true → ∀ k, k < s.ngens → ∀ γ, s.gens[k]? = some γ →
      ∀ u, u < n → IR.col (nodeL n nb rf r gh.vs qs.length).c (γ.toList.getD u 0)
        = IR.col (nodeL n nb rf r gh.vs qs.length).c u := by
    intro qs eq hon
    rw [e1] at eq
    simp only [List.drop_succ_cons, List.drop_zero] at eq
    subst eq
    have hpre := prefixF_of_onFirst (frames_idxPath ps cs ls h5t (by omega)) h1 (by omega) hG hon
    exact hhead.e1 hcnt hpre
  obtain ⟨hcomp, hcov'⟩ := cov_pop_step hnb st sz ls s ht hw hJ.1 hcov hE1
  rw [e1] at hcomp
  simp only [List.length_cons, Nat.add_sub_cancel] at hcomp
  -- the frames below, the new top frame is "between two children"
  have hA : FrameAux n nb rf r gh s gh.vs true ps cs ls := by
    cases ps with
    | nil => cases cs <;> cases ls <;> simp_all [FrameAux]
    | cons p' ps' =>
      cases cs with
      | nil => simp [FrameAux] at htail
      | cons c' cs' =>
        cases ls with
        | nil => simp [FrameAux] at htail
        | cons x ls'' =>
          obtain ⟨st2, sz2⟩ := x
          simp only [LevelsOK] at tl
          obtain ⟨_, _, tc2, _, _⟩ := tl
          simp only [FramesOK] at h5t
          obtain ⟨g1, _, g3, _⟩ := h5t
          simp only [List.length_cons] at h3 hcomp
          obtain ⟨g3a, _⟩ := g3 (by omega)
          refine FrameAux.mk ((FrameAux.head htail).finish_child hcnt (fun w hw' _ => ?_)) (FrameAux.tail htail)
          rw [show c' - st2 = p' by omega, ← g3a] at hw'
          rw [← nodeL_succ h1 hw' g1]
          exact hcomp
  have hlen : ∀ L, L < ps.length → gh.vs.dropLast.take L = gh.vs.take L :=
    fun L hL => take_dropLast gh.vs (by omega)
  refine ⟨walk_pop st sz ls s ht hw, ⟨hG.first, hG.best, hG.bgsAut, hG.ngens0, hG.bestOrb, hG.bpLen, hG.fpLen⟩,
    hcov', ?_, ?_⟩
  · show FrameAux n nb rf r { gh with vs := gh.vs.dropLast }
      { s with path := s.path.drop 1, choices := s.choices.drop 1 } gh.vs.dropLast true (s.path.drop 1)
      (s.choices.drop 1) ls
    simp only [e1, e2, List.drop_succ_cons, List.drop_zero]
    exact FrameAux.congr_gh (gh := gh) (gh' := { gh with vs := gh.vs.dropLast }) rfl rfl rfl true ps cs ls
      (FrameAux.congr (s := s) (s' := { s with path := ps, choices := cs }) rfl rfl rfl rfl true ps cs ls hlen hA)
  · intro hp
    have hp' : s.path.drop 1 = [] := hp
    rw [e1] at hp'
    simp only [List.drop_succ_cons, List.drop_zero] at hp'
    subst hp'
    refine ⟨hcnt, ?_⟩
    have : nodeL n nb rf r gh.vs 0 = r := by simp [nodeL, IR.nodeAt]
    rw [← this]
    exact hcomp

set_option linter.unusedVariables false in
include hnb in
theorem dfs_pop (st sz : Nat) (ls : List (Nat × Nat)) (s : LS) (hc : Core n s)
    (ht : TopOK s.op 0 s.path s.choices ((st, sz) :: ls)) (hsk : s.skipDeage = false)
    (hage : s.op.age + 1 = s.path.length)
    (hJ : CertN n m nb ((st, sz) :: ls) s) (h : DN n nb rf r ((st, sz) :: ls) s) :
    DA n nb rf r ls { s with path := s.path.drop 1, choices := s.choices.drop 1 } := by
  obtain ⟨gh, h⟩ := h
  exact ⟨_, dfs_pop_v hnb st sz ls s hc ht hsk hage hJ gh h⟩

end
end CanonF
