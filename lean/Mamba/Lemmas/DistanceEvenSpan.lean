import Mamba.Lemmas.DistanceGibbsHelp
/-!
# Every even set of edges of the block is the XOR of the fundamental cycles of its non-tree edges
-/
namespace GDist
open GraphSpec Model

variable {a : G}

section final
variable {st : PatonSt} {nt : List (Nat × Nat)} (F : PFinal a st nt) (hsym : ∀ u v, a.adj u v = a.adj v u)
  (hirr : ∀ v, a.adj v v = false)
include F hsym hirr

theorem zip_facts :
    st.fund.length = nt.length ∧ (st.fund.zip nt).map Prod.fst = st.fund ∧ (st.fund.zip nt).map Prod.snd = nt ∧
    (∀ f ε f', (f, ε) ∈ st.fund.zip nt → (f', ε) ∈ st.fund.zip nt → f = f') ∧
    (∀ f ε ε', (f, ε) ∈ st.fund.zip nt → (f, ε') ∈ st.fund.zip nt → ε = ε') ∧
    st.fund.Nodup := by
  have hlen : st.fund.length = nt.length := F.pi.fnt.length_eq
  have hZ1 : (st.fund.zip nt).map Prod.fst = st.fund := List.map_fst_zip (by omega)
  have hZ2 : (st.fund.zip nt).map Prod.snd = nt := List.map_snd_zip (by omega)
  have hnd2 : ((st.fund.zip nt).map Prod.snd).Nodup := by rw [hZ2]; exact F.pi.ntnd
  have hleft : ∀ f ε f', (f, ε) ∈ st.fund.zip nt → (f', ε) ∈ st.fund.zip nt → f = f' := by
    intro f ε f' h1 h2
    have := List.inj_on_of_nodup_map hnd2 h1 h2 rfl
    exact congrArg Prod.fst this
  have hright : ∀ f ε ε', (f, ε) ∈ st.fund.zip nt → (f, ε') ∈ st.fund.zip nt → ε = ε' := by
    intro f ε ε' h1 h2
    have hR : FundOf a st.T f ε := (List.forall₂_iff_zip.1 F.pi.fnt).2 h1
    exact (fund_private F hsym hirr h2 (List.of_mem_zip h1).2).1 hR.1
  refine ⟨hlen, hZ1, hZ2, hleft, hright, ?_⟩
  rw [← hZ1]
  apply List.Nodup.map_on
  · rintro ⟨f, ε⟩ h1 ⟨f', ε'⟩ h2 hff
    simp only at hff
    subst hff
    rw [hright f ε ε' h1 h2]
  · exact List.Nodup.of_map _ hnd2

/-- the spanning property for arbitrary even sets -/
theorem even_span {t0 : List Nat} (h0s : t0.Pairwise (· < ·)) (h0e : EvenSet a.n t0) (h0ne : t0 ≠ [])
    (codes0 : ∀ x ∈ t0, TreeCode a st.T x ∨ ∃ e ∈ nt, x = edgeCode e.1 e.2) :
    ∃ I, I ≠ [] ∧ I.Sublist st.fund ∧ IsXorOf I t0 ∧
      ∀ f ε, (f, ε) ∈ st.fund.zip nt → (f ∈ I ↔ edgeCode ε.1 ε.2 ∈ t0) := by
  obtain ⟨hlen, hZ1, hZ2, hleft, hright, _⟩ := zip_facts F hsym hirr
  let Z := st.fund.zip nt
  let sel := Z.filter fun p => decide (edgeCode p.2.1 p.2.2 ∈ t0)
  have hselZ : ∀ p ∈ sel, p ∈ Z := fun p hp => (List.mem_filter.1 hp).1
  have hIsub : (sel.map Prod.fst).Sublist st.fund := by
    rw [← hZ1]; exact List.filter_sublist.map _
  have hsel_nt : ∀ e ∈ nt, edgeCode e.1 e.2 ∈ t0 → ∃ p ∈ sel, p.2 = e := by
    intro e he hin
    rw [← hZ2] at he
    obtain ⟨p, hp, rfl⟩ := List.mem_map.1 he
    exact ⟨p, List.mem_filter.2 ⟨hp, by simpa using hin⟩, rfl⟩
  have hocc : ∀ e ∈ nt, occ (sel.map Prod.fst) (edgeCode e.1 e.2) = if edgeCode e.1 e.2 ∈ t0 then 1 else 0 := by
    intro e he
    unfold occ
    rw [List.countP_map]
    have h1 : sel.countP ((fun f => decide (edgeCode e.1 e.2 ∈ f)) ∘ Prod.fst)
        = sel.countP ((fun e' => e' == e) ∘ Prod.snd) := by
      apply List.countP_congr
      intro p hp
      have hpZ : (p.1, p.2) ∈ st.fund.zip nt := hselZ p hp
      simp only [Function.comp, decide_eq_true_eq, beq_iff_eq]
      rw [fund_private F hsym hirr hpZ he]
      exact ⟨fun h => h.symm, fun h => h.symm⟩
    rw [h1, ← List.countP_map]
    have hnd2 : (sel.map Prod.snd).Nodup := by
      have : (sel.map Prod.snd).Sublist nt := by rw [← hZ2]; exact List.filter_sublist.map _
      exact F.pi.ntnd.sublist this
    have := hnd2.count (a := e)
    rw [List.count] at this
    rw [this]
    by_cases hin : edgeCode e.1 e.2 ∈ t0
    · obtain ⟨p, hp, hpe⟩ := hsel_nt e he hin
      have : e ∈ sel.map Prod.snd := List.mem_map.2 ⟨p, hp, hpe⟩
      simp [this, hin]
    · have : e ∉ sel.map Prod.snd := by
        intro hm
        obtain ⟨p, hp, hpe⟩ := List.mem_map.1 hm
        have := (List.mem_filter.1 hp).2
        rw [hpe] at this
        exact hin (by simpa using this)
      simp [this, hin]
  have hnd0 : t0.Nodup := h0s.imp (fun h => Nat.ne_of_lt h)
  have hI : sel.map Prod.fst ≠ [] := by
    intro hI
    have hsel : sel = [] := by simpa using hI
    apply h0ne
    apply tree_even_empty F.o hnd0 _ h0e
    intro x hx
    rcases codes0 x hx with h | ⟨e, he, hxe⟩
    · exact h
    · exfalso
      obtain ⟨p, hp, _⟩ := hsel_nt e he (hxe ▸ hx)
      rw [hsel] at hp; cases hp
  have hfundI : ∀ f ∈ sel.map Prod.fst, IsCycCode a f := fun f hf => F.o.fund f (hIsub.subset hf)
  obtain ⟨t, ⟨hts, htm⟩, hte⟩ := exists_xor a.n (sel.map Prod.fst) (fun f hf => isCycCode_strict (hfundI f hf))
    (fun f hf => isCycCode_even (hfundI f hf))
  obtain ⟨hDs, hDm⟩ := sXor_spec t t0 hts h0s
  have hDe : EvenSet a.n (sXor t t0) := even_sXor hte h0e
  have hDtree : ∀ x ∈ sXor t t0, TreeCode a st.T x := by
    intro x hx
    rcases (hDm x).1 hx with ⟨hxt, hx0⟩ | ⟨hxt, hx0⟩
    · have hodd := (htm x).1 hxt
      have hpos : 0 < occ (sel.map Prod.fst) x := by omega
      unfold occ at hpos
      rw [List.countP_pos_iff] at hpos
      obtain ⟨f, hf, hxf⟩ := hpos
      obtain ⟨p, hp, rfl⟩ := List.mem_map.1 hf
      have hxf' : x ∈ p.1 := by simpa using hxf
      have hR : FundOf a st.T p.1 p.2 := (List.forall₂_iff_zip.1 F.pi.fnt).2 (hselZ p hp)
      rcases hR.2 x hxf' with h | h
      · exfalso
        have := (List.mem_filter.1 hp).2
        rw [← h] at this
        exact hx0 (by simpa using this)
      · exact h
    · rcases codes0 x hx0 with h | ⟨e, he, hxe⟩
      · exact h
      · exfalso
        have := hocc e he
        rw [← hxe, if_pos hx0] at this
        exact hxt ((htm x).2 (by omega))
  have hD : sXor t t0 = [] := tree_even_empty F.o (hDs.imp (fun h => Nat.ne_of_lt h)) hDtree hDe
  have heq : t = t0 := by
    apply strict_sorted_ext hts h0s
    intro x
    have := hDm x
    rw [hD] at this
    simp only [List.not_mem_nil, false_iff, not_or, not_and, not_not] at this
    exact ⟨this.1, fun h => by_contra fun hn => this.2 hn h⟩
  refine ⟨sel.map Prod.fst, hI, hIsub, heq ▸ ⟨hts, htm⟩, ?_⟩
  intro f ε hfε
  constructor
  · intro hf
    obtain ⟨p, hp, hpf⟩ := List.mem_map.1 hf
    have hpZ : (f, p.2) ∈ st.fund.zip nt := by rw [← hpf]; exact hselZ p hp
    have := hright f ε p.2 hfε hpZ
    rw [this]
    simpa using (List.mem_filter.1 hp).2
  · intro hin
    exact List.mem_map.2 ⟨(f, ε), List.mem_filter.2 ⟨hfε, by simpa using hin⟩, rfl⟩

end final
end GDist
