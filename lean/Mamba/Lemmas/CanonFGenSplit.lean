import Mamba.Lemmas.CanonFGenBase
import Mamba.Lemmas.CanonFOrbSplit
/-!
# The generator layer (G-layer) through `splitBin` (`gen_split`) and through the refinement (`gen_refine`)

The recorded generators and the first-leaf path do not change. `splitBin`: the member with index `c - 1 - st` of the top
frame starts being explored (`w = false`, `FrameAuxG1.start_child`) or is processed at once (`w = true`,
`FrameAuxG1.step_head`: it is not the first-path child by `futF` of the D-layer). Refinement reporting "worse": the child
`v` being explored is finished; it is not the first-path child because the node `gh.vs ++ [v]` is fresh (`NodeOff`).
-/
namespace CanonF

section
variable {n : Nat} {nb : Nbrs} {rf : Nat} {r : IR.St}

/-- `FrameAuxG1.finish_child'` with the hypothesis `0 < s.count` available for the finished child -/
theorem gsp_frameAuxG1_finish_child {gh : Gh} {s : LS} {us : List Nat} {ps : List Nat} {c st sz : Nat}
    (h : FrameAuxG1 n nb rf r gh s us false ps c st sz)
    (hnew : 0 < s.count → ∀ w, (cellL n nb rf r us ps.length st)[c - st]? = some w →
      us.take ps.length = gh.vsF.take ps.length → gh.vsF[ps.length]? = some w → AutGen n nb r gh s (ps.length + 1)) :
    FrameAuxG1 n nb rf r gh s us true ps c st sz := by
  refine h.of_fmax ?_
  intro h0 hpre i w hi hw hx
  simp only [if_true] at hi
  rcases Nat.lt_or_ge (c - st) i with hlt | hge
  · exact h.gF h0 hpre i w (by simp only [Bool.false_eq_true, if_false]; exact hlt) hw hx
  · have : i = c - st := by omega
    subst this
    exact hnew h0 w hw hpre hx

/-- a fresh node `vs ++ [v]` is not the prefix of the first-leaf path of its length -/
theorem gsp_off_first {gh : Gh} {s : LS} {vs : List Nat} {v L : Nat} (hoff : NodeOff gh s (vs ++ [v]))
    (h0 : 0 < s.count) (hvl : vs.length = L) (hpre : vs.take L = gh.vsF.take L) (hx : gh.vsF[L]? = some v) : False := by
  apply (hoff h0).1
  rw [List.length_append, List.length_singleton, hvl, List.take_add_one, hx, ← hpre, ← hvl, List.take_length]
  rfl

end

section
variable {n m : Nat} {nb : Nbrs} {rf : Nat} {r : IR.St}

set_option linter.unusedVariables false in
theorem gen_split (gh : Gh) (st sz : Nat) (ls : List (Nat × Nat)) (s : LS) (c : Nat) (cs : List Nat) (p : Nat) (ps : List Nat)
    (ce : Nat) (bo : Disjoint.DS) (w : Bool) (op' : OP) (k : Nat) (hc : Core n s)
    (ht : TopOK s.op (k + 1) s.path s.choices ((st, sz) :: ls))
    (hsk : s.skipDeage = false) (hage : s.op.age + 1 = s.path.length) (hch : s.choices = c :: cs)
    (hpth : s.path = p :: ps) (hget : s.op.order.get (c - 1) = .ok ce)
    (hh : (if (decide (s.count > 0) && !hasPrefix s.flPath.toList ps.reverse && hasPrefix s.bestPath.toList ps.reverse) = true
      then h2Best s.op s.bestOrbits (c - 1) ce else Outcome.ok (false, s.bestOrbits)) = .ok (false, bo))
    (hs : splitBin nb s.currentBest s.firstLeaf s.op (c - 1) = .ok (w, op'))
    (hJ : CertN n m nb ((st, sz) :: ls) s) (hDv : DNv n nb rf r gh ((st, sz) :: ls) s)
    (hAv : ANv n nb rf r gh ((st, sz) :: ls) s)
    (hGv : GNv n nb rf r gh ((st, sz) :: ls) s) :
    (w = false → ∀ t v, DSv n nb rf r gh t v ((st, sz) :: ls)
        { s with choices := (c - 1) :: cs, bestOrbits := bo, op := op', path := k :: ps } →
      GSv n nb rf r gh v ((st, sz) :: ls)
        { s with choices := (c - 1) :: cs, bestOrbits := bo, op := op', path := k :: ps }) ∧
    (w = true → GAv n nb rf r gh ((st, sz) :: ls)
      { s with choices := (c - 1) :: cs, bestOrbits := bo, op := op', path := k :: ps }) := by
  obtain ⟨hw, hG, hcov, haux⟩ := hDv
  obtain ⟨m1, m2, m3, m4, m5⟩ := top_member hc ht hage hch hpth hget hw
  have hauxG : FrameAuxG n nb rf r gh s gh.vs true (p :: ps) (c :: cs) ((st, sz) :: ls) := by
    have := hGv
    unfold GNv at this
    rw [hpth, hch] at this
    exact this
  rw [hpth, hch] at haux
  constructor
  · intro _ t v _
    exact FrameAuxG.congr (gh := gh) (s := s)
      (s' := { s with choices := (c - 1) :: cs, bestOrbits := bo, op := op', path := k :: ps })
      (us := gh.vs) (us' := gh.vs ++ [v]) rfl rfl rfl false (k :: ps) ((c - 1) :: cs) ((st, sz) :: ls)
      (fun L hL => take_append_le gh.vs v (by simp only [List.length_cons] at hL; omega))
      (FrameAuxG.mk (p := k) ((FrameAuxG.head hauxG).start_child m3) (FrameAuxG.tail hauxG))
  · intro _
    refine ⟨?_, fun hp => by cases hp⟩
    exact FrameAuxG.congr (gh := gh) (s := s)
      (s' := { s with choices := (c - 1) :: cs, bestOrbits := bo, op := op', path := k :: ps })
      (us := gh.vs) (us' := gh.vs) rfl rfl rfl true (k :: ps) ((c - 1) :: cs) ((st, sz) :: ls)
      (fun _ _ => rfl)
      (FrameAuxG.mk (p := k) ((FrameAuxG.head hauxG).step_head (FrameAux.head haux)) (FrameAuxG.tail hauxG))

set_option linter.unusedVariables false in
theorem gen_refine (gh : Gh) (t v : Nat) (lv : List (Nat × Nat)) (s : LS) (w : Bool) (op' : OP) (sc' sc2 : Scratch) (hc : Core n s)
    (hl : LevelsOK s.op s.path s.choices lv) (hage : s.op.age = s.path.length) (hsk : s.skipDeage = false)
    (htl : s.sc.timesSeen.len = n) (hJ : CertN n m nb lv s) (hDv : DSv n nb rf r gh t v lv s)
    (hAv : ASv n nb rf r gh v lv s) (hGv : GSv n nb rf r gh v lv s)
    (hr : refine nb s.currentBest s.firstLeaf {} s.op s.sc = .ok (w, op', sc')) :
    (w = true → GAv n nb rf r gh lv { s with op := op', sc := sc2 }) ∧
    (w = false → GNodev n nb rf r { gh with vs := gh.vs ++ [v] } lv { s with op := op', sc := sc2 }) := by
  obtain ⟨hw, hG, hcov, haux, hoff⟩ := hDv
  have hauxG : FrameAuxG n nb rf r gh s (gh.vs ++ [v]) false s.path s.choices lv := hGv
  constructor
  · intro _
    have hw' := hw
    obtain ⟨_, h2, _⟩ := hw'
    obtain ⟨p, ps, hpth⟩ : ∃ p ps, s.path = p :: ps := by
      cases hp : s.path with
      | nil => rw [hp] at h2; simp at h2
      | cons p ps => exact ⟨p, ps, rfl⟩
    rw [hpth] at hl
    obtain ⟨c, cs, st, sz, ls, hch, rfl, hcp⟩ := levelsOK_path_ne hl
    obtain ⟨hvl, et, hmem⟩ := osp_refine_child hw hch hpth hcp
    rw [hpth, hch] at hauxG
    have hpre : ∀ L, L < (p :: ps).length → gh.vs.take L = (gh.vs ++ [v]).take L :=
      fun L hL => (take_append_le gh.vs v (by simp only [List.length_cons] at hL; omega)).symm
    have hx1 : FrameAuxG n nb rf r gh s gh.vs false (p :: ps) (c :: cs) ((st, sz) :: ls) :=
      FrameAuxG.congr (gh := gh) (s := s) (s' := s) rfl rfl rfl false _ _ _ hpre hauxG
    have hfin : FrameAuxG1 n nb rf r gh s gh.vs true ps c st sz := by
      refine gsp_frameAuxG1_finish_child (FrameAuxG.head hx1) ?_
      intro h0 w' hw' hp hx
      rw [hmem w' hw'] at hx
      exact (gsp_off_first hoff h0 hvl hp hx).elim
    refine ⟨?_, fun hp => ?_⟩
    · suffices hsuff : ∀ pa ch, pa = p :: ps → ch = c :: cs →
          FrameAuxG n nb rf r gh { s with op := op', sc := sc2 } gh.vs true pa ch ((st, sz) :: ls) from
        hsuff s.path s.choices hpth hch
      intro pa ch e1 e2
      subst e1 e2
      exact FrameAuxG.congr (gh := gh) (s := s) (s' := { s with op := op', sc := sc2 }) rfl rfl rfl true _ _ _
        (fun _ _ => rfl) (FrameAuxG.mk hfin (FrameAuxG.tail hx1))
    · have : s.path = [] := hp
      rw [hpth] at this
      cases this
  · intro _
    exact FrameAuxG.congr_gh (gh := gh) (gh' := { gh with vs := gh.vs ++ [v] }) rfl false _ _ _
      (FrameAuxG.congr (gh := gh) (s := s) (s' := { s with op := op', sc := sc2 }) rfl rfl rfl false _ _ _
        (fun _ _ => rfl) hauxG)

end
end CanonF
