import Mamba.Lemmas.CanonLast
namespace Search
open Disjoint GSearch GraphSpec

variable {O : Oracle} {n : Nat}

theorem isAut_iff_isIso {g : DG} {σ : Nat → Nat} : IsAut g σ ↔ IsIso g g σ :=
  ⟨fun h => ⟨rfl, h.1, h.2⟩, fun h => ⟨h.bij, h.adj⟩⟩

/-- the neighbour list handed to `isCanonical` is the neighbourhood of the last vertex -/
theorem child_aug {P g2 : DG} {x : Nat} (hP : Built P) (hx : InRange P x) (ha : P.addVertex (bitsOf x) = .ok g2) :
    wsum g2 (bitsOf x) = nkey g2 (g2.nv - 1) ∧ ∀ v ∈ bitsOf x, v < g2.nv := by
  have hnv : g2.nv = P.nv + 1 := addVertex_nv ha
  have htoG := addVertex_toG hP.sized (bitsOf_nodup x) hx ha
  refine ⟨?_, fun v hv => by have := hx v hv; omega⟩
  unfold nkey
  apply wsum_perm
  have hL : g2.nv - 1 = P.nv := by omega
  rw [hL]
  refine (List.perm_ext_iff_of_nodup (bitsOf_nodup x) ?_).2 ?_
  · unfold G.nbrs; exact List.Nodup.filter _ List.nodup_range
  · intro a
    unfold G.nbrs
    rw [htoG]
    simp only [List.mem_filter, List.mem_range]
    constructor
    · intro hm
      have ha' := hx a hm
      refine ⟨by show a < P.nv + 1; omega, ?_⟩
      have e := ext_adj_new (g := P.toG) (bitsOf x) (show a < P.toG.n from ha')
      rw [show P.toG.n = P.nv from rfl] at e
      rw [(ext_wf (toG_wf P) _).symm, e]
      exact List.contains_iff_mem.2 hm
    · rintro ⟨hlt, hadj⟩
      have hlt' : a < P.nv + 1 := hlt
      by_cases hap : a < P.nv
      · have e := ext_adj_new (g := P.toG) (bitsOf x) (show a < P.toG.n from hap)
        rw [show P.toG.n = P.nv from rfl] at e
        rw [(ext_wf (toG_wf P) _).symm, e] at hadj
        exact List.contains_iff_mem.1 hadj
      · have : a = P.nv := by omega
        rw [this, (ext_wf (toG_wf P) _).irrefl] at hadj
        cases hadj

/-- the canonical-deletion condition of an accepted child -/
theorem canonLast_of_acc (hO : OracleSpec O n) {P g2 : DG} {x : Nat} {c : Option Ans} (hP : Built P) (hlt : P.nv < n)
    (hx : InRange P x) (ha : AccK O n P x g2 c) :
    ∃ a, getAut O n g2 none = .ok (some a) ∧ CanonLast g2 a := by
  have hb2 : Built g2 := hP.child hx ha.1
  have hnv : g2.nv = P.nv + 1 := addVertex_nv ha.1
  obtain ⟨a, hga⟩ := hO.total hb2 (by omega)
  obtain ⟨h1, h2⟩ := child_aug hP hx ha.1
  exact ⟨a, hga, (accept_iff hO hb2 h1 h2 hga ha.2).1 rfl⟩

/-- from the canonical-deletion condition: an automorphism carrying the first best vertex to the last vertex -/
theorem canonLast_aut (hO : OracleSpec O n) {g : DG} (hb : Built g) {a : Ans} (hga : getAut O n g none = .ok (some a))
    (hc : CanonLast g a) : ∃ w α, firstBest g a.perm.toList = some w ∧ w < g.nv ∧ IsAut g α ∧ α w = g.nv - 1 := by
  obtain ⟨hbest, w, hfb, hrep⟩ := hc
  have hw := firstBest_some hfb
  have hperm := hO.perm hb hga
  have hwlt : w < g.nv := by simpa using hperm.mem_iff.1 hw.1
  obtain ⟨α, hα, hαw⟩ := (hO.orbits hb hga w (g.nv - 1) hwlt hbest.1).1 hrep
  exact ⟨w, α, hfb, hwlt, hα, hαw⟩

theorem canon_iso_of_oracle (hO : OracleSpec O n) {P1 P2 g1 g2 : DG} {x1 x2 : Nat} {c1 c2 : Option Ans}
    (hP1 : Built P1) (hP2 : Built P2) (hlt1 : P1.nv < n) (hlt2 : P2.nv < n) (hx1 : InRange P1 x1) (hx2 : InRange P2 x2)
    (ha1 : AccK O n P1 x1 g1 c1) (ha2 : AccK O n P2 x2 g2 c2) (i : IsoD g1 g2) :
    ExtEquiv P1 (bitsOf x1) P2 (bitsOf x2) := by
  have hb1 : Built g1 := hP1.child hx1 ha1.1
  have hb2 : Built g2 := hP2.child hx2 ha2.1
  have n1 : g1.nv = P1.nv + 1 := addVertex_nv ha1.1
  have n2 : g2.nv = P2.nv + 1 := addVertex_nv ha2.1
  obtain ⟨a1, hga1, hc1⟩ := canonLast_of_acc hO hP1 hlt1 hx1 ha1
  obtain ⟨a2, hga2, hc2⟩ := canonLast_of_acc hO hP2 hlt2 hx2 ha2
  obtain ⟨w1, α1, hf1, hw1, hα1, hαw1⟩ := canonLast_aut hO hb1 hga1 hc1
  obtain ⟨w2, α2, hf2, hw2, hα2, hαw2⟩ := canonLast_aut hO hb2 hga2 hc2
  obtain ⟨θ, hθ, htr⟩ := canon_transport hO hb1 hb2 i hga1 hga2
  have hw2' : w2 = θ w1 := by
    have := htr w1 hf1
    rw [hf2] at this
    exact Option.some.inj this
  -- ψ = α2 ∘ θ ∘ α1⁻¹
  have i1 := isAut_iff_isIso.1 hα1
  have i2 := isAut_iff_isIso.1 hα2
  have hψ := (i1.symm.comp hθ).comp i2
  refine restrict_last hP1 hP2 hx1 hx2 ha1.1 ha2.1 hψ ?_
  show α2 (θ (i1.bij.inv P1.nv)) = P2.nv
  have hL1 : P1.nv = g1.nv - 1 := by omega
  have : i1.bij.inv P1.nv = w1 := by
    rw [hL1, ← hαw1]; exact i1.bij.inv_left hw1
  rw [this, ← hw2', hαw2]; omega

theorem canon_inv_of_oracle (hO : OracleSpec O n) {P1 P2 g1 g2 : DG} {x1 x2 : Nat} {c1 c2 : Option Ans} {b : Bool}
    (hP1 : Built P1) (hP2 : Built P2) (hlt1 : P1.nv < n) (hlt2 : P2.nv < n) (hx1 : InRange P1 x1) (hx2 : InRange P2 x2)
    (ha1 : AccK O n P1 x1 g1 c1) (e : ExtEquiv P1 (bitsOf x1) P2 (bitsOf x2))
    (hadd : P2.addVertex (bitsOf x2) = .ok g2) (hcan : isCanonical O n g2 (bitsOf x2) none = .ok (c2, b)) :
    b = true := by
  have hb1 : Built g1 := hP1.child hx1 ha1.1
  have hb2 : Built g2 := hP2.child hx2 hadd
  have n1 : g1.nv = P1.nv + 1 := addVertex_nv ha1.1
  have n2 : g2.nv = P2.nv + 1 := addVertex_nv hadd
  obtain ⟨a1, hga1, hc1⟩ := canonLast_of_acc hO hP1 hlt1 hx1 ha1
  obtain ⟨a2, hga2⟩ := hO.total hb2 (by omega)
  obtain ⟨w1, α1, hf1, hw1, hα1, hαw1⟩ := canonLast_aut hO hb1 hga1 hc1
  obtain ⟨ψ, hψ, hψL⟩ := extend_last hP1 hP2 hx1 hx2 ha1.1 hadd e
  have i : IsoD g1 g2 := ⟨hψ.nv, ψ, hψ.bij, hψ.adj⟩
  obtain ⟨θ, hθ, htr⟩ := canon_transport hO hb1 hb2 i hga1 hga2
  obtain ⟨h1, h2⟩ := child_aug hP2 hx2 hadd
  apply (accept_iff hO hb2 h1 h2 hga2 hcan).2
  have hL1 : g1.nv - 1 = P1.nv := by omega
  have hL2 : g2.nv - 1 = P2.nv := by omega
  refine ⟨?_, θ w1, htr w1 hf1, ?_⟩
  · rw [hL2, ← hψL]
    exact (hψ.best (by omega)).2 (hL1 ▸ hc1.1)
  · -- β = ψ ∘ α1 ∘ θ⁻¹ is an automorphism of g2 carrying θ w1 to the last vertex
    have i1 := isAut_iff_isIso.1 hα1
    have hβ := (hθ.symm.comp i1).comp hψ
    have hθw : θ w1 < g2.nv := hθ.nv ▸ hθ.bij.maps w1 hw1
    refine (hO.orbits hb2 hga2 (θ w1) (g2.nv - 1) hθw (by omega)).2 ⟨_, isAut_iff_isIso.2 hβ, ?_⟩
    show ψ (α1 (hθ.bij.inv (θ w1))) = g2.nv - 1
    rw [hθ.bij.inv_left hw1, hαw1, hL1, hψL, hL2]

end Search
