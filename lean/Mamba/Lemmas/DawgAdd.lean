import Mamba.Lemmas.DawgRor2
/-! One `Add` on a builder whose last word is spelled by a complete spine. -/
namespace Dawg

/-- the part of `Add` after `commonPrefix` -/
def addTail (R : List Nat) (lastID : Nat) (r : Heap × List Nat × Nat) : Outcome (Heap × List Nat × Nat) :=
  match getNode r.1 r.2.2 with
  | .ok ln =>
    match (if ln.links.length ≠ 0 then replaceOrRegister (r.1.size + 1) r.1 r.2.2 R else .ok (r.1, R)) with
    | .ok (h2, reg2) =>
      match addSuffix h2 r.2.2 r.2.1 lastID with
      | .ok (h3, lid) => .ok (h3, reg2, lid)
      | .panic => .panic
      | .outOfFuel => .outOfFuel
    | .panic => .panic
    | .outOfFuel => .outOfFuel
  | .panic => .panic
  | .outOfFuel => .outOfFuel

/-- `cpWalk` followed by the rest of `Add` -/
def walkAdd (R : List Nat) (lid : Nat) (h : Heap) (p : Nat) (x : Word) : Outcome (Heap × List Nat × Nat) :=
  match cpWalk h p x with
  | .ok r => addTail R lid r
  | .panic => .panic
  | .outOfFuel => .outOfFuel

theorem findLabel_append_last (ls : List Nat) (c : Nat) (hc : c ∉ ls) : findLabel (ls ++ [c]) c = some ls.length := by
  induction ls with
  | nil => simp [findLabel]
  | cons l ls ih =>
    rw [List.mem_cons, not_or] at hc
    simp only [List.cons_append, findLabel, List.length_cons]
    rw [if_neg (fun h => hc.1 h.symm), ih hc.2]
    rfl

theorem sorted_append_last {ls : List Nat} {c : Nat} (hs : (ls ++ [c]).Pairwise (· < ·)) :
    c ∉ ls ∧ ∀ l ∈ ls ++ [c], l ≤ c := by
  rw [List.pairwise_append] at hs
  obtain ⟨_, _, h3⟩ := hs
  refine ⟨fun hmem => Nat.lt_irrefl _ (h3 c hmem c (by simp)), ?_⟩
  intro l hl
  rw [List.mem_append, List.mem_singleton] at hl
  rcases hl with hl | rfl
  · exact Nat.le_of_lt (h3 l hl c (by simp))
  · exact Nat.le_refl _

/-- incrementing the word count of the head of an exact spine -/
theorem Spine.bump {h : Heap} {R : List Nat} {s : Nat} {sp : List Nat} {v : Word} {L Le : List Word} {sn : Node}
    (hs : Spine h R 0 (s :: sp) v L Le) (hreg : RegOK h R) (hnd : (s :: sp).Nodup) (hsn : h[s]? = some sn) :
    Spine (h.setIfInBounds s { sn with numWords := sn.numWords + 1 }) R 1 (s :: sp) v L Le := by
  have hslt : s < h.size := (Array.getElem?_eq_some_iff.1 hsn).1
  have hsR : s ∉ R := (hs.valid s List.mem_cons_self).2
  have hag : AgreeOn h (h.setIfInBounds s { sn with numWords := sn.numWords + 1 }) R := by
    intro u hu
    rw [Array.getElem?_setIfInBounds_ne (fun (h1 : s = u) => hsR (by rw [h1]; exact hu))]
  have hget : (h.setIfInBounds s { sn with numWords := sn.numWords + 1 })[s]? =
      some { sn with numWords := sn.numWords + 1 } := by
    rw [Array.getElem?_setIfInBounds_self]; simp [hslt]
  rw [List.nodup_cons] at hnd
  cases hs with
  | last hn =>
    have := hn.get
    rw [hsn] at this; cases this
    refine Spine.last (n := { sn with numWords := sn.numWords + 1 }) ⟨hget, hn.notReg, hn.sorted, hn.fin, ?_, hn.labs, hn.lens, hn.mem, ?_⟩
    · show sn.numWords + 1 = _
      rw [hn.num]; simp [dlt]
    · intro j c q hj hq
      obtain ⟨h1, h2⟩ := hn.kids j c q hj hq
      exact ⟨h1, h2.frame hreg.closed hag h1⟩
  | node hn hpR hs0 hsort hf hnum hlab hlabs hlinks hlen hmem hkids hsub =>
    rw [hsn] at hn; cases hn
    refine Spine.node (n := { sn with numWords := sn.numWords + 1 }) hget hpR hs0 hsort hf ?_ hlab hlabs hlinks hlen hmem ?_ ?_
    · show sn.numWords + 1 = _
      rw [hnum]; simp [dlt]
    · intro j c' q hj hq
      obtain ⟨h1, h2⟩ := hkids j c' q hj hq
      exact ⟨h1, h2.frame hreg.closed hag h1⟩
    · refine hsub.frame hreg hag ?_
      intro u hu
      rw [Array.getElem?_setIfInBounds_ne (fun (h1 : s = u) => hnd.1 (by rw [h1]; exact hu))]

structure AddPost (h : Heap) (R : List Nat) (sp : List Nat) (p : Nat) (x : Word) (L : List Word)
    (h3 : Heap) (R3 : List Nat) (sp' : List Nat) : Prop where
  spine : Spine h3 R3 0 sp' x (L ++ [x]) [[]]
  head : sp'.head? = some p
  nodup : sp'.Nodup
  reg : RegOK h3 R3
  ids : HeapIds h3
  size : h.size ≤ h3.size
  frame : ∀ i, i < h.size → i ∉ sp → h3[i]? = h[i]?
  spNew : ∀ q ∈ sp', q ∈ sp ∨ h.size ≤ q
  regSub : ∀ u ∈ R, u ∈ R3
  regSup : ∀ u ∈ R3, u ∈ R ∨ u ∈ sp

theorem addAt : ∀ (sp : List Nat) (R : List Nat) (lid : Nat) (h : Heap) (v x : Word) (L Le : List Word),
    Spine h R 1 sp v L Le → Le = [[]] → sp.Nodup → RegOK h R → HeapIds h → lid + 1 = h.size →
    sp.length ≤ h.size → (∀ u ∈ L, u < x) →
    ∃ p h3 R3 sp', sp.head? = some p ∧ walkAdd R lid h p x = .ok (h3, R3, h3.size - 1) ∧
      AddPost h R sp p x L h3 R3 sp' := by
  intro sp
  induction sp with
  | nil => intro R lid h v x L Le hs; cases hs
  | cons p sp ih =>
    intro R lid h v x L Le hs hLe hnd hreg hids hlid hfuel hlt
    cases hs with
    | @last _ _ _ n hn =>
      subst hLe
      obtain ⟨hl1, hl2⟩ := labels_nil_of_single_nil hn
      -- the new word is non-empty
      cases x with
      | nil => exact absurd (hlt [] (by simp)) (word_lt_irrefl _)
      | cons a x' =>
        have hn1 : NodeRep h R p [[]] 1 n := by simpa [dlt] using hn
        obtain ⟨h3, news, hres, hsp3, hsz3, hfr3, hnews, hndn, hids3⟩ :=
          addSuffix_at R h p lid a x' [[]] n hn1 hreg hids hlid (by simp [hl1]) hlt
        have hag : AgreeOn h h3 R := by
          intro u hu
          exact hfr3 u (hreg.lt_size hu) (fun h1 => hn.notReg (h1 ▸ hu))
        refine ⟨p, h3, R, p :: news, rfl, ?_, hsp3, rfl, ?_, hreg.frame hag, hids3, by omega, ?_, ?_,
          fun u hu => hu, fun u hu => Or.inl hu⟩
        · simp only [walkAdd, cpWalk, getNode_of_some hn.get, hl1, findLabel, addTail, hl2, List.length_nil,
            ne_eq, not_true_eq_false, if_false, hres]
          congr 3
          omega
        · rw [List.nodup_cons]
          refine ⟨fun hmem => ?_, hndn⟩
          have := hnews p hmem
          have := (Array.getElem?_eq_some_iff.1 hn.get).1
          omega
        · intro i hi hip
          exact hfr3 i hi (fun h1 => hip (h1 ▸ List.mem_cons_self))
        · intro q hq
          rw [List.mem_cons] at hq
          rcases hq with rfl | hq
          · exact Or.inl List.mem_cons_self
          · exact Or.inr (hnews q hq)
    | @node _ _ s c sp0 v0 _ _ n ls qs hn hpR hs0 hsort hfin hnum hlab hlabs hlinks hlen hmem hkids hsub =>
      subst hLe
      have hk0 : (1 : Nat) - 1 = 0 := rfl
      rw [hk0] at hsub
      have hplt : p < h.size := (Array.getElem?_eq_some_iff.1 hn).1
      have hvL : c :: v0 ∈ L := mem_sub.1 hsub.word_mem
      obtain ⟨hcls, hle⟩ := sorted_append_last (hlabs ▸ hlab)
      rw [List.nodup_cons] at hnd
      have hvalid := hsub.valid
      cases x with
      | nil => exact absurd (hlt _ hvL) (List.not_lt_nil _)
      | cons a x' =>
        have hcx := hlt _ hvL
        rw [List.cons_lt_cons_iff] at hcx
        by_cases hac : a = c
        · -- the walk continues into the spine child `s`
          subst hac
          have hv0x : ∀ u ∈ sub L a, u < x' := by
            intro u hu
            have := hlt _ (mem_sub.1 hu)
            rw [List.cons_lt_cons_iff] at this
            rcases this with h1 | ⟨_, h1⟩
            · exact absurd h1 (Nat.lt_irrefl _)
            · exact h1
          obtain ⟨sn, hsn⟩ : ∃ sn, h[s]? = some sn := by
            have := (hvalid s List.mem_cons_self).1
            exact ⟨h[s], by simp [this]⟩
          let h' : Heap := h.setIfInBounds s { sn with numWords := sn.numWords + 1 }
          have hsub' : Spine h' R 1 (s :: sp0) v0 (sub L a) [[]] := hsub.bump hreg hnd.2 hsn
          have hsR : s ∉ R := (hvalid s List.mem_cons_self).2
          have hag' : AgreeOn h h' R := by
            intro u hu
            show (h.setIfInBounds s _)[u]? = _
            rw [Array.getElem?_setIfInBounds_ne (fun (h1 : s = u) => hsR (by rw [h1]; exact hu))]
          have hids' : HeapIds h' := by
            intro i n' hn'
            by_cases his : i = s
            · subst his
              have : h'[i]? = some { sn with numWords := sn.numWords + 1 } := by
                show (h.setIfInBounds i _)[i]? = _
                rw [Array.getElem?_setIfInBounds_self]; simp [(hvalid i List.mem_cons_self).1]
              rw [this] at hn'; cases hn'
              exact hids i sn hsn
            · have : h'[i]? = h[i]? := by
                show (h.setIfInBounds s _)[i]? = _
                rw [Array.getElem?_setIfInBounds_ne (Ne.symm his)]
              rw [this] at hn'
              exact hids i n' hn'
          have hsz' : h'.size = h.size := by simp [h']
          obtain ⟨p', h3, R3, sp', hhead, hres, hpost⟩ :=
            ih R lid h' v0 x' (sub L a) [[]] hsub' rfl hnd.2 (hreg.frame hag') hids' (by omega)
              (by simp at hfuel ⊢; omega) hv0x
          simp only [List.head?_cons, Option.some.injEq] at hhead
          subst hhead
          -- `sp'` starts with `s`
          obtain ⟨sp'', hsp''⟩ : ∃ sp'', sp' = s :: sp'' := by
            cases sp' with
            | nil => have := hpost.head; simp at this
            | cons q sp'' =>
              have := hpost.head
              simp only [List.head?_cons, Option.some.injEq] at this
              exact ⟨sp'', by rw [this]⟩
          subst hsp''
          have hp3 : h3[p]? = some n := by
            rw [hpost.frame p (by omega) hnd.1]
            show (h.setIfInBounds s _)[p]? = _
            rw [Array.getElem?_setIfInBounds_ne (fun (h1 : s = p) => hnd.1 (by rw [← h1]; exact List.mem_cons_self))]
            exact hn
          have hpR3 : p ∉ R3 := by
            intro hmem
            rcases hpost.regSup p hmem with h1 | h1
            · exact hpR h1
            · exact hnd.1 h1
          have hag3 : AgreeOn h h3 R := by
            intro u hu
            rw [hpost.frame u (by have := hreg.lt_size hu; omega) (fun hmem => (hvalid u hmem).2 hu)]
            exact hag' u hu
          refine ⟨p, h3, R3, p :: s :: sp'', rfl, ?_, ?_, rfl, ?_, hpost.reg, hpost.ids, by have := hpost.size; omega, ?_, ?_,
            hpost.regSub, ?_⟩
          · have hfl : findLabel n.labels a = some ls.length := by rw [hlabs]; exact findLabel_append_last ls a hcls
            have hlk : n.links[ls.length]? = some s := by
              rw [hlinks, hlen, List.getElem?_append_right (Nat.le_refl _)]; simp
            simp only [walkAdd, cpWalk, getNode_of_some hn, hfl, hlk, getNode_of_some hsn]
            exact hres
          · refine Spine.node hp3 hpR3 hs0 ?_ ?_ ?_ hlab hlabs hlinks hlen ?_ ?_ ?_
            · rw [List.pairwise_append]
              exact ⟨hsort, by simp, fun u hu w hw => by simp at hw; subst hw; exact hlt u hu⟩
            · rw [hfin]; simp
            · rw [hnum]; simp [dlt]
            · intro c'
              rw [sub_append, sub_cons_cons, sub_nil]
              by_cases hcc : a = c'
              · subst hcc; simp [hlabs]
              · rw [if_neg hcc, List.append_nil]; exact hmem c'
            · intro j c' q hj hq
              obtain ⟨h1, h2⟩ := hkids j c' q hj hq
              have hc' : a ≠ c' := by
                intro h3; subst h3; exact hcls (List.mem_of_getElem? hj)
              rw [sub_append, sub_cons_cons, sub_nil, if_neg hc', List.append_nil]
              exact ⟨hpost.regSub q h1, h2.frame hreg.closed hag3 h1⟩
            · have : sub (L ++ [a :: x']) a = sub L a ++ [x'] := by
                rw [sub_append, sub_cons_cons, sub_nil, if_pos rfl]
              rw [this]
              exact hpost.spine
          · rw [List.nodup_cons]
            refine ⟨?_, hpost.nodup⟩
            intro hmem
            rcases hpost.spNew p hmem with h1 | h1
            · exact hnd.1 h1
            · omega
          · intro i hi hisp
            rw [List.mem_cons, not_or] at hisp
            rw [hpost.frame i (by omega) hisp.2]
            show (h.setIfInBounds s _)[i]? = _
            rw [Array.getElem?_setIfInBounds_ne (fun (h1 : s = i) => hisp.2 (by rw [← h1]; exact List.mem_cons_self))]
          · intro q hq
            rw [List.mem_cons] at hq
            rcases hq with rfl | hq
            · exact Or.inl List.mem_cons_self
            · rcases hpost.spNew q hq with h1 | h1
              · exact Or.inl (List.mem_cons_of_mem _ h1)
              · exact Or.inr (by omega)
          · intro u hu
            rcases hpost.regSup u hu with h1 | h1
            · exact Or.inl h1
            · exact Or.inr (List.mem_cons_of_mem _ h1)
        · -- the walk stops at `p`: minimise the old branch below `p`, then hang the new suffix
          have hca : c < a := by
            rcases hcx with h1 | ⟨h1, _⟩
            · exact h1
            · exact absurd h1.symm hac
          have hanot : a ∉ n.labels := by
            intro hmem
            have := hle a (hlabs ▸ hmem)
            omega
          have hspine : Spine h R 1 (p :: s :: sp0) (c :: v0) L [[]] :=
            Spine.node hn hpR hs0 hsort hfin hnum hlab hlabs hlinks hlen hmem hkids (by rw [hk0]; exact hsub)
          obtain ⟨h2, R2, n2, hres2, hn2, hreg2, hsz2, hfr2, hsub2, hsup2, hids2⟩ :=
            rOR_spec (h.size + 1) h R 1 p s c sp0 v0 L (Nat.le_refl _) hspine
              (List.nodup_cons.2 hnd) hreg (by simp at hfuel ⊢; omega)
          have hn21 : NodeRep h2 R2 p L 1 n2 := by simpa [dlt] using hn2
          have hb : ∀ l ∈ n2.labels, l < a := by
            intro l hl
            have h1 : l ∈ n.labels := (hmem l).2 ((hn2.mem l).1 hl)
            have := hle l (hlabs ▸ h1)
            omega
          obtain ⟨h3, news, hres3, hsp3, hsz3, hfr3, hnews, hndn, hids3⟩ :=
            addSuffix_at R2 h2 p lid a x' L n2 hn21 hreg2 (hids2 hids) (by omega) hb hlt
          have hag : AgreeOn h2 h3 R2 := by
            intro u hu
            exact hfr3 u (hreg2.lt_size hu) (fun h1 => hn2.notReg (h1 ▸ hu))
          refine ⟨p, h3, R2, p :: news, rfl, ?_, hsp3, rfl, ?_, hreg2.frame hag, hids3, by omega, ?_, ?_,
            hsub2, ?_⟩
          · have hfl : findLabel n.labels a = none := findLabel_none.2 hanot
            have hlinkne : n.links.length ≠ 0 := by rw [hlinks]; simp
            simp only [walkAdd, cpWalk, getNode_of_some hn, hfl, addTail, if_pos hlinkne, hres2, hres3]
            congr 3
            omega
          · rw [List.nodup_cons]
            refine ⟨fun hmem => ?_, hndn⟩
            have := hnews p hmem
            omega
          · intro i hi hisp
            rw [List.mem_cons, not_or] at hisp
            rw [hfr3 i (by omega) hisp.1, hfr2 i (by simpa using hisp)]
          · intro q hq
            rw [List.mem_cons] at hq
            rcases hq with rfl | hq
            · exact Or.inl List.mem_cons_self
            · exact Or.inr (by have := hnews q hq; omega)
          · intro u hu
            rcases hsup2 u hu with h1 | h1
            · exact Or.inl h1
            · exact Or.inr (List.mem_cons_of_mem _ h1)

end Dawg
