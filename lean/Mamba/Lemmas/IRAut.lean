import Mamba.Lemmas.CanonFTreePath
import Mamba.Lemmas.IRCanon
/-!
# Automorphisms map subtrees of the unpruned tree onto subtrees

`CertBelow g rf s x`: `x` is the certificate of a leaf of the unpruned tree of `Model/IR.lean` below the node `s`
(stated with the paths of `CanonFTreePath.lean`, so without depth fuel). Relabelling transports paths
(`path_rel`) and leaf certificates (`certBelow_rel`); an automorphism that preserves the colouring of a node maps the
subtree of the child `v` onto the subtree of the child `γ v` (`certBelow_child_aut`, `certBelow_child_aut_iff`).
Every element of `IR.leaves` / `IR.allLeaves` is such a leaf (`certBelow_of_mem_leaves`, `certBelow_of_mem_allLeaves`).
-/
namespace IR

/-- `x` is the certificate of a leaf of the unpruned tree below the node `s` -/
def CertBelow (g : G) (rf : Nat) (s : St) (x : List Nat) : Prop :=
  ∃ vs, IsPath g rf s vs ∧ target g (nodeAt g rf s vs) = none ∧ cert g (nodeAt g rf s vs).c = x

/-! ### relabelling -/

theorem childSt_rel {g g' : G} {σ τ : Nat → Nat} (R : Relabel g g' σ τ) (rf : Nat) {s s' : St} (h : SRel g σ s s')
    (t : Nat) {v : Nat} (hv : v < g.n) : SRel g σ (childSt g rf s t v) (childSt g' rf s' t (σ v)) :=
  refine_rel R rf (individualise_rel R h t v hv)

theorem path_rel {g g' : G} {σ τ : Nat → Nat} (R : Relabel g g' σ τ) (rf : Nat) :
    ∀ (vs : List Nat) {s s' : St}, SRel g σ s s' → IsPath g rf s vs →
      IsPath g' rf s' (vs.map σ) ∧ SRel g σ (nodeAt g rf s vs) (nodeAt g' rf s' (vs.map σ)) := by
  intro vs
  induction vs with
  | nil =>
    intro s s' h _
    exact ⟨trivial, h⟩
  | cons v vs ih =>
    intro s s' h hp
    obtain ⟨t, ht, hv, hp'⟩ := hp
    have ht' : target g' s' = some t := by rw [target_rel R h]; exact ht
    have hvn : v < g.n := mem_cellMembers_lt hv
    have hv' : σ v ∈ cellMembers g' s'.c t :=
      (cellMembers_rel R h.1 t).mem_iff.2 (List.mem_map_of_mem hv)
    obtain ⟨h1, h2⟩ := ih (childSt_rel R rf h t hvn) hp'
    refine ⟨⟨t, ht', hv', h1⟩, ?_⟩
    simp only [List.map_cons, nodeAt, ht, ht']
    exact h2

theorem certBelow_rel {g g' : G} {σ τ : Nat → Nat} (R : Relabel g g' σ τ) (rf : Nat) {s s' : St}
    (h : SRel g σ s s') {x : List Nat} : CertBelow g rf s x → CertBelow g' rf s' x := by
  rintro ⟨vs, hp, ht, hc⟩
  obtain ⟨h1, h2⟩ := path_rel R rf vs h hp
  exact ⟨vs.map σ, h1, by rw [target_rel R h2]; exact ht, by rw [cert_rel R h2.1]; exact hc⟩

/-- an automorphism that preserves the colouring of the node `s` maps the subtree of the child `v` onto the subtree of
the child `γ v` -/
theorem certBelow_child_aut {g : G} {γ τ : Nat → Nat} (R : Relabel g g γ τ) (rf : Nat) {s : St} (h : SRel g γ s s)
    {t v : Nat} (hv : v < g.n) {x : List Nat} :
    CertBelow g rf (childSt g rf s t v) x → CertBelow g rf (childSt g rf s t (γ v)) x :=
  certBelow_rel R rf (childSt_rel R rf h t hv)

/-- the inverse of an automorphism preserving the colouring of `s` preserves it too -/
theorem SRel.symm_aut {g : G} {γ τ : Nat → Nat} (R : Relabel g g γ τ) {s : St} (h : SRel g γ s s) : SRel g τ s s := by
  refine ⟨?_, rfl, rfl⟩
  intro v hv
  have := h.1 (τ v) (R.τ_lt v hv)
  rw [R.right v hv] at this
  exact this.symm

theorem certBelow_child_aut_iff {g : G} {γ τ : Nat → Nat} (R : Relabel g g γ τ) (rf : Nat) {s : St} (h : SRel g γ s s)
    {t v : Nat} (hv : v < g.n) {x : List Nat} :
    CertBelow g rf (childSt g rf s t (γ v)) x ↔ CertBelow g rf (childSt g rf s t v) x := by
  constructor
  · intro hx
    have := certBelow_child_aut R.symm rf (SRel.symm_aut R h) (t := t) (R.σ_lt v hv) hx
    rwa [R.left v hv] at this
  · exact certBelow_child_aut R rf h hv

/-! ### one unfolding step -/

theorem certBelow_of_target_none {g : G} {rf : Nat} {s : St} {x : List Nat} (ht : target g s = none) :
    CertBelow g rf s x ↔ cert g s.c = x := by
  constructor
  · rintro ⟨vs, hp, _, hc⟩
    cases vs with
    | nil => exact hc
    | cons v vs =>
      obtain ⟨t, ht', _⟩ := hp
      rw [ht] at ht'
      cases ht'
  · intro hc
    exact ⟨[], trivial, ht, hc⟩

theorem certBelow_of_target_some {g : G} {rf : Nat} {s : St} {x : List Nat} {t : Nat} (ht : target g s = some t) :
    CertBelow g rf s x ↔ ∃ v, v ∈ cellMembers g s.c t ∧ CertBelow g rf (childSt g rf s t v) x := by
  constructor
  · rintro ⟨vs, hp, hn, hc⟩
    cases vs with
    | nil =>
      simp only [nodeAt] at hn
      rw [ht] at hn
      cases hn
    | cons v vs =>
      obtain ⟨t', ht', hv, hp'⟩ := hp
      rw [ht] at ht'
      cases ht'
      simp only [nodeAt, ht] at hn hc
      exact ⟨v, hv, vs, hp', hn, hc⟩
  · rintro ⟨v, hv, vs, hp, hn, hc⟩
    refine ⟨v :: vs, ⟨t, ht, hv, hp⟩, ?_, ?_⟩
    · simp only [nodeAt, ht]; exact hn
    · simp only [nodeAt, ht]; exact hc

theorem certBelow_node {g : G} {rf : Nat} {s : St} {x : List Nat} :
    CertBelow g rf s x ↔ (match target g s with
      | none => cert g s.c = x
      | some t => ∃ v, v ∈ cellMembers g s.c t ∧ CertBelow g rf (childSt g rf s t v) x) := by
  cases ht : target g s with
  | none => exact certBelow_of_target_none ht
  | some t => exact certBelow_of_target_some ht

/-! ### the elements of `IR.leaves` -/

/-- a colouring that is injective on `0..n-1` has no target cell -/
theorem target_none_of_inj {g : G} {s : St}
    (hinj : ∀ u v, u < g.n → v < g.n → col s.c u = col s.c v → u = v) : target g s = none := by
  unfold target
  rw [List.find?_eq_none]
  intro t _ hlen
  simp only [gt_iff_lt, decide_eq_true_eq] at hlen
  obtain ⟨v, hv, _⟩ := exists_other (v := g.n) hlen
  obtain ⟨w, hw, hwv⟩ := exists_other (v := v) hlen
  obtain ⟨hvn, hvt⟩ := mem_cellMembers.1 hv
  obtain ⟨hwn, hwt⟩ := mem_cellMembers.1 hw
  exact hwv (hinj w v hwn hvn (by rw [hvt, hwt]))

/-- `n` cells = discrete colouring = no target cell -/
theorem target_none_of_cells {g : G} {s : St} (hD : InvD g s) (hn : g.n ≤ s.cells) : target g s = none := by
  have hDn : D g.n s.c = g.n := by have := D_le g.n s.c; rw [hD] at this ⊢; omega
  have hinj : Set.InjOn (col s.c) (Finset.range g.n : Set Nat) := by
    apply Finset.card_image_iff.1
    unfold D at hDn
    rw [hDn]; simp
  exact target_none_of_inj (fun u v hu hv e => hinj (by simpa using hu) (by simpa using hv) e)

theorem certBelow_of_mem_leaves {g : G} (hg : WF g) (rf : Nat) : ∀ (fuel : Nat) (s : St), InvA g s → InvD g s →
    g.n ≤ fuel + s.cells → ∀ l ∈ leaves g rf fuel s, CertBelow g rf s (cert g l) := by
  intro fuel
  induction fuel with
  | zero =>
    intro s _ hD hn l hl
    simp only [leaves, List.mem_singleton] at hl
    subst hl
    exact (certBelow_of_target_none (target_none_of_cells hD (by omega))).2 rfl
  | succ f ih =>
    intro s hA hD hn l hl
    unfold leaves at hl
    cases ht : target g s with
    | none =>
      rw [ht] at hl
      simp only [List.mem_singleton] at hl
      subst hl
      exact (certBelow_of_target_none ht).2 rfl
    | some t =>
      rw [ht] at hl
      simp only [List.mem_flatMap] at hl
      obtain ⟨v, hv, hl⟩ := hl
      obtain ⟨htc, hlen⟩ := target_some ht
      have hA' := ind_invA hA htc v
      have hD' := ind_invD hA hD htc hv hlen
      have hinv := refine_inv rf _ ⟨hA', hD'⟩
      have hcells := refine_cells_le hg rf ⟨hA', hD'⟩
      have e : (individualise g s t v).cells = s.cells + 1 := rfl
      exact (certBelow_of_target_some ht).2
        ⟨v, hv, ih (childSt g rf s t v) hinv.1 hinv.2 (by unfold childSt; omega) l hl⟩

theorem certBelow_of_mem_allLeaves {g : G} (hg : WF g) {s : St} (hw : s.work ≠ []) {l : Array Nat}
    (hl : l ∈ allLeaves g s) : CertBelow g (rfuel g) (refine g (rfuel g) s) (cert g l) := by
  have hinv := refine_inv' (g := g) (fuel := rfuel g) (by unfold rfuel; omega) hw
  exact certBelow_of_mem_leaves hg _ _ _ hinv.1 hinv.2 (by omega) l hl

end IR
