import Mathlib.Data.List.Range
import Mathlib.Data.List.Perm.Subperm
import Mathlib.Logic.Function.Basic

/-!
# Union–find as a parent function (helper theory for C18)

`S` is a size and a parent function `p : Nat → Int` (`p x < 0`: root with rank `-(p x) - 1`,
otherwise `p x` is the parent).  `Lemmas/DisjointArr.lean` abstracts the executable `Array Int`
model of `Model/Disjoint.lean` to this structure.

Contents: the invariant `Inv` with a rank potential, pigeonhole termination (`root_isRoot`),
fuel independence, `rep_parent`, a uniqueness principle for representatives (`rep_uniq`), and the
effect on `Inv`/`rep` of (a) redirecting a non-root to its representative (path compression) and
(b) linking one root under another (union by rank, all three cases at once).
-/
namespace Disjoint.Fn

structure S where
  n : Nat
  p : Nat → Int

/-- follow parents with fuel; returns the last node reached -/
def root (s : S) : Nat → Nat → Nat
  | 0, x => x
  | f+1, x => if s.p x < 0 then x else root s f (s.p x).toNat

/-- nodes strictly below the root on the walk from x (the Go `seenNumbers` minus its last element) -/
def below (s : S) : Nat → Nat → List Nat
  | 0, _ => []
  | f+1, x => if s.p x < 0 then [] else x :: below s f (s.p x).toNat

structure Inv (s : S) (rk : Nat → Nat) : Prop where
  par_lt : ∀ x, x < s.n → 0 ≤ s.p x → (s.p x).toNat < s.n
  rk_lt : ∀ x, x < s.n → 0 ≤ s.p x → rk x < rk (s.p x).toNat
  rk_root : ∀ x, x < s.n → s.p x < 0 → (rk x : Int) = - s.p x - 1

/-- the walk: strictly increasing rank, all nodes in range; if it has not reached a root after `f`
steps it has seen `f` distinct non-roots below the current node. -/
theorem walk_facts {s : S} {rk : Nat → Nat} (h : Inv s rk) :
    ∀ (f x : Nat), x < s.n →
      root s f x < s.n ∧ rk x ≤ rk (root s f x) ∧
      (∀ y ∈ below s f x, y < s.n ∧ rk x ≤ rk y ∧ rk y < rk (root s f x)) ∧
      (below s f x).Pairwise (fun a b => rk a < rk b) ∧
      (¬ s.p (root s f x) < 0 → (below s f x).length = f) := by
  intro f
  induction f with
  | zero => intro x hx; simp [root, below, hx]
  | succ f ih =>
    intro x hx
    by_cases hr : s.p x < 0
    · simp [root, below, hr, hx]
    · have h0 : 0 ≤ s.p x := by omega
      have hy := h.par_lt x hx h0
      have hlt := h.rk_lt x hx h0
      obtain ⟨a1, a2, a3, a4, a5⟩ := ih _ hy
      have er : root s (f + 1) x = root s f (s.p x).toNat := by rw [root]; simp [hr]
      have eb : below s (f + 1) x = x :: below s f (s.p x).toNat := by rw [below]; simp [hr]
      rw [er, eb]
      refine ⟨a1, by omega, ?_, ?_, ?_⟩
      · intro y hy'
        rcases List.mem_cons.1 hy' with rfl | hy''
        · exact ⟨hx, le_refl _, by omega⟩
        · obtain ⟨b1, b2, b3⟩ := a3 y hy''; exact ⟨b1, by omega, b3⟩
      · refine List.pairwise_cons.2 ⟨?_, a4⟩
        intro y hy''; have := (a3 y hy'').2.1; omega
      · intro hnr; simp [a5 hnr]

theorem nodup_lt_length_le {l : List Nat} {n : Nat} (hn : l.Nodup) (hl : ∀ y ∈ l, y < n) :
    l.length ≤ n := by
  have hs : l ⊆ List.range n := fun y hy => List.mem_range.2 (hl y hy)
  have := (List.subperm_of_subset hn hs).length_le
  simpa using this

/-- with fuel ≥ n the walk ends in a root (pigeonhole on the strictly increasing potential) -/
theorem root_isRoot {s : S} {rk : Nat → Nat} (h : Inv s rk) (f x : Nat) (hx : x < s.n)
    (hf : s.n ≤ f) : root s f x < s.n ∧ s.p (root s f x) < 0 := by
  obtain ⟨a1, _, a3, a4, a5⟩ := walk_facts h f x hx
  refine ⟨a1, ?_⟩
  by_contra hnr
  have hlen := a5 hnr
  have hpw : (below s f x ++ [root s f x]).Pairwise (fun a b => rk a < rk b) := by
    rw [List.pairwise_append]
    refine ⟨a4, List.pairwise_singleton _ _, ?_⟩
    intro a ha b hb
    rw [List.mem_singleton] at hb; subst hb
    exact (a3 a ha).2.2
  have hnd : (below s f x ++ [root s f x]).Nodup :=
    hpw.imp (fun {a b} h hab => by rw [hab] at h; omega)
  have hle := nodup_lt_length_le hnd (n := s.n) (by
    intro y hy
    rcases List.mem_append.1 hy with hy | hy
    · exact (a3 y hy).1
    · rw [List.mem_singleton] at hy; subst hy; exact a1)
  simp [hlen] at hle
  omega

/-- more fuel does not change the answer once a root is reached -/
theorem root_fuel_mono {s : S} :
    ∀ (f x : Nat), s.p (root s f x) < 0 → ∀ k, root s (f + k) x = root s f x := by
  intro f
  induction f with
  | zero =>
    intro x hx k
    simp only [root] at hx ⊢
    cases k with
    | zero => rfl
    | succ k => simp [root, hx]
  | succ f ih =>
    intro x hx k
    have e : f + 1 + k = (f + k) + 1 := by omega
    rw [e]
    unfold root at hx ⊢
    by_cases hr : s.p x < 0
    · simp [hr]
    · simp only [hr, if_false] at hx ⊢
      exact ih _ hx k

/-- canonical representative: walk with fuel n -/
def rep (s : S) (x : Nat) : Nat := root s s.n x

theorem rep_spec {s : S} {rk : Nat → Nat} (h : Inv s rk) (x : Nat) (hx : x < s.n) :
    rep s x < s.n ∧ s.p (rep s x) < 0 := root_isRoot h s.n x hx (le_refl _)

theorem rep_root {s : S} (x : Nat) (hx : s.p x < 0) : rep s x = x := by
  unfold rep; cases s.n <;> simp [root, hx]

/-- the answer does not depend on the fuel once it is ≥ n -/
theorem root_fuel_indep {s : S} {rk : Nat → Nat} (h : Inv s rk) (x : Nat) (hx : x < s.n) (f : Nat)
    (hf : s.n ≤ f) : root s f x = rep s x := by
  obtain ⟨k, rfl⟩ : ∃ k, f = s.n + k := ⟨f - s.n, by omega⟩
  exact root_fuel_mono s.n x (rep_spec h x hx).2 k

/-- unfolding one parent step does not change the representative -/
theorem rep_parent {s : S} {rk : Nat → Nat} (h : Inv s rk) (x : Nat) (hx : x < s.n)
    (h0 : 0 ≤ s.p x) : rep s (s.p x).toNat = rep s x := by
  have e : root s (s.n + 1) x = root s s.n (s.p x).toNat := by
    rw [root]; simp [show ¬ s.p x < 0 by omega]
  have := root_fuel_indep h x hx (s.n + 1) (by omega)
  rw [e] at this
  exact this

theorem rep_idem {s : S} {rk : Nat → Nat} (h : Inv s rk) (x : Nat) (hx : x < s.n) :
    rep s (rep s x) = rep s x := rep_root _ (rep_spec h x hx).2

theorem rk_le_rep {s : S} {rk : Nat → Nat} (h : Inv s rk) (x : Nat) (hx : x < s.n) :
    rk x ≤ rk (rep s x) := (walk_facts h s.n x hx).2.1

theorem rk_lt_rep {s : S} {rk : Nat → Nat} (h : Inv s rk) (x : Nat) (hx : x < s.n)
    (h0 : 0 ≤ s.p x) : rk x < rk (rep s x) := by
  have h1 := h.rk_lt x hx h0
  have h2 := rk_le_rep h _ (h.par_lt x hx h0)
  rw [rep_parent h x hx h0] at h2
  omega

/-- Uniqueness of representatives: a function that is the identity on roots and constant along
parent links is `rep`. -/
theorem rep_uniq {s : S} {rk : Nat → Nat} (h : Inv s rk) (g : Nat → Nat)
    (hroot : ∀ z, z < s.n → s.p z < 0 → g z = z)
    (hstep : ∀ z, z < s.n → 0 ≤ s.p z → g (s.p z).toNat = g z) :
    ∀ z, z < s.n → g z = rep s z := by
  have key : ∀ f z, z < s.n → g (root s f z) = g z := by
    intro f
    induction f with
    | zero => intro z _; rfl
    | succ f ih =>
      intro z hz
      unfold root
      by_cases hr : s.p z < 0
      · simp [hr]
      · simp only [hr, if_false]
        rw [ih _ (h.par_lt z hz (by omega)), hstep z hz (by omega)]
  intro z hz
  obtain ⟨h1, h2⟩ := rep_spec h z hz
  rw [← key s.n z hz]
  exact hroot _ h1 h2

/-- all nodes on the walk below the root are non-roots in range with the same representative -/
theorem below_facts {s : S} {rk : Nat → Nat} (h : Inv s rk) :
    ∀ (f x : Nat), x < s.n → ∀ y ∈ below s f x, y < s.n ∧ 0 ≤ s.p y ∧ rep s y = rep s x := by
  intro f
  induction f with
  | zero => intro x _ y hy; simp [below] at hy
  | succ f ih =>
    intro x hx y hy
    unfold below at hy
    by_cases hr : s.p x < 0
    · simp [hr] at hy
    · simp only [hr, if_false] at hy
      have h0 : 0 ≤ s.p x := by omega
      rcases List.mem_cons.1 hy with rfl | hy'
      · exact ⟨hx, h0, rfl⟩
      · obtain ⟨b1, b2, b3⟩ := ih _ (h.par_lt x hx h0) y hy'
        exact ⟨b1, b2, by rw [b3, rep_parent h x hx h0]⟩

/-! ### path compression -/

/-- overwrite one parent entry -/
def setP (s : S) (y : Nat) (v : Int) : S := { s with p := Function.update s.p y v }

@[simp] theorem setP_n (s : S) (y : Nat) (v : Int) : (setP s y v).n = s.n := rfl

theorem setP_p_self (s : S) (y : Nat) (v : Int) : (setP s y v).p y = v := by simp [setP]

theorem setP_p_ne (s : S) (y : Nat) (v : Int) (z : Nat) (hz : z ≠ y) : (setP s y v).p z = s.p z := by
  simp [setP, Function.update_of_ne hz]

/-- Redirecting a non-root `y` to its representative keeps the invariant (same potential) and every
representative. -/
theorem redirect_spec {s : S} {rk : Nat → Nat} (h : Inv s rk) (y : Nat) (hy : y < s.n)
    (hy0 : 0 ≤ s.p y) :
    Inv (setP s y (rep s y : Nat)) rk ∧ ∀ z, z < s.n → rep (setP s y (rep s y : Nat)) z = rep s z := by
  obtain ⟨hr1, hr2⟩ := rep_spec h y hy
  have hinv : Inv (setP s y (rep s y : Nat)) rk := by
    refine ⟨?_, ?_, ?_⟩
    · intro x hx hx0
      by_cases hxy : x = y
      · subst hxy; rw [setP_p_self]; simpa using hr1
      · rw [setP_p_ne _ _ _ _ hxy] at hx0 ⊢; exact h.par_lt x hx hx0
    · intro x hx hx0
      by_cases hxy : x = y
      · subst hxy; rw [setP_p_self]; simpa using rk_lt_rep h x hy hy0
      · rw [setP_p_ne _ _ _ _ hxy] at hx0 ⊢; exact h.rk_lt x hx hx0
    · intro x hx hx0
      by_cases hxy : x = y
      · subst hxy; rw [setP_p_self] at hx0; omega
      · rw [setP_p_ne _ _ _ _ hxy] at hx0 ⊢; exact h.rk_root x hx hx0
  refine ⟨hinv, ?_⟩
  intro z hz
  refine (rep_uniq hinv (rep s) ?_ ?_ z hz).symm
  · intro z hz hz0
    by_cases hzy : z = y
    · subst hzy; rw [setP_p_self] at hz0; omega
    · rw [setP_p_ne _ _ _ _ hzy] at hz0; exact rep_root _ hz0
  · intro z hz hz0
    by_cases hzy : z = y
    · subst hzy; rw [setP_p_self]; simpa using rep_idem h z hy
    · rw [setP_p_ne _ _ _ _ hzy] at hz0 ⊢; exact rep_parent h z hz hz0

/-- `for i := 0; i < len(seen)-2; i++ { ds[seen[i]] = tmp }` on the parent function -/
def compressL (s : S) (r : Nat) (l : List Nat) : S := l.foldl (fun s y => setP s y (r : Nat)) s

theorem compress_spec {rk : Nat → Nat} (r : Nat) :
    ∀ (l : List Nat) (s : S), Inv s rk → (∀ y ∈ l, y < s.n ∧ 0 ≤ s.p y ∧ rep s y = r) →
      Inv (compressL s r l) rk ∧ (compressL s r l).n = s.n ∧
      ∀ z, z < s.n → rep (compressL s r l) z = rep s z := by
  intro l
  induction l with
  | nil => intro s h _; exact ⟨h, rfl, fun _ _ => rfl⟩
  | cons y l ih =>
    intro s h hl
    obtain ⟨hy, hy0, hyr⟩ := hl y (List.mem_cons_self ..)
    obtain ⟨h1, h2⟩ := redirect_spec h y hy hy0
    rw [hyr] at h1 h2
    have hl' : ∀ w ∈ l, w < (setP s y (r : Nat)).n ∧ 0 ≤ (setP s y (r : Nat)).p w ∧
        rep (setP s y (r : Nat)) w = r := by
      intro w hw
      obtain ⟨c1, c2, c3⟩ := hl w (List.mem_cons_of_mem _ hw)
      refine ⟨c1, ?_, by rw [h2 w c1, c3]⟩
      by_cases hwy : w = y
      · subst hwy; rw [setP_p_self]; omega
      · rw [setP_p_ne _ _ _ _ hwy]; exact c2
    obtain ⟨i1, i2, i3⟩ := ih (setP s y (r : Nat)) h1 hl'
    refine ⟨i1, i2, ?_⟩
    intro z hz
    have := i3 z hz
    rw [h2 z hz] at this
    exact this

/-! ### union by rank -/

/-- Linking root `a` under root `b`; the stored value at `b` becomes `c` (either unchanged or one
less), the potential at `b` becomes `k`. Covers the three cases of `Union`. -/
theorem link_spec {s : S} {rk : Nat → Nat} (h : Inv s rk) (a b : Nat) (ha : a < s.n) (hb : b < s.n)
    (hra : s.p a < 0) (hrb : s.p b < 0) (hab : a ≠ b) (c : Int) (k : Nat) (hc : c < 0)
    (hk : (k : Int) = - c - 1) (hkb : rk b ≤ k) (hka : rk a < k) :
    Inv (setP (setP s a (b : Nat)) b c) (Function.update rk b k) ∧
    ∀ z, z < s.n → rep (setP (setP s a (b : Nat)) b c) z = if rep s z = a then b else rep s z := by
  have pa : (setP (setP s a (b : Nat)) b c).p a = (b : Nat) := by
    rw [setP_p_ne _ _ _ _ hab, setP_p_self]
  have pb : (setP (setP s a (b : Nat)) b c).p b = c := setP_p_self _ _ _
  have pz : ∀ z, z ≠ a → z ≠ b → (setP (setP s a (b : Nat)) b c).p z = s.p z := by
    intro z h1 h2; rw [setP_p_ne _ _ _ _ h2, setP_p_ne _ _ _ _ h1]
  have rk_ge : ∀ z, rk z ≤ Function.update rk b k z := by
    intro z
    by_cases hz : z = b
    · subst hz; simpa using hkb
    · simp [Function.update_of_ne hz]
  have hinv : Inv (setP (setP s a (b : Nat)) b c) (Function.update rk b k) := by
    refine ⟨?_, ?_, ?_⟩
    · intro x hx hx0
      by_cases hxa : x = a
      · subst hxa; rw [pa]; simpa using hb
      · by_cases hxb : x = b
        · subst hxb; rw [pb] at hx0; omega
        · rw [pz x hxa hxb] at hx0 ⊢; exact h.par_lt x hx hx0
    · intro x hx hx0
      by_cases hxa : x = a
      · subst hxa; rw [pa]; simp [Function.update_of_ne hab]; exact hka
      · by_cases hxb : x = b
        · subst hxb; rw [pb] at hx0; omega
        · rw [pz x hxa hxb] at hx0 ⊢
          rw [Function.update_of_ne hxb]
          exact lt_of_lt_of_le (h.rk_lt x hx hx0) (rk_ge _)
    · intro x hx hx0
      by_cases hxa : x = a
      · subst hxa; rw [pa] at hx0; omega
      · by_cases hxb : x = b
        · subst hxb; rw [pb]; simpa using hk
        · rw [pz x hxa hxb] at hx0 ⊢
          rw [Function.update_of_ne hxb]
          exact h.rk_root x hx hx0
  refine ⟨hinv, ?_⟩
  intro z hz
  refine (rep_uniq hinv (fun z => if rep s z = a then b else rep s z) ?_ ?_ z hz).symm
  · intro z hz hz0
    by_cases hza : z = a
    · subst hza; rw [pa] at hz0; omega
    · by_cases hzb : z = b
      · subst hzb; simp [rep_root _ hrb, Ne.symm hab]
      · rw [pz z hza hzb] at hz0
        simp [rep_root _ hz0, hza]
  · intro z hz hz0
    by_cases hza : z = a
    · subst hza; rw [pa]; simp [rep_root _ hrb, rep_root _ hra, Ne.symm hab]
    · by_cases hzb : z = b
      · subst hzb; rw [pb] at hz0; omega
      · rw [pz z hza hzb] at hz0 ⊢
        simp only [rep_parent h z hz hz0]

end Disjoint.Fn
