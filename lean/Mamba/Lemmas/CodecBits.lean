import Mamba.Lemmas.CodecBase
/-!
The 6-bit writer `BitW` of the model against `Formats.R`: after pushing the bits `bits` onto a writer that
started as `⟨pre, 0, 0⟩`, flushing yields `pre ++ R bits`.
-/
namespace Codec
open Formats

/-- value of an incomplete group (fewer than 6 bits), as the high bits of a 6-bit number -/
def pv (l : List Bool) : Nat :=
  val6 (l.getD 0 false) (l.getD 1 false) (l.getD 2 false) (l.getD 3 false) (l.getD 4 false) (l.getD 5 false)

theorem pv_le (l : List Bool) : pv l ≤ 63 := by
  unfold pv val6
  cases l.getD 0 false <;> cases l.getD 1 false <;> cases l.getD 2 false <;> cases l.getD 3 false <;>
    cases l.getD 4 false <;> cases l.getD 5 false <;> decide

theorem R_six (a b c d e f : Bool) (rest : List Bool) :
    R (a :: b :: c :: d :: e :: f :: rest) = (val6 a b c d e f + 63) :: R rest := by
  simp [R]

theorem R_short (l : List Bool) (h0 : 0 < l.length) (h : l.length ≤ 6) : R l = [pv l + 63] := by
  match l, h0, h with
  | [a], _, _ => simp [R, pv]
  | [a, b], _, _ => simp [R, pv]
  | [a, b, c], _, _ => simp [R, pv]
  | [a, b, c, d], _, _ => simp [R, pv]
  | [a, b, c, d, e], _, _ => simp [R, pv]
  | [a, b, c, d, e, f], _, _ => simp [R, pv]

theorem R_append (q r : List Bool) (hq : q.length % 6 = 0) : R (q ++ r) = R q ++ R r := by
  induction q using R.induct with
  | case1 a b c d e f rest ih =>
    have : rest.length % 6 = 0 := by simp at hq; omega
    simp [R_six, ih this]
  | case2 => simp [R]
  | case3 a => simp at hq
  | case4 a b => simp at hq
  | case5 a b c => simp at hq
  | case6 a b c d => simp at hq
  | case7 a b c d e => simp at hq

theorem R_length (l : List Bool) : (R l).length = (l.length + 5) / 6 := by
  induction l using R.induct with
  | case1 a b c d e f rest ih => simp [R_six, ih]; omega
  | case2 => simp [R]
  | case3 a => simp [R]
  | case4 a b => simp [R]
  | case5 a b c => simp [R]
  | case6 a b c d => simp [R]
  | case7 a b c d e => simp [R]

theorem R_range (l : List Bool) : ∀ c ∈ R l, 63 ≤ c ∧ c ≤ 126 := by
  induction l using R.induct with
  | case1 a b c d e f rest ih =>
    intro x hx
    rw [R_six] at hx
    rcases List.mem_cons.1 hx with h | h
    · subst h
      have := pv_le [a, b, c, d, e, f]
      simp [pv] at this; omega
    · exact ih x h
  | case2 => simp [R]
  | case3 a => intro x hx; have := pv_le [a]; simp [R, pv] at *; omega
  | case4 a b => intro x hx; have := pv_le [a, b]; simp [R, pv] at *; omega
  | case5 a b c => intro x hx; have := pv_le [a, b, c]; simp [R, pv] at *; omega
  | case6 a b c d => intro x hx; have := pv_le [a, b, c, d]; simp [R, pv] at *; omega
  | case7 a b c d e => intro x hx; have := pv_le [a, b, c, d, e]; simp [R, pv] at *; omega

/-- the writer `w` has received the bits `bits` after starting from `⟨pre, 0, 0⟩` -/
structure BitW.Rep (w : BitW) (pre : List Nat) (bits : List Bool) : Prop where
  ex : ∃ q r : List Bool, bits = q ++ r ∧ q.length % 6 = 0 ∧ r.length < 6 ∧
    w.s.toList = pre ++ R q ∧ w.b = pv r ∧ w.idx = r.length

theorem BitW.Rep.init (pre : Bytes) : BitW.Rep ⟨pre, 0, 0⟩ pre.toList [] :=
  ⟨[], [], by simp [R, pv, val6]⟩

theorem BitW.Rep.idx_lt {w : BitW} {pre bits} (h : w.Rep pre bits) : w.idx < 6 := by
  obtain ⟨q, r, _, _, hr, _, _, hi⟩ := h.ex; omega

theorem BitW.Rep.idx_eq {w : BitW} {pre bits} (h : w.Rep pre bits) : w.idx = bits.length % 6 := by
  obtain ⟨q, r, hb, hq, hr, _, _, hi⟩ := h.ex
  subst hb; simp [hi]; omega

/-- adding the next bit to an incomplete group -/
theorem pv_snoc (r : List Bool) (x : Bool) (hr : r.length < 6) :
    pv (r ++ [x]) = pv r + (if x then 1 <<< (5 - r.length) else 0) := by
  match r, hr with
  | [], _ => cases x <;> simp [pv, val6]
  | [a], _ => cases x <;> simp [pv, val6]
  | [a, b], _ => cases x <;> simp [pv, val6]
  | [a, b, c], _ => cases x <;> simp [pv, val6]
  | [a, b, c, d], _ => cases x <;> simp [pv, val6]
  | [a, b, c, d, e], _ => cases x <;> simp [pv, val6]

/-- `|=` agrees with `+=` on a bit that is still clear -/
theorem pv_or (r : List Bool) (hr : r.length < 6) :
    pv r ||| (1 <<< (5 - r.length)) = pv r + 1 <<< (5 - r.length) := by
  match r, hr with
  | [], _ => simp [pv, val6]
  | [a], _ => cases a <;> simp [pv, val6]
  | [a, b], _ => cases a <;> cases b <;> simp [pv, val6]
  | [a, b, c], _ => cases a <;> cases b <;> cases c <;> simp [pv, val6]
  | [a, b, c, d], _ => cases a <;> cases b <;> cases c <;> cases d <;> simp [pv, val6]
  | [a, b, c, d, e], _ => cases a <;> cases b <;> cases c <;> cases d <;> cases e <;> simp [pv, val6]

theorem BitW.pushOr_eq_pushAdd {w : BitW} {pre bits} (h : w.Rep pre bits) (x : Bool) :
    w.pushOr x = w.pushAdd x := by
  obtain ⟨q, r, hb, hq, hr, hs, hbv, hi⟩ := h.ex
  unfold BitW.pushOr BitW.pushAdd
  cases x
  · simp
  · have h1 := pv_or r hr
    have h2 := pv_snoc r true hr
    have h3 := pv_le (r ++ [true])
    simp only [if_true] at h2 ⊢
    have e1 : badd (pv r) (1 <<< (5 - r.length)) = pv r + 1 <<< (5 - r.length) := badd_of_lt (by omega)
    simp only [hbv, hi, h1, e1]

theorem BitW.Rep.pushAdd {w : BitW} {pre bits} (h : w.Rep pre bits) (x : Bool) :
    (w.pushAdd x).Rep pre (bits ++ [x]) := by
  obtain ⟨q, r, hb, hq, hr, hs, hbv, hi⟩ := h.ex
  have h2 := pv_snoc r x hr
  have h3 := pv_le (r ++ [x])
  have hb' : (if x then badd w.b (1 <<< (5 - w.idx)) else w.b) = pv (r ++ [x]) := by
    rw [h2, hbv, hi]
    cases x
    · simp
    · simp only [if_true] at h2 ⊢; rw [badd_of_lt (by omega)]
  unfold BitW.pushAdd
  simp only [hb']
  by_cases h6 : w.idx + 1 = 6
  · simp only [h6, if_true]
    refine ⟨q ++ (r ++ [x]), [], by simp [hb], ?_, by simp, ?_, by simp [pv, val6], by simp⟩
    · simp; omega
    · have hl : (r ++ [x]).length ≤ 6 := by simp; omega
      rw [Array.toList_push, hs, R_append q _ hq, R_short (r ++ [x]) (by simp) hl, badd_of_lt (by omega)]
      simp
  · simp only [h6, if_false]
    exact ⟨q, r ++ [x], by simp [hb], hq, by simp; omega, hs, rfl, by simp [hi]⟩

theorem BitW.Rep.pushOr {w : BitW} {pre bits} (h : w.Rep pre bits) (x : Bool) :
    (w.pushOr x).Rep pre (bits ++ [x]) := by
  rw [BitW.pushOr_eq_pushAdd h]; exact h.pushAdd x

/-- pushing a list of bits -/
theorem BitW.Rep.foldl_pushAdd {pre} (l : List Bool) : ∀ {w : BitW} {bits}, w.Rep pre bits →
    (l.foldl (fun w x => w.pushAdd x) w).Rep pre (bits ++ l) := by
  induction l with
  | nil => intro w bits h; simpa using h
  | cons x xs ih => intro w bits h; simpa using ih (h.pushAdd x)

theorem BitW.Rep.foldl_pushOr {pre} (l : List Bool) : ∀ {w : BitW} {bits}, w.Rep pre bits →
    (l.foldl (fun w x => w.pushOr x) w).Rep pre (bits ++ l) := by
  induction l with
  | nil => intro w bits h; simpa using h
  | cons x xs ih => intro w bits h; simpa using ih (h.pushOr x)

/-- the final flush `if idx != 0 { s = append(s, b+63) }` yields `pre ++ R bits` -/
theorem BitW.Rep.flush {w : BitW} {pre bits} (h : w.Rep pre bits) :
    (if w.idx ≠ 0 then w.s.push (badd w.b 63) else w.s).toList = pre ++ R bits := by
  obtain ⟨q, r, hb, hq, hr, hs, hbv, hi⟩ := h.ex
  subst hb
  rw [R_append q r hq]
  by_cases h0 : w.idx = 0
  · have : r = [] := by cases r with | nil => rfl | cons _ _ => simp [h0] at hi
    subst this
    simp [h0, hs, R]
  · have hp := pv_le r
    simp only [ne_eq, h0, not_false_eq_true, if_true]
    rw [Array.toList_push, hs, R_short r (by omega) (by omega), hbv, badd_of_lt (by omega)]
    simp

/-! ### reading the bits back -/

theorem bits6_val6 (a b c d e f : Bool) : bits6 (val6 a b c d e f + 63 - 63) = [a, b, c, d, e, f] := by
  cases a <;> cases b <;> cases c <;> cases d <;> cases e <;> cases f <;> decide

theorem unR_cons (c : Nat) (l : List Nat) : unR (c :: l) = bits6 (c - 63) ++ unR l := by
  simp [unR]

/-- the bytes of `R l` carry `l` followed by the zero padding -/
theorem unR_R (l : List Bool) : unR (R l) = l ++ List.replicate ((6 - l.length % 6) % 6) false := by
  induction l using R.induct with
  | case1 a b c d e f rest ih =>
    rw [R_six, unR_cons, bits6_val6, ih]
    have : (rest.length + 6) % 6 = rest.length % 6 := by omega
    simp [this]
  | case2 => simp [R, unR]
  | case3 a => simp only [R, unR_cons, bits6_val6]; simp [unR, List.replicate]
  | case4 a b => simp only [R, unR_cons, bits6_val6]; simp [unR, List.replicate]
  | case5 a b c => simp only [R, unR_cons, bits6_val6]; simp [unR, List.replicate]
  | case6 a b c d => simp only [R, unR_cons, bits6_val6]; simp [unR, List.replicate]
  | case7 a b c d e => simp only [R, unR_cons, bits6_val6]; simp [unR, List.replicate]

theorem unR_length (l : List Nat) : (unR l).length = 6 * l.length := by
  induction l with
  | nil => simp [unR]
  | cons c cs ih => rw [unR_cons]; simp [bits6, ih]; omega

end Codec
