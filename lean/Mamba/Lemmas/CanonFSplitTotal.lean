import Mamba.Lemmas.CanonFTotalInv
import Mamba.Lemmas.CanonFExpandTotal
/-!
# Totality of `splitBin`

`splitBin_totalG_of`: `splitBin` returns, given that `expandValue` returns (`ExpandValueTotalG`, the statement of
`expandValue_totalG`); `prog_split_of`: the state-level progress lemma for the `splitBin` call of `jLoop`;
`splitBin_totalG`, `prog_split`: the instances with `expandValue_totalG` (`CanonFExpandTotal.lean`).
-/
namespace CanonF

/-- the statement of `expandValue_totalG` -/
def ExpandValueTotalG : Prop :=
  ∀ {n : Nat} {nb : Nbrs} {cb fl : Sl Nat} {op : OP}, NbOK nb n → nb.size = n →
    PartInv n op → PrefixSingle op → op.value.WF →
    op.value.toList = certPos nb op.order.toList op.spl →
    (cb.len = 0 ∨ ((nb.toList.map List.length).sum) / 2 ≤ cb.data.size) →
    ((nb.toList.map List.length).sum) / 2 ≤ fl.data.size →
    ∃ r, expandValue nb cb fl op = .ok r

/-- after the partition step of `splitBin` the certificate is still the certificate of the singleton prefix -/
theorem st_partStep_clean {n : Nat} {nb : Nbrs} {op op1 : OP} {i : Nat} (h : PartInv n op) (p1 : PartInv n op1)
    (hi : i < n) (hns : NonSingleton op.binDividers.toList i) (hvc : VClean nb op)
    (v1 : op1.value = op.value) (s1 : op1.spl = op.spl)
    (hbd : op1.binDividers.toList = op.binDividers.toList.take (binIdx op.binDividers.toList i) ++
      (binStartOf op.binDividers.toList i + 1) :: op.binDividers.toList.drop (binIdx op.binDividers.toList i))
    (hord : op1.order.toList = moveFront op.order.toList (binStartOf op.binDividers.toList i) i) :
    PrefixSingle op1 ∧ op1.value.WF ∧ op1.value.toList = certPos nb op1.order.toList op1.spl := by
  have hp : PrefixSingle op := hvc.pre.toPrefixSingle
  have hb := spl_le_binIdx h hp hns
  have hst := spl_le_binStartOf h hi hp hns
  have hbs : op.binDividers.toList.Pairwise (· < ·) := (List.pairwise_cons.1 h.sorted).2
  have hbl := binIdx_lt _ n i h.last hi
  have hsi := binStartOf_le _ hbs i hbl
  have hol : op.order.toList.length = n := by rw [Sl.length_toList _ h.wfOrder]; exact h.lenOrder
  have hol1 : op1.order.toList.length = n := by rw [Sl.length_toList _ p1.wfOrder]; exact p1.lenOrder
  have htk : (List.take (binIdx op.binDividers.toList i) op.binDividers.toList).length =
      binIdx op.binDividers.toList i := by rw [List.length_take]; omega
  have hlow : ∀ j, j < binIdx op.binDividers.toList i → op1.binDividers.toList[j]? = op.binDividers.toList[j]? := by
    intro j hj
    rw [hbd, List.getElem?_append_left (by omega), List.getElem?_take, if_pos hj]
  refine ⟨⟨?_, ?_⟩, by rw [v1]; exact hvc.wf, ?_⟩
  · rw [s1, ← Sl.length_toList _ p1.wfBd, hbd]
    simp only [List.length_append, List.length_cons, List.length_take, List.length_drop]
    have := hp.le; rw [← Sl.length_toList _ h.wfBd] at this; omega
  · intro j hj
    rw [s1] at hj
    rw [hlow j (by omega)]
    exact hp.single j hj
  · rw [v1, hvc.val, s1]
    have hsn : op.spl ≤ n := by omega
    symm
    apply certPos_frame nb _ _ _ (by omega) (by omega)
    intro p hpp
    rw [hord]
    exact moveFront_lt _ _ _ hsi (by omega) p (by omega)

/-- `splitBin` in general (including the call of `expandValue` when the split bin is the one at `singletonPrefixLength`) -/
theorem splitBin_totalG_of (hE : ExpandValueTotalG) {n : Nat} {nb : Nbrs} {cb fl : Sl Nat} {op : OP} {i : Nat}
    (hnb : NbOK nb n) (hsz : nb.size = n)
    (h : PartInv n op) (ha : AgeInv op) (hb : BtcInv op) (hi : i < n) (hns : NonSingleton op.binDividers.toList i)
    (c1 : op.binDividers.len + 1 ≤ op.binDividers.data.size) (c2 : op.binAges.len + 1 ≤ op.binAges.data.size)
    (_c3 : op.binDividers.len + 1 ≤ op.binsToCheck.data.size)
    (hv : VClean nb op)
    (hcb : cb.len = 0 ∨ ((nb.toList.map List.length).sum) / 2 ≤ cb.data.size)
    (hfl : ((nb.toList.map List.length).sum) / 2 ≤ fl.data.size) :
    ∃ r, splitBin nb cb fl op i = .ok r := by
  obtain ⟨order, ic, hfront, wo, lo, zo, eo, wi, li, zi, hic⟩ := splitBin_front (nb := nb) (cb := cb) (fl := fl) h hi
  have hbl := binIdx_lt _ n i h.last hi
  rw [Sl.length_toList _ h.wfBd] at hbl
  obtain ⟨bd', hbd⟩ := insertAt_total (s := op.binDividers) (b := binIdx op.binDividers.toList i)
    (binStartOf op.binDividers.toList i + 1) (by omega) c1
  obtain ⟨ages', hag⟩ := insertAt_total (s := op.binAges) (b := binIdx op.binDividers.toList i)
    (op.age + 1) (by have := h.lenAges; omega) c2
  have hsb : ([(binIdx op.binDividers.toList i : Int), (binIdx op.binDividers.toList i : Int) + 1]).Pairwise (· < ·) := by
    simp
  obtain ⟨btc, hun, _, _, _⟩ := unionSl_spec op.binsToCheck _ hb.sorted hsb
  obtain ⟨_, cb1, lb, zb, eb, _⟩ := Sl.insertAt_spec h.wfBd hbd
  obtain ⟨_, ca1, la, za, ea, _⟩ := Sl.insertAt_spec h.wfAges hag
  have hlen := h.lenAges
  obtain ⟨hP, _, _⟩ := partStep_inv
    (op1 := { op with age := op.age + 1, order := order, inCell := ic, binDividers := bd', binAges := ages',
                      binsToCheck := btc })
    h ha hi hns wo lo eo wi li hic (by show bd'.len ≤ bd'.data.size; omega)
    (by show ages'.len ≤ ages'.data.size; omega) (by show ages'.len = bd'.len; omega) eb ea rfl
  obtain ⟨hps1, hvw1, hval1⟩ := st_partStep_clean h hP hi hns hv rfl rfl eb eo
  rw [hfront]
  unfold splitTail
  simp only [hbd, hag, hun]
  by_cases hsp : binIdx op.binDividers.toList i = op.spl
  · rw [if_pos hsp]
    exact hE hnb hsz hP hps1 hvw1 hval1 hcb hfl
  · rw [if_neg hsp]
    exact ⟨_, rfl⟩

/-- a non-singleton bin: fewer than `n` bins -/
theorem st_bdLen_lt {n : Nat} {op : OP} {i : Nat} (h : PartInv n op) (hi : i < n)
    (hns : NonSingleton op.binDividers.toList i) : op.binDividers.len < n := by
  have hle := h.bdLen_le
  rcases Nat.lt_or_ge op.binDividers.len n with hlt | hge
  · exact hlt
  · exfalso
    have hsing := ts_leaf_dividers h (by omega)
    apply hns
    constructor
    · by_cases h0 : i = 0
      · rw [h0]; exact List.mem_cons_self ..
      · have := List.mem_of_getElem? (hsing (i - 1) (by omega))
        rw [show i - 1 + 1 = i by omega] at this
        exact List.mem_cons_of_mem _ this
    · exact List.mem_of_getElem? (hsing i hi)

section
variable {n m : Nat} {nb : Nbrs} {rf : Nat} {r : IR.St}
  (hnb : NbOK nb n) (hsz : nb.size = n) (hm : m = ((nb.toList.map List.length).sum) / 2) (hrf : 3 * n + 3 ≤ rf)
  (hA : IR.InvA (irG n nb) r) (hD : IR.InvD (irG n nb) r)
  (hlenm : ∀ o : List Nat, o.Perm (List.range n) → (certPos nb o n).length = m)

set_option linter.unusedVariables false in
include hnb hsz hm in
theorem prog_split_of (hE : ExpandValueTotalG) (st sz : Nat) (ls : List (Nat × Nat)) (s : LS) (c : Nat) (cs : List Nat)
    (p : Nat) (ps : List Nat)
    (ce k : Nat) (hc : Core n s) (ht : TopOK s.op (k + 1) s.path s.choices ((st, sz) :: ls))
    (hsk : s.skipDeage = false) (hage : s.op.age + 1 = s.path.length) (hch : s.choices = c :: cs)
    (hpth : s.path = p :: ps) (hget : s.op.order.get (c - 1) = .ok ce)
    (hns : NonSingleton s.op.binDividers.toList (c - 1))
    (hfirst : ∀ t, t < binStartOf s.op.binDividers.toList (c - 1) → t + 1 ∈ s.op.binDividers.toList)
    (hT : TN n m nb rf r ((st, sz) :: ls) s) :
    ∃ r', splitBin nb s.currentBest s.firstLeaf s.op (c - 1) = .ok r' := by
  obtain ⟨⟨⟨hg, hvn, _⟩, ⟨gh, hw, _⟩⟩, hcap⟩ := hT
  have hvc : VClean nb s.op := hvn
  have hi : c - 1 < n := by
    have := Sl.get_lt hget
    rw [hc.part.lenOrder] at this; exact this
  have hbt0 : s.op.binsToCheck.len = 0 := hw.2.2.2.2.2.2
  have hbtc : BtcInv s.op := by
    have hnil : s.op.binsToCheck.toList = [] := by simp [Sl.toList, hbt0]
    refine ⟨by unfold Sl.WF; omega, by rw [hnil]; exact List.Pairwise.nil, ?_⟩
    intro x hx; rw [hnil] at hx; cases hx
  have hlt := st_bdLen_lt hc.part hi hns
  have hla := hc.part.lenAges
  have hfw := hg.flLen.2
  unfold Sl.WF at hfw
  exact splitBin_totalG_of hE hnb hsz hc.part hc.age hbtc hi hns (by have := hcap.bd; omega)
    (by have := hcap.ages; omega) (by have := hcap.btc; omega) hvc
    (Or.inr (by rw [← hm]; exact hcap.cb)) (by rw [← hm, ← hg.flLen.1]; exact hfw)

end
/-- `splitBin` in general (including the call of `expandValue` when the split bin is the one at `singletonPrefixLength`) -/
theorem splitBin_totalG {n : Nat} {nb : Nbrs} {cb fl : Sl Nat} {op : OP} {i : Nat} (hnb : NbOK nb n) (hsz : nb.size = n)
    (h : PartInv n op) (ha : AgeInv op) (hb : BtcInv op) (hi : i < n) (hns : NonSingleton op.binDividers.toList i)
    (c1 : op.binDividers.len + 1 ≤ op.binDividers.data.size) (c2 : op.binAges.len + 1 ≤ op.binAges.data.size)
    (c3 : op.binDividers.len + 1 ≤ op.binsToCheck.data.size)
    (hv : VClean nb op)
    (hcb : cb.len = 0 ∨ ((nb.toList.map List.length).sum) / 2 ≤ cb.data.size)
    (hfl : ((nb.toList.map List.length).sum) / 2 ≤ fl.data.size) :
    ∃ r, splitBin nb cb fl op i = .ok r :=
  splitBin_totalG_of @expandValue_totalG hnb hsz h ha hb hi hns c1 c2 c3 hv hcb hfl

section
variable {n m : Nat} {nb : Nbrs} {rf : Nat} {r : IR.St}
  (hnb : NbOK nb n) (hsz : nb.size = n) (hm : m = ((nb.toList.map List.length).sum) / 2)

include hnb hsz hm in
theorem prog_split (st sz : Nat) (ls : List (Nat × Nat)) (s : LS) (c : Nat) (cs : List Nat) (p : Nat) (ps : List Nat)
    (ce k : Nat) (hc : Core n s) (ht : TopOK s.op (k + 1) s.path s.choices ((st, sz) :: ls))
    (hsk : s.skipDeage = false) (hage : s.op.age + 1 = s.path.length) (hch : s.choices = c :: cs)
    (hpth : s.path = p :: ps) (hget : s.op.order.get (c - 1) = .ok ce)
    (hns : NonSingleton s.op.binDividers.toList (c - 1))
    (hfirst : ∀ t, t < binStartOf s.op.binDividers.toList (c - 1) → t + 1 ∈ s.op.binDividers.toList)
    (hT : TN n m nb rf r ((st, sz) :: ls) s) :
    ∃ r', splitBin nb s.currentBest s.firstLeaf s.op (c - 1) = .ok r' :=
  prog_split_of hnb hsz hm @expandValue_totalG st sz ls s c cs p ps ce k hc ht hsk hage hch hpth hget hns hfirst hT

end
end CanonF
