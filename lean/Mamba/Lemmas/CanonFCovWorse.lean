import Mamba.Lemmas.CanonFCov
/-!
# Coverage: a child whose `splitBin` / refinement reports "worse" is complete (`cov_split_worse`, `cov_refine_worse`)
-/
namespace CanonF
open Relation

/-- `currentBest` is well formed -/
theorem best_wf {n m : Nat} {nb : Nbrs} {s : LS} (hlenm : ∀ o : List Nat, o.Perm (List.range n) → (certPos nb o n).length = m)
    (hc : Core n s) (hg : GInv n m nb s) (hb : BestOK m s) : s.currentBest.WF := by
  by_cases h0 : s.count = 0
  · have := hb.zero h0
    unfold Sl.WF; omega
  · have hpos : 0 < s.count := by omega
    have h1 := (hg.best hpos).1
    have h2 := hlenm _ (hc.bestPerm hpos)
    have h3 := hb.pos hpos
    rw [← h1] at h2
    unfold Sl.toList at h2
    simp only [List.length_take, Array.length_toList] at h2
    unfold Sl.WF; omega

/-- the child `v` (member of the target cell `t`) of a node reached by a path satisfies the IR invariants -/
theorem child_inv {n : Nat} {nb : Nbrs} {rf : Nat} {r : IR.St} (hnb : NbOK nb n)
    (hA : IR.InvA (irG n nb) r) (hD : IR.InvD (irG n nb) r) {vs : List Nat} (hpath : IR.IsPath (irG n nb) rf r vs)
    {t v : Nat} (L : Nat) (ht : IR.target (irG n nb) (nodeL n nb rf r vs L) = some t)
    (hv : v ∈ IR.cellMembers (irG n nb) (nodeL n nb rf r vs L).c t) :
    IR.InvA (irG n nb) (IR.childSt (irG n nb) rf (nodeL n nb rf r vs L) t v) ∧
      IR.InvD (irG n nb) (IR.childSt (irG n nb) rf (nodeL n nb rf r vs L) t v) := by
  obtain ⟨_, hAn, hDn⟩ := IR.path_cells (irG_wf hnb) (rf := rf) (vs.take L) r hA hD (IR.isPath_take vs r L hpath)
  obtain ⟨t1, t2⟩ := IR.target_some ht
  exact IR.refine_inv rf _ ⟨IR.ind_invA hAn t1 v, IR.ind_invD hAn hDn t1 hv t2⟩

/-- the common core: a partition with a "worse" prefix certificate that is coarser than a tree node -/
theorem worse_cov_core {n m : Nat} {nb : Nbrs} {rf : Nat} (hnb : NbOK nb n) (hsz : nb.size = n)
    (hm : m = ((nb.toList.map List.length).sum) / 2) {s : LS} {op' : OP} {χ : IR.St}
    (hc : Core n s) (hg : GInv n m nb s) (hb : BestOK m s) (hp : PartInv n op')
    (hva : VAny nb s.currentBest s.firstLeaf op') (hwt : worseTest op'.value s.currentBest s.firstLeaf = .ok true)
    (hmono : IR.Mono n (colOf n op') χ.c) (hA : IR.InvA (irG n nb) χ) (hD : IR.InvD (irG n nb) χ) :
    Complete n nb rf s.currentBest.toList χ := by
  have hlenm : ∀ o : List Nat, o.Perm (List.range n) → (certPos nb o n).length = m := by
    intro o ho; rw [hm]; exact certPos_length hnb hsz ho
  have hwf := best_wf hlenm hc hg hb
  have hlen : s.currentBest.len = ((nb.toList.map List.length).sum) / 2 := by
    rw [← hm]
    apply hb.pos
    have h0 := (worseTest_true hwt).1
    by_contra hn
    have := hb.zero (by omega)
    omega
  have hfacts : PrefixSingle op' ∧ op'.value.WF ∧ op'.value.toList = certPos nb op'.order.toList op'.spl := by
    rcases hva with h | ⟨h, _⟩
    · exact ⟨h.pre.toPrefixSingle, h.wf, h.val⟩
    · exact ⟨h.pre, h.wf, h.val⟩
  intro x hx
  rw [worse_complete rf hnb hsz hp hfacts.1 hfacts.2.1 hfacts.2.2 hwt hwf hlen hmono hA hD x hx]
  decide

set_option maxHeartbeats 1000000 in
/-- a `splitBin` of the child at index `k` of the top frame reports "worse": all leaves below that child are smaller
than `currentBest` -/
theorem cov_split_worse {n m : Nat} {nb : Nbrs} {rf : Nat} {r : IR.St} (hnb : NbOK nb n) (hsz : nb.size = n)
    (hm : m = ((nb.toList.map List.length).sum) / 2) (hrf : 3 * n + 3 ≤ rf)
    (hA : IR.InvA (irG n nb) r) (hD : IR.InvD (irG n nb) r)
    (st sz : Nat) (ls : List (Nat × Nat)) (s : LS) (c : Nat) (cs : List Nat) (p : Nat) (ps : List Nat)
    (op' : OP) (k : Nat) (hc : Core n s) (ht : TopOK s.op (k + 1) s.path s.choices ((st, sz) :: ls))
    (hage : s.op.age + 1 = s.path.length) (hch : s.choices = c :: cs) (hpth : s.path = p :: ps)
    (hs : splitBin nb s.currentBest s.firstLeaf s.op (c - 1) = .ok (true, op'))
    {vs : List Nat} (hw : WalkNv n nb rf r vs ((st, sz) :: ls) s) (hcert : CertN n m nb ((st, sz) :: ls) s) :
    ∀ v, (cellL n nb rf r vs vs.length st)[k]? = some v →
      Complete n nb rf s.currentBest.toList (IR.childSt (irG n nb) rf (nodeL n nb rf r vs vs.length) st v) := by
  have _ := hrf
  obtain ⟨h1, h2, h3, h4, h5, h6, h7⟩ := hw
  rw [hpth, hch] at ht h5
  simp only [TopOK] at ht
  obtain ⟨tb, tsz, tc, tk, _⟩ := ht
  rw [hpth] at h3 hage
  simp only [List.length_cons] at h3 hage
  have hvl : vs.length = ps.length := by omega
  have hmt : Match n s.op (nodeL n nb rf r vs vs.length) :=
    (h4 vs.length (Nat.le_refl _)).toMatch hc.part hc.age (by omega) h7
  have hb : IsBinAt (s.op.age + 1) s.op st sz := by
    have : s.op.age + 1 = (ps.length : Int) + 1 := by omega
    rw [this]; exact tb
  obtain ⟨hi, hns, hfb, f4, _, _, _, f8, f9, f10⟩ := frame_facts (nb := nb) hc.part hc.age hmt hb tsz
    (show st ≤ c - 1 by omega) (show c - 1 < st + sz by omega)
  obtain ⟨v', hv, hvm, hm'⟩ := splitBin_match hc.part hc.age hi hns hmt h7 hs
  rw [f4] at hvm hm'
  have hck : c - 1 = st + k := by omega
  have hCk : (IR.cellMembers (irG n nb) (nodeL n nb rf r vs vs.length).c st)[k]? = some v' := by
    rw [← f10 h6 k (by omega), ← hck]; exact hv
  intro v hvk
  unfold cellL at hvk
  rw [hCk] at hvk
  cases hvk
  obtain ⟨q1, _⟩ := splitBin_inv hc.part hc.age hi hns hs
  have hva : VAny nb s.currentBest s.firstLeaf op' :=
    (splitBin_cert expandValue_cert hc.part hc.age hi hns hcert.2.1 hs).2 rfl
  have hwt : worseTest op'.value s.currentBest s.firstLeaf = .ok true := by
    obtain ⟨op1, _, _, _, _, _, _, _, _, hif⟩ := splitBin_decomp_ages hc.part hc.age hi hns hs
    by_cases hcond : binIdx s.op.binDividers.toList (c - 1) = s.op.spl
    · rw [if_pos hcond] at hif
      exact expandValue_worse_test hif
    · rw [if_neg hcond] at hif
      exact absurd hif.1 (by simp)
  obtain ⟨iA, iD⟩ := child_inv hnb hA hD h1 vs.length f8 hvm
  have hmono : IR.Mono n (colOf n op')
      (IR.childSt (irG n nb) rf (nodeL n nb rf r vs vs.length) st v').c := by
    have := IR.refine_mono (irG_wf hnb) rf (IR.individualise (irG n nb) (nodeL n nb rf r vs vs.length) st v')
    rw [hm'.col] at this
    exact this
  exact worse_cov_core hnb hsz hm hc hcert.1 hcert.2.2 q1 hva hwt hmono iA iD

/-- the refinement after the `splitBin` of child `v` aborts with "worse": all leaves below that child are smaller than
`currentBest` -/
theorem cov_refine_worse {n m : Nat} {nb : Nbrs} {rf : Nat} {r : IR.St} (hnb : NbOK nb n) (hsz : nb.size = n)
    (hm : m = ((nb.toList.map List.length).sum) / 2) (hrf : 3 * n + 3 ≤ rf)
    (hA : IR.InvA (irG n nb) r) (hD : IR.InvD (irG n nb) r)
    (lv : List (Nat × Nat)) (s : LS) (op' : OP) (sc' : Scratch) (hc : Core n s) (htl : s.sc.timesSeen.len = n)
    {vs : List Nat} {t v : Nat} (hw : WalkSv n nb rf r vs t v lv s) (hcert : CertN n m nb lv s)
    (hr : refine nb s.currentBest s.firstLeaf {} s.op s.sc = .ok (true, op', sc')) :
    Complete n nb rf s.currentBest.toList (IR.childSt (irG n nb) rf (nodeL n nb rf r vs vs.length) t v) := by
  obtain ⟨h1, _, _, _, h5, h6, h7, h8, _, _⟩ := hw
  obtain ⟨hmono, hwt⟩ := refine_worse_mono hc.part hc.age hc.scr htl h8 hnb h7 rfl hr rf hrf
  have hva : VAny nb s.currentBest s.firstLeaf op' :=
    (refine_cert stablePerm expandValue_cert hc.part hc.age hc.scr hcert.2.1 hr).2 rfl
  obtain ⟨q1, _⟩ := refine_inv stablePerm hc.part hc.age hc.scr hr
  obtain ⟨iA, iD⟩ := child_inv hnb hA hD h1 vs.length h5 h6
  exact worse_cov_core hnb hsz hm hc hcert.1 hcert.2.2 q1 hva hwt hmono iA iD

end CanonF
