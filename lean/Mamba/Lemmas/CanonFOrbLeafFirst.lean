import Mamba.Lemmas.CanonFDfsLeafFirst
import Mamba.Lemmas.CanonFOrbBase
import Mamba.Lemmas.CanonFOrbTree
import Mamba.Lemmas.CanonFOrbRel
/-!
# Orbit completeness at the first leaf (`orb_leaf_first`)

After the first leaf `firstLeafOrbits` is the fresh union–find (`ORel` is equality on `0..n-1`), nothing is processed
except the current children (`ph1`), and the only leaf below the top child is the first leaf itself, which is related to
itself position by position.
-/
namespace CanonF
open Relation

/-- positions in a permutation of `0..n-1` determine the vertex -/
theorem olf_idxOf_inj {n : Nat} {o : List Nat} (ho : o.Perm (List.range n)) {u v : Nat} (hu : u < n) (hv : v < n)
    (h : o.idxOf u = o.idxOf v) : u = v := by
  have h1 := getElem?_idxOf_of_mem (ho.mem_iff.2 (List.mem_range.2 hu))
  have h2 := getElem?_idxOf_of_mem (ho.mem_iff.2 (List.mem_range.2 hv))
  rw [h, h2] at h1
  exact (Option.some.inj h1).symm

section
variable {n : Nat} {nb : Nbrs} {rf : Nat} {r : IR.St}

/-- before the first leaf every frame holds its first child: no member of a frame is processed (A-layer) -/
theorem olf_acov_vacuous {gh gh' : Gh} {s s' : LS} {vs : List Nat} (h0 : s.count = 0) :
    ∀ (path choices : List Nat) (lv : List (Nat × Nat)), FramesOK n nb rf r vs path choices lv →
      FrameAux n nb rf r gh s vs false path choices lv → ACovFrames n nb rf r gh' s' vs false path choices lv := by
  intro path
  induction path with
  | nil => intro choices lv _ h; cases choices <;> cases lv <;> simp_all [FrameAux, ACovFrames]
  | cons p ps ih =>
    intro choices lv hf h
    cases choices with
    | nil => simp [FrameAux] at h
    | cons c cs =>
      cases lv with
      | nil => simp [FrameAux] at h
      | cons x ls =>
        obtain ⟨st, sz⟩ := x
        simp only [FrameAux] at h
        simp only [FramesOK] at hf
        simp only [ACovFrames]
        refine ⟨fun i w hi hw => ?_, ih cs ls hf.2.2.2 h.2⟩
        exfalso
        have hph := h.1.ph1 h0
        simp only [Bool.false_eq_true, if_false] at hph hi
        have := (List.getElem?_eq_some_iff.1 hw).1
        rw [hf.2.1] at this
        omega

/-- the A-layer facts of one frame right after the first leaf: both stored paths are the current path -/
theorem olf_frameAuxA1 {gh' : Gh} {s1 : LS} {vs : List Nat} (e1 : gh'.vsF = vs) (e2 : gh'.vsB = vs)
    {incl : Bool} {ps : List Nat} {c st p : Nat} (hcp : c = st + p)
    (hlink : vs[ps.length]? = (cellL n nb rf r vs ps.length st)[p]?)
    (hcomp : incl = true → ∀ w, vs[ps.length]? = some w →
      ACov n nb rf (lFof n gh') s1.firstLeaf.toList (ORel s1)
        (IR.childSt (irG n nb) rf (nodeL n nb rf r vs ps.length) st w)) :
    FrameAuxA1 n nb rf r gh' s1 vs incl ps c st := by
  have hnd : (cellL n nb rf r vs ps.length st).Nodup := IR.cellMembers_nodup _ _ _
  have key : ∀ i w, (cellL n nb rf r vs ps.length st)[i]? = some w → vs[ps.length]? = some w → i = p := by
    intro i w hi hw
    rw [hlink, ← hi] at hw
    have hlt := (List.getElem?_eq_some_iff.1 hi).1
    exact (List.getElem?_inj hlt hnd).1 hw.symm
  constructor
  · intro _ _ i w hi hw hx
    rw [e1] at hx
    have hip := key i w hw hx
    cases incl with
    | false => simp only [Bool.false_eq_true, if_false] at hi; omega
    | true => exact hcomp rfl w hx
  · intro _ _ i w hi hw hx
    rw [e2] at hx
    have hip := key i w hw hx
    cases incl with
    | false => simp only [Bool.false_eq_true, if_false] at hi; omega
    | true => exact hcomp rfl w hx

theorem olf_frameAuxA_false {gh' : Gh} {s1 : LS} {vs : List Nat} {op : OP} (e1 : gh'.vsF = vs) (e2 : gh'.vsB = vs) :
    ∀ (path choices : List Nat) (lv : List (Nat × Nat)), FramesOK n nb rf r vs path choices lv →
      LevelsOK op path choices lv → path.length ≤ vs.length →
      FrameAuxA n nb rf r gh' s1 vs false path choices lv := by
  intro path
  induction path with
  | nil => intro choices lv _ h _; cases choices <;> cases lv <;> simp_all [FrameAuxA, LevelsOK]
  | cons p ps ih =>
    intro choices lv hf hl hlen
    cases choices with
    | nil => simp [LevelsOK] at hl
    | cons c cs =>
      cases lv with
      | nil => simp [LevelsOK] at hl
      | cons x ls =>
        obtain ⟨st, sz⟩ := x
        simp only [FramesOK] at hf
        simp only [LevelsOK] at hl
        simp only [List.length_cons] at hlen
        simp only [FrameAuxA]
        obtain ⟨_, _, g3, g4⟩ := hf
        refine ⟨olf_frameAuxA1 e1 e2 hl.2.2.1 (g3 (by omega)).1 (fun h => by cases h),
          ih cs ls g4 hl.2.2.2.2 (by omega)⟩

end

section
variable {n m : Nat} {nb : Nbrs} {rf : Nat} {r : IR.St}
  (hnb : NbOK nb n) (hsz : nb.size = n) (hm : m = ((nb.toList.map List.length).sum) / 2) (hrf : 3 * n + 3 ≤ rf)
  (hA : IR.InvA (irG n nb) r) (hD : IR.InvD (irG n nb) r)
  (hlenm : ∀ o : List Nat, o.Perm (List.range n) → (certPos nb o n).length = m)

set_option linter.unusedVariables false in
set_option maxHeartbeats 1000000 in
include hnb hA hD hlenm in
theorem orb_leaf_first (gh : Gh) (lv : List (Nat × Nat)) (s s1 : LS) (hI : MInv n m nb s)
    (hlv : LevelsOK s.op s.path s.choices lv) (hleaf : s.op.binDividers.len = n)
    (hJ : CertM n m nb lv false s) (hDv : DNodev n nb rf r gh lv s) (hAv : ANodev n nb rf r gh lv s)
    (hs1 : leafNode n m s = .ok s1) (hJ1 : CertA n m nb lv s1) (hcnt : s.count = 0)
    (lv1 : List (Nat × Nat)) (hl1 : LevelsOK s1.op s1.path s1.choices lv1)
    (hDv' : DAv n nb rf r { vs := gh.vs.dropLast, oF := s.op.order.toList, vsF := gh.vs, vsB := gh.vs, bgs := [] } lv1 s1) :
    AAv n nb rf r { vs := gh.vs.dropLast, oF := s.op.order.toList, vsF := gh.vs, vsB := gh.vs, bgs := [] } lv1 s1 := by
  obtain ⟨hw, hG, hcov, haux, hoff⟩ := hDv
  obtain ⟨hg, hva, hvn, hb⟩ := hJ
  have hc := hI.core
  obtain ⟨hvc, hspl⟩ := leaf_clean hc.part hleaf (hvn rfl)
  have hw' := hw
  obtain ⟨h1, h2, h3, h4, h5, h6, h7⟩ := hw'
  have hval : s.op.value.toList = certPos nb s.op.order.toList n := by rw [← hspl]; exact hvc.val
  have hvlen : s.op.value.toList.length = m := by rw [hval]; exact hlenm _ hc.part.perm
  have hg' := irG_wf hnb
  have hvsn : gh.vs.length ≤ n := by
    obtain ⟨c1, _, c3⟩ := IR.path_cells hg' (rf := rf) gh.vs r hA hD h1
    have := IR.D_le (irG n nb).n (IR.nodeAt (irG n nb) rf r gh.vs).c
    rw [c3] at this
    have : (IR.nodeAt (irG n nb) rf r gh.vs).cells ≤ n := this
    omega
  obtain ⟨e1, e2, e3, e4, e5, e6, e7, e8, e9, e10, e11, e12, e13, e14, e15, e16, e17⟩ :=
    lf_shape hc hg hG.bpLen hG.fpLen hvlen (by omega) hcnt hs1
  -- the levels are unchanged
  have hlv1 : lv1 = lv := by
    rw [e1, e2, e3] at hl1
    exact LevelsOK_unique _ _ _ _ hl1 hlv
  subst hlv1
  have hnode : nodeL n nb rf r gh.vs gh.vs.length = IR.nodeAt (irG n nb) rf r gh.vs := by
    unfold nodeL; rw [List.take_length]
  have hmt : Match n s.op (nodeL n nb rf r gh.vs gh.vs.length) :=
    (h4 gh.vs.length (Nat.le_refl _)).toMatch hc.part hc.age (by omega) h7
  have hng1 : s1.ngens = 0 := by rw [e5]; exact hG.ngens0 hcnt
  -- the first leaf is related to itself, position by position
  have hself : ∀ u v, u < n → v < n →
      IR.col (IR.tab n (fun x => s.op.order.toList.idxOf x)) u =
        IR.col (IR.tab n (fun x => s.op.order.toList.idxOf x)) v → ORel s1 u v := by
    intro u v hu hv hcol
    rw [IR.col_tab _ hu, IR.col_tab _ hv] at hcol
    have huv := olf_idxOf_inj hc.part.perm hu hv hcol
    subst huv
    exact ORel.refl s1 u
  have hleafA : ACov n nb rf
      (lFof n { vs := gh.vs.dropLast, oF := s.op.order.toList, vsF := gh.vs, vsB := gh.vs, bgs := [] })
      s1.firstLeaf.toList (ORel s1) (nodeL n nb rf r gh.vs gh.vs.length) := by
    refine acov_leaf (target_none (nb := nb) hc.part hmt hleaf) ?_
    intro _ u v hu hv hcol
    rw [hmt.col, leaf_colOf hc.part hleaf] at hcol
    exact hself u v hu hv hcol
  refine ⟨?_, ?_, ?_, ?_⟩
  · -- the global facts
    constructor
    · intro _; rw [e6, e7, compare_self]; decide
    · intro _ _ u v hu hv hcol
      rw [e8] at hcol
      exact hself u v hu hv hcol
    · intro γ hγ; cases hγ
    · intro k hk; omega
  · -- coverage
    show ACovFrames n nb rf r _ s1 gh.vs.dropLast true s1.path s1.choices lv1
    rw [e2, e3]
    apply ACovFrames.congr (s := s1) (s' := s1) (vs := gh.vs) rfl rfl (fun _ => rfl) rfl true _ _ _
      (fun L hL => take_dropLast gh.vs (by omega))
    have hc0 : ACovFrames n nb rf r
        { vs := gh.vs.dropLast, oF := s.op.order.toList, vsF := gh.vs, vsB := gh.vs, bgs := [] } s1 gh.vs false
        s.path s.choices lv1 := olf_acov_vacuous hcnt s.path s.choices lv1 h5 haux
    cases hpth : s.path with
    | nil =>
      rw [hpth] at hlv
      cases hch : s.choices <;> cases lv1 <;> simp_all [ACovFrames, LevelsOK]
    | cons p ps =>
      rw [hpth] at hlv h5 h3 hc0
      obtain ⟨c, cs, st, sz, ls, hch, rfl, hcp⟩ := lf_levelsOK_path_ne hlv
      rw [hch] at hlv h5 hc0 ⊢
      simp only [FramesOK] at h5
      simp only [List.length_cons] at h3
      obtain ⟨g1, _, g3, g4⟩ := h5
      obtain ⟨g3a, _⟩ := g3 (by omega)
      apply hc0.finish_child
      intro w hw'
      left
      have hcs : c - st = p := by omega
      rw [hcs, ← g3a] at hw'
      rw [← nodeL_succ h1 hw' g1, ← h3]
      exact hleafA
  · -- the frames
    show FrameAuxA n nb rf r _ s1 gh.vs.dropLast true s1.path s1.choices lv1
    rw [e2, e3]
    apply FrameAuxA.congr (s := s1) (s' := s1) (us := gh.vs) rfl rfl rfl true _ _ _
      (fun L hL => take_dropLast gh.vs (by omega))
    cases hpth : s.path with
    | nil =>
      rw [hpth] at hlv
      cases hch : s.choices <;> cases lv1 <;> simp_all [FrameAuxA, LevelsOK]
    | cons p ps =>
      rw [hpth] at hlv h5 h3
      obtain ⟨c, cs, st, sz, ls, hch, rfl, hcp⟩ := lf_levelsOK_path_ne hlv
      rw [hch] at hlv h5 ⊢
      simp only [FramesOK] at h5
      simp only [LevelsOK] at hlv
      simp only [List.length_cons] at h3
      obtain ⟨g1, _, g3, g4⟩ := h5
      obtain ⟨g3a, _⟩ := g3 (by omega)
      refine FrameAuxA.mk (olf_frameAuxA1 (gh' := { vs := gh.vs.dropLast, oF := s.op.order.toList, vsF := gh.vs, vsB := gh.vs, bgs := [] })
        (vs := gh.vs) rfl rfl hcp g3a (fun _ w hw' => ?_))
        (olf_frameAuxA_false (gh' := { vs := gh.vs.dropLast, oF := s.op.order.toList, vsF := gh.vs, vsB := gh.vs, bgs := [] })
          (vs := gh.vs) rfl rfl ps cs ls g4 hlv.2.2.2.2 (by omega))
      rw [← nodeL_succ h1 hw' g1, ← h3]
      exact hleafA
  · -- the root
    intro hp
    rw [e2] at hp
    have hvs : gh.vs = [] := List.eq_nil_of_length_eq_zero (by rw [h3, hp]; rfl)
    have : nodeL n nb rf r gh.vs gh.vs.length = r := by rw [hvs]; simp [nodeL, IR.nodeAt]
    rw [← this]
    exact hleafA

end
end CanonF
