import Mamba.Lemmas.MinorBasic
import Mathlib.Data.List.Basic
import Mathlib.Data.List.Nodup
import Mathlib.Data.List.Perm.Subperm
import Mathlib.Data.List.Range
/-!
# The decision procedure `hasMinorExec` computes the definition (property C11)

`leaf_sound`, `leaf_complete`   — the backtracking embedding test;
`search_sound`, `search_complete` — ordered removal of vertices;
`hasMinorExec_iff'`.
-/
namespace Minor
open GraphSpec

theorem mem_verts {p : PG} {v : Nat} : v ∈ p.verts ↔ p.V v := by
  simp [PG.verts, PG.V]

theorem verts_nodup (p : PG) : p.verts.Nodup := List.nodup_range.filter _

/-! ## the list of images -/

/-- `img l i`: the image of vertex `i` of `H` when `l` lists the images of `0 .. l.length-1` in reverse order -/
def img (l : List Nat) (i : Nat) : Nat := l.reverse.getD i 0

theorem img_cons_lt (w : Nat) (ws : List Nat) {i : Nat} (h : i < ws.length) : img (w :: ws) i = img ws i := by
  unfold img
  rw [List.reverse_cons, List.getD_eq_getElem?_getD, List.getD_eq_getElem?_getD,
    List.getElem?_append_left (by simpa using h)]

theorem img_cons_last (w : Nat) (ws : List Nat) : img (w :: ws) ws.length = w := by
  unfold img
  rw [List.reverse_cons, List.getD_eq_getElem?_getD, List.getElem?_append_right (by simp)]
  simp

theorem okNew_spec (p : PG) (H : G) (h v : Nat) (l : List Nat) :
    okNew p H h v l = true ↔ ∀ i, i < l.length →
      (H.adj h i = true → p.adj v (img l i) = true) ∧ (H.adj i h = true → p.adj (img l i) v = true) := by
  induction l with
  | nil => simp [okNew]
  | cons w ws ih =>
    simp only [okNew, Bool.and_eq_true, Bool.or_eq_true, Bool.not_eq_true', ih, List.length_cons]
    constructor
    · rintro ⟨⟨h1, h2⟩, h3⟩ i hi
      by_cases hi' : i < ws.length
      · rw [img_cons_lt w ws hi']; exact h3 i hi'
      · have : i = ws.length := by omega
        subst this
        rw [img_cons_last]
        constructor
        · intro ha; rcases h1 with h1 | h1
          · rw [h1] at ha; cases ha
          · exact h1
        · intro ha; rcases h2 with h2 | h2
          · rw [h2] at ha; cases ha
          · exact h2
    · intro hall
      refine ⟨⟨?_, ?_⟩, ?_⟩
      · have := (hall ws.length (by omega)).1
        rw [img_cons_last] at this
        cases hh : H.adj h ws.length
        · left; rfl
        · right; exact this hh
      · have := (hall ws.length (by omega)).2
        rw [img_cons_last] at this
        cases hh : H.adj ws.length h
        · left; rfl
        · right; exact this hh
      · intro i hi
        have := hall i (by omega)
        rw [img_cons_lt w ws hi] at this
        exact this

/-- the partial embedding `l` (reversed list of images) sends edges of `H` to edges of `p` -/
def Good (p : PG) (H : G) : List Nat → Prop
  | [] => True
  | v :: l => okNew p H l.length v l = true ∧ Good p H l

theorem good_iff (p : PG) (H : G) (l : List Nat) :
    Good p H l ↔ ∀ i j, i < l.length → j < l.length → i ≠ j → H.adj i j = true →
      p.adj (img l i) (img l j) = true := by
  induction l with
  | nil => simp [Good]
  | cons w ws ih =>
    simp only [Good, ih, okNew_spec, List.length_cons]
    constructor
    · rintro ⟨h1, h2⟩ i j hi hj hne hadj
      by_cases hi' : i < ws.length
      · by_cases hj' : j < ws.length
        · rw [img_cons_lt w ws hi', img_cons_lt w ws hj']
          exact h2 i j hi' hj' hne hadj
        · have : j = ws.length := by omega
          subst this
          rw [img_cons_lt w ws hi', img_cons_last]
          exact (h1 i hi').2 hadj
      · have : i = ws.length := by omega
        subst this
        have hj' : j < ws.length := by omega
        rw [img_cons_lt w ws hj', img_cons_last]
        exact (h1 j hj').1 hadj
    · intro hall
      constructor
      · intro i hi
        constructor
        · intro hadj
          have := hall ws.length i (by omega) (by omega) (by omega) hadj
          rwa [img_cons_last, img_cons_lt w ws hi] at this
        · intro hadj
          have := hall i ws.length (by omega) (by omega) (by omega) hadj
          rwa [img_cons_last, img_cons_lt w ws hi] at this
      · intro i j hi hj hne hadj
        have := hall i j (by omega) (by omega) hne hadj
        rwa [img_cons_lt w ws hi, img_cons_lt w ws hj] at this

theorem good_of_append (p : PG) (H : G) (a b : List Nat) (h : Good p H (a ++ b)) : Good p H b := by
  induction a with
  | nil => exact h
  | cons x xs ih => exact ih h.2

theorem embedGo_sound (p : PG) (H : G) : ∀ (k : Nat) (avail l : List Nat),
    embedGo p H k avail l = true → Good p H l → l.Nodup → avail.Nodup → (∀ x ∈ l, x ∉ avail) →
    ∃ L, L.length = k + l.length ∧ Good p H L ∧ L.Nodup ∧ ∀ x ∈ L, x ∈ l ∨ x ∈ avail := by
  intro k
  induction k with
  | zero =>
    intro avail l _ hg hn _ _
    exact ⟨l, by simp, hg, hn, fun x hx => Or.inl hx⟩
  | succ k ih =>
    intro avail l h hg hn ha hd
    simp only [embedGo, List.any_eq_true, Bool.and_eq_true] at h
    obtain ⟨v, hv, hok, hrec⟩ := h
    have hvl : v ∉ l := fun hvl => hd v hvl hv
    obtain ⟨L, hlen, hG, hN, hmem⟩ := ih (avail.erase v) (v :: l) hrec ⟨hok, hg⟩
      (List.nodup_cons.2 ⟨hvl, hn⟩) (ha.erase v) (by
        intro x hx hx'
        rcases List.mem_cons.1 hx with rfl | hx
        · exact (ha.mem_erase_iff.1 hx').1 rfl
        · exact hd x hx (List.mem_of_mem_erase hx'))
    refine ⟨L, by simp at hlen; omega, hG, hN, ?_⟩
    intro x hx
    rcases hmem x hx with h1 | h1
    · rcases List.mem_cons.1 h1 with rfl | h1
      · exact Or.inr hv
      · exact Or.inl h1
    · exact Or.inr (List.mem_of_mem_erase h1)

theorem embedGo_complete (p : PG) (H : G) : ∀ (m avail l : List Nat),
    m.Nodup → (∀ x ∈ m, x ∈ avail) → Good p H (m.reverse ++ l) → embedGo p H m.length avail l = true := by
  intro m
  induction m with
  | nil => intro _ _ _ _ _; rfl
  | cons v m ih =>
    intro avail l hn hsub hg
    have hn' := List.nodup_cons.1 hn
    rw [List.reverse_cons, List.append_assoc, List.singleton_append] at hg
    simp only [List.length_cons, embedGo, List.any_eq_true, Bool.and_eq_true]
    refine ⟨v, hsub v List.mem_cons_self, (good_of_append p H _ _ hg).1, ?_⟩
    refine ih (avail.erase v) (v :: l) hn'.2 ?_ hg
    intro x hx
    have hxv : x ≠ v := fun e => hn'.1 (e ▸ hx)
    exact (List.mem_erase_of_ne hxv).2 (hsub x (List.mem_cons_of_mem _ hx))

/-! ## leaf -/

/-- an injective list of `|H|` live vertices that carries the edges of `H` gives a model with singleton branch sets -/
theorem model_of_images {p : PG} {H : G} (M : List Nat) (hlen : M.length = H.n) (hN : M.Nodup)
    (hV : ∀ x ∈ M, p.V x)
    (hE : ∀ i j, i < H.n → j < H.n → i ≠ j → H.adj i j = true → p.adj (M.getD i 0) (M.getD j 0) = true) :
    IsModel p H (fun v => M.idxOf v) := by
  have hget : ∀ i (hi : i < M.length), M.getD i 0 = M[i] := by
    intro i hi; simp [List.getD_eq_getElem?_getD, hi]
  refine ⟨?_, ?_, ?_⟩
  · intro h hh
    have hh' : h < M.length := hlen ▸ hh
    exact ⟨M[h], hV _ (List.getElem_mem hh'), hN.idxOf_getElem h hh'⟩
  · intro u v hu _ hlt heq
    have hu' : M.idxOf u < M.length := hlen ▸ hlt
    have hv' : M.idxOf v < M.length := heq ▸ hu'
    have e1 := List.getElem_idxOf hu'
    have e2 := List.getElem_idxOf hv'
    have : u = v := by
      rw [← e1, ← e2]
      simp only [heq]
    subst this
    exact .refl hu rfl
  · intro h h' hh hh' hne hadj
    have h1 : h < M.length := hlen ▸ hh
    have h2 : h' < M.length := hlen ▸ hh'
    refine ⟨M[h], M[h'], hV _ (List.getElem_mem h1), hV _ (List.getElem_mem h2),
      hN.idxOf_getElem h h1, hN.idxOf_getElem h' h2, ?_⟩
    have := hE h h' hh hh' hne hadj
    rwa [hget h h1, hget h' h2] at this

theorem leaf_sound {p : PG} {H : G} (h : leaf p H = true) : HasMinorP p H := by
  simp only [leaf, Bool.and_eq_true, beq_iff_eq] at h
  obtain ⟨hcnt, hgo⟩ := h
  obtain ⟨L, hlen, hG, hN, hmem⟩ := embedGo_sound p H H.n p.verts [] hgo trivial List.nodup_nil
    (verts_nodup p) (by simp)
  simp only [List.length_nil, Nat.add_zero] at hlen
  refine ⟨_, model_of_images L.reverse (by simpa using hlen) (List.nodup_reverse.2 hN) ?_ ?_⟩
  · intro x hx
    rcases hmem x (List.mem_reverse.1 hx) with h1 | h1
    · cases h1
    · exact mem_verts.1 h1
  · intro i j hi hj hne hadj
    exact (good_iff p H L).1 hG i j (hlen ▸ hi) (hlen ▸ hj) hne hadj

/-- the chosen representatives of the branch sets -/
theorem exists_images {p : PG} {H : G} {f : Nat → Nat} (hm : IsModel p H f) :
    ∃ M : List Nat, M.length = H.n ∧ M.Nodup ∧ (∀ x ∈ M, p.V x) ∧ ∀ i, i < H.n → f (M.getD i 0) = i := by
  classical
  let σ : Nat → Nat := fun h => if hh : h < H.n then Classical.choose (hm.nonempty h hh) else 0
  have hσ : ∀ h, h < H.n → p.V (σ h) ∧ f (σ h) = h := by
    intro h hh
    simp only [σ, hh, dif_pos]
    exact Classical.choose_spec (hm.nonempty h hh)
  refine ⟨(List.range H.n).map σ, by simp, ?_, ?_, ?_⟩
  · refine List.Nodup.map_on ?_ List.nodup_range
    intro x hx y hy hxy
    have hx' := List.mem_range.1 hx
    have hy' := List.mem_range.1 hy
    rw [← (hσ x hx').2, ← (hσ y hy').2, hxy]
  · intro x hx
    obtain ⟨h, hh, rfl⟩ := List.mem_map.1 hx
    exact (hσ h (List.mem_range.1 hh)).1
  · intro i hi
    have : ((List.range H.n).map σ).getD i 0 = σ i := by
      simp [List.getD_eq_getElem?_getD, hi]
    rw [this]
    exact (hσ i hi).2

theorem le_verts_of_model {p : PG} {H : G} {f : Nat → Nat} (hm : IsModel p H f) : H.n ≤ p.verts.length := by
  obtain ⟨M, hlen, hN, hV, _⟩ := exists_images hm
  rw [← hlen]
  exact (List.subperm_of_subset hN (fun x hx => mem_verts.2 (hV x hx))).length_le

theorem leaf_complete {p : PG} {H : G} {f : Nat → Nat} (hm : IsModel p H f) (hle : p.verts.length ≤ H.n) :
    leaf p H = true := by
  obtain ⟨M, hlen, hN, hV, hf⟩ := exists_images hm
  have hsub : M ⊆ p.verts := fun x hx => mem_verts.2 (hV x hx)
  have hperm : M.Perm p.verts :=
    (List.subperm_of_subset hN hsub).perm_of_length_le (by rw [hlen]; exact hle)
  have hcnt : p.verts.length = H.n := by rw [← hperm.length_eq, hlen]
  -- every live vertex is the representative of its class
  have hrep : ∀ u, p.V u → f u < H.n → u = M.getD (f u) 0 := by
    intro u hu hlt
    have hmem : u ∈ M := hperm.mem_iff.2 (mem_verts.2 hu)
    obtain ⟨i, hi, rfl⟩ := List.getElem_of_mem hmem
    have hi' : i < H.n := hlen ▸ hi
    have e : M.getD i 0 = M[i] := by simp [List.getD_eq_getElem?_getD, hi]
    have : f M[i] = i := by rw [← e]; exact hf i hi'
    rw [this, e]
  simp only [leaf, Bool.and_eq_true, beq_iff_eq]
  refine ⟨hcnt, ?_⟩
  have := embedGo_complete p H M p.verts [] hN (fun x hx => hsub hx) (by
    rw [List.append_nil]
    refine (good_iff p H M.reverse).2 ?_
    intro i j hi hj hne hadj
    simp only [List.length_reverse, hlen] at hi hj
    obtain ⟨u, v, hu, hv, hfu, hfv, huv⟩ := hm.edge i j hi hj hne hadj
    have eu := hrep u hu (hfu ▸ hi)
    have ev := hrep v hv (hfv ▸ hj)
    rw [hfu] at eu
    rw [hfv] at ev
    simp only [img, List.reverse_reverse]
    rw [← eu, ← ev]
    exact huv)
  rwa [hlen] at this

/-! ## search -/

theorem search_sound (H : G) : ∀ (lim : Nat) (p : PG), p.Sym → search H lim p = true → HasMinorP p H := by
  intro lim
  induction lim with
  | zero => intro p _ h; exact leaf_sound h
  | succ v ih =>
    intro p hs h
    rw [search] at h
    split at h
    · exact leaf_sound h
    · simp only [Bool.or_eq_true, Bool.and_eq_true, decide_eq_true_eq, List.any_eq_true, List.mem_filter] at h
      rcases h with h | ⟨⟨hvn, hal⟩, h | ⟨u, ⟨hu, hlt, hadj⟩, h⟩⟩
      · exact ih p hs h
      · exact (ih _ (delV_sym hs v) h).of_sub (delV_sub p v)
      · have hu' := mem_verts.1 hu
        have hne : u ≠ v := by omega
        exact (ih _ (contract_sym hs u v) h).of_contract hs hu' ⟨hvn, hal⟩ hne hadj

/-- `x` can be removed: it is unused, or it is not the least member of its branch set -/
def Removable (p : PG) (H : G) (f : Nat → Nat) (x : Nat) : Prop :=
  H.n ≤ f x ∨ ∃ y, p.V y ∧ f y = f x ∧ y < x

theorem search_complete (H : G) : ∀ (lim : Nat) (p : PG) (f : Nat → Nat), p.Sym → IsModel p H f →
    (∀ x, p.V x → Removable p H f x → x < lim) → search H lim p = true := by
  intro lim
  induction lim with
  | zero =>
    intro p f _ hm hinv
    refine leaf_complete hm ?_
    -- no vertex is removable: `f` is injective on the live vertices, with values below `H.n`
    have hlt : ∀ x, p.V x → f x < H.n := by
      intro x hx
      by_contra hc
      exact absurd (hinv x hx (Or.inl (by omega))) (by omega)
    have hinj : ∀ x, x ∈ p.verts → ∀ y, y ∈ p.verts → f x = f y → x = y := by
      intro x hx y hy hxy
      have hx' := mem_verts.1 hx
      have hy' := mem_verts.1 hy
      by_contra hne
      rcases Nat.lt_or_gt_of_ne hne with h | h
      · exact absurd (hinv y hy' (Or.inr ⟨x, hx', hxy, h⟩)) (by omega)
      · exact absurd (hinv x hx' (Or.inr ⟨y, hy', hxy.symm, h⟩)) (by omega)
    have hnd : (p.verts.map f).Nodup := List.Nodup.map_on hinj (verts_nodup p)
    have hsub : p.verts.map f ⊆ List.range H.n := by
      intro a ha
      obtain ⟨x, hx, rfl⟩ := List.mem_map.1 ha
      exact List.mem_range.2 (hlt x (mem_verts.1 hx))
    have := (List.subperm_of_subset hnd hsub).length_le
    simpa using this
  | succ v ih =>
    intro p f hs hm hinv
    rw [search]
    split
    · rename_i hle; exact leaf_complete hm hle
    · simp only [Bool.or_eq_true, Bool.and_eq_true, decide_eq_true_eq, List.any_eq_true, List.mem_filter]
      by_cases hrem : p.V v ∧ Removable p H f v
      · obtain ⟨hv, hr⟩ := hrem
        right
        refine ⟨hv, ?_⟩
        by_cases hun : H.n ≤ f v
        · -- unused: delete it
          left
          refine ih (p.delV v) f (delV_sym hs v) (hm.delV hun) ?_
          intro x hx hrx
          have hx' := delV_V.1 hx
          have : x < v + 1 := by
            refine hinv x hx'.1 ?_
            rcases hrx with h | ⟨y, hy, hfy, hyx⟩
            · exact Or.inl h
            · exact Or.inr ⟨y, (delV_V.1 hy).1, hfy, hyx⟩
          omega
        · -- not the least member of its branch set: contract it into a smaller neighbour of the set
          right
          have hlt : f v < H.n := by omega
          rcases hr with h | ⟨y, hy, hfy, hyv⟩
          · omega
          · have hc := hm.conn v y hv hy hlt hfy.symm
            obtain ⟨w, hw, hfw, hwv, hadj⟩ := hc.exists_nbr (by omega)
            have hwlt : w < v := by
              by_contra hge
              have : w < v + 1 := hinv w hw (Or.inr ⟨v, hv, hfw.symm, by omega⟩)
              omega
            refine ⟨w, ⟨mem_verts.2 hw, hwlt, by rw [hs]; exact hadj⟩, ?_⟩
            refine ih (p.contract w v) f (contract_sym hs w v) (hm.contract hw (by omega) hfw) ?_
            intro x hx hrx
            have hx' := contract_V.1 hx
            have : x < v + 1 := by
              refine hinv x hx'.1 ?_
              rcases hrx with h | ⟨y, hy, hfy, hyx⟩
              · exact Or.inl h
              · exact Or.inr ⟨y, (contract_V.1 hy).1, hfy, hyx⟩
            omega
      · left
        refine ih p f hs hm ?_
        intro x hx hrx
        have : x < v + 1 := hinv x hx hrx
        have : x ≠ v := by
          rintro rfl
          exact hrem ⟨hx, hrx⟩
        omega

/-! ## tabulation and the final statement -/

theorem tab_n (g : G) : (tab g).n = g.n := rfl

theorem tab_adj (g : G) {u v : Nat} (hu : u < g.n) (hv : v < g.n) : (tab g).adj u v = g.adj u v := by
  simp [tab, Array.getD, hu, hv]

theorem ofG_tab_sub (g : G) : (ofG (tab g)).Sub (ofG g) := by
  refine ⟨fun v hv => hv, ?_⟩
  intro u v hu hv _ h
  have hu' : u < g.n := ((ofG_V _ _).1 hu)
  have hv' : v < g.n := ((ofG_V _ _).1 hv)
  simpa [ofG, tab_adj g hu' hv', tab_adj g hv' hu'] using h

theorem ofG_sub_tab (g : G) : (ofG g).Sub (ofG (tab g)) := by
  refine ⟨fun v hv => hv, ?_⟩
  intro u v hu hv _ h
  have hu' : u < g.n := ((ofG_V _ _).1 hu)
  have hv' : v < g.n := ((ofG_V _ _).1 hv)
  simpa [ofG, tab_adj g hu' hv', tab_adj g hv' hu'] using h

theorem hasMinorExec_iff' (g H : G) : hasMinorExec g H = true ↔ HasMinor g H := by
  unfold hasMinorExec HasMinor
  constructor
  · intro h
    exact (search_sound H g.n _ (ofG_sym _) h).of_sub (ofG_tab_sub g)
  · intro h
    obtain ⟨f, hf⟩ := h.of_sub (ofG_sub_tab g)
    refine search_complete H g.n _ f (ofG_sym _) hf ?_
    intro x hx _
    exact ((ofG_V _ _).1 hx)

end Minor
