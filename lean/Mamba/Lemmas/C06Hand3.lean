import Mamba.Lemmas.C06Hand2
/-! C06: `Path`. -/
namespace Construct
open GraphSpec


theorem tri_succ' (i : Nat) : ((i + 1) * i) / 2 = tri (i + 1) := by simp [tri]

theorem countP_or_disjoint {α : Type} (l : List α) (p q : α → Bool) (h : ∀ x ∈ l, ¬ (p x = true ∧ q x = true)) :
    l.countP (fun x => p x || q x) = l.countP p + l.countP q := by
  induction l with
  | nil => simp
  | cons x t ih =>
    have hx := h x (by simp)
    rw [List.countP_cons, List.countP_cons, List.countP_cons, ih (fun y hy => h y (by simp [hy]))]
    cases hp : p x <;> cases hq : q x <;> simp_all <;> omega

/-- the byte positions written by the first loop of `Path` / `Cycle` -/
def pathIdxs (n : Nat) : List Nat := (List.range (n - 1)).map fun i => ((i + 1) * i) / 2 + i

theorem pathIdxs_lt (n : Nat) : ∀ k ∈ pathIdxs n, k < tri n := by
  intro k hk
  simp only [pathIdxs, List.mem_map, List.mem_range] at hk
  obtain ⟨i, hi, rfl⟩ := hk
  rw [tri_succ']; exact tri_add_lt (by omega) (by omega)

theorem mem_pathIdxs (n u v : Nat) (huv : u < v) (hv : v < n) : tri v + u ∈ pathIdxs n ↔ u + 1 = v := by
  simp only [pathIdxs, List.mem_map, List.mem_range]
  constructor
  · rintro ⟨i, hi, h⟩
    rw [tri_succ'] at h
    have := tri_inj (show i < i + 1 by omega) huv h
    omega
  · intro h; subst h
    exact ⟨u, by omega, by rw [tri_succ']⟩

theorem nodup_pathIdxs (n : Nat) : (pathIdxs n).Nodup := by
  unfold pathIdxs
  rw [List.Nodup, List.pairwise_map]
  refine List.Pairwise.imp ?_ (List.nodup_range (n := n - 1))
  intro a b hab h
  rw [tri_succ', tri_succ'] at h
  have := tri_inj (show a < a + 1 by omega) (show b < b + 1 by omega) h
  omega

theorem path_deg (n v : Nat) (hv : v < n) :
    (Families.path n).deg v = (if v + 1 < n then 1 else 0) + (if 1 ≤ v then 1 else 0) := by
  rw [Families.path, deg_symm n _ v hv]
  have : (List.range n).countP (fun u => u != v && (v + 1 == u || u + 1 == v)) =
      (List.range n).countP (fun u => (u == v + 1) || (u == v - 1 && decide (1 ≤ v))) := by
    apply List.countP_congr
    intro u _
    simp only [bne_iff_ne, ne_eq, Bool.and_eq_true, decide_eq_true_eq, Bool.or_eq_true, beq_iff_eq]
    omega
  rw [this, countP_or_disjoint _ _ _ (by intro u _; simp; omega), countP_range_beq, countP_range_beq_and]
  have : v - 1 < n := by omega
  simp [this]

theorem path_ok (n : Nat) : ∃ d, path n = .ok d ∧ d.WF ∧ d.abs = Families.path n := by
  obtain ⟨e, e1, e2, e3⟩ := writeOnes_zeros (tri n) (pathIdxs n) (pathIdxs_lt n)
  -- the degree array
  have hdeg : ∃ dg : Array Int, (if n > 1 then (do
      let d ← setAt (Array.replicate n (0 : Int)) 0 1
      let d ← setAt d (n - 1) 1
      writeAll d (List.range' 1 (n - 1 - 1)) 2) else pure (Array.replicate n (0 : Int))) = Outcome.ok dg ∧ dg.size = n ∧
      ∀ v, v < n → dg[v]? = some (((if v + 1 < n then 1 else 0) + (if 1 ≤ v then 1 else 0) : Nat) : Int) := by
    by_cases hn : n > 1
    · have h0 : 0 < (Array.replicate n (0 : Int)).size := by simp; omega
      have h1 : n - 1 < ((Array.replicate n (0 : Int)).set 0 1).size := by simp; omega
      obtain ⟨dg, g1, g2, g3⟩ := foldlM_setAt (2 : Int) (List.range' 1 (n - 1 - 1))
        (((Array.replicate n (0 : Int)).set 0 1).set (n - 1) 1) (by
          intro k hk; rw [List.mem_range'_1] at hk; simp; omega)
      refine ⟨dg, ?_, by simpa using g2, ?_⟩
      · simp only [hn, ↓reduceIte, setAt_ok _ h0, Outcome.bind_ok, setAt_ok _ h1, writeAll]; exact g1
      · intro v hv
        rw [g3 v]
        simp only [List.mem_range'_1, Array.size_set, Array.size_replicate]
        by_cases c1 : 1 ≤ v ∧ v < 1 + (n - 1 - 1)
        · have : v + 1 < n := by omega
          simp [c1, hv, this]
        · by_cases c2 : v = n - 1
          · have c3 : ¬ v + 1 < n := by omega
            have c4 : 1 ≤ v := by omega
            have c5 : ¬ (1 ≤ n - 1 ∧ n - 1 < 1 + (n - 1 - 1)) := by omega
            subst c2
            simp [c3, c4, c5]
          · have c3 : v = 0 := by omega
            subst c3
            have c4 : 0 + 1 < n := by omega
            simp [c4, Array.getElem?_set, c2, Ne.symm c2, hv]
    · refine ⟨Array.replicate n 0, by simp [hn], by simp, ?_⟩
      intro v hv
      have h1 : ¬ v + 1 < n := by omega
      have h2 : ¬ 1 ≤ v := by omega
      simp [hv, h1, h2]
  obtain ⟨dg, g1, g2, g3⟩ := hdeg
  refine ⟨⟨n, if n == 0 then 0 else (n : Int) - 1, dg, e⟩, ?_, ?_⟩
  · simp only [path, tri_def]
    rw [show ((List.range (n - 1)).map fun i => ((i + 1) * i) / 2 + i) = pathIdxs n from rfl, e1]
    simp only [Outcome.bind_ok]
    rw [g1]; rfl
  · let d : Dense := ⟨n, if n == 0 then 0 else (n : Int) - 1, dg, e⟩
    have hs : d.edges.size = tri d.n := e2
    have habs : d.abs = Families.path n := by
      apply abs_eq_symm d hs
      intro u v huv hv
      have hv' : v < n := hv
      have h2 : (v + 1 == u) = false := by simp; omega
      simp only [d, e3, h2, Bool.or_false]
      rw [Bool.eq_iff_iff]; simp [mem_pathIdxs n u v huv hv']
    refine ⟨⟨e2, g2, ?_, ?_⟩, habs⟩
    · show (if n == 0 then 0 else (n : Int) - 1) = (d.abs.m : Int)
      rw [m_of_idxs d hs (pathIdxs n) (nodup_pathIdxs n) (pathIdxs_lt n) e3]
      simp only [pathIdxs, List.length_map, List.length_range]
      by_cases hn : n = 0
      · subst hn; simp
      · simp [hn]; omega
    · intro v hv
      show dg[v]? = some ((d.abs.deg v : Nat) : Int)
      rw [habs, path_deg n v hv, g3 v hv]


end Construct
