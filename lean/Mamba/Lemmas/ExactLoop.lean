import Mamba.Lemmas.ExactBlock
namespace Search
open Disjoint Relation GSearch

variable {g : DG} {gens : List (Array Nat)}

theorem sizeLoop_spec (hg : GensAut g gens) (hgen : ∀ σ, IsAut g σ → Word g.nv gens σ) (cap : Nat) :
    ∀ (ks : List Nat) (ch : Array Nat) (num : Nat) (ch' : Array Nat) (num' : Nat),
      sizeLoop cap g.nv gens ks ch num = .ok (ch', num') →
      ∃ blocks : List (List Nat), ch'.toList = ch.toList ++ blocks.flatten ∧
        List.Forall₂ (fun k b => BlockOK g k b) ks blocks
  | [], ch, num, ch', num', h => by
    simp only [sizeLoop] at h; cases h
    exact ⟨[], by simp, List.Forall₂.nil⟩
  | k :: ks, ch, num, ch', num', h => by
    simp only [sizeLoop] at h
    split at h
    · cases h
    · split at h
      · rename_i ds hds
        obtain ⟨hidx, hblock⟩ := block_spec hg hgen k hds
        rw [rootPass_form ds _ ch num hidx] at h
        simp only at h
        obtain ⟨blocks, hb1, hb2⟩ := sizeLoop_spec hg hgen cap ks _ _ ch' num' h
        refine ⟨_ :: blocks, ?_, List.Forall₂.cons hblock hb2⟩
        rw [hb1]
        simp [List.append_assoc]
      · cases h
      · cases h

/-- blocks for strictly increasing sizes: pairwise inequivalent, and every mask has the size of its block -/
theorem blocks_pairwise :
    ∀ (ks : List Nat) (blocks : List (List Nat)), List.Forall₂ (fun k b => BlockOK g k b) ks blocks →
      ks.Pairwise (· < ·) →
      (blocks.flatten.Pairwise fun x y => ¬ ExtEquiv g (bitsOf x) g (bitsOf y)) ∧
      ∀ x ∈ blocks.flatten, ∃ k ∈ ks, cardIn g.nv (bitsOf x) = k
  | [], [], _, _ => by simp
  | k :: ks, b :: bs, h, hp => by
    cases h with
    | cons hb hrest =>
      have hp' := List.pairwise_cons.1 hp
      obtain ⟨ih1, ih2⟩ := blocks_pairwise ks bs hrest hp'.2
      have hcard : ∀ x ∈ b, cardIn g.nv (bitsOf x) = k := by
        intro x hx
        obtain ⟨c, hc, rfl⟩ := hb.form x hx
        exact cardIn_mask hc
      constructor
      · simp only [List.flatten_cons]
        rw [List.pairwise_append]
        refine ⟨hb.distinct, ih1, ?_⟩
        intro x hx y hy e
        obtain ⟨k', hk', hc'⟩ := ih2 y hy
        have := cardIn_equiv e
        rw [hcard x hx, hc'] at this
        have := hp'.1 k' hk'
        omega
      · intro x hx
        simp only [List.flatten_cons, List.mem_append] at hx
        rcases hx with hx | hx
        · exact ⟨k, List.mem_cons_self, hcard x hx⟩
        · obtain ⟨k', hk', hc'⟩ := ih2 x hx
          exact ⟨k', List.mem_cons_of_mem _ hk', hc'⟩

end Search
