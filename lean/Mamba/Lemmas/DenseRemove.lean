import Mamba.Lemmas.DenseRep
/-!
# DenseGraph.RemoveVertex refines `removeVertexG` (property C05)

The backing array is compacted by a sequence of overlapping left-moving `copy`s. Invariant after `t` iterations
(`j = v + 1 + t`): positions below `newIndex = rvNi v t` already hold their final value
`E[tri (up w) + up u]`, positions from `newIndex` on are untouched, and `oldIndex + 1 = rvSrc v t`.
-/
namespace GraphRep
open GraphSpec

theorem copyWithin_ok {e : Array Nat} {dst src stop : Nat} (h1 : dst ≤ src) (h2 : src ≤ stop)
    (h3 : stop ≤ e.size) :
    ∃ e', copyWithin e dst src stop = .ok (e', stop - src) ∧ e'.size = e.size ∧
      ∀ p, e'[p]? = if dst ≤ p ∧ p < dst + (stop - src) then e[src + (p - dst)]? else e[p]? := by
  unfold copyWithin
  rw [if_neg (by omega)]
  have hc : min (e.size - dst) (stop - src) = stop - src := by omega
  simp only [hc]
  refine ⟨_, rfl, by simp, ?_⟩
  intro p
  by_cases hp : p < e.size
  · rw [Array.getElem?_eq_getElem (by simpa using hp), Array.getElem_ofFn]
    simp only
    by_cases hcnd : dst ≤ p ∧ p < dst + (stop - src)
    · rw [if_pos hcnd, if_pos hcnd, getElem?_eq_some_getD (by omega)]
    · rw [if_neg hcnd, if_neg hcnd, Array.getElem?_eq_getElem hp]
      rfl
  · have hcnd : ¬ (dst ≤ p ∧ p < dst + (stop - src)) := by omega
    rw [if_neg hcnd, Array.getElem?_eq_none (by simp; omega), Array.getElem?_eq_none (by omega)]

/-- the read index of `copyWithin` is in range behind its guard (the `getD` default is never used) -/
theorem copyWithin_getD_inbounds {e : Array Nat} {dst src stop k : Nat}
    (hg : ¬ (dst > e.size ∨ src > stop ∨ stop > e.size))
    (hk : dst ≤ k ∧ k < dst + min (e.size - dst) (stop - src)) : src + (k - dst) < e.size := by
  omega

theorem row_bounds {a b u w : Nat} (huw : u < w) (h1 : tri a ≤ tri w + u) (h2 : tri w + u < tri b) :
    a ≤ w ∧ w < b := by
  constructor
  · by_contra hc
    have := tri_mono (show w + 1 ≤ a by omega)
    rw [tri_succ] at this; omega
  · by_contra hc
    have := tri_mono (show b ≤ w by omega)
    omega

/-- `newIndex` after `t` iterations -/
def rvNi (v t : Nat) : Nat := if t = 0 then tri v else tri (v + t - 1) + v
/-- `oldIndex + 1` after `t` iterations -/
def rvSrc (v t : Nat) : Nat := if t = 0 then tri (v + 1) else tri (v + t) + v + 1

structure RvInv (E : Array Nat) (v t : Nat) (s : Array Nat × Nat × Nat) : Prop where
  size : s.1.size = E.size
  ni : s.2.1 = rvNi v t
  src : s.2.2 = rvSrc v t
  keep : ∀ p, rvNi v t ≤ p → s.1[p]? = E[p]?
  done : ∀ u w, u < w → tri w + u < rvNi v t → s.1[tri w + u]? = E[tri (up v w) + up v u]?

theorem rvNi_le_rvSrc (v t : Nat) : rvNi v t ≤ rvSrc v t := by
  unfold rvNi rvSrc
  by_cases ht : t = 0
  · simp only [ht, if_true]; exact tri_mono (by omega)
  · simp only [ht, if_false]
    have := tri_mono (show v + t - 1 ≤ v + t by omega); omega

/-- one `copy` of the compaction, up to an arbitrary `stop` inside the current segment -/
theorem rv_copy {E : Array Nat} {n v t : Nat} {s : Array Nat × Nat × Nat} {stop : Nat}
    (hE : E.size = tri n) (hinv : RvInv E v t s)
    (h1 : rvSrc v t ≤ stop) (h2 : stop ≤ tri (v + t + 1) + v) (h3 : stop ≤ E.size) :
    ∃ e', copyWithin s.1 s.2.1 s.2.2 stop = .ok (e', stop - rvSrc v t) ∧ e'.size = E.size ∧
      (∀ p, rvNi v t + (stop - rvSrc v t) ≤ p → e'[p]? = E[p]?) ∧
      (∀ u w, u < w → tri w + u < rvNi v t + (stop - rvSrc v t) →
        e'[tri w + u]? = E[tri (up v w) + up v u]?) := by
  have hle := rvNi_le_rvSrc v t
  obtain ⟨e', hrun, hsz, hget⟩ := copyWithin_ok (e := s.1) (dst := s.2.1) (src := s.2.2) (stop := stop)
    (by rw [hinv.ni, hinv.src]; exact hle) (by rw [hinv.src]; exact h1) (by rw [hinv.size]; exact h3)
  have hcnt : stop - s.2.2 = stop - rvSrc v t := by rw [hinv.src]
  rw [hcnt] at hrun
  refine ⟨e', hrun, by rw [hsz, hinv.size], ?_, ?_⟩
  · intro p hp
    rw [hget p, hinv.ni, hinv.src, if_neg (by omega)]
    exact hinv.keep p (by omega)
  · intro u w huw hp
    rw [hget, hinv.ni, hinv.src]
    by_cases hlow : tri w + u < rvNi v t
    · rw [if_neg (by omega)]; exact hinv.done u w huw hlow
    · rw [if_pos (by omega), hinv.keep _ (by omega)]
      congr 1
      -- index arithmetic
      cases t with
      | zero =>
        have hNI : rvNi v 0 = tri v := by simp [rvNi]
        have hSR : rvSrc v 0 = tri (v + 1) := by simp [rvSrc]
        have hs0 := tri_succ v
        have h2' : stop ≤ tri (v + 1) + v := h2
        have hb := row_bounds huw (show tri v ≤ tri w + u by omega) (show tri w + u < tri (v + 1) by omega)
        have hw : w = v := by omega
        subst hw
        rw [up_ge (Nat.le_refl _), up_lt huw]; omega
      | succ t' =>
        have hNI : rvNi v (t' + 1) = tri (v + t') + v := by simp [rvNi]
        have hSR : rvSrc v (t' + 1) = tri (v + t' + 1) + v + 1 := by simp [rvSrc, Nat.add_assoc]
        have hs0 := tri_succ (v + t')
        have hs1 := tri_succ (v + t' + 1)
        have h2' : stop ≤ tri (v + t' + 1 + 1) + v := h2
        have hb := row_bounds huw (show tri (v + t') ≤ tri w + u by omega)
          (show tri w + u < tri (v + t' + 1 + 1) by omega)
        by_cases hw : w = v + t'
        · subst hw
          have hu : v ≤ u := by omega
          rw [up_ge (by omega : v ≤ v + t'), up_ge hu]; omega
        · have hw' : w = v + t' + 1 := by omega
          subst hw'
          have hu : u < v := by omega
          rw [up_ge (by omega : v ≤ v + t' + 1), up_lt hu]; omega

/-- invariant reasoning for `for j := a; j < a + k; j++` -/
theorem loopM_range' {σ : Type} (f : σ → Nat → Outcome σ) (I : Nat → σ → Prop) (a : Nat) :
    ∀ (k t : Nat) (s : σ), I t s →
      (∀ t' s', t ≤ t' → t' < t + k → I t' s' → ∃ s'', f s' (a + t') = .ok s'' ∧ I (t' + 1) s'') →
      ∃ s', loopM f (List.range' (a + t) k) s = .ok s' ∧ I (t + k) s' := by
  intro k
  induction k with
  | zero => intro t s hI _; exact ⟨s, rfl, hI⟩
  | succ k ih =>
    intro t s hI hstep
    obtain ⟨s1, hf, hI1⟩ := hstep t s (Nat.le_refl _) (by omega) hI
    obtain ⟨s2, hrun, hI2⟩ := ih (t + 1) s1 hI1 (fun t' s' h1 h2 h3 => hstep t' s' (by omega) (by omega) h3)
    refine ⟨s2, ?_, ?_⟩
    · rw [List.range'_succ, loopM, hf]
      exact hrun
    · have : t + (k + 1) = t + 1 + k := by omega
      rw [this]; exact hI2

theorem Dense.rvEdges_spec {g : Dense} (hs : g.edges.size = tri g.n) {v : Nat} (hv : v < g.n) :
    ∃ e, g.rvEdges v = .ok e ∧ e.size = tri (g.n - 1) ∧
      ∀ u w, u < w → w < g.n - 1 → e[tri w + u]? = g.edges[tri (up v w) + up v u]? := by
  have hinit : RvInv g.edges v 0 (g.edges, tri v, v * (v + 1) / 2) := by
    refine ⟨rfl, by simp [rvNi], by simp [rvSrc, tri_succ'], fun p _ => rfl, ?_⟩
    intro u w huw hp
    have hNI : rvNi v 0 = tri v := by simp [rvNi]
    have hb := row_bounds (a := 0) huw (by simp) (by rw [hNI] at hp; exact hp)
    rw [up_lt hb.2, up_lt (by omega : u < v)]
  obtain ⟨s, hrun, hinv⟩ := loopM_range' (rvStep v) (fun t s => RvInv g.edges v t s) (v + 1)
    (g.n - (v + 1)) 0 _ hinit (by
      intro t s _ ht hinv
      have hj : v + 1 + t = v + t + 1 := by omega
      have hs1 := tri_succ (v + t)
      have hlt := tri_add_lt (show v < v + t + 1 by omega) (show v + t + 1 < g.n by omega)
      have hsrc : rvSrc v t ≤ tri (v + t + 1) + v := by
        unfold rvSrc; split
        · rename_i h0; subst h0; simp
        · omega
      obtain ⟨e', hc, hsz, hkeep, hdone⟩ := rv_copy (stop := tri (v + t + 1) + v) hs hinv hsrc
        (Nat.le_refl _) (by rw [hs]; omega)
      have hni : rvNi v t + (tri (v + t + 1) + v - rvSrc v t) = rvNi v (t + 1) := by
        cases t with
        | zero => simp [rvNi, rvSrc]
        | succ t' =>
          have hNI : rvNi v (t' + 1) = tri (v + t') + v := by simp [rvNi]
          have hSR : rvSrc v (t' + 1) = tri (v + t' + 1) + v + 1 := by simp [rvSrc, Nat.add_assoc]
          have hNI2 : rvNi v (t' + 1 + 1) = tri (v + t' + 1) + v := by simp [rvNi, Nat.add_assoc]
          have hs0 := tri_succ (v + t')
          have hs2 : tri (v + (t' + 1) + 1) = tri (v + t' + 1) + (v + t' + 1) := tri_succ (v + t' + 1)
          omega
      refine ⟨(e', s.2.1 + (tri (v + t + 1) + v - rvSrc v t), tri (v + t + 1) + v + 1), ?_, ?_⟩
      · unfold rvStep
        simp only
        rw [hj, hc]
      · refine ⟨hsz, ?_, ?_, ?_, ?_⟩
        · show s.2.1 + _ = _
          rw [hinv.ni, hni]
        · show tri (v + t + 1) + v + 1 = rvSrc v (t + 1)
          simp [rvSrc, Nat.add_assoc]
        · intro p hp; rw [← hni] at hp; exact hkeep p hp
        · intro u w huw hp; rw [← hni] at hp; exact hdone u w huw hp)
  have hT : v + (0 + (g.n - (v + 1))) + 1 = g.n := by omega
  generalize hTdef : 0 + (g.n - (v + 1)) = T at hinv hT
  -- the final copy
  have hs0 := tri_succ (v + T)
  have hn : tri g.n = tri (v + T + 1) := by rw [hT]
  have hsrc : rvSrc v T ≤ g.edges.size := by
    rw [hs, hn]; unfold rvSrc; split
    · rename_i h0; subst h0; simp
    · omega
  obtain ⟨e', hc, hsz, _, hdone⟩ := rv_copy (stop := g.edges.size) hs hinv hsrc
    (by rw [hs, hn]; omega) (Nat.le_refl _)
  have hlen : rvNi v T + (g.edges.size - rvSrc v T) = tri (g.n - 1) := by
    have hn1 : g.n - 1 = v + T := by omega
    rw [hn1, hs, hn]
    cases T with
    | zero => simp [rvNi, rvSrc]
    | succ t' =>
      have hNI : rvNi v (t' + 1) = tri (v + t') + v := by simp [rvNi]
      have hSR : rvSrc v (t' + 1) = tri (v + t' + 1) + v + 1 := by simp [rvSrc, Nat.add_assoc]
      have hs1 := tri_succ (v + t')
      have hs2 : tri (v + (t' + 1) + 1) = tri (v + t' + 1) + (v + t' + 1) := tri_succ (v + t' + 1)
      have e1 : v + (t' + 1) = v + t' + 1 := by omega
      rw [e1] at hs0 ⊢
      omega
  have hle : tri (g.n - 1) ≤ e'.size := by
    rw [hsz, hs]; exact tri_mono (by omega)
  refine ⟨e'.extract 0 (tri (g.n - 1)), ?_, ?_, ?_⟩
  · unfold Dense.rvEdges
    rw [hrun]
    simp only
    rw [hinv.size, hc]
    simp only
    rw [if_pos hle]
  · rw [Array.size_extract]; omega
  · intro u w huw hw
    have hp : tri w + u < tri (g.n - 1) := tri_add_lt huw hw
    rw [Array.getElem?_extract, if_pos (by omega), Nat.zero_add]
    exact hdone u w huw (by rw [hlen]; exact hp)

theorem sub_ite_eq (x : Int) (c1 c2 : Prop) [Decidable c1] [Decidable c2] (b : Bool)
    (h : (c1 ∨ c2) ↔ b = true) (hex : ¬ (c1 ∧ c2)) :
    x - (if c1 then 1 else 0) - (if c2 then 1 else 0) = x - (b.toNat : Int) := by
  by_cases h1 : c1 <;> by_cases h2 : c2 <;> cases b <;> simp_all

/-- a degree loop of `RemoveVertex` -/
theorem Dense.rvDeg_loop (g : Dense) (idx : Nat → Nat) (n : Nat) :
    ∀ (l : List Nat) (d : Array Int), l.Nodup → (∀ i ∈ l, idx i < g.edges.size ∧ i < n) → d.size = n →
    ∃ d', loopM (Dense.rvDegStep g idx) l d = .ok d' ∧ d'.size = n ∧
      ∀ k, d'[k]? = (d[k]?).map (fun x => x - (if k ∈ l ∧ g.edges.getD (idx k) 0 > 0 then 1 else 0)) := by
  intro l
  induction l with
  | nil => intro d _ _ hd; exact ⟨d, rfl, hd, by simp⟩
  | cons i l ih =>
    intro d hnd hl hd
    have hi := hl i (by simp)
    have hnd' := List.nodup_cons.mp hnd
    have hstep : ∃ d1, Dense.rvDegStep g idx d i = .ok d1 ∧ d1.size = n ∧
        ∀ k, d1[k]? = (d[k]?).map (fun x => x - (if k = i ∧ g.edges.getD (idx i) 0 > 0 then 1 else 0)) := by
      unfold Dense.rvDegStep
      rw [getElem?_eq_some_getD hi.1]
      simp only
      by_cases hb : g.edges.getD (idx i) 0 > 0
      · rw [if_pos hb]
        have hx : d[i]? = some d[i] := Array.getElem?_eq_getElem (by omega)
        rw [addA_ok (-1) hx]
        refine ⟨_, rfl, by simp [hd], ?_⟩
        intro k
        rw [get?_set_add (-1) hx]
        by_cases hk : k = i
        · subst hk
          rw [if_pos rfl, hx, Option.map_some, if_pos ⟨rfl, hb⟩]
          rfl
        · have : ¬ (k = i ∧ g.edges.getD (idx i) 0 > 0) := fun c => hk c.1
          rw [if_neg hk, if_neg this]
          cases d[k]? <;> simp
      · rw [if_neg hb]
        refine ⟨d, rfl, hd, ?_⟩
        intro k
        have : ¬ (k = i ∧ g.edges.getD (idx i) 0 > 0) := fun c => hb c.2
        rw [if_neg this]
        cases d[k]? <;> simp
    obtain ⟨d1, h1, hs1, hg1⟩ := hstep
    obtain ⟨d2, h2, hs2, hg2⟩ := ih d1 hnd'.2 (fun j hj => hl j (by simp [hj])) hs1
    refine ⟨d2, ?_, hs2, ?_⟩
    · rw [loopM, h1]; exact h2
    · intro k
      rw [hg2 k, hg1 k]
      cases hdk : d[k]? with
      | none => simp
      | some x =>
        simp only [Option.map_some, List.mem_cons]
        by_cases hki : k = i
        · subst hki
          have : ¬ k ∈ l := hnd'.1
          simp [this]
        · simp [hki]

theorem Dense.rvDegrees_spec {g : Dense} (h : g.WF) {v : Nat} (hv : v < g.n) :
    ∃ d, g.rvDegrees v = .ok d ∧ d.size = g.n ∧
      ∀ k, k < g.n → d[k]? = some ((g.abs.deg k : Int) - (g.abs.adj k v).toNat) := by
  obtain ⟨d1, h1, hs1, hg1⟩ := Dense.rvDeg_loop g (fun i => tri v + i) g.n (List.range v) g.deg
    List.nodup_range (fun i hi => by
      have hi : i < v := by simpa using hi
      exact ⟨by rw [h.edges_size]; exact tri_add_lt hi hv, by omega⟩) h.deg_size
  obtain ⟨d2, h2, hs2, hg2⟩ := Dense.rvDeg_loop g (fun i => tri i + v) g.n
    (List.range' (v + 1) (g.n - (v + 1))) d1 (List.nodup_range' ..) (fun i hi => by
      simp only [List.mem_range'_1] at hi
      exact ⟨by rw [h.edges_size]; exact tri_add_lt (by omega) (by omega), by omega⟩) hs1
  refine ⟨d2, ?_, hs2, ?_⟩
  · unfold Dense.rvDegrees
    rw [h1]; exact h2
  · intro k hk
    rw [hg2 k, hg1 k, h.deg_eq k hk]
    simp only [Option.map_some]
    congr 1
    apply sub_ite_eq
    · simp only [List.mem_range, List.mem_range'_1]
      rcases Nat.lt_trichotomy k v with hlt | heq | hgt
      · rw [g.abs_adj_lt hlt]
        simp only [Dense.bit, Bool.and_eq_true, decide_eq_true_eq]
        constructor
        · rintro (⟨_, hb⟩ | ⟨⟨hc, _⟩, _⟩)
          · exact ⟨hv, hb⟩
          · omega
        · rintro ⟨_, hb⟩; exact Or.inl ⟨hlt, hb⟩
      · subst heq
        rw [g.abs_wf.irrefl]
        constructor
        · rintro (⟨hc, _⟩ | ⟨⟨hc, _⟩, _⟩) <;> omega
        · intro hc; cases hc
      · rw [g.abs_wf.symm, g.abs_adj_lt hgt]
        simp only [Dense.bit, Bool.and_eq_true, decide_eq_true_eq]
        constructor
        · rintro (⟨hc, _⟩ | ⟨_, hb⟩)
          · omega
          · exact ⟨hk, hb⟩
        · rintro ⟨_, hb⟩; exact Or.inr ⟨by omega, hb⟩
    · simp only [List.mem_range, List.mem_range'_1]
      rintro ⟨⟨h1, _⟩, ⟨h2, _⟩, _⟩
      omega

theorem eraseAt_ok {α : Type} {a : Array α} {v : Nat} (hv : v < a.size) :
    ∃ a', eraseAt a v = .ok a' ∧ a'.size = a.size - 1 ∧ ∀ k, a'[k]? = a[up v k]? := by
  unfold eraseAt
  rw [if_pos (by omega)]
  refine ⟨_, rfl, ?_, ?_⟩
  · simp [Array.eraseIdxIfInBounds, hv]
  · intro k
    simp only [Array.eraseIdxIfInBounds, hv, dite_true]
    rw [Array.getElem?_eraseIdx]
    unfold up
    split <;> rfl

theorem Dense.removeVertex_spec {g : Dense} (h : g.WF) {v : Nat} (hv : v < g.n) :
    ∃ g', g.removeVertex v = .ok g' ∧ g'.WF ∧ g'.abs = removeVertexG g.abs v := by
  obtain ⟨d, hd, hds, hdg⟩ := Dense.rvDegrees_spec h hv
  obtain ⟨d', hd', hds', hdg'⟩ := eraseAt_ok (a := d) (v := v) (by omega)
  obtain ⟨e, he, hes, heg⟩ := Dense.rvEdges_spec h.edges_size hv
  unfold Dense.removeVertex
  rw [if_neg (by omega), h.deg_eq v hv]
  simp only
  rw [hd]
  simp only
  rw [hd']
  simp only
  rw [he]
  simp only
  refine ⟨_, rfl, ?_⟩
  have hwfG := removeVertexG_wf g.abs_wf (v := v) hv
  have habs : Dense.abs ⟨g.n - 1, g.m - (g.abs.deg v : Int), d', e⟩ = removeVertexG g.abs v := by
    refine G_ext_lt (Dense.abs_wf _) hwfG rfl ?_
    intro a b hab
    rw [Dense.abs_adj_lt _ hab]
    simp only [removeVertexG]
    rw [g.abs_adj_lt (up_lt_up hab)]
    by_cases hb : b < g.n - 1
    · have hub : up v b < g.n := by unfold up; split <;> omega
      have hbit : Dense.bit ⟨g.n - 1, g.m - (g.abs.deg v : Int), d', e⟩ a b = g.bit (up v a) (up v b) := by
        unfold Dense.bit
        simp only
        rw [Array.getD_eq_getD_getElem?, Array.getD_eq_getD_getElem?, heg a b hab hb]
      rw [hbit]; simp [hb, hub]
    · have hub : ¬ up v b < g.n := by unfold up; split <;> omega
      simp [hb, hub]
  refine ⟨⟨?_, ?_, ?_, ?_⟩, habs⟩
  · show d'.size = g.n - 1
    rw [hds', hds]
  · exact hes
  · rw [habs]
    have := m_removeVertexG g.abs_wf (v := v) hv
    show g.m - (g.abs.deg v : Int) = _
    rw [h.m_eq, ← this]; simp
  · intro k hk
    have hk' : k < g.n - 1 := hk
    have huk : up v k < g.n := by unfold up; split <;> omega
    rw [habs]
    show d'[k]? = _
    rw [hdg' k, hdg (up v k) huk]
    have := deg_removeVertexG g.abs (v := v) hv k
    rw [← this]; simp

end GraphRep
