import Mamba.Lemmas.CanonFWalk
import Mamba.Lemmas.CanonFCertJ
import Mamba.Lemmas.CanonFPruneTree
import Mamba.Lemmas.CanonFWorseTree
import Mamba.Lemmas.CanonFOrbitSound
import Mamba.Lemmas.CanonFH2Best
import Mamba.Lemmas.IRChildPos
/-!
# Coverage of the processed children of every stack frame (state-level invariant of the depth-first search)

For every stack frame (level `L`, target cell `st` of the tree node `nodeL vs L`, members `cellL vs L st` in ascending
order, visited in descending order) every PROCESSED child `w` is covered (`CovChild`): all leaves of the unpruned tree
below `childSt (nodeL vs L) st w` have a certificate `≤ currentBest` (`Complete`), or — only for a frame on the first-leaf
path — `w` is not the representative of its class in `firstLeafOrbits` (deferred to the representative).
The top frame of the stepping loops is "between two children": the members with index `≥ choices.head - st` are processed
(`incl = true`); in a frame whose child is being explored the members with a larger index are processed.
-/
namespace CanonF

/-- the test of Heuristic 2 for a frame whose tail of `path` is `ps` -/
def onFirstB (s : LS) (ps : List Nat) : Bool := decide (s.count > 0) && hasPrefix s.flPath.toList ps.reverse

section
variable (n : Nat) (nb : Nbrs) (rf : Nat) (r : IR.St)

def CovChild (s : LS) (vs : List Nat) (ps : List Nat) (st w : Nat) : Prop :=
  Complete n nb rf s.currentBest.toList (IR.childSt (irG n nb) rf (nodeL n nb rf r vs ps.length) st w) ∨
  (onFirstB s ps = true ∧ ∃ x : Int, s.flOrbits[w]? = some x ∧ x ≥ 0)

def CovFrames (s : LS) (vs : List Nat) : Bool → List Nat → List Nat → List (Nat × Nat) → Prop
  | _, [], [], [] => True
  | incl, _ :: ps, c :: cs, (st, _) :: ls =>
      (∀ i w, (if incl then c - st ≤ i else c - st < i) → (cellL n nb rf r vs ps.length st)[i]? = some w →
        CovChild n nb rf r s vs ps st w) ∧
      CovFrames s vs false ps cs ls
  | _, _, _, _ => False

end

theorem CovChild.congr {n : Nat} {nb : Nbrs} {rf : Nat} {r : IR.St} {s s' : LS} {vs vs' ps : List Nat} {st w : Nat}
    (h : CovChild n nb rf r s vs ps st w) (e1 : s'.currentBest = s.currentBest)
    (e2 : ∀ qs, onFirstB s' qs = onFirstB s qs) (e4 : s'.flOrbits = s.flOrbits)
    (ev : vs'.take ps.length = vs.take ps.length) :
    CovChild n nb rf r s' vs' ps st w := by
  unfold CovChild at *
  rw [e1, e2, e4, nodeL_congr ev]
  exact h

theorem onFirstB_congr {s s' : LS} (e2 : s'.count = s.count) (e3 : s'.flPath = s.flPath) (qs : List Nat) :
    onFirstB s' qs = onFirstB s qs := by
  unfold onFirstB; rw [e2, e3]

/-- `CovFrames` only looks at `currentBest`, the Heuristic-2 test, `firstLeafOrbits` and at the first `path.length`
entries of `vs` -/
theorem CovFrames.congr {n : Nat} {nb : Nbrs} {rf : Nat} {r : IR.St} {s s' : LS} {vs vs' : List Nat}
    (e1 : s'.currentBest = s.currentBest) (e2 : ∀ qs, onFirstB s' qs = onFirstB s qs)
    (e4 : s'.flOrbits = s.flOrbits) :
    ∀ (incl : Bool) (path choices : List Nat) (lv : List (Nat × Nat)),
      (∀ L, L < path.length → vs'.take L = vs.take L) →
      CovFrames n nb rf r s vs incl path choices lv → CovFrames n nb rf r s' vs' incl path choices lv := by
  intro incl path
  induction path generalizing incl with
  | nil => intro choices lv _ h; cases choices <;> cases lv <;> simp_all [CovFrames]
  | cons p ps ih =>
    intro choices lv hv h
    cases choices with
    | nil => simp [CovFrames] at h
    | cons c cs =>
      cases lv with
      | nil => simp [CovFrames] at h
      | cons x ls =>
        obtain ⟨st, sz⟩ := x
        simp only [CovFrames] at h ⊢
        have ev := hv ps.length (by simp)
        refine ⟨fun i w hi hw => ?_, ih false cs ls (fun L hL => hv L (by simp only [List.length_cons]; omega)) h.2⟩
        have hcell : cellL n nb rf r vs' ps.length st = cellL n nb rf r vs ps.length st := by
          unfold cellL; rw [nodeL_congr ev]
        rw [hcell] at hw
        exact (h.1 i w hi hw).congr e1 e2 e4 ev

/-- changing the top of `choices` from `c` to `c - 1` with the new member covered -/
theorem CovFrames.step_head {n : Nat} {nb : Nbrs} {rf : Nat} {r : IR.St} {s : LS} {vs : List Nat} {p c : Nat}
    {ps cs : List Nat} {st sz : Nat} {ls : List (Nat × Nat)}
    (h : CovFrames n nb rf r s vs true (p :: ps) (c :: cs) ((st, sz) :: ls)) (hc : st < c)
    (hnew : ∀ w, (cellL n nb rf r vs ps.length st)[c - 1 - st]? = some w → CovChild n nb rf r s vs ps st w) (p' : Nat) :
    CovFrames n nb rf r s vs true (p' :: ps) ((c - 1) :: cs) ((st, sz) :: ls) := by
  simp only [CovFrames] at h ⊢
  refine ⟨fun i w hi hw => ?_, h.2⟩
  simp only [if_true] at hi
  rcases Nat.lt_or_ge i (c - st) with hlt | hge
  · have : i = c - 1 - st := by omega
    subst this
    exact hnew w hw
  · exact h.1 i w (by simp only [if_true]; exact hge) hw

/-- the top frame turns from "between" (`c`) to "child `c - 1` being explored" -/
theorem CovFrames.start_child {n : Nat} {nb : Nbrs} {rf : Nat} {r : IR.St} {s : LS} {vs : List Nat} {p c : Nat}
    {ps cs : List Nat} {st sz : Nat} {ls : List (Nat × Nat)}
    (h : CovFrames n nb rf r s vs true (p :: ps) (c :: cs) ((st, sz) :: ls)) (hc : st < c) (p' : Nat) :
    CovFrames n nb rf r s vs false (p' :: ps) ((c - 1) :: cs) ((st, sz) :: ls) := by
  simp only [CovFrames] at h ⊢
  refine ⟨fun i w hi hw => ?_, h.2⟩
  simp only [Bool.false_eq_true, if_false] at hi
  exact h.1 i w (by simp only [if_true]; omega) hw

/-- the child being explored is covered: the top frame turns to "between" -/
theorem CovFrames.finish_child {n : Nat} {nb : Nbrs} {rf : Nat} {r : IR.St} {s : LS} {vs : List Nat} {p c : Nat}
    {ps cs : List Nat} {st sz : Nat} {ls : List (Nat × Nat)}
    (h : CovFrames n nb rf r s vs false (p :: ps) (c :: cs) ((st, sz) :: ls))
    (hnew : ∀ w, (cellL n nb rf r vs ps.length st)[c - st]? = some w → CovChild n nb rf r s vs ps st w) :
    CovFrames n nb rf r s vs true (p :: ps) (c :: cs) ((st, sz) :: ls) := by
  simp only [CovFrames] at h ⊢
  refine ⟨fun i w hi hw => ?_, h.2⟩
  simp only [if_true] at hi
  rcases Nat.lt_or_ge (c - st) i with hlt | hge
  · exact h.1 i w (by simp only [Bool.false_eq_true, if_false]; exact hlt) hw
  · have : i = c - st := by omega
    subst this
    exact hnew w hw

end CanonF
