import Mamba.Lemmas.CanonFSortedDef
import Mamba.Lemmas.CanonFReset
/-!
# The initial partition (`NewOrderedPartition` / `Reset`) has every bin in ascending order
-/
namespace CanonF

/-- neighbouring entries of a sorted duplicate-free class are strictly ascending -/
theorem sortNat_adjacent_lt (c : List Nat) (hnd : c.Nodup) (q u v : Nat)
    (hu : (sortNat c)[q]? = some u) (hv : (sortNat c)[q + 1]? = some v) : u < v := by
  obtain ⟨h1, e1⟩ := List.getElem?_eq_some_iff.1 hu
  obtain ⟨h2, e2⟩ := List.getElem?_eq_some_iff.1 hv
  have hs : (sortNat c).Pairwise (fun a b => decide (a ≤ b) = true) :=
    List.pairwise_mergeSort (fun a b c h1 h2 => by simp at *; omega) (fun a b => by simp; omega) c
  have hle := List.pairwise_iff_getElem.1 hs q (q + 1) h1 h2 (by omega)
  have hnd' : (sortNat c).Nodup := (sortNat_perm c).nodup_iff.2 hnd
  have hne : (sortNat c)[q] ≠ (sortNat c)[q + 1] := by
    intro e; have := (List.getElem_inj hnd').1 e; omega
  simp at hle
  omega

/-- in the flattened sorted classes, two neighbouring positions not separated by a running sum are ascending -/
theorem blocks_sorted (cs : List (List Nat)) : ∀ (off : Nat), cs.flatten.Nodup → ∀ q u v,
    (cs.map sortNat).flatten[q]? = some u → (cs.map sortNat).flatten[q + 1]? = some v →
    off + q + 1 ∉ psums off (cs.map List.length) → u < v := by
  induction cs with
  | nil => intro off _ q u v h; simp at h
  | cons c cs ih =>
    intro off hnd q u v hu hv hd
    rw [List.flatten_cons, List.nodup_append] at hnd
    obtain ⟨hc, hnd2, _⟩ := hnd
    have hlc : (sortNat c).length = c.length := length_sortNat c
    rw [List.map_cons, List.flatten_cons, List.getElem?_append, hlc] at hu hv
    rw [List.map_cons, psums, List.mem_cons, not_or] at hd
    obtain ⟨hd1, hd2⟩ := hd
    by_cases h1 : q + 1 < c.length
    · rw [if_pos (by omega)] at hu
      rw [if_pos h1] at hv
      exact sortNat_adjacent_lt c hc q u v hu hv
    · have h2 : c.length ≤ q := by omega
      rw [if_neg (by omega)] at hu
      rw [if_neg (by omega), show q + 1 - c.length = (q - c.length) + 1 by omega] at hv
      exact ih (off + c.length) hnd2 (q - c.length) u v hu hv
        (by rw [show off + c.length + (q - c.length) + 1 = off + q + 1 by omega]; exact hd2)

theorem InitSpec.binsSorted {n : Nat} {vc : Classes} {op : OP} (hc : ClassesOK n vc) (hs : InitSpec n vc op) :
    BinsSorted op := by
  intro p u v hu hv hd
  rw [hs.order] at hu hv
  rw [hs.bd] at hd
  cases vc with
  | none =>
    simp only [ordL] at hu hv
    obtain ⟨h1, e1⟩ := List.getElem?_eq_some_iff.1 hu
    obtain ⟨h2, e2⟩ := List.getElem?_eq_some_iff.1 hv
    simp at e1 e2
    omega
  | some cls =>
    simp only [ordL] at hu hv
    simp only [bdL] at hd
    have hnd : cls.flatten.Nodup := hc.1.nodup_iff.2 List.nodup_range
    exact blocks_sorted cls 0 hnd p u v hu hv (by simpa using hd)

theorem new_binsSorted {n m : Nat} {vc : Classes} {op : OP} (hn : 0 < n) (hc : ClassesOK n vc)
    (h : newOrderedPartition n m vc = .ok (some op)) : BinsSorted op := by
  obtain ⟨op', h', hs, _⟩ := new_spec (m := m) hn hc
  rw [h] at h'
  obtain rfl : op = op' := Option.some.inj (Outcome.ok.inj h')
  exact hs.binsSorted hc

theorem reset_binsSorted {n m : Nat} {vc : Classes} (op : OP) {opR : OP} (hn : 0 < n) (hc : ClassesOK n vc)
    (h : reset op n m vc = .ok opR)
    (c1 : n ≤ op.order.data.size) (c2 : n ≤ op.inCell.data.size) (c3 : n ≤ op.binDividers.data.size)
    (c4 : n ≤ op.binAges.data.size) (c5 : n ≤ op.binsToCheck.data.size) (c6 : m ≤ op.value.data.size) :
    BinsSorted opR := by
  obtain ⟨op', h', hs, _⟩ := reset_spec (m := m) op hn hc c1 c2 c3 c4 c5 c6
  rw [h] at h'
  obtain rfl : opR = op' := Outcome.ok.inj h'
  exact hs.binsSorted hc

end CanonF
