import Mamba.Lemmas.CanonFTotalLoop
import Mamba.Lemmas.CanonFTotalPot
/-!
# Totality of the main loop (`mainLoopT`)
-/
namespace CanonF

set_option maxHeartbeats 1000000 in
/-- the main loop returns within `mainPot + 1` iterations — mirror of `mainLoopJ` -/
theorem mainLoopT (hst : StablePerm) {n m : Nat} {nb : Nbrs} {JA JN JS : List (Nat × Nat) → LS → Prop}
    {JM : List (Nat × Nat) → Bool → LS → Prop} (hJ : MainJ n m nb JA JN JS JM) (hT : MainT n m nb JA JN JS JM) :
    ∀ (fuel : Nat) (worse : Bool) (s : LS) (lv : List (Nat × Nat)), MInv n m nb s → (s.count = 0 → worse = false) →
      LevelsOK s.op s.path s.choices lv → JM lv worse s → mainPot n worse s < fuel →
      ∃ s', mainLoop nb n m fuel worse s = .ok s' := by
  intro fuel
  induction fuel with
  | zero => intro worse s lv _ _ _ _ h; omega
  | succ f ih =>
    intro worse s lv hI hw hlv hM hpot
    rw [mainLoop]
    have hnode := node_step hI hw hlv
    obtain ⟨s1, hs1⟩ := hT.node lv worse s hI hw hlv hM
    have hnp := hT.nodePot lv worse s s1 hI hw hlv hM hs1
    rw [hs1]
    simp only
    obtain ⟨_, c1, _, g1, esc, f1, p1⟩ := hnode s1 hs1
    obtain ⟨lv1, l1, ja1, jn1⟩ := hJ.node lv worse s s1 hI hw hlv hM hs1
    obtain ⟨b, s2, hst2⟩ := stepLoopT hJ.step hT.step s1.path.length s1 lv1 c1 l1 g1 ja1 jn1 (Nat.le_refl _)
    rw [hst2]
    obtain ⟨_, c2, fr2, _, g2, t2, e2, _, _⟩ := stepLoop_spec (StepQ.trivial n nb s1.currentBest s1.firstLeaf) _ s1 lv1 b s2 c1 l1 g1 rfl rfl True.intro (fun _ => True.intro) hst2
    obtain ⟨lv2, l2, js2, ja2⟩ := stepLoopJ_spec hJ.step _ s1 lv1 b s2 c1 l1 g1 ja1 jn1 hst2
    have hcnt : s2.count = s1.count := by rw [fr2]
    have hcb : s2.currentBest = s1.currentBest := by rw [fr2]
    have hsc : s2.sc = s1.sc := by rw [fr2]
    cases b with
    | false => exact ⟨s2, rfl⟩
    | true =>
      simp only
      have hskip : s2.skipDeage = false := t2 rfl
      have hage2 : s2.op.age = s2.path.length := by
        rw [hskip] at g2; simpa using g2
      have htc : n ≤ s2.sc.timesSeen.data.size := by rw [hsc, esc]; exact hI.tsCap
      have htl : s2.sc.timesSeen.len = n := by rw [hsc, esc]; exact hI.tsLen
      obtain ⟨r3, hr⟩ := hT.refine lv2 s2 c2 l2 hage2 hskip htl (js2 rfl)
      obtain ⟨worse', op', sc'⟩ := r3
      rw [hr]
      simp only
      obtain ⟨r1, r2, r3, r4, _, _, _, z1, z2, z3, _⟩ := refine_inv hst c2.part c2.age c2.scr hr
      have hM' := hJ.refine lv2 s2 worse' op' sc' c2 l2 hage2 hskip htl (js2 rfl) hr
      have hsp := stepLoop_pot (n := n) (nb := nb) _ s1 true s2 hst2 rfl
      refine ih worse' _ lv2 ?_ ?_ ?_ hM' ?_
      · constructor
        · constructor
          · exact r1
          · exact r2
          · exact scratch_rewrap c2.scr htc z1 z2 z3
          · exact c2.bestWf
          · exact c2.bestLen
          · exact c2.bestPerm
        · exact ⟨lv2, LevelsOK_frame (fun a ha => oldDivs_of_lt r4 a ha) _ _ _ (by show ((s2.path.length : Nat) : Int) ≤ s2.op.age; omega) l2⟩
        · show op'.age = _; rw [r3]; exact hage2
        · exact hskip
        · show n ≤ sc'.timesSeen.data.size; omega
        · rfl
        · intro h0
          have h0' : s1.count = 0 := by
            have : s2.count = 0 := h0
            omega
          show s2.currentBest.len = 0
          rw [hcb]; exact (p1 h0').1
        · intro hpos
          have : 0 < s1.count := by
            have : 0 < s2.count := hpos
            omega
          show s2.currentBest.len = m
          rw [hcb]; exact f1 this
      · intro h0
        have h0' : s1.count = 0 := by
          have : s2.count = 0 := h0
          omega
        have hcb0 : s2.currentBest.len = 0 := by rw [hcb]; exact (p1 h0').1
        exact refine_not_worse hcb0 rfl hr
      · exact LevelsOK_frame (fun a ha => oldDivs_of_lt r4 a ha) _ _ _
          (by show ((s2.path.length : Nat) : Int) ≤ s2.op.age; omega) l2
      · show (if worse' then 0 else slots n s2.path.length) + pathPot n s2.path < f
        have : (if worse' then 0 else slots n s2.path.length) ≤ slots n s2.path.length := by
          split <;> omega
        omega

end CanonF
