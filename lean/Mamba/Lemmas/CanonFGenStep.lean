import Mamba.Lemmas.CanonFGenBy
import Mamba.Lemmas.CanonFGenFix
import Mamba.Lemmas.CanonFGenBase
/-!
# The step of the stabiliser chain (`autgen_step`)
-/
namespace CanonF
open Relation

/-- the vertices of a path are vertices -/
theorem gst_path_lt {n : Nat} {nb : Nbrs} {rf : Nat} {r : IR.St} {vs : List Nat} (hp : IR.IsPath (irG n nb) rf r vs)
    {j v : Nat} (hv : vs[j]? = some v) : v < n := by
  have hpj : IR.IsPath (irG n nb) rf r (vs.take (j + 1)) := IR.isPath_take vs r _ hp
  have e : vs.take (j + 1) = vs.take j ++ [v] := by rw [List.take_add_one, hv]; rfl
  rw [e] at hpj
  obtain ⟨_, t, _, hvm⟩ := (IR.isPath_snoc (vs.take j) r v).1 hpj
  exact (IR.mem_cellMembers.1 hvm).1

/-- a recorded generator is an automorphism -/
theorem gst_recGen_aut {n m : Nat} {nb : Nbrs} {s : LS} (hg : GInv n m nb s) {γ : List Nat} (h : RecGen s γ) :
    IsAutL nb n γ := by
  obtain ⟨k, g, hk, hgk, rfl⟩ := h
  obtain ⟨g', e, ha⟩ := hg.gens k hk
  rw [hgk] at e
  cases e
  exact ha

section
variable {n m : Nat} {nb : Nbrs} {rf : Nat} {r : IR.St}

set_option maxHeartbeats 1000000 in
/-- the step of the stabiliser chain: at a node `nodeL vsF L` of the first-leaf path that is covered (`ACov`), whose
colouring is preserved by all recorded generators, generation of the stabiliser of level `L + 1` gives that of level `L` -/
theorem autgen_step (hnb : NbOK nb n) (hA : IR.InvA (irG n nb) r) (hD : IR.InvD (irG n nb) r) {gh : Gh} {s : LS} {L : Nat}
    (hF : LeafRec n nb rf r gh.vsF gh.oF s.firstLeaf.toList s.flPermInv s.flPath.toList) (hL : L < gh.vsF.length)
    (hpos : 0 < s.count) (hg : GInv n m nb s) (hGA : GlobalA n gh s)
    (he1 : ∀ k, k < s.ngens → ∀ γ, s.gens[k]? = some γ → ∀ u, u < n →
      IR.col (nodeL n nb rf r gh.vsF L).c (γ.toList.getD u 0) = IR.col (nodeL n nb rf r gh.vsF L).c u)
    (hcov : ACov n nb rf (lFof n gh) s.firstLeaf.toList (ORel s) (nodeL n nb rf r gh.vsF L))
    (hnext : AutGen n nb r gh s (L + 1)) : AutGen n nb r gh s L := by
  have _ := hGA
  intro γ hγ hcol hfix
  have hSp : ∀ γ', RecGen s γ' → γ'.Perm (List.range n) := fun γ' h => (gst_recGen_aut hg h).1
  -- the vertex `w = vsF[L]`
  have hwv : gh.vsF[L]? = some (gh.vsF[L]) := List.getElem?_eq_getElem hL
  generalize gh.vsF[L] = w at hwv
  have hwn : w < n := gst_path_lt hF.path hwv
  have hγw : γ.getD w 0 < n := perm_getD_lt hγ.1 hwn
  -- `w` and `γ w` are in the same class of `firstLeafOrbits`
  have hcov' : ACov n nb rf (IR.tab n (fun v => gh.oF.idxOf v)) (certPos nb gh.oF n) (ORel s)
      (nodeL n nb rf r gh.vsF L) := by
    rw [← hF.cert]; exact hcov
  have horel : ORel s w (γ.getD w 0) :=
    acov_node_aut hnb hF.path hF.leaf hF.col hF.perm (Nat.le_of_lt hL) hcov' hγ hcol hfix w hwn
  -- a chain of generator steps from `w` to `γ w`
  have hchain : EqvGen (fun x y => ∃ γ', RecGen s γ' ∧ γ'[x]? = some y) w (γ.getD w 0) := by
    apply eqvGen_of_imp _ ((hg.orb hpos).2 w (γ.getD w 0) hwn hγw horel)
    rintro x y ⟨k, g, hk, hgk, hxy⟩
    exact EqvGen.rel _ _ ⟨g.toList, ⟨k, g, hk, hgk, rfl⟩, hxy⟩
  obtain ⟨β, hβ, hβw⟩ := genBy_of_eqvGen hSp hwn hchain
  have hβp : β.Perm (List.range n) := GenBy.perm hSp hβ
  have hβa : IsAutL nb n β := GenBy.isAut (fun γ' h => gst_recGen_aut hg h) hβ
  -- `β` preserves the colouring of the node, hence fixes the path and preserves the root colouring
  have hβc : ∀ v, v < n → IR.col (nodeL n nb rf r gh.vsF L).c (β.getD v 0) = IR.col (nodeL n nb rf r gh.vsF L).c v := by
    apply GenBy.pres hSp _ _ hβ
    rintro γ' ⟨k, g, hk, hgk, rfl⟩ v hv
    exact he1 k hk g hgk v hv
  have hβfix := pres_node_fix_path hnb hA hD hF.path (Nat.le_of_lt hL) hβp hβc
  have hβroot := pres_node_pres_root hnb hF.path hβp hβc
  have hip := invL_perm hβp
  -- `δ = β⁻¹ ∘ γ`
  have hδ : GenBy (RecGen s) n (compL n (invL n β) γ) := by
    apply hnext _ (isAutL_comp (isAutL_inv hβa) hγ)
    · intro v hv
      have hγv := perm_getD_lt hγ.1 hv
      rw [compL_getD hv, ← hcol v hv]
      have := hβroot _ (perm_getD_lt hip hγv)
      rw [invL_right hβp hγv] at this
      exact this.symm
    · intro j v hj hv
      have hvn : v < n := gst_path_lt hF.path hv
      rw [compL_getD hvn]
      rcases Nat.lt_or_ge j L with hlt | hge
      · rw [hfix j v hlt hv]
        have := invL_left hβp hvn
        rw [hβfix j v hlt hv] at this
        exact this
      · have hjL : j = L := by omega
        subst hjL
        rw [hwv] at hv
        cases hv
        rw [← hβw]
        exact invL_left hβp hwn
  exact genBy_factor hβp hγ.1 hβ hδ

end
end CanonF
