import Mathlib.Data.List.Chain
import Mathlib.Data.List.Lex
import Mathlib.Data.List.Perm.Subperm
import Mamba.Model.IterPerm
import Mamba.Lemmas.IterBase
import Mamba.Lemmas.IterGeneric

/-!
# `LexicographicPermutations` / `MultisetPermutations` (model `Iter.Lex`)

* Spec (`Iter.Spec`): `nextPerm` (textbook next permutation, via `swapFirstGt`), the family `multiPermList freq`
  (`lexPermList n` = the case `freq = [1, …, 1]`) as an explicit recursive list, `multiSorted freq` the sorted arrangement.
* Stage A: `Lex.next_spec` — on every array one `Next` (after the first) computes `nextPerm`, never panics.
* Stage B: `nextPerm_lt_perm`, `nextPerm_minimal`, `nextPerm_eq_none_iff`, `not_lt_of_nonincreasing`.
* Stage C: `mem_multiPermList`, `multiPermList_sorted`, `multiPermList_chain`, `Lex.enumerates_core`,
  `Lex.enumerates_lemma`, `Lex.enumerates_multi_lemma`.
-/
namespace Iter.Spec

/-- In a list `r` (thought of as non-decreasing: the reversed non-increasing suffix) exchange `x` with the first
element greater than `x`; `none` if there is no such element. -/
def swapFirstGt (x : Int) : List Int → Option (Int × List Int)
  | [] => none
  | y :: r =>
    if x < y then some (y, x :: r)
    else match swapFirstGt x r with
      | some (w, r') => some (w, y :: r')
      | none => none

/-- the textbook "next permutation" (lexicographic successor among the arrangements of a multiset) -/
def nextPerm : List Int → Option (List Int)
  | [] => none
  | x :: t =>
    match nextPerm t with
    | some t' => some (x :: t')
    | none =>
      match swapFirstGt x t.reverse with
      | some (w, r') => some (w :: r')
      | none => none

/-! ### the family as an explicit list -/
/-- `multiPermAux k freq`: all sequences of length `k` that use the value `i` at most `freq[i]` times, in
lexicographic order (for each value `i` that is still available, in increasing order: `i ::` the arrangements of
the rest). -/
def multiPermAux : Nat → List Int → List (List Int)
  | 0, _ => [[]]
  | k+1, freq => (List.range freq.length).flatMap (fun i =>
      if 0 < freq.getD i 0 then
        (multiPermAux k (freq.set i (freq.getD i 0 - 1))).map (fun t => (i : Int) :: t)
      else [])

/-- the sorted arrangement of the multiset with `freq[i]` copies of `i` -/
def multiSorted (freq : List Int) : List Int :=
  (freq.zipIdx).flatMap (fun (f, i) => List.replicate f.toNat (i : Int))

/-- all arrangements of the multiset with `freq[i]` copies of `i`, in lexicographic order -/
def multiPermList (freq : List Int) : List (List Int) := multiPermAux (freq.foldl (· + ·) 0).toNat freq

/-- all permutations of `0..n-1` in lexicographic order -/
def lexPermList (n : Int) : List (List Int) := multiPermList (List.replicate n.toNat 1)

end Iter.Spec

namespace Iter
open Spec


theorem swap_split (p m s : Sl) (x y : Int) (i j : Int) (hi : i = p.length) (hj : j = p.length + m.length + 1) :
    swap (p ++ x :: (m ++ y :: s)) i j = .ok (p ++ y :: (m ++ x :: s)) := by
  subst hi hj
  have e1 : p ++ x :: (m ++ y :: s) = (p ++ x :: m) ++ y :: s := by simp
  have l1 : ((p.length : Int) + m.length + 1) = ((p ++ x :: m).length : Int) := by simp; omega
  have g2 : get (p ++ x :: (m ++ y :: s)) ((p.length : Int) + m.length + 1) = .ok y := by
    rw [e1, l1, get_append_length]
  have e2 : p ++ y :: (m ++ y :: s) = (p ++ y :: m) ++ y :: s := by simp
  have l2 : ((p.length : Int) + m.length + 1) = ((p ++ y :: m).length : Int) := by simp; omega
  have s2 : set (p ++ y :: (m ++ y :: s)) ((p.length : Int) + m.length + 1) x = .ok (p ++ y :: (m ++ x :: s)) := by
    rw [e2, l2, set_append_length]; simp
  unfold swap
  simp only [get_append_length, g2, Outcome.bind_ok, set_append_length, s2]

theorem swap_split' (p m s : Sl) (x y : Int) (i j : Int) (hi : i = p.length) (hj : j = p.length + m.length + 1) :
    swap (p ++ x :: (m ++ y :: s)) j i = .ok (p ++ y :: (m ++ x :: s)) := by
  subst hi hj
  have e1 : p ++ x :: (m ++ y :: s) = (p ++ x :: m) ++ y :: s := by simp
  have l1 : ((p.length : Int) + m.length + 1) = ((p ++ x :: m).length : Int) := by simp; omega
  have g2 : get (p ++ x :: (m ++ y :: s)) ((p.length : Int) + m.length + 1) = .ok y := by
    rw [e1, l1, get_append_length]
  have s1 : set (p ++ x :: (m ++ y :: s)) ((p.length : Int) + m.length + 1) x = .ok (p ++ x :: (m ++ x :: s)) := by
    rw [e1, l1, set_append_length]; simp
  unfold swap
  simp only [get_append_length, g2, Outcome.bind_ok, set_append_length, s1]

theorem rev_spec : ∀ (f : Nat) (m p s : Sl) (k l : Int), m.length < f → k = p.length →
    l = p.length + m.length - 1 →
    Lex.rev f k l (p ++ (m ++ s)) = .ok (p ++ (m.reverse ++ s)) := by
  intro f
  induction f with
  | zero => intro m p s k l h; omega
  | succ f ih =>
    intro m p s k l hf hk hl
    unfold Lex.rev
    cases m with
    | nil =>
      have : ¬ k < l := by simp at hl; omega
      simp [this]
    | cons e1 m =>
      rcases List.eq_nil_or_concat m with rfl | ⟨m', e2, rfl⟩
      · have : ¬ k < l := by simp at hl; omega
        simp [this]
      · have hkl : k < l := by simp at hl; omega
        rw [List.concat_eq_append] 
        have e : p ++ (e1 :: (m' ++ [e2]) ++ s) = p ++ e1 :: (m' ++ e2 :: s) := by simp
        rw [e, swap_split p m' s e1 e2 k l hk (by simp at hl; omega)]
        simp only [hkl, if_true, Outcome.bind_ok]
        have := ih m' (p ++ [e2]) (e1 :: s) (k + 1) (l - 1) (by simp at hf; omega) (by simp [hk])
          (by simp at hl ⊢; omega)
        simp only [List.append_assoc, List.cons_append, List.nil_append] at this
        rw [this]
        simp

theorem findL_spec (n j : Int) : ∀ (r1 : List Int) (l : Nat) (pre s2 : Sl) (x w : Int) (r' : List Int),
    swapFirstGt x r1 = some (w, r') → j = pre.length → l = pre.length + r1.length →
    Lex.findL n j l (pre ++ x :: (r1.reverse ++ s2)) =
      swap (pre ++ w :: (r'.reverse ++ s2)) (n - 1) (j + 1) := by
  intro r1
  induction r1 with
  | nil => intro l pre s2 x w r' h; simp [swapFirstGt] at h
  | cons e r1 ih =>
    intro l pre s2 x w r' h hj hl
    simp only [List.length_cons] at hl
    obtain ⟨l', rfl⟩ : ∃ l', l = l' + 1 := ⟨pre.length + r1.length, by omega⟩
    unfold Lex.findL
    have g1 : get (pre ++ x :: ((e :: r1).reverse ++ s2)) j = .ok x := by rw [hj]; simp
    have e1 : pre ++ x :: ((e :: r1).reverse ++ s2) = (pre ++ x :: r1.reverse) ++ e :: s2 := by simp
    have l1 : ((l' + 1 : Nat) : Int) = ((pre ++ x :: r1.reverse).length : Int) := by simp; omega
    have g2 : get (pre ++ x :: ((e :: r1).reverse ++ s2)) ((l' + 1 : Nat) : Int) = .ok e := by
      rw [e1, l1, get_append_length]
    simp only [g1, g2, Outcome.bind_ok]
    simp only [swapFirstGt] at h
    by_cases hx : x < e
    · have hx' : ¬ x ≥ e := by omega
      simp only [hx, if_true, Option.some.injEq, Prod.mk.injEq] at h
      obtain ⟨rfl, rfl⟩ := h
      simp only [hx', if_false]
      have e2 : pre ++ x :: ((e :: r1).reverse ++ s2) = pre ++ x :: (r1.reverse ++ e :: s2) := by simp
      rw [e2, swap_split pre r1.reverse s2 x e j _ hj (by simp; omega)]
      simp
    · have hx' : x ≥ e := by omega
      simp only [hx, if_false] at h
      simp only [hx', if_true]
      cases hs : swapFirstGt x r1 with
      | none => simp [hs] at h
      | some wr =>
        obtain ⟨w', r''⟩ := wr
        simp only [hs, Option.some.injEq, Prod.mk.injEq] at h
        obtain ⟨rfl, rfl⟩ := h
        have := ih l' pre (e :: s2) x w' r'' hs hj (by omega)
        simp only [List.reverse_cons, List.append_assoc, List.cons_append, List.nil_append]
        exact this

theorem swapFirstGt_length (x : Int) : ∀ (r : List Int) (w : Int) (r' : List Int),
    swapFirstGt x r = some (w, r') → r'.length = r.length := by
  intro r
  induction r with
  | nil => intro w r' h; simp [swapFirstGt] at h
  | cons e r ih =>
    intro w r' h
    simp only [swapFirstGt] at h
    by_cases hx : x < e
    · simp only [hx, if_true, Option.some.injEq, Prod.mk.injEq] at h
      obtain ⟨_, rfl⟩ := h
      simp
    · simp only [hx, if_false] at h
      cases hs : swapFirstGt x r with
      | none => simp [hs] at h
      | some wr =>
        obtain ⟨w', r''⟩ := wr
        simp only [hs, Option.some.injEq, Prod.mk.injEq] at h
        obtain ⟨_, rfl⟩ := h
        simp [ih w' r'' hs]

theorem swapFirstGt_eq_none_iff (x : Int) : ∀ r : List Int, swapFirstGt x r = none ↔ ∀ e ∈ r, e ≤ x := by
  intro r
  induction r with
  | nil => simp [swapFirstGt]
  | cons e r ih =>
    simp only [swapFirstGt, List.mem_cons, forall_eq_or_imp]
    by_cases hx : x < e
    · simp only [hx, if_true]
      constructor
      · intro h; simp at h
      · intro h; omega
    · simp only [hx, if_false]
      cases hs : swapFirstGt x r with
      | none =>
        simp only [true_iff]
        exact ⟨by omega, ih.mp hs⟩
      | some wr =>
        simp only [reduceCtorEq, false_iff]
        intro h
        have := ih.mpr h.2
        simp [hs] at this

theorem nextPerm_eq_none_iff : ∀ a : List Int, nextPerm a = none ↔ a.Pairwise (fun u v => v ≤ u) := by
  intro a
  induction a with
  | nil => simp [nextPerm]
  | cons x t ih =>
    simp only [nextPerm, List.pairwise_cons]
    cases hn : nextPerm t with
    | some t' =>
      simp only [reduceCtorEq, false_iff]
      intro h
      have := ih.mpr h.2
      simp [hn] at this
    | none =>
      have hp := ih.mp hn
      cases hs : swapFirstGt x t.reverse with
      | none =>
        have := (swapFirstGt_eq_none_iff x _).mp hs
        simp only [true_iff]
        exact ⟨fun e he => this e (by simpa using he), hp⟩
      | some wr =>
        simp only [reduceCtorEq, false_iff]
        intro h
        have := (swapFirstGt_eq_none_iff x t.reverse).mpr (fun e he => h.1 e (by simpa using he))
        simp [hs] at this

theorem nextPerm_append_some (t t' : List Int) (h : nextPerm t = some t') :
    ∀ pre : List Int, nextPerm (pre ++ t) = some (pre ++ t') := by
  intro pre
  induction pre with
  | nil => simpa using h
  | cons x pre ih => simp [nextPerm, ih]

theorem nextPerm_cons_of_none (x : Int) (t : List Int) (h : nextPerm t = none) :
    nextPerm (x :: t) = (swapFirstGt x t.reverse).map (fun p => p.1 :: p.2) := by
  simp only [nextPerm, h]
  cases swapFirstGt x t.reverse <;> rfl

/-- result of `scan` expressed through `nextPerm` -/
def scanRes (a : List Int) : Sl × Bool :=
  match nextPerm a with
  | some b => (b, true)
  | none => (a, false)

theorem scan_spec (n : Int) : ∀ (j : Nat) (pre suf : Sl), pre.length = j →
    suf.Pairwise (fun u v => v ≤ u) → 2 ≤ suf.length → n = ((pre ++ suf).length : Int) →
    Lex.scan n j (pre ++ suf) = .ok (scanRes (pre ++ suf)) := by
  intro j
  induction j with
  | zero =>
    intro pre suf hp hs _ _
    have : pre = [] := List.length_eq_zero_iff.mp hp
    subst this
    simp [Lex.scan, scanRes, (nextPerm_eq_none_iff suf).mpr hs]
  | succ j ih =>
    intro pre suf hp hs h2 hn
    obtain ⟨pre', x, rfl⟩ : ∃ p a, pre = p ++ [a] :=
      ⟨pre.dropLast, pre.getLast (by intro h; simp [h] at hp), by simp [List.dropLast_append_getLast]⟩
    simp only [List.length_append, List.length_cons, List.length_nil, Nat.zero_add,
      Nat.add_right_cancel_iff] at hp
    obtain ⟨y, suf', rfl⟩ : ∃ y s, suf = y :: s := by
      cases suf with
      | nil => simp at h2
      | cons y s => exact ⟨y, s, rfl⟩
    have e1 : pre' ++ [x] ++ y :: suf' = pre' ++ x :: y :: suf' := by simp
    rw [e1]
    unfold Lex.scan
    have g1 : get (pre' ++ x :: y :: suf') (j : Int) = .ok x := by rw [← hp]; simp
    have g2 : get (pre' ++ x :: y :: suf') ((j + 1 : Nat) : Int) = .ok y := by
      have : pre' ++ x :: y :: suf' = (pre' ++ [x]) ++ y :: suf' := by simp
      rw [this, show ((j + 1 : Nat) : Int) = ((pre' ++ [x]).length : Int) by simp [hp], get_append_length]
    simp only [g1, g2, Outcome.bind_ok]
    by_cases hxy : x ≥ y
    · simp only [hxy, if_true]
      have hs' : (x :: y :: suf').Pairwise (fun u v => v ≤ u) := by
        rw [List.pairwise_cons] at hs ⊢
        refine ⟨?_, List.pairwise_cons.mpr hs⟩
        intro e he
        rcases List.mem_cons.mp he with rfl | he
        · exact hxy
        · have := hs.1 e he; omega
      exact ih pre' (x :: y :: suf') hp hs' (by simp) (by simp at hn ⊢; omega)
    · simp only [hxy, if_false]
      have hxy' : x < y := by omega
      obtain ⟨mid, z, rfl⟩ : ∃ m z, suf' = m ++ [z] := by
        rcases List.eq_nil_or_concat suf' with rfl | ⟨m, z, rfl⟩
        · simp at h2
        · exact ⟨m, z, by simp⟩
      have hnp : nextPerm (y :: (mid ++ [z])) = none := (nextPerm_eq_none_iff _).mpr hs
      have hn' : n = (j : Int) + 3 + mid.length := by simp at hn; omega
      have g3 : get (pre' ++ x :: y :: (mid ++ [z])) (n - 1) = .ok z := by
        have : pre' ++ x :: y :: (mid ++ [z]) = (pre' ++ x :: y :: mid) ++ z :: [] := by simp
        rw [this, show n - 1 = ((pre' ++ x :: y :: mid).length : Int) by simp; omega, get_append_length]
      simp only [g3, Outcome.bind_ok]
      have hrev : (y :: (mid ++ [z])).reverse = z :: (mid.reverse ++ [y]) := by simp
      have hnx : nextPerm (pre' ++ x :: y :: (mid ++ [z])) =
          (swapFirstGt x (z :: (mid.reverse ++ [y]))).map (fun p => pre' ++ p.1 :: p.2) := by
        have := nextPerm_cons_of_none x _ hnp
        rw [hrev] at this
        cases hsw : swapFirstGt x (z :: (mid.reverse ++ [y])) with
        | none =>
          have := (swapFirstGt_eq_none_iff x _).mp hsw y (by simp)
          omega
        | some wr =>
          rw [hsw] at this
          simp only [Option.map_some] at this ⊢
          exact nextPerm_append_some _ _ this pre'
      simp only [scanRes, hnx]
      by_cases hxz : x < z
      · simp only [hxz, if_true]
        have s1 : set (pre' ++ x :: y :: (mid ++ [z])) (j : Int) z = .ok (pre' ++ z :: y :: (mid ++ [z])) := by
          rw [← hp]; simp
        have s2 : set (pre' ++ z :: y :: (mid ++ [z])) ((j + 1 : Nat) : Int) x =
            .ok (pre' ++ z :: x :: (mid ++ [z])) := by
          have : pre' ++ z :: y :: (mid ++ [z]) = (pre' ++ [z]) ++ y :: (mid ++ [z]) := by simp
          rw [this, show ((j + 1 : Nat) : Int) = ((pre' ++ [z]).length : Int) by simp [hp], set_append_length]
          simp
        have s3 : set (pre' ++ z :: x :: (mid ++ [z])) (n - 1) y = .ok (pre' ++ z :: x :: (mid ++ [y])) := by
          have : pre' ++ z :: x :: (mid ++ [z]) = (pre' ++ z :: x :: mid) ++ z :: [] := by simp
          rw [this, show n - 1 = ((pre' ++ z :: x :: mid).length : Int) by simp; omega, set_append_length]
          simp
        simp only [s1, s2, s3, Outcome.bind_ok]
        have := rev_spec (n.toNat + 1) mid (pre' ++ [z, x]) [y] ((j + 2 : Nat) : Int) (n - 2) (by omega)
          (by simp [hp]) (by simp; omega)
        simp only [List.append_assoc, List.cons_append, List.nil_append] at this
        rw [this]
        simp [swapFirstGt, hxz]
      · simp only [hxz, if_false]
        cases hsw : swapFirstGt x (mid.reverse ++ [y]) with
        | none =>
          have := (swapFirstGt_eq_none_iff x _).mp hsw y (by simp)
          omega
        | some wr =>
          obtain ⟨w, r''⟩ := wr
          have hlen := swapFirstGt_length x _ w r'' hsw
          obtain ⟨m2, y', rfl⟩ : ∃ m z, r'' = m ++ [z] := by
            rcases List.eq_nil_or_concat r'' with rfl | ⟨m, z, rfl⟩
            · simp at hlen
            · exact ⟨m, z, by simp⟩
          have hf := findL_spec n j (mid.reverse ++ [y]) (n - 2).toNat pre' [z] x w (m2 ++ [y']) hsw
            (by omega) (by simp; omega)
          simp only [List.reverse_append, List.reverse_cons, List.reverse_nil, List.nil_append,
            List.reverse_reverse, List.cons_append] at hf
          rw [hf]
          have hsw2 := swap_split' (pre' ++ [w]) m2.reverse [] y' z ((j : Int) + 1) (n - 1)
            (by simp [hp]) (by simp at hlen ⊢; omega)
          simp only [List.append_assoc, List.cons_append, List.nil_append] at hsw2
          rw [hsw2]
          simp only [Outcome.bind_ok]
          have := rev_spec (n.toNat + 1) m2.reverse (pre' ++ [w, z]) [y'] ((j + 2 : Nat) : Int) (n - 2)
            (by simp at hlen ⊢; omega) (by simp [hp]) (by simp at hlen ⊢; omega)
          simp only [List.append_assoc, List.cons_append, List.nil_append, List.reverse_reverse] at this
          rw [this]
          simp [swapFirstGt, hxz, hsw]

theorem list_snoc_cases (a : List Int) : a = [] ∨ (∃ x, a = [x]) ∨ (∃ x y, a = [x, y]) ∨
    ∃ pre w x y, a = pre ++ [w, x, y] := by
  rcases List.eq_nil_or_concat a with rfl | ⟨a1, y, rfl⟩
  · exact Or.inl rfl
  rcases List.eq_nil_or_concat a1 with rfl | ⟨a2, x, rfl⟩
  · exact Or.inr (Or.inl ⟨y, rfl⟩)
  rcases List.eq_nil_or_concat a2 with rfl | ⟨a3, w, rfl⟩
  · exact Or.inr (Or.inr (Or.inl ⟨x, y, rfl⟩))
  · exact Or.inr (Or.inr (Or.inr ⟨a3, w, x, y, by simp⟩))

theorem get_at (p s : Sl) (x : Int) (i : Int) (h : i = p.length) : get (p ++ x :: s) i = .ok x := by
  subst h; simp

theorem set_at (p s : Sl) (x v : Int) (i : Int) (h : i = p.length) :
    set (p ++ x :: s) i v = .ok (p ++ v :: s) := by
  subst h; simp

/-- Stage A: one `Next` call (after the first) computes `nextPerm`, on every array. -/
theorem Lex.next_spec (n : Int) (a : Sl) (hn : n = a.length) :
    Lex.next ⟨n, a, false⟩ = .ok (match nextPerm a with
      | some b => (⟨n, b, false⟩, true)
      | none => (⟨n, a, false⟩, false)) := by
  rcases list_snoc_cases a with rfl | ⟨x, rfl⟩ | ⟨x, y, rfl⟩ | ⟨pre, w, x, y, rfl⟩
  · subst hn
    simp [Lex.next, Lex.scan, nextPerm]
  · subst hn
    simp [Lex.next, Lex.scan, nextPerm, swapFirstGt]
  · have hn2 : n = 2 := by simpa using hn
    subst hn2
    have g1 : get [x, y] (2 - 2) = .ok x := get_at [] [y] x _ (by simp)
    have g2 : get [x, y] (2 - 1) = .ok y := get_at [x] [] y _ (by simp)
    unfold Lex.next
    simp only [g1, g2, Outcome.bind_ok, Outcome.pure_eq]
    by_cases hxy : x < y
    · have := swap_split [] [] [] x y ((2 : Int) - 2) ((2 : Int) - 1) (by simp) (by simp)
      simp only [List.nil_append] at this
      simp only [hxy, decide_true, if_true, this, Outcome.bind_ok]
      simp [hxy, nextPerm, swapFirstGt]
    · simp [hxy, Lex.scan, nextPerm, swapFirstGt]
  · have hn3 : n = (pre.length : Int) + 3 := by simp at hn; omega
    have e1 : pre ++ [w, x, y] = (pre ++ [w]) ++ x :: [y] := by simp
    have e2 : pre ++ [w, x, y] = (pre ++ [w, x]) ++ y :: [] := by simp
    have e3 : pre ++ [w, x, y] = pre ++ w :: [x, y] := by simp
    have g1 : get (pre ++ [w, x, y]) (n - 2) = .ok x := by
      rw [e1]; exact get_at _ _ _ _ (by simp; omega)
    have g2 : get (pre ++ [w, x, y]) (n - 1) = .ok y := by
      rw [e2]; exact get_at _ _ _ _ (by simp; omega)
    have g3 : get (pre ++ [w, x, y]) (n - 3) = .ok w := by
      rw [e3]; exact get_at _ _ _ _ (by omega)
    have h1 : n > 1 := by omega
    have h2 : n > 2 := by omega
    unfold Lex.next
    simp only [g1, g2, g3, h1, h2, if_true, Outcome.bind_ok, Outcome.pure_eq]
    by_cases hxy : x < y
    · have := swap_split (pre ++ [w]) [] [] x y (n - 2) (n - 1) (by simp; omega) (by simp; omega)
      simp only [List.nil_append, List.append_assoc, List.cons_append] at this
      have hnp : nextPerm (pre ++ [w, x, y]) = some (pre ++ [w, y, x]) := by
        have := nextPerm_append_some [x, y] [y, x] (by simp [nextPerm, swapFirstGt, hxy]) (pre ++ [w])
        simpa using this
      simp only [hxy, decide_true, if_true, this, Outcome.bind_ok, hnp]
      simp
    · simp only [hxy, decide_false, Bool.false_eq_true, if_false]
      by_cases hwx : w < x
      · simp only [hwx, decide_true, if_true]
        by_cases hwy : w < y
        · have s1 : set (pre ++ [w, x, y]) (n - 3) y = .ok (pre ++ [y, x, y]) := by
            rw [e3]; exact set_at _ _ _ _ _ (by omega)
          have s2 : set (pre ++ [y, x, y]) (n - 2) w = .ok (pre ++ [y, w, y]) := by
            have : pre ++ [y, x, y] = (pre ++ [y]) ++ x :: [y] := by simp
            rw [this, set_at _ _ _ _ _ (by simp; omega)]; simp
          have s3 : set (pre ++ [y, w, y]) (n - 1) x = .ok (pre ++ [y, w, x]) := by
            have : pre ++ [y, w, y] = (pre ++ [y, w]) ++ y :: [] := by simp
            rw [this, set_at _ _ _ _ _ (by simp; omega)]; simp
          have hnp : nextPerm (pre ++ [w, x, y]) = some (pre ++ [y, w, x]) :=
            nextPerm_append_some [w, x, y] [y, w, x] (by simp [nextPerm, swapFirstGt, hxy, hwy]) pre
          simp [hwy, s1, s2, s3, hnp]
        · have s1 : set (pre ++ [w, x, y]) (n - 3) x = .ok (pre ++ [x, x, y]) := by
            rw [e3]; exact set_at _ _ _ _ _ (by omega)
          have s2 : set (pre ++ [x, x, y]) (n - 2) y = .ok (pre ++ [x, y, y]) := by
            have : pre ++ [x, x, y] = (pre ++ [x]) ++ x :: [y] := by simp
            rw [this, set_at _ _ _ _ _ (by simp; omega)]; simp
          have s3 : set (pre ++ [x, y, y]) (n - 1) w = .ok (pre ++ [x, y, w]) := by
            have : pre ++ [x, y, y] = (pre ++ [x, y]) ++ y :: [] := by simp
            rw [this, set_at _ _ _ _ _ (by simp; omega)]; simp
          have hnp : nextPerm (pre ++ [w, x, y]) = some (pre ++ [x, y, w]) :=
            nextPerm_append_some [w, x, y] [x, y, w] (by simp [nextPerm, swapFirstGt, hxy, hwy, hwx]) pre
          simp [hwy, s1, s2, s3, hnp]
      · simp only [hwx, decide_false, Bool.false_eq_true, if_false]
        have hsc := scan_spec n pre.length pre [w, x, y] rfl
          (by simp; omega) (by simp) hn
        rw [show (n - 3).toNat = pre.length by omega, hsc]
        simp only [scanRes, Outcome.bind_ok]
        cases nextPerm (pre ++ [w, x, y]) <;> rfl

end Iter
namespace Iter
open Spec

theorem swapFirstGt_spec (x : Int) : ∀ (r : List Int) (w : Int) (r' : List Int),
    swapFirstGt x r = some (w, r') → x < w ∧ (w :: r').Perm (x :: r) := by
  intro r
  induction r with
  | nil => intro w r' h; simp [swapFirstGt] at h
  | cons e r ih =>
    intro w r' h
    simp only [swapFirstGt] at h
    by_cases hx : x < e
    · simp only [hx, if_true, Option.some.injEq, Prod.mk.injEq] at h
      obtain ⟨rfl, rfl⟩ := h
      exact ⟨hx, List.Perm.swap _ _ _⟩
    · simp only [hx, if_false] at h
      cases hs : swapFirstGt x r with
      | none => simp [hs] at h
      | some wr =>
        obtain ⟨w', r''⟩ := wr
        simp only [hs, Option.some.injEq, Prod.mk.injEq] at h
        obtain ⟨rfl, rfl⟩ := h
        obtain ⟨h1, h2⟩ := ih w' r'' hs
        refine ⟨h1, ?_⟩
        exact ((List.Perm.swap e w' r'').trans ((h2.cons e).trans (List.Perm.swap x e r)))

/-- on a non-decreasing list: the result is non-decreasing and `w` is the least element above `x` -/
theorem swapFirstGt_sorted (x : Int) : ∀ (r : List Int) (w : Int) (r' : List Int),
    swapFirstGt x r = some (w, r') → r.Pairwise (· ≤ ·) →
    r'.Pairwise (· ≤ ·) ∧ (∀ e ∈ r, x < e → w ≤ e) := by
  intro r
  induction r with
  | nil => intro w r' h; simp [swapFirstGt] at h
  | cons e r ih =>
    intro w r' h hp
    simp only [swapFirstGt] at h
    rw [List.pairwise_cons] at hp
    by_cases hx : x < e
    · simp only [hx, if_true, Option.some.injEq, Prod.mk.injEq] at h
      obtain ⟨rfl, rfl⟩ := h
      refine ⟨List.pairwise_cons.mpr ⟨fun a ha => by have := hp.1 a ha; omega, hp.2⟩, ?_⟩
      intro a ha _
      rcases List.mem_cons.mp ha with rfl | ha
      · exact Int.le_refl _
      · exact hp.1 a ha
    · simp only [hx, if_false] at h
      cases hs : swapFirstGt x r with
      | none => simp [hs] at h
      | some wr =>
        obtain ⟨w', r''⟩ := wr
        simp only [hs, Option.some.injEq, Prod.mk.injEq] at h
        obtain ⟨rfl, rfl⟩ := h
        obtain ⟨h1, h2⟩ := ih w' r'' hs hp.2
        obtain ⟨h3, h4⟩ := swapFirstGt_spec x r w' r'' hs
        refine ⟨List.pairwise_cons.mpr ⟨?_, h1⟩, ?_⟩
        · intro a ha
          have : a ∈ x :: r := h4.subset (List.mem_cons_of_mem _ ha)
          rcases List.mem_cons.mp this with rfl | ha'
          · omega
          · exact hp.1 a ha'
        · intro a ha hxa
          rcases List.mem_cons.mp ha with rfl | ha
          · omega
          · exact h2 a ha hxa

theorem nextPerm_lt_perm : ∀ a b : List Int, nextPerm a = some b → a < b ∧ b.Perm a := by
  intro a
  induction a with
  | nil => intro b h; simp [nextPerm] at h
  | cons x t ih =>
    intro b h
    simp only [nextPerm] at h
    cases hn : nextPerm t with
    | some t' =>
      simp only [hn, Option.some.injEq] at h
      subst h
      obtain ⟨h1, h2⟩ := ih t' hn
      exact ⟨List.cons_lt_cons_iff.mpr (Or.inr ⟨rfl, h1⟩), h2.cons x⟩
    | none =>
      simp only [hn] at h
      cases hs : swapFirstGt x t.reverse with
      | none => simp [hs] at h
      | some wr =>
        obtain ⟨w, r'⟩ := wr
        simp only [hs, Option.some.injEq] at h
        subst h
        obtain ⟨h1, h2⟩ := swapFirstGt_spec x _ w r' hs
        exact ⟨List.cons_lt_cons_iff.mpr (Or.inl h1), h2.trans ((List.reverse_perm t).cons x)⟩

/-- a non-increasing list is the greatest arrangement of its multiset -/
theorem not_lt_of_nonincreasing : ∀ a c : List Int, a.Pairwise (fun u v => v ≤ u) → c.Perm a → ¬ a < c := by
  intro a
  induction a with
  | nil => intro c _ hc; rw [List.perm_nil.mp hc]; exact List.lt_irrefl _
  | cons y ts ih =>
    intro c hp hc hlt
    cases c with
    | nil => simpa using hc.length_eq
    | cons y' ts' =>
      rw [List.pairwise_cons] at hp
      have hy' : y' ∈ y :: ts := hc.subset (by simp)
      have hle : y' ≤ y := by
        rcases List.mem_cons.mp hy' with rfl | h
        · exact Int.le_refl _
        · exact hp.1 y' h
      rcases List.cons_lt_cons_iff.mp hlt with h | ⟨rfl, h⟩
      · omega
      · exact ih ts' hp.2 (List.Perm.cons_inv hc) h

/-- a non-decreasing list is the least arrangement of its multiset -/
theorem not_lt_of_nondecreasing : ∀ a c : List Int, a.Pairwise (· ≤ ·) → c.Perm a → ¬ c < a := by
  intro a
  induction a with
  | nil => intro c _ hc; rw [List.perm_nil.mp hc]; exact List.lt_irrefl _
  | cons y ts ih =>
    intro c hp hc hlt
    cases c with
    | nil => simpa using hc.length_eq
    | cons y' ts' =>
      rw [List.pairwise_cons] at hp
      have hy' : y' ∈ y :: ts := hc.subset (by simp)
      have hle : y ≤ y' := by
        rcases List.mem_cons.mp hy' with rfl | h
        · exact Int.le_refl _
        · exact hp.1 y' h
      rcases List.cons_lt_cons_iff.mp hlt with h | ⟨rfl, h⟩
      · omega
      · exact ih ts' hp.2 (List.Perm.cons_inv hc) h

/-- minimality: no arrangement lies strictly between `a` and `nextPerm a` -/
theorem nextPerm_minimal : ∀ a b c : List Int, nextPerm a = some b → c.Perm a → a < c → ¬ c < b := by
  intro a
  induction a with
  | nil => intro b c h; simp [nextPerm] at h
  | cons x t ih =>
    intro b c h hc hac hcb
    cases c with
    | nil => simpa using hc.length_eq
    | cons x' t' =>
    simp only [nextPerm] at h
    cases hn : nextPerm t with
    | some tb =>
      simp only [hn, Option.some.injEq] at h
      subst h
      rcases List.cons_lt_cons_iff.mp hac with h1 | ⟨rfl, h1⟩
      · rcases List.cons_lt_cons_iff.mp hcb with h2 | ⟨rfl, h2⟩
        · omega
        · omega
      · rcases List.cons_lt_cons_iff.mp hcb with h2 | ⟨_, h2⟩
        · omega
        · exact ih tb t' hn (List.Perm.cons_inv hc) h1 h2
    | none =>
      simp only [hn] at h
      have hp := (nextPerm_eq_none_iff t).mp hn
      cases hs : swapFirstGt x t.reverse with
      | none => simp [hs] at h
      | some wr =>
        obtain ⟨w, r'⟩ := wr
        simp only [hs, Option.some.injEq] at h
        subst h
        have hrp : t.reverse.Pairwise (· ≤ ·) := List.pairwise_reverse.mpr hp
        obtain ⟨h1, h2⟩ := swapFirstGt_spec x _ w r' hs
        obtain ⟨h3, h4⟩ := swapFirstGt_sorted x _ w r' hs hrp
        rcases List.cons_lt_cons_iff.mp hac with g1 | ⟨rfl, g1⟩
        · have hx' : x' ∈ x :: t := hc.subset (by simp)
          have hx't : x' ∈ t.reverse := by
            rcases List.mem_cons.mp hx' with rfl | h
            · omega
            · simpa using h
          have hw := h4 x' hx't g1
          rcases List.cons_lt_cons_iff.mp hcb with g2 | ⟨rfl, g2⟩
          · omega
          · have : t'.Perm r' := by
              have : (x' :: t').Perm (x' :: r') := hc.trans (((List.reverse_perm t).cons x).symm.trans h2.symm)
              exact List.Perm.cons_inv this
            exact not_lt_of_nondecreasing r' t' h3 this g2
        · exact not_lt_of_nonincreasing t t' hp (List.Perm.cons_inv hc) g1

end Iter

namespace Iter
open Spec

/-- Any strictly increasing list that consists of arrangements of `a` and is upward closed among the
arrangements of `a` is a chain for `nextPerm`. -/
theorem nextPerm_chain_of_sorted (a : List Int) : ∀ L : List (List Int), L.Pairwise (· < ·) →
    (∀ b ∈ L, b.Perm a) → (∀ b, b.Perm a → ∀ x ∈ L, x < b → b ∈ L) →
    L.IsChain (fun x y => nextPerm x = some y) := by
  intro L
  induction L with
  | nil => intro _ _ _; exact List.IsChain.nil
  | cons x L ih =>
    intro hp hm hu
    cases L with
    | nil => exact List.IsChain.singleton _
    | cons y rest =>
      rw [List.isChain_cons_cons]
      rw [List.pairwise_cons] at hp
      have hxy : x < y := hp.1 y (by simp)
      have hxa : x.Perm a := hm x (by simp)
      have hya : y.Perm a := hm y (by simp)
      refine ⟨?_, ih hp.2 (fun b hb => hm b (List.mem_cons_of_mem _ hb)) ?_⟩
      · cases hn : nextPerm x with
        | none =>
          exact absurd hxy (not_lt_of_nonincreasing x y ((nextPerm_eq_none_iff x).mp hn) (hya.trans hxa.symm))
        | some b =>
          obtain ⟨h1, h2⟩ := nextPerm_lt_perm x b hn
          have hb : b ∈ x :: y :: rest := hu b (h2.trans hxa) x (by simp) h1
          rcases List.mem_cons.mp hb with rfl | hb
          · exact absurd h1 (List.lt_irrefl _)
          · rcases List.mem_cons.mp hb with rfl | hb
            · rfl
            · have hyb : y < b := (List.pairwise_cons.mp hp.2).1 b hb
              exact absurd hyb (nextPerm_minimal x b y hn (hya.trans hxa.symm) hxy)
      · intro b hb x' hx' hlt
        have := hu b hb x' (List.mem_cons_of_mem _ hx') hlt
        rcases List.mem_cons.mp this with rfl | h
        · exact absurd (List.lt_trans (hp.1 x' hx') hlt) (List.lt_irrefl _)
        · exact h

theorem nextPerm_last_of_sorted (a : List Int) (L : List (List Int)) (hp : L.Pairwise (· < ·))
    (hm : ∀ b, b ∈ L ↔ b.Perm a) : ∀ l ∈ L.getLast?, nextPerm l = none := by
  intro l hl
  obtain ⟨init, rfl⟩ : ∃ init, L = init ++ [l] := by
    rw [Option.mem_def, List.getLast?_eq_some_iff] at hl
    exact hl
  cases hn : nextPerm l with
  | none => rfl
  | some b =>
    exfalso
    obtain ⟨h1, h2⟩ := nextPerm_lt_perm l b hn
    have hb : b ∈ init ++ [l] := (hm b).mpr (h2.trans ((hm l).mp (by simp)))
    rw [List.pairwise_append] at hp
    rcases List.mem_append.mp hb with hb | hb
    · exact absurd (List.lt_trans (hp.2.2 b hb l (by simp)) h1) (List.lt_irrefl _)
    · simp only [List.mem_singleton] at hb
      subst hb
      exact absurd h1 (List.lt_irrefl _)

theorem head_of_sorted (a : List Int) (ha : a.Pairwise (· ≤ ·)) (L : List (List Int)) (hp : L.Pairwise (· < ·))
    (hm : ∀ b, b ∈ L ↔ b.Perm a) : L.head? = some a := by
  have haL : a ∈ L := (hm a).mpr (List.Perm.refl _)
  cases L with
  | nil => simp at haL
  | cons h rest =>
    rcases List.mem_cons.mp haL with rfl | hr
    · rfl
    · have := (List.pairwise_cons.mp hp).1 a hr
      exact absurd this (not_lt_of_nondecreasing a h ha ((hm h).mp (by simp)))

/-- state invariant: the iterator shows the arrangement `x` -/
def Lex.Rep (s : Lex) (x : List Int) : Prop := s.a = x ∧ s.n = x.length ∧ s.first = false

/-- exhausted states -/
def Lex.Dead (s : Lex) : Prop := s.n = s.a.length ∧ s.first = false ∧ nextPerm s.a = none

theorem Lex.next_dead (s : Lex) (h : Lex.Dead s) : ∃ s', Lex.next s = .ok (s', false) ∧ Lex.Dead s' := by
  obtain ⟨n, a, f⟩ := s
  obtain ⟨hn, hf, hd⟩ := h
  simp only at hn hf hd
  subst hf
  exact ⟨⟨n, a, false⟩, by rw [Lex.next_spec n a hn, hd], hn, rfl, hd⟩

theorem Lex.next_step (x y : List Int) (hxy : nextPerm x = some y) (s : Lex) (h : Lex.Rep s x) :
    ∃ s', Lex.next s = .ok (s', true) ∧ Lex.Rep s' y := by
  obtain ⟨n, a, f⟩ := s
  obtain ⟨ha, hn, hf⟩ := h
  simp only at ha hn hf
  subst ha hf
  refine ⟨⟨n, y, false⟩, by rw [Lex.next_spec n a hn, hxy], rfl, ?_, rfl⟩
  simp only [hn]
  rw [(nextPerm_lt_perm a y hxy).2.length_eq]

/-- the generic enumeration theorem for the lexicographic iterator started on a non-decreasing array -/
theorem Lex.enumerates_core (n : Int) (a0 : List Int) (hn : n = a0.length) (ha : a0.Pairwise (· ≤ ·))
    (L : List (List Int)) (hp : L.Pairwise (· < ·)) (hm : ∀ b, b ∈ L ↔ b.Perm a0) :
    ∀ bound, L.length < bound →
      ∃ s', outputs Lex.it bound ⟨n, a0, true⟩ = (L, s', .exhausted) ∧
        ∀ k, extras Lex.it k s' = .ok (List.replicate k none) := by
  intro bound hb
  have hhead := head_of_sorted a0 ha L hp hm
  have hchain := nextPerm_chain_of_sorted a0 L hp (fun b hb => (hm b).mp hb)
    (fun b hb _ _ _ => (hm b).mpr hb)
  obtain ⟨s', h1, _, h3⟩ := enumerates_aux Lex.it Lex.Rep Lex.Dead (fun x y => nextPerm x = some y)
    ⟨n, a0, true⟩ L hchain
    (by
      rintro s x ⟨h1, h2, h3⟩
      exact ⟨s, by simp [Lex.it, h1], h1, h2, h3⟩)
    (by intro hnil; simp [hnil] at hhead)
    (by
      intro x hx
      rw [hhead] at hx
      simp only [Option.mem_def, Option.some.injEq] at hx
      subst hx
      exact ⟨⟨n, a0, false⟩, by simp [Lex.it, Lex.next], rfl, hn, rfl⟩)
    (fun x y hxy s hs => Lex.next_step x y hxy s hs)
    (by
      intro x hx s hs
      have := nextPerm_last_of_sorted a0 L hp hm x hx
      obtain ⟨h1, h2, h3⟩ := hs
      exact Lex.next_dead s ⟨by rw [h1, h2], h3, by rw [h1]; exact this⟩)
    (fun s hs => Lex.next_dead s hs) bound hb
  exact ⟨s', h1, h3⟩

end Iter


namespace Iter
open Spec


theorem multiPermAux_sorted : ∀ (k : Nat) (freq : List Int), (multiPermAux k freq).Pairwise (· < ·) := by
  intro k
  induction k with
  | zero => intro freq; simp [multiPermAux]
  | succ k ih =>
    intro freq
    simp only [multiPermAux]
    rw [List.pairwise_flatMap]
    constructor
    · intro i _
      split
      · exact (ih _).map _ (fun a b h => List.cons_lt_cons_iff.mpr (Or.inr ⟨rfl, h⟩))
      · exact List.Pairwise.nil
    · refine List.Pairwise.imp ?_ List.pairwise_lt_range
      intro i j hij x hx y hy
      split at hx
      · split at hy
        · obtain ⟨t, _, rfl⟩ := List.mem_map.mp hx
          obtain ⟨t', _, rfl⟩ := List.mem_map.mp hy
          exact List.cons_lt_cons_iff.mpr (Or.inl (by omega))
        · simp at hy
      · simp at hx

/-- `b` uses only values `v ≥ 0`, each at most `freq[v]` times -/
def InArr (freq b : List Int) : Prop := ∀ v ∈ b, 0 ≤ v ∧ (b.count v : Int) ≤ freq.getD v.toNat 0

theorem getD_set_self (freq : List Int) (i : Nat) (x : Int) (h : i < freq.length) :
    (freq.set i x).getD i 0 = x := by
  simp [List.getD_eq_getElem?_getD, h]

theorem getD_set_ne (freq : List Int) (i j : Nat) (x : Int) (h : i ≠ j) :
    (freq.set i x).getD j 0 = freq.getD j 0 := by
  simp [List.getD_eq_getElem?_getD, h]

theorem getD_pos_lt (freq : List Int) (i : Nat) (h : 0 < freq.getD i 0) : i < freq.length := by
  by_contra hc
  have : freq[i]? = none := List.getElem?_eq_none_iff.mpr (by omega)
  simp [List.getD_eq_getElem?_getD, this] at h

theorem mem_multiPermAux : ∀ (k : Nat) (freq b : List Int),
    b ∈ multiPermAux k freq ↔ b.length = k ∧ InArr freq b := by
  intro k
  induction k with
  | zero =>
    intro freq b
    simp only [multiPermAux, List.mem_singleton, List.length_eq_zero_iff]
    constructor
    · rintro rfl; exact ⟨rfl, by intro v hv; simp at hv⟩
    · exact fun h => h.1
  | succ k ih =>
    intro freq b
    simp only [multiPermAux, List.mem_flatMap, List.mem_range]
    constructor
    · rintro ⟨i, hi, hb⟩
      split at hb
      · next hpos =>
        obtain ⟨t, ht, rfl⟩ := List.mem_map.mp hb
        obtain ⟨hl, harr⟩ := (ih _ t).mp ht
        refine ⟨by simp [hl], ?_⟩
        intro v hv
        by_cases hvi : v = (i : Int)
        · subst hvi
          refine ⟨by omega, ?_⟩
          simp only [List.count_cons_self, Int.toNat_natCast]
          by_cases hit : (i : Int) ∈ t
          · have := (harr _ hit).2
            rw [Int.toNat_natCast, getD_set_self _ _ _ hi] at this
            omega
          · rw [List.count_eq_zero_of_not_mem hit]; omega
        · have hvt : v ∈ t := by
            rcases List.mem_cons.mp hv with h | h
            · exact absurd h hvi
            · exact h
          obtain ⟨h0, hc⟩ := harr v hvt
          refine ⟨h0, ?_⟩
          rw [getD_set_ne _ _ _ _ (by omega)] at hc
          rw [List.count_cons_of_ne (fun h => hvi h.symm)]
          exact hc
      · simp at hb
    · rintro ⟨hl, harr⟩
      cases b with
      | nil => simp at hl
      | cons v0 t =>
        obtain ⟨h0, hc⟩ := harr v0 (by simp)
        simp only [List.count_cons_self] at hc
        have hpos : 0 < freq.getD v0.toNat 0 := by omega
        have hlt := getD_pos_lt freq _ hpos
        refine ⟨v0.toNat, hlt, ?_⟩
        simp only [hpos, if_true, List.mem_map]
        refine ⟨t, (ih _ t).mpr ⟨by simpa using hl, ?_⟩, by simp [Int.toNat_of_nonneg h0]⟩
        intro v hv
        obtain ⟨hv0, hvc⟩ := harr v (List.mem_cons_of_mem _ hv)
        refine ⟨hv0, ?_⟩
        by_cases hvv : v = v0
        · subst hvv
          rw [getD_set_self _ _ _ hlt]
          simp only [List.count_cons_self] at hvc
          omega
        · rw [getD_set_ne _ _ _ _ (by omega)]
          rw [List.count_cons_of_ne (fun h => hvv h.symm)] at hvc
          exact hvc

end Iter

namespace Iter
open Spec

theorem foldl_add_acc : ∀ (l : List Int) (acc : Int), l.foldl (· + ·) acc = acc + l.foldl (· + ·) 0 := by
  intro l
  induction l with
  | nil => intro acc; simp
  | cons f fs ih =>
    intro acc
    simp only [List.foldl_cons]
    rw [ih (acc + f), ih (0 + f)]
    omega

theorem sumInts_cons (f : Int) (fs : List Int) : sumInts (f :: fs) = f + sumInts fs := by
  simp only [sumInts, List.foldl_cons]
  rw [foldl_add_acc fs (0 + f)]
  omega

theorem sumInts_nonneg : ∀ freq : List Int, (∀ f ∈ freq, 0 ≤ f) → 0 ≤ sumInts freq := by
  intro freq
  induction freq with
  | nil => intro _; simp [sumInts]
  | cons f fs ih =>
    intro h
    rw [sumInts_cons]
    have := ih (fun g hg => h g (List.mem_cons_of_mem _ hg))
    have := h f (by simp)
    omega

/-- the generator of `multiSorted` with the index offset made explicit -/
def expandFrom (freq : List Int) (k : Nat) : List Int :=
  (freq.zipIdx k).flatMap (fun (f, i) => List.replicate f.toNat (i : Int))

theorem expandFrom_cons (f : Int) (fs : List Int) (k : Nat) :
    expandFrom (f :: fs) k = List.replicate f.toNat (k : Int) ++ expandFrom fs (k + 1) := by
  simp [expandFrom]

theorem expandFrom_length : ∀ (freq : List Int) (k : Nat), (∀ f ∈ freq, 0 ≤ f) →
    ((expandFrom freq k).length : Int) = sumInts freq := by
  intro freq
  induction freq with
  | nil => intro k _; simp [expandFrom, sumInts]
  | cons f fs ih =>
    intro k h
    rw [expandFrom_cons, sumInts_cons, List.length_append, List.length_replicate, Int.natCast_add,
      ih (k + 1) (fun g hg => h g (List.mem_cons_of_mem _ hg))]
    have := h f (by simp)
    omega

theorem expandFrom_sorted : ∀ (freq : List Int) (k : Nat),
    (expandFrom freq k).Pairwise (· ≤ ·) ∧ ∀ e ∈ expandFrom freq k, (k : Int) ≤ e := by
  intro freq
  induction freq with
  | nil => intro k; simp [expandFrom]
  | cons f fs ih =>
    intro k
    obtain ⟨h1, h2⟩ := ih (k + 1)
    rw [expandFrom_cons]
    constructor
    · rw [List.pairwise_append]
      refine ⟨?_, h1, ?_⟩
      · rw [List.pairwise_replicate]; right; exact Int.le_refl _
      · intro a ha b hb
        have := h2 b hb
        rw [List.mem_replicate] at ha
        omega
    · intro e he
      rcases List.mem_append.mp he with he | he
      · rw [List.mem_replicate] at he; omega
      · have := h2 e he; omega

theorem expandFrom_count : ∀ (freq : List Int) (k : Nat) (v : Int),
    (expandFrom freq k).count v = if (k : Int) ≤ v then (freq.getD (v - k).toNat 0).toNat else 0 := by
  intro freq
  induction freq with
  | nil => intro k v; simp [expandFrom]
  | cons f fs ih =>
    intro k v
    rw [expandFrom_cons, List.count_append, List.count_replicate, ih (k + 1) v]
    by_cases h1 : (k : Int) = v
    · subst h1
      simp
      intro h; omega
    · have : ((k : Int) == v) = false := by simpa using h1
      simp only [this, Bool.false_eq_true, if_false, Nat.zero_add]
      by_cases h2 : (k : Int) ≤ v
      · have h3 : ((k + 1 : Nat) : Int) ≤ v := by omega
        have h4 : (v - (k : Int)).toNat = (v - ((k + 1 : Nat) : Int)).toNat + 1 := by omega
        simp only [h2, h3, if_true, h4, List.getD_cons_succ]
      · have h3 : ¬ ((k + 1 : Nat) : Int) ≤ v := by omega
        simp only [h2, h3, if_false]

theorem multiSorted_eq (freq : List Int) : multiSorted freq = expandFrom freq 0 := rfl

/-- `multiPermList freq` consists exactly of the arrangements of the multiset -/
theorem mem_multiPermList (freq : List Int) (hf : ∀ f ∈ freq, 0 ≤ f) (b : List Int) :
    b ∈ multiPermList freq ↔ b.Perm (multiSorted freq) := by
  have hlen := expandFrom_length freq 0 hf
  have hsum : sumInts freq = freq.foldl (· + ·) 0 := rfl
  rw [hsum] at hlen
  have hcnt := expandFrom_count freq 0
  rw [multiPermList, mem_multiPermAux, multiSorted_eq]
  constructor
  · rintro ⟨hl, harr⟩
    apply List.Subperm.perm_of_length_le
    · rw [List.subperm_ext_iff]
      intro x hx
      obtain ⟨h0, hc⟩ := harr x hx
      rw [hcnt x]
      simp only [Int.natCast_zero, h0, if_true, Int.sub_zero]
      omega
    · omega
  · intro hp
    refine ⟨by have := hp.length_eq; omega, ?_⟩
    intro v hv
    have hc := hp.count_eq v
    have hpos : 0 < b.count v := List.count_pos_iff.mpr hv
    rw [hcnt v] at hc
    by_cases h0 : 0 ≤ v
    · simp only [Int.natCast_zero, h0, if_true, Int.sub_zero] at hc
      exact ⟨h0, by omega⟩
    · simp only [Int.natCast_zero, h0, if_false] at hc
      omega

theorem multiPermList_sorted (freq : List Int) : (multiPermList freq).Pairwise (· < ·) :=
  multiPermAux_sorted _ _

theorem multiSorted_sorted (freq : List Int) : (multiSorted freq).Pairwise (· ≤ ·) :=
  (expandFrom_sorted freq 0).1

end Iter

namespace Iter
open Spec

theorem expandFrom_ones : ∀ (m k : Nat),
    expandFrom (List.replicate m 1) k = (List.range' k m).map Int.ofNat := by
  intro m
  induction m with
  | zero => intro k; simp [expandFrom]
  | succ m ih =>
    intro k
    rw [List.replicate_succ, expandFrom_cons, ih (k + 1), List.range'_succ]
    simp

theorem multiSorted_ones (m : Nat) : multiSorted (List.replicate m 1) = (List.range m).map Int.ofNat := by
  rw [multiSorted_eq, expandFrom_ones, List.range_eq_range']

/-- `lexPermList n` consists exactly of the permutations of `0, …, n-1` -/
theorem mem_lexPermList (n : Int) (b : List Int) :
    b ∈ lexPermList n ↔ b.Perm ((List.range n.toNat).map Int.ofNat) := by
  rw [lexPermList, mem_multiPermList _ (by intro f hf; rw [List.mem_replicate] at hf; omega),
    multiSorted_ones]

theorem lexPermList_sorted (n : Int) : (lexPermList n).Pairwise (· < ·) :=
  multiPermList_sorted _

/-- `MultisetPermutations(freq)` (all `freq[i] ≥ 0`) yields exactly `multiPermList freq`, then `Next` stays false. -/
theorem Lex.enumerates_multi_lemma (freq : List Int) (hf : ∀ f ∈ freq, 0 ≤ f) :
    ∃ s0, Lex.initMulti freq = .ok s0 ∧ ∀ bound, (multiPermList freq).length < bound →
      ∃ s', outputs Lex.it bound s0 = (multiPermList freq, s', .exhausted) ∧
        ∀ k, extras Lex.it k s' = .ok (List.replicate k none) := by
  have hs := sumInts_nonneg freq hf
  refine ⟨⟨sumInts freq, multiSorted freq, true⟩, ?_, ?_⟩
  · have : ¬ sumInts freq < 0 := by omega
    simp only [Lex.initMulti, this, if_false]
    rfl
  · exact Lex.enumerates_core (sumInts freq) (multiSorted freq)
      (by rw [multiSorted_eq, expandFrom_length freq 0 hf]) (multiSorted_sorted freq)
      (multiPermList freq) (multiPermList_sorted freq) (mem_multiPermList freq hf)

/-- `LexicographicPermutations(n)` (`n ≥ 0`) yields exactly `lexPermList n`, then `Next` stays false. -/
theorem Lex.enumerates_lemma (n : Int) (hn : 0 ≤ n) :
    ∃ s0, Lex.init n = .ok s0 ∧ ∀ bound, (lexPermList n).length < bound →
      ∃ s', outputs Lex.it bound s0 = (lexPermList n, s', .exhausted) ∧
        ∀ k, extras Lex.it k s' = .ok (List.replicate k none) := by
  refine ⟨⟨n, (List.range n.toNat).map Int.ofNat, true⟩, ?_, ?_⟩
  · have : ¬ n < 0 := by omega
    simp [Lex.init, iota, this]
  · have hsorted : ((List.range n.toNat).map Int.ofNat).Pairwise (· ≤ ·) := by
      rw [List.pairwise_map]
      exact List.Pairwise.imp (fun h => by simp only [Int.ofNat_eq_natCast]; omega) List.pairwise_lt_range
    exact Lex.enumerates_core n _ (by simp; omega) hsorted (lexPermList n) (lexPermList_sorted n)
      (mem_lexPermList n)

end Iter

namespace Iter
open Spec

/-- the successor chain of `multiPermList`, its first element, and `nextPerm last = none` -/
theorem multiPermList_chain (freq : List Int) (hf : ∀ f ∈ freq, 0 ≤ f) :
    (multiPermList freq).IsChain (fun x y => nextPerm x = some y) ∧
    (multiPermList freq).head? = some (multiSorted freq) ∧
    ∀ l ∈ (multiPermList freq).getLast?, nextPerm l = none :=
  ⟨nextPerm_chain_of_sorted (multiSorted freq) _ (multiPermList_sorted freq)
      (fun b hb => (mem_multiPermList freq hf b).mp hb) (fun b hb _ _ _ => (mem_multiPermList freq hf b).mpr hb),
    head_of_sorted _ (multiSorted_sorted freq) _ (multiPermList_sorted freq) (mem_multiPermList freq hf),
    nextPerm_last_of_sorted _ _ (multiPermList_sorted freq) (mem_multiPermList freq hf)⟩

example : lexPermList 3 = [[0, 1, 2], [0, 2, 1], [1, 0, 2], [1, 2, 0], [2, 0, 1], [2, 1, 0]] := by decide
example : multiPermList [2, 0, 1] = [[0, 0, 2], [0, 2, 0], [2, 0, 0]] := by decide
example : nextPerm [0, 3, 2, 2, 1, 1, 0] = some [1, 0, 0, 1, 2, 2, 3] := by decide

end Iter
