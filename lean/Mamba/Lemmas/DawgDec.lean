import Mamba.Lemmas.DawgEnc
import Mamba.Lemmas.DawgVarint
/-! `GobDecode` run on the output of `GobEncode`. -/
namespace Dawg

/-- the children part of a record -/
def childBytes : List Nat → List Nat → List Nat
  | lab :: labs, t :: ts => lab :: encodeUint64 t ++ childBytes labs ts
  | _, _ => []

/-- position (in the sorted id table `L`) of the node at pointer `q` -/
def posOf (h : Heap) (L : List Nat) (q : Nat) : Nat :=
  match h[q]? with
  | some qn => searchGE L qn.id
  | none => 0

theorem encLinks_eq (h : Heap) (L : List Nat) :
    ∀ (labs links r : List Nat), labs.length = links.length →
      encLinks h (searchGE L) labs links = .ok r →
      r = childBytes labs (links.map (posOf h L)) ∧ ∀ q ∈ links, ∃ qn, h[q]? = some qn := by
  intro labs
  induction labs with
  | nil =>
    intro links r hlen hres
    cases links with
    | nil => simp only [encLinks, Outcome.ok.injEq] at hres; subst hres; simp [childBytes]
    | cons _ _ => simp at hlen
  | cons lab labs ih =>
    intro links r hlen hres
    cases links with
    | nil => simp at hlen
    | cons q qs =>
      simp only [encLinks] at hres
      cases hq : getNode h q with
      | panic => rw [hq] at hres; cases hres
      | outOfFuel => rw [hq] at hres; cases hres
      | ok qn =>
        rw [hq] at hres
        simp only at hres
        have hqn := getNode_eq_ok.1 hq
        cases hr : encLinks h (searchGE L) labs qs with
        | panic => rw [hr] at hres; cases hres
        | outOfFuel => rw [hr] at hres; cases hres
        | ok r' =>
          rw [hr] at hres
          simp only [Outcome.ok.injEq] at hres
          obtain ⟨h1, h2⟩ := ih qs r' (by simpa using hlen) hr
          subst hres
          refine ⟨?_, ?_⟩
          · simp only [List.map_cons, childBytes, posOf, hqn, h1]
          · intro q' hq'
            rw [List.mem_cons] at hq'
            rcases hq' with rfl | hq'
            · exact ⟨qn, hqn⟩
            · exact h2 q' hq'

theorem encRecord_eq (h : Heap) (L : List Nat) (n : Node) (r : List Nat) (hlen : n.labels.length = n.links.length)
    (hres : encRecord h (searchGE L) n = .ok r) :
    r = encodeUint64 (searchGE L n.id) ++ encodeUint64 n.numWords ++ [if n.final then Gen.Dawg.finalTrueByte else Gen.Dawg.finalFalseByte]
          ++ encodeUint64 n.labels.length ++ childBytes n.labels (n.links.map (posOf h L))
      ∧ ∀ q ∈ n.links, ∃ qn, h[q]? = some qn := by
  unfold encRecord at hres
  cases hr : encLinks h (searchGE L) n.labels n.links with
  | panic => rw [hr] at hres; cases hres
  | outOfFuel => rw [hr] at hres; cases hres
  | ok r' =>
    rw [hr] at hres
    simp only [Outcome.ok.injEq] at hres
    obtain ⟨h1, h2⟩ := encLinks_eq h L _ _ _ hlen hr
    subst hres
    exact ⟨by rw [h1], h2⟩

theorem decChildren_childBytes :
    ∀ (labs tgts : List Nat) (ts : Heap) (idx : Nat) (n : Node) (rest : List Nat),
      labs.length = tgts.length → ts[idx]? = some n → (∀ t ∈ tgts, t < ts.size ∧ t < 2 ^ 64) →
      decChildren ts idx labs.length (childBytes labs tgts ++ rest) =
        .ok (ts.setIfInBounds idx { n with labels := n.labels ++ labs, links := n.links ++ tgts }, rest) := by
  intro labs
  induction labs with
  | nil =>
    intro tgts ts idx n rest hlen hn _
    cases tgts with
    | nil =>
      simp only [List.length_nil, decChildren, childBytes, List.nil_append, List.append_nil]
      congr 2
      apply Array.ext_getElem?
      intro i
      rw [Array.getElem?_setIfInBounds]
      have hlt : idx < ts.size := by
        rcases Array.getElem?_eq_some_iff.1 hn with ⟨h, _⟩; exact h
      split
      · next h => subst h; first | rw [hn] | (rw [if_pos hlt, hn])
      · rfl
    | cons _ _ => simp at hlen
  | cons lab labs ih =>
    intro tgts ts idx n rest hlen hn hsmall
    cases tgts with
    | nil => simp at hlen
    | cons t tgts =>
      have ht := hsmall t List.mem_cons_self
      simp only [List.length_cons, childBytes, List.cons_append, List.append_assoc, decChildren]
      rw [decodeUint64_encodeUint64_append t ht.2]
      simp only [hn, ht.1, if_true]
      rw [ih tgts _ idx { n with labels := n.labels ++ [lab], links := n.links ++ [t] } rest (by simpa using hlen)]
      · rw [Array.setIfInBounds_setIfInBounds]
        simp
      · rw [Array.getElem?_setIfInBounds_self]
        have : idx < ts.size := by
          rcases Array.getElem?_eq_some_iff.1 hn with ⟨h, _⟩; exact h
        simp [this]
      · intro t' ht'
        rw [Array.size_setIfInBounds]
        exact hsmall t' (List.mem_cons_of_mem _ ht')

/-- the flag bytes written by `GobEncode` are read back correctly by `GobDecode` (re-checked on every run against the
regenerated constants; any pair of bytes with this property keeps the round trip; all recognised sites of GobEncode
must write the same pair, because the model has one `encRecord`) -/
theorem genFinal_consistent :
    (Gen.Dawg.finalTrueSites.all (· == Gen.Dawg.finalTrueByte) && Gen.Dawg.finalFalseSites.all (· == Gen.Dawg.finalFalseByte)) = true ∧
      Gen.Dawg.decFinalSet Gen.Dawg.finalTrueByte = true ∧
      Gen.Dawg.decFinalSet Gen.Dawg.finalFalseByte = false := by decide

theorem decRecords_one (ts : Heap) (k idx nw : Nat) (fin : Bool) (labs tgts rest : List Nat) (n0 : Node)
    (hn0 : ts[idx]? = some n0) (hidx : idx < 2 ^ 64) (hnw : nw < 2 ^ 64) (hlabs : labs.length < 2 ^ 64)
    (hlen : labs.length = tgts.length) (htg : ∀ t ∈ tgts, t < ts.size ∧ t < 2 ^ 64) :
    decRecords ts (k + 1)
        ((encodeUint64 idx ++ encodeUint64 nw ++ [if fin then Gen.Dawg.finalTrueByte else Gen.Dawg.finalFalseByte] ++ encodeUint64 labs.length
          ++ childBytes labs tgts) ++ rest)
      = decRecords (ts.setIfInBounds idx { n0 with numWords := nw, final := fin, labels := labs, links := tgts }) k rest := by
  have hlt : idx < ts.size := by
    rcases Array.getElem?_eq_some_iff.1 hn0 with ⟨h, _⟩; exact h
  simp only [decRecords, List.append_assoc]
  rw [decodeUint64_encodeUint64_append idx hidx]
  simp only
  rw [decodeUint64_encodeUint64_append nw hnw]
  simp only [hn0, List.cons_append, List.nil_append]
  rw [decodeUint64_encodeUint64_append labs.length hlabs]
  simp only [Array.setIfInBounds_setIfInBounds]
  rw [decChildren_childBytes labs tgts _ idx
    { n0 with numWords := nw, final := Gen.Dawg.decFinalSet (if fin then Gen.Dawg.finalTrueByte else Gen.Dawg.finalFalseByte), labels := [], links := [] } rest hlen]
  · simp only [Array.setIfInBounds_setIfInBounds, List.nil_append]
    cases fin
    · simp only [Bool.false_eq_true, if_false, genFinal_consistent.2.2]
    · simp only [if_true, genFinal_consistent.2.1]
  · rw [Array.getElem?_setIfInBounds_self]; simp [hlt]
  · intro t ht; rw [Array.size_setIfInBounds]; exact htg t ht

/-- what a record does to the node it addresses -/
def fillFrom (h : Heap) (L : List Nat) (n : Node) (n0 : Node) : Node :=
  { n0 with numWords := n.numWords, final := n.final, labels := n.labels, links := n.links.map (posOf h L) }

theorem decRecords_emitted (d : Dawg) (wf : WF d) (L : List Nat) :
    ∀ (ps bs : List Nat), Emitted d.heap (searchGE L) ps bs →
    ∀ (ts : Heap) (rest : List Nat),
      (∀ p ∈ ps, Reach d.heap d.root p) →
      (∀ p, Reach d.heap d.root p → posOf d.heap L p < ts.size) →
      ts.size < 2 ^ 64 →
      (ps.map (posOf d.heap L)).Nodup →
      ∃ ts', decRecords ts ps.length (bs ++ rest) = .ok (ts', rest) ∧ ts'.size = ts.size ∧
        (∀ m, m ∉ ps.map (posOf d.heap L) → ts'[m]? = ts[m]?) ∧
        (∀ p n, p ∈ ps → d.heap[p]? = some n →
          ts'[posOf d.heap L p]? = (ts[posOf d.heap L p]?).map (fillFrom d.heap L n)) := by
  intro ps bs he
  induction he with
  | nil =>
    intro ts rest _ _ _ _
    exact ⟨ts, by simp [decRecords], rfl, fun _ _ => rfl, fun p n hp => by cases hp⟩
  | @cons c cn r ps bs hc hr he' ih =>
    intro ts rest hreach hpos hsize hnd
    have hcr : Reach d.heap d.root c := hreach c List.mem_cons_self
    obtain ⟨hreq, hlinks⟩ := encRecord_eq d.heap L cn r (wf.lens c cn hcr hc) hr
    have hposc : posOf d.heap L c = searchGE L cn.id := by simp [posOf, hc]
    have hlt : searchGE L cn.id < ts.size := hposc ▸ hpos c hcr
    obtain ⟨n0, hn0⟩ : ∃ n0, ts[searchGE L cn.id]? = some n0 := ⟨ts[searchGE L cn.id], by simp [hlt]⟩
    obtain ⟨hs1, hs2, hs3⟩ := wf.small c cn hcr hc
    have htg : ∀ t ∈ cn.links.map (posOf d.heap L), t < ts.size ∧ t < 2 ^ 64 := by
      intro t ht
      rw [List.mem_map] at ht
      obtain ⟨q, hq, rfl⟩ := ht
      have := hpos q (Reach.step hcr hc hq)
      exact ⟨this, by omega⟩
    have hone := decRecords_one ts ps.length (searchGE L cn.id) cn.numWords cn.final cn.labels
      (cn.links.map (posOf d.heap L)) (bs ++ rest) n0 hn0 (by omega) hs2 hs3
      (by rw [List.length_map]; exact wf.lens c cn hcr hc) htg
    rw [List.map_cons, List.nodup_cons] at hnd
    obtain ⟨ts', hdec, hsz, hother, hmine⟩ := ih
      (ts.setIfInBounds (searchGE L cn.id) (fillFrom d.heap L cn n0)) rest
      (fun p hp => hreach p (List.mem_cons_of_mem _ hp))
      (fun p hp => by rw [Array.size_setIfInBounds]; exact hpos p hp)
      (by rw [Array.size_setIfInBounds]; exact hsize) hnd.2
    refine ⟨ts', ?_, ?_, ?_, ?_⟩
    · rw [List.length_cons, List.append_assoc, hreq, hone]
      exact hdec
    · rw [hsz, Array.size_setIfInBounds]
    · intro m hm
      rw [List.map_cons, List.mem_cons] at hm
      rw [hother m (fun h => hm (Or.inr h))]
      rw [Array.getElem?_setIfInBounds_ne]
      intro h; exact hm (Or.inl (by rw [hposc, h]))
    · intro p n hp hn
      rw [List.mem_cons] at hp
      rcases hp with rfl | hp
      · rw [hc] at hn; cases hn
        rw [hposc, hother _ (hposc ▸ hnd.1), Array.getElem?_setIfInBounds_self, hn0]
        simp [hlt]
      · rw [hmine p n hp hn, Array.getElem?_setIfInBounds_ne]
        intro h
        apply hnd.1
        rw [hposc, h]
        exact List.mem_map_of_mem hp

end Dawg
