import Mamba.Lemmas.CanonFCertExpand
/-!
# Soundness of the partial-certificate pruning at list level

* `compare_append_lt`, `compare_append`, `compare_eq_neg_one_iff`, `compare_trans_lt`, … — facts about `ints.Compare`;
* `certPos_append` — the certificate of a prefix is a prefix of the full certificate;
* `worseTest_true` — what `worseTest … = .ok true` computed;
* `worseTest_sound` — when `expandValue` reports "worse" for the certificate of the singleton prefix of an order `o`,
  every complete order that agrees with `o` on the prefix has a full certificate smaller than `currentBest`.
-/
namespace CanonF

/-! ## `ints.Compare` -/

theorem compare_self (a : List Nat) : compare a a = 0 := by
  induction a with
  | nil => rfl
  | cons p as ih => simp [compare, ih]

theorem compare_values (a b : List Nat) : compare a b = -1 ∨ compare a b = 0 ∨ compare a b = 1 := by
  induction a generalizing b with
  | nil => cases b <;> simp [compare]
  | cons p as ih =>
    cases b with
    | nil => simp [compare]
    | cons q bs =>
      simp only [compare]
      by_cases h1 : p > q
      · simp [h1]
      · by_cases h2 : p < q
        · simp [h1, h2]
        · simp only [h1, h2, if_false]; exact ih bs

/-- a strict difference inside the common length is not changed by extending both sides -/
theorem compare_append : ∀ (a b x y : List Nat), a.length = b.length → compare a b ≠ 0 →
    compare (a ++ x) (b ++ y) = compare a b := by
  intro a
  induction a with
  | nil =>
    intro b x y hl hc
    cases b with
    | nil => simp [compare] at hc
    | cons _ _ => simp at hl
  | cons p as ih =>
    intro b x y hl hc
    cases b with
    | nil => simp at hl
    | cons q bs =>
      simp only [List.cons_append, compare] at hc ⊢
      by_cases h1 : p > q
      · simp [h1]
      · by_cases h2 : p < q
        · simp [h1, h2]
        · simp only [h1, h2, if_false] at hc ⊢
          exact ih bs x y (by simpa using hl) hc

/-- if `v` is smaller than the prefix of `w` of its own length, every extension of `v` is smaller than `w` -/
theorem compare_append_lt {v w tail : List Nat} (hlen : v.length ≤ w.length) (h : compare v (w.take v.length) = -1) :
    compare (v ++ tail) w = -1 := by
  induction v generalizing w with
  | nil => simp [compare] at h
  | cons p vs ih =>
    cases w with
    | nil => simp at hlen
    | cons q ws =>
      simp only [List.length_cons, List.take_succ_cons, compare, List.cons_append] at h ⊢
      by_cases h1 : p > q
      · simp [h1] at h
      · by_cases h2 : p < q
        · simp [h1, h2]
        · simp only [h1, h2, if_false] at h ⊢
          exact ih (by simpa using hlen) h

/-- antisymmetry -/
theorem compare_eq_neg_one_iff (a b : List Nat) : compare a b = -1 ↔ compare b a = 1 := by
  induction a generalizing b with
  | nil => cases b <;> simp [compare]
  | cons p as ih =>
    cases b with
    | nil => simp [compare]
    | cons q bs =>
      simp only [compare]
      by_cases h1 : p > q
      · have h3 : ¬ q > p := by omega
        have h4 : q < p := h1
        simp [h1, h3]
      · by_cases h2 : p < q
        · have h3 : q > p := h2
          simp [h1, h2]
        · have h3 : ¬ q > p := h2
          have h4 : ¬ q < p := h1
          simp only [h1, h2, if_false]
          exact ih bs

theorem compare_eq_zero_iff (a b : List Nat) : compare a b = 0 ↔ a = b := by
  induction a generalizing b with
  | nil => cases b <;> simp [compare]
  | cons p as ih =>
    cases b with
    | nil => simp [compare]
    | cons q bs =>
      simp only [compare]
      by_cases h1 : p > q
      · simp [h1]; omega
      · by_cases h2 : p < q
        · simp [h1, h2]; omega
        · have : p = q := by omega
          subst this
          simp [ih bs]

theorem compare_trans_lt (a b c : List Nat) : compare a b = -1 → compare b c ≠ 1 → compare a c = -1 := by
  induction a generalizing b c with
  | nil =>
    intro h1 h2
    cases b with
    | nil => simp [compare] at h1
    | cons q bs =>
      cases c with
      | nil => simp [compare] at h2
      | cons r cs => simp [compare]
  | cons p as ih =>
    intro h1 h2
    cases b with
    | nil => simp [compare] at h1
    | cons q bs =>
      cases c with
      | nil => simp [compare] at h2
      | cons r cs =>
        simp only [compare] at h1 h2 ⊢
        by_cases a1 : p > q
        · simp [a1] at h1
        · by_cases b1 : q > r
          · simp [b1] at h2
          · by_cases a2 : p < q
            · have c1 : ¬ p > r := by omega
              have c2 : p < r := by omega
              simp [c1, c2]
            · by_cases b2 : q < r
              · have c1 : ¬ p > r := by omega
                have c2 : p < r := by omega
                simp [c1, c2]
              · have c1 : ¬ p > r := by omega
                have c2 : ¬ p < r := by omega
                simp only [a1, a2, b1, b2, c1, c2, if_false] at h1 h2 ⊢
                exact ih bs cs h1 h2

/-- `a < b ≤ c` and `a ≤ b < c` variants -/
theorem compare_trans_le_lt (a b c : List Nat) (h1 : compare a b ≠ 1) (h2 : compare b c = -1) : compare a c = -1 := by
  rw [compare_eq_neg_one_iff] at h2 ⊢
  -- c > b ≥ a
  have h3 : compare c b = 1 := h2
  rcases compare_values a b with h | h | h
  · -- a < b < c
    have := compare_trans_lt a b c h (by rw [(compare_eq_neg_one_iff b c).2 h3]; decide)
    exact (compare_eq_neg_one_iff a c).1 this
  · rw [(compare_eq_zero_iff a b).1 h]; exact h3
  · exact absurd h h1

/-! ## the certificate of a prefix is a prefix of the certificate -/

theorem certPos_append (nb : Nbrs) (o : List Nat) (s n : Nat) (hs : s ≤ n) :
    ∃ tail, certPos nb o n = certPos nb o s ++ tail := by
  obtain ⟨e, he, _⟩ := certPos_split nb o s n hs
  exact ⟨e, he⟩

/-! ## `worseTest` -/

/-- what `worseTest … = .ok true` computed -/
theorem worseTest_true {value cb fl : Sl Nat} (h : worseTest value cb fl = .ok true) :
    0 < cb.len ∧ value.len ≤ cb.data.size ∧ value.len ≤ fl.data.size ∧
      compare value.toList (cb.data.toList.take value.len) = -1 ∧
      compare value.toList (fl.data.toList.take value.len) ≠ 0 := by
  unfold worseTest at h
  by_cases h0 : cb.len > 0
  · rw [if_pos h0] at h
    cases h1 : cb.reslice value.len with
    | ok cb' =>
      rw [h1] at h
      obtain ⟨g1, rfl⟩ := Sl.reslice_eq_ok.1 h1
      simp only at h
      by_cases hc : compare value.toList (Sl.toList ⟨cb.data, value.len⟩) = -1
      · rw [if_pos (by rw [hc]; rfl)] at h
        cases h2 : fl.reslice value.len with
        | ok fl' =>
          rw [h2] at h
          obtain ⟨g2, rfl⟩ := Sl.reslice_eq_ok.1 h2
          simp only at h
          refine ⟨h0, g1, g2, hc, ?_⟩
          have h' := Outcome.ok.inj h
          have h'' : compare value.toList (Sl.toList ⟨fl.data, value.len⟩) ≠ 0 := by simpa using h'
          exact h''
        | panic => rw [h2] at h; cases h
        | outOfFuel => rw [h2] at h; cases h
      · rw [if_neg (by simpa using hc)] at h
        cases h
    | panic => rw [h1] at h; cases h
    | outOfFuel => rw [h1] at h; cases h
  · rw [if_neg h0] at h
    cases h

/-- soundness of the pruning: a "worse" partial certificate makes every leaf below the node worse than `currentBest` -/
theorem worseTest_sound {nb : Nbrs} {o o' : List Nat} {s n : Nat} {value cb fl : Sl Nat}
    (hval : value.toList = certPos nb o s) (hvw : value.WF) (hs : s ≤ n) (hso : s ≤ o.length) (hso' : s ≤ o'.length)
    (hagree : ∀ p, p < s → o'[p]? = o[p]?)
    (hcb : cb.WF) (hlen : (certPos nb o' n).length = cb.len)
    (h : worseTest value cb fl = .ok true) :
    compare (certPos nb o' n) cb.toList = -1 := by
  obtain ⟨_, _, _, hcmp, _⟩ := worseTest_true h
  obtain ⟨tail, ht⟩ := certPos_append nb o' s n hs
  rw [certPos_frame nb o o' s hso hso' hagree, ← hval] at ht
  have hvl : value.toList.length = value.len := Sl.length_toList _ hvw
  have hcl : cb.toList.length = cb.len := Sl.length_toList _ hcb
  have hle : value.len ≤ cb.len := by
    rw [← hlen, ht, List.length_append, hvl]; omega
  rw [ht]
  apply compare_append_lt (by omega)
  have e : cb.toList.take value.toList.length = cb.data.toList.take value.len := by
    rw [hvl, Sl.toList, List.take_take, Nat.min_eq_left hle]
  rw [e]
  exact hcmp

end CanonF
