import Mamba.Lemmas.CanonFOrbDef
/-!
# Orbit completeness: a subtree pruned by the "worse" test has no leaf with the certificate of the first leaf
-/
namespace CanonF

/-- a "worse" partial certificate differs from the prefix of `firstLeaf`: no leaf below has the certificate `firstLeaf` -/
theorem worseTest_sound_fl {nb : Nbrs} {o o' : List Nat} {s n : Nat} {value cb fl : Sl Nat}
    (hval : value.toList = certPos nb o s) (hvw : value.WF) (hs : s ≤ n) (hso : s ≤ o.length) (hso' : s ≤ o'.length)
    (hagree : ∀ p, p < s → o'[p]? = o[p]?)
    (hlen : (certPos nb o' n).length = fl.len)
    (h : worseTest value cb fl = .ok true) :
    certPos nb o' n ≠ fl.toList := by
  obtain ⟨_, _, _, _, hcmp⟩ := worseTest_true h
  obtain ⟨tail, ht⟩ := certPos_append nb o' s n hs
  rw [certPos_frame nb o o' s hso hso' hagree, ← hval] at ht
  have hvl : value.toList.length = value.len := Sl.length_toList _ hvw
  have hle : value.len ≤ fl.len := by
    rw [← hlen, ht, List.length_append, hvl]; omega
  intro heq
  have e : fl.toList.take value.toList.length = fl.data.toList.take value.len := by
    rw [hvl, Sl.toList, List.take_take, Nat.min_eq_left hle]
  rw [← e, ← heq, ht, List.take_left, compare_self] at hcmp
  exact hcmp rfl

set_option maxHeartbeats 1000000 in
/-- cf. `worse_complete` (CanonFPruneTree.lean): a "worse" prefix certificate differs from the prefix of `firstLeaf`, so no
leaf below has the certificate of the first leaf -/
theorem worse_acov {n : Nat} {nb : Nbrs} (rf : Nat) (hnb : NbOK nb n) (hsz : nb.size = n) {op : OP}
    {cb fl : Sl Nat} {χ : IR.St}
    (hp : PartInv n op) (hps : PrefixSingle op) (hvw : op.value.WF)
    (hval : op.value.toList = certPos nb op.order.toList op.spl)
    (hwt : worseTest op.value cb fl = .ok true) (hfl : fl.WF) (hfll : fl.len = ((nb.toList.map List.length).sum) / 2)
    (hmono : IR.Mono n (colOf n op) χ.c) (hA : IR.InvA (irG n nb) χ) (hD : IR.InvD (irG n nb) χ)
    (lF : Array Nat) (R : Nat → Nat → Prop) : ACov n nb rf lF fl.toList R χ := by
  have _ := hfl
  intro vs hpath htn hx
  exfalso
  have hg := irG_wf hnb
  obtain ⟨_, hA', hD'⟩ := IR.path_cells hg (rf := rf) vs χ hA hD hpath
  have hperm : IR.IsPerm n (IR.nodeAt (irG n nb) rf χ vs).c := isPerm_of_target_none (g := irG n nb) hA' hD' htn
  have hmono' : IR.Mono n (colOf n op) (IR.nodeAt (irG n nb) rf χ vs).c := hmono.trans (path_mono hnb rf vs χ hpath)
  have holen : op.order.toList.length = n := by rw [Sl.length_toList _ hp.wfOrder, hp.lenOrder]
  have hnd : op.order.toList.Nodup := hp.perm.nodup_iff.2 List.nodup_range
  have hspl : op.spl ≤ n := Nat.le_trans hps.le hp.bdLen_le
  have hagree : ∀ p, p < op.spl →
      (IR.invOrder n (IR.nodeAt (irG n nb) rf χ vs).c)[p]? = op.order.toList[p]? := by
    intro p hpl
    have := IR.invOrder_prefix hperm hmono' (s := op.spl) (f := fun p => op.order.toList.getD p 0)
      (by
        intro q hq
        have hq' : q < op.order.toList.length := by omega
        have hget : op.order.toList[q]? = some (op.order.toList.getD q 0) := by
          rw [List.getD_eq_getElem?_getD, List.getElem?_eq_getElem hq', Option.getD_some]
        refine ⟨perm_range_lt hp.perm hget, ?_⟩
        rw [col_colOf (perm_range_lt hp.perm hget), cellOf_order hp hget]
        exact binIdx_eq_of_single _ hp.sorted op.spl hps.single q hq)
      (by
        intro v hv hne
        rw [col_colOf hv]
        have hmem : v ∈ op.order.toList := hp.perm.mem_iff.2 (List.mem_range.2 hv)
        have hget := getElem?_idxOf_of_mem hmem
        rw [cellOf_order hp hget]
        rcases Nat.lt_or_ge (binIdx op.binDividers.toList (op.order.toList.idxOf v)) op.spl with hlt | hge
        · exfalso
          have hq := (binIdx_lt_iff_of_single _ hp.sorted op.spl hps.single _).1 hlt
          apply hne _ hq
          rw [List.getD_eq_getElem?_getD, hget, Option.getD_some]
        · exact hge)
      (by
        intro a b ha hb e
        have ha' : a < op.order.toList.length := by omega
        have hb' : b < op.order.toList.length := by omega
        simp only [List.getD_eq_getElem?_getD, List.getElem?_eq_getElem ha', List.getElem?_eq_getElem hb',
          Option.getD_some] at e
        exact (List.getElem_inj hnd).mp e)
      p hpl
    rw [this, List.getD_eq_getElem?_getD, List.getElem?_eq_getElem (by omega : p < op.order.toList.length),
      Option.getD_some]
  have hoperm := IR.invOrder_perm hperm
  have hcert : fl.toList = certPos nb (IR.invOrder n (IR.nodeAt (irG n nb) rf χ vs).c) n := by
    rw [← hx, ← IR.cert_tab_invOrder hg hperm]
    exact cert_link hnb hoperm
  exact worseTest_sound_fl hval hvw hspl (by omega) (by rw [IR.invOrder_length]; exact hspl) hagree
    (by rw [certPos_length hnb hsz hoperm, hfll]) hwt hcert.symm

/-- cf. `worse_cov_core` (CanonFCovWorse.lean) -/
theorem worse_acov_core {n m : Nat} {nb : Nbrs} {rf : Nat} (hnb : NbOK nb n) (hsz : nb.size = n)
    (hm : m = ((nb.toList.map List.length).sum) / 2) {s : LS} {op' : OP} {χ : IR.St}
    (hc : Core n s) (hg : GInv n m nb s) (hb : BestOK m s) (hp : PartInv n op')
    (hva : VAny nb s.currentBest s.firstLeaf op') (hwt : worseTest op'.value s.currentBest s.firstLeaf = .ok true)
    (hmono : IR.Mono n (colOf n op') χ.c) (hA : IR.InvA (irG n nb) χ) (hD : IR.InvD (irG n nb) χ)
    (lF : Array Nat) (R : Nat → Nat → Prop) : ACov n nb rf lF s.firstLeaf.toList R χ := by
  have _ := hc
  have _ := hb
  have hfacts : PrefixSingle op' ∧ op'.value.WF ∧ op'.value.toList = certPos nb op'.order.toList op'.spl := by
    rcases hva with h | ⟨h, _⟩
    · exact ⟨h.pre.toPrefixSingle, h.wf, h.val⟩
    · exact ⟨h.pre, h.wf, h.val⟩
  exact worse_acov rf hnb hsz hp hfacts.1 hfacts.2.1 hfacts.2.2 hwt hg.flLen.2 (by rw [hg.flLen.1, hm]) hmono hA hD lF R

set_option maxHeartbeats 1000000 in
/-- cf. `cov_split_worse` -/
theorem acov_split_worse {n m : Nat} {nb : Nbrs} {rf : Nat} {r : IR.St} (hnb : NbOK nb n) (hsz : nb.size = n)
    (hm : m = ((nb.toList.map List.length).sum) / 2) (hrf : 3 * n + 3 ≤ rf)
    (hA : IR.InvA (irG n nb) r) (hD : IR.InvD (irG n nb) r)
    (st sz : Nat) (ls : List (Nat × Nat)) (s : LS) (c : Nat) (cs : List Nat) (p : Nat) (ps : List Nat)
    (op' : OP) (k : Nat) (hc : Core n s) (ht : TopOK s.op (k + 1) s.path s.choices ((st, sz) :: ls))
    (hage : s.op.age + 1 = s.path.length) (hch : s.choices = c :: cs) (hpth : s.path = p :: ps)
    (hs : splitBin nb s.currentBest s.firstLeaf s.op (c - 1) = .ok (true, op'))
    {vs : List Nat} (hw : WalkNv n nb rf r vs ((st, sz) :: ls) s) (hcert : CertN n m nb ((st, sz) :: ls) s)
    (lF : Array Nat) (R : Nat → Nat → Prop) :
    ∀ v, (cellL n nb rf r vs vs.length st)[k]? = some v →
      ACov n nb rf lF s.firstLeaf.toList R (IR.childSt (irG n nb) rf (nodeL n nb rf r vs vs.length) st v) := by
  have _ := hrf
  obtain ⟨h1, h2, h3, h4, h5, h6, h7⟩ := hw
  rw [hpth, hch] at ht h5
  simp only [TopOK] at ht
  obtain ⟨tb, tsz, tc, tk, _⟩ := ht
  rw [hpth] at h3 hage
  simp only [List.length_cons] at h3 hage
  have hvl : vs.length = ps.length := by omega
  have hmt : Match n s.op (nodeL n nb rf r vs vs.length) :=
    (h4 vs.length (Nat.le_refl _)).toMatch hc.part hc.age (by omega) h7
  have hb : IsBinAt (s.op.age + 1) s.op st sz := by
    have : s.op.age + 1 = (ps.length : Int) + 1 := by omega
    rw [this]; exact tb
  obtain ⟨hi, hns, hfb, f4, _, _, _, f8, f9, f10⟩ := frame_facts (nb := nb) hc.part hc.age hmt hb tsz
    (show st ≤ c - 1 by omega) (show c - 1 < st + sz by omega)
  obtain ⟨v', hv, hvm, hm'⟩ := splitBin_match hc.part hc.age hi hns hmt h7 hs
  rw [f4] at hvm hm'
  have hck : c - 1 = st + k := by omega
  have hCk : (IR.cellMembers (irG n nb) (nodeL n nb rf r vs vs.length).c st)[k]? = some v' := by
    rw [← f10 h6 k (by omega), ← hck]; exact hv
  intro v hvk
  unfold cellL at hvk
  rw [hCk] at hvk
  cases hvk
  obtain ⟨q1, _⟩ := splitBin_inv hc.part hc.age hi hns hs
  have hva : VAny nb s.currentBest s.firstLeaf op' :=
    (splitBin_cert expandValue_cert hc.part hc.age hi hns hcert.2.1 hs).2 rfl
  have hwt : worseTest op'.value s.currentBest s.firstLeaf = .ok true := by
    obtain ⟨op1, _, _, _, _, _, _, _, _, hif⟩ := splitBin_decomp_ages hc.part hc.age hi hns hs
    by_cases hcond : binIdx s.op.binDividers.toList (c - 1) = s.op.spl
    · rw [if_pos hcond] at hif
      exact expandValue_worse_test hif
    · rw [if_neg hcond] at hif
      exact absurd hif.1 (by simp)
  obtain ⟨iA, iD⟩ := child_inv hnb hA hD h1 vs.length f8 hvm
  have hmono : IR.Mono n (colOf n op')
      (IR.childSt (irG n nb) rf (nodeL n nb rf r vs vs.length) st v').c := by
    have := IR.refine_mono (irG_wf hnb) rf (IR.individualise (irG n nb) (nodeL n nb rf r vs vs.length) st v')
    rw [hm'.col] at this
    exact this
  exact worse_acov_core hnb hsz hm hc hcert.1 hcert.2.2 q1 hva hwt hmono iA iD lF R

/-- cf. `cov_refine_worse` -/
theorem acov_refine_worse {n m : Nat} {nb : Nbrs} {rf : Nat} {r : IR.St} (hnb : NbOK nb n) (hsz : nb.size = n)
    (hm : m = ((nb.toList.map List.length).sum) / 2) (hrf : 3 * n + 3 ≤ rf)
    (hA : IR.InvA (irG n nb) r) (hD : IR.InvD (irG n nb) r)
    (lv : List (Nat × Nat)) (s : LS) (op' : OP) (sc' : Scratch) (hc : Core n s) (htl : s.sc.timesSeen.len = n)
    {vs : List Nat} {t v : Nat} (hw : WalkSv n nb rf r vs t v lv s) (hcert : CertN n m nb lv s)
    (hr : refine nb s.currentBest s.firstLeaf {} s.op s.sc = .ok (true, op', sc'))
    (lF : Array Nat) (R : Nat → Nat → Prop) :
    ACov n nb rf lF s.firstLeaf.toList R (IR.childSt (irG n nb) rf (nodeL n nb rf r vs vs.length) t v) := by
  obtain ⟨h1, _, _, _, h5, h6, h7, h8, _, _⟩ := hw
  obtain ⟨hmono, hwt⟩ := refine_worse_mono hc.part hc.age hc.scr htl h8 hnb h7 rfl hr rf hrf
  have hva : VAny nb s.currentBest s.firstLeaf op' :=
    (refine_cert stablePerm expandValue_cert hc.part hc.age hc.scr hcert.2.1 hr).2 rfl
  obtain ⟨q1, _⟩ := refine_inv stablePerm hc.part hc.age hc.scr hr
  obtain ⟨iA, iD⟩ := child_inv hnb hA hD h1 vs.length h5 h6
  exact worse_acov_core hnb hsz hm hc hcert.1 hcert.2.2 q1 hva hwt hmono iA iD lF R

end CanonF
