import Mamba.Lemmas.DistanceBfs
import Mamba.Lemmas.DistanceEcc
import Mamba.Lemmas.DistanceCycles
import Mathlib.Data.List.Perm.Subperm
import Mathlib.Data.List.Nodup
/-!
# Lemmas for C10: the distance definitions and references are invariant under relabelling
-/
namespace GDist
open GraphSpec

variable {g : G} {p : List Nat}

theorem getD_eq_of_lt {l : List Nat} {i : Nat} (h : i < l.length) : l.getD i 0 = l[i] :=
  (List.getElem_eq_getD (h := h) 0).symm

theorem IsPermOf.getD_lt (hp : IsPermOf g.n p) {i : Nat} (hi : i < g.n) : p.getD i 0 < g.n := by
  have : i < p.length := by rw [hp.1]; exact hi
  rw [getD_eq_of_lt this]
  exact hp.2.2 _ (List.getElem_mem this)

theorem IsPermOf.surj (hp : IsPermOf g.n p) {x : Nat} (hx : x < g.n) : ∃ j, j < g.n ∧ p.getD j 0 = x := by
  have hsub : ∀ y ∈ p, y ∈ List.range g.n := fun y hy => List.mem_range.2 (hp.2.2 y hy)
  have hperm : p.Perm (List.range g.n) :=
    (List.subperm_of_subset hp.2.1 hsub).perm_of_length_le (by simp [hp.1])
  have hxp : x ∈ p := hperm.mem_iff.2 (List.mem_range.2 hx)
  obtain ⟨j, hj, hjx⟩ := List.mem_iff_getElem.1 hxp
  exact ⟨j, by rw [← hp.1]; exact hj, by rw [getD_eq_of_lt hj]; exact hjx⟩

theorem IsPermOf.inj (hp : IsPermOf g.n p) {i j : Nat} (hi : i < g.n) (hj : j < g.n)
    (h : p.getD i 0 = p.getD j 0) : i = j := by
  have hi' : i < p.length := by rw [hp.1]; exact hi
  have hj' : j < p.length := by rw [hp.1]; exact hj
  rw [getD_eq_of_lt hi', getD_eq_of_lt hj'] at h
  exact (hp.2.1.getElem_inj_iff).1 h

theorem induced_n (hp : IsPermOf g.n p) : (g.induced p).n = g.n := hp.1

theorem induced_adj (hp : IsPermOf g.n p) {i j : Nat} (hi : i < g.n) (hj : j < g.n) :
    (g.induced p).adj i j = g.adj (p.getD i 0) (p.getD j 0) := by
  simp [G.induced, hp.1, hi, hj]

theorem walk_induced (hp : IsPermOf g.n p) {i j k : Nat} (h : Walk (g.induced p) i j k) :
    Walk g (p.getD i 0) (p.getD j 0) k := by
  unfold Walk at h ⊢
  rw [induced_n hp] at h
  induction h with
  | base h => exact .base (List.mem_range.2 (hp.getD_lt (List.mem_range.1 h)))
  | @step u x k hw hadj hx ih =>
    have hu := List.mem_range.1 hw.mem_V
    have hx' := List.mem_range.1 hx
    rw [induced_adj hp hu hx'] at hadj
    exact .step ih hadj (List.mem_range.2 (hp.getD_lt hx'))

theorem walk_induced_conv (hp : IsPermOf g.n p) {i : Nat} (hi : i < g.n) {b k : Nat}
    (h : Walk g (p.getD i 0) b k) : ∃ j, j < g.n ∧ p.getD j 0 = b ∧ Walk (g.induced p) i j k := by
  unfold Walk at h ⊢
  rw [induced_n hp]
  induction h with
  | base _ => exact ⟨i, hi, rfl, .base (List.mem_range.2 hi)⟩
  | @step u x k _ hadj hx ih =>
    obtain ⟨j0, hj0, hj0u, hw⟩ := ih
    obtain ⟨j1, hj1, hj1x⟩ := hp.surj (List.mem_range.1 hx)
    refine ⟨j1, hj1, hj1x, .step hw ?_ (List.mem_range.2 hj1)⟩
    rw [induced_adj hp hj0 hj1, hj0u, hj1x]; exact hadj

theorem walk_induced_iff (hp : IsPermOf g.n p) {i j k : Nat} (hi : i < g.n) (hj : j < g.n) :
    Walk (g.induced p) i j k ↔ Walk g (p.getD i 0) (p.getD j 0) k := by
  constructor
  · exact walk_induced hp
  · intro h
    obtain ⟨j', hj', hjj, hw⟩ := walk_induced_conv hp hi h
    rw [hp.inj hj' hj hjj] at hw
    exact hw

/-- the reference distance commutes with relabelling -/
theorem dist_induced (hp : IsPermOf g.n p) {i j : Nat} (hi : i < g.n) (hj : j < g.n) :
    dist (g.induced p) i j = dist g (p.getD i 0) (p.getD j 0) := by
  apply Option.ext
  intro k
  unfold dist
  rw [distIn_eq_some_iff, distIn_eq_some_iff]
  show IsDist (g.induced p) i j k ↔ IsDist g (p.getD i 0) (p.getD j 0) k
  unfold IsDist IsDistIn
  constructor
  · rintro ⟨h1, h2⟩
    exact ⟨walk_induced hp h1, fun j' hj' hw => h2 j' hj' ((walk_induced_iff hp hi hj).2 hw)⟩
  · rintro ⟨h1, h2⟩
    exact ⟨(walk_induced_iff hp hi hj).2 h1, fun j' hj' hw => h2 j' hj' (walk_induced hp hw)⟩

theorem isDist_induced_iff (hp : IsPermOf g.n p) {i j k : Nat} (hi : i < g.n) (hj : j < g.n) :
    IsDist (g.induced p) i j k ↔ IsDist g (p.getD i 0) (p.getD j 0) k := by
  have h := dist_induced hp hi hj
  unfold dist at h
  have h1 : IsDist (g.induced p) i j k ↔ distIn (g.induced p) (List.range (g.induced p).n) i j = some k :=
    distIn_eq_some_iff.symm
  have h2 : IsDist g (p.getD i 0) (p.getD j 0) k ↔ distIn g (List.range g.n) (p.getD i 0) (p.getD j 0) = some k :=
    distIn_eq_some_iff.symm
  rw [h1, h2, h]

theorem connectedB_induced (hp : IsPermOf g.n p) : connectedB (g.induced p) = connectedB g := by
  have h1 : connectedB (g.induced p) = true ↔ connectedB g = true := by
    rw [connectedB_iff, connectedB_iff, induced_n hp]
    constructor
    · intro h s x hs hx
      obtain ⟨i, hi, rfl⟩ := hp.surj hs
      obtain ⟨j, hj, rfl⟩ := hp.surj hx
      obtain ⟨k, hk⟩ := h i j hi hj
      exact ⟨k, walk_induced hp hk⟩
    · intro h i j hi hj
      obtain ⟨k, hk⟩ := h _ _ (hp.getD_lt hi) (hp.getD_lt hj)
      exact ⟨k, (walk_induced_iff hp hi hj).2 hk⟩
  cases h2 : connectedB (g.induced p) <;> cases h3 : connectedB g <;> simp_all

theorem isEcc_induced_iff (hp : IsPermOf g.n p) {i e : Nat} (hi : i < g.n) :
    IsEcc (g.induced p) i e ↔ IsEcc g (p.getD i 0) e := by
  unfold IsEcc
  rw [induced_n hp]
  constructor
  · rintro ⟨h1, x, hx, hxe⟩
    refine ⟨?_, p.getD x 0, hp.getD_lt hx, (isDist_induced_iff hp hi hx).1 hxe⟩
    intro y hy
    obtain ⟨j, hj, rfl⟩ := hp.surj hy
    obtain ⟨k, hk, hke⟩ := h1 j hj
    exact ⟨k, (isDist_induced_iff hp hi hj).1 hk, hke⟩
  · rintro ⟨h1, y, hy, hye⟩
    obtain ⟨j, hj, rfl⟩ := hp.surj hy
    refine ⟨?_, j, hj, (isDist_induced_iff hp hi hj).2 hye⟩
    intro x hx
    obtain ⟨k, hk, hke⟩ := h1 _ (hp.getD_lt hx)
    exact ⟨k, (isDist_induced_iff hp hi hx).2 hk, hke⟩

/-- eccentricities commute with relabelling -/
theorem ecc_induced (hp : IsPermOf g.n p) {i : Nat} (hi : i < g.n) :
    ecc (g.induced p) i = ecc g (p.getD i 0) := by
  unfold ecc
  rw [connectedB_induced hp]
  by_cases hc : connectedB g = true
  · simp only [hc, if_true]
    have hc' : connectedB (g.induced p) = true := by rw [connectedB_induced hp]; exact hc
    have h1 := eccNat_isEcc hc' (v := i) (by rw [induced_n hp]; exact hi)
    have h2 := eccNat_isEcc hc (hp.getD_lt hi)
    rw [((isEcc_induced_iff hp hi).1 h1).unique h2]
  · simp [hc]

/-- diameter and radius are unchanged by relabelling -/
theorem diameter_radius_induced (hp : IsPermOf g.n p) :
    diameter (g.induced p) = diameter g ∧ radius (g.induced p) = radius g := by
  have hcb := connectedB_induced hp
  have hn := induced_n hp
  unfold diameter radius
  rw [hcb, hn]
  by_cases h0 : g.n = 0
  · simp [h0]
  by_cases hc : connectedB g = true
  swap
  · simp [h0, hc]
  simp only [h0, hc, if_false, if_true]
  have hne : ∀ (h : G), h.n = g.n → eccs h ≠ [] := by
    intro h hh; rw [eccs_eq]; simp; omega
  -- both are max / min of the same set of values
  have hmem : ∀ z, z ∈ eccs (g.induced p) ↔ z ∈ eccs g := by
    intro z
    rw [eccs_eq, eccs_eq, hn]
    simp only [List.mem_map, List.mem_range]
    constructor
    · rintro ⟨i, hi, rfl⟩; exact ⟨_, hp.getD_lt hi, (ecc_induced hp hi).symm⟩
    · rintro ⟨x, hx, rfl⟩
      obtain ⟨j, hj, rfl⟩ := hp.surj hx
      exact ⟨j, hj, ecc_induced hp hj⟩
  constructor
  · apply Int.le_antisymm
    · exact le_listMaxInt ((hmem _).1 (listMaxInt_mem (hne _ hn)))
    · exact le_listMaxInt ((hmem _).2 (listMaxInt_mem (hne _ rfl)))
  · apply Int.le_antisymm
    · exact listMinInt_le ((hmem _).2 (listMinInt_mem (hne _ rfl)))
    · exact listMinInt_le ((hmem _).1 (listMinInt_mem (hne _ hn)))

theorem chainAdj_map {h g : G} (f : Nat → Nat) :
    ∀ c : List Nat, (∀ a ∈ c, ∀ b ∈ c, h.adj a b = true → g.adj (f a) (f b) = true) →
      chainAdj h c → chainAdj g (c.map f)
  | [], _, _ => trivial
  | [_], _, _ => trivial
  | a :: b :: t, hadj, hc => by
    simp only [List.map_cons, chainAdj] at hc ⊢
    refine ⟨hadj b (by simp) a (by simp) hc.1, ?_⟩
    have := chainAdj_map f (b :: t) (fun x hx y hy => hadj x (List.mem_cons_of_mem _ hx) y (List.mem_cons_of_mem _ hy)) hc.2
    simpa using this

/-- transport of a cycle along a map that preserves adjacency on the cycle and is injective on it -/
theorem isCycleSeq_map {h g : G} (f : Nat → Nat) {c : List Nat} (hc : IsCycleSeq h c)
    (hinj : ∀ a ∈ c, ∀ b ∈ c, f a = f b → a = b)
    (hrange : ∀ a ∈ c, f a < g.n)
    (hadj : ∀ a ∈ c, ∀ b ∈ c, h.adj a b = true → g.adj (f a) (f b) = true) :
    IsCycleSeq g (c.map f) := by
  obtain ⟨h1, h2, h3, h4, h5⟩ := hc
  refine ⟨by simpa using h1, List.Nodup.map_on hinj h2, ?_, chainAdj_map f c hadj h4, ?_⟩
  · intro x hx
    obtain ⟨a, ha, rfl⟩ := List.mem_map.1 hx
    exact hrange a ha
  · have hne : c ≠ [] := by intro h; rw [h] at h1; simp at h1
    have hhead : (c.map f).headD 0 = f (c.headD 0) := by
      cases c with
      | nil => exact absurd rfl hne
      | cons a t => rfl
    have hlast : (c.map f).getLastD 0 = f (c.getLastD 0) := by
      rw [List.getLastD_eq_getLast?, List.getLastD_eq_getLast?, List.getLast?_map]
      rw [getLast?_of_ne_nil hne]; rfl
    rw [hhead, hlast]
    have hm1 : c.headD 0 ∈ c := by
      cases c with
      | nil => exact absurd rfl hne
      | cons a t => simp
    exact hadj _ hm1 _ (getLastD_mem hne) h5


theorem girthOpt_eq_some_iff (g : G) (l : Nat) :
    girthOpt g = some l ↔ ((∃ c, IsCycleSeq g c ∧ c.length = l) ∧ ∀ c, IsCycleSeq g c → l ≤ c.length) := by
  unfold girthOpt
  rw [leastUpTo_eq_some]
  constructor
  · rintro ⟨_, _, h3, h4⟩
    refine ⟨(hasCycle_iff l).1 h3, ?_⟩
    intro c hc
    by_contra hlt
    have := h4 c.length (Nat.zero_le _) (by omega)
    rw [(hasCycle_iff c.length).2 ⟨c, hc, rfl⟩] at this
    cases this
  · rintro ⟨⟨c, hc, rfl⟩, hmin⟩
    refine ⟨Nat.zero_le _, by have := hc.length_le; omega, (hasCycle_iff _).2 ⟨c, hc, rfl⟩, ?_⟩
    intro j _ hj
    cases hj' : hasCycle g j with
    | false => rfl
    | true =>
      obtain ⟨c', hc', rfl⟩ := (hasCycle_iff j).1 hj'
      have := hmin c' hc'
      omega

theorem cycle_len_induced (hp : IsPermOf g.n p) (l : Nat) :
    (∃ c, IsCycleSeq (g.induced p) c ∧ c.length = l) ↔ (∃ c, IsCycleSeq g c ∧ c.length = l) := by
  have hn : (g.induced p).n = g.n := hp.1
  have hget : ∀ a (ha : a < g.n), p.getD a 0 = p[a]'(by rw [hp.1]; exact ha) := by
    intro a ha
    exact (List.getElem_eq_getD (h := by rw [hp.1]; exact ha) 0).symm
  have hadjI : ∀ a b, a < g.n → b < g.n → (g.induced p).adj a b = g.adj (p.getD a 0) (p.getD b 0) := by
    intro a b ha hb; simp [G.induced, hp.1, ha, hb]
  have hsub : ∀ y ∈ p, y ∈ List.range g.n := fun y hy => List.mem_range.2 (hp.2.2 y hy)
  have hperm : p.Perm (List.range g.n) :=
    (List.subperm_of_subset hp.2.1 hsub).perm_of_length_le (by simp [hp.1])
  have hmemp : ∀ x, x < g.n → x ∈ p := fun x hx => hperm.mem_iff.2 (List.mem_range.2 hx)
  constructor
  · rintro ⟨c, hc, rfl⟩
    have hr : ∀ a ∈ c, a < g.n := fun a ha => by have := hc.2.2.1 a ha; rwa [hn] at this
    refine ⟨c.map (fun a => p.getD a 0), isCycleSeq_map _ hc ?_ ?_ ?_, by simp⟩
    · intro a ha b hb hab
      have ha' := hr a ha
      have hb' := hr b hb
      simp only [hget a ha', hget b hb'] at hab
      exact (hp.2.1.getElem_inj_iff).1 hab
    · intro a ha
      rw [hget a (hr a ha)]
      exact hp.2.2 _ (List.getElem_mem _)
    · intro a ha b hb hab
      rwa [hadjI a b (hr a ha) (hr b hb)] at hab
  · rintro ⟨c, hc, rfl⟩
    have hr : ∀ a ∈ c, a < g.n := hc.2.2.1
    have hidx : ∀ a, a < g.n → p.idxOf a < g.n ∧ p.getD (p.idxOf a) 0 = a := by
      intro a ha
      have hlt : p.idxOf a < p.length := List.idxOf_lt_length_of_mem (hmemp a ha)
      refine ⟨by rw [← hp.1]; exact hlt, ?_⟩
      rw [(List.getElem_eq_getD (h := hlt) 0).symm]
      exact List.getElem_idxOf hlt
    refine ⟨c.map (fun a => p.idxOf a), isCycleSeq_map _ hc ?_ ?_ ?_, by simp⟩
    · intro a ha b hb hab
      have h1 := (hidx a (hr a ha)).2
      have h2 := (hidx b (hr b hb)).2
      rw [hab] at h1
      rw [← h1, h2]
    · intro a ha
      rw [hn]; exact (hidx a (hr a ha)).1
    · intro a ha b hb hab
      obtain ⟨h1, h2⟩ := hidx a (hr a ha)
      obtain ⟨h3, h4⟩ := hidx b (hr b hb)
      rw [hadjI _ _ h1 h3, h2, h4]; exact hab

/-- the girth is unchanged by relabelling -/
theorem girthOpt_induced (hp : IsPermOf g.n p) : girthOpt (g.induced p) = girthOpt g := by
  apply Option.ext
  intro l
  rw [girthOpt_eq_some_iff, girthOpt_eq_some_iff, cycle_len_induced hp l]
  constructor
  · rintro ⟨h1, h2⟩
    refine ⟨h1, fun c hc => ?_⟩
    obtain ⟨c', hc', hl⟩ := (cycle_len_induced hp c.length).2 ⟨c, hc, rfl⟩
    rw [← hl]; exact h2 c' hc'
  · rintro ⟨h1, h2⟩
    refine ⟨h1, fun c hc => ?_⟩
    obtain ⟨c', hc', hl⟩ := (cycle_len_induced hp c.length).1 ⟨c, hc, rfl⟩
    rw [← hl]; exact h2 c' hc'

end GDist
