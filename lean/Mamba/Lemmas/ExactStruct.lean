import Mamba.Lemmas.ExactScan
namespace Search
open Disjoint GSearch

/-- the last stage of `isCanonical`: the oracle is consulted with the viable bits `vb` -/
def OracleStage (O : Oracle) (cap : Nat) (g : DG) (vb : Nat) (c : Option Ans) (b : Bool) : Prop :=
  (getAut O cap g (some vb) = .ok none ∧ c = none ∧ b = false) ∨
  ∃ (a : Ans) (ds1 : DS) (correct : Nat) (ds2 : DS), getAut O cap g (some vb) = .ok (some a) ∧
    Disjoint.find a.orbits (g.nv - 1) = .ok (ds1, correct) ∧
    permScan g.nv vb correct a.perm.toList ds1 = .ok (ds2, b) ∧ c = some { a with orbits := ds2 }

/-- the control structure of `isCanonical` started without cached data -/
theorem isCanonical_struct {O : Oracle} {cap : Nat} {g : DG} {aug : List Nat} {c : Option Ans} {b : Bool}
    (h : isCanonical O cap g aug none = .ok (c, b)) :
    g.nv ≠ 0 ∧ ∃ degree, g.degs[g.nv - 1]? = some degree ∧
      ∃ r0, degreeScan g.degs degree (List.range (g.nv - 1)) 0 = .ok r0 ∧
        ((r0 = none ∧ c = none ∧ b = false) ∨
         ∃ vb0, r0 = some vb0 ∧
           ((vb0 = 0 ∧ c = none ∧ b = true) ∨
            (vb0 ≠ 0 ∧ ∃ sum square, sumSq g.degs aug (0, 0) = .ok (sum, square) ∧
              ∃ r1, sumScan g sum square (bitsOf vb0) vb0 = .ok r1 ∧
                ((r1 = none ∧ c = none ∧ b = false) ∨
                 ∃ vb, r1 = some vb ∧
                   ((vb = 0 ∧ c = none ∧ b = true) ∨ (vb ≠ 0 ∧ OracleStage O cap g vb c b)))))) := by
  unfold isCanonical at h
  simp only at h
  split at h
  · cases h
  · rename_i hnv
    refine ⟨hnv, ?_⟩
    split at h
    · cases h
    · rename_i degree hdeg
      refine ⟨degree, hdeg, ?_⟩
      split at h
      · cases h
      · cases h
      · rename_i hscan
        cases h
        exact ⟨none, hscan, Or.inl ⟨rfl, rfl, rfl⟩⟩
      · rename_i vb0 hscan
        refine ⟨some vb0, hscan, Or.inr ⟨vb0, rfl, ?_⟩⟩
        split at h
        · rename_i hz
          cases h
          exact Or.inl ⟨hz, rfl, rfl⟩
        · rename_i hz
          refine Or.inr ⟨hz, ?_⟩
          split at h
          · cases h
          · cases h
          · rename_i sum square hsq
            refine ⟨sum, square, hsq, ?_⟩
            split at h
            · cases h
            · cases h
            · rename_i hss
              cases h
              exact ⟨none, hss, Or.inl ⟨rfl, rfl, rfl⟩⟩
            · rename_i vb hss
              refine ⟨some vb, hss, Or.inr ⟨vb, rfl, ?_⟩⟩
              split at h
              · rename_i hz2
                cases h
                exact Or.inl ⟨hz2, rfl, rfl⟩
              · rename_i hz2
                refine Or.inr ⟨hz2, ?_⟩
                split at h
                · cases h
                · cases h
                · rename_i hga
                  cases h
                  exact Or.inl ⟨hga, rfl, rfl⟩
                · rename_i a hga
                  split at h
                  · cases h
                  · cases h
                  · rename_i ds1 correct hfind
                    split at h
                    · cases h
                    · cases h
                    · rename_i ds2 b' hps
                      cases h
                      exact Or.inr ⟨a, ds1, correct, ds2, hga, hfind, hps, rfl⟩

end Search
