import Mamba.Lemmas.ExactOracle
namespace Search

theorem testBit_lt_log2 {x v : Nat} (h : x.testBit v = true) : v < x.log2 + 1 := by
  have hx : x ≠ 0 := by rintro rfl; simp at h
  have h1 : 2 ^ v ≤ x := Nat.ge_two_pow_of_testBit h
  have h2 : x < 2 ^ (x.log2 + 1) := Nat.lt_log2_self
  exact (Nat.pow_lt_pow_iff_right (by decide : 1 < 2)).1 (Nat.lt_of_le_of_lt h1 h2)

theorem mem_bitsOf {x v : Nat} : v ∈ bitsOf x ↔ x.testBit v = true := by
  unfold bitsOf
  simp only [List.mem_filter, List.mem_range]
  exact ⟨fun h => h.2, fun h => ⟨testBit_lt_log2 h, h⟩⟩

theorem testBit_maskOf_aux : ∀ (l : List Nat) (acc v : Nat),
    (l.foldl (fun acc v => acc ||| (1 <<< v)) acc).testBit v = (acc.testBit v || decide (v ∈ l))
  | [], acc, v => by simp
  | w :: ws, acc, v => by
    simp only [List.foldl_cons]
    rw [testBit_maskOf_aux ws _ v, Nat.testBit_or, Nat.testBit_shiftLeft]
    by_cases h : v = w
    · subst h; simp
    · have h1 : (decide (v ≥ w) && (1 : Nat).testBit (v - w)) = false := by
        by_cases hge : v ≥ w
        · have hne : v - w ≠ 0 := by omega
          have : (1 : Nat).testBit (v - w) = false := by
            cases hb : (1 : Nat).testBit (v - w)
            · rfl
            · exact absurd (Nat.testBit_one_eq_true_iff_self_eq_zero.1 hb) hne
          simp [this]
        · simp [hge]
      simp [h1, h]

theorem testBit_maskOf (l : List Nat) (v : Nat) : (maskOf l).testBit v = decide (v ∈ l) := by
  unfold maskOf
  rw [testBit_maskOf_aux]; simp

theorem mem_bitsOf_maskOf {l : List Nat} {v : Nat} : v ∈ bitsOf (maskOf l) ↔ v ∈ l := by
  rw [mem_bitsOf, testBit_maskOf]; simp

theorem bitsOf_zero : bitsOf 0 = [] := by
  apply List.eq_nil_iff_forall_not_mem.2
  intro v hv
  have := mem_bitsOf.1 hv
  simp at this

theorem mem_bitsOf_shift {i v : Nat} : v ∈ bitsOf (1 <<< i) ↔ v = i := by
  rw [mem_bitsOf, Nat.testBit_shiftLeft]
  constructor
  · intro h
    simp only [Bool.and_eq_true, decide_eq_true_eq] at h
    have := (Nat.testBit_one_eq_true_iff_self_eq_zero).1 h.2
    omega
  · rintro rfl; simp

end Search
