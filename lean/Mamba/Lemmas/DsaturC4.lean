import Mamba.Lemmas.DsaturC3
/-! DSATUR model: the backtracking part of an iteration. -/
namespace CliqueColour
open GraphSpec

/-- what the backtracking part of an iteration guarantees when the current path is dead -/
def BacktrackPost (g : G) (U0 : Nat) (s : Dsat) : DsStep → Prop
  | .next r => DSInv g U0 r ∧ CInv g r ∧ ColUp r ∧ r.upper = s.upper ∧ r.best = s.best ∧
      ∃ i, i < s.chosen.length ∧ s.cur.getD i 0 + 1 < (s.choices.getD i []).length ∧
        r.chosen = s.chosen.take (i + 1) ∧ r.choices = s.choices.take (i + 1) ∧
        r.cur = (s.cur.take (i + 1)).set i (s.cur.getD i 0 + 1)
  | .done k c => (∀ u : Int, u ≤ s.upper → ¬ ∃ f, Good g u f) ∧
      ((s.best.getD 0 0 = -1 ∧ k = -1 ∧ c = none) ∨ (s.best.getD 0 0 ≠ -1 ∧ k = s.upper ∧ c = some s.best))
  | .panic => False

theorem dsBacktrack_spec {g : G} {U0 : Nat} {s : Dsat} (h : DSInv g U0 s) (hc : CInv g s)
    (hdead : ∀ u : Int, u ≤ s.upper → ∀ f, Good g u f → ¬ Ext s s.chosen f) :
    BacktrackPost g U0 s (dsBacktrack g s) := by
  obtain ⟨K, hKe, hKd, hKlow, hKcut⟩ := mustChange_spec h
  unfold dsBacktrack
  rw [hKe]
  have hfa := findAdvance_spec s K
  cases hres : findAdvance s K with
  | none =>
    have hnc := hfa.2 hres
    simp only
    have hnone : ∀ u : Int, u ≤ s.upper → ¬ ∃ f, Good g u f := by
      rintro u hu hex
      obtain ⟨f, hf, hopen⟩ := hc u hu hex
      rcases hopen with he | ⟨j, t, hj, hcur, ht, he, hfe⟩
      · exact hdead u hu f hf he
      · by_cases hjK : j < K
        · exact dead_pending_cond h hu hf hj hcur ht hfe (hnc j hjK)
        · exact dead_pending_cut h hu hf (by omega : K < s.chosen.length) (hKcut (by omega)) hj (by omega)
            hcur ht he hfe
    by_cases hb : (s.best.getD 0 0 == -1) = true
    · rw [if_pos hb]
      exact ⟨hnone, Or.inl ⟨by simpa using hb, rfl, rfl⟩⟩
    · rw [if_neg hb]
      exact ⟨hnone, Or.inr ⟨by simpa using hb, rfl, rfl⟩⟩
  | some i =>
    obtain ⟨hiK, hcond, hbetween⟩ := hfa.1 i hres
    simp only
    have hi : i < s.chosen.length := by omega
    obtain ⟨hinv, hch, hupp, hbest, hcho, hcur, hcolpre⟩ := dsBacktrackTo_inv h hi hcond.1
    generalize hr : dsBacktrackTo g s i = r at hinv hch hupp hbest hcho hcur hcolpre
    have hlen : r.chosen.length = i + 1 := by rw [hch, List.length_take]; omega
    have hcolv : colOf r (s.chosen.getD i 0) =
        (((s.choices.getD i []).getD (s.cur.getD i 0 + 1) 0 : Nat) : Int) := by
      have := (hinv.colch i (by omega)).2
      rw [hch, getD_take_lt 0 (by omega), hcho, getD_take_lt [] (by omega), hcur,
        getD_set_take s.cur i i _ 0 (by rw [h.lcur]; exact hi) (Nat.le_refl _), if_pos rfl] at this
      exact this
    have hCsplit : s.chosen.take (i + 1) = s.chosen.take i ++ [s.chosen.getD i 0] := take_succ_getD hi
    refine ⟨hinv, ?_, ?_, hupp, hbest, i, hi, hcond.1, hch, hcho, hcur⟩
    · -- nothing is lost
      intro u hu hex
      rw [hupp] at hu
      obtain ⟨f, hf, hopen⟩ := hc u hu hex
      refine ⟨f, hf, ?_⟩
      rcases hopen with he | ⟨j, t, hj, hcurj, ht, he, hfe⟩
      · exact absurd he (hdead u hu f hf)
      · have hextpre : ∀ k, k ≤ i → Ext s (s.chosen.take k) f → Ext r (s.chosen.take k) f := by
          intro k hk hek w hwm
          have hwi : w ∈ s.chosen.take i := by
            rw [← take_take_le hk] at hwm; exact List.mem_of_mem_take hwm
          rw [hcolpre w hwi]; exact hek w hwm
        by_cases hji : j < i
        · right
          refine ⟨j, t, by omega, ?_, ?_, ?_, ?_⟩
          · rw [hcur, getD_set_take s.cur i j _ 0 (by rw [h.lcur]; exact hi) (by omega), if_neg (by omega)]
            exact hcurj
          · rw [hcho, getD_take_lt [] (by omega)]; exact ht
          · rw [hch, take_take_le (by omega)]; exact hextpre j (by omega) he
          · rw [hch, getD_take_lt 0 (by omega), hcho, getD_take_lt [] (by omega)]; exact hfe
        · by_cases hje : j = i
          · subst hje
            by_cases ht1 : t = s.cur.getD j 0 + 1
            · left
              rw [hch, hCsplit]
              intro w hwm
              rcases List.mem_append.1 hwm with h1 | h1
              · exact hextpre j (Nat.le_refl _) he w h1
              · have : w = s.chosen.getD j 0 := by simpa using h1
                subst this
                rw [hcolv, hfe, ht1]
            · right
              refine ⟨j, t, by omega, ?_, ?_, ?_, ?_⟩
              · rw [hcur, getD_set_take s.cur j j _ 0 (by rw [h.lcur]; exact hi) (Nat.le_refl _), if_pos rfl]
                omega
              · rw [hcho, getD_take_lt [] (by omega)]; exact ht
              · rw [hch, take_take_le (by omega)]; exact hextpre j (Nat.le_refl _) he
              · rw [hch, getD_take_lt 0 (by omega), hcho, getD_take_lt [] (by omega)]; exact hfe
          · exfalso
            by_cases hjK : j < K
            · exact dead_pending_cond h hu hf hj hcurj ht hfe (hbetween j (by omega) hjK)
            · exact dead_pending_cut h hu hf (by omega : K < s.chosen.length) (hKcut (by omega)) hj (by omega)
                hcurj ht he hfe
    · -- all colours on the new path are allowed
      intro w hwm
      rw [hch, hCsplit] at hwm
      rw [hupp]
      rcases List.mem_append.1 hwm with h1 | h1
      · rw [hcolpre w h1]
        obtain ⟨k, hk, hke⟩ := (mem_take_iff_getD (by omega)).1 h1
        rw [← hke]
        exact hKlow k (by omega)
      · have : w = s.chosen.getD i 0 := by simpa using h1
        subst this
        rw [hcolv]
        have := hcond.2
        omega

end CliqueColour
