import Mamba.Lemmas.DistanceBfs
import Mamba.Lemmas.DistanceCycles
import Mamba.Lemmas.DistanceGirthModel
import Mamba.Lemmas.DistanceComp
/-!
# Lemmas for C10: every value the `Girth` model reports is at least the length of some cycle
-/
namespace GDist
open GraphSpec

/-- `g` without the edge `{a, b}` -/
def delEdge (g : G) (a b : Nat) : G :=
  { n := g.n, adj := fun u v => g.adj u v && !((u == a && v == b) || (u == b && v == a)) }

theorem delEdge_adj {g : G} {a b u v : Nat} :
    (delEdge g a b).adj u v = true ↔ (g.adj u v = true ∧ ¬ (u = a ∧ v = b) ∧ ¬ (u = b ∧ v = a)) := by
  simp [delEdge]
  tauto

/-- a shortest walk is a simple path: the reversed vertex list -/
theorem IsDistIn.path {g : G} {V : List Nat} {s x k : Nat} (h : IsDistIn g V s x k) :
    ∃ l : List Nat, l.length = k + 1 ∧ l.Nodup ∧ (∀ y ∈ l, y ∈ V) ∧ chainAdj g l ∧
      l.head? = some x ∧ l.getLast? = some s ∧ ∀ y ∈ l, ∃ j, j ≤ k ∧ IsDistIn g V s y j := by
  induction k generalizing x with
  | zero =>
    have hx : x = s := (walkIn_zero_iff.1 h.1).1
    subst hx
    refine ⟨[x], rfl, by simp, ?_, trivial, rfl, rfl, ?_⟩
    · intro y hy; simp at hy; subst hy; exact h.1.mem_V
    · intro y hy; simp at hy; subst hy; exact ⟨0, Nat.le_refl _, h⟩
  | succ k ih =>
    obtain ⟨u, hu, hadj⟩ := h.pred
    obtain ⟨l, hl, hnd, hV, hch, hhead, hlast, hd⟩ := ih hu
    have hne : l ≠ [] := by intro h0; rw [h0] at hl; simp at hl
    obtain ⟨a, t, rfl⟩ := List.exists_cons_of_ne_nil hne
    have hau : a = u := by simpa using hhead
    subst hau
    refine ⟨x :: a :: t, by simp at hl ⊢; omega, ?_, ?_, ⟨hadj, hch⟩, rfl, ?_, ?_⟩
    · refine List.nodup_cons.2 ⟨?_, hnd⟩
      intro hx
      obtain ⟨j, hj, hdj⟩ := hd x hx
      have := hdj.unique h
      omega
    · intro y hy
      rcases List.mem_cons.1 hy with rfl | hy
      · exact h.1.mem_V
      · exact hV y hy
    · rw [List.getLast?_cons_cons]; exact hlast
    · intro y hy
      rcases List.mem_cons.1 hy with rfl | hy
      · exact ⟨k+1, Nat.le_refl _, h⟩
      · obtain ⟨j, hj, hdj⟩ := hd y hy
        exact ⟨j, by omega, hdj⟩

theorem chainAdj_mono {g h : G} (hgh : ∀ u v, h.adj u v = true → g.adj u v = true) :
    ∀ l : List Nat, chainAdj h l → chainAdj g l
  | [], _ => trivial
  | [_], _ => trivial
  | a :: b :: t, hc => ⟨hgh _ _ hc.1, chainAdj_mono hgh (b :: t) hc.2⟩

/-- an edge together with a walk between its ends that avoids it closes a cycle -/
theorem cycle_of_edge_walk {g : G} (hsym : ∀ u v, g.adj u v = g.adj v u) {a b m : Nat}
    (hab : g.adj a b = true) (hne : a ≠ b) (hw : Walk (delEdge g a b) a b m) :
    ∃ c, IsCycleSeq g c ∧ c.length ≤ m + 1 := by
  obtain ⟨m', hm', hd⟩ := exists_isDistIn_of_walk hw
  obtain ⟨l, hl, hnd, hV, hch, hhead, hlast, _⟩ := hd.path
  have hm2 : 2 ≤ m' := by
    by_contra hlt
    have : m' = 0 ∨ m' = 1 := by omega
    rcases this with h0 | h1
    · subst h0
      exact hne (walkIn_zero_iff.1 hd.1).1.symm
    · subst h1
      obtain ⟨u, hu, hadj, _⟩ := walkIn_succ_iff.1 hd.1
      have hua : u = a := (walkIn_zero_iff.1 hu).1
      subst hua
      have := delEdge_adj.1 hadj
      exact this.2.1 ⟨rfl, rfl⟩
  refine ⟨l, ⟨by omega, hnd, ?_, ?_, ?_⟩, by omega⟩
  · intro y hy
    have := hV y hy
    simpa [delEdge] using this
  · exact chainAdj_mono (fun u v h => (delEdge_adj.1 h).1) l hch
  · rw [headD_eq_of_head?' hhead, getLastD_of_getLast? hlast, hsym]; exact hab
where
  headD_eq_of_head?' {c : List Nat} {x : Nat} (h : c.head? = some x) : c.headD 0 = x := by
    cases c with
    | nil => cases h
    | cons y t => simp at h; simp [h]

end GDist

namespace GDist
open GraphSpec

/-- there is a cycle with at most `v` vertices -/
def CycLe (g : G) (v : Nat) : Prop := ∃ c, IsCycleSeq g c ∧ c.length ≤ v

structure GInv (g : G) (i : Nat) (st : Model.GirthSt) (k : Nat) (js : List Nat) : Prop where
  dsize : st.D.size = g.n
  psize : st.P.size = g.n
  root0 : lbl st.D i = 0
  tree : ∀ x, x < g.n → x ≠ i → lbl st.D x ≠ 0 →
    lbl st.P x < g.n ∧ g.adj (lbl st.P x) x = true ∧
    ((lbl st.P x = i ∧ lbl st.D x = 1) ∨
     (lbl st.P x ≠ i ∧ lbl st.D (lbl st.P x) ≠ 0 ∧ lbl st.D x = lbl st.D (lbl st.P x) + 1))
  qok : ∀ x ∈ st.Q, x < g.n ∧ (x = i ∨ lbl st.D x ≠ 0)
  qnd : st.Q.Nodup
  parq : ∀ x, x < g.n → x ≠ i → lbl st.D x ≠ 0 → lbl st.P x ∉ st.Q
  knq : k ∉ st.Q
  scan : ∀ x, x < g.n → x ≠ i → lbl st.D x ≠ 0 → lbl st.P x = k → x ∉ js
  sound : st.girth = g.n + 2 ∨ CycLe g st.girth

variable {g : G} {i : Nat}

theorem delEdge_symm (hsym : ∀ u v, g.adj u v = g.adj v u) (a b : Nat) :
    ∀ u v, (delEdge g a b).adj u v = (delEdge g a b).adj v u := by
  intro u v
  have h1 := @delEdge_adj g a b u v
  have h2 := @delEdge_adj g a b v u
  rw [hsym v u] at h2
  have h12 : (delEdge g a b).adj u v = true ↔ (delEdge g a b).adj v u = true := by
    rw [h1, h2]; tauto
  cases h3 : (delEdge g a b).adj u v <;> cases h4 : (delEdge g a b).adj v u
  · rfl
  · rw [h3, h4] at h12; simp at h12
  · rw [h3, h4] at h12; simp at h12
  · rfl

/-- the BFS tree path to a labelled vertex avoids every non-tree edge -/
theorem tree_walk {st : Model.GirthSt} {k : Nat} {js : List Nat} (hi : i < g.n) (inv : GInv g i st k js)
    {a b : Nat}
    (hnt1 : ¬ (a ≠ i ∧ lbl st.D a ≠ 0 ∧ lbl st.P a = b))
    (hnt2 : ¬ (b ≠ i ∧ lbl st.D b ≠ 0 ∧ lbl st.P b = a)) :
    ∀ d x, x < g.n → x ≠ i → lbl st.D x = d → d ≠ 0 → Walk (delEdge g a b) i x d := by
  intro d
  induction d using Nat.strongRecOn with
  | _ d ih =>
    intro x hx hxi hd hd0
    have hlab : lbl st.D x ≠ 0 := by rw [hd]; exact hd0
    obtain ⟨hp, hadj, hcase⟩ := inv.tree x hx hxi hlab
    have hstep : (delEdge g a b).adj (lbl st.P x) x = true := by
      rw [delEdge_adj]
      refine ⟨hadj, ?_, ?_⟩
      · rintro ⟨h1, h2⟩
        exact hnt2 ⟨by rw [← h2]; exact hxi, by rw [← h2]; exact hlab, by rw [← h2]; exact h1⟩
      · rintro ⟨h1, h2⟩
        exact hnt1 ⟨by rw [← h2]; exact hxi, by rw [← h2]; exact hlab, by rw [← h2]; exact h1⟩
    have hxr : x ∈ List.range (delEdge g a b).n := List.mem_range.2 hx
    rcases hcase with ⟨hpi, h1⟩ | ⟨hpi, hpl, h1⟩
    · have hd1 : d = 1 := by omega
      subst hd1
      rw [hpi] at hstep
      exact .step (.base (List.mem_range.2 hi)) hstep hxr
    · have hlt : lbl st.D (lbl st.P x) < d := by omega
      have hw := ih _ hlt (lbl st.P x) hp hpi rfl hpl
      have : d = lbl st.D (lbl st.P x) + 1 := by omega
      rw [this]
      exact .step hw hstep hxr

end GDist

namespace GDist
open GraphSpec
variable {g : G} {i : Nat}

theorem ginv_skip {st : Model.GirthSt} {k j : Nat} {js : List Nat} (inv : GInv g i st k (j :: js)) :
    GInv g i st k js :=
  { inv with scan := fun x h1 h2 h3 h4 hm => inv.scan x h1 h2 h3 h4 (List.mem_cons_of_mem _ hm) }

theorem ginv_girth {st : Model.GirthSt} {k j : Nat} {js : List Nat} (inv : GInv g i st k (j :: js)) {v : Nat}
    (hv : CycLe g v) : GInv g i { st with girth := v } k js :=
  { dsize := inv.dsize, psize := inv.psize, root0 := inv.root0, tree := inv.tree, qok := inv.qok,
    qnd := inv.qnd, parq := inv.parq, knq := inv.knq,
    scan := fun x h1 h2 h3 h4 hm => inv.scan x h1 h2 h3 h4 (List.mem_cons_of_mem _ hm),
    sound := .inr hv }

theorem ginv_label {st : Model.GirthSt} {k j dk : Nat} {js : List Nat} (inv : GInv g i st k (j :: js))
    (hk : k < g.n) (hkr : k = i ∨ lbl st.D k ≠ 0) (hdk : lbl st.D k = dk)
    (hjn : j < g.n) (hadj : g.adj k j = true) (hji : j ≠ i) (hz : lbl st.D j = 0) (hnd : j ∉ js)
    (hjD : j < st.D.size) (hjP : j < st.P.size) :
    GInv g i { st with P := st.P.set j k hjP, D := st.D.set j (dk + 1) hjD, Q := st.Q ++ [j] } k js := by
  have hkj : k ≠ j := by
    rintro rfl
    rcases hkr with h | h
    · exact hji h
    · exact h hz
  have hlD : ∀ w, lbl (st.D.set j (dk + 1) hjD) w = if w = j then dk + 1 else lbl st.D w := fun w => lbl_set hjD
  have hlP : ∀ w, lbl (st.P.set j k hjP) w = if w = j then k else lbl st.P w := fun w => lbl_set hjP
  -- a vertex that is the root or labelled is not j
  have hnotj : ∀ w, (w = i ∨ lbl st.D w ≠ 0) → w ≠ j := by
    rintro w (h | h) rfl
    · exact hji h
    · exact h hz
  refine { dsize := by simp [inv.dsize], psize := by simp [inv.psize], root0 := ?_, tree := ?_, qok := ?_,
           qnd := ?_, parq := ?_, knq := ?_, scan := ?_, sound := inv.sound }
  · show lbl (st.D.set j (dk + 1) hjD) i = 0
    rw [hlD]; simp [Ne.symm hji, inv.root0]
  · intro x hx hxi hlab
    show lbl (st.P.set j k hjP) x < g.n ∧ g.adj (lbl (st.P.set j k hjP) x) x = true ∧
      ((lbl (st.P.set j k hjP) x = i ∧ lbl (st.D.set j (dk + 1) hjD) x = 1) ∨
       (lbl (st.P.set j k hjP) x ≠ i ∧ lbl (st.D.set j (dk + 1) hjD) (lbl (st.P.set j k hjP) x) ≠ 0 ∧
        lbl (st.D.set j (dk + 1) hjD) x = lbl (st.D.set j (dk + 1) hjD) (lbl (st.P.set j k hjP) x) + 1))
    have hlab' : lbl (st.D.set j (dk + 1) hjD) x ≠ 0 := hlab
    by_cases hxj : x = j
    · subst hxj
      simp only [hlP, hlD, if_true, hkj, if_false]
      refine ⟨hk, hadj, ?_⟩
      rcases hkr with h | h
      · left; subst h; rw [inv.root0] at hdk; subst hdk; exact ⟨rfl, rfl⟩
      · right
        refine ⟨?_, by rw [hdk]; rw [hdk] at h; exact h, by rw [hdk]⟩
        rintro rfl
        exact h inv.root0
    · rw [hlD] at hlab'
      simp only [hxj, if_false] at hlab'
      obtain ⟨h1, h2, h3⟩ := inv.tree x hx hxi hlab'
      have hpj : lbl st.P x ≠ j := by
        apply hnotj
        rcases h3 with ⟨h, _⟩ | ⟨_, h, _⟩
        · exact .inl h
        · exact .inr h
      simp only [hlP, hlD, hxj, if_false, hpj]
      exact ⟨h1, h2, h3⟩
  · intro x hx
    show x < g.n ∧ (x = i ∨ lbl (st.D.set j (dk + 1) hjD) x ≠ 0)
    have hx' : x ∈ st.Q ++ [j] := hx
    rcases List.mem_append.1 hx' with hx' | hx'
    · obtain ⟨h1, h2⟩ := inv.qok x hx'
      refine ⟨h1, ?_⟩
      rcases h2 with h2 | h2
      · exact .inl h2
      · right; rw [hlD]; simp [hnotj x (.inr h2), h2]
    · simp at hx'; subst hx'
      exact ⟨hjn, .inr (by rw [hlD]; simp)⟩
  · show (st.Q ++ [j]).Nodup
    rw [List.nodup_append]
    refine ⟨inv.qnd, by simp, ?_⟩
    intro a ha b hb
    simp at hb; subst hb
    exact hnotj a (inv.qok a ha).2
  · intro x hx hxi hlab
    show lbl (st.P.set j k hjP) x ∉ st.Q ++ [j]
    have hlab' : lbl (st.D.set j (dk + 1) hjD) x ≠ 0 := hlab
    by_cases hxj : x = j
    · subst hxj
      rw [hlP]; simp only [if_true]
      intro hm
      rcases List.mem_append.1 hm with hm | hm
      · exact inv.knq hm
      · simp at hm; exact hkj hm
    · rw [hlD] at hlab'
      simp only [hxj, if_false] at hlab'
      obtain ⟨_, _, h3⟩ := inv.tree x hx hxi hlab'
      have hpj : lbl st.P x ≠ j := by
        apply hnotj
        rcases h3 with ⟨h, _⟩ | ⟨_, h, _⟩
        · exact .inl h
        · exact .inr h
      rw [hlP]; simp only [hxj, if_false]
      intro hm
      rcases List.mem_append.1 hm with hm | hm
      · exact inv.parq x hx hxi hlab' hm
      · simp at hm; exact hpj hm
  · show k ∉ st.Q ++ [j]
    intro hm
    rcases List.mem_append.1 hm with hm | hm
    · exact inv.knq hm
    · simp at hm; exact hkj hm
  · intro x hx hxi hlab hpk
    have hlab' : lbl (st.D.set j (dk + 1) hjD) x ≠ 0 := hlab
    have hpk' : lbl (st.P.set j k hjP) x = k := hpk
    by_cases hxj : x = j
    · subst hxj; exact hnd
    · rw [hlD] at hlab'
      simp only [hxj, if_false] at hlab'
      rw [hlP] at hpk'
      simp only [hxj, if_false] at hpk'
      intro hm
      exact inv.scan x hx hxi hlab' hpk' (List.mem_cons_of_mem _ hm)

end GDist

namespace GDist
open GraphSpec
variable {g : G} {i : Nat}

theorem girthInner_sound (hsym : ∀ u v, g.adj u v = g.adj v u) (hirr : ∀ v, g.adj v v = false)
    (hi : i < g.n) {k dk pk : Nat} (hk : k < g.n) :
    ∀ (js : List Nat) (st : Model.GirthSt), GInv g i st k js → js.Nodup →
      (∀ j ∈ js, j < g.n ∧ g.adj k j = true) →
      (k = i ∨ lbl st.D k ≠ 0) → lbl st.D k = dk → lbl st.P k = pk →
      ∀ st', Model.girthInner i k dk pk js st = .ok st' → GInv g i st' k [] := by
  intro js
  induction js with
  | nil =>
    intro st inv _ _ _ _ _ st' h
    simp only [Model.girthInner] at h
    cases h; exact inv
  | cons j js ih =>
    intro st inv hnd hjs hkr hdk hpk st' h
    have ⟨hjn, hadj⟩ := hjs j List.mem_cons_self
    have hjs' : ∀ x ∈ js, x < g.n ∧ g.adj k x = true := fun x hx => hjs x (List.mem_cons_of_mem _ hx)
    obtain ⟨hjnot, hnd'⟩ := List.nodup_cons.1 hnd
    have hjD : j < st.D.size := by rw [inv.dsize]; exact hjn
    have hjP : j < st.P.size := by rw [inv.psize]; exact hjn
    have hkj : k ≠ j := by rintro rfl; rw [hirr] at hadj; cases hadj
    unfold Model.girthInner at h
    by_cases h1 : j ≠ pk
    · simp only [h1, ne_eq, not_false_eq_true, if_true, hjD, dif_pos] at h
      rw [lbl_of_lt hjD] at h
      by_cases h2 : j = i ∧ dk + 1 < st.girth
      · simp only [h2, and_self, if_true] at h
        -- case A: back at the root through a non-tree edge
        obtain ⟨hji, _⟩ := h2
        have hki : k ≠ i := by rw [← hji]; exact hkj
        have hkl : lbl st.D k ≠ 0 := by
          rcases hkr with h0 | h0
          · exact absurd h0 hki
          · exact h0
        have hw : Walk (delEdge g i k) i k dk :=
          tree_walk hi inv (a := i) (b := k) (by simp)
            (by rintro ⟨_, _, h3⟩; rw [hpk] at h3; exact h1 (by rw [hji, h3]))
            dk k hk hki hdk (by rw [← hdk]; exact hkl)
        have hcyc : CycLe g (dk + 1) := by
          have hik : g.adj i k = true := by rw [hsym, ← hji]; exact hadj
          exact cycle_of_edge_walk hsym hik (Ne.symm hki) hw
        exact ih _ (ginv_girth inv hcyc) hnd' hjs' hkr hdk hpk st' h
      · simp only [h2, if_false] at h
        by_cases h3 : ¬ j = i ∧ lbl st.D j = 0
        · simp only [h3, not_false_eq_true, and_self, if_true] at h
          by_cases h4 : dk + 2 < st.girth
          · simp only [h4, if_true, hjP, dif_pos] at h
            have inv' := ginv_label inv hk hkr hdk hjn hadj h3.1 h3.2 hjnot hjD hjP
            refine ih _ inv' hnd' hjs' ?_ ?_ ?_ st' h
            · rcases hkr with h0 | h0
              · exact .inl h0
              · right
                show lbl (st.D.set j (dk + 1) hjD) k ≠ 0
                rw [lbl_set hjD]; simp [hkj, h0]
            · show lbl (st.D.set j (dk + 1) hjD) k = dk
              rw [lbl_set hjD]; simp [hkj, hdk]
            · show lbl (st.P.set j k hjP) k = pk
              rw [lbl_set hjP]; simp [hkj, hpk]
          · simp only [h4, if_false] at h
            exact ih st (ginv_skip inv) hnd' hjs' hkr hdk hpk st' h
        · simp only [h3, if_false] at h
          by_cases h5 : ¬ j = i ∧ dk + lbl st.D j + 1 < st.girth
          · simp only [h5, not_false_eq_true, and_self, if_true] at h
            -- case C: a non-tree edge between two labelled vertices (or the root and a labelled vertex)
            have hji : j ≠ i := h5.1
            have hjl : lbl st.D j ≠ 0 := fun h0 => h3 ⟨hji, h0⟩
            have hnt1 : ¬ (k ≠ i ∧ lbl st.D k ≠ 0 ∧ lbl st.P k = j) := by
              rintro ⟨_, _, h6⟩; rw [hpk] at h6; exact h1 h6.symm
            have hnt2 : ¬ (j ≠ i ∧ lbl st.D j ≠ 0 ∧ lbl st.P j = k) := by
              rintro ⟨_, _, h6⟩
              exact inv.scan j hjn hji hjl h6 List.mem_cons_self
            have hwj : Walk (delEdge g k j) i j (lbl st.D j) :=
              tree_walk hi inv hnt1 hnt2 _ j hjn hji rfl hjl
            have hwk : Walk (delEdge g k j) k i dk := by
              by_cases hki : k = i
              · subst hki
                rw [inv.root0] at hdk; subst hdk
                exact .base (List.mem_range.2 hi)
              · have hkl : lbl st.D k ≠ 0 := by
                  rcases hkr with h0 | h0
                  · exact absurd h0 hki
                  · exact h0
                have := tree_walk hi inv hnt1 hnt2 dk k hk hki hdk (by rw [← hdk]; exact hkl)
                exact WalkIn.symm (delEdge_symm hsym k j) this
            have hcyc : CycLe g (dk + lbl st.D j + 1) :=
              cycle_of_edge_walk hsym hadj hkj (WalkIn.trans hwk hwj)
            exact ih _ (ginv_girth inv hcyc) hnd' hjs' hkr hdk hpk st' h
          · simp only [h5, if_false] at h
            exact ih st (ginv_skip inv) hnd' hjs' hkr hdk hpk st' h
    · simp only [h1, if_false] at h
      exact ih st (ginv_skip inv) hnd' hjs' hkr hdk hpk st' h

theorem nodup_nbrs (g : G) (k : Nat) : (g.nbrs k).Nodup := List.nodup_range.filter _

theorem girthOuter_sound (hsym : ∀ u v, g.adj u v = g.adj v u) (hirr : ∀ v, g.adj v v = false) (hi : i < g.n) :
    ∀ (fuel : Nat) (st : Model.GirthSt) (k0 : Nat), GInv g i st k0 [] →
      ∀ st', Model.girthOuter g i fuel st = .ok st' → ∃ k', GInv g i st' k' [] := by
  intro fuel
  induction fuel with
  | zero => intro st k0 _ st' h; simp [Model.girthOuter] at h
  | succ f ih =>
    intro st k0 inv st' h
    unfold Model.girthOuter at h
    match hQ : st.Q with
    | [] =>
      rw [hQ] at h
      simp only at h
      cases h; exact ⟨k0, inv⟩
    | k :: Q =>
      rw [hQ] at h
      have hkq : k ∈ st.Q := by rw [hQ]; exact List.mem_cons_self
      obtain ⟨hk, hkr⟩ := inv.qok k hkq
      have hkD : k < st.D.size := by rw [inv.dsize]; exact hk
      have hkP : k < st.P.size := by rw [inv.psize]; exact hk
      simp only [hkD, hkP, dif_pos] at h
      have hqnd : (k :: Q).Nodup := by rw [← hQ]; exact inv.qnd
      have inv1 : GInv g i { st with Q := Q } k (g.nbrs k) :=
        { dsize := inv.dsize, psize := inv.psize, root0 := inv.root0, tree := inv.tree,
          qok := fun x hx => inv.qok x (by rw [hQ]; exact List.mem_cons_of_mem _ hx),
          qnd := (List.nodup_cons.1 hqnd).2,
          parq := fun x h1 h2 h3 hm => inv.parq x h1 h2 h3 (by rw [hQ]; exact List.mem_cons_of_mem _ hm),
          knq := (List.nodup_cons.1 hqnd).1,
          scan := fun x h1 h2 h3 h4 _ => inv.parq x h1 h2 h3 (by rw [h4]; exact hkq),
          sound := inv.sound }
      cases hin : Model.girthInner i k st.D[k] st.P[k] (g.nbrs k) { st with Q := Q } with
      | ok st1 =>
        rw [hin] at h
        simp only at h
        have inv2 := girthInner_sound hsym hirr hi hk (g.nbrs k) _ inv1 (nodup_nbrs g k)
          (fun v hv => mem_nbrs.1 hv) hkr (lbl_of_lt hkD).symm (lbl_of_lt hkP).symm st1 hin
        exact ih st1 k inv2 st' h
      | panic => rw [hin] at h; simp at h
      | outOfFuel => rw [hin] at h; simp at h

theorem girthRoots_sound (hsym : ∀ u v, g.adj u v = g.adj v u) (hirr : ∀ v, g.adj v v = false) (fuel : Nat) :
    ∀ (roots : List Nat) (st : Model.GirthSt), (∀ r ∈ roots, r < g.n) → st.P.size = g.n →
      (st.girth = g.n + 2 ∨ CycLe g st.girth) →
      ∀ st', Model.girthRoots g fuel roots st = .ok st' → (st'.girth = g.n + 2 ∨ CycLe g st'.girth) := by
  intro roots
  induction roots with
  | nil => intro st _ _ hs st' h; simp [Model.girthRoots] at h; cases h; exact hs
  | cons i is ih =>
    intro st hr hP hs st' h
    have hi : i < g.n := hr i List.mem_cons_self
    unfold Model.girthRoots at h
    have hl0 : ∀ v, lbl (Array.replicate g.n 0) v = 0 := by
      intro v; unfold lbl
      by_cases hv : v < g.n <;> simp [Array.getD, hv]
    have inv0 : GInv g i { st with D := Array.replicate g.n 0, Q := [i] } g.n [] :=
      { dsize := by simp, psize := hP, root0 := hl0 i,
        tree := fun x _ _ h => absurd (hl0 x) h,
        qok := fun x hx => by simp at hx; subst hx; exact ⟨hi, .inl rfl⟩,
        qnd := by simp,
        parq := fun x _ _ h => absurd (hl0 x) h,
        knq := by simp; omega,
        scan := fun x _ _ h => absurd (hl0 x) h,
        sound := hs }
    cases hout : Model.girthOuter g i fuel { st with D := Array.replicate g.n 0, Q := [i] } with
    | ok st1 =>
      rw [hout] at h
      simp only at h
      obtain ⟨k', inv1⟩ := girthOuter_sound hsym hirr hi fuel _ g.n inv0 st1 hout
      exact ih st1 (fun r hr' => hr r (List.mem_cons_of_mem _ hr')) inv1.psize inv1.sound st' h
    | panic => rw [hout] at h; simp at h
    | outOfFuel => rw [hout] at h; simp at h

/-- soundness of the `Girth` model: a reported value other than `-1` is at least the length of some cycle -/
theorem girthM_sound (g : G) (hsym : ∀ u v, g.adj u v = g.adj v u) (hirr : ∀ v, g.adj v v = false)
    (fuel : Nat) (r : Int) (h : Model.girthM g fuel = .ok r) :
    r = -1 ∨ ∃ c, IsCycleSeq g c ∧ (c.length : Int) ≤ r := by
  unfold Model.girthM at h
  by_cases hn : g.n < 3
  · simp only [hn, if_true] at h
    left; cases h; rfl
  · simp only [hn, if_false] at h
    cases hr : Model.girthRoots g fuel (List.range (g.n - 2))
        { girth := g.n + 2, D := Array.replicate g.n 0, P := Array.replicate g.n 0, Q := [] } with
    | ok st =>
      rw [hr] at h
      simp only at h
      have hs := girthRoots_sound hsym hirr fuel (List.range (g.n - 2)) _
        (fun x hx => by have := List.mem_range.1 hx; omega) (by simp) (.inl rfl) st hr
      by_cases hg : st.girth = g.n + 2
      · simp only [hg, if_true] at h
        left; cases h; rfl
      · simp only [hg, if_false] at h
        right
        rcases hs with hs | ⟨c, hc, hlen⟩
        · exact absurd hs hg
        · refine ⟨c, hc, ?_⟩
          cases h
          exact_mod_cast hlen
    | panic => rw [hr] at h; simp at h
    | outOfFuel => rw [hr] at h; simp at h

end GDist
