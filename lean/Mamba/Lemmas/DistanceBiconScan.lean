import Mamba.Lemmas.DistanceBiconStep
import Mamba.Lemmas.DistanceBiconTotal
/-!
# The neighbour loop of the `BiconnectedComponents` model as a sequence of explicit state transformers
-/
namespace GDist
open GraphSpec Model

def dI (st : BicSt) (x : Nat) : Int := st.depths.getD x (-1)
def lo (st : BicSt) (x : Nat) : Int := st.low.getD x 0
def pa (st : BicSt) (x : Nat) : Int := st.parents.getD x 0
def bvis (st : BicSt) (x : Nat) : Prop := dI st x ≠ -1

def minI (a t : Int) : Int := if a < t then a else t

/-- the state after `continue DFS` to the unvisited neighbour `u` of `v` -/
def descendSt (st : BicSt) (v u : Nat) (cur : List Nat) : BicSt :=
  { st with
    childCount := if v = 0 then st.childCount + 1 else st.childCount
    toCheck := u :: st.toCheck
    depths := st.depths.setIfInBounds u (dI st v + 1)
    low := st.low.setIfInBounds u (dI st v + 1)
    parents := st.parents.setIfInBounds u (v : Int)
    bicoms := if cur.length > 0 then st.bicoms ++ [[]] else st.bicoms }

/-- the state after emitting the block closed by the child `u` of `v` -/
def emitSt (com : List Nat) (st : BicSt) (v u : Nat) (cur : List Nat) : BicSt :=
  { st with
    parents := st.parents.setIfInBounds u (-1)
    out := st.out ++ [sortInts ((cur ++ [v]).map fun x => com.getD x 0)]
    bicoms := setLast st.bicoms []
    isArt := st.isArt.setIfInBounds v true }

theorem getD_setIfInBounds {α : Type} (a : Array α) (i : Nat) (x d : α) (j : Nat) (h : i < a.size) :
    (a.setIfInBounds i x).getD j d = if j = i then x else a.getD j d := by
  by_cases hj : j = i
  · subst hj; simp [Array.getD, h]
  · simp only [hj, if_false]
    by_cases hjs : j < a.size
    · have hne : i ≠ j := fun h => hj h.symm
      simp [Array.getD, hjs, Array.getElem_setIfInBounds, hne]
    · simp [Array.getD, hjs]

theorem set_eq_setIfInBounds {α : Type} (a : Array α) (i : Nat) (x : α) (h : i < a.size) :
    a.set i x h = a.setIfInBounds i x := by
  simp [Array.setIfInBounds, h]

theorem bicScan_cases (com : List Nat) {n v : Nat} (hv : v < n) (P : List Nat → BicSt → Int → Prop)
    (hbok : ∀ us st t, P us st t → BOk n st ∧ ∀ u ∈ us, u < n)
    (h_par : ∀ u us st t, P (u :: us) st t → bvis st u → (u : Int) = pa st v → P us st t)
    (h_emit : ∀ u us st t cur, P (u :: us) st t → bvis st u → (u : Int) ≠ pa st v →
      st.bicoms.getLast? = some cur → v ≠ 0 → pa st u = (v : Int) → lo st u ≥ dI st v →
      P us (emitSt com st v u cur) (minI (lo st u) t))
    (h_keep : ∀ u us st t, P (u :: us) st t → bvis st u → (u : Int) ≠ pa st v →
      ¬ (v ≠ 0 ∧ pa st u = (v : Int) ∧ lo st u ≥ dI st v) → P us st (minI (lo st u) t)) :
    ∀ (us : List Nat) (st : BicSt) (t : Int), P us st t → ∀ res, bicScan com n v us st t = .ok res →
      (∀ s, res = .descend s → ∃ u us2 st1 t1 cur, P (u :: us2) st1 t1 ∧ ¬ bvis st1 u ∧
          st1.bicoms.getLast? = some cur ∧ s = descendSt st1 v u cur) ∧
      (∀ s t', res = .done s t' → P [] s t') := by
  intro us
  induction us with
  | nil =>
    intro st t hP res hres
    simp only [bicScan] at hres
    cases hres
    exact ⟨fun s h0 => (by cases h0), fun s t' h0 => (by cases h0; exact hP)⟩
  | cons u us ih =>
    intro st t hP res hres
    obtain ⟨ok, hus⟩ := hbok _ _ _ hP
    have hu : u < n := hus u List.mem_cons_self
    have huD : u < st.depths.size := by rw [ok.dsz]; exact hu
    have hvD : v < st.depths.size := by rw [ok.dsz]; exact hv
    have huL : u < st.low.size := by rw [ok.lsz]; exact hu
    have huP : u < st.parents.size := by rw [ok.psz]; exact hu
    have hvP : v < st.parents.size := by rw [ok.psz]; exact hv
    have hvA : v < st.isArt.size := by rw [ok.asz]; exact hv
    obtain ⟨cur, hcur⟩ := getLast?_isSome_of_ne_nil ok.bne
    have hdu : st.depths[u] = dI st u := by simp [dI, Array.getD, huD]
    have hdv : st.depths[v] = dI st v := by simp [dI, Array.getD, hvD]
    have hlu : st.low[u] = lo st u := by simp [lo, Array.getD, huL]
    have hpu : st.parents[u] = pa st u := by simp [pa, Array.getD, huP]
    have hpv : st.parents[v] = pa st v := by simp [pa, Array.getD, hvP]
    unfold bicScan at hres
    simp only [huD, dif_pos] at hres
    by_cases hunv : st.depths[u] = -1
    · simp only [hunv, if_true, hvD, dif_pos, huL, huP, hcur] at hres
      cases hres
      refine ⟨fun s h0 => ?_, fun s t' h0 => (by cases h0)⟩
      cases h0
      refine ⟨u, us, st, t, cur, hP, by unfold bvis; rw [← hdu, hunv]; simp, hcur, ?_⟩
      unfold descendSt
      rw [set_eq_setIfInBounds, set_eq_setIfInBounds, set_eq_setIfInBounds, hdv]
    · have huvis : bvis st u := by unfold bvis; rw [← hdu]; exact hunv
      simp only [hunv, if_false, hvP, dif_pos] at hres
      by_cases hpar : (u : Int) ≠ st.parents[v]
      · simp only [hpar, ne_eq, not_false_eq_true, if_true, huL, dif_pos, huP, hvD] at hres
        by_cases hem : v ≠ 0 ∧ st.parents[u] = (v : Int) ∧ st.low[u] ≥ st.depths[v]
        · simp only [hem, ne_eq, not_false_eq_true, and_self, if_true, hcur, hvA, dif_pos] at hres
          rw [set_eq_setIfInBounds, set_eq_setIfInBounds] at hres
          rw [hpu, hlu, hdv] at hem
          have hP' := h_emit u us st t cur hP huvis (by rw [← hpv]; exact hpar) hcur hem.1 hem.2.1 hem.2.2
          rw [hlu] at hres
          exact ih _ _ hP' res hres
        · simp only [hem, if_false] at hres
          rw [hpu, hlu, hdv] at hem
          have hP' := h_keep u us st t hP huvis (by rw [← hpv]; exact hpar) hem
          rw [hlu] at hres
          exact ih _ _ hP' res hres
      · simp only [hpar, if_false] at hres
        have heq : (u : Int) = pa st v := by
          rw [← hpv]; by_contra hne; exact hpar hne
        exact ih _ _ (h_par u us st t hP huvis heq) res hres

/-- the state after popping `v` (`bs` = partial blocks after the merge loop, `cur2` its last element) -/
def popSt (st' : BicSt) (v : Nat) (rest : List Nat) (t : Int) (bs : List (List Nat)) (cur2 : List Nat) : BicSt :=
  { toCheck := rest, depths := st'.depths, low := st'.low.setIfInBounds v t, parents := st'.parents,
    isArt := st'.isArt, childCount := st'.childCount, bicoms := setLast bs (cur2 ++ [v]), out := st'.out }

theorem bicPop_cases {n v : Nat} {rest : List Nat} {st' s : BicSt} {t : Int} (ok : BOk n st') (hv : v < n)
    (hres : bicPop v rest st' t = .ok s) :
    ∃ bs cur2, s = popSt st' v rest t bs cur2 ∧ bs.getLast? = some cur2 ∧
      (v = 0 → bs = st'.bicoms) ∧
      (v ≠ 0 → ∃ cur, st'.bicoms.getLast? = some cur ∧
        bicMerge st'.depths (dI st' v) st'.bicoms.dropLast.reverse cur = .ok bs) := by
  have hvL : v < st'.low.size := by rw [ok.lsz]; exact hv
  have hvD : v < st'.depths.size := by rw [ok.dsz]; exact hv
  have hdv : st'.depths[v] = dI st' v := by simp [dI, Array.getD, hvD]
  unfold bicPop at hres
  simp only [hvL, dif_pos, hvD] at hres
  by_cases hv0 : v ≠ 0
  · simp only [hv0, ne_eq, not_false_eq_true, if_true] at hres
    cases hl : st'.bicoms.getLast? with
    | none => rw [hl] at hres; simp at hres
    | some cur =>
      rw [hl] at hres
      simp only at hres
      cases hm : bicMerge st'.depths st'.depths[v] st'.bicoms.dropLast.reverse cur with
      | panic => rw [hm] at hres; simp at hres
      | outOfFuel => rw [hm] at hres; simp at hres
      | ok bs =>
        rw [hm] at hres
        simp only at hres
        cases hb : bs.getLast? with
        | none => rw [hb] at hres; simp at hres
        | some cur2 =>
          rw [hb] at hres
          simp only [Outcome.ok.injEq] at hres
          refine ⟨bs, cur2, ?_, hb, fun h0 => absurd h0 hv0, fun _ => ⟨cur, rfl, by rw [← hdv]; exact hm⟩⟩
          rw [← hres]; unfold popSt; rw [set_eq_setIfInBounds]
  · have hv0' : v = 0 := by
      by_contra h; exact hv0 h
    simp only [hv0, if_false] at hres
    cases hb : st'.bicoms.getLast? with
    | none => rw [hb] at hres; simp at hres
    | some cur2 =>
      rw [hb] at hres
      simp only [Outcome.ok.injEq] at hres
      refine ⟨st'.bicoms, cur2, ?_, hb, fun _ => rfl, fun h0 => absurd hv0' h0⟩
      rw [← hres]; unfold popSt; rw [set_eq_setIfInBounds]

end GDist
