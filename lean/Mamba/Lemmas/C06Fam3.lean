import Mamba.Lemmas.C06Fam2
import Mathlib.Data.Int.Basic
import Mathlib.Algebra.Order.Group.Int
/-! C06: circulant graphs. -/
namespace Construct
open GraphSpec


/-! ### Go's `(i + v) % n` followed by `+= n` when negative -/

theorem modStep_spec (i : Nat) (v : Int) (n : Nat) (hn : 0 < n) :
    modStep i v n < n ∧ (n : Int) ∣ ((modStep i v n : Int) - i - v) := by
  have hn' : (0 : Int) < n := by omega
  have h1 := Int.tmod_lt_of_pos ((i : Int) + v) hn'
  have h2 := Int.lt_tmod_of_pos ((i : Int) + v) hn'
  have h3 := Int.mul_tdiv_add_tmod ((i : Int) + v) n
  unfold modStep
  generalize ((i : Int) + v).tmod n = r at *
  generalize ((i : Int) + v).tdiv n = q at *
  by_cases hr : r < 0
  · simp only [hr, ↓reduceIte]
    have : ((r + n).toNat : Int) = r + n := Int.toNat_of_nonneg (by omega)
    refine ⟨by omega, ?_⟩
    rw [this]
    exact ⟨-q + 1, by rw [← sub_eq_zero]; have := h3; ring_nf; ring_nf at this; omega⟩
  · simp only [hr, ↓reduceIte]
    have : (r.toNat : Int) = r := Int.toNat_of_nonneg (by omega)
    refine ⟨by omega, ?_⟩
    rw [this]
    exact ⟨-q, by rw [← sub_eq_zero]; have := h3; ring_nf; ring_nf at this; omega⟩

theorem modStep_unique (i : Nat) (v : Int) (n t : Nat) (hn : 0 < n) (ht : t < n) (hd : (n : Int) ∣ ((t : Int) - i - v)) :
    t = modStep i v n := by
  obtain ⟨h1, h2⟩ := modStep_spec i v n hn
  have hdvd : (n : Int) ∣ ((t : Int) - (modStep i v n : Int)) := by
    have := Int.dvd_sub hd h2
    have e : (t : Int) - i - v - ((modStep i v n : Int) - i - v) = (t : Int) - (modStep i v n : Int) := by ring
    rwa [e] at this
  have habs : |(t : Int) - (modStep i v n : Int)| < (n : Int) := by
    rw [abs_lt]; omega
  have := Int.eq_zero_of_abs_lt_dvd hdvd habs
  omega




theorem circulantGraph_ok (n : Nat) (diffs : List Int) :
    ∃ d, circulantGraph n diffs = .ok d ∧ d.WF ∧ d.abs = Families.circulant n diffs := by
  obtain ⟨d, e, w, _, a⟩ := buildByAddEdge_ok n
    ((List.range n).flatMap fun i => diffs.map fun v => (i, modStep i v n)) (by
    intro p hp
    simp only [List.mem_flatMap, List.mem_range, List.mem_map] at hp
    obtain ⟨i, hi, v, _, rfl⟩ := hp
    exact ⟨hi, (modStep_spec i v n (by omega)).1⟩)
  refine ⟨d, e, w, ?_⟩
  rw [a, Families.circulant]
  apply ofPairs_eq_symm
  intro u v
  simp only [List.mem_flatMap, List.mem_range, List.mem_map, List.any_eq_true, beq_iff_eq]
  constructor
  · rintro ⟨p, ⟨i, hi, x, hx, rfl⟩, hne, h⟩
    obtain ⟨h1, h2⟩ := modStep_spec i x n (by omega)
    simp only at hne h
    rcases h with ⟨rfl, rfl⟩ | ⟨rfl, rfl⟩
    · exact ⟨hne, hi, h1, Or.inl ⟨x, hx, Int.emod_eq_zero_of_dvd h2⟩⟩
    · exact ⟨Ne.symm hne, h1, hi, Or.inr ⟨x, hx, Int.emod_eq_zero_of_dvd h2⟩⟩
  · rintro ⟨hne, hu, hv, h⟩
    rcases h with ⟨x, hx, h⟩ | ⟨x, hx, h⟩
    · have := modStep_unique u x n v (by omega) hv (Int.dvd_of_emod_eq_zero h)
      exact ⟨(u, modStep u x n), ⟨u, hu, x, hx, rfl⟩, by rw [← this]; exact hne, Or.inl ⟨rfl, this⟩⟩
    · have := modStep_unique v x n u (by omega) hu (Int.dvd_of_emod_eq_zero h)
      exact ⟨(v, modStep v x n), ⟨v, hv, x, hx, rfl⟩, by rw [← this]; exact Ne.symm hne, Or.inr ⟨this, rfl⟩⟩

theorem circulantBipartiteGraph_ok (n m : Nat) (diffs : List Int) (hm : 0 < m ∨ n = 0 ∨ diffs = []) :
    ∃ d, circulantBipartiteGraph n m diffs = .ok d ∧ d.WF ∧ d.abs = Families.circulantBipartite n m diffs := by
  -- when the loop body never runs there are no edges on either side
  by_cases hm0 : 0 < m
  · obtain ⟨d, e, w, _, a⟩ := buildByAddEdge_ok (n + m)
      ((List.range n).flatMap fun i => diffs.map fun v => (i, n + modStep i v m)) (by
      intro p hp
      simp only [List.mem_flatMap, List.mem_range, List.mem_map] at hp
      obtain ⟨i, hi, v, _, rfl⟩ := hp
      have := (modStep_spec i v m hm0).1
      simp only; omega)
    refine ⟨d, ?_, w, ?_⟩
    · unfold circulantBipartiteGraph
      have : (m == 0) = false := by simp; omega
      simp only [this, Bool.false_and, Bool.false_eq_true, ↓reduceIte]
      exact e
    · rw [a, Families.circulantBipartite]
      apply ofPairs_eq_symm
      intro u v
      simp only [List.mem_flatMap, List.mem_range, List.mem_map, List.any_eq_true, beq_iff_eq, Bool.and_eq_true,
        decide_eq_true_eq]
      constructor
      · rintro ⟨p, ⟨i, hi, x, hx, rfl⟩, hne, h⟩
        obtain ⟨h1, h2⟩ := modStep_spec i x m hm0
        simp only at hne h
        rcases h with ⟨hu, hv⟩ | ⟨hu, hv⟩
        · refine ⟨by omega, by omega, by omega, Or.inl ⟨⟨by omega, by omega⟩, x, hx, ?_⟩⟩
          rw [hu, hv, show n + modStep i x m - n = modStep i x m by omega]; exact Int.emod_eq_zero_of_dvd h2
        · refine ⟨by omega, by omega, by omega, Or.inr ⟨⟨by omega, by omega⟩, x, hx, ?_⟩⟩
          rw [hu, hv, show n + modStep i x m - n = modStep i x m by omega]; exact Int.emod_eq_zero_of_dvd h2
      · rintro ⟨hne, hu, hv, h⟩
        rcases h with ⟨⟨h1, h2⟩, x, hx, h⟩ | ⟨⟨h1, h2⟩, x, hx, h⟩
        · have := modStep_unique u x m (v - n) hm0 (by omega) (Int.dvd_of_emod_eq_zero h)
          exact ⟨(u, n + modStep u x m), ⟨u, h1, x, hx, rfl⟩, by simp only; omega, Or.inl ⟨rfl, by omega⟩⟩
        · have := modStep_unique v x m (u - n) hm0 (by omega) (Int.dvd_of_emod_eq_zero h)
          exact ⟨(v, n + modStep v x m), ⟨v, h1, x, hx, rfl⟩, by simp only; omega, Or.inr ⟨by omega, rfl⟩⟩
  · have hm1 : m = 0 := by omega
    subst hm1
    have hps : ((List.range n).flatMap fun i => diffs.map fun v => (i, n + modStep i v 0)) = [] := by
      rcases hm with h | h | h
      · omega
      · subst h; simp
      · subst h; simp
    obtain ⟨d, e, w, _, a⟩ := buildByAddEdge_ok (n + 0) [] (by simp)
    refine ⟨d, ?_, w, ?_⟩
    · unfold circulantBipartiteGraph
      have hc : ((0 : Nat) == 0 && decide (n > 0) && !diffs.isEmpty) = false := by
        rcases hm with h | h | h
        · omega
        · subst h; simp
        · subst h; simp
      simp only [hc, Bool.false_eq_true, ↓reduceIte, hps]
      exact e
    · rw [a, Families.circulantBipartite]
      apply ofPairs_eq_symm
      intro u v
      simp only [List.not_mem_nil, false_and, exists_false, false_iff, Bool.and_eq_true, decide_eq_true_eq]
      rintro ⟨_, hu, hv, h⟩
      rcases h with ⟨h1, _⟩ | ⟨h1, _⟩ <;> omega


end Construct
