import Mamba.Lemmas.DisjointArr

/-!
# The derived views `SmallestRep`, `Sets`, `Roots` (C18)

Stage 1 removes the state threading: under `Good n R ds` (invariant, size `n`, representatives given
by the fixed function `R`) every `find` returns `R x` and keeps `Good`, so the executable loops equal
pure loops over `R`. Stage 2 characterises the pure loops.
-/
namespace Disjoint

/-- invariant + size + representatives described by `R` -/
def Good (n : Nat) (R : Nat → Nat) (ds : DS) : Prop :=
  Inv ds ∧ ds.size = n ∧ ∀ y, y < n → rep ds y = R y

theorem good_self {ds : DS} (h : Inv ds) : Good ds.size (rep ds) ds := ⟨h, rfl, fun _ _ => rfl⟩

theorem find_good {n : Nat} {R : Nat → Nat} {ds : DS} (h : Good n R ds) (x : Nat) (hx : x < n) :
    ∃ d', find ds x = .ok (d', R x) ∧ Good n R d' := by
  obtain ⟨hi, hs, hr⟩ := h
  obtain ⟨d', f, i, s, r⟩ := find_spec hi x (by omega)
  refine ⟨d', by rw [f, hr x hx], i, by omega, ?_⟩
  intro y hy; rw [r y (by omega), hr y hy]

/-! ### SmallestRep -/

def srInnerP (R : Nat → Nat) (i : Nat) (sr : Array Nat) : Nat → Nat → Nat
  | 0, _ => i
  | k+1, j => if R i = R j then sr.getD j 0 else srInnerP R i sr k (j+1)

def srLoopP (R : Nat → Nat) : Nat → Nat → Array Nat → Array Nat
  | 0, _, sr => sr
  | k+1, i, sr => srLoopP R k (i+1) (sr.push (srInnerP R i sr i 0))

theorem srInner_exec {n : Nat} {R : Nat → Nat} (i : Nat) (sr : Array Nat) (hi : i < n) :
    ∀ (k j : Nat) (ds : DS), Good n R ds → j + k ≤ i →
      ∃ d', smallestRepInner i sr k j ds = .ok (d', srInnerP R i sr k j) ∧ Good n R d' := by
  intro k
  induction k with
  | zero => intro j ds h _; exact ⟨ds, rfl, h⟩
  | succ k ih =>
    intro j ds h hj
    obtain ⟨d1, f1, g1⟩ := find_good h i hi
    obtain ⟨d2, f2, g2⟩ := find_good g1 j (by omega)
    unfold smallestRepInner srInnerP
    rw [f1]; simp only; rw [f2]; simp only
    by_cases e : R i = R j
    · simp only [e, if_true]; exact ⟨d2, rfl, g2⟩
    · simp only [e, if_false]; exact ih (j+1) d2 g2 (by omega)

theorem srLoop_exec {n : Nat} {R : Nat → Nat} :
    ∀ (k i : Nat) (ds : DS) (sr : Array Nat), Good n R ds → i + k ≤ n →
      ∃ d', smallestRepLoop k i ds sr = .ok (d', srLoopP R k i sr) ∧ Good n R d' := by
  intro k
  induction k with
  | zero => intro i ds sr h _; exact ⟨ds, rfl, h⟩
  | succ k ih =>
    intro i ds sr h hi
    obtain ⟨d1, f1, g1⟩ := srInner_exec (R := R) i sr (show i < n by omega) i 0 ds h (by omega)
    unfold smallestRepLoop srLoopP
    rw [f1]
    exact ih (i+1) d1 _ g1 (by omega)

/-- `v` is the least index with the same `R`-value as `i` -/
def IsLeast (R : Nat → Nat) (v i : Nat) : Prop :=
  v ≤ i ∧ R v = R i ∧ ∀ j, j < i → R j = R i → v ≤ j

theorem srInnerP_spec (R : Nat → Nat) (i : Nat) (sr : Array Nat) (hs : sr.size = i)
    (hsr : ∀ m, m < i → IsLeast R (sr.getD m 0) m) :
    ∀ (k j : Nat), j + k = i → (∀ j', j' < j → R j' ≠ R i) → IsLeast R (srInnerP R i sr k j) i := by
  intro k
  induction k with
  | zero =>
    intro j hj hn
    have : j = i := by omega
    subst this
    exact ⟨le_refl _, rfl, fun j' h1 h2 => absurd h2 (hn j' h1)⟩
  | succ k ih =>
    intro j hj hn
    unfold srInnerP
    by_cases e : R i = R j
    · simp only [e, if_true]
      obtain ⟨a1, a2, a3⟩ := hsr j (by omega)
      refine ⟨by omega, by rw [a2, e], ?_⟩
      intro j' h1 h2
      by_cases hjj : j' < j
      · exact absurd (by rw [h2]) (hn j' hjj)
      · omega
    · simp only [e, if_false]
      refine ih (j+1) (by omega) ?_
      intro j' h1
      by_cases hjj : j' = j
      · subst hjj; exact fun h => e h.symm
      · exact hn j' (by omega)

theorem getD_push_eq (sr : Array Nat) (v : Nat) : (sr.push v).getD sr.size 0 = v := by
  simp [Array.getD]

theorem getD_push_lt (sr : Array Nat) (v m : Nat) (hm : m < sr.size) :
    (sr.push v).getD m 0 = sr.getD m 0 := by
  simp [Array.getD, hm, Array.getElem_push, show m < sr.size + 1 by omega]

theorem srLoopP_spec (R : Nat → Nat) :
    ∀ (k i : Nat) (sr : Array Nat), sr.size = i → (∀ m, m < i → IsLeast R (sr.getD m 0) m) →
      (srLoopP R k i sr).size = i + k ∧
      ∀ m, m < i + k → IsLeast R ((srLoopP R k i sr).getD m 0) m := by
  intro k
  induction k with
  | zero => intro i sr hs h; exact ⟨hs, h⟩
  | succ k ih =>
    intro i sr hs h
    unfold srLoopP
    have hv := srInnerP_spec R i sr hs h i 0 (by omega) (by intro j' hj'; omega)
    obtain ⟨a1, a2⟩ := ih (i+1) (sr.push (srInnerP R i sr i 0)) (by simp [hs]) (by
      intro m hm
      by_cases hmi : m = i
      · rw [hmi, ← hs, getD_push_eq, hs]; exact hv
      · have hm' : m < i := by omega
        rw [getD_push_lt _ _ _ (by omega)]
        exact h m hm')
    exact ⟨by omega, fun m hm => a2 m (by omega)⟩

/-! ### Sets -/

def setsInnerP (R : Nat → Nat) (i : Nat) : List (List Nat) → Option (List (List Nat))
  | [] => none
  | [] :: _ => none
  | (h :: t) :: rest =>
    if R i = R h then some (((h :: t) ++ [i]) :: rest)
    else match setsInnerP R i rest with
      | some r => some ((h :: t) :: r)
      | none => none

theorem setsInner_exec {n : Nat} {R : Nat → Nat} (i : Nat) (hi : i < n) :
    ∀ (ss : List (List Nat)) (ds : DS), Good n R ds → (∀ s ∈ ss, ∃ h t, s = h :: t ∧ h < n) →
      ∃ d', setsInner i ss ds = .ok (d', setsInnerP R i ss) ∧ Good n R d' := by
  intro ss
  induction ss with
  | nil => intro ds h _; exact ⟨ds, rfl, h⟩
  | cons s rest ih =>
    intro ds h hss
    obtain ⟨hd, t, rfl, hh⟩ := hss s (List.mem_cons_self ..)
    obtain ⟨d1, f1, g1⟩ := find_good h i hi
    obtain ⟨d2, f2, g2⟩ := find_good g1 hd hh
    unfold setsInner setsInnerP
    rw [f1]; simp only; rw [f2]; simp only
    by_cases e : R i = R hd
    · simp only [e, if_true]; exact ⟨d2, rfl, g2⟩
    · simp only [e, if_false]
      obtain ⟨d3, f3, g3⟩ := ih d2 g2 (fun s' hs' => hss s' (List.mem_cons_of_mem _ hs'))
      rw [f3]
      cases setsInnerP R i rest <;> exact ⟨d3, rfl, g3⟩

/-- the members `< m` of the class of `h` in ascending order -/
def cls (R : Nat → Nat) (m h : Nat) : List Nat := (List.range m).filter (fun k => R k == R h)

/-- `h` is the least member of its class -/
def isLeader (R : Nat → Nat) (h : Nat) : Bool := (List.range h).all (fun j => R j != R h)

def leaders (R : Nat → Nat) (m : Nat) : List Nat := (List.range m).filter (isLeader R)

/-- closed form of `Sets` after `m` elements: the classes in order of their least members -/
def classes (R : Nat → Nat) (m : Nat) : List (List Nat) := (leaders R m).map (cls R m)

theorem isLeader_iff (R : Nat → Nat) (h : Nat) : isLeader R h = true ↔ ∀ j, j < h → R j ≠ R h := by
  simp [isLeader]

theorem mem_leaders (R : Nat → Nat) (m h : Nat) :
    h ∈ leaders R m ↔ h < m ∧ ∀ j, j < h → R j ≠ R h := by
  simp [leaders, isLeader_iff]

theorem mem_cls (R : Nat → Nat) (m h k : Nat) : k ∈ cls R m h ↔ k < m ∧ R k = R h := by
  simp [cls]

theorem cls_succ (R : Nat → Nat) (m h : Nat) :
    cls R (m+1) h = cls R m h ++ if R m = R h then [m] else [] := by
  simp only [cls, List.range_succ, List.filter_append, List.filter_cons, List.filter_nil]
  by_cases e : R m = R h <;> simp [e]

theorem leaders_succ (R : Nat → Nat) (m : Nat) :
    leaders R (m+1) = leaders R m ++ if isLeader R m then [m] else [] := by
  simp only [leaders, List.range_succ, List.filter_append, List.filter_cons, List.filter_nil]

theorem cls_head (R : Nat → Nat) (m h : Nat) (hm : h < m) :
    ∃ h0 t, cls R m h = h0 :: t ∧ R h0 = R h ∧ h0 < m := by
  have hmem : h ∈ cls R m h := (mem_cls R m h h).2 ⟨hm, rfl⟩
  cases hc : cls R m h with
  | nil => rw [hc] at hmem; cases hmem
  | cons h0 t =>
    have : h0 ∈ cls R m h := by rw [hc]; exact List.mem_cons_self ..
    obtain ⟨a, b⟩ := (mem_cls R m h h0).1 this
    exact ⟨h0, t, rfl, b, a⟩

theorem setsInnerP_map (R : Nat → Nat) (i : Nat) :
    ∀ (L : List Nat), (∀ h ∈ L, h < i) → L.Pairwise (fun a b => R a ≠ R b) →
      setsInnerP R i (L.map (cls R i)) =
        if ∃ h ∈ L, R h = R i then some (L.map (cls R (i+1))) else none := by
  intro L
  induction L with
  | nil => intro _ _; simp [setsInnerP]
  | cons h L ih =>
    intro hL hp
    obtain ⟨hp1, hp2⟩ := List.pairwise_cons.1 hp
    obtain ⟨h0, t, hc, hR, _⟩ := cls_head R i h (hL h (List.mem_cons_self ..))
    rw [List.map_cons, hc, setsInnerP, ← hc, hR]
    by_cases e : R i = R h
    · have ex : ∃ h' ∈ h :: L, R h' = R i := ⟨h, List.mem_cons_self .., e.symm⟩
      rw [if_pos e, if_pos ex, List.map_cons, cls_succ, if_pos e]
      congr 2
      apply List.map_congr_left
      intro h' hh'
      rw [cls_succ, if_neg, List.append_nil]
      intro e'; exact hp1 h' hh' (by rw [← e, e'])
    · rw [if_neg e, ih (fun h' hh' => hL h' (List.mem_cons_of_mem _ hh')) hp2]
      have hcs : cls R (i+1) h = cls R i h := by rw [cls_succ, if_neg e, List.append_nil]
      by_cases ex : ∃ h' ∈ L, R h' = R i
      · have ex' : ∃ h' ∈ h :: L, R h' = R i := by
          obtain ⟨h', a, b⟩ := ex; exact ⟨h', List.mem_cons_of_mem _ a, b⟩
        rw [if_pos ex, if_pos ex', List.map_cons, hcs]
      · have ex' : ¬ ∃ h' ∈ h :: L, R h' = R i := by
          rintro ⟨h', a, b⟩
          rcases List.mem_cons.1 a with rfl | a
          · exact e b.symm
          · exact ex ⟨h', a, b⟩
        rw [if_neg ex, if_neg ex']

theorem leaders_pairwise (R : Nat → Nat) (m : Nat) :
    (leaders R m).Pairwise (fun a b => R a ≠ R b) := by
  have h1 : (leaders R m).Pairwise (· < ·) := List.pairwise_lt_range.filter _
  refine h1.imp_of_mem ?_
  intro a b _ hb hab
  exact ((mem_leaders R m b).1 hb).2 a hab

theorem exists_leader (R : Nat → Nat) (m : Nat) :
    ∀ j, j < m → ∃ h ∈ leaders R m, R h = R j ∧ h ≤ j := by
  intro j
  induction j using Nat.strong_induction_on with
  | _ j ih =>
    intro hj
    by_cases hl : ∀ j', j' < j → R j' ≠ R j
    · exact ⟨j, (mem_leaders R m j).2 ⟨hj, hl⟩, rfl, le_refl _⟩
    · simp only [ne_eq, not_forall, not_not, exists_prop] at hl
      obtain ⟨j', h1, h2⟩ := hl
      obtain ⟨h, a, b, c⟩ := ih j' h1 (by omega)
      exact ⟨h, a, by rw [b, h2], by omega⟩

/-- one step of the outer loop of `Sets` on the closed form -/
theorem classes_step (R : Nat → Nat) (i : Nat) :
    (match setsInnerP R i (classes R i) with
     | some s' => s'
     | none => classes R i ++ [[i]]) = classes R (i+1) := by
  unfold classes
  rw [setsInnerP_map R i (leaders R i) (fun h hh => ((mem_leaders R i h).1 hh).1)
    (leaders_pairwise R i), leaders_succ]
  by_cases hl : isLeader R i = true
  · have hl' := (isLeader_iff R i).1 hl
    have nex : ¬ ∃ h ∈ leaders R i, R h = R i := by
      rintro ⟨h, a, b⟩; exact hl' h ((mem_leaders R i h).1 a).1 b
    rw [if_neg nex, if_pos hl, List.map_append]
    simp only [List.map_cons, List.map_nil]
    congr 1
    · apply List.map_congr_left
      intro h hh
      rw [cls_succ, if_neg, List.append_nil]
      intro e; exact nex ⟨h, hh, e.symm⟩
    · rw [cls_succ, if_pos rfl]
      have : cls R i i = [] := by
        rw [List.eq_nil_iff_forall_not_mem]
        intro k hk
        obtain ⟨a, b⟩ := (mem_cls R i i k).1 hk
        exact hl' k a b
      rw [this]; rfl
  · have hl' : ¬ ∀ j, j < i → R j ≠ R i := fun h => hl ((isLeader_iff R i).2 h)
    simp only [ne_eq, not_forall, not_not, exists_prop] at hl'
    obtain ⟨j, hj, hjr⟩ := hl'
    obtain ⟨h, a, b, _⟩ := exists_leader R i j hj
    have ex : ∃ h ∈ leaders R i, R h = R i := ⟨h, a, by rw [b, hjr]⟩
    rw [if_pos ex, if_neg hl, List.append_nil]

theorem classes_heads (R : Nat → Nat) (n i : Nat) (hi : i ≤ n) :
    ∀ s ∈ classes R i, ∃ h t, s = h :: t ∧ h < n := by
  intro s hs
  obtain ⟨h, hh, rfl⟩ := List.mem_map.1 hs
  obtain ⟨h0, t, a, _, c⟩ := cls_head R i h ((mem_leaders R i h).1 hh).1
  exact ⟨h0, t, a, by omega⟩

theorem setsLoop_exec {n : Nat} {R : Nat → Nat} :
    ∀ (k i : Nat) (ds : DS), Good n R ds → i + k ≤ n →
      ∃ d', setsLoop k i ds (classes R i) = .ok (d', classes R (i+k)) ∧ Good n R d' := by
  intro k
  induction k with
  | zero => intro i ds h _; exact ⟨ds, rfl, h⟩
  | succ k ih =>
    intro i ds h hi
    obtain ⟨d1, f1, g1⟩ := setsInner_exec (R := R) i (show i < n by omega) (classes R i) ds h
      (classes_heads R n i (by omega))
    unfold setsLoop
    rw [f1]
    have st := classes_step R i
    obtain ⟨d2, f2, g2⟩ := ih (i+1) d1 g1 (by omega)
    have e : i + (k + 1) = i + 1 + k := by omega
    rw [e]
    cases hc : setsInnerP R i (classes R i) with
    | some s' => rw [hc] at st; simp only at st ⊢; rw [st]; exact ⟨d2, f2, g2⟩
    | none => rw [hc] at st; simp only at st ⊢; rw [st]; exact ⟨d2, f2, g2⟩

/-! ### properties of the closed form -/

theorem classes_sorted (R : Nat → Nat) (m : Nat) :
    ∀ s ∈ classes R m, s ≠ [] ∧ s.Pairwise (· < ·) ∧ ∀ a ∈ s, a < m := by
  intro s hs
  obtain ⟨h, hh, rfl⟩ := List.mem_map.1 hs
  obtain ⟨h0, t, a, _, _⟩ := cls_head R m h ((mem_leaders R m h).1 hh).1
  refine ⟨by rw [a]; exact List.cons_ne_nil _ _, List.pairwise_lt_range.filter _, ?_⟩
  intro k hk; exact ((mem_cls R m h k).1 hk).1

theorem cls_head_leader (R : Nat → Nat) (m h : Nat) (hh : h ∈ leaders R m) :
    (cls R m h).head? = some h := by
  obtain ⟨a, b⟩ := (mem_leaders R m h).1 hh
  rw [cls, List.head?_filter, List.find?_range_eq_some]
  refine ⟨by simp, List.mem_range.2 a, ?_⟩
  intro j hj; simpa using b j hj

theorem classes_heads_lt (R : Nat → Nat) (m : Nat) :
    (classes R m).Pairwise (fun s t => ∀ a b, s.head? = some a → t.head? = some b → a < b) := by
  unfold classes
  rw [List.pairwise_map]
  have h1 : (leaders R m).Pairwise (· < ·) := List.pairwise_lt_range.filter _
  refine h1.imp_of_mem ?_
  intro h1 h2 m1 m2 hlt a b ha hb
  rw [cls_head_leader R m h1 m1] at ha
  rw [cls_head_leader R m h2 m2] at hb
  cases ha; cases hb; exact hlt

theorem classes_same (R : Nat → Nat) (m a b : Nat) (ha : a < m) (hb : b < m) :
    (∃ s ∈ classes R m, a ∈ s ∧ b ∈ s) ↔ R a = R b := by
  constructor
  · rintro ⟨s, hs, h1, h2⟩
    obtain ⟨h, _, rfl⟩ := List.mem_map.1 hs
    rw [((mem_cls R m h a).1 h1).2, ((mem_cls R m h b).1 h2).2]
  · intro e
    obtain ⟨h, hh, hr, _⟩ := exists_leader R m a ha
    exact ⟨cls R m h, List.mem_map.2 ⟨h, hh, rfl⟩, (mem_cls R m h a).2 ⟨ha, hr.symm⟩,
      (mem_cls R m h b).2 ⟨hb, by rw [← e, hr]⟩⟩

theorem classes_disjoint (R : Nat → Nat) (m : Nat) : (classes R m).Pairwise List.Disjoint := by
  unfold classes
  rw [List.pairwise_map]
  refine (leaders_pairwise R m).imp ?_
  intro h1 h2 hne k k1 k2
  exact hne (by rw [← ((mem_cls R m h1 k).1 k1).2, ((mem_cls R m h2 k).1 k2).2])

/-! ### Roots -/

theorem mem_roots (ds : DS) (r : Nat) : r ∈ roots ds ↔ r < ds.size ∧ ds.getD r 0 < 0 := by
  simp [roots]

theorem roots_perm {ds : DS} (h : Inv ds) :
    (roots ds).Perm ((leaders (rep ds) ds.size).map (rep ds)) := by
  rw [List.perm_ext_iff_of_nodup]
  · intro r
    rw [mem_roots, List.mem_map]
    constructor
    · rintro ⟨a, b⟩
      obtain ⟨l, hl, e, _⟩ := exists_leader (rep ds) ds.size r a
      exact ⟨l, hl, by rw [e, rep_of_root ds r b]⟩
    · rintro ⟨l, hl, rfl⟩
      have hlt := ((mem_leaders _ _ _).1 hl).1
      exact ⟨rep_lt h l hlt, rep_isRoot h l hlt⟩
  · exact (List.pairwise_lt_range.filter _).imp (fun hab => Nat.ne_of_lt hab)
  · rw [List.Nodup, List.pairwise_map]
    exact leaders_pairwise (rep ds) ds.size

end Disjoint
