import Mamba.Lemmas.SearchExhaust
namespace Search

variable {O : Oracle} {pre pr : DG → Bool}

/-- shards for `n ≥ 2` -/
theorem shards_perm_ge2 (n m : Nat) (hn : 2 ≤ n) (hm : 0 < m) (fuel lim : Nat)
    {out1 : List DG} {t1 : State} {outs : Nat → List DG} {ts : Nat → State}
    (h1 : exhaust O pre pr fuel lim (init n 0 1) = .ok (out1, t1))
    (ha : ∀ a, a < m → exhaust O pre pr fuel lim (init n a m) = .ok (outs a, ts a)) :
    ((List.range m).flatMap outs).Perm out1 := by
  have e1 := exhaust_init n 0 1 hn fuel lim h1
  have ea := fun a hlt => exhaust_init n a m hn fuel lim (ha a hlt)
  by_cases hpr : (pre K1 || pr K1) = true
  · simp only [hpr, if_true, Outcome.ok.injEq] at e1 ea
    subst e1
    have : (List.range m).flatMap outs = [] := by
      rw [List.flatMap_eq_nil_iff]; intro a hmem
      exact (ea a (List.mem_range.1 hmem)).symm
    rw [this]
  · simp only [hpr, Bool.false_eq_true, if_false] at e1 ea
    refine subNode_shards O pre pr n m hm hn (n - 1) K1 none out1 outs ?_ e1 ea
    have := (splitLevel_range hn).1
    show ((1 : Nat) : Int) ≤ splitLevel n
    omega

/-- the graph the search for `n ≤ 1` may yield -/
def smallGraph (n : Nat) : DG := if n = 0 then DG.empty else K1

/-- for `n ≤ 1` only the shard `a = 0` yields anything, namely the unique graph unless it is pruned -/
theorem exhaust_small (n a m : Nat) (hn : n < 2) (fuel lim : Nat) {out : List DG} {t : State}
    (h : exhaust O pre pr fuel lim (init n a m) = .ok (out, t)) :
    out = if (a == 0 && !pre (smallGraph n) && !pr (smallGraph n)) = true then [smallGraph n] else [] := by
  have hcases : n = 0 ∨ n = 1 := by omega
  cases lim with
  | zero => simp [exhaust] at h
  | succ k =>
    rcases hcases with rfl | rfl
    · simp only [exhaust, next, init, if_true, Bool.true_and, smallGraph] at h ⊢
      by_cases hc : (a == 0 && !pre DG.empty && !pr DG.empty) = true
      · simp only [hc, if_true] at h ⊢
        cases k with
        | zero => simp [exhaust] at h
        | succ k' =>
          simp only [exhaust, next, if_true, Bool.false_and, Bool.false_eq_true, if_false] at h
          cases h; rfl
      · simp only [hc, if_false] at h ⊢
        cases h; rfl
    · simp only [exhaust, next, init, Nat.succ_ne_zero, if_false, if_true, Bool.true_and, smallGraph, K1] at h ⊢
      by_cases hc : (a == 0 && !pre DG.empty.single && !pr DG.empty.single) = true
      · simp only [hc, if_true] at h ⊢
        cases k with
        | zero => simp [exhaust] at h
        | succ k' =>
          simp only [exhaust, next, Nat.succ_ne_zero, if_false, if_true, Bool.false_and, Bool.false_eq_true] at h
          cases h; rfl
      · simp only [hc, if_false] at h ⊢
        cases h; rfl

/-- shards for `n ≤ 1` -/
theorem shards_perm_lt2 (n m : Nat) (hn : n < 2) (hm : 0 < m) (fuel lim : Nat)
    {out1 : List DG} {t1 : State} {outs : Nat → List DG} {ts : Nat → State}
    (h1 : exhaust O pre pr fuel lim (init n 0 1) = .ok (out1, t1))
    (ha : ∀ a, a < m → exhaust O pre pr fuel lim (init n a m) = .ok (outs a, ts a)) :
    ((List.range m).flatMap outs).Perm out1 := by
  have e1 := exhaust_small n 0 1 hn fuel lim h1
  have ea := fun a hlt => exhaust_small n a m hn fuel lim (ha a hlt)
  have hfm : (List.range m).flatMap outs = (List.range m).flatMap fun a => if a = 0 then out1 ++ [] else [] := by
    apply List.flatMap_congr
    intro a hmem
    rw [ea a (List.mem_range.1 hmem), e1]
    by_cases h0 : a = 0
    · subst h0; simp
    · have : (a == 0) = false := by simpa using h0
      simp [h0, this]
  rw [hfm]
  have := flatMap_shards_single m 0 hm out1 (fun _ => [])
  have hnil : (List.range m).flatMap (fun _ : Nat => ([] : List DG)) = [] := by
    rw [List.flatMap_eq_nil_iff]; intro _ _; rfl
  rw [hnil, List.append_nil] at this
  simpa using this

/-- **The shards partition the search** (model level): for every `n` and every `m ≥ 1`, the graphs yielded by the `m`
iterators `WithPruning(n, a, m)`, `a < m`, are together a permutation of the graphs yielded by `WithPruning(n, 0, 1)`. -/
theorem shards_perm (n m : Nat) (hm : 0 < m) (fuel lim : Nat)
    {out1 : List DG} {t1 : State} {outs : Nat → List DG} {ts : Nat → State}
    (h1 : exhaust O pre pr fuel lim (init n 0 1) = .ok (out1, t1))
    (ha : ∀ a, a < m → exhaust O pre pr fuel lim (init n a m) = .ok (outs a, ts a)) :
    ((List.range m).flatMap outs).Perm out1 := by
  by_cases hn : 2 ≤ n
  · exact shards_perm_ge2 n m hn hm fuel lim h1 ha
  · exact shards_perm_lt2 n m (by omega) hm fuel lim h1 ha

end Search
