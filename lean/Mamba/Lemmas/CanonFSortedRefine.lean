import Mamba.Lemmas.CanonFSortedDef
import Mamba.Lemmas.CanonFTreeRefine
/-!
# The refinement keeps every bin in ascending order: `refine_binsSorted`

The fill of `dws` (general path: `stable_stable`; two-bucket path: zeros in order, then the others in order) is stable
(`fill_stable`), a new divider is put wherever the count changes (`SplitS.nmem`), so neighbours without a divider
between them are neighbours in a sublist of the old, ascending segment.
-/
namespace CanonF

/-! ## stability of the fill: entries with equal count keep their order -/

/-- the rfKeys after the two-bucket fill: the zeros in order, then the others in order -/
theorem fillOnes_keys {order ts : Sl Nat} {bs B nm : Nat} {dws0 dws : Sl KV} {z : Nat} {o : Option Nat}
    (hlen : dws0.len = B) (hB : bs + B ≤ order.toList.length)
    (hle : ∀ v ∈ rfSeg order.toList bs (bs + B), rfTv ts v ≤ 1)
    (hnm : nm = (rfSeg order.toList bs (bs + B)).countP (fun v => decide (rfTv ts v = 1)))
    (h : forRange (fillOnesStep order ts bs) B 0 (dws0, 0, if nm ≤ B then some (B - nm) else none) = .ok (dws, z, o)) :
    rfKeys dws = (rfSeg order.toList bs (bs + B)).filter (fun v => decide (rfTv ts v = 0)) ++
      (rfSeg order.toList bs (bs + B)).filter (fun v => !decide (rfTv ts v = 0)) := by
  generalize hS : rfSeg order.toList bs (bs + B) = S at hle hnm ⊢
  have hSlen : S.length = B := by rw [← hS, length_rfSeg _ _ _ (by omega) hB]; omega
  have hSk : ∀ k, k < B → S[k]? = order.toList[bs + k]? := by
    intro k hk; rw [← hS, getElem?_rfSeg, if_pos (by omega)]
  let p0 : Nat → Bool := fun v => decide (rfTv ts v = 0)
  have hc1 : S.countP (fun x => !p0 x) = nm := by
    rw [hnm]
    apply List.countP_congr
    intro v hv
    have := hle v hv
    simp only [p0, Bool.not_eq_true', decide_eq_false_iff_not, decide_eq_true_eq]
    omega
  have hc2 : S.length = S.countP p0 + S.countP (fun x => !p0 x) := by
    have := List.length_eq_countP_add_countP (p := p0) (l := S)
    simpa using this
  have hnB : nm ≤ B := by omega
  have hz : S.countP p0 = B - nm := by omega
  rw [if_pos hnB] at h
  have hfin := forRange_inv (fillOnesStep order ts bs) (fun i st => FOInv S p0 B nm dws0.data.size i st)
    B 0 (dws0, 0, some (B - nm)) (dws, z, o)
    ⟨hlen, rfl, by simp, by simp, by intro i hi; simp at hi, by intro i hi; simp at hi⟩
    (fun i st st' _ hi hI hf => fillOnesStep_inv hSk p0 (fun _ => rfl) hz i (by omega) st st' hI hf) h
  obtain ⟨g1, g2, g3, g4, g5, g6⟩ := hfin
  simp only [Nat.zero_add] at g1 g2 g3 g4 g5 g6
  rw [List.take_of_length_le (by omega)] at g3 g4 g5 g6
  have hZ : (S.filter p0).length = B - nm := by rw [← List.countP_eq_length_filter]; exact hz
  have hO : (S.filter (fun x => !p0 x)).length = nm := by rw [← List.countP_eq_length_filter]; exact hc1
  show rfKeys dws = S.filter p0 ++ S.filter (fun x => !p0 x)
  apply List.ext_getElem?
  intro i
  rw [getElem?_rfKeys, g1]
  by_cases hi : i < B
  · rw [if_pos hi]
    by_cases hi2 : i < (S.filter p0).length
    · rw [List.getElem?_append_left hi2, g5 i hi2, Option.map_map]
      cases (S.filter p0)[i]? <;> rfl
    · rw [List.getElem?_append_right (by omega)]
      have := g6 (i - (S.filter p0).length) (by omega)
      rw [show B - nm + (i - (S.filter p0).length) = i by omega] at this
      rw [this, Option.map_map]
      cases (S.filter (fun x => !p0 x))[i - (S.filter p0).length]? <;> rfl
  · rw [if_neg hi]
    symm; apply List.getElem?_eq_none
    rw [List.length_append]; omega


/-- rfKeys of a list of (count, key) pairs, filtered by count -/
theorem filter_keys_of_pairs {T : Nat → Nat} (L : List KV) (hL : ∀ x ∈ L, x.1 = T x.2) (c : Nat) :
    (L.map Prod.snd).filter (fun v => T v == c) = (L.filter (fun x => x.1 == c)).map Prod.snd := by
  rw [List.filter_map]
  congr 1
  apply List.filter_congr
  intro x hx
  simp only [Function.comp]
  rw [hL x hx]

/-- the fill is stable: the rfKeys with a given count keep their relative order -/
theorem fill_stable (hst : StablePerm) {n : Nat} {op : OP} {sc : Scratch} {j bs dj mc nm : Nat} {dws0 dws : Sl KV}
    (hp : PartInv n op) (hcc : CellCount op sc.timesSeen sc.maxCell sc.numberOfMax j)
    (hbs : (0 :: op.binDividers.toList)[j]? = some bs) (hdj : op.binDividers.toList[j]? = some dj)
    (hmc : sc.maxCell.get j = .ok mc) (hnm : sc.numberOfMax.get j = .ok nm)
    (hd0 : sc.dws.reslice (dj - bs) = .ok dws0)
    (hf : (mc = 1 ∧ ∃ z o, forRange (fillOnesStep op.order sc.timesSeen bs) (dj - bs) 0
            (dws0, 0, if nm ≤ dj - bs then some (dj - bs - nm) else none) = .ok (dws, z, o)) ∨
          (mc ≠ 1 ∧ ∃ dws1, forRange (fillStep op.order sc.timesSeen bs) (dj - bs) 0 dws0 = .ok dws1 ∧
            stable dws1 dws1.len = .ok dws)) (c : Nat) :
    (rfKeys dws).filter (fun v => rfTv sc.timesSeen v == c) =
      (rfSeg op.order.toList bs dj).filter (fun v => rfTv sc.timesSeen v == c) := by
  have hlt : bs < dj := rf_sorted_start_lt hp.sorted hbs hdj
  have hs : op.binDividers.toList.Pairwise (· < ·) := (List.pairwise_cons.1 hp.sorted).2
  have hdn : dj ≤ n := rf_bd_le_last hs hp.last dj (List.mem_of_getElem? hdj)
  have holen : op.order.toList.length = n := by rw [Sl.length_toList _ hp.wfOrder, hp.lenOrder]
  obtain ⟨e1, e2, w0⟩ := Sl.reslice_len hd0
  have hsum : bs + (dj - bs) = dj := by omega
  rcases hf with ⟨hmc1, z, o, hfo⟩ | ⟨_, dws1, hf1, hstb⟩
  · subst hmc1
    obtain ⟨c1, c2, _⟩ := hcc bs dj hbs hdj
    rw [rfDv_of_get hmc] at c1 c2
    rw [rfDv_of_get hnm] at c2
    have hle : ∀ v ∈ rfSeg op.order.toList bs (bs + (dj - bs)), rfTv sc.timesSeen v ≤ 1 := by
      rw [hsum]; intro v hv
      obtain ⟨p, h1, h2, h3⟩ := mem_rfSeg.1 hv
      exact c1 p v h1 h2 h3
    have hcn : nm = (rfSeg op.order.toList bs (bs + (dj - bs))).countP (fun v => decide (rfTv sc.timesSeen v = 1)) := by
      rw [hsum]; exact c2 (by omega)
    have hk := fillOnes_keys (order := op.order) (ts := sc.timesSeen) (bs := bs) (B := dj - bs) (nm := nm) e1
      (by rw [hsum, holen]; exact hdn) hle hcn hfo
    rw [hsum] at hk
    rw [hk, List.filter_append, List.filter_filter, List.filter_filter]
    generalize rfSeg op.order.toList bs dj = S
    by_cases hc0 : c = 0
    · subst hc0
      have h1 : S.filter (fun a => (rfTv sc.timesSeen a == 0) && decide (rfTv sc.timesSeen a = 0)) =
          S.filter (fun v => rfTv sc.timesSeen v == 0) := by
        apply List.filter_congr; intro x _; by_cases hx : rfTv sc.timesSeen x = 0 <;> simp [hx]
      have h2 : S.filter (fun a => (rfTv sc.timesSeen a == 0) && !decide (rfTv sc.timesSeen a = 0)) = [] := by
        rw [List.filter_eq_nil_iff]; intro x _; by_cases hx : rfTv sc.timesSeen x = 0 <;> simp [hx]
      rw [h1, h2, List.append_nil]
    · have h1 : S.filter (fun a => (rfTv sc.timesSeen a == c) && decide (rfTv sc.timesSeen a = 0)) = [] := by
        rw [List.filter_eq_nil_iff]; intro x _
        by_cases hx : rfTv sc.timesSeen x = 0
        · simp [hx]; omega
        · simp [hx]
      have h2 : S.filter (fun a => (rfTv sc.timesSeen a == c) && !decide (rfTv sc.timesSeen a = 0)) =
          S.filter (fun v => rfTv sc.timesSeen v == c) := by
        apply List.filter_congr; intro x _
        by_cases hx : rfTv sc.timesSeen x = 0
        · simp [hx]; omega
        · simp [hx]
      rw [h1, h2, List.nil_append]
  · obtain ⟨f1, f2, f3⟩ := fill_spec hf1
    obtain ⟨g1, g2, g3⟩ := hst _ _ _ hstb
    have hw1 : dws1.WF := by unfold Sl.WF at *; omega
    have hdl : dws.len = dj - bs := by rw [g1, f1, e1]
    have hdw : dws.WF := by unfold Sl.WF at *; omega
    have hk1 : rfKeys dws1 = rfSeg op.order.toList bs dj := by
      have := rfKeys_of_fill (order := op.order) (bs := bs) (B := dj - bs) (dws := dws1) (by rw [f1, e1]) f3
      rw [hsum] at this; exact this
    -- all entries are (count of key, key)
    have hL1 : ∀ x ∈ dws1.toList, x.1 = rfTv sc.timesSeen x.2 := by
      intro x hx
      obtain ⟨k, hk⟩ := List.mem_iff_getElem?.1 hx
      rw [Sl.getElem?_toList] at hk
      by_cases hkl : k < dws1.len
      · rw [if_pos hkl] at hk
        obtain ⟨v, _, hv2⟩ := f3 k (by omega)
        rw [hv2] at hk
        rw [← Option.some.inj hk]
      · rw [if_neg hkl] at hk; cases hk
    have hL : ∀ x ∈ dws.toList, x.1 = rfTv sc.timesSeen x.2 := fun x hx => hL1 x (g3.mem_iff.1 hx)
    have hss := stable_stable hw1 hstb c
    have e1' : rfKeys dws = dws.toList.map Prod.snd := rfl
    have e2' : rfKeys dws1 = dws1.toList.map Prod.snd := rfl
    rw [← hk1, e1', e2', filter_keys_of_pairs _ hL c, filter_keys_of_pairs _ hL1 c, hss]

/-! ## one effective `splitCell`, with the stability facts (no hypothesis on the work list) -/

structure SplitS (ts : Sl Nat) (bs dj : Nat) (K nbsL : List Nat) (op : OP) : Prop where
  nmem : ∀ x, x ∈ nbsL ↔ ∃ k, 1 ≤ k ∧ k < K.length ∧ x = bs + k ∧ rfTv ts (K.getD k 0) ≠ rfTv ts (K.getD (k - 1) 0)
  kstable : ∀ c, K.filter (fun v => rfTv ts v == c) = (rfSeg op.order.toList bs dj).filter (fun v => rfTv ts v == c)

theorem splitCell_splitS (hst : StablePerm) {nb : Nbrs} {n : Nat} {cb fl : Sl Nat} {opts : Options} {j : Nat}
    {op op' : OP} {sc sc' : Scratch} {r : Bool}
    (hp : PartInv n op) (hcc : CellCount op sc.timesSeen sc.maxCell sc.numberOfMax j)
    (h : splitCell nb n cb fl opts j (false, op, sc) = .ok (r, op', sc')) :
    op' = op ∨
    ∃ bs dj K nbsL op2 sc2, SplitRel n j bs dj K nbsL op op2 ∧ SplitS sc.timesSeen bs dj K nbsL op ∧
      scTail nb cb fl opts j op2 sc2 = .ok (r, op', sc') := by
  rw [splitCell_false] at h
  obtain ⟨bs, dj, hbs, hdj, hcase⟩ := scHead_ok2 h
  rcases hcase with ⟨hR, _⟩ | ⟨mc, nm, dws0, hne, _, hmc, hmc0, hnm, hnmB, hd0, h⟩
  · simp only [Prod.mk.injEq] at hR
    exact Or.inl hR.2.1
  · right
    obtain ⟨dws, hf, h⟩ := scFill_ok h
    obtain ⟨f1, f2, f3, f4⟩ := fill_stage hst hp hcc hbs hdj hmc hnm hd0 hf
    obtain ⟨v1, _⟩ := fill_vals hst hp hcc hbs hdj hmc hnm hd0 hf
    have hstab := fill_stable hst hp hcc hbs hdj hmc hnm hd0 hf
    obtain ⟨nbs0, kv0, order1, order2, nbs2, idx, w1, w2, w3, w4, h⟩ := scWrite_ok h
    obtain ⟨nbs3, btc1, bd1, bd2, bd3, u1, _, u3, u4, u5, h⟩ := scUpd1_ok h
    have hlt : bs < dj := rf_sorted_start_lt hp.sorted hbs hdj
    have hs : op.binDividers.toList.Pairwise (· < ·) := (List.pairwise_cons.1 hp.sorted).2
    have hdn : dj ≤ n := rf_bd_le_last hs hp.last dj (List.mem_of_getElem? hdj)
    obtain ⟨o1, o2, o3, o4, n1, n2, _, n4, n5⟩ :=
      write_stage hp.wfOrder hp.lenOrder hlt hdn f1 f3 w1 w2 w3 w4 u1
    obtain ⟨ag1, ag2, ag3, sp1, sp2, btc2, op2, ha1, ha2, ha3, _, _, _, hrec, h⟩ := scUpd2_ok h
    obtain ⟨ic, hic, hrel⟩ := upd_core btc2 hp hbs hdj hne ⟨o1, o2, o3, o4⟩ f4 ⟨n1, n4, n5⟩ u3 u4 u5 ha1 ha2 ha3
    rw [hic] at hrec
    have hop2 := tr_ok_inj hrec
    subst hop2
    have hKl : (rfKeys dws).length = dj - bs := by rw [length_rfKeys f3, f1]
    have hKD : ∀ k, k < dj - bs → dws.data[k]? = some (rfTv sc.timesSeen ((rfKeys dws).getD k 0), (rfKeys dws).getD k 0) := by
      intro k hk
      obtain ⟨v, hv⟩ := v1 k hk
      have hk' : (rfKeys dws)[k]? = some v := by rw [getElem?_rfKeys, if_pos (by omega), hv]; rfl
      rw [List.getD_eq_getElem?_getD, hk']; exact hv
    obtain ⟨c1, c2, _⟩ := Sl.reslice_len u1
    obtain ⟨_, _, _, b4, _, b6, _, _, _⟩ := writeBack_spec (n := n) f1 (Sl.reslice_len w1).1 w2 w3 w4
    have e3 : nbs3.toList = nbs2.toList.take idx := by
      unfold Sl.toList
      rw [c1, c2, List.take_take, Nat.min_eq_left (by omega)]
    have hnb := writeBack_nbs w4
    refine ⟨bs, dj, rfKeys dws, nbs3.toList, _, _, hrel, ⟨?_, hstab⟩, h⟩
    intro x
    rw [e3, hnb, List.mem_map, hKl]
    constructor
    · rintro ⟨k, hk, rfl⟩
      obtain ⟨hk1', hk2'⟩ := List.mem_filter.1 hk
      rw [List.mem_range'_1] at hk1'
      refine ⟨k, by omega, by omega, rfl, ?_⟩
      unfold chgAt at hk2'
      rw [hKD k (by omega), hKD (k - 1) (by omega)] at hk2'
      simpa using hk2'
    · rintro ⟨k, hk1', hk2', rfl, hk4⟩
      refine ⟨k, List.mem_filter.2 ⟨by rw [List.mem_range'_1]; omega, ?_⟩, rfl⟩
      unfold chgAt
      rw [hKD k (by omega), hKD (k - 1) (by omega)]
      simpa using hk4

/-! ## every bin stays in ascending order -/

theorem bs_chain_pairwise : ∀ (l : List Nat), (∀ i (h : i + 1 < l.length), l[i] < l[i + 1]) → l.Pairwise (· < ·) := by
  intro l
  induction l with
  | nil => intro _; exact List.Pairwise.nil
  | cons x t ih =>
    intro hc
    have ht : t.Pairwise (· < ·) := ih (fun i h => by
      have := hc (i + 1) (by simp only [List.length_cons]; omega)
      simpa using this)
    rw [List.pairwise_cons]
    refine ⟨?_, ht⟩
    cases t with
    | nil => intro a ha; simp at ha
    | cons y r =>
      have hxy : x < y := by
        have := hc 0 (by simp only [List.length_cons]; omega)
        simpa using this
      intro a ha
      rcases List.mem_cons.1 ha with rfl | ha
      · exact hxy
      · have := (List.pairwise_cons.1 ht).1 a ha
        omega

theorem bs_div_not_between {bd : List Nat} (hs : (0 :: bd).Pairwise (· < ·)) {j bs dj : Nat}
    (hbs : (0 :: bd)[j]? = some bs) (hdj : bd[j]? = some dj) {d : Nat} (hd : d ∈ bd) : d ≤ bs ∨ dj ≤ d := by
  obtain ⟨i, hi⟩ := List.mem_iff_getElem?.1 hd
  have hi' : (0 :: bd)[i + 1]? = some d := by rw [List.getElem?_cons_succ]; exact hi
  have hdj' : (0 :: bd)[j + 1]? = some dj := by rw [List.getElem?_cons_succ]; exact hdj
  obtain ⟨k1, e1⟩ := List.getElem?_eq_some_iff.1 hi'
  obtain ⟨k2, e2⟩ := List.getElem?_eq_some_iff.1 hbs
  obtain ⟨k3, e3⟩ := List.getElem?_eq_some_iff.1 hdj'
  have hpw := List.pairwise_iff_getElem.1 hs
  rcases Nat.lt_trichotomy i j with hlt | heq | hgt
  · left
    by_cases hij : i + 1 = j
    · subst hij; exact Nat.le_of_eq (by rw [← e1, e2])
    · have := hpw (i + 1) j k1 k2 (by omega)
      rw [e1, e2] at this; omega
  · right; subst heq; exact Nat.le_of_eq (by rw [← e1, e3])
  · right
    have := hpw (j + 1) (i + 1) k3 k1 (by omega)
    rw [e1, e3] at this; omega

/-- the segment of a bin of a partition with sorted bins is strictly ascending -/
theorem seg_sorted {n : Nat} {op : OP} (hp : PartInv n op) (hb : BinsSorted op) {j bs dj : Nat}
    (hbs : (0 :: op.binDividers.toList)[j]? = some bs) (hdj : op.binDividers.toList[j]? = some dj) :
    (rfSeg op.order.toList bs dj).Pairwise (· < ·) := by
  have hlt : bs < dj := rf_sorted_start_lt hp.sorted hbs hdj
  have hs : op.binDividers.toList.Pairwise (· < ·) := (List.pairwise_cons.1 hp.sorted).2
  have hdn : dj ≤ n := rf_bd_le_last hs hp.last dj (List.mem_of_getElem? hdj)
  have holen : op.order.toList.length = n := by rw [Sl.length_toList _ hp.wfOrder, hp.lenOrder]
  have hl : (rfSeg op.order.toList bs dj).length = dj - bs := length_rfSeg _ _ _ (by omega) (by omega)
  apply bs_chain_pairwise
  intro i hi
  rw [hl] at hi
  have h1 : (rfSeg op.order.toList bs dj)[i]? = op.order.toList[bs + i]? := by
    rw [getElem?_rfSeg, if_pos (by omega)]
  have h2 : (rfSeg op.order.toList bs dj)[i + 1]? = op.order.toList[bs + i + 1]? := by
    rw [getElem?_rfSeg, if_pos (by omega)]; rfl
  rw [List.getElem?_eq_getElem (by omega)] at h1 h2
  apply hb (bs + i) _ _ h1.symm h2.symm
  intro hmem
  rcases bs_div_not_between hp.sorted hbs hdj hmem with h | h <;> omega

/-- two neighbours in `K` that satisfy `p` are neighbours in `K.filter p` -/
theorem pair_sublist_filter' (A B : List Nat) (u v : Nat) (p : Nat → Bool) (h1 : p u = true) (h2 : p v = true) :
    [u, v].Sublist ((A ++ u :: v :: B).filter p) := by
  rw [List.filter_append, List.filter_cons_of_pos h1, List.filter_cons_of_pos h2]
  apply List.sublist_append_of_sublist_right
  exact (List.nil_sublist _).cons_cons v |>.cons_cons u

theorem pair_sublist_filter {K : List Nat} {a : Nat} (h : a + 1 < K.length) (p : Nat → Bool)
    (h1 : p K[a] = true) (h2 : p K[a + 1] = true) : [K[a], K[a + 1]].Sublist (K.filter p) := by
  have e : K = K.take a ++ K[a] :: K[a + 1] :: K.drop (a + 2) := by
    conv => lhs; rw [← List.take_append_drop a K, List.drop_eq_getElem_cons (by omega),
      List.drop_eq_getElem_cons h]
  have := pair_sublist_filter' (K.take a) (K.drop (a + 2)) K[a] K[a + 1] p h1 h2
  rw [← e] at this
  exact this


/-- one effective `splitCell` keeps the bins in ascending order -/
theorem SplitRel.binsSorted {n j bs dj : Nat} {K nbsL : List Nat} {op op2 : OP} {ts : Sl Nat}
    (h : SplitRel n j bs dj K nbsL op op2) (hS : SplitS ts bs dj K nbsL op) (hp : PartInv n op)
    (hb : BinsSorted op) : BinsSorted op2 := by
  have hlt : bs < dj := rf_sorted_start_lt hp.sorted h.hbs h.hdj
  have hs : op.binDividers.toList.Pairwise (· < ·) := (List.pairwise_cons.1 hp.sorted).2
  have hdn : dj ≤ n := rf_bd_le_last hs hp.last dj (List.mem_of_getElem? h.hdj)
  have holen : op.order.toList.length = n := by rw [Sl.length_toList _ hp.wfOrder, hp.lenOrder]
  have hKl : K.length = dj - bs := by rw [h.kperm.length_eq, length_rfSeg _ _ _ (by omega) (by omega)]
  have htk : (op.order.toList.take bs).length = bs := by rw [List.length_take]; omega
  have hbd : ∀ d, d ∈ op.binDividers.toList → d ∈ op2.binDividers.toList := by
    intro d hd
    rw [h.bd]
    rw [← List.take_append_drop j op.binDividers.toList] at hd
    rcases List.mem_append.1 hd with hd | hd
    · exact List.mem_append_left _ (List.mem_append_left _ hd)
    · exact List.mem_append_right _ hd
  have hge : ∀ q, dj ≤ q → op2.order.toList[q]? = op.order.toList[q]? := by
    intro q hq
    rw [h.order, List.getElem?_append_right (by rw [List.length_append]; omega), List.length_append, htk, hKl,
      List.getElem?_drop, show dj + (q - (bs + (dj - bs))) = q by omega]
  have hin : ∀ q, bs ≤ q → q < dj → op2.order.toList[q]? = K[q - bs]? := by
    intro q h1 h2
    rw [h.order, List.append_assoc, List.getElem?_append_right (by omega), htk,
      List.getElem?_append_left (by omega)]
  intro p u v hu hv hnd
  have hnd1 : p + 1 ∉ op.binDividers.toList := fun hm => hnd (hbd _ hm)
  have hne_dj : p + 1 ≠ dj := fun e => hnd1 (e ▸ List.mem_of_getElem? h.hdj)
  have hne_bs : p + 1 ≠ bs := by
    intro e
    have hb' := h.hbs
    cases j with
    | zero => simp at hb'; omega
    | succ k =>
      rw [List.getElem?_cons_succ] at hb'
      exact hnd1 (e ▸ List.mem_of_getElem? hb')
  by_cases hA : p + 1 < bs
  · rw [h.order_lt hp (by omega)] at hu
    rw [h.order_lt hp hA] at hv
    exact hb p u v hu hv hnd1
  · by_cases hB : dj ≤ p
    · rw [hge p hB] at hu
      rw [hge (p + 1) (by omega)] at hv
      exact hb p u v hu hv hnd1
    · have h1 : bs ≤ p := by omega
      have h2 : p + 1 < dj := by omega
      rw [hin p h1 (by omega)] at hu
      rw [hin (p + 1) (by omega) h2, show p + 1 - bs = (p - bs) + 1 by omega] at hv
      obtain ⟨ha, hua⟩ := List.getElem?_eq_some_iff.1 hu
      obtain ⟨ha1, hva⟩ := List.getElem?_eq_some_iff.1 hv
      -- no new divider between them: equal counts
      have hT : rfTv ts v = rfTv ts u := by
        apply Classical.byContradiction
        intro hne
        apply hnd
        rw [h.bd]
        apply List.mem_append_left
        apply List.mem_append_right
        refine (hS.nmem (p + 1)).2 ⟨p - bs + 1, by omega, ha1, by omega, ?_⟩
        rw [List.getD_eq_getElem?_getD, List.getD_eq_getElem?_getD, hv, Nat.add_sub_cancel, hu]
        exact hne
      have hsub := pair_sublist_filter ha1 (fun x => rfTv ts x == rfTv ts u)
        (by rw [hua]; simp) (by rw [hva]; simp [hT])
      rw [hua, hva, hS.kstable] at hsub
      have hpw := (seg_sorted hp hb h.hbs h.hdj).sublist (hsub.trans List.filter_sublist)
      exact (List.pairwise_cons.1 hpw).1 v (List.mem_singleton.2 rfl)

theorem carried_binsSorted (hst : StablePerm) (nb : Nbrs) (n : Nat) (cb fl : Sl Nat) (opts : Options) :
    Carried nb n cb fl opts BinsSorted := by
  constructor
  · intro j op op' sc sc' r hp hcc hq h
    rcases splitCell_splitS hst hp hcc h with rfl | ⟨bs, dj, K, nbsL, op2, sc2, hrel, hS, ht⟩
    · exact hq
    · obtain ⟨_, e1, e2, _, _, _, _⟩ := scTail_frame ht
      have := hrel.binsSorted hS hp hq
      intro p u v hu hv hnd
      rw [e1] at hu hv
      rw [e2] at hnd
      exact this p u v hu hv hnd
  · intro op b hq
    exact hq

/-- the refinement keeps every bin in ascending order (whatever it returns) -/
theorem refine_binsSorted (hst : StablePerm) {n : Nat} {nb : Nbrs} {cb fl : Sl Nat} {opts : Options} {op op' : OP}
    {sc sc' : Scratch} {w : Bool} (hp : PartInv n op) (ha : AgeInv op) (hsc : ScratchOK n sc)
    (hb : BinsSorted op) (hr : refine nb cb fl opts op sc = .ok (w, op', sc')) : BinsSorted op' := by
  unfold refine at hr
  rw [hp.lenOrder] at hr
  exact (refineLoop_inv hst (carried_binsSorted hst nb n cb fl opts) _ op op' sc sc' w hp ha hb hsc.scrInv hr).2.1

end CanonF
