import Mamba.Lemmas.DsaturC6
import Mamba.Lemmas.CliqueGoBK2
/-! DSATUR model: the initial state and the two public functions. -/
namespace CliqueColour
open GraphSpec

def dsInit (g : G) (upper : Int) : Dsat :=
  { heap := heapInit (List.replicate g.n (0 : Int)) g.degrees (List.range g.n), num := List.replicate g.n (0 : Int),
    seen := List.replicate g.n (List.replicate upper.toNat 0), deg := g.degrees,
    colouring := List.replicate g.n (-1), best := List.replicate g.n (-1),
    chosen := [], cur := [], choices := [], maxUsed := -1, upper := upper }

theorem getD_replicate {α : Type} (n : Nat) (a d : α) {v : Nat} (hv : v < n) : (List.replicate n a).getD v d = a := by
  simp [List.getD_eq_getElem?_getD, List.getElem?_replicate, hv]

theorem dsInit_inv (g : G) (hn : 0 < g.n) {upper : Int} (hup : 1 ≤ upper) :
    DSInv g upper.toNat (dsInit g upper) ∧ CInv g (dsInit g upper) ∧ ColUp (dsInit g upper) ∧
      dsMeasure g (dsInit g upper) = (g.n + 2) ^ (g.n + 1) := by
  have hinit := heapInit_spec (List.replicate g.n (0 : Int)) g.degrees (List.range g.n)
  refine ⟨?_, ?_, ?_, ?_⟩
  · exact
      { npos := hn
        lcol := by simp [dsInit]
        lseen := by simp [dsInit]
        lrow := fun v hv => by
          show ((List.replicate g.n (List.replicate upper.toNat (0 : Int))).getD v []).length = _
          rw [getD_replicate _ _ _ hv]; simp
        chn := by simp [dsInit]
        chlt := by simp [dsInit]
        lcur := rfl
        lcho := rfl
        hnd := hinit.1.nodup_iff.2 List.nodup_range
        hmem := fun v => by
          show v ∈ heapInit _ _ _ ↔ _
          rw [hinit.1.mem_iff]; simp [dsInit]
        colun := fun v hv _ => by
          show (List.replicate g.n (-1 : Int)).getD v 0 = -1
          exact getD_replicate _ _ _ hv
        colch := fun i hi => by simp [dsInit] at hi
        hok := hinit.2
        seenH := fun u hu c hc => by
          have hun : u < g.n := by
            have : u ∈ List.range g.n := hinit.1.subset hu
            exact List.mem_range.1 this
          show ((List.replicate g.n (List.replicate upper.toNat (0 : Int))).getD u []).getD c 0 = _
          rw [getD_replicate _ _ _ hun, getD_replicate _ _ _ hc]
          rfl
        seenC := fun i hi => by simp [dsInit] at hi
        optS := fun i hi => by simp [dsInit] at hi
        optF := fun i hi => by simp [dsInit] at hi
        optC := fun i hi => by simp [dsInit] at hi
        mused := rfl
        seg := fun i hi c hc => by
          have hi0 : i = 0 := by simpa [dsInit] using hi
          subst hi0
          simp only [List.take_zero, maxCol_nil] at hc
          omega
        uple := by show upper ≤ ((upper.toNat : Nat) : Int); omega
        up1 := hup
        best := Or.inl ⟨rfl, by show upper = ((upper.toNat : Nat) : Int); omega⟩ }
  · intro u _ hex
    obtain ⟨f, hf⟩ := hex
    exact ⟨f, hf, Or.inl (fun w hw => by simp [dsInit] at hw)⟩
  · intro w hw; simp [dsInit] at hw
  · simp [dsMeasure, dsInit, psum]

theorem dfsDsatur_spec {g : G} (hw : g.WF) (hn : 0 < g.n) (lower : Int) {upper0 : Int} (hup : 0 ≤ upper0) :
    ∃ k c, dfsDsatur g lower upper0 = .ok (k, c) ∧ DsFinal g (upper0 + 1).toNat lower k c := by
  obtain ⟨h1, h2, h3, h4⟩ := dsInit_inv g hn (upper := upper0 + 1) (by omega)
  have hfuel : dsMeasure g (dsInit g (upper0 + 1)) + 1 ≤ (g.n + 2) ^ (g.n + 2) := by
    rw [h4]
    have hpos : 0 < (g.n + 2) ^ (g.n + 1) := Nat.pow_pos (by omega)
    have e : (g.n + 2) ^ (g.n + 2) = (g.n + 2) ^ (g.n + 1) * (g.n + 2) := Nat.pow_succ _ _
    have h2' : (g.n + 2) ^ (g.n + 1) * 2 ≤ (g.n + 2) ^ (g.n + 1) * (g.n + 2) := Nat.mul_le_mul_left _ (by omega)
    omega
  obtain ⟨k, c, he, hf⟩ := dsLoop_spec hw lower _ _ h1 h2 h3 hfuel
  refine ⟨k, c, ?_, hf⟩
  have hn0 : (g.n == 0) = false := by simpa using (by omega : g.n ≠ 0)
  unfold dfsDsatur
  simp only [hn0, Bool.false_eq_true, if_false]
  rw [if_neg (by omega), if_neg (by omega)]
  exact he

/-! ### from the internal statements to colourability -/

theorem good_iff_colourable {g : G} {u : Int} (hu : 1 ≤ u) : (∃ f, Good g u f) ↔ Colourable g (u - 1).toNat := by
  constructor
  · rintro ⟨f, hp, hb⟩
    exact ⟨f, hp, fun v hv => by have := hb v hv; omega⟩
  · rintro ⟨f, hp, hb⟩
    exact ⟨f, hp, fun v hv => by have := hb v hv; omega⟩

theorem bestOK_colourable {g : G} {best : List Int} {k : Int} (h : BestOK g best k) : Colourable g k.toNat := by
  refine ⟨fun v => (best.getD v 0).toNat, fun u v hu hv hadj => ?_, fun v hv => ?_⟩
  · have h1 := (h.2.1 u hu).1
    have h2 := (h.2.1 v hv).1
    have := h.2.2.1 u v hu hv hadj
    show (best.getD u 0).toNat ≠ (best.getD v 0).toNat
    omega
  · have := h.2.1 v hv
    show (best.getD v 0).toNat < k.toNat
    omega

theorem clique_le_chromatic {g : G} (hw : g.WF) : cliqueNumberSpec g ≤ chromaticNumberSpec g := by
  obtain ⟨s, _, hs, hlen⟩ := cliqueNumberSpec_witness g
  obtain ⟨⟨f, hp, hb⟩, _, _⟩ : Colourable g (chromaticNumberSpec g) ∧ _ ∧ _ := by
    have h := leastFrom_spec (colourableB g) g.n 0 (by
      rw [Nat.zero_add]; exact (colourableB_iff hw _).2 (colourable_n hw))
    exact ⟨(colourableB_iff hw _).1 h.1, trivial, trivial⟩
  have hnd : (s.map f).Nodup := by
    refine List.Nodup.map_on ?_ hs.1
    intro a ha b hb' hab
    by_contra hne
    exact hp a b (hs.2.1 a ha) (hs.2.1 b hb') (hs.2.2 a ha b hb' hne) hab
  have hsub : (s.map f).Subperm (List.range (chromaticNumberSpec g)) := by
    apply List.subperm_of_subset hnd
    intro x hx
    obtain ⟨a, ha, rfl⟩ := List.mem_map.1 hx
    exact List.mem_range.2 (hb a (hs.2.1 a ha))
  have := hsub.length_le
  simp at this
  omega

end CliqueColour
