import Mamba.Lemmas.DistanceBiconBlk6
/-!
# The blocks returned by `bicComponent`
-/
namespace GDist
open GraphSpec Model

variable {g : G} {com : List Nat}

/-- the blocks that `bicComponent` appends are described by the final DFS tree of the component -/
theorem bicComponent_blocks (gc : GoodCom g com) (hne : com ≠ [])
    (hconn : ∀ x ∈ com, Reach g (com.getD 0 0) x) (hsym : ∀ u v, g.adj u v = g.adj v u)
    (hirr : ∀ v, g.adj v v = false) (acc acc' : List (List Nat) × List Nat)
    (hacc : ∀ b ∈ acc.1, b.Pairwise (fun a b => decide (a ≤ b) = true))
    (hres : bicComponent g com acc = .ok acc') :
    ∃ st tp new, DFinal (g.induced com) st tp ∧ acc'.1 = acc.1 ++ new ∧
      BlocksOf (g.induced com) com st tp new := by
  unfold bicComponent at hres
  have hn : (g.induced com).n = com.length := rfl
  have hpos : 0 < com.length := List.length_pos_iff.2 hne
  have hn0 : ¬ (g.induced com).n = 0 := by rw [hn]; omega
  have hnpos : 0 < (g.induced com).n := by rw [hn]; exact hpos
  simp only [hn0, if_false] at hres
  have emb := goodCom_emb gc
  cases hloop : bicLoop (g.induced com) com (2 * (g.induced com).n + 2) (bicInit (g.induced com).n acc.1) with
  | panic => unfold bicInit at hloop; rw [hloop] at hres; simp at hres
  | outOfFuel => unfold bicInit at hloop; rw [hloop] at hres; simp at hres
  | ok st =>
    have hloop' := hloop
    unfold bicInit at hloop'
    rw [hloop'] at hres
    simp only at hres
    have hI0 : BInv (g.induced com) com acc.1 (bicInit (g.induced com).n acc.1) :=
      .inl ⟨fun _ => 0, [], dt_init hnpos acc.1 hacc, la_init hnpos acc.1, bk_init hnpos acc.1,
        by simp [bicInit]⟩
    obtain ⟨hI, hemp⟩ := bicLoop_invariant (g.induced com) com (BInv (g.induced com) com acc.1)
      (fun st s hI hs => binv_step com emb.inj (induced_symm hsym com) (induced_irrefl hirr com) hI hs)
      _ _ st hI0 hloop
    rcases hI with ⟨_, _, _, _, _, hne'⟩ | ⟨st0, tp, cs, t, c2, hf⟩
    · exact absurd hemp hne'
    have dt := hf.dt'
    have hroot : bvis st 0 := by unfold bvis; rw [dt.root]; omega
    have hall : ∀ x, x < (g.induced com).n → bvis st x := by
      intro x hx
      have hxc : com.getD x 0 ∈ com := by rw [getD_eq_getElem' hx]; exact List.getElem_mem hx
      obtain ⟨k, hk⟩ := hconn _ hxc
      have : ∀ y k, WalkIn g (List.range g.n) (com.getD 0 0) y k →
          ∃ i, i < com.length ∧ com.getD i 0 = y ∧ bvis st i := by
        intro y k hw
        induction hw with
        | base _ => exact ⟨0, hpos, rfl, hroot⟩
        | step _ hadj hy ih =>
          obtain ⟨i, hi, hiy, hiv⟩ := ih
          rw [← hiy] at hadj
          obtain ⟨j, hj, hjy⟩ := emb.closed i _ hi (List.mem_range.1 hy) hadj
          refine ⟨j, hj, hjy, ?_⟩
          apply dt.fin i hi hiv (by rw [hemp]; simp) j _ hj
          rw [emb.adj i j hi hj, hjy]; exact hadj
      obtain ⟨i, hi, hix, hiv⟩ := this _ k hk
      have : i = x := emb.inj i x hi hx hix
      subst this; exact hiv
    obtain ⟨new, hnew, hB⟩ := bfin_blocks emb.inj hf hall hnpos
    cases hres
    exact ⟨st, tp, new, ⟨dt, hf.la', hall, hemp⟩, hnew, hB⟩

end GDist
