import Mamba.Lemmas.CanonFTreeDef
import Mamba.Lemmas.CanonFCount
import Mamba.Lemmas.CanonFCertDeage
import Mamba.Lemmas.IREquiv
namespace CanonF

theorem cnt_certPos_succ (nb : Nbrs) (o : List Nat) (s : Nat) :
    certPos nb o (s + 1) = certPos nb o s ++ blockCodes nb o s := by
  unfold certPos
  rw [List.range_succ, List.flatMap_append]
  simp

theorem cnt_blockCodes_sorted (nb : Nbrs) (o : List Nat) (j : Nat) : (blockCodes nb o j).Pairwise (· ≤ ·) := by
  unfold blockCodes sortNat
  have hle : ∀ a b : Nat, (decide (a ≤ b) || decide (b ≤ a)) = true := by intro a b; simp; omega
  have htr : ∀ a b c : Nat, decide (a ≤ b) = true → decide (b ≤ c) = true → decide (a ≤ c) = true := by
    intro a b c h1 h2; simp at *; omega
  have s1 := List.pairwise_mergeSort (le := fun a b => decide (a ≤ b)) htr hle (rawCodes nb o j)
  exact s1.imp (fun h => by simpa using h)

/-- the certificate is ascending -/
theorem certPos_sorted (nb : Nbrs) (o : List Nat) (n : Nat) : (certPos nb o n).Pairwise (· ≤ ·) := by
  induction n with
  | zero => simp [certPos]
  | succ s ih =>
    rw [cnt_certPos_succ, List.pairwise_append]
    refine ⟨ih, cnt_blockCodes_sorted nb o s, ?_⟩
    intro x hx y hy
    have h1 := deage_certPos_lt hx
    have h2 := (deage_mem_blockCodes hy).1
    omega

theorem cnt_flatMap_perm {α β : Type} (l : List α) (f g : α → List β) (h : ∀ a ∈ l, (f a).Perm (g a)) :
    (l.flatMap f).Perm (l.flatMap g) := by
  induction l with
  | nil => simp
  | cons x xs ih =>
    rw [List.flatMap_cons, List.flatMap_cons]
    exact (h x (by simp)).append (ih (fun a ha => h a (by simp [ha])))

/-- the codes of the vertex `u` in terms of positions -/
def cntVCodes (nb : Nbrs) (o : List Nat) (u : Nat) : List Nat :=
  (nb.getD u []).filterMap (fun v => if o.idxOf v < o.idxOf u then some (tri (o.idxOf u) + o.idxOf v) else none)

theorem cnt_codes_eq {n : Nat} {nb : Nbrs} (o : List Nat) (hnb : NbOK nb n) :
    IR.codes (irG n nb) (IR.tab n (fun v => o.idxOf v)) = (List.range n).flatMap (cntVCodes nb o) := by
  unfold IR.codes
  rw [List.flatMap_def, List.flatMap_def]
  congr 1
  apply List.map_congr_left
  intro u hu
  have hu' : u < n := List.mem_range.1 hu
  unfold cntVCodes
  show List.filterMap _ (nb.getD u []) = _
  apply List.filterMap_congr
  intro v hv
  have hv' : v < n := (hnb.lt u v hv).2
  rw [IR.col_tab _ hu', IR.col_tab _ hv']
  rfl

theorem cnt_vcodes_pos {nb : Nbrs} {o : List Nat} (ho : o.Nodup) (j : Nat) (hj : j < o.length) :
    cntVCodes nb o (o.getD j 0) = rawCodes nb o j := by
  have e : o.getD j 0 = o[j] := by
    rw [List.getD_eq_getElem?_getD, List.getElem?_eq_getElem hj]; rfl
  unfold cntVCodes rawCodes
  rw [e, ho.idxOf_getElem j hj]

theorem cnt_codes_perm {n : Nat} {nb : Nbrs} {o : List Nat} (hnb : NbOK nb n) (ho : o.Perm (List.range n)) :
    (IR.codes (irG n nb) (IR.tab n (fun v => o.idxOf v))).Perm (certPos nb o n) := by
  have hnd : o.Nodup := ho.nodup_iff.2 List.nodup_range
  have hlen : o.length = n := by simpa using ho.length_eq
  rw [cnt_codes_eq o hnb]
  refine (List.Perm.flatMap_right _ ho.symm).trans ?_
  have eo : o = (List.range n).map (fun j => o.getD j 0) := by
    apply List.ext_getElem
    · simp [hlen]
    · intro i h1 h2
      simp [h1]
  have e2 : o.flatMap (cntVCodes nb o) = (List.range n).flatMap (rawCodes nb o) := by
    rw [congrArg (List.flatMap (cntVCodes nb o)) eo, List.flatMap_map]
    rw [List.flatMap_def, List.flatMap_def]
    congr 1
    apply List.map_congr_left
    intro j hj
    exact cnt_vcodes_pos hnd j (by rw [hlen]; exact List.mem_range.1 hj)
  rw [e2]
  unfold certPos
  exact cnt_flatMap_perm _ _ _ (fun j _ => (deage_sortNat_perm _).symm)

/-- the IR certificate of the leaf colouring `vertex ↦ position` is the certificate of the order -/
theorem cert_link {n : Nat} {nb : Nbrs} {o : List Nat} (hnb : NbOK nb n) (ho : o.Perm (List.range n)) :
    IR.cert (irG n nb) (IR.tab n (fun v => o.idxOf v)) = certPos nb o n := by
  unfold IR.cert
  have hle : ∀ a b : Nat, (decide (a ≤ b) || decide (b ≤ a)) = true := by intro a b; simp; omega
  have htr : ∀ a b c : Nat, decide (a ≤ b) = true → decide (b ≤ c) = true → decide (a ≤ c) = true := by
    intro a b c h1 h2; simp at *; omega
  have s1 := List.pairwise_mergeSort (le := fun a b => decide (a ≤ b)) htr hle
    (IR.codes (irG n nb) (IR.tab n (fun v => o.idxOf v)))
  have s1' : (List.mergeSort (IR.codes (irG n nb) (IR.tab n (fun v => o.idxOf v)))
      (fun a b => decide (a ≤ b))).Pairwise (· ≤ ·) := s1.imp (fun h => by simpa using h)
  exact List.Perm.eq_of_pairwise (le := (· ≤ ·)) (fun a b _ _ h1 h2 => Nat.le_antisymm h1 h2) s1'
    (certPos_sorted nb o n) ((List.mergeSort_perm _ _).trans (cnt_codes_perm hnb ho))

end CanonF
