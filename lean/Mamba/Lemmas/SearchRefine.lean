import Mamba.Lemmas.SearchTrans
namespace Search

variable {O : Oracle} {pre pr : DG → Bool}
variable {n : Nat} {K : Nat → Nat → Bool} {node : DG → Option Ans → Outcome (List DG)}

theorem MInv.of_eff {mode mode' : Mode} {s : State} (h : MInv n K mode s) (he : mode'.eff = mode.eff) :
    MInv n K mode' s :=
  ⟨h.hn, h.hK, h.sized, h.le, fun hh => h.lt (he ▸ hh), by rw [he]; exact h.level⟩

/-- **`run` lists what the recursive traversal lists**: if `run` answers `true` in state `s1`, then the pending work
of the configuration it was started in is the yielded graph followed by the pending work of `s1`; if it answers `false`
nothing was pending. -/
theorem run_rem (hfix : NodeFix O pre pr n K node) :
    ∀ (f : Nat) (mode : Mode) (s s1 : State) (b : Bool),
      run O pre pr f mode s = .ok (s1, b) → MInv n K mode s →
      (b = true → MInv n K (.step false) s1 ∧
        ∀ L, remM O pre pr n K node (.step false) s1 = .ok L → remM O pre pr n K node mode s = .ok (s1.g :: L)) ∧
      (b = false → remM O pre pr n K node mode s = .ok [])
  | 0, _, _, _, _, h, _ => by simp [run] at h
  | f + 1, .outer cont sf, s, s1, b, h, hi => by
    simp only [run] at h
    cases cont with
    | false =>
      simp only [Bool.not_false, if_true] at h
      split at h
      · rename_i hnv
        cases h
        refine ⟨fun _ => ⟨hi.of_eff rfl, ?_⟩, fun hb => by cases hb⟩
        intro L hL
        have hfx := hfix s.g s.cache (hi.hn ▸ hi.le)
        rw [if_pos (hi.hn ▸ hnv)] at hfx
        simp only [remM] at hL ⊢
        simp [hfx, hL]
      · rename_i hnv
        split at h
        · rename_i ch cache num haug
          have hi' : MInv n K (.step true)
              { s with choices := ch, cache := cache, currentPath := s.currentPath.push num } := by
            refine ⟨hi.hn, hi.hK, hi.sized, hi.le, fun _ => Nat.lt_of_le_of_ne hi.le hnv, ?_⟩
            have := hi.level
            simp only [Mode.eff, Bool.false_eq_true, if_false, if_true, Array.size_push] at this ⊢
            omega
          have ih := run_rem hfix f _ _ _ _ h hi'
          rw [rem_outer_push hfix hi hnv haug]
          exact ih
        · cases h
        · cases h
    | true =>
      simp only [Bool.not_true, Bool.false_eq_true, if_false] at h
      exact run_rem hfix f (.step sf) s s1 b h (hi.of_eff rfl)
  | f + 1, .step sf, s, s1, b, h, hi => by
    simp only [run] at h
    split at h
    · rename_i h0
      cases h
      refine ⟨fun hb => (by cases hb), fun _ => ?_⟩
      simp [remM, remStep, (topList_eq_nil _).2 h0]
    · rename_i h0
      split at h
      · cases h
      · rename_i cp hb
        have ih := run_rem hfix f _ _ _ _ h (hi.of_eff rfl)
        rw [rem_step_inner h0 hb]
        exact ih
  | f + 1, .inner sf 0, s, s1, b, h, hi => by
    simp only [run] at h
    split at h
    · rename_i s' hs'
      split at h
      · cases h
      · rename_i hcp0
        obtain ⟨-, hch, hcp, hn, ha, hm, -, hf, ht⟩ := cleared_ok hs'
        have hi' : MInv n K (.step false) { s' with currentPath := s'.currentPath.pop } := by
          have hl := hi.level
          cases sf with
          | true =>
            have e := ht rfl
            subst e
            refine ⟨hi.hn, hi.hK, hi.sized, hi.le, fun hh => by simp [Mode.eff] at hh, ?_⟩
            simp only [Mode.eff, if_true, Bool.false_eq_true, if_false, Array.size_pop] at hl ⊢
            omega
          | false =>
            have := hf rfl
            refine ⟨hn.trans hi.hn, by intro i L; rw [hi.hK, hm, ha, hn], this.2, ?_, fun hh => by simp [Mode.eff] at hh, ?_⟩
            · have := hi.le; simp only; omega
            · simp only [Mode.eff, Bool.false_eq_true, if_false, Array.size_pop, hcp] at hl ⊢
              rw [hcp] at hcp0
              omega
        have ih := run_rem hfix f _ _ _ _ h hi'
        rw [rem_inner_zero hs']
        exact ih
    · cases h
    · cases h
  | f + 1, .inner sf (i + 1), s, s1, b, h, hi => by
    simp only [run] at h
    split at h
    · cases h
    · rename_i x hb
      try simp only at h
      split at h
      · cases h
      · rename_i hm0
        split at h
        · rename_i hskip
          have ih := run_rem hfix f _ _ _ _ h
            (⟨hi.hn, hi.hK, hi.sized, hi.le, hi.lt, hi.level⟩ : MInv n K (.inner sf i) { s with choices := s.choices.pop })
          rw [rem_inner_skip hi hb hskip]
          exact ih
        · rename_i hskip
          have hskip' : (i % s.m != s.a && ((s.currentPath.size : Nat) : Int) == splitLevel s.n) = false := by
            simpa using hskip
          split at h
          · cases h
          · cases h
          · rename_i s' hs'
            obtain ⟨-, -, hsz, hnv, hch, hcp, hn1, ha1, hm1, hlt⟩ := inner_facts hi hb hs'
            split at h
            · cases h
            · cases h
            · rename_i g2 hadd
              have hg2 := addVertex_sized hadd hsz
              have hbase : ∀ c, MInv n K (.inner false i) { s' with g := g2, cache := c } := by
                intro c
                refine ⟨hn1.trans hi.hn, by intro j L; rw [hi.hK, hm1, ha1, hn1], hg2.1, ?_,
                  fun hh => by simp [Mode.eff] at hh, ?_⟩
                · simp only [hg2.2, hn1]; omega
                · simp only [Mode.eff, Bool.false_eq_true, if_false, hg2.2, hcp, hnv]
              try simp only at h
              split at h
              · rename_i hpre
                have ih := run_rem hfix f _ _ _ _ h (hbase none)
                rw [rem_inner_reject hi hb hskip' hs' hadd (Or.inl hpre)]
                exact ih
              · rename_i hpre
                have hpre' : pre g2 = false := by simpa using hpre
                split at h
                · cases h
                · cases h
                · rename_i c3 canon hcan
                  try simp only at h
                  split at h
                  · rename_i hacc
                    split at h
                    · cases h
                    · rename_i hcp0
                      have hi' : MInv n K (.outer false false)
                          { s' with g := g2, cache := c3,
                                    currentPath := s'.currentPath.setIfInBounds (s'.currentPath.size - 1) i } := by
                        refine ⟨hn1.trans hi.hn, by intro j L; rw [hi.hK, hm1, ha1, hn1], hg2.1, ?_,
                          fun hh => by simp [Mode.eff] at hh, ?_⟩
                        · simp only [hg2.2, hn1]; omega
                        · simp only [Mode.eff, Bool.false_eq_true, if_false, hg2.2, hcp, hnv,
                            Array.size_setIfInBounds]
                      have ih := run_rem hfix f _ _ _ _ h hi'
                      rw [rem_inner_accept hi hb hskip' hs' hadd hpre' hcan hacc hcp0]
                      exact ih
                  · rename_i hacc
                    have hacc' : (canon && !pr g2) = false := by simpa using hacc
                    have ih := run_rem hfix f _ _ _ _ h (hbase c3)
                    rw [rem_inner_reject hi hb hskip' hs' hadd (Or.inr ⟨canon, hcan, hacc'⟩)]
                    exact ih

end Search
