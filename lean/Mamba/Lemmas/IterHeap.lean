import Mathlib.Data.List.Chain
import Mathlib.Data.List.Perm.Basic
import Mathlib.Data.List.Perm.Subperm
import Mathlib.Data.List.Permutation
import Mathlib.Logic.Function.Iterate
import Mathlib.Tactic.SplitIfs
import Mamba.Lemmas.IterGeneric
import Mamba.Lemmas.IterBase
import Mamba.Lemmas.IterPartial
import Mamba.Model.IterPerm
/-!
# `Permutations(n)` (Heap's algorithm, non-recursive form with the counter array `c`)

`Iter.Spec.heapRun k a` is the recursive procedure "generate all arrangements of the first `k` positions of `a`"
(`for j = 0..k-1 { heapRun (k-1); if j < k-1 then swap (k-1 even ? 0 : j) (k-1) }`): the list of arrays visited, in
order, and the final array; `heapList n = (heapRun n [0,…,n-1]).1` (no order is documented: the order is the
algorithm's own).

* `Heap.enumerates_lemma`: for every `n ≥ 0` the model yields exactly `heapList n`, then is exhausted forever
  (refinement: `heapNext` = pure successor on (array, counters); `heapRem` = the arrays still to be visited by the
  recursive procedure from a leaf described by the counters; `Heap.loop_next`: the model loop computes `heapNext`).
* `heapPi_closed`: the final-arrangement invariant of Heap's algorithm (odd `k`: positions `0` and `k-1` exchanged;
  even `k`: `[x₀, x₁ … x_{k-4}, u, v, w] ↦ [u, v, x₁ … x_{k-4}, w, x₀]`), `heapQ_top_inj`: the `k` blocks of
  `heapRun k` have pairwise different entries at position `k-1`.
* `heapList_nodup`, `heapList_length` (`n!`), `mem_heapList` (the members are exactly the rearrangements of `0..n-1`).
-/
namespace Iter.Spec

/-- swap the entries at positions `x` and `y` -/
def swapAt (a : List Int) (x y : Nat) : List Int := (a.set x (a.getD y 0)).set y (a.getD x 0)

/-- index swapped with `m` in iteration `j` of the loop at level `m` -/
def heapIdx (m j : Nat) : Nat := if m % 2 = 0 then 0 else j

def heapLoopG {α : Type} (sw : α → Nat → Nat → α) (run : α → List α × α) (m : Nat) :
    Nat → Nat → α → List α × α
  | 0, _, a => run a
  | r+1, j, a =>
    let r1 := run a
    let r2 := heapLoopG sw run m r (j+1) (sw r1.2 (heapIdx m j) m)
    (r1.1 ++ r2.1, r2.2)

def heapRunG {α : Type} (sw : α → Nat → Nat → α) : Nat → α → List α × α
  | 0, a => ([a], a)
  | m+1, a => heapLoopG sw (heapRunG sw m) m m 0 a

def heapRun : Nat → List Int → List (List Int) × List Int := heapRunG swapAt

def heapList (n : Nat) : List (List Int) := (heapRun n ((List.range n).map (fun (i : Nat) => (i : Int)))).1

/-- pure successor: `p` the array, `cs` the counters `c[i], c[i+1], …`; result: the new array and the new
counters from index `i` on (the counters below `i` are reset to 0) -/
def heapNext (p : List Int) : Nat → List Nat → Option (List Int × List Nat)
  | _, [] => none
  | i, ci :: cs =>
    if ci < i then some (swapAt p (heapIdx i ci) i, (ci + 1) :: cs)
    else (heapNext p (i + 1) cs).map (fun r => (r.1, 0 :: r.2))

/-- continue the loop at level `m` whose current iteration `cm` has just finished its recursive call -/
def remStep (m cm : Nat) (r : List (List Int) × List Int) : List (List Int) × List Int :=
  if cm < m then
    let r' := heapLoopG swapAt (heapRun m) m (m - (cm + 1)) (cm + 1) (swapAt r.2 (heapIdx m cm) m)
    (r.1 ++ r'.1, r'.2)
  else r

/-- the arrays still to be visited (and the final array) by the recursive procedure, from a leaf -/
def heapRem : Nat → List Nat → List (List Int) × List Int → List (List Int) × List Int
  | _, [], r => r
  | i, ci :: cs, r => heapRem (i + 1) cs (remStep i ci r)

end Iter.Spec

namespace Iter
open Iter.Spec

theorem heapLoopG_head {α : Type} (sw : α → Nat → Nat → α) (run : α → List α × α) (m : Nat)
    (hrun : ∀ a, ∃ T, (run a).1 = a :: T) :
    ∀ r j a, ∃ T, (heapLoopG sw run m r j a).1 = a :: T := by
  intro r
  induction r with
  | zero => intro j a; exact hrun a
  | succ r ih =>
    intro j a
    obtain ⟨T, hT⟩ := hrun a
    simp only [heapLoopG, hT]
    exact ⟨_, List.cons_append⟩

theorem heapRunG_head {α : Type} (sw : α → Nat → Nat → α) :
    ∀ k a, ∃ T, (heapRunG sw k a).1 = a :: T := by
  intro k
  induction k with
  | zero => intro a; exact ⟨[], rfl⟩
  | succ m ih => intro a; exact heapLoopG_head sw _ m ih m 0 a

theorem remStep_append (m cm : Nat) (L : List (List Int)) (r : List (List Int) × List Int) :
    remStep m cm (L ++ r.1, r.2) = (L ++ (remStep m cm r).1, (remStep m cm r).2) := by
  unfold remStep
  split
  · simp [List.append_assoc]
  · rfl

theorem heapRem_append (L : List (List Int)) : ∀ (cs : List Nat) (i : Nat) (r : List (List Int) × List Int),
    heapRem i cs (L ++ r.1, r.2) = (L ++ (heapRem i cs r).1, (heapRem i cs r).2) := by
  intro cs
  induction cs with
  | nil => intro i r; rfl
  | cons ci cs ih =>
    intro i r
    simp only [heapRem]
    rw [remStep_append, ih]

/-- the loop from iteration `j` on = the first array, then the continuation after the first recursive call -/
theorem heapLoop_remStep (m j : Nat) (hj : j ≤ m) (a : List Int) :
    heapLoopG swapAt (heapRun m) m (m - j) j a =
      (a :: (remStep m j ((heapRun m a).1.tail, (heapRun m a).2)).1,
        (remStep m j ((heapRun m a).1.tail, (heapRun m a).2)).2) := by
  obtain ⟨T, hT⟩ := heapRunG_head swapAt m a
  change (heapRun m a).1 = a :: T at hT
  rcases Nat.lt_or_ge j m with h | h
  · obtain ⟨r, hr⟩ : ∃ r, m - j = r + 1 := ⟨m - j - 1, by omega⟩
    have hr' : m - (j + 1) = r := by omega
    rw [hr]
    simp only [heapLoopG, remStep, h, if_true, hT, List.tail_cons, hr', List.cons_append]
  · have : m - j = 0 := by omega
    rw [this]
    have hn : ¬ j < m := by omega
    simp only [heapLoopG, remStep, hn, if_false]
    apply Prod.ext
    · simp [hT]
    · rfl

theorem heapRem_fresh (cs : List Nat) (a : List Int) : ∀ i,
    heapRem 0 (List.replicate i 0 ++ cs) ([], a) = heapRem i cs ((heapRun i a).1.tail, (heapRun i a).2) := by
  intro i
  induction i generalizing cs with
  | zero => simp [heapRun, heapRunG]
  | succ i ih =>
    rw [List.replicate_succ', List.append_assoc, ih]
    simp only [List.singleton_append, heapRem]
    congr 1
    have h := heapLoop_remStep i 0 (Nat.zero_le _) a
    simp only [Nat.sub_zero] at h
    change heapRun (i + 1) a = _ at h
    rw [h]
    rfl

theorem heapNext_none (p : List Int) : ∀ (cs : List Nat) (i : Nat) (r : List (List Int) × List Int),
    heapNext p i cs = none → heapRem i cs r = r := by
  intro cs
  induction cs with
  | nil => intro i r _; rfl
  | cons ci cs ih =>
    intro i r h
    simp only [heapNext] at h
    split at h
    · simp at h
    · next hc =>
      simp only [Option.map_eq_none_iff] at h
      simp only [heapRem, remStep, hc, if_false]
      exact ih _ _ h

theorem heapNext_some (p : List Int) : ∀ (cs : List Nat) (i : Nat) (p' : List Int) (cs' : List Nat),
    heapNext p i cs = some (p', cs') →
      heapRem i cs ([], p) = (p' :: (heapRem 0 (List.replicate i 0 ++ cs') ([], p')).1,
        (heapRem 0 (List.replicate i 0 ++ cs') ([], p')).2) := by
  intro cs
  induction cs with
  | nil => intro i p' cs' h; simp [heapNext] at h
  | cons ci cs ih =>
    intro i p' cs' h
    simp only [heapNext] at h
    split at h
    · next hc =>
      simp only [Option.some.injEq, Prod.mk.injEq] at h
      obtain ⟨h1, h2⟩ := h
      subst h1 h2
      rw [heapRem_fresh]
      simp only [heapRem]
      have e : remStep i ci ([], p) =
          heapLoopG swapAt (heapRun i) i (i - (ci + 1)) (ci + 1) (swapAt p (heapIdx i ci) i) := by
        simp [remStep, hc]
      rw [e, heapLoop_remStep i (ci + 1) (by omega)]
      exact heapRem_append [_] cs (i + 1) _
    · next hc =>
      cases hn : heapNext p (i + 1) cs with
      | none => simp [hn] at h
      | some r =>
        obtain ⟨p1, cs1⟩ := r
        simp only [hn, Option.map_some, Option.some.injEq, Prod.mk.injEq] at h
        obtain ⟨h1, h2⟩ := h
        subst h1 h2
        simp only [heapRem, remStep, hc, if_false]
        rw [ih _ _ _ hn, List.replicate_succ', List.append_assoc]
        rfl

theorem heapNext_length (p : List Int) : ∀ (cs : List Nat) (i : Nat) (p' : List Int) (cs' : List Nat),
    heapNext p i cs = some (p', cs') → cs'.length = cs.length ∧ p'.length = p.length := by
  intro cs
  induction cs with
  | nil => intro i p' cs' h; simp [heapNext] at h
  | cons ci cs ih =>
    intro i p' cs' h
    simp only [heapNext] at h
    split at h
    · simp only [Option.some.injEq, Prod.mk.injEq] at h
      obtain ⟨h1, h2⟩ := h
      subst h1 h2
      simp [swapAt]
    · cases hn : heapNext p (i + 1) cs with
      | none => simp [hn] at h
      | some r =>
        obtain ⟨p1, cs1⟩ := r
        simp only [hn, Option.map_some, Option.some.injEq, Prod.mk.injEq] at h
        obtain ⟨h1, h2⟩ := h
        subst h1 h2
        have := ih _ _ _ hn
        simp [this.1, this.2]


/-! ### The model computes the pure successor -/

theorem heap_swap_ok (a : List Int) (x y : Nat) (hx : x < a.length) (hy : y < a.length) :
    swap a (x : Int) (y : Int) = .ok (swapAt a x y) := by
  unfold swap swapAt
  simp [get_natCast, set_natCast, hx, hy]

theorem heap_get_at (pre suf : Sl) (a : Int) (i : Nat) (h : pre.length = i) :
    get (pre ++ a :: suf) (i : Int) = .ok a := by
  subst h; simp

theorem heap_set_at (pre suf : Sl) (a v : Int) (i : Nat) (h : pre.length = i) :
    set (pre ++ a :: suf) (i : Int) v = .ok (pre ++ v :: suf) := by
  subst h; simp

/-- the counters as a Go slice -/
def heapC (l : List Nat) : Sl := l.map (fun (x : Nat) => (x : Int))

theorem Heap.loop_next (n : Nat) (p : List Int) (hp : p.length = n) :
    ∀ (cs pre : List Nat) (fuel : Nat), pre.length + cs.length = n → cs.length < fuel →
      Heap.loop fuel ⟨n, pre.length, heapC (pre ++ cs), p⟩ =
        match heapNext p pre.length cs with
        | none => .ok (⟨n, n, heapC (pre ++ List.replicate cs.length 0), p⟩, false)
        | some r => .ok (⟨n, 0, heapC (pre ++ r.2), r.1⟩, true) := by
  intro cs
  induction cs with
  | nil =>
    intro pre fuel hl hf
    obtain ⟨f, rfl⟩ : ∃ f, fuel = f + 1 := ⟨fuel - 1, by omega⟩
    simp only [List.length_nil, Nat.add_zero] at hl
    simp [Heap.loop, heapNext, hl]
  | cons ci cs ih =>
    intro pre fuel hl hf
    obtain ⟨f, rfl⟩ : ∃ f, fuel = f + 1 := ⟨fuel - 1, by omega⟩
    simp only [List.length_cons] at hl hf
    have hlt : ((pre.length : Nat) : Int) < (n : Int) := by omega
    have hc : heapC (pre ++ ci :: cs) = heapC pre ++ (ci : Int) :: heapC cs := by simp [heapC]
    have hpl : (heapC pre).length = pre.length := by simp [heapC]
    unfold Heap.loop
    simp only [hlt, if_true, hc, heap_get_at _ _ _ _ hpl, Outcome.bind_ok, heap_set_at _ _ _ _ _ hpl]
    by_cases hci : ci < pre.length
    · have h1 : ((ci : Nat) : Int) < ((pre.length : Nat) : Int) := by omega
      simp only [h1, if_true, heapNext, hci]
      have hcc : heapC (pre ++ (ci + 1) :: cs) = heapC pre ++ ((ci : Int) + 1) :: heapC cs := by simp [heapC]
      unfold heapIdx
      by_cases he : pre.length % 2 = 0
      · have : ((pre.length : Nat) : Int) % 2 = 0 := by omega
        have hs := heap_swap_ok p 0 pre.length (by omega) (by omega)
        simp only [Int.natCast_zero] at hs
        simp only [this, he, if_true, beq_self_eq_true, hs, Outcome.bind_ok, Outcome.pure_eq, hcc]
      · have : ¬ ((pre.length : Nat) : Int) % 2 = 0 := by omega
        have hs := heap_swap_ok p ci pre.length (by omega) (by omega)
        simp only [beq_iff_eq, this, he, if_false, hs, Outcome.bind_ok, Outcome.pure_eq, hcc]
    · have h1 : ¬ ((ci : Nat) : Int) < ((pre.length : Nat) : Int) := by omega
      simp only [h1, if_false, heapNext, hci]
      have e1 : heapC pre ++ (0 : Int) :: heapC cs = heapC ((pre ++ [0]) ++ cs) := by simp [heapC]
      have e2 : ((pre.length : Nat) : Int) + 1 = (((pre ++ [0]).length : Nat) : Int) := by simp
      rw [e1, e2, ih (pre ++ [0]) f (by simp; omega) (by omega)]
      have e3 : (pre ++ [0]).length = pre.length + 1 := by simp
      rw [e3]
      cases heapNext p (pre.length + 1) cs with
      | none => simp [List.replicate_succ]
      | some r => simp


theorem Heap.next_rep (n : Nat) (p : List Int) (c : List Nat) (hp : p.length = n) (hc : c.length = n) :
    match heapNext p 0 c with
    | none => ∃ s', Heap.next ⟨n, 0, heapC c, p⟩ = .ok (s', false) ∧ Heap.Dead s'
    | some r => Heap.next ⟨n, 0, heapC c, p⟩ = .ok (⟨n, 0, heapC r.2, r.1⟩, true) := by
  rcases Nat.eq_zero_or_pos n with h0 | hpos
  · subst h0
    have : c = [] := List.eq_nil_of_length_eq_zero hc
    subst this
    simp only [heapNext]
    exact ⟨⟨0, 0, heapC [], p⟩, by simp [Heap.next], by simp [Heap.Dead]⟩
  · have h1 : ¬ ((0 : Int) = (n : Int)) := by omega
    have hf : ((n : Int) - 0).toNat + 1 = n + 1 := by omega
    have hl := Heap.loop_next n p hp c [] (n + 1) (by simpa using hc) (by omega)
    simp only [List.length_nil, List.nil_append, Int.natCast_zero] at hl
    unfold Heap.next
    simp only [beq_iff_eq, h1, if_false, hf, hl]
    cases heapNext p 0 c with
    | none => exact ⟨_, rfl, by simp [Heap.Dead]⟩
    | some r => rfl

theorem Heap.collect_rem (n : Nat) : ∀ (L : List (List Int)) (p : List Int) (c : List Nat) (acc : List (List Int))
    (fuel : Nat), p.length = n → c.length = n → (heapRem 0 c ([], p)).1 = L → L.length < fuel →
      ∃ s', collect Heap.it fuel ⟨n, 0, heapC c, p⟩ acc = (L.reverse ++ acc, s', .exhausted) ∧ Heap.Dead s' := by
  intro L
  induction L with
  | nil =>
    intro p c acc fuel hp hc hL hf
    obtain ⟨f, rfl⟩ : ∃ f, fuel = f + 1 := ⟨fuel - 1, by simp at hf; omega⟩
    have h := Heap.next_rep n p c hp hc
    cases hn : heapNext p 0 c with
    | none =>
      simp only [hn] at h
      obtain ⟨s', h1, h2⟩ := h
      exact ⟨s', by simp [collect, Heap.it, h1], h2⟩
    | some r =>
      rw [heapNext_some p c 0 r.1 r.2 hn] at hL
      simp at hL
  | cons x L ih =>
    intro p c acc fuel hp hc hL hf
    obtain ⟨f, rfl⟩ : ∃ f, fuel = f + 1 := ⟨fuel - 1, by simp at hf; omega⟩
    have h := Heap.next_rep n p c hp hc
    cases hn : heapNext p 0 c with
    | none =>
      rw [heapNext_none p c 0 _ hn] at hL
      simp at hL
    | some r =>
      simp only [hn] at h
      rw [heapNext_some p c 0 r.1 r.2 hn] at hL
      simp only [List.replicate_zero, List.nil_append, List.cons.injEq] at hL
      obtain ⟨hx, hL'⟩ := hL
      obtain ⟨l1, l2⟩ := heapNext_length p c 0 r.1 r.2 hn
      obtain ⟨s', h3, h4⟩ := ih r.1 r.2 (r.1 :: acc) f (by omega) (by omega) hL' (by simp at hf; omega)
      refine ⟨s', ?_, h4⟩
      subst hx
      have hv : Heap.it.value ⟨n, 0, heapC r.2, r.1⟩ = .ok (⟨n, 0, heapC r.2, r.1⟩, r.1) := rfl
      have hnx : Heap.it.next ⟨n, 0, heapC c, p⟩ = .ok (⟨n, 0, heapC r.2, r.1⟩, true) := h
      simp only [collect, hnx, hv, h3, List.reverse_cons, List.append_assoc, List.singleton_append]

theorem Heap.enumerates_lemma (n : Int) (hn : 0 ≤ n) :
    ∃ s0, Heap.init n = .ok s0 ∧ ∀ bound, (heapList n.toNat).length < bound →
      ∃ s', outputs Heap.it bound s0 = (heapList n.toNat, s', .exhausted) ∧
        ∀ k, extras Heap.it k s' = .ok (List.replicate k none) := by
  obtain ⟨m, rfl⟩ := Int.eq_ofNat_of_zero_le hn
  have h0 : ¬ ((m : Int) < 0) := by omega
  refine ⟨⟨m, -1, List.replicate m 0, (List.range m).map Int.ofNat⟩, by simp [Heap.init, iota, make, h0], ?_⟩
  intro bound hb
  obtain ⟨f, rfl⟩ : ∃ f, bound = f + 1 := ⟨bound - 1, by omega⟩
  simp only [Int.toNat_natCast] at hb ⊢
  set a : List Int := (List.range m).map (fun (i : Nat) => (i : Int)) with ha
  obtain ⟨T, hT⟩ := heapRunG_head swapAt m a
  change (heapRun m a).1 = a :: T at hT
  have hrem : (heapRem 0 (List.replicate m 0) ([], a)).1 = T := by
    have := heapRem_fresh [] a m
    simp only [List.append_nil, heapRem] at this
    rw [this, hT]; rfl
  have hl : heapList m = a :: T := hT
  rw [hl] at hb ⊢
  obtain ⟨s', h1, h2⟩ := Heap.collect_rem m T a (List.replicate m 0) [a] f (by simp [ha]) (by simp) hrem
    (by simp at hb; omega)
  refine ⟨s', ?_, fun k => extras_dead Heap.it Heap.Dead (fun s hs => ⟨s, Heap.next_dead s hs, hs⟩) k s' h2⟩
  have e1 : ¬ ((-1 : Int) = (m : Int)) := by omega
  have e2 : heapC (List.replicate m 0) = List.replicate m (0 : Int) := by simp [heapC]
  rw [e2] at h1
  have e3 : (List.range m).map Int.ofNat = a := rfl
  change collect ⟨Heap.next, fun s => Outcome.ok (s, s.p)⟩ f _ _ = _ at h1
  simp [outputs, collect, Heap.it, Heap.next, e1, e3, h1]


/-! ### Generic facts about the recursive procedure -/

theorem heapLoopG_inv {α : Type} (sw : α → Nat → Nat → α) (run : α → List α × α) (m : Nat) (P : α → Prop)
    (hsw : ∀ a x, x ≤ m → P a → P (sw a x m))
    (hrun : ∀ a, P a → (∀ b ∈ (run a).1, P b) ∧ P (run a).2) :
    ∀ r j a, j + r ≤ m → P a → (∀ b ∈ (heapLoopG sw run m r j a).1, P b) ∧ P (heapLoopG sw run m r j a).2 := by
  intro r
  induction r with
  | zero => intro j a _ ha; exact hrun a ha
  | succ r ih =>
    intro j a hj ha
    obtain ⟨h1, h2⟩ := hrun a ha
    have hidx : heapIdx m j ≤ m := by unfold heapIdx; split <;> omega
    obtain ⟨h3, h4⟩ := ih (j + 1) _ (by omega) (hsw _ _ hidx h2)
    simp only [heapLoopG]
    refine ⟨?_, h4⟩
    intro b hb
    rcases List.mem_append.mp hb with h | h
    · exact h1 b h
    · exact h3 b h

theorem heapRunG_inv {α : Type} (sw : α → Nat → Nat → α) (n : Nat) (P : α → Prop)
    (hsw : ∀ a x y, x < n → y < n → P a → P (sw a x y)) :
    ∀ k, k ≤ n → ∀ a, P a → (∀ b ∈ (heapRunG sw k a).1, P b) ∧ P (heapRunG sw k a).2 := by
  intro k
  induction k with
  | zero => intro _ a ha; simpa [heapRunG] using ha
  | succ m ih =>
    intro hk a ha
    exact heapLoopG_inv sw _ m P (fun a x hx h => hsw a x m (by omega) (by omega) h) (ih (by omega)) m 0 a
      (by omega) ha

theorem heapLoopG_map {α β : Type} (swA : α → Nat → Nat → α) (swB : β → Nat → Nat → β) (h : β → α)
    (runA : α → List α × α) (runB : β → List β × β) (m : Nat)
    (hsw : ∀ b x, x ≤ m → h (swB b x m) = swA (h b) x m)
    (hrun : ∀ b, runA (h b) = ((runB b).1.map h, h (runB b).2)) :
    ∀ r j b, j + r ≤ m → heapLoopG swA runA m r j (h b) =
      ((heapLoopG swB runB m r j b).1.map h, h (heapLoopG swB runB m r j b).2) := by
  intro r
  induction r with
  | zero => intro j b _; exact hrun b
  | succ r ih =>
    intro j b hj
    have hidx : heapIdx m j ≤ m := by unfold heapIdx; split <;> omega
    simp only [heapLoopG, hrun, ← hsw _ _ hidx, ih (j + 1) _ (by omega), List.map_append]

theorem heapRunG_map {α β : Type} (swA : α → Nat → Nat → α) (swB : β → Nat → Nat → β) (h : β → α) (n : Nat)
    (hsw : ∀ b x y, x < n → y < n → h (swB b x y) = swA (h b) x y) :
    ∀ k, k ≤ n → ∀ b, heapRunG swA k (h b) = ((heapRunG swB k b).1.map h, h (heapRunG swB k b).2) := by
  intro k
  induction k with
  | zero => intro _ b; rfl
  | succ m ih =>
    intro hk b
    exact heapLoopG_map swA swB h _ _ m (fun b x hx => hsw b x m (by omega) (by omega)) (ih (by omega)) m 0 b
      (by omega)

theorem heapLoopG_length {α : Type} (sw : α → Nat → Nat → α) (run : α → List α × α) (m L : Nat)
    (hrun : ∀ a, (run a).1.length = L) :
    ∀ r j a, (heapLoopG sw run m r j a).1.length = (r + 1) * L := by
  intro r
  induction r with
  | zero => intro j a; simp [heapLoopG, hrun]
  | succ r ih =>
    intro j a
    simp only [heapLoopG, List.length_append, hrun, ih]
    rw [Nat.add_mul (r + 1) 1 L, Nat.one_mul, Nat.add_comm]

theorem heapRunG_length {α : Type} (sw : α → Nat → Nat → α) :
    ∀ k a, (heapRunG sw k a).1.length = k.factorial := by
  intro k
  induction k with
  | zero => intro a; rfl
  | succ m ih =>
    intro a
    simp only [heapRunG, Nat.factorial_succ]
    exact heapLoopG_length sw _ m _ ih m 0 a


/-! ### Position maps: the arrays visited when the initial array is the identity -/

/-- the transposition of `x` and `y` -/
def swN (x y p : Nat) : Nat := if p = x then y else if p = y then x else p

/-- swapping two positions of an array given as a function -/
def swF (g : Nat → Nat) (x y : Nat) : Nat → Nat := fun p => g (swN x y p)

/-- position map at the start of iteration `j` of the loop at level `m` (`σ` = effect of one recursive call) -/
def heapQ (σ : Nat → Nat) (m : Nat) : Nat → Nat → Nat
  | 0 => fun p => p
  | j+1 => fun p => heapQ σ m j (σ (swN (heapIdx m j) m p))

/-- the effect of `heapRun k` on the positions -/
def heapPi : Nat → Nat → Nat
  | 0 => fun p => p
  | m+1 => fun p => heapQ (heapPi m) m m (heapPi m p)

theorem heapLoopF_eq (σ : Nat → Nat) (m : Nat) (run : (Nat → Nat) → List (Nat → Nat) × (Nat → Nat))
    (hrun : ∀ g, (run g).2 = g ∘ σ) (g : Nat → Nat) :
    ∀ r j, heapLoopG swF run m r j (g ∘ heapQ σ m j) =
      ((List.range' j (r + 1)).flatMap (fun t => (run (g ∘ heapQ σ m t)).1), g ∘ heapQ σ m (j + r) ∘ σ) := by
  intro r
  induction r with
  | zero =>
    intro j
    apply Prod.ext
    · simp [heapLoopG]
    · simp only [heapLoopG, hrun, Nat.add_zero]; rfl
  | succ r ih =>
    intro j
    have e : swF (run (g ∘ heapQ σ m j)).2 (heapIdx m j) m = g ∘ heapQ σ m (j + 1) := by
      rw [hrun]; rfl
    simp only [heapLoopG, e, ih (j + 1)]
    rw [List.range'_succ (s := j) (n := r + 1), List.flatMap_cons, show j + 1 + r = j + (r + 1) by omega]

theorem heapRunF_final : ∀ k g, (heapRunG swF k g).2 = g ∘ heapPi k := by
  intro k
  induction k with
  | zero => intro g; rfl
  | succ m ih =>
    intro g
    have := heapLoopF_eq (heapPi m) m (heapRunG swF m) ih g m 0
    simp only [Nat.zero_add] at this
    change (heapLoopG swF (heapRunG swF m) m m 0 (g ∘ heapQ (heapPi m) m 0)).2 = _
    rw [this]; rfl

theorem heapRunF_blocks (m : Nat) (g : Nat → Nat) :
    (heapRunG swF (m + 1) g).1 =
      (List.range (m + 1)).flatMap (fun t => (heapRunG swF m (g ∘ heapQ (heapPi m) m t)).1) := by
  have := heapLoopF_eq (heapPi m) m (heapRunG swF m) (heapRunF_final m) g m 0
  change (heapLoopG swF (heapRunG swF m) m m 0 (g ∘ heapQ (heapPi m) m 0)).1 = _
  rw [this, List.range_eq_range']

theorem swN_invol (x y p : Nat) : swN x y (swN x y p) = p := by
  unfold swN; split_ifs <;> omega

theorem swN_inj (x y : Nat) : Function.Injective (swN x y) :=
  Function.LeftInverse.injective (g := swN x y) (swN_invol x y)

theorem heapRunF_inj (k : Nat) (g : Nat → Nat) (hg : Function.Injective g) :
    (∀ f ∈ (heapRunG swF k g).1, Function.Injective f) ∧ Function.Injective (heapRunG swF k g).2 :=
  heapRunG_inv swF k Function.Injective (fun _ x y _ _ ha => ha.comp (swN_inj x y)) k (Nat.le_refl _) g hg

theorem heapPi_inj (k : Nat) : Function.Injective (heapPi k) := by
  have := (heapRunF_inj k id Function.injective_id).2
  rwa [heapRunF_final] at this

theorem heapQ_inj (σ : Nat → Nat) (hσ : Function.Injective σ) (m : Nat) : ∀ j, Function.Injective (heapQ σ m j) := by
  intro j
  induction j with
  | zero => exact fun _ _ h => h
  | succ j ih => exact ih.comp (hσ.comp (swN_inj _ _))

/-- positions `≥ k` are not touched by `heapRun k` -/
theorem heapRunF_fix (k : Nat) (g : Nat → Nat) :
    ∀ f ∈ (heapRunG swF k g).1, ∀ p, k ≤ p → f p = g p := by
  refine (heapRunG_inv swF k (fun f => ∀ p, k ≤ p → f p = g p) ?_ k (Nat.le_refl _) g (fun _ _ => rfl)).1
  intro a x y hx hy ha p hp
  have : swN x y p = p := by unfold swN; split_ifs <;> omega
  simp only [swF, this]
  exact ha p hp


/-! ### Closed forms of the position maps -/

/-- effect of `heapRun (M+1)` for odd `M`: `[x₀, x₁ … x_{M-3}, u, v, w] ↦ [u, v, x₁ … x_{M-3}, w, x₀]` -/
def evenPi (M p : Nat) : Nat :=
  if p = M then 0 else if p = M - 1 then M else if p = 0 then M - 2 else if p = 1 then M - 1
  else if p ≤ M - 2 then p - 1 else p

/-- position map at the start of iteration `J` (`1 ≤ J ≤ m-1`) of the loop at an odd level `m` -/
def evenQ (m J p : Nat) : Nat :=
  if p = 0 then (if J % 2 = 1 then m else 0)
  else if p = m - 1 then (if J % 2 = 1 then 0 else m)
  else if p = m then (if J = 1 then m - 1 else J - 1)
  else if p = 1 then (if J ≤ 1 then 1 else m - 1)
  else if p < J then p - 1
  else p

/-- the position whose original content is at position `m` in iteration `j` of the loop at an even level `m` -/
def orbO (m j : Nat) : Nat :=
  if j = 0 then m else if j ≤ m - 3 then m - 2 - j else if j = m - 2 then m - 2 else if j = m - 1 then m - 1 else 0

/-- the same for an odd level `m` -/
def topE (m J : Nat) : Nat := if J = 0 then m else if J = 1 then m - 1 else if J = m then 0 else J - 1

theorem heapIdx_zero (m : Nat) : heapIdx m 0 = 0 := by unfold heapIdx; split <;> rfl

theorem evenQ_one (m : Nat) (hm : 3 ≤ m) (p : Nat) : swN 0 (m - 1) (swN 0 m p) = evenQ m 1 p := by
  unfold evenQ swN
  split_ifs <;> omega

theorem evenQ_step (m J : Nat) (hodd : m % 2 = 1) (h1 : 1 ≤ J) (h2 : J + 1 ≤ m - 1) (p : Nat) :
    evenQ m J (swN 0 (m - 1) (swN J m p)) = evenQ m (J + 1) p := by
  by_cases c1 : p = J
  · have hv : swN 0 (m - 1) (swN J m p) = m := by unfold swN; split_ifs <;> omega
    rw [hv]; unfold evenQ; split_ifs <;> omega
  by_cases c2 : p = m
  · have hv : swN 0 (m - 1) (swN J m p) = J := by unfold swN; split_ifs <;> omega
    rw [hv]; unfold evenQ; split_ifs <;> omega
  by_cases c3 : p = 0
  · have hv : swN 0 (m - 1) (swN J m p) = m - 1 := by unfold swN; split_ifs; omega
    rw [hv]; unfold evenQ; split_ifs <;> omega
  by_cases c4 : p = m - 1
  · have hv : swN 0 (m - 1) (swN J m p) = 0 := by unfold swN; split_ifs; omega
    rw [hv]; unfold evenQ; split_ifs <;> omega
  · have hv : swN 0 (m - 1) (swN J m p) = p := by unfold swN; split_ifs; omega
    rw [hv]; unfold evenQ; split_ifs <;> omega


theorem heapQ_odd_level (m : Nat) (hodd : m % 2 = 1) (hm : 3 ≤ m) :
    ∀ J, 1 ≤ J → J ≤ m - 1 → ∀ p, heapQ (swN 0 (m - 1)) m J p = evenQ m J p := by
  intro J
  induction J with
  | zero => intro h; omega
  | succ J ih =>
    intro _ h2 p
    rcases Nat.eq_zero_or_pos J with h0 | hpos
    · subst h0
      simp only [heapQ, heapIdx_zero]
      exact evenQ_one m hm p
    · have hidx : heapIdx m J = J := by unfold heapIdx; split <;> omega
      simp only [heapQ, hidx]
      rw [ih hpos (by omega)]
      exact evenQ_step m J hodd hpos (by omega) p

theorem evenPi_final (m : Nat) (hodd : m % 2 = 1) (hm : 3 ≤ m) (p : Nat) :
    evenQ m (m - 1) (swN 0 (m - 1) (swN (m - 1) m (swN 0 (m - 1) p))) = evenPi m p := by
  by_cases c1 : p = 0
  · have hv : swN 0 (m - 1) (swN (m - 1) m (swN 0 (m - 1) p)) = m := by unfold swN; split_ifs <;> omega
    rw [hv]; unfold evenQ evenPi; split_ifs <;> omega
  by_cases c2 : p = m
  · have hv : swN 0 (m - 1) (swN (m - 1) m (swN 0 (m - 1) p)) = 0 := by unfold swN; split_ifs <;> omega
    rw [hv]; unfold evenQ evenPi; split_ifs <;> omega
  by_cases c4 : p = m - 1
  · have hv : swN 0 (m - 1) (swN (m - 1) m (swN 0 (m - 1) p)) = m - 1 := by unfold swN; split_ifs <;> omega
    rw [hv]; unfold evenQ evenPi; split_ifs <;> omega
  · have hv : swN 0 (m - 1) (swN (m - 1) m (swN 0 (m - 1) p)) = p := by unfold swN; split_ifs; omega
    rw [hv]; unfold evenQ evenPi; split_ifs <;> omega

/-- the even case of the final-arrangement invariant, from the odd case one level below -/
theorem heapPi_even_step (m : Nat) (hodd : m % 2 = 1) (ih : ∀ p, heapPi m p = swN 0 (m - 1) p) :
    ∀ p, heapPi (m + 1) p = evenPi m p := by
  have hσ : heapPi m = swN 0 (m - 1) := funext ih
  intro p
  rcases Nat.lt_or_ge m 3 with h | hm
  · have : m = 1 := by omega
    subst this
    simp only [heapPi, heapQ, heapIdx_zero]
    unfold swN evenPi; split_ifs <;> omega
  · obtain ⟨q, hq⟩ : ∃ q, m = q + 1 := ⟨m - 1, by omega⟩
    have hidx : heapIdx m q = m - 1 := by unfold heapIdx; split <;> omega
    have e : heapPi (m + 1) p = heapQ (heapPi m) m (q + 1) (heapPi m p) := by rw [← hq]; rfl
    rw [e]
    simp only [heapQ, hidx, hσ]
    rw [show q = m - 1 by omega, heapQ_odd_level m hodd hm (m - 1) (by omega) (Nat.le_refl _)]
    exact evenPi_final m hodd hm p

theorem heapQ_top_odd_level (m : Nat) (hodd : m % 2 = 1) (J : Nat) (hJ : J ≤ m) :
    heapQ (swN 0 (m - 1)) m J m = topE m J := by
  rcases Nat.lt_or_ge m 3 with h | hm
  · have : m = 1 := by omega
    subst this
    have : J = 0 ∨ J = 1 := by omega
    rcases this with rfl | rfl
    · rfl
    · simp only [heapQ, heapIdx_zero]; unfold swN topE; split_ifs <;> omega
  · rcases Nat.eq_zero_or_pos J with h0 | hpos
    · subst h0; unfold topE; simp [heapQ]
    · rcases Nat.lt_or_ge J m with hlt | hge
      · rw [heapQ_odd_level m hodd hm J hpos (by omega)]
        unfold evenQ topE; split_ifs <;> omega
      · have : J = m := by omega
        subst this
        obtain ⟨q, hq⟩ : ∃ q, J = q + 1 := ⟨J - 1, by omega⟩
        have hidx : heapIdx J q = J - 1 := by unfold heapIdx; split <;> omega
        have e : heapQ (swN 0 (J - 1)) J J J = heapQ (swN 0 (J - 1)) J (q + 1) J := by rw [← hq]
        rw [e]
        simp only [heapQ, hidx]
        rw [show q = J - 1 by omega, heapQ_odd_level J hodd hm (J - 1) (by omega) (Nat.le_refl _)]
        have hv : swN 0 (J - 1) (swN (J - 1) J J) = 0 := by unfold swN; split_ifs <;> omega
        rw [hv]; unfold evenQ topE; split_ifs <;> omega

theorem topE_inj (m : Nat) (hodd : m % 2 = 1) (J J' : Nat) (h1 : J < J') (h2 : J' ≤ m) : topE m J ≠ topE m J' := by
  unfold topE; split_ifs <;> omega


/-! the odd case: the loop at an even level `m` iterates `τ = σ ∘ (0 m)`, a cycle of length `m+1` -/

theorem heapQ_even_level (σ : Nat → Nat) (m : Nat) (heven : m % 2 = 0) :
    ∀ j p, heapQ σ m j p = Nat.iterate (fun p => σ (swN 0 m p)) j p := by
  intro j
  induction j with
  | zero => intro p; rfl
  | succ j ih =>
    intro p
    have hidx : heapIdx m j = 0 := by unfold heapIdx; simp [heven]
    simp only [heapQ, hidx, Function.iterate_succ_apply]
    exact ih _

theorem iterate_orbit (T f : Nat → Nat) (N : Nat) (h : ∀ i, i < N → T (f i) = f (i + 1)) :
    ∀ d i, i + d ≤ N → Nat.iterate T d (f i) = f (i + d) := by
  intro d
  induction d with
  | zero => intro i _; rfl
  | succ d ih =>
    intro i hi
    rw [Function.iterate_succ_apply, h i (by omega), ih (i + 1) (by omega)]
    congr 1; omega

theorem iterate_cycle (T f : Nat → Nat) (N : Nat) (h : ∀ i, i < N → T (f i) = f (i + 1)) (hN : T (f N) = f 0)
    (i : Nat) (hi : i ≤ N) : Nat.iterate T (N + 1) (f i) = f i := by
  have e : N + 1 = i + (1 + (N - i)) := by omega
  rw [e, Function.iterate_add_apply, Function.iterate_add_apply, iterate_orbit T f N h (N - i) i (by omega),
    show i + (N - i) = N by omega, Function.iterate_one, hN]
  have := iterate_orbit T f N h i 0 (by omega)
  simpa using this

theorem orbO_step (m : Nat) (heven : m % 2 = 0) (hm : 2 ≤ m) (i : Nat) (hi : i < m) :
    evenPi (m - 1) (swN 0 m (orbO m i)) = orbO m (i + 1) := by
  by_cases c1 : i = 0
  · have h1 : orbO m i = m := by unfold orbO; split_ifs; omega
    have h2 : swN 0 m m = 0 := by unfold swN; split_ifs <;> omega
    rw [h1, h2]; unfold evenPi orbO; split_ifs <;> first | omega | contradiction
  by_cases c2 : i ≤ m - 3
  · have h1 : orbO m i = m - 2 - i := by unfold orbO; split_ifs; omega
    have h2 : swN 0 m (m - 2 - i) = m - 2 - i := by unfold swN; split_ifs <;> omega
    rw [h1, h2]; unfold evenPi orbO; split_ifs <;> first | omega | contradiction
  by_cases c3 : i = m - 2
  · have h1 : orbO m i = m - 2 := by unfold orbO; split_ifs; omega
    have h2 : swN 0 m (m - 2) = m - 2 := by unfold swN; split_ifs <;> omega
    rw [h1, h2]; unfold evenPi orbO; split_ifs <;> first | omega | contradiction
  · have h1 : orbO m i = m - 1 := by unfold orbO; split_ifs <;> omega
    have h2 : swN 0 m (m - 1) = m - 1 := by unfold swN; split_ifs <;> omega
    rw [h1, h2]; unfold evenPi orbO; split_ifs <;> first | omega | contradiction

theorem orbO_last (m : Nat) (heven : m % 2 = 0) (hm : 2 ≤ m) :
    evenPi (m - 1) (swN 0 m (orbO m m)) = orbO m 0 := by
  have h1 : orbO m m = 0 := by unfold orbO; split_ifs <;> omega
  have h2 : swN 0 m 0 = m := by unfold swN; split_ifs <;> omega
  rw [h1, h2]; unfold evenPi orbO; split_ifs <;> omega

theorem orbO_surj (m : Nat) (heven : m % 2 = 0) (hm : 2 ≤ m) (p : Nat) (hp : p ≤ m) : ∃ i, i ≤ m ∧ orbO m i = p := by
  refine ⟨if p = m then 0 else if p = 0 then m else if p = m - 1 then m - 1 else if p = m - 2 then m - 2
    else m - 2 - p, ?_, ?_⟩
  · split_ifs <;> omega
  · unfold orbO; split_ifs <;> omega

theorem orbO_inj (m : Nat) (heven : m % 2 = 0) (hm : 2 ≤ m) (j j' : Nat) (h1 : j < j') (h2 : j' ≤ m) :
    orbO m j ≠ orbO m j' := by
  unfold orbO; split_ifs <;> omega


theorem evenPi_fix (M p : Nat) (hM : 1 ≤ M) (hp : M < p) : evenPi M p = p := by
  unfold evenPi; split_ifs <;> omega

/-- the odd case of the final-arrangement invariant, from the even case one level below -/
theorem heapPi_odd_step (m : Nat) (heven : m % 2 = 0) (hm : 2 ≤ m) (ih : ∀ p, heapPi m p = evenPi (m - 1) p) :
    ∀ p, heapPi (m + 1) p = swN 0 m p := by
  have hσ : heapPi m = evenPi (m - 1) := funext ih
  intro p
  have e1 : heapPi (m + 1) p = Nat.iterate (fun p => evenPi (m - 1) (swN 0 m p)) m (evenPi (m - 1) p) := by
    rw [← heapQ_even_level _ m heven, ← hσ]; rfl
  have e2 : evenPi (m - 1) p = (fun p => evenPi (m - 1) (swN 0 m p)) (swN 0 m p) := by
    simp only [swN_invol]
  rw [e1, e2, ← Function.iterate_succ_apply]
  rcases Nat.lt_or_ge m (swN 0 m p) with h | h
  · apply Function.iterate_fixed
    have hp : m < p := by unfold swN at h; split_ifs at h <;> omega
    have e3 : swN 0 m p = p := by unfold swN; split_ifs <;> omega
    simp only [e3]
    exact evenPi_fix _ _ (by omega) (by omega)
  · obtain ⟨i, hi, hv⟩ := orbO_surj m heven hm _ h
    rw [← hv]
    exact iterate_cycle (fun p => evenPi (m - 1) (swN 0 m p)) (orbO m) m (orbO_step m heven hm) (orbO_last m heven hm) i hi

theorem heapQ_top_even_level (m : Nat) (heven : m % 2 = 0) (hm : 2 ≤ m) (j : Nat) (hj : j ≤ m) :
    heapQ (evenPi (m - 1)) m j m = orbO m j := by
  rw [heapQ_even_level _ m heven]
  have h0 : orbO m 0 = m := by unfold orbO; simp
  have := iterate_orbit (fun p => evenPi (m - 1) (swN 0 m p)) (orbO m) m (orbO_step m heven hm) j 0 (by omega)
  rw [h0, Nat.zero_add] at this
  exact this

/-- **The final arrangement** after `heapRun k`: for odd `k` the first and the last of the `k` positions are
exchanged, for even `k` the arrangement is `evenPi (k-1)`. -/
theorem heapPi_closed : ∀ k, (k % 2 = 1 → ∀ p, heapPi k p = swN 0 (k - 1) p) ∧
    (k % 2 = 0 → 2 ≤ k → ∀ p, heapPi k p = evenPi (k - 1) p) := by
  intro k
  induction k with
  | zero => exact ⟨by omega, by omega⟩
  | succ m ih =>
    refine ⟨fun hk => ?_, fun hk _ => ?_⟩
    · rcases Nat.eq_zero_or_pos m with h0 | hpos
      · subst h0; intro p; simp only [heapPi, heapQ]; unfold swN; split_ifs <;> omega
      · exact heapPi_odd_step m (by omega) (by omega) (ih.2 (by omega) (by omega))
    · exact heapPi_even_step m (by omega) (ih.1 (by omega))

/-- the contents of position `m` at the starts of the `m+1` iterations of the loop at level `m` come from pairwise
different positions -/
theorem heapQ_top_inj (m t t' : Nat) (h1 : t < t') (h2 : t' ≤ m) :
    heapQ (heapPi m) m t m ≠ heapQ (heapPi m) m t' m := by
  rcases Nat.mod_two_eq_zero_or_one m with heven | hodd
  · have hm : 2 ≤ m := by omega
    have hσ : heapPi m = evenPi (m - 1) := funext ((heapPi_closed m).2 heven hm)
    rw [hσ, heapQ_top_even_level m heven hm t (by omega), heapQ_top_even_level m heven hm t' h2]
    exact orbO_inj m heven hm t t' h1 h2
  · have hσ : heapPi m = swN 0 (m - 1) := funext ((heapPi_closed m).1 hodd)
    rw [hσ, heapQ_top_odd_level m hodd t (by omega), heapQ_top_odd_level m hodd t' h2]
    exact topE_inj m hodd t t' h1 h2


/-! ### No repetition, every rearrangement occurs -/

theorem heapPos_pairwise : ∀ k g, Function.Injective g →
    (heapRunG swF k g).1.Pairwise (fun f f' => ∃ p, p < k ∧ f p ≠ f' p) := by
  intro k
  induction k with
  | zero => intro g _; simp [heapRunG]
  | succ m ih =>
    intro g hg
    rw [heapRunF_blocks, List.pairwise_flatMap]
    refine ⟨fun t _ => ?_, ?_⟩
    · refine (ih _ (hg.comp (heapQ_inj _ (heapPi_inj m) m t))).imp ?_
      rintro f f' ⟨p, hp, hne⟩
      exact ⟨p, by omega, hne⟩
    · refine List.Pairwise.imp_of_mem ?_ (List.pairwise_lt_range (n := m + 1))
      intro t t' _ ht' hlt f hf f' hf'
      refine ⟨m, by omega, ?_⟩
      rw [heapRunF_fix m _ f hf m (Nat.le_refl _), heapRunF_fix m _ f' hf' m (Nat.le_refl _)]
      intro h
      exact heapQ_top_inj m t t' hlt (by have := List.mem_range.mp ht'; omega) (hg h)

/-- an array of length `n` given by its position map -/
def posList (n : Nat) (g : Nat → Nat) : List Int := (List.range n).map (fun p => (g p : Int))

theorem posList_getD (n : Nat) (g : Nat → Nat) (y : Nat) (hy : y < n) : (posList n g).getD y 0 = (g y : Int) := by
  simp [posList, List.getD_eq_getElem?_getD, hy]

theorem posList_swF (n : Nat) (g : Nat → Nat) (x y : Nat) (hx : x < n) (hy : y < n) :
    posList n (swF g x y) = swapAt (posList n g) x y := by
  unfold swapAt
  rw [posList_getD n g x hx, posList_getD n g y hy]
  apply List.ext_getElem
  · simp [posList]
  · intro p h1 h2
    have hp : p < n := by simpa [posList] using h1
    simp only [List.getElem_set]
    simp only [posList, List.getElem_map, List.getElem_range, swF, swN]
    split_ifs <;> first | rfl | omega | (subst_vars; rfl)

theorem heapList_eq (n : Nat) : heapList n = (heapRunG swF n (fun p => p)).1.map (posList n) := by
  have := heapRunG_map swapAt swF (posList n) n (fun g x y hx hy => posList_swF n g x y hx hy) n (Nat.le_refl _)
    (fun p => p)
  unfold heapList heapRun
  have e : posList n (fun p => p) = (List.range n).map (fun (i : Nat) => (i : Int)) := rfl
  rw [← e, this]

theorem heapList_nodup (n : Nat) : (heapList n).Nodup := by
  rw [heapList_eq, List.Nodup, List.pairwise_map]
  refine (heapPos_pairwise n _ (fun _ _ h => h)).imp ?_
  rintro f f' ⟨p, hp, hne⟩ h
  apply hne
  have := congrArg (fun l => l.getD p 0) h
  simp only [posList_getD n _ p hp] at this
  exact_mod_cast this

theorem heapList_length (n : Nat) : (heapList n).length = n.factorial := heapRunG_length swapAt n _

theorem swapAt_perm (a : List Int) (x y : Nat) (hx : x < a.length) (hy : y < a.length) : (swapAt a x y).Perm a := by
  unfold swapAt
  have e1 : a.getD x 0 = a[x] := by simp [List.getD_eq_getElem?_getD, hx]
  have e2 : a.getD y 0 = a[y] := by simp [List.getD_eq_getElem?_getD, hy]
  rw [e1, e2]
  exact partial_swap_perm_aux a x y hx hy

theorem heapList_perm (n : Nat) (x : List Int) (hx : x ∈ heapList n) :
    x.Perm ((List.range n).map (fun (i : Nat) => (i : Int))) := by
  refine (heapRunG_inv swapAt n (fun b => b.Perm ((List.range n).map (fun (i : Nat) => (i : Int)))) ?_ n
    (Nat.le_refl _) _ (List.Perm.refl _)).1 x hx
  intro a u v hu hv ha
  have hl : a.length = n := by simpa using ha.length_eq
  exact (swapAt_perm a u v (by omega) (by omega)).trans ha

theorem mem_heapList (n : Nat) (x : List Int) :
    x ∈ heapList n ↔ x.Perm ((List.range n).map (fun (i : Nat) => (i : Int))) := by
  refine ⟨heapList_perm n x, fun h => ?_⟩
  have hsub : heapList n ⊆ ((List.range n).map (fun (i : Nat) => (i : Int))).permutations :=
    fun y hy => List.mem_permutations.mpr (heapList_perm n y hy)
  have hperm := ((heapList_nodup n).subperm hsub).perm_of_length_le
    (by rw [List.length_permutations, heapList_length]; simp)
  exact (hperm.mem_iff).mpr (List.mem_permutations.mpr h)

end Iter
