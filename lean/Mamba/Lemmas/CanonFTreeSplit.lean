import Mamba.Lemmas.CanonFTreeDef
import Mamba.Lemmas.CanonFCertSplit
import Mamba.Lemmas.IREquiv
/-!
# `splitBin` at the level of colourings = `IR.individualise`

* `cellMembers_perm`, `cellMembers_length` — the members of cell `t` of `colOf n op` are the vertices at the positions
  of bin `t`;
* `target_match`, `target_none` — `IR.target` is the bin of a position in the first non-singleton bin / `none` at a leaf;
* `splitBin_decomp_btc` — `splitBin_decomp_ages` with the work list; `cellOf_partStep` — the new cell of every vertex;
* `splitBin_match` — `splitBin` on an ordered partition with an empty work list is `IR.individualise`.
-/
namespace CanonF

/-! ## cells of the colouring = bins of the ordered partition -/

/-- the positions of bin `t` -/
theorem binIdx_eq_iff (bd : List Nat) (hs : bd.Pairwise (· < ·)) {t bs d : Nat}
    (hbs : (0 :: bd)[t]? = some bs) (hd : bd[t]? = some d) (p : Nat) : binIdx bd p = t ↔ bs ≤ p ∧ p < d := by
  obtain ⟨htl, htv⟩ := List.getElem?_eq_some_iff.1 hd
  have h1 := sorted_lt_iff_idx bd hs (p + 1) t htl
  rw [← binIdx_eq] at h1
  have h2 : bs ≤ p ↔ t ≤ binIdx bd p := by
    cases t with
    | zero => simp at hbs; omega
    | succ k =>
      rw [List.getElem?_cons_succ] at hbs
      obtain ⟨hkl, hkv⟩ := List.getElem?_eq_some_iff.1 hbs
      have h3 := sorted_lt_iff_idx bd hs (p + 1) k hkl
      rw [← binIdx_eq] at h3
      omega
  omega

/-- a predicate that holds exactly at the positions `bs ≤ p < d` selects that segment -/
theorem filter_eq_segment {α : Type} (P : α → Bool) : ∀ (l : List α) (bs d : Nat),
    (∀ p v, l[p]? = some v → (P v = true ↔ bs ≤ p ∧ p < d)) → l.filter P = (l.drop bs).take (d - bs) := by
  intro l
  induction l with
  | nil => intro bs d _; simp
  | cons x xs ih =>
    intro bs d h
    have hx := h 0 x (by simp)
    have hxs := ih (bs - 1) (d - 1) (by
      intro p v hv
      have := h (p + 1) v (by simpa using hv)
      rw [this]; omega)
    rw [List.filter_cons]
    cases bs with
    | zero =>
      by_cases hd : 0 < d
      · rw [if_pos (hx.2 ⟨Nat.le_refl _, hd⟩), hxs]
        simp only [List.drop_zero, Nat.sub_zero]
        rw [show d = (d - 1) + 1 by omega, List.take_succ_cons]
        simp
      · have : ¬ (P x = true) := by rw [hx]; omega
        rw [if_neg this, hxs]
        have : d = 0 := by omega
        subst this; simp
    | succ b =>
      have : ¬ (P x = true) := by rw [hx]; omega
      rw [if_neg this, hxs]
      simp only [List.drop_succ_cons, Nat.add_sub_cancel]
      congr 1; omega

theorem cellOf_order {n : Nat} {op : OP} (hp : PartInv n op) {p v : Nat} (hv : op.order.toList[p]? = some v) :
    cellOf op v = binIdx op.binDividers.toList p := by
  unfold cellOf
  rw [hp.inCell p v hv]; rfl

theorem col_colOf {n : Nat} {op : OP} {v : Nat} (hv : v < n) : IR.col (colOf n op) v = cellOf op v :=
  IR.col_tab _ hv

theorem cellMembers_perm {n : Nat} {nb : Nbrs} {op : OP} (hp : PartInv n op) {t bs d : Nat}
    (hbs : (0 :: op.binDividers.toList)[t]? = some bs) (hd : op.binDividers.toList[t]? = some d) :
    (IR.cellMembers (irG n nb) (colOf n op) t).Perm ((op.order.toList.drop bs).take (d - bs)) := by
  have hs : op.binDividers.toList.Pairwise (· < ·) := (List.pairwise_cons.1 hp.sorted).2
  unfold IR.cellMembers
  show ((List.range n).filter (fun v => IR.col (colOf n op) v == t)).Perm _
  rw [← filter_eq_segment (fun v => IR.col (colOf n op) v == t) op.order.toList bs d]
  · exact List.Perm.filter _ hp.perm.symm
  · intro p v hv
    have hvn : v < n := perm_range_lt hp.perm hv
    rw [beq_iff_eq, col_colOf hvn, cellOf_order hp hv]
    exact binIdx_eq_iff _ hs hbs hd p

/-- the size of cell `t` -/
theorem cellMembers_length {n : Nat} {nb : Nbrs} {op : OP} (hp : PartInv n op) {t bs d : Nat}
    (hbs : (0 :: op.binDividers.toList)[t]? = some bs) (hd : op.binDividers.toList[t]? = some d) :
    (IR.cellMembers (irG n nb) (colOf n op) t).length = d - bs := by
  have hol : op.order.toList.length = n := by rw [Sl.length_toList _ hp.wfOrder]; exact hp.lenOrder
  have hdn := hp.bd_le t d hd
  rw [(cellMembers_perm (nb := nb) hp hbs hd).length_eq, List.length_take, List.length_drop, hol]
  omega

/-- the start of the bin of `i` is the entry of `0 :: bd` at the bin index -/
theorem binStartOf_getElem? (bd : List Nat) (i : Nat) (hb : binIdx bd i < bd.length) :
    (0 :: bd)[binIdx bd i]? = some (binStartOf bd i) := by
  unfold binStartOf
  by_cases h0 : binIdx bd i = 0
  · rw [if_pos h0, h0]; rfl
  · rw [if_neg h0]
    have hk : binIdx bd i - 1 < bd.length := by omega
    rw [getD_eq_getElem_split _ _ _ hk]
    conv => lhs; rw [show binIdx bd i = (binIdx bd i - 1) + 1 by omega]
    rw [List.getElem?_cons_succ]
    exact List.getElem?_eq_getElem hk

/-- with `FirstBin`, the bins in front of the bin of `i` are singletons -/
theorem firstBin_single {n : Nat} {op : OP} (hp : PartInv n op) {i : Nat} (hi : i < n)
    (hfb : FirstBin op.binDividers.toList i) :
    ∀ k, k < binIdx op.binDividers.toList i → op.binDividers.toList[k]? = some (k + 1) := by
  have hs : op.binDividers.toList.Pairwise (· < ·) := (List.pairwise_cons.1 hp.sorted).2
  have hb := binIdx_lt _ n i hp.last hi
  have hst := binStartOf_getElem? _ i hb
  intro k
  induction k using Nat.strongRecOn with
  | _ k ih =>
    intro hk
    have hkl : k < op.binDividers.toList.length := by omega
    have hge := hp.bd_ge k _ (List.getElem?_eq_getElem hkl)
    -- bd[k] ≤ start
    have hle : op.binDividers.toList[k] ≤ binStartOf op.binDividers.toList i := by
      have h0 : binIdx op.binDividers.toList i ≠ 0 := by omega
      rw [show binIdx op.binDividers.toList i = (binIdx op.binDividers.toList i - 1) + 1 by omega,
        List.getElem?_cons_succ] at hst
      obtain ⟨h1, h2⟩ := List.getElem?_eq_some_iff.1 hst
      by_cases hkb : k = binIdx op.binDividers.toList i - 1
      · subst hkb; omega
      · have := List.pairwise_iff_getElem.1 hs k _ hkl h1 (by omega)
        omega
    have hmem := hfb k (by omega)
    obtain ⟨j, hjl, hjv⟩ := List.getElem_of_mem hmem
    have hgej := hp.bd_ge j _ (List.getElem?_eq_getElem hjl)
    rw [List.getElem?_eq_getElem hkl]
    congr 1
    by_cases hjk : j = k
    · subst hjk; exact hjv
    · have hlt : j < k := by omega
      have := ih j hlt (by omega)
      rw [List.getElem?_eq_getElem hjl] at this
      have := Option.some.inj this
      omega

theorem target_match {n : Nat} {nb : Nbrs} {op : OP} {s : IR.St} (hp : PartInv n op) (hm : Match n op s) {i : Nat} (hi : i < n)
    (hns : NonSingleton op.binDividers.toList i) (hfb : FirstBin op.binDividers.toList i) :
    IR.target (irG n nb) s = some (binIdx op.binDividers.toList i) := by
  have hs : op.binDividers.toList.Pairwise (· < ·) := (List.pairwise_cons.1 hp.sorted).2
  have hb := binIdx_lt _ n i hp.last hi
  have hbl : op.binDividers.toList.length = op.binDividers.len := Sl.length_toList _ hp.wfBd
  have hsing := firstBin_single hp hi hfb
  unfold IR.target
  rw [hm.col, hm.cells, List.find?_range_eq_some]
  refine ⟨?_, by rw [List.mem_range]; omega, ?_⟩
  · have h1 := cellMembers_length (nb := nb) hp (binStartOf_getElem? _ i hb) (List.getElem?_eq_getElem hb)
    have h2 := binStartOf_succ_lt _ hs i hb hns
    rw [decide_eq_true_eq, h1]; omega
  · intro j hj
    have hbs : (0 :: op.binDividers.toList)[j]? = some j := by
      cases j with
      | zero => rfl
      | succ k => rw [List.getElem?_cons_succ]; exact hsing k (by omega)
    have h1 := cellMembers_length (nb := nb) hp hbs (hsing j hj)
    simp only [Bool.not_eq_true', decide_eq_false_iff_not]
    rw [h1]; omega

theorem ts_sorted_gap (l : List Nat) (hs : l.Pairwise (· < ·)) :
    ∀ (d i : Nat) (hi : i + d < l.length), l[i]'(by omega) + d ≤ l[i + d] := by
  intro d
  induction d with
  | zero => intro i hi; simp
  | succ d ih =>
    intro i hi
    have h1 := ih i (by omega)
    have h2 := List.pairwise_iff_getElem.1 hs (i + d) (i + (d + 1)) (by omega) hi (by omega)
    omega

/-- at a leaf every bin is a singleton -/
theorem ts_leaf_dividers {n : Nat} {op : OP} (hp : PartInv n op) (hleaf : op.binDividers.len = n) :
    ∀ k, k < n → op.binDividers.toList[k]? = some (k + 1) := by
  intro k hk
  have hbl : op.binDividers.toList.length = n := by rw [Sl.length_toList _ hp.wfBd, hleaf]
  have hs' : op.binDividers.toList.Pairwise (· < ·) := (List.pairwise_cons.1 hp.sorted).2
  have hkl : k < op.binDividers.toList.length := by omega
  rw [List.getElem?_eq_getElem hkl]
  congr 1
  have h1 := hp.bd_ge k _ (List.getElem?_eq_getElem hkl)
  have hlast := hp.last
  rw [List.getLast?_eq_getElem?, hbl, List.getElem?_eq_getElem (by omega)] at hlast
  have hl := Option.some.inj hlast
  have h2 := ts_sorted_gap _ hs' (n - 1 - k) k (by omega)
  have : k + (n - 1 - k) = n - 1 := by omega
  simp only [this] at h2
  omega

theorem target_none {n : Nat} {nb : Nbrs} {op : OP} {s : IR.St} (hp : PartInv n op) (hm : Match n op s)
    (hleaf : op.binDividers.len = n) : IR.target (irG n nb) s = none := by
  have hsing := ts_leaf_dividers hp hleaf
  unfold IR.target
  rw [hm.col, hm.cells, List.find?_eq_none]
  intro j hj
  rw [List.mem_range, hleaf] at hj
  have hbs : (0 :: op.binDividers.toList)[j]? = some j := by
    cases j with
    | zero => rfl
    | succ k => rw [List.getElem?_cons_succ]; exact hsing k (by omega)
  have h1 := cellMembers_length (nb := nb) hp hbs (hsing j hj)
  rw [decide_eq_true_eq, h1]; omega


/-! ## `splitBin` = `IR.individualise` -/

/-- `splitBin_decomp_ages` with the work list (`binsToCheck` strictly increasing) -/
theorem splitBin_decomp_btc {n : Nat} {nb : Nbrs} {cb fl : Sl Nat} {op op' : OP} {i : Nat} {w : Bool}
    (h : PartInv n op) (ha : AgeInv op) (hi : i < n) (hns : NonSingleton op.binDividers.toList i)
    (hsb : op.binsToCheck.toList.Pairwise (· < ·))
    (hs : splitBin nb cb fl op i = .ok (w, op')) :
    ∃ op1 : OP,
      PartInv n op1 ∧ AgeInv op1 ∧ op1.age = op.age + 1 ∧ op1.value = op.value ∧ op1.spl = op.spl ∧
      op1.binDividers.toList = op.binDividers.toList.take (binIdx op.binDividers.toList i) ++
        (binStartOf op.binDividers.toList i + 1) :: op.binDividers.toList.drop (binIdx op.binDividers.toList i) ∧
      op1.binAges.toList = op.binAges.toList.take (binIdx op.binDividers.toList i) ++
        (op.age + 1) :: op.binAges.toList.drop (binIdx op.binDividers.toList i) ∧
      op1.order.toList = moveFront op.order.toList (binStartOf op.binDividers.toList i) i ∧
      op1.binDividers.len = op.binDividers.len + 1 ∧
      op1.binsToCheck.WF ∧
      op1.binsToCheck.toList = SortInts.union op.binsToCheck.toList
        [(binIdx op.binDividers.toList i : Int), (binIdx op.binDividers.toList i : Int) + 1] ∧
      (if binIdx op.binDividers.toList i = op.spl then expandValue nb cb fl op1 = .ok (w, op')
        else (w = false ∧ op' = op1)) := by
  obtain ⟨order, ic, hfront, wo, lo, zo, eo, wi, li, zi, hic⟩ := splitBin_front (nb := nb) (cb := cb) (fl := fl) h hi
  rw [hfront] at hs
  unfold splitTail at hs
  cases hbd : insertAt op.binDividers (binIdx op.binDividers.toList i) (binStartOf op.binDividers.toList i + 1) with
  | ok bd' =>
    cases hag : insertAt op.binAges (binIdx op.binDividers.toList i) (op.age + 1) with
    | ok ages' =>
      rw [hbd, hag] at hs
      simp only at hs
      have hsb2 : ([(binIdx op.binDividers.toList i : Int), (binIdx op.binDividers.toList i : Int) + 1]).Pairwise (· < ·) := by
        simp
      obtain ⟨btc, hbt, wbtc, ebtc, _⟩ := unionSl_spec op.binsToCheck _ hsb hsb2
      rw [hbt] at hs
      simp only at hs
      obtain ⟨_, cb1, lb, zb, eb, _⟩ := Sl.insertAt_spec h.wfBd hbd
      obtain ⟨_, ca1, la, za, ea, _⟩ := Sl.insertAt_spec h.wfAges hag
      have hlen := h.lenAges
      obtain ⟨hP, hA, _⟩ := partStep_inv
        (op1 := { op with age := op.age + 1, order := order, inCell := ic, binDividers := bd', binAges := ages',
                          binsToCheck := btc })
        h ha hi hns wo lo eo wi li hic (by show bd'.len ≤ bd'.data.size; omega)
        (by show ages'.len ≤ ages'.data.size; omega) (by show ages'.len = bd'.len; omega) eb ea rfl
      refine ⟨_, hP, hA, rfl, rfl, rfl, eb, ea, eo, lb, wbtc, ebtc, ?_⟩
      by_cases hsp : binIdx op.binDividers.toList i = op.spl
      · rw [if_pos hsp] at hs ⊢
        exact hs
      · rw [if_neg hsp] at hs ⊢
        simp only [Outcome.ok.injEq, Prod.mk.injEq] at hs
        exact ⟨hs.1.symm, hs.2.symm⟩
    | panic => rw [hbd, hag] at hs; simp at hs
    | outOfFuel => rw [hbd, hag] at hs; simp at hs
  | panic => rw [hbd] at hs; simp at hs
  | outOfFuel => rw [hbd] at hs; simp at hs

theorem tab_congr {n : Nat} {f g : Nat → Nat} (h : ∀ u, u < n → f u = g u) : IR.tab n f = IR.tab n g := by
  unfold IR.tab
  congr 1
  apply List.map_congr_left
  intro u hu
  exact h u (List.mem_range.1 hu)

/-- the new cell of every vertex after the partition step of `splitBin` -/
theorem cellOf_partStep {n : Nat} {op op1 : OP} {i v : Nat} (hp : PartInv n op) (hp1 : PartInv n op1) (hi : i < n)
    (hv : op.order.toList[i]? = some v)
    (eb : op1.binDividers.toList = op.binDividers.toList.take (binIdx op.binDividers.toList i) ++
      (binStartOf op.binDividers.toList i + 1) :: op.binDividers.toList.drop (binIdx op.binDividers.toList i))
    (eo : op1.order.toList = moveFront op.order.toList (binStartOf op.binDividers.toList i) i)
    (u : Nat) (hu : u < n) :
    cellOf op1 u = if u = v then binIdx op.binDividers.toList i
      else if cellOf op u > binIdx op.binDividers.toList i then cellOf op u + 1
      else if cellOf op u = binIdx op.binDividers.toList i then binIdx op.binDividers.toList i + 1 else cellOf op u := by
  have hs : op.binDividers.toList.Pairwise (· < ·) := (List.pairwise_cons.1 hp.sorted).2
  have hb := binIdx_lt _ n i hp.last hi
  have hsi := binStartOf_le _ hs i hb
  have hol : op.order.toList.length = n := by rw [Sl.length_toList _ hp.wfOrder]; exact hp.lenOrder
  have hbin := binIdx_eq_iff _ hs (binStartOf_getElem? _ i hb) (List.getElem?_eq_getElem hb)
  have hdi := binIdx_lt_div _ hs i hb
  -- the position of `u` in the new order
  have hmem : u ∈ op1.order.toList := hp1.perm.mem_iff.2 (List.mem_range.2 hu)
  obtain ⟨p', hp'⟩ := List.getElem?_of_mem hmem
  rw [cellOf_order hp1 hp', eb, binIdx_insert]
  rw [eo, moveFront_getElem? _ _ _ hsi (by omega)] at hp'
  by_cases h1 : p' = binStartOf op.binDividers.toList i
  · rw [if_pos h1] at hp'
    have : u = v := by rw [hv] at hp'; exact (Option.some.inj hp').symm
    rw [if_pos this, h1, if_neg (show ¬ (binStartOf op.binDividers.toList i + 1 ≤ binStartOf op.binDividers.toList i) by omega)]
    have := (hbin (binStartOf op.binDividers.toList i)).2 ⟨Nat.le_refl _, by omega⟩
    omega
  · rw [if_neg h1] at hp'
    by_cases h2 : binStartOf op.binDividers.toList i < p' ∧ p' ≤ i
    · rw [if_pos h2] at hp'
      have hne : u ≠ v := by
        intro e; subst e
        have := perm_range_inj hp.perm hp' hv; omega
      have hold := cellOf_order hp hp'
      have e1 := (hbin (p' - 1)).2 ⟨by omega, by omega⟩
      have e2 := (hbin p').2 ⟨by omega, by omega⟩
      rw [if_pos (show binStartOf op.binDividers.toList i + 1 ≤ p' by omega), if_neg hne, hold, e1, e2,
        if_neg (show ¬ (binIdx op.binDividers.toList i > binIdx op.binDividers.toList i) by omega), if_pos rfl]
    · rw [if_neg h2] at hp'
      have hne : u ≠ v := by
        intro e; subst e
        have := perm_range_inj hp.perm hp' hv; omega
      have hold := cellOf_order hp hp'
      rw [if_neg hne, hold]
      have hiff := hbin p'
      by_cases h3 : p' < binStartOf op.binDividers.toList i
      · have hm := binIdx_mono op.binDividers.toList (show p' ≤ i by omega)
        rw [if_neg (show ¬ (binStartOf op.binDividers.toList i + 1 ≤ p') by omega),
          if_neg (show ¬ (binIdx op.binDividers.toList p' > binIdx op.binDividers.toList i) by omega),
          if_neg (show ¬ (binIdx op.binDividers.toList p' = binIdx op.binDividers.toList i) by omega)]
        omega
      · have hm := binIdx_mono op.binDividers.toList (show i ≤ p' by omega)
        rw [if_pos (show binStartOf op.binDividers.toList i + 1 ≤ p' by omega)]
        by_cases h4 : binIdx op.binDividers.toList p' > binIdx op.binDividers.toList i
        · rw [if_pos h4]
        · rw [if_neg h4, if_pos (show binIdx op.binDividers.toList p' = binIdx op.binDividers.toList i by omega)]
          omega

theorem splitBin_match {n : Nat} {nb : Nbrs} {cb fl : Sl Nat} {op op' : OP} {i : Nat} {w : Bool} {s : IR.St}
    (hp : PartInv n op) (ha : AgeInv op) (hi : i < n) (hns : NonSingleton op.binDividers.toList i)
    (hm : Match n op s) (hbt : op.binsToCheck.len = 0) (hs : splitBin nb cb fl op i = .ok (w, op')) :
    ∃ v, op.order.toList[i]? = some v ∧ v ∈ IR.cellMembers (irG n nb) s.c (binIdx op.binDividers.toList i) ∧
      Match n op' (IR.individualise (irG n nb) s (binIdx op.binDividers.toList i) v) := by
  have hnil : op.binsToCheck.toList = [] := by simp [Sl.toList, hbt]
  obtain ⟨op1, p1, _, _, _, s1, eb, _, eo, lb, _, ebtc, hif⟩ :=
    splitBin_decomp_btc hp ha hi hns (by rw [hnil]; exact List.Pairwise.nil) hs
  have hol : op.order.toList.length = n := by rw [Sl.length_toList _ hp.wfOrder]; exact hp.lenOrder
  have hv : op.order.toList[i]? = some (op.order.toList[i]'(by omega)) := List.getElem?_eq_getElem _
  have hvn := perm_range_lt hp.perm hv
  have hcv : IR.col s.c (op.order.toList[i]'(by omega)) = binIdx op.binDividers.toList i := by
    rw [hm.col, col_colOf hvn, cellOf_order hp hv]
  refine ⟨_, hv, ?_, ?_⟩
  · unfold IR.cellMembers
    rw [List.mem_filter, List.mem_range, beq_iff_eq]
    exact ⟨hvn, hcv⟩
  · -- `expandValue` does not touch what `Match` looks at
    have hfr : op'.inCell = op1.inCell ∧ op'.binDividers = op1.binDividers ∧ op'.binsToCheck = op1.binsToCheck := by
      by_cases hsp : binIdx op.binDividers.toList i = op.spl
      · rw [if_pos hsp] at hif
        obtain ⟨_, f2, _, f4, _, f6⟩ := expandValue_frame hif
        exact ⟨f6, f2, f4⟩
      · rw [if_neg hsp] at hif
        obtain ⟨_, rfl⟩ := hif
        exact ⟨rfl, rfl, rfl⟩
    obtain ⟨f6, f2, f4⟩ := hfr
    have hcell : cellOf op' = cellOf op1 := by funext u; unfold cellOf; rw [f6]
    rw [hnil, SortInts.union] at ebtc
    refine ⟨?_, ?_, ?_, ?_⟩
    · show IR.tab n _ = colOf n op'
      unfold colOf
      apply tab_congr
      intro u hu
      rw [hcell, cellOf_partStep hp p1 hi hv eb eo u hu, hm.col, col_colOf hu]
    · show s.cells + 1 = op'.binDividers.len
      rw [f2, lb, hm.cells]
    · show [binIdx op.binDividers.toList i, binIdx op.binDividers.toList i + 1].Nodup
      simp
    · intro x
      show x ∈ [binIdx op.binDividers.toList i, binIdx op.binDividers.toList i + 1] ↔ _
      rw [f4, ebtc]
      simp only [List.mem_cons, List.not_mem_nil, or_false]
      omega

/-- after `splitBin` on an empty work list the work list is `[t, t+1]` (`t` = bin of `i`): it satisfies `BtcInv` -/
theorem splitBin_btcInv {n : Nat} {nb : Nbrs} {cb fl : Sl Nat} {op op' : OP} {i : Nat} {w : Bool}
    (hp : PartInv n op) (ha : AgeInv op) (hi : i < n) (hns : NonSingleton op.binDividers.toList i)
    (hbt : op.binsToCheck.len = 0) (hs : splitBin nb cb fl op i = .ok (w, op')) : BtcInv op' := by
  have hnil : op.binsToCheck.toList = [] := by simp [Sl.toList, hbt]
  obtain ⟨op1, _, _, _, _, _, _, _, _, lb, wbtc, ebtc, hif⟩ :=
    splitBin_decomp_btc hp ha hi hns (by rw [hnil]; exact List.Pairwise.nil) hs
  have hb := binIdx_lt _ n i hp.last hi
  rw [Sl.length_toList _ hp.wfBd] at hb
  rw [hnil, SortInts.union] at ebtc
  have hfr : op'.binDividers = op1.binDividers ∧ op'.binsToCheck = op1.binsToCheck := by
    by_cases hsp : binIdx op.binDividers.toList i = op.spl
    · rw [if_pos hsp] at hif
      obtain ⟨_, f2, _, f4, _, _⟩ := expandValue_frame hif
      exact ⟨f2, f4⟩
    · rw [if_neg hsp] at hif
      obtain ⟨_, rfl⟩ := hif
      exact ⟨rfl, rfl⟩
  obtain ⟨f2, f4⟩ := hfr
  refine ⟨by rw [f4]; exact wbtc, ?_, ?_⟩
  · rw [f4, ebtc]; simp
  · intro x hx
    rw [f4, ebtc] at hx
    rw [f2, lb]
    simp only [List.mem_cons, List.not_mem_nil, or_false] at hx
    omega

end CanonF
