import Mathlib.Data.List.Chain
import Mathlib.Data.List.Lex
import Mamba.Spec.Iter
import Mamba.Lemmas.IterBase
import Mamba.Model.IterPart
import Mamba.Lemmas.IterChain
import Mamba.Lemmas.IterGeneric

namespace Iter.Spec

/-! ## Partitions: restricted growth strings in lexicographic order -/

/-- the restricted growth suffixes of length `len` when the entries to the left have `b` = 1 + their maximum
(`b = 0` for the empty prefix): the first entry ranges over `0..b`; lexicographic order -/
def rgsFrom : Nat → Int → List (List Int)
  | 0, _ => [[]]
  | len+1, b => (List.range (b + 1).toNat).flatMap (fun (v : Nat) =>
      (rgsFrom len (max b ((v : Int) + 1))).map (fun x => (v : Int) :: x))

/-- all restricted growth strings of length `n` in lexicographic order -/
def rgsList (n : Nat) : List (List Int) := rgsFrom n 0

/-- `x` is a restricted growth suffix after a prefix with 1 + maximum = `b` -/
def IsRGSFrom : Int → List Int → Prop
  | _, [] => True
  | b, v :: x => 0 ≤ v ∧ v ≤ b ∧ IsRGSFrom (max b (v + 1)) x

/-- restricted growth string: `x[0] = 0`, `0 ≤ x[i] ≤ 1 + max(x[0..i-1])` -/
def IsRGS (x : List Int) : Prop := IsRGSFrom 0 x

/-- lexicographic successor among the restricted growth suffixes -/
def rgsSuccFrom : Int → List Int → Option (List Int)
  | _, [] => none
  | b, v :: x =>
    match rgsSuccFrom (max b (v + 1)) x with
    | some y => some (v :: y)
    | none => if v + 1 ≤ b then some ((v + 1) :: zeros x.length) else none

def rgsSucc (x : List Int) : Option (List Int) := rgsSuccFrom 0 x

/-- 1 + running maximum: the bound for the entry after the prefix `p` when the bound at its start is `b` -/
def rgsThr : Int → List Int → Int
  | b, [] => b
  | b, v :: x => rgsThr (max b (v + 1)) x

/-- block `i`: the positions holding the value `i`, in increasing order -/
def rgsBlock (x : List Int) (i : Nat) : List Int :=
  (x.zipIdx.filter (fun (v, _) => v == (i : Int))).map (fun (_, p) => (p : Int))

/-- the set partition encoded by the restricted growth string `x`: block `i` (for `i` = 0 .. maximum of `x`) is the
set of positions holding the value `i` -/
def rgsBlocks (x : List Int) : List (List Int) :=
  (List.range (rgsThr 1 x - 1).toNat.succ).map (rgsBlock x)



/-! ## IntegerPartitions: non-increasing positive parts, reverse lexicographic order -/

def ones (n : Nat) : List Int := List.replicate n 1

/-- the partitions of `n` into non-increasing positive parts that are all `≤ mx`: the first part `v` runs from
`min n mx` DOWN to 1 (`v = min n mx - i`), followed by a partition of `n - v` with parts `≤ v`;
this is the reverse lexicographic order -/
def ipFrom : Nat → Nat → List (List Int)
  | 0, _ => [[]]
  | n+1, mx => (List.range (min (n+1) mx)).flatMap (fun i =>
      (ipFrom (n - (min (n+1) mx - i - 1)) (min (n+1) mx - i)).map
        (fun x => ((min (n+1) mx - i : Nat) : Int) :: x))
termination_by n => n
decreasing_by omega

/-- all partitions of `n` in reverse lexicographic order -/
def ipList (n : Nat) : List (List Int) := ipFrom n n

/-- non-increasing list of positive integers, the first one `≤ mx` -/
def IsIPFrom : Int → List Int → Prop
  | _, [] => True
  | mx, v :: x => 1 ≤ v ∧ v ≤ mx ∧ IsIPFrom v x

/-- the greedy partition of `r` with parts `≤ p`: `p, p, …, p, rest` -/
def ipFill (p r : Int) : List Int :=
  if r ≤ 0 then [] else if 0 < p ∧ p < r then p :: ipFill p (r - p) else [r]
termination_by r.toNat
decreasing_by omega

/-- the next partition in reverse lexicographic order: the last part `v > 1` becomes `v - 1` and the rest
(the ones behind it, plus one) is redistributed greedily -/
def ipSucc : List Int → Option (List Int)
  | [] => none
  | v :: x =>
    match ipSucc x with
    | some y => some (v :: y)
    | none => if 1 < v then some ((v - 1) :: ipFill (v - 1) (x.length + 1)) else none

end Iter.Spec

namespace Iter
open Spec

theorem mem_rgsFrom : ∀ (len : Nat) (b : Int) (x : List Int),
    x ∈ rgsFrom len b ↔ x.length = len ∧ IsRGSFrom b x := by
  intro len
  induction len with
  | zero => intro b x; cases x <;> simp [rgsFrom, IsRGSFrom]
  | succ len ih =>
    intro b x
    cases x with
    | nil => simp [rgsFrom]
    | cons a x =>
      simp only [rgsFrom, List.mem_flatMap, List.mem_range, List.mem_map, IsRGSFrom, List.length_cons,
        Nat.add_right_cancel_iff]
      constructor
      · rintro ⟨v, hv, y, hy, h⟩
        injection h with h1 h2
        subst h1 h2
        obtain ⟨hl, hr⟩ := (ih _ _).mp hy
        exact ⟨hl, by omega, by omega, hr⟩
      · rintro ⟨hl, h0, h1, h2⟩
        refine ⟨a.toNat, by omega, x, (ih _ _).mpr ⟨hl, ?_⟩, by simp [Int.toNat_of_nonneg h0]⟩
        rw [Int.toNat_of_nonneg h0]; exact h2

theorem mem_rgsList (n : Nat) (x : List Int) : x ∈ rgsList n ↔ x.length = n ∧ IsRGS x :=
  mem_rgsFrom n 0 x

theorem rgsSuccFrom_length : ∀ (x : List Int) (b : Int) (y : List Int),
    rgsSuccFrom b x = some y → y.length = x.length := by
  intro x
  induction x with
  | nil => intro b y h; simp [rgsSuccFrom] at h
  | cons a x ih =>
    intro b y h
    simp only [rgsSuccFrom] at h
    cases hp : rgsSuccFrom (max b (a + 1)) x with
    | some z =>
      rw [hp] at h
      simp only [Option.some.injEq] at h
      subst h
      simp [ih _ _ hp]
    | none =>
      rw [hp] at h
      simp only at h
      by_cases hn : a + 1 ≤ b
      · simp only [hn, if_true, Option.some.injEq] at h
        subst h
        simp [zeros]
      · simp [hn] at h

theorem rgsSuccFrom_lt : ∀ (x : List Int) (b : Int) (y : List Int),
    rgsSuccFrom b x = some y → x < y := by
  intro x
  induction x with
  | nil => intro b y h; simp [rgsSuccFrom] at h
  | cons a x ih =>
    intro b y h
    simp only [rgsSuccFrom] at h
    cases hp : rgsSuccFrom (max b (a + 1)) x with
    | some z =>
      rw [hp] at h
      simp only [Option.some.injEq] at h
      subst h
      exact List.cons_lt_cons_iff.mpr (Or.inr ⟨rfl, ih _ _ hp⟩)
    | none =>
      rw [hp] at h
      simp only at h
      by_cases hn : a + 1 ≤ b
      · simp only [hn, if_true, Option.some.injEq] at h
        subst h
        exact List.cons_lt_cons_iff.mpr (Or.inl (by omega))
      · simp [hn] at h

theorem isRGSFrom_zeros : ∀ (k : Nat) (b : Int), 0 ≤ b → IsRGSFrom b (zeros k) := by
  intro k
  induction k with
  | zero => intro b _; simp [zeros, IsRGSFrom]
  | succ k ih =>
    intro b hb
    simp only [zeros, List.replicate_succ, IsRGSFrom]
    exact ⟨Int.le_refl _, hb, ih _ (by omega)⟩

/-- the successor of a restricted growth suffix is one -/
theorem rgsSuccFrom_isRGS : ∀ (x : List Int) (b : Int) (y : List Int), 0 ≤ b → IsRGSFrom b x →
    rgsSuccFrom b x = some y → IsRGSFrom b y := by
  intro x
  induction x with
  | nil => intro b y _ _ h; simp [rgsSuccFrom] at h
  | cons a x ih =>
    intro b y hb hx h
    obtain ⟨h0, h1, h2⟩ := hx
    simp only [rgsSuccFrom] at h
    cases hp : rgsSuccFrom (max b (a + 1)) x with
    | some z =>
      rw [hp] at h
      simp only [Option.some.injEq] at h
      subst h
      exact ⟨h0, h1, ih _ _ (by omega) h2 hp⟩
    | none =>
      rw [hp] at h
      simp only at h
      by_cases hn : a + 1 ≤ b
      · simp only [hn, if_true, Option.some.injEq] at h
        subst h
        exact ⟨by omega, hn, isRGSFrom_zeros _ _ (by omega)⟩
      · simp [hn] at h

/-- the successor chain of the restricted growth suffixes, with first and last element -/
theorem rgsFrom_chain : ∀ (len : Nat) (b : Int), 0 ≤ b →
    (rgsFrom len b).IsChain (fun x y => rgsSuccFrom b x = some y) ∧
    (rgsFrom len b).head? = some (zeros len) ∧
      ∃ l, (rgsFrom len b).getLast? = some l ∧ l.length = len ∧ rgsSuccFrom b l = none := by
  intro len
  induction len with
  | zero => intro b _; simp [rgsFrom, rgsSuccFrom, zeros]
  | succ len ih =>
    intro b hb
    have key := isChain_flatMap_range (fun x y => rgsSuccFrom b x = some y)
      (fun (v : Nat) => (rgsFrom len (max b ((v : Int) + 1))).map (fun x => (v : Int) :: x)) (b + 1).toNat
      (by
        intro v _
        rw [List.isChain_map]
        exact (ih _ (by omega)).1.imp (fun x y h => by simp [rgsSuccFrom, h]))
      (by
        intro v _ h
        have := (ih (max b ((v : Int) + 1)) (by omega)).2.1
        simp only [List.map_eq_nil_iff] at h
        simp [h] at this)
      (by
        intro v hv x hx y hy
        obtain ⟨_, hhead, l, hlast, hlen, hl⟩ := ih (max b ((v : Int) + 1)) (by omega)
        obtain ⟨_, hhead', _⟩ := ih (max b (((v + 1 : Nat) : Int) + 1)) (by omega)
        simp only [List.getLast?_map, hlast, Option.map_some, Option.mem_def, Option.some.injEq] at hx
        simp only [List.head?_map, hhead', Option.map_some, Option.mem_def, Option.some.injEq] at hy
        subst hx hy
        have : (v : Int) + 1 ≤ b := by omega
        simp [rgsSuccFrom, hl, this, hlen])
    have hpos : 0 < (b + 1).toNat := by omega
    obtain ⟨k1, k2⟩ := key.2 hpos
    refine ⟨key.1, ?_, ?_⟩
    · show ((List.range (b + 1).toNat).flatMap _).head? = _
      rw [k2]
      have h1 := (ih (max b 1) (by omega)).2.1
      simp [h1, zeros, List.replicate_succ]
    · obtain ⟨_, _, l, hlast, hlen, hl⟩ := ih (max b ((((b + 1).toNat - 1 : Nat) : Int) + 1)) (by omega)
      refine ⟨(((b + 1).toNat - 1 : Nat) : Int) :: l, ?_, by simp [hlen], ?_⟩
      · show ((List.range (b + 1).toNat).flatMap _).getLast? = _
        rw [k1]; simp [hlast]
      · have : ¬ ((((b + 1).toNat - 1 : Nat) : Int) + 1 ≤ b) := by omega
        simp [rgsSuccFrom, hl, this]

theorem rgsList_chain (n : Nat) :
    (rgsList n).IsChain (fun x y => rgsSucc x = some y) ∧
    (rgsList n).head? = some (zeros n) ∧
      ∃ l, (rgsList n).getLast? = some l ∧ l.length = n ∧ rgsSucc l = none :=
  rgsFrom_chain n 0 (Int.le_refl _)

theorem rgsList_sorted (n : Nat) : (rgsList n).Pairwise (· < ·) :=
  List.isChain_iff_pairwise.mp ((rgsList_chain n).1.imp (fun _ _ h => rgsSuccFrom_lt _ _ _ h))

theorem rgsList_ne_nil (n : Nat) : rgsList n ≠ [] := by
  intro h
  have := (rgsList_chain n).2.1
  simp [h] at this


/-! ### refinement: `Parts.next` computes `rgsSucc` -/

/-- the bounds at every position (the contents of the array `b` of the Go code) -/
def rgsBs : Int → List Int → List Int
  | _, [] => []
  | b, v :: x => b :: rgsBs (max b (v + 1)) x

theorem rgsThr_append : ∀ (p q : List Int) (b : Int), rgsThr b (p ++ q) = rgsThr (rgsThr b p) q := by
  intro p
  induction p with
  | nil => intro q b; rfl
  | cons v p ih => intro q b; simp [rgsThr, ih]

theorem rgsThr_ge : ∀ (p : List Int) (b : Int), b ≤ rgsThr b p := by
  intro p
  induction p with
  | nil => intro b; exact Int.le_refl _
  | cons v p ih => intro b; have := ih (max b (v + 1)); simp only [rgsThr]; omega

theorem rgsThr_zeros : ∀ (k : Nat) (b : Int), 1 ≤ b → rgsThr b (zeros k) = b := by
  intro k
  induction k with
  | zero => intro b _; rfl
  | succ k ih =>
    intro b hb
    have e : max b ((0 : Int) + 1) = b := by omega
    simp only [zeros, List.replicate_succ, rgsThr, e]
    exact ih b hb

theorem rgsBs_length : ∀ (p : List Int) (b : Int), (rgsBs b p).length = p.length := by
  intro p
  induction p with
  | nil => intro b; rfl
  | cons v p ih => intro b; simp [rgsBs, ih]

theorem rgsBs_append : ∀ (p q : List Int) (b : Int),
    rgsBs b (p ++ q) = rgsBs b p ++ rgsBs (rgsThr b p) q := by
  intro p
  induction p with
  | nil => intro q b; rfl
  | cons v p ih => intro q b; simp [rgsBs, rgsThr, ih]

theorem rgsBs_zeros : ∀ (k : Nat) (b : Int), 1 ≤ b → rgsBs b (zeros k) = List.replicate k b := by
  intro k
  induction k with
  | zero => intro b _; rfl
  | succ k ih =>
    intro b hb
    have e : max b ((0 : Int) + 1) = b := by omega
    simp only [zeros, List.replicate_succ, rgsBs, e]
    rw [← ih b hb]; rfl

theorem isRGSFrom_append : ∀ (p q : List Int) (b : Int),
    IsRGSFrom b (p ++ q) ↔ IsRGSFrom b p ∧ IsRGSFrom (rgsThr b p) q := by
  intro p
  induction p with
  | nil => intro q b; simp [IsRGSFrom, rgsThr]
  | cons v p ih => intro q b; simp [IsRGSFrom, rgsThr, ih, and_assoc]

theorem rgsSuccFrom_snoc : ∀ (p : List Int) (b v : Int),
    rgsSuccFrom b (p ++ [v]) =
      if v + 1 ≤ rgsThr b p then some (p ++ [v + 1]) else (rgsSuccFrom b p).map (· ++ [0]) := by
  intro p
  induction p with
  | nil => intro b v; by_cases h : v + 1 ≤ b <;> simp [rgsSuccFrom, rgsThr, zeros, h]
  | cons w p ih =>
    intro b v
    simp only [List.cons_append, rgsSuccFrom, ih, rgsThr]
    by_cases hn : v + 1 ≤ rgsThr (max b (w + 1)) p
    · simp [hn]
    · simp only [hn, if_false]
      cases hp : rgsSuccFrom (max b (w + 1)) p with
      | some y => simp
      | none =>
        simp only [Option.map_none, List.length_append, List.length_cons, List.length_nil]
        by_cases hb : w + 1 ≤ b
        · simp [hb, zeros, List.replicate_succ']
        · simp [hb]

theorem get_split (pre suf : Sl) (a : Int) (i : Int) (h : i = pre.length) :
    get (pre ++ a :: suf) i = .ok a := by subst h; simp

theorem set_split (pre suf : Sl) (a v : Int) (i : Int) (h : i = pre.length) :
    set (pre ++ a :: suf) i v = .ok (pre ++ v :: suf) := by subst h; simp

theorem parts_reset (m : Int) : ∀ (sa1 sb1 pa pb sa2 sb2 : List Int) (k : Int),
    sa1.length = sb1.length → k = pa.length → pa.length = pb.length →
    Parts.reset m sa1.length k (pa ++ sa1 ++ sa2) (pb ++ sb1 ++ sb2) =
      .ok (pa ++ zeros sa1.length ++ sa2, pb ++ List.replicate sa1.length m ++ sb2) := by
  intro sa1
  induction sa1 with
  | nil =>
    intro sb1 pa pb sa2 sb2 k h1 _ _
    have : sb1 = [] := List.length_eq_zero_iff.mp h1.symm
    subst this
    simp [Parts.reset, zeros]
  | cons x sa1 ih =>
    intro sb1 pa pb sa2 sb2 k h1 hk hpp
    cases sb1 with
    | nil => simp at h1
    | cons y sb1 =>
      simp only [List.length_cons, Nat.add_right_cancel_iff] at h1
      have ea : pa ++ x :: sa1 ++ sa2 = pa ++ x :: (sa1 ++ sa2) := by simp
      have eb : pb ++ y :: sb1 ++ sb2 = pb ++ y :: (sb1 ++ sb2) := by simp
      have s1 := set_split pa (sa1 ++ sa2) x 0 k hk
      have s2 := set_split pb (sb1 ++ sb2) y m k (by omega)
      simp only [List.length_cons, Parts.reset, ea, eb, s1, s2, Outcome.bind_ok]
      have := ih sb1 (pa ++ [0]) (pb ++ [m]) sa2 sb2 (k + 1) h1 (by simp; omega) (by simp; omega)
      simp only [List.append_assoc, List.cons_append, List.nil_append] at this
      rw [this]
      simp [zeros, List.replicate_succ]

/-- the loop over `j` of `Next`: it computes the successor of the prefix `pre` (entries `1..k` of `a`) and resets the
rest; the bounds `b[1..k]` are those of `pre` -/
theorem parts_scan (n : Int) (b0 al bl : Int) : ∀ (k : Nat) (pre suf bsuf : List Int),
    pre.length = k → suf.length = bsuf.length → IsRGSFrom 1 pre → n = (k : Int) + suf.length + 2 →
    Parts.scan n k (0 :: (pre ++ suf ++ [al])) (b0 :: (rgsBs 1 pre ++ bsuf ++ [bl])) =
      .ok ((rgsSuccFrom 1 pre).map (fun y =>
        (rgsThr 1 (y ++ zeros suf.length), 0 :: (y ++ zeros suf.length ++ [0]),
          b0 :: (rgsBs 1 (y ++ zeros suf.length) ++ [bl])))) := by
  intro k
  induction k with
  | zero =>
    intro pre suf bsuf hp _ _ _
    have : pre = [] := List.length_eq_zero_iff.mp hp
    subst this
    simp [Parts.scan, rgsSuccFrom]
  | succ j ih =>
    intro pre suf bsuf hp hs hr hn
    obtain ⟨pre', v, rfl⟩ : ∃ p a, pre = p ++ [a] :=
      ⟨pre.dropLast, pre.getLast (by intro h; simp [h] at hp), by simp [List.dropLast_append_getLast]⟩
    simp only [List.length_append, List.length_cons, List.length_nil, Nat.zero_add,
      Nat.add_right_cancel_iff] at hp
    obtain ⟨hr1, hv0, hvt, _⟩ := (isRGSFrom_append pre' [v] 1).mp hr
    have ea : 0 :: (pre' ++ [v] ++ suf ++ [al]) = (0 :: pre') ++ v :: (suf ++ [al]) := by simp
    have eb : b0 :: (rgsBs 1 (pre' ++ [v]) ++ bsuf ++ [bl]) =
        (b0 :: rgsBs 1 pre') ++ rgsThr 1 pre' :: (bsuf ++ [bl]) := by simp [rgsBs_append, rgsBs]
    rw [rgsSuccFrom_snoc]
    unfold Parts.scan
    rw [ea, eb]
    have g1 := get_split (0 :: pre') (suf ++ [al]) v ((j + 1 : Nat) : Int) (by simp [hp])
    have g2 := get_split (b0 :: rgsBs 1 pre') (bsuf ++ [bl]) (rgsThr 1 pre') ((j + 1 : Nat) : Int)
      (by simp [hp, rgsBs_length])
    simp only [g1, g2, Outcome.bind_ok]
    by_cases hv : v = rgsThr 1 pre'
    · have hne : ¬ (v + 1 ≤ rgsThr 1 pre') := by omega
      have hb : (v != rgsThr 1 pre') = false := by simp [hv]
      simp only [hb, hne, if_false, Bool.false_eq_true]
      have ea' : (0 :: pre') ++ v :: (suf ++ [al]) = 0 :: (pre' ++ (v :: suf) ++ [al]) := by simp
      have eb' : (b0 :: rgsBs 1 pre') ++ rgsThr 1 pre' :: (bsuf ++ [bl]) =
          b0 :: (rgsBs 1 pre' ++ (rgsThr 1 pre' :: bsuf) ++ [bl]) := by simp
      rw [ea', eb', ih pre' (v :: suf) (rgsThr 1 pre' :: bsuf) hp (by simp [hs]) hr1
        (by simp only [List.length_cons]; push_cast at hn ⊢; omega)]
      cases rgsSuccFrom 1 pre' with
      | none => simp
      | some y => simp [zeros, List.replicate_succ]
    · have hlt : v + 1 ≤ rgsThr 1 pre' := by omega
      have hb : (v != rgsThr 1 pre') = true := by simp [hv]
      simp only [hb, hlt, if_true]
      have s1 := set_split (0 :: pre') (suf ++ [al]) v (v + 1) ((j + 1 : Nat) : Int) (by simp [hp])
      simp only [s1, Outcome.bind_ok]
      have hm : (if (v + 1 == rgsThr 1 pre') = true then rgsThr 1 pre' + 1 else rgsThr 1 pre') =
          rgsThr 1 (pre' ++ [v + 1]) := by
        rw [rgsThr_append]
        simp only [rgsThr, beq_iff_eq]
        split <;> omega
      rw [hm]
      have h1 : 1 ≤ rgsThr 1 (pre' ++ [v + 1]) := rgsThr_ge _ _
      have hc : (n - 1 - (((j + 1 : Nat) : Int) + 1)).toNat = suf.length := by omega
      have ea2 : (0 :: pre') ++ (v + 1) :: (suf ++ [al]) = (0 :: (pre' ++ [v + 1])) ++ suf ++ [al] := by simp
      have eb2 : (b0 :: rgsBs 1 pre') ++ rgsThr 1 pre' :: (bsuf ++ [bl]) =
          (b0 :: (rgsBs 1 pre' ++ [rgsThr 1 pre'])) ++ bsuf ++ [bl] := by simp
      rw [hc, ea2, eb2, parts_reset _ suf bsuf _ _ [al] [bl] _ hs (by simp [hp])
        (by simp [rgsBs_length])]
      simp only [Outcome.bind_ok]
      have s2 := set_split (0 :: (pre' ++ [v + 1]) ++ zeros suf.length) [] al 0 (n - 1)
        (by simp [zeros, hp]; omega)
      rw [s2]
      rw [rgsThr_append] at h1
      simp only [rgsThr] at h1
      simp [rgsThr_append, rgsBs_append, rgsThr_zeros _ _ h1, rgsBs_zeros _ _ h1, rgsBs, rgsThr]


/-- the iterator at the level of restricted growth strings: same `Next`, the value is the array `a` -/
def Parts.itRGS : It Parts Sl := ⟨Parts.next, fun s => .ok (s, s.a)⟩

/-- state invariant: `s` shows the restricted growth string `x` of length `n`; `b[j]` = 1 + max(a[0..j-1]) for
`1 ≤ j ≤ n-2`, `m` = 1 + max(a[0..n-2]) (`m = 0` for `n = 1`) -/
def Parts.Rep (n : Nat) (s : Parts) (x : List Int) : Prop :=
  s.n = n ∧ s.a = x ∧ x.length = n ∧ IsRGS x ∧
    ((n = 1 ∧ s.m = 0) ∨ ∃ a' al b0 bl, x = 0 :: (a' ++ [al]) ∧ s.b = b0 :: (rgsBs 1 a' ++ [bl]) ∧
      s.m = rgsThr 1 a')

/-- the branch `a[n-1]++` -/
theorem Parts.next_incr (s : Parts) (a' : List Int) (al : Int) (hn : s.n = (a'.length : Int) + 2)
    (ha : s.a = 0 :: (a' ++ [al])) (hm : al ≠ s.m) :
    Parts.next s = .ok ({ s with a := 0 :: (a' ++ [al + 1]) }, true) := by
  unfold Parts.next
  have e : (0 : Int) :: (a' ++ [al]) = (0 :: a') ++ al :: [] := by simp
  have g := get_split (0 :: a') [] al (s.n - 1) (by simp [hn]; omega)
  have st := set_split (0 :: a') [] al (al + 1) (s.n - 1) (by simp [hn]; omega)
  have hb : (al == s.m) = false := by simp [hm]
  simp only [ha, e, g, st, Outcome.bind_ok, hb, Bool.false_eq_true, if_false]
  simp

theorem rgsSucc_zero_cons (w : List Int) : rgsSucc (0 :: w) = (rgsSuccFrom 1 w).map (fun y => 0 :: y) := by
  have e : max (0 : Int) (0 + 1) = 1 := by decide
  simp only [rgsSucc, rgsSuccFrom, e]
  cases rgsSuccFrom 1 w <;> simp

theorem isRGS_zero_cons (w : List Int) : IsRGS (0 :: w) ↔ IsRGSFrom 1 w := by
  have e : max (0 : Int) 1 = 1 := by decide
  simp [IsRGS, IsRGSFrom, e]

theorem isRGS_head (v : Int) (w : List Int) (h : IsRGS (v :: w)) : v = 0 := by
  obtain ⟨h0, h1, _⟩ := h; omega

theorem Parts.next_spec (n : Nat) (s : Parts) (x : List Int) (h : Parts.Rep n s x) :
    (∀ y, rgsSucc x = some y → ∃ s', Parts.next s = .ok (s', true) ∧ Parts.Rep n s' y) ∧
    (rgsSucc x = none → Parts.next s = .ok (s, false)) := by
  obtain ⟨hn, ha, hl, hr, hshape⟩ := h
  rcases hshape with ⟨h1, hm⟩ | ⟨a', al, b0, bl, hx, hb, hm⟩
  · -- n = 1
    subst h1
    obtain ⟨v, rfl⟩ : ∃ v, x = [v] := by
      cases x with
      | nil => simp at hl
      | cons v x =>
        cases x with
        | nil => exact ⟨v, rfl⟩
        | cons _ _ => simp at hl
    have := isRGS_head v [] hr
    subst this
    have hs : rgsSucc [0] = none := by simp [rgsSucc, rgsSuccFrom]
    refine ⟨fun y hy => (by rw [hs] at hy; cases hy), fun _ => ?_⟩
    unfold Parts.next
    simp [hn, ha, hm, get, Parts.scan]
  · subst hx
    have hlen : (n : Int) = (a'.length : Int) + 2 := by
      simp only [List.length_cons, List.length_append, List.length_nil] at hl; omega
    have hr' := (isRGS_zero_cons _).mp hr
    obtain ⟨hr1, hal0, halt, _⟩ := (isRGSFrom_append a' [al] 1).mp hr'
    rw [rgsSucc_zero_cons, rgsSuccFrom_snoc]
    by_cases hlt : al + 1 ≤ rgsThr 1 a'
    · simp only [hlt, if_true, Option.map_some, Option.some.injEq, reduceCtorEq, false_implies, and_true]
      intro y hy
      subst hy
      refine ⟨_, Parts.next_incr s a' al (by rw [hn, hlen]) ha (by omega), hn, rfl, ?_, ?_, Or.inr ?_⟩
      · simpa using hl
      · rw [isRGS_zero_cons, isRGSFrom_append]
        exact ⟨hr1, by omega, hlt, trivial⟩
      · exact ⟨a', al + 1, b0, bl, rfl, hb, hm⟩
    · have hal : al = rgsThr 1 a' := by omega
      have hsc := parts_scan s.n b0 al bl a'.length a' [] [] rfl rfl hr1 (by rw [hn, hlen]; simp)
      simp only [List.append_nil, List.length_nil, zeros, List.replicate_zero] at hsc
      have g := get_split (0 :: a') [] al (s.n - 1) (by simp [hn, hlen]; omega)
      have e : (0 : Int) :: (a' ++ [al]) = (0 :: a') ++ al :: [] := by simp
      have hk : (s.n - 2).toNat = a'.length := by omega
      have hbeq : (al == s.m) = true := by simp [hm, hal]
      unfold Parts.next
      rw [ha, e, g]
      simp only [Outcome.bind_ok, hbeq, if_true, hk, hb]
      rw [← e, hsc]
      simp only [hlt, if_false]
      cases hp : rgsSuccFrom 1 a' with
      | none => simp
      | some y =>
        simp only [Option.map_some, Option.some.injEq, reduceCtorEq, false_implies, and_true, Outcome.bind_ok]
        intro z hz
        subst hz
        have hyl := rgsSuccFrom_length _ _ _ hp
        refine ⟨_, rfl, hn, rfl, ?_, ?_, Or.inr ⟨y, 0, b0, bl, rfl, rfl, rfl⟩⟩
        · simp only [List.length_cons, List.length_append, List.length_nil] at hl ⊢; omega
        · rw [isRGS_zero_cons, isRGSFrom_append]
          exact ⟨rgsSuccFrom_isRGS _ _ _ (by decide) hr1 hp, Int.le_refl _, by have := rgsThr_ge y 1; omega,
            trivial⟩


theorem Parts.next_dead (n : Nat) (s : Parts) (h : ∃ x, Parts.Rep n s x ∧ rgsSucc x = none) :
    ∃ s', Parts.next s = .ok (s', false) ∧ ∃ x, Parts.Rep n s' x ∧ rgsSucc x = none := by
  obtain ⟨x, hr, hx⟩ := h
  exact ⟨s, (Parts.next_spec n s x hr).2 hx, x, hr, hx⟩

theorem rgs_zeros_snoc (k : Nat) : zeros k ++ [0] = zeros (k + 1) := by
  simp [zeros, List.replicate_succ']

theorem Parts.init_eq (k : Nat) :
    Parts.init ((k : Int) + 1) =
      .ok ⟨(k : Int) + 1, if k = 0 then 0 else 1, zeros k ++ [-1], List.replicate (k + 1) 1⟩ := by
  unfold Parts.init make
  have h1 : ¬ ((k : Int) + 1 < 1) := by omega
  have h0 : ¬ ((k : Int) + 1 < 0) := by omega
  have ht : ((k : Int) + 1).toNat = k + 1 := by omega
  have r : List.replicate (k + 1) (0 : Int) = List.replicate k 0 ++ [0] := List.replicate_succ'
  have st := set_split (List.replicate k (0 : Int)) [] 0 (-1) ((k : Int) + 1 - 1) (by simp)
  simp only [h1, h0, if_false, ht, Outcome.bind_ok, Outcome.pure_eq, r, st]
  cases k with
  | zero => simp [zeros]
  | succ k =>
    simp [zeros]; omega

theorem Parts.enumerates_lemma (n : Int) (hn : 1 ≤ n) :
    ∃ s0, Parts.init n = .ok s0 ∧ ∀ bound, (rgsList n.toNat).length < bound →
      ∃ s', outputs Parts.itRGS bound s0 = (rgsList n.toNat, s', .exhausted) ∧
        ∀ k, extras Parts.itRGS k s' = .ok (List.replicate k none) := by
  obtain ⟨k, rfl⟩ : ∃ k : Nat, n = (k : Int) + 1 := ⟨(n - 1).toNat, by omega⟩
  have ht : ((k : Int) + 1).toNat = k + 1 := by omega
  rw [ht]
  refine ⟨_, Parts.init_eq k, fun bound hb => ?_⟩
  obtain ⟨hchain, hhead, l, hlast, _, hl⟩ := rgsList_chain (k + 1)
  obtain ⟨s', h1, _, h3⟩ := enumerates_aux Parts.itRGS (Parts.Rep (k + 1))
    (fun s => ∃ x, Parts.Rep (k + 1) s x ∧ rgsSucc x = none)
    (fun x y => rgsSucc x = some y)
    (⟨(k : Int) + 1, if k = 0 then 0 else 1, zeros k ++ [-1], List.replicate (k + 1) 1⟩ : Parts)
    (rgsList (k + 1)) hchain
    (by
      rintro s x hr
      exact ⟨s, by simp [Parts.itRGS, hr.2.1], hr⟩)
    (fun hnil => absurd hnil (rgsList_ne_nil _))
    (by
      intro x hx
      rw [hhead] at hx
      simp only [Option.mem_def, Option.some.injEq] at hx
      subst hx
      have hz : IsRGS (zeros (k + 1)) := isRGSFrom_zeros _ _ (Int.le_refl _)
      cases k with
      | zero =>
        refine ⟨⟨1, 0, [0], [1]⟩, ?_, by simp, rfl, rfl, hz, Or.inl ⟨rfl, rfl⟩⟩
        simp [Parts.itRGS, Parts.next, zeros, get, set]
      | succ k =>
        have e : zeros (k + 1) ++ [-1] = 0 :: (zeros k ++ [-1]) := by simp [zeros, List.replicate_succ]
        have e2 : (0 : Int) :: (zeros k ++ [-1 + 1]) = zeros (k + 1 + 1) := by
          rw [← rgs_zeros_snoc (k + 1)]; simp [zeros, List.replicate_succ]
        have hni := Parts.next_incr
          ⟨((k + 1 : Nat) : Int) + 1, 1, zeros (k + 1) ++ [-1], List.replicate (k + 1 + 1) 1⟩ (zeros k) (-1)
          (by simp [zeros]; omega) e (by show (-1 : Int) ≠ 1; decide)
        simp only [e2] at hni
        refine ⟨_, by simpa [Parts.itRGS] using hni, by simp, rfl, by simp [zeros], hz, Or.inr ?_⟩
        refine ⟨zeros k, 0, 1, 1, by rw [← e2]; simp, ?_, ?_⟩
        · show List.replicate (k + 1 + 1) (1 : Int) = _
          rw [rgsBs_zeros k 1 (Int.le_refl _), ← List.replicate_succ', ← List.replicate_succ]
        · simp [rgsThr_zeros k 1 (Int.le_refl _)])
    (fun x y hxy s hs => (Parts.next_spec (k + 1) s x hs).1 y hxy)
    (by
      intro x hx s hs
      rw [hlast] at hx
      simp only [Option.mem_def, Option.some.injEq] at hx
      subst hx
      exact Parts.next_dead (k + 1) s ⟨_, hs, hl⟩)
    (fun s hs => Parts.next_dead (k + 1) s hs) bound hb
  exact ⟨s', h1, h3⟩


/-- the usual definition of restricted growth strings: every entry is `0` or at most one more than some earlier entry
(so the first entry is `0` and `x[i] ≤ 1 + max(x[0..i-1])`) -/
theorem isRGSFrom_iff : ∀ (x : List Int) (b : Int), IsRGSFrom b x ↔
    ∀ pre v suf, x = pre ++ v :: suf → 0 ≤ v ∧ (v ≤ b ∨ ∃ w ∈ pre, v ≤ w + 1) := by
  intro x
  induction x with
  | nil => intro b; simp [IsRGSFrom]
  | cons u x ih =>
    intro b
    simp only [IsRGSFrom, ih]
    constructor
    · rintro ⟨h0, h1, h2⟩ pre v suf hsplit
      cases pre with
      | nil =>
        simp only [List.nil_append, List.cons.injEq] at hsplit
        obtain ⟨rfl, _⟩ := hsplit
        exact ⟨h0, Or.inl h1⟩
      | cons u' pre =>
        simp only [List.cons_append, List.cons.injEq] at hsplit
        obtain ⟨rfl, hx⟩ := hsplit
        obtain ⟨hv0, hv⟩ := h2 pre v suf hx
        refine ⟨hv0, ?_⟩
        rcases hv with hv | ⟨w, hw, hv⟩
        · by_cases hb : v ≤ b
          · exact Or.inl hb
          · exact Or.inr ⟨u, by simp, by omega⟩
        · exact Or.inr ⟨w, by simp [hw], hv⟩
    · intro h
      obtain ⟨h0, h1⟩ := h [] u x rfl
      refine ⟨h0, by simpa using h1, ?_⟩
      intro pre v suf hx
      obtain ⟨hv0, hv⟩ := h (u :: pre) v suf (by simp [hx])
      refine ⟨hv0, ?_⟩
      rcases hv with hv | ⟨w, hw, hv⟩
      · exact Or.inl (by omega)
      · simp only [List.mem_cons] at hw
        rcases hw with rfl | hw
        · exact Or.inl (by omega)
        · exact Or.inr ⟨w, hw, hv⟩

theorem isRGS_iff (x : List Int) : IsRGS x ↔
    ∀ pre v suf, x = pre ++ v :: suf → 0 ≤ v ∧ (v = 0 ∨ ∃ w ∈ pre, v ≤ w + 1) := by
  unfold IsRGS
  rw [isRGSFrom_iff]
  constructor
  · intro h pre v suf hx
    obtain ⟨h0, h1⟩ := h pre v suf hx
    exact ⟨h0, h1.imp (fun h => by omega) id⟩
  · intro h pre v suf hx
    obtain ⟨h0, h1⟩ := h pre v suf hx
    exact ⟨h0, h1.imp (fun h => by omega) id⟩


/-! ### from restricted growth strings to blocks: `partitionFromRGS` -/

theorem mem_rgsBlock (x : List Int) (i : Nat) (v : Int) :
    v ∈ rgsBlock x i ↔ ∃ p : Nat, v = (p : Int) ∧ x[p]? = some (i : Int) := by
  simp only [rgsBlock, List.mem_map, List.mem_filter, List.mem_zipIdx_iff_getElem?, beq_iff_eq, Prod.exists]
  constructor
  · rintro ⟨a, p, ⟨h1, h2⟩, rfl⟩
    exact ⟨p, rfl, by rw [h1, h2]⟩
  · rintro ⟨p, rfl, h⟩
    exact ⟨(i : Int), p, ⟨h, rfl⟩, rfl⟩

theorem zipIdx_pairwise_snd : ∀ (l : List Int) (k : Nat),
    (l.zipIdx k).Pairwise (fun a b => a.2 < b.2) := by
  intro l
  induction l with
  | nil => intro k; simp
  | cons a l ih =>
    intro k
    simp only [List.zipIdx_cons, List.pairwise_cons]
    refine ⟨fun b hb => ?_, ih (k + 1)⟩
    have := List.le_snd_of_mem_zipIdx hb
    omega

theorem rgsBlock_sorted (x : List Int) (i : Nat) : (rgsBlock x i).Pairwise (· < ·) := by
  unfold rgsBlock
  rw [List.pairwise_map]
  apply List.Pairwise.filter
  exact (zipIdx_pairwise_snd x 0).imp (fun {a b} h => by
    obtain ⟨_, p⟩ := a
    obtain ⟨_, q⟩ := b
    simp only at h ⊢
    omega)

/-- entries are non-negative and smaller than the final bound, which grows by at most one per entry -/
theorem isRGSFrom_bounds : ∀ (x : List Int) (b : Int), IsRGSFrom b x →
    rgsThr b x ≤ b + x.length ∧ ∀ v ∈ x, 0 ≤ v ∧ v + 1 ≤ rgsThr b x := by
  intro x
  induction x with
  | nil => intro b _; simp [rgsThr]
  | cons u x ih =>
    intro b h
    obtain ⟨h0, h1, h2⟩ := h
    obtain ⟨i1, i2⟩ := ih _ h2
    have hge := rgsThr_ge x (max b (u + 1))
    simp only [rgsThr, List.length_cons, List.mem_cons, forall_eq_or_imp]
    refine ⟨by push_cast; omega, ⟨h0, by omega⟩, i2⟩

/-- every value from `b` up to the final bound occurs -/
theorem isRGSFrom_surj : ∀ (x : List Int) (b : Int), IsRGSFrom b x →
    ∀ i, b ≤ i → i < rgsThr b x → i ∈ x := by
  intro x
  induction x with
  | nil => intro b _ i h1 h2; simp only [rgsThr] at h2; omega
  | cons u x ih =>
    intro b h i h1 h2
    obtain ⟨_, hu, hx⟩ := h
    simp only [rgsThr] at h2
    by_cases hi : i < max b (u + 1)
    · have : i = u := by omega
      simp [this]
    · exact List.mem_cons_of_mem _ (ih _ hx i (by omega) h2)

theorem rgsMax_eq (n : Nat) : ∀ (x : List Int) (mx : Int), (∀ v ∈ x, 0 ≤ v ∧ v < n) →
    rgsMax n x mx = .ok (rgsThr (mx + 1) x - 1) := by
  intro x
  induction x with
  | nil => intro mx _; simp [rgsMax, rgsThr]
  | cons u x ih =>
    intro mx h
    obtain ⟨h0, h1⟩ := h u (by simp)
    have hc : ¬ (u < 0 ∨ u.toNat ≥ n) := by omega
    simp only [rgsMax, hc, if_false, rgsThr]
    rw [ih _ (fun v hv => h v (by simp [hv]))]
    congr 3
    split <;> omega

/-- before an entry `j` every smaller value `0 ≤ i < j` has already occurred -/
theorem isRGS_earlier (x : List Int) (hx : IsRGS x) (q : Nat) (i j : Int) (hq : x[q]? = some j) (h0 : 0 ≤ i)
    (hij : i < j) : ∃ p : Nat, p < q ∧ x[p]? = some i := by
  obtain ⟨hql, hqv⟩ := List.getElem?_eq_some_iff.mp hq
  have hsplit : x = x.take q ++ j :: x.drop (q + 1) := by
    rw [← hqv]; simp
  have hx' : IsRGSFrom 0 (x.take q ++ j :: x.drop (q + 1)) := by rw [← hsplit]; exact hx
  obtain ⟨hpre, _, hj, _⟩ := (isRGSFrom_append _ _ _).mp hx'
  have hmem := isRGSFrom_surj _ _ hpre i h0 (by omega)
  obtain ⟨p, hp, hpv⟩ := List.mem_iff_getElem.mp hmem
  simp only [List.length_take] at hp
  refine ⟨p, by omega, ?_⟩
  rw [List.getElem_take] at hpv
  rw [List.getElem?_eq_getElem (by omega), hpv]

theorem partitionFromRGS_eq (x : List Int) (hx : IsRGS x) :
    partitionFromRGS x = .ok (rgsBlocks x) := by
  have hb := isRGSFrom_bounds x 0 hx
  have hm := rgsMax_eq x.length x 0 (fun v hv => ⟨(hb.2 v hv).1, by have := (hb.2 v hv).2; omega⟩)
  unfold partitionFromRGS
  rw [hm]
  rfl


theorem rgsThr_zero_one (x : List Int) (hx : IsRGS x) (hl : 1 ≤ x.length) : rgsThr 0 x = rgsThr 1 x := by
  cases x with
  | nil => simp at hl
  | cons u w =>
    have := isRGS_head u w hx
    subst this
    simp only [rgsThr]
    rfl

/-- `Value()` on a restricted growth string `x` of length `≥ 1`: the blocks are non-empty, sorted, lie in
`{0..len-1}`, are ordered by their least elements, and position `p` is in block number `x[p]` (hence in exactly
that block). -/
theorem partitionFromRGS_spec (x : List Int) (hx : IsRGS x) (hl : 1 ≤ x.length) :
    ∃ blocks, partitionFromRGS x = .ok blocks ∧
      (∀ B ∈ blocks, B ≠ [] ∧ B.Pairwise (· < ·) ∧ ∀ v ∈ B, 0 ≤ v ∧ v < x.length) ∧
      blocks.Pairwise (fun B C => ∀ a ∈ B.head?, ∀ c ∈ C.head?, a < c) ∧
      (∀ (p : Nat) (hp : p < x.length), 0 ≤ x[p] ∧ x[p] < blocks.length) ∧
      (∀ (p : Nat) (hp : p < x.length) (i : Nat) (hi : i < blocks.length), (p : Int) ∈ blocks[i] ↔ x[p] = i) := by
  refine ⟨_, partitionFromRGS_eq x hx, ?_, ?_, ?_, ?_⟩ <;> unfold rgsBlocks
  · intro B hB
    simp only [List.mem_map, List.mem_range] at hB
    obtain ⟨i, hi, rfl⟩ := hB
    have hb := isRGSFrom_bounds x 0 hx
    have h01 := rgsThr_zero_one x hx hl
    have hge := rgsThr_ge x 1
    refine ⟨?_, rgsBlock_sorted x i, ?_⟩
    · have hmem := isRGSFrom_surj x 0 hx (i : Int) (by omega) (by omega)
      obtain ⟨p, hp, hpv⟩ := List.mem_iff_getElem.mp hmem
      have : (p : Int) ∈ rgsBlock x i := (mem_rgsBlock x i p).mpr ⟨p, rfl, by rw [List.getElem?_eq_getElem hp, hpv]⟩
      intro h
      rw [h] at this
      simp at this
    · intro v hv
      obtain ⟨p, rfl, hp⟩ := (mem_rgsBlock x i v).mp hv
      obtain ⟨hpl, _⟩ := List.getElem?_eq_some_iff.mp hp
      omega
  · rw [List.pairwise_map]
    refine List.pairwise_lt_range.imp ?_
    intro i j hij a ha c hc
    have hcm : c ∈ rgsBlock x j := List.mem_of_mem_head? hc
    obtain ⟨q, rfl, hq⟩ := (mem_rgsBlock x j c).mp hcm
    obtain ⟨p, hpq, hp⟩ := isRGS_earlier x hx q (i : Int) (j : Int) hq (by omega) (by omega)
    have hpm : (p : Int) ∈ rgsBlock x i := (mem_rgsBlock x i p).mpr ⟨p, rfl, hp⟩
    have hs := rgsBlock_sorted x i
    cases hblk : rgsBlock x i with
    | nil => rw [hblk] at ha; simp at ha
    | cons a' rest =>
      rw [hblk] at ha hpm hs
      simp only [List.head?_cons, Option.mem_def, Option.some.injEq] at ha
      subst ha
      simp only [List.mem_cons] at hpm
      rcases hpm with h | h
      · omega
      · have := (List.pairwise_cons.mp hs).1 _ h
        omega
  · intro p hp
    have hb := isRGSFrom_bounds x 0 hx
    have h01 := rgsThr_zero_one x hx hl
    have hge := rgsThr_ge x 1
    have := hb.2 x[p] (List.getElem_mem hp)
    simp only [List.length_map, List.length_range]
    omega
  · intro p hp i hi
    simp only [List.getElem_map, List.getElem_range]
    rw [mem_rgsBlock]
    constructor
    · rintro ⟨p', h1, h2⟩
      have : p = p' := by omega
      subst this
      rw [List.getElem?_eq_getElem hp] at h2
      simpa using h2
    · intro h
      exact ⟨p, rfl, by rw [List.getElem?_eq_getElem hp, h]⟩


/-! ### lifting the enumeration from restricted growth strings to blocks -/

theorem part_collect_suffix {σ α : Type} (it : It σ α) : ∀ (c : Nat) (s : σ) (acc r : List α) (s' : σ) (st : Stop),
    collect it c s acc = (r, s', st) → ∃ pre, r = pre ++ acc := by
  intro c
  induction c with
  | zero =>
    intro s acc r s' st h
    simp only [collect, Prod.mk.injEq] at h
    exact ⟨[], by simp [h.1]⟩
  | succ c ih =>
    intro s acc r s' st h
    unfold collect at h
    split at h
    · split at h
      · rename_i v _
        obtain ⟨pre, hp⟩ := ih _ _ _ _ _ h
        exact ⟨pre ++ [v], by rw [hp]; simp⟩
      · simp only [Prod.mk.injEq] at h; exact ⟨[], by simp [h.1]⟩
      · simp only [Prod.mk.injEq] at h; exact ⟨[], by simp [h.1]⟩
    · simp only [Prod.mk.injEq] at h; exact ⟨[], by simp [h.1]⟩
    · simp only [Prod.mk.injEq] at h; exact ⟨[], by simp [h.1]⟩
    · simp only [Prod.mk.injEq] at h; exact ⟨[], by simp [h.1]⟩

theorem part_collect_map {σ α β : Type} (it1 : It σ α) (it2 : It σ β) (g : σ → α) (f : α → β) (P : α → Prop)
    (hnext : it2.next = it1.next) (hv1 : ∀ s, it1.value s = .ok (s, g s))
    (hv2 : ∀ s, P (g s) → it2.value s = .ok (s, f (g s))) :
    ∀ (c : Nat) (s : σ) (acc r : List α) (s' : σ) (st : Stop),
      collect it1 c s acc = (r, s', st) → (∀ v ∈ r, P v) →
      collect it2 c s (acc.map f) = (r.map f, s', st) := by
  intro c
  induction c with
  | zero =>
    intro s acc r s' st h _
    simp only [collect, Prod.mk.injEq] at h ⊢
    exact ⟨by rw [h.1], h.2⟩
  | succ c ih =>
    intro s acc r s' st h hP
    unfold collect at h ⊢
    rw [hnext]
    cases hn : it1.next s with
    | ok p =>
      obtain ⟨s1, b⟩ := p
      rw [hn] at h
      cases b with
      | true =>
        simp only [hv1 s1] at h ⊢
        obtain ⟨pre, hp⟩ := part_collect_suffix it1 _ _ _ _ _ _ h
        have hg : P (g s1) := hP _ (by rw [hp]; simp)
        simp only [hv2 s1 hg]
        have := ih s1 (g s1 :: acc) r s' st h hP
        simpa using this
      | false =>
        simp only [Prod.mk.injEq] at h ⊢
        exact ⟨by rw [h.1], h.2⟩
    | panic =>
      rw [hn] at h
      simp only [Prod.mk.injEq] at h ⊢
      exact ⟨by rw [h.1], h.2⟩
    | outOfFuel =>
      rw [hn] at h
      simp only [Prod.mk.injEq] at h ⊢
      exact ⟨by rw [h.1], h.2⟩

theorem part_extras_transfer {σ α β : Type} (it1 : It σ α) (it2 : It σ β) (hnext : it2.next = it1.next) :
    ∀ (k : Nat) (s : σ), extras it1 k s = .ok (List.replicate k none) →
      extras it2 k s = .ok (List.replicate k none) := by
  intro k
  induction k with
  | zero => intro s _; rfl
  | succ k ih =>
    intro s h
    unfold extras at h ⊢
    rw [hnext]
    cases hn : it1.next s with
    | ok p =>
      obtain ⟨s1, b⟩ := p
      rw [hn] at h
      cases b with
      | true =>
        exfalso
        simp only at h
        split at h
        · split at h <;> simp [List.replicate_succ] at h
        · simp at h
        · simp at h
      | false =>
        simp only at h ⊢
        cases he : extras it1 k s1 with
        | ok r =>
          rw [he] at h
          simp only [List.replicate_succ, Outcome.ok.injEq, List.cons.injEq, true_and] at h
          subst h
          rw [ih s1 he, List.replicate_succ]
        | panic => rw [he] at h; simp at h
        | outOfFuel => rw [he] at h; simp at h
    | panic => rw [hn] at h; simp at h
    | outOfFuel => rw [hn] at h; simp at h

/-- `Partitions(n)` (the real iterator, whose `Value()` returns blocks) yields the set partitions encoded by the
restricted growth strings of length `n`, in their lexicographic order, then `Next` stays false. -/
theorem Parts.enumerates_blocks_lemma (n : Int) (hn : 1 ≤ n) :
    ∃ s0, Parts.init n = .ok s0 ∧ ∀ bound, (rgsList n.toNat).length < bound →
      ∃ s', outputs Parts.it bound s0 = ((rgsList n.toNat).map rgsBlocks, s', .exhausted) ∧
        ∀ k, extras Parts.it k s' = .ok (List.replicate k none) := by
  obtain ⟨s0, h0, h⟩ := Parts.enumerates_lemma n hn
  refine ⟨s0, h0, fun bound hb => ?_⟩
  obtain ⟨s', h1, h2⟩ := h bound hb
  refine ⟨s', ?_, fun k => part_extras_transfer Parts.itRGS Parts.it rfl k s' (h2 k)⟩
  simp only [outputs, Prod.mk.injEq] at h1 ⊢
  obtain ⟨e1, e2, e3⟩ := h1
  have hc : collect Parts.itRGS bound s0 [] = ((rgsList n.toNat).reverse, s', .exhausted) := by
    rw [← e1, List.reverse_reverse, ← e2, ← e3]
  have := part_collect_map Parts.itRGS Parts.it (fun s => s.a) rgsBlocks
    (fun v => partitionFromRGS v = .ok (rgsBlocks v)) rfl (fun s => rfl)
    (fun s hs => by simp only [Parts.it]; rw [hs]; rfl)
    bound s0 [] _ _ _ hc
    (fun v hv => partitionFromRGS_eq v ((mem_rgsList _ _).mp (List.mem_reverse.mp hv)).2)
  simp only [List.map_nil] at this
  rw [this]
  simp


/-! ## IntegerPartitions -/


theorem ipFrom_zero (mx : Nat) : ipFrom 0 mx = [[]] := by rw [ipFrom]

theorem ipFrom_succ (n mx : Nat) : ipFrom (n + 1) mx = (List.range (min (n+1) mx)).flatMap (fun i =>
      (ipFrom (n - (min (n+1) mx - i - 1)) (min (n+1) mx - i)).map
        (fun x => ((min (n+1) mx - i : Nat) : Int) :: x)) := by rw [ipFrom]

theorem ipFill_nonpos (p r : Int) (h : r ≤ 0) : ipFill p r = [] := by rw [ipFill]; simp [h]

theorem ipFill_big (p r : Int) (hp : 0 < p) (h : p < r) : ipFill p r = p :: ipFill p (r - p) := by
  rw [ipFill]
  have : ¬ r ≤ 0 := by omega
  simp [this, hp, h]

theorem ipFill_small (p r : Int) (hr : 0 < r) (h : ¬ (0 < p ∧ p < r)) : ipFill p r = [r] := by
  rw [ipFill]
  have : ¬ r ≤ 0 := by omega
  simp only [this, if_false, h]

theorem ipSucc_ones : ∀ k : Nat, ipSucc (ones k) = none := by
  intro k
  induction k with
  | zero => rfl
  | succ k ih =>
    have : ones (k + 1) = 1 :: ones k := List.replicate_succ
    rw [this]
    simp [ipSucc, ih]

theorem isIPFrom_sum_nonneg : ∀ (x : List Int) (mx : Int), IsIPFrom mx x → 0 ≤ x.sum := by
  intro x
  induction x with
  | nil => intro _ _; simp
  | cons v x ih =>
    intro mx h
    have := ih v h.2.2
    simp only [List.sum_cons]
    have := h.1
    omega

theorem mem_ipFrom : ∀ (n mx : Nat) (x : List Int),
    x ∈ ipFrom n mx ↔ IsIPFrom mx x ∧ x.sum = n := by
  intro n
  induction n using Nat.strong_induction_on with
  | _ n ih =>
    intro mx x
    cases n with
    | zero =>
      rw [ipFrom_zero]
      cases x with
      | nil => simp [IsIPFrom]
      | cons v x =>
        simp only [List.mem_singleton, reduceCtorEq, false_iff, not_and]
        intro h
        have := isIPFrom_sum_nonneg x v h.2.2
        have := h.1
        simp only [List.sum_cons]
        omega
    | succ n =>
      rw [ipFrom_succ]
      simp only [List.mem_flatMap, List.mem_range, List.mem_map]
      constructor
      · rintro ⟨i, hi, y, hy, rfl⟩
        obtain ⟨h1, h2⟩ := (ih _ (by omega) _ _).mp hy
        refine ⟨⟨by omega, by omega, h1⟩, ?_⟩
        simp only [List.sum_cons, h2]
        omega
      · rintro ⟨h1, h2⟩
        cases x with
        | nil => simp at h2; omega
        | cons v y =>
          obtain ⟨hv1, hv2, hy⟩ := h1
          have hs := isIPFrom_sum_nonneg y v hy
          simp only [List.sum_cons] at h2
          refine ⟨min (n + 1) mx - v.toNat, by omega, y, ?_, ?_⟩
          · apply (ih _ (by omega) _ _).mpr
            have e : ((min (n + 1) mx - (min (n + 1) mx - v.toNat) : Nat) : Int) = v := by omega
            rw [e]
            exact ⟨hy, by omega⟩
          · have e : ((min (n + 1) mx - (min (n + 1) mx - v.toNat) : Nat) : Int) = v := by omega
            rw [e]

theorem ipSucc_gt : ∀ (x y : List Int), ipSucc x = some y → y < x := by
  intro x
  induction x with
  | nil => intro y h; simp [ipSucc] at h
  | cons v x ih =>
    intro y h
    simp only [ipSucc] at h
    cases hp : ipSucc x with
    | some z =>
      rw [hp] at h
      simp only [Option.some.injEq] at h
      subst h
      exact List.cons_lt_cons_iff.mpr (Or.inr ⟨rfl, ih _ hp⟩)
    | none =>
      rw [hp] at h
      simp only at h
      by_cases hn : 1 < v
      · simp only [hn, if_true, Option.some.injEq] at h
        subst h
        exact List.cons_lt_cons_iff.mpr (Or.inl (by omega))
      · simp [hn] at h

/-- the successor chain, with first and last element -/
theorem ipFrom_chain : ∀ (n mx : Nat),
    (ipFrom n mx).IsChain (fun x y => ipSucc x = some y) ∧
    ((n = 0 ∨ 1 ≤ mx) → (ipFrom n mx).head? = some (ipFill mx n) ∧
      (ipFrom n mx).getLast? = some (ones n)) := by
  intro n
  induction n using Nat.strong_induction_on with
  | _ n ih =>
    intro mx
    cases n with
    | zero => simp [ipFrom_zero, ipFill_nonpos, ones]
    | succ n =>
      rw [ipFrom_succ]
      have key := isChain_flatMap_range (fun x y => ipSucc x = some y)
        (fun i => (ipFrom (n - (min (n+1) mx - i - 1)) (min (n+1) mx - i)).map
          (fun x => ((min (n+1) mx - i : Nat) : Int) :: x)) (min (n+1) mx)
        (by
          intro i _
          rw [List.isChain_map]
          exact (ih _ (by omega) _).1.imp (fun x y h => by simp [ipSucc, h]))
        (by
          intro i hi h
          have := ((ih (n - (min (n+1) mx - i - 1)) (by omega) (min (n+1) mx - i)).2
            (Or.inr (by omega))).1
          simp only [List.map_eq_nil_iff] at h
          simp [h] at this)
        (by
          intro i hi x hx y hy
          have h1 := ((ih (n - (min (n+1) mx - i - 1)) (by omega) (min (n+1) mx - i)).2
            (Or.inr (by omega))).2
          have h2 := ((ih (n - (min (n+1) mx - (i + 1) - 1)) (by omega) (min (n+1) mx - (i + 1))).2
            (Or.inr (by omega))).1
          simp only [List.getLast?_map, h1, Option.map_some, Option.mem_def, Option.some.injEq] at hx
          simp only [List.head?_map, h2, Option.map_some, Option.mem_def, Option.some.injEq] at hy
          subst hx hy
          have hv : (1 : Int) < ((min (n+1) mx - i : Nat) : Int) := by omega
          have e1 : ((min (n+1) mx - i : Nat) : Int) - 1 = ((min (n+1) mx - (i + 1) : Nat) : Int) := by omega
          have e2 : ((n - (min (n+1) mx - i - 1) : Nat) : Int) + 1 =
              ((n - (min (n+1) mx - (i + 1) - 1) : Nat) : Int) := by omega
          have ho := ipSucc_ones (n - (min (n+1) mx - i - 1))
          simp only [ipSucc, ho, hv, if_true, e1]
          rw [← e2]; simp [ones])
      refine ⟨key.1, fun hmx => ?_⟩
      have hpos : 0 < min (n + 1) mx := by omega
      obtain ⟨k1, k2⟩ := key.2 hpos
      rw [k1, k2]
      have h1 := (ih (n - (min (n+1) mx - 0 - 1)) (by omega) (min (n+1) mx - 0)).2 (Or.inr (by omega))
      have h2 := (ih (n - (min (n+1) mx - (min (n+1) mx - 1) - 1)) (by omega)
        (min (n+1) mx - (min (n+1) mx - 1))).2 (Or.inr (by omega))
      simp only [List.head?_map, h1.1, List.getLast?_map, h2.2, Option.map_some, Option.some.injEq]
      constructor
      · by_cases hlt : mx < n + 1
        · have e : min (n + 1) mx = mx := by omega
          rw [ipFill_big (mx : Int) ((n + 1 : Nat) : Int) (by omega) (by omega)]
          simp only [e, Nat.sub_zero]
          have : ((n - (mx - 1) : Nat) : Int) = ((n + 1 : Nat) : Int) - (mx : Int) := by omega
          rw [this]
        · have e : min (n + 1) mx = n + 1 := by omega
          rw [ipFill_small (mx : Int) ((n + 1 : Nat) : Int) (by omega) (by omega)]
          simp only [e, Nat.sub_zero]
          rw [ipFill_nonpos _ _ (by omega)]
      · have e : min (n+1) mx - (min (n+1) mx - 1) = 1 := by omega
        simp only [e]
        simp [ones, List.replicate_succ]

theorem ipList_chain (n : Nat) :
    (ipList n).IsChain (fun x y => ipSucc x = some y) ∧
    (ipList n).head? = some (ipFill n n) ∧ (ipList n).getLast? = some (ones n) ∧ ipSucc (ones n) = none := by
  have h := ipFrom_chain n n
  have h2 := h.2 (by omega)
  exact ⟨h.1, h2.1, h2.2, ipSucc_ones n⟩

/-- reverse lexicographic order: every partition is greater than the next one -/
theorem ipList_sorted (n : Nat) : (ipList n).Pairwise (· > ·) :=
  List.isChain_iff_pairwise.mp ((ipList_chain n).1.imp (fun _ _ h => ipSucc_gt _ _ h))

theorem mem_ipList (n : Nat) (x : List Int) : x ∈ ipList n ↔ IsIPFrom n x ∧ x.sum = n :=
  mem_ipFrom n n x

theorem ipList_ne_nil (n : Nat) : ipList n ≠ [] := by
  intro h
  have := (ipList_chain n).2.1
  simp [h] at this


/-! ### refinement: `IntParts.next` computes `ipSucc` -/

theorem ones_succ (k : Nat) : ones (k + 1) = 1 :: ones k := List.replicate_succ

theorem ones_add (a b : Nat) : ones (a + b) = ones a ++ ones b := by
  simp [ones, List.replicate_append_replicate]

theorem sum_ones : ∀ k : Nat, (ones k).sum = k := by
  intro k
  induction k with
  | zero => rfl
  | succ k ih => rw [ones_succ, List.sum_cons, ih]; omega

theorem length_le_sum : ∀ l : List Int, (∀ v ∈ l, 1 ≤ v) → (l.length : Int) ≤ l.sum := by
  intro l
  induction l with
  | nil => intro _; simp
  | cons v l ih =>
    intro h
    have h1 := h v (by simp)
    have h2 := ih (fun w hw => h w (by simp [hw]))
    simp only [List.length_cons, List.sum_cons]
    omega

theorem ipFill_sum (p : Int) : ∀ (f : Nat) (r : Int), 0 ≤ r → r.toNat ≤ f → (ipFill p r).sum = r := by
  intro f
  induction f with
  | zero =>
    intro r h0 hf
    have : r = 0 := by omega
    subst this
    rw [ipFill_nonpos _ _ (Int.le_refl _)]; rfl
  | succ f ih =>
    intro r h0 hf
    by_cases hr : r ≤ 0
    · have : r = 0 := by omega
      subst this
      rw [ipFill_nonpos _ _ (Int.le_refl _)]; rfl
    · by_cases hb : 0 < p ∧ p < r
      · rw [ipFill_big p r hb.1 hb.2, List.sum_cons, ih (r - p) (by omega) (by omega)]
        omega
      · rw [ipFill_small p r (by omega) hb]; simp

theorem ipFill_one : ∀ k : Nat, ipFill 1 (k : Int) = ones k := by
  intro k
  induction k with
  | zero => rw [ipFill_nonpos _ _ (by simp)]; rfl
  | succ k ih =>
    cases k with
    | zero => rw [ipFill_small _ _ (by simp) (by simp)]; rfl
    | succ k =>
      rw [ipFill_big _ _ (by decide) (by omega), ones_succ]
      have : (((k + 1 + 1 : Nat) : Int) - 1) = ((k + 1 : Nat) : Int) := by omega
      rw [this, ih]

theorem ipSucc_append : ∀ (pre y z : List Int), ipSucc y = some z → ipSucc (pre ++ y) = some (pre ++ z) := by
  intro pre
  induction pre with
  | nil => intro y z h; simpa using h
  | cons v pre ih => intro y z h; simp [ipSucc, ih y z h]

theorem ipSucc_shape (pre : List Int) (aq : Int) (k : Nat) (haq : 1 < aq) :
    ipSucc (pre ++ [aq] ++ ones k) = some (pre ++ (aq - 1) :: ipFill (aq - 1) ((k : Int) + 1)) := by
  rw [List.append_assoc]
  apply ipSucc_append
  have ho := ipSucc_ones k
  simp only [List.singleton_append, ipSucc, ho, haq, if_true]
  simp [ones]

/-- the `spread` loop writes the greedy partition of `t` (all but its last entry); the fuel `t` suffices -/
theorem ip_spread (p : Int) (hp : 1 ≤ p) : ∀ (fuel : Nat) (t q : Int) (pa : List Int) (r : Nat),
    q + 1 = pa.length → 1 ≤ t → t ≤ fuel → t ≤ r →
    ∃ (j : Nat) (t' : Int), ipFill p t = List.replicate j p ++ [t'] ∧ 1 ≤ t' ∧ j + 1 ≤ r ∧
      IntParts.spread p fuel q t (pa ++ ones r) =
        .ok (q + j, t', pa ++ List.replicate j p ++ ones (r - j)) := by
  intro fuel
  induction fuel with
  | zero => intro t q pa r _ h1 h2 _; simp at h2; omega
  | succ f ih =>
    intro t q pa r hq h1 hf hr
    unfold IntParts.spread
    by_cases hgt : t > p
    · obtain ⟨r', rfl⟩ : ∃ r', r = r' + 1 := ⟨r - 1, by omega⟩
      have st := set_split pa (ones r') 1 p (q + 1) hq
      obtain ⟨j, t', hfill, ht', hj, hsp⟩ := ih (t - p) (q + 1) (pa ++ [p]) r' (by simp; omega) (by omega)
        (by push_cast at hf; omega) (by push_cast at hr; omega)
      refine ⟨j + 1, t', ?_, ht', by omega, ?_⟩
      · rw [ipFill_big p t (by omega) hgt, hfill]; simp [List.replicate_succ]
      · simp only [hgt, if_true, ones_succ, st, Outcome.bind_ok]
        have e : pa ++ p :: ones r' = pa ++ [p] ++ ones r' := by simp
        rw [e, hsp]
        have e2 : r' + 1 - (j + 1) = r' - j := by omega
        simp [List.replicate_succ, e2]
        omega
    · refine ⟨0, t, ?_, h1, by omega, ?_⟩
      · rw [ipFill_small p t (by omega) (by omega)]; simp
      · simp [hgt]


/-- state invariant: the buffer is `x` followed by ones, `m` is the number of parts of `x = big ++ ones k`, `q` the index
of the last part greater than one -/
def IntParts.Rep (n : Nat) (s : IntParts) (x : List Int) : Prop :=
  x.sum = n ∧ ∃ (big : List Int) (k : Nat), x = big ++ ones k ∧ (∀ v ∈ big, 1 < v) ∧
    s.a = x ++ ones (n - x.length) ∧ s.m = x.length ∧ s.q = (big.length : Int) - 1

/-- the branch `a[q] == 2` -/
theorem IntParts.next_two (s : IntParts) (pre : List Int) (r : Nat) (hq : s.q = pre.length)
    (ha : s.a = pre ++ 2 :: ones r) :
    IntParts.next s = .ok ({ s with a := pre ++ 1 :: ones r, q := s.q - 1, m := s.m + 1 }, true) := by
  unfold IntParts.next
  have h1 : (s.q == -2) = false := by simp [hq]
  have h2 : (s.q == -1) = false := by simp [hq]
  have g := get_split pre (ones r) 2 s.q hq
  have st := set_split pre (ones r) 2 1 s.q hq
  simp [h1, h2, ha, g, st]

/-- the general branch -/
theorem IntParts.next_big (s : IntParts) (pre : List Int) (aq : Int) (k r : Nat) (hq : s.q = pre.length)
    (ha : s.a = pre ++ aq :: ones r) (hm : s.m = (pre.length : Int) + 1 + k) (haq : 3 ≤ aq) (hr : k + 1 ≤ r) :
    ∃ (j : Nat) (t' : Int), ipFill (aq - 1) ((k : Int) + 1) = List.replicate j (aq - 1) ++ [t'] ∧ 1 ≤ t' ∧
      j + 1 ≤ r ∧
      IntParts.next s = .ok (⟨pre ++ (aq - 1) :: (List.replicate j (aq - 1) ++ t' :: ones (r - j - 1)),
        (pre.length : Int) + j + 2, if t' > 1 then (pre.length : Int) + j + 1 else (pre.length : Int) + j⟩, true) := by
  obtain ⟨j, t', hfill, ht', hj, hsp⟩ := ip_spread (aq - 1) (by omega) (((k : Int) + 1).toNat + 1) ((k : Int) + 1)
    s.q (pre ++ [aq - 1]) r (by simp [hq]) (by omega) (by omega) (by omega)
  refine ⟨j, t', hfill, ht', hj, ?_⟩
  unfold IntParts.next
  have h1 : (s.q == -2) = false := by simp [hq]
  have h2 : (s.q == -1) = false := by simp [hq]
  have h3 : (aq == 2) = false := by simp; omega
  have g := get_split pre (ones r) aq s.q hq
  have st := set_split pre (ones r) aq (aq - 1) s.q hq
  have e : pre ++ (aq - 1) :: ones r = pre ++ [aq - 1] ++ ones r := by simp
  have hts : s.m - s.q = (k : Int) + 1 := by omega
  simp only [h1, h2, h3, ha, g, st, Outcome.bind_ok, Bool.false_eq_true, if_false, hts, e, hsp]
  obtain ⟨r', hr'⟩ : ∃ r', r - j = r' + 1 := ⟨r - j - 1, by omega⟩
  have st2 := set_split (pre ++ [aq - 1] ++ List.replicate j (aq - 1)) (ones r') 1 t' (s.q + j + 1)
    (by simp [hq]; omega)
  have e3 : r - j - 1 = r' := by omega
  simp only [hr', ones_succ]
  rw [st2]
  simp [hq]
  omega

theorem IntParts.next_step (n : Nat) (x y : List Int) (hxy : ipSucc x = some y) (s : IntParts)
    (h : IntParts.Rep n s x) : ∃ s', IntParts.next s = .ok (s', true) ∧ IntParts.Rep n s' y := by
  obtain ⟨hsum, big, k, rfl, hbig, ha, hm, hq⟩ := h
  rcases List.eq_nil_or_concat big with rfl | ⟨pre, aq, hcc⟩
  · simp [ipSucc_ones] at hxy
  · rw [List.concat_eq_append] at hcc
    subst hcc
    have haq : 1 < aq := hbig aq (by simp)
    have hpre : ∀ v ∈ pre, 1 < v := fun v hv => hbig v (by simp [hv])
    rw [ipSucc_shape pre aq k haq] at hxy
    simp only [Option.some.injEq] at hxy
    subst hxy
    have hls := length_le_sum pre (fun v hv => by have := hpre v hv; omega)
    simp only [List.sum_append, List.sum_cons, List.sum_nil, sum_ones] at hsum
    have hlen : (pre ++ [aq] ++ ones k).length = pre.length + 1 + k := by simp [ones]; omega
    rw [hlen] at ha hm
    have hq' : s.q = pre.length := by simp at hq; omega
    have ea : pre ++ [aq] ++ ones k ++ ones (n - (pre.length + 1 + k)) = pre ++ aq :: ones (n - pre.length - 1) := by
      have : n - pre.length - 1 = k + (n - (pre.length + 1 + k)) := by omega
      rw [this, ones_add]; simp
    rw [ea] at ha
    by_cases h2 : aq = 2
    · subst h2
      have hy : pre ++ (2 - 1) :: ipFill (2 - 1) ((k : Int) + 1) = pre ++ ones (k + 2) := by
        have := ipFill_one (k + 1)
        push_cast at this
        rw [show (2 : Int) - 1 = 1 from rfl, this, ← ones_succ (k + 1)]
      rw [hy]
      refine ⟨_, IntParts.next_two s pre _ hq' ha, ?_, pre, k + 2, rfl, hpre, ?_, ?_, ?_⟩
      · simp only [List.sum_append, sum_ones]
        push_cast; omega
      · show pre ++ 1 :: ones (n - pre.length - 1) = _
        have e : (pre ++ ones (k + 2)).length = pre.length + (k + 2) := by simp [ones]
        rw [e, List.append_assoc, ← ones_add, ← ones_succ]
        congr 2
        omega
      · show s.m + 1 = _
        simp [ones, hm]; omega
      · show s.q - 1 = _
        omega
    · obtain ⟨j, t', hfill, ht', hj, hnx⟩ := IntParts.next_big s pre aq k (n - pre.length - 1) hq' ha
        (by rw [hm]; push_cast; omega) (by omega) (by omega)
      have hfs := ipFill_sum (aq - 1) (k + 1) ((k : Int) + 1) (by omega) (by omega)
      refine ⟨_, hnx, ?_, ?_⟩
      · simp only [List.sum_append, List.sum_cons, hfs]; omega
      · rw [hfill]
        by_cases ht1 : t' > 1
        · refine ⟨pre ++ (aq - 1) :: (List.replicate j (aq - 1) ++ [t']), 0, by simp [ones], ?_, ?_, ?_, ?_⟩
          · intro v hv
            simp only [List.mem_append, List.mem_cons, List.mem_replicate, List.mem_nil_iff, or_false] at hv
            rcases hv with hv | hv | hv | hv
            · exact hpre v hv
            · omega
            · omega
            · omega
          · show pre ++ (aq - 1) :: (List.replicate j (aq - 1) ++ t' :: ones (n - pre.length - 1 - j - 1)) = _
            have : (pre ++ (aq - 1) :: (List.replicate j (aq - 1) ++ [t'])).length = pre.length + j + 2 := by
              simp; omega
            rw [this]
            have : n - pre.length - 1 - j - 1 = n - (pre.length + j + 2) := by omega
            rw [this]; simp
          · show (pre.length : Int) + j + 2 = _
            simp; omega
          · show (if t' > 1 then (pre.length : Int) + j + 1 else (pre.length : Int) + j) = _
            simp [ht1]; omega
        · have ht1' : t' = 1 := by omega
          subst ht1'
          refine ⟨pre ++ (aq - 1) :: List.replicate j (aq - 1), 1, by simp [ones], ?_, ?_, ?_, ?_⟩
          · intro v hv
            simp only [List.mem_append, List.mem_cons, List.mem_replicate] at hv
            rcases hv with hv | hv | hv
            · exact hpre v hv
            · omega
            · omega
          · show pre ++ (aq - 1) :: (List.replicate j (aq - 1) ++ 1 :: ones (n - pre.length - 1 - j - 1)) = _
            have : (pre ++ (aq - 1) :: (List.replicate j (aq - 1) ++ [1])).length = pre.length + j + 2 := by
              simp; omega
            rw [this]
            have : n - pre.length - 1 - j - 1 = n - (pre.length + j + 2) := by omega
            rw [this]; simp
          · show (pre.length : Int) + j + 2 = _
            simp; omega
          · show (if (1 : Int) > 1 then (pre.length : Int) + j + 1 else (pre.length : Int) + j) = _
            simp; omega


theorem IntParts.next_dead (s : IntParts) (h : s.q = -1) :
    ∃ s', IntParts.next s = .ok (s', false) ∧ s'.q = -1 := by
  refine ⟨s, ?_, h⟩
  unfold IntParts.next
  simp [h]

theorem IntParts.init_eq (n : Nat) :
    IntParts.init (n : Int) =
      .ok ⟨if n = 0 then [] else (n : Int) :: ones (n - 1), if n = 0 then 0 else 1, -2⟩ := by
  unfold IntParts.init
  cases n with
  | zero => simp
  | succ k =>
    have h0 : (((k + 1 : Nat) : Int) == 0) = false := by simp; omega
    have h1 : ¬ (((k + 1 : Nat) : Int) < 0) := by omega
    have ht : ((k + 1 : Nat) : Int).toNat = k + 1 := by omega
    have st : set ((1 : Int) :: List.replicate k 1) 0 ((k + 1 : Nat) : Int) =
        .ok (((k + 1 : Nat) : Int) :: List.replicate k 1) := by simp [set]
    simp only [h0, h1, ht, List.replicate_succ, st, Bool.false_eq_true, if_false, Outcome.bind_ok,
      Outcome.pure_eq]
    simp [ones]

theorem IntParts.rep_ones_dead (n : Nat) (s : IntParts) (h : IntParts.Rep n s (ones n)) : s.q = -1 := by
  obtain ⟨_, big, k, hx, hbig, _, _, hq⟩ := h
  cases big with
  | nil => simpa using hq
  | cons v big =>
    exfalso
    have hv := hbig v (by simp)
    cases n with
    | zero => simp [ones] at hx
    | succ n =>
      rw [ones_succ] at hx
      simp only [List.cons_append, List.cons.injEq] at hx
      omega

theorem IntParts.enumerates_lemma (n : Int) (hn : 0 ≤ n) :
    ∃ s0, IntParts.init n = .ok s0 ∧ ∀ bound, (ipList n.toNat).length < bound →
      ∃ s', outputs IntParts.it bound s0 = (ipList n.toNat, s', .exhausted) ∧
        ∀ k, extras IntParts.it k s' = .ok (List.replicate k none) := by
  obtain ⟨k, rfl⟩ : ∃ k : Nat, n = (k : Int) := ⟨n.toNat, by omega⟩
  rw [Int.toNat_natCast]
  refine ⟨_, IntParts.init_eq k, fun bound hb => ?_⟩
  obtain ⟨hchain, hhead, hlast, hl⟩ := ipList_chain k
  obtain ⟨s', h1, _, h3⟩ := enumerates_aux IntParts.it (IntParts.Rep k) (fun s => s.q = -1)
    (fun x y => ipSucc x = some y)
    (⟨if k = 0 then [] else (k : Int) :: ones (k - 1), if k = 0 then 0 else 1, -2⟩ : IntParts)
    (ipList k) hchain
    (by
      rintro s x hr
      refine ⟨s, ?_, hr⟩
      obtain ⟨_, big, j, _, _, ha, hm, _⟩ := hr
      have h1 : ¬ (s.m < 0 ∨ s.m.toNat > s.a.length) := by
        rw [hm, ha]; simp
      simp only [IntParts.it, IntParts.value, h1, if_false]
      rw [hm, ha]; simp)
    (fun hnil => absurd hnil (ipList_ne_nil _))
    (by
      intro x hx
      rw [hhead] at hx
      simp only [Option.mem_def, Option.some.injEq] at hx
      subst hx
      cases k with
      | zero =>
        refine ⟨⟨[], 0, -1⟩, by simp [IntParts.it, IntParts.next], ?_⟩
        rw [ipFill_nonpos _ _ (by simp)]
        exact ⟨rfl, [], 0, rfl, by simp, rfl, rfl, rfl⟩
      | succ k =>
        rw [ipFill_small _ _ (by omega) (by omega)]
        have hne : ¬ (k + 1 = 0) := by omega
        simp only [hne, if_false]
        refine ⟨⟨((k + 1 : Nat) : Int) :: ones (k + 1 - 1), 1, if k = 0 then -1 else 0⟩, ?_, ?_⟩
        · simp only [IntParts.it, IntParts.next]
          simp [get]
          split <;> split <;> omega
        · cases k with
          | zero => exact ⟨by simp, [], 1, rfl, by simp, rfl, rfl, rfl⟩
          | succ k =>
            refine ⟨by simp, [((k + 1 + 1 : Nat) : Int)], 0, rfl, ?_, ?_, rfl, ?_⟩
            · intro v hv; simp at hv; omega
            · simp [ones]
            · simp)
    (fun x y hxy s hs => IntParts.next_step k x y hxy s hs)
    (by
      intro x hx s hs
      rw [hlast] at hx
      simp only [Option.mem_def, Option.some.injEq] at hx
      subst hx
      exact IntParts.next_dead s (IntParts.rep_ones_dead k s hs))
    (fun s hs => IntParts.next_dead s hs) bound hb
  exact ⟨s', h1, h3⟩


/-- `IsIPFrom mx` = non-increasing, all parts in `1..mx` -/
theorem isIPFrom_iff : ∀ (x : List Int) (mx : Int), IsIPFrom mx x ↔
    (∀ v ∈ x, 1 ≤ v ∧ v ≤ mx) ∧ x.Pairwise (· ≥ ·) := by
  intro x
  induction x with
  | nil => intro mx; simp [IsIPFrom]
  | cons u x ih =>
    intro mx
    simp only [IsIPFrom, ih, List.mem_cons, forall_eq_or_imp, List.pairwise_cons]
    constructor
    · rintro ⟨h1, h2, h3, h4⟩
      exact ⟨⟨⟨h1, h2⟩, fun w hw => ⟨(h3 w hw).1, by have := (h3 w hw).2; omega⟩⟩,
        fun w hw => (h3 w hw).2, h4⟩
    · rintro ⟨⟨⟨h1, h2⟩, h3⟩, h4, h5⟩
      exact ⟨h1, h2, fun w hw => ⟨(h3 w hw).1, h4 w hw⟩, h5⟩

theorem le_sum_of_pos : ∀ (x : List Int), (∀ v ∈ x, 1 ≤ v) → ∀ v ∈ x, v ≤ x.sum := by
  intro x
  induction x with
  | nil => intro _ v hv; simp at hv
  | cons u x ih =>
    intro h v hv
    have hx : ∀ w ∈ x, 1 ≤ w := fun w hw => h w (by simp [hw])
    have hs := length_le_sum x hx
    simp only [List.sum_cons]
    simp only [List.mem_cons] at hv
    rcases hv with rfl | hv
    · omega
    · have := ih hx v hv
      have := h u (by simp)
      omega

/-- the family: the non-increasing lists of positive integers with sum `n` -/
theorem mem_ipList_iff (n : Nat) (x : List Int) :
    x ∈ ipList n ↔ x.Pairwise (· ≥ ·) ∧ (∀ v ∈ x, 1 ≤ v) ∧ x.sum = n := by
  rw [mem_ipList, isIPFrom_iff]
  constructor
  · rintro ⟨⟨h1, h2⟩, h3⟩
    exact ⟨h2, fun v hv => (h1 v hv).1, h3⟩
  · rintro ⟨h1, h2, h3⟩
    exact ⟨⟨fun v hv => ⟨h2 v hv, by have := le_sum_of_pos x h2 v hv; omega⟩, h1⟩, h3⟩


end Iter
