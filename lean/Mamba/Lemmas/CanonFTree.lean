import Mamba.Lemmas.CanonFGens
import Mamba.Lemmas.CanonFTreeSplit
import Mamba.Lemmas.CanonFTreePath
import Mamba.Lemmas.CanonFClassDef
import Mamba.Lemmas.CanonFClassSplit
import Mamba.Lemmas.CanonFClassDeage
import Mamba.Lemmas.CanonFClassRefine
/-!
# The faithful search only visits nodes of the unpruned tree of `Model/IR.lean`

For every level `L ≤ age` of the depth-first search the colouring "bin index of the position of `v` with respect to the
dividers of age `≤ L`" (`lvCol`) is the colouring of the IR node reached by individualising the vertices chosen so far
(`TreeUpTo`). `deage` pops a level, `splitBin` on the first non-singleton bin is `IR.individualise` on the target cell,
the refinement (when it does not report "worse") is `IR.refine` (`RefineMatch`, proved in `CanonFTreeLoop.lean`).
-/
namespace CanonF

/-- the colouring of level `L`: bin index with respect to the dividers of age `≤ L` -/
def lvCol (n : Nat) (op : OP) (L : Int) : Array Nat :=
  IR.tab n (fun v => binIdx (oldDivs (L + 1) op) (op.order.toList.idxOf v))

/-- the IR state `s` is the (refined) node of level `L` -/
structure LvOK (n : Nat) (op : OP) (L : Int) (s : IR.St) : Prop where
  col : s.c = lvCol n op L
  cells : s.cells = (oldDivs (L + 1) op).length
  work : s.work = []

theorem idxOf_of_getElem? {o : List Nat} (hnd : o.Nodup) {q v : Nat} (h : o[q]? = some v) : o.idxOf v = q := by
  obtain ⟨hq, e⟩ := List.getElem?_eq_some_iff.1 h
  rw [← e]; exact hnd.idxOf_getElem q hq

theorem getElem?_idxOf_of_mem {o : List Nat} {v : Nat} (h : v ∈ o) : o[o.idxOf v]? = some v := by
  have hi := List.idxOf_lt_length_of_mem h
  rw [List.getElem?_eq_getElem hi, List.getElem_idxOf hi]

theorem mem_oldDivs {op : OP} {a : Int} {d : Nat} (h : d ∈ oldDivs a op) : ∃ x : Int, (d, x) ∈ divs op ∧ x < a := by
  unfold oldDivs at h
  obtain ⟨⟨d', x⟩, hm, rfl⟩ := List.mem_map.1 h
  obtain ⟨h1, h2⟩ := List.mem_filter.1 hm
  exact ⟨x, h1, by simpa using h2⟩

/-- an operation that only moves vertices between positions not separated by a divider of age `≤ L` and keeps these
dividers keeps the colouring of level `L` -/
theorem lvCol_of_rearr {n : Nat} {op op' : OP} {L : Int} (hp : PartInv n op) (hp' : PartInv n op')
    (hdiv : oldDivs (L + 1) op' = oldDivs (L + 1) op)
    (hord : ∀ p v, op'.order.toList[p]? = some v →
      ∃ q, op.order.toList[q]? = some v ∧ ∀ d ∈ oldDivs (L + 1) op, (d ≤ q ↔ d ≤ p)) :
    lvCol n op' L = lvCol n op L := by
  unfold lvCol
  apply tab_congr
  intro v hv
  rw [hdiv]
  have hmem' : v ∈ op'.order.toList := hp'.perm.mem_iff.2 (List.mem_range.2 hv)
  obtain ⟨q, hq, hsep⟩ := hord _ v (getElem?_idxOf_of_mem hmem')
  have hnd : op.order.toList.Nodup := hp.perm.nodup_iff.2 List.nodup_range
  rw [idxOf_of_getElem? hnd hq]
  apply binIdx_congr
  intro d hd
  exact (hsep d hd).symm

theorem LvOK.of_rearr {n : Nat} {op op' : OP} {L : Int} {s : IR.St} (h : LvOK n op L s)
    (hp : PartInv n op) (hp' : PartInv n op')
    (hdiv : oldDivs (L + 1) op' = oldDivs (L + 1) op)
    (hord : ∀ p v, op'.order.toList[p]? = some v →
      ∃ q, op.order.toList[q]? = some v ∧ ∀ d ∈ oldDivs (L + 1) op, (d ≤ q ↔ d ≤ p)) : LvOK n op' L s :=
  ⟨by rw [lvCol_of_rearr hp hp' hdiv hord]; exact h.col, by rw [hdiv]; exact h.cells, h.work⟩

/-- at the top level (all dividers have age `≤ L`) the level colouring is the colouring of the partition -/
theorem lvCol_top {n : Nat} {op : OP} {L : Int} (hp : PartInv n op) (ha : AgeInv op) (hL : op.age ≤ L) :
    lvCol n op L = colOf n op ∧ oldDivs (L + 1) op = op.binDividers.toList := by
  have hall : oldDivs (L + 1) op = op.binDividers.toList :=
    oldDivs_all hp.wfBd hp.wfAges hp.lenAges (by intro x hx; have := ha.le x hx; omega)
  refine ⟨?_, hall⟩
  unfold lvCol colOf
  apply tab_congr
  intro v hv
  rw [hall]
  have hmem : v ∈ op.order.toList := hp.perm.mem_iff.2 (List.mem_range.2 hv)
  rw [cellOf_order hp (getElem?_idxOf_of_mem hmem)]

/-- the node of the top level matches the partition -/
theorem LvOK.toMatch {n : Nat} {op : OP} {L : Int} {s : IR.St} (h : LvOK n op L s) (hp : PartInv n op)
    (ha : AgeInv op) (hL : op.age ≤ L) (hbt : op.binsToCheck.len = 0) : Match n op s := by
  obtain ⟨e1, e2⟩ := lvCol_top hp ha hL
  refine ⟨by rw [h.col, e1], by rw [h.cells, e2, Sl.length_toList _ hp.wfBd], by rw [h.work]; exact List.nodup_nil, ?_⟩
  intro x
  rw [h.work]
  have : op.binsToCheck.toList = [] := by simp [Sl.toList, hbt]
  rw [this]
  simp

theorem LvOK.ofMatch {n : Nat} {op : OP} {L : Int} {s : IR.St} (h : Match n op s) (hp : PartInv n op)
    (ha : AgeInv op) (hL : op.age ≤ L) (hbt : op.binsToCheck.len = 0) : LvOK n op L s := by
  obtain ⟨e1, e2⟩ := lvCol_top hp ha hL
  refine ⟨by rw [h.col, e1], by rw [h.cells, e2, Sl.length_toList _ hp.wfBd], ?_⟩
  have hnil : op.binsToCheck.toList = [] := by simp [Sl.toList, hbt]
  apply List.eq_nil_iff_forall_not_mem.2
  intro x hx
  have := (h.work x).1 hx
  rw [hnil] at this
  cases this

theorem mem_bd_of_oldDivs {op : OP} {a : Int} {d : Nat} (h : d ∈ oldDivs a op) : d ∈ op.binDividers.toList := by
  obtain ⟨x, hx, _⟩ := mem_oldDivs h
  exact (List.of_mem_zip hx).1

/-- `deage` keeps the levels below the current age -/
theorem lv_deage {n : Nat} {op op' : OP} (hp : PartInv n op) (ha : AgeInv op) (hage : 0 < op.age)
    (hd : deage op = .ok op') {L : Nat} (hL : (L : Int) < op.age) {s : IR.St} (h : LvOK n op L s) :
    LvOK n op' L s := by
  obtain ⟨d1, _, _, d4, _⟩ := deage_inv hp ha hage hd
  apply h.of_rearr hp d1 (oldDivs_of_filter d4 _ (by omega))
  intro p v hv
  obtain ⟨q, hq, hs⟩ := deage_rearr hp ha hage hd p v hv
  refine ⟨q, hq, fun d hdm => ?_⟩
  obtain ⟨x, hx, hlt⟩ := mem_oldDivs hdm
  exact hs d x hx (by omega)

/-- `splitBin` keeps all levels up to the current age -/
theorem lv_split {n : Nat} {nb : Nbrs} {cb fl : Sl Nat} {op op' : OP} {i : Nat} {w : Bool}
    (hp : PartInv n op) (ha : AgeInv op) (hi : i < n) (hns : NonSingleton op.binDividers.toList i)
    (hs : splitBin nb cb fl op i = .ok (w, op')) {L : Nat} (hL : (L : Int) ≤ op.age) {s : IR.St}
    (h : LvOK n op L s) : LvOK n op' L s := by
  obtain ⟨q1, _, _, q4, _⟩ := splitBin_inv hp ha hi hns hs
  obtain ⟨r1, _⟩ := splitBin_rearr hp ha hi hns hs
  apply h.of_rearr hp q1 (oldDivs_of_ne q4 _ (by omega))
  intro p v hv
  obtain ⟨q, hq, hsep⟩ := r1 p v hv
  exact ⟨q, hq, fun d hdm => hsep d (mem_bd_of_oldDivs hdm)⟩

/-- the refinement keeps the levels below the current age -/
theorem lv_refine (hst : StablePerm) {n : Nat} {nb : Nbrs} {cb fl : Sl Nat} {opts : Options} {op op' : OP}
    {sc sc' : Scratch} {w : Bool} (hp : PartInv n op) (ha : AgeInv op) (hsc : ScratchOK n sc)
    (hr : refine nb cb fl opts op sc = .ok (w, op', sc')) {L : Nat} (hL : (L : Int) < op.age) {s : IR.St}
    (h : LvOK n op L s) : LvOK n op' L s := by
  obtain ⟨r1, _, _, r4, _⟩ := refine_inv hst hp ha hsc hr
  obtain ⟨x1, _⟩ := refine_rearr hst hp ha hsc hr
  apply h.of_rearr hp r1 (oldDivs_of_lt r4 _ (by omega))
  intro p v hv
  obtain ⟨q, hq, hsep⟩ := x1 p v hv
  exact ⟨q, hq, fun d hdm => hsep d (mem_bd_of_oldDivs hdm)⟩

/-! ## the tree invariant -/

/-- the levels `0..k` are the nodes of a path of length `k` from the root `r` -/
def TreeUpTo (n : Nat) (nb : Nbrs) (rf : Nat) (r : IR.St) (op : OP) (k : Nat) : Prop :=
  ∃ vs : List Nat, vs.length = k ∧ IR.IsPath (irG n nb) rf r vs ∧
    ∀ L, L ≤ k → LvOK n op (L : Int) (IR.nodeAt (irG n nb) rf r (vs.take L))

theorem TreeUpTo.mono {n : Nat} {nb : Nbrs} {rf : Nat} {r : IR.St} {op : OP} {k j : Nat}
    (h : TreeUpTo n nb rf r op k) (hj : j ≤ k) : TreeUpTo n nb rf r op j := by
  obtain ⟨vs, hl, hpth, hlv⟩ := h
  refine ⟨vs.take j, by rw [List.length_take]; omega, IR.isPath_take vs r j hpth, ?_⟩
  intro L hL
  rw [List.take_take, Nat.min_eq_left hL]
  exact hlv L (by omega)

theorem TreeUpTo.transfer {n : Nat} {nb : Nbrs} {rf : Nat} {r : IR.St} {op op' : OP} {k : Nat}
    (h : TreeUpTo n nb rf r op k) (ht : ∀ L, L ≤ k → ∀ s, LvOK n op (L : Int) s → LvOK n op' (L : Int) s) :
    TreeUpTo n nb rf r op' k := by
  obtain ⟨vs, hl, hpth, hlv⟩ := h
  exact ⟨vs, hl, hpth, fun L hL => ht L hL _ (hlv L hL)⟩

/-- at a node: all levels up to the age are tree nodes, the work list is empty -/
def TQN (n : Nat) (nb : Nbrs) (rf : Nat) (r : IR.St) (op : OP) : Prop :=
  ∃ k : Nat, (k : Int) = op.age ∧ TreeUpTo n nb rf r op k ∧ op.binsToCheck.len = 0

/-- at all times: the levels below the age are tree nodes -/
def TQA (n : Nat) (nb : Nbrs) (rf : Nat) (r : IR.St) (op : OP) : Prop :=
  op.age = 0 ∨ ∃ k : Nat, (k : Int) + 1 = op.age ∧ TreeUpTo n nb rf r op k

/-- before a refinement: the partition is the initial state `s0`, or the individualised (not yet refined) child of the
node of the level below -/
def TQS (n : Nat) (nb : Nbrs) (rf : Nat) (s0 : IR.St) (op : OP) : Prop :=
  BtcInv op ∧
  ((op.age = 0 ∧ Match n op s0) ∨
    ∃ (k : Nat) (vs : List Nat) (t v : Nat), (k : Int) + 1 = op.age ∧ vs.length = k ∧
      IR.IsPath (irG n nb) rf (IR.refine (irG n nb) rf s0) vs ∧
      (∀ L, L ≤ k → LvOK n op (L : Int) (IR.nodeAt (irG n nb) rf (IR.refine (irG n nb) rf s0) (vs.take L))) ∧
      IR.target (irG n nb) (IR.nodeAt (irG n nb) rf (IR.refine (irG n nb) rf s0) vs) = some t ∧
      v ∈ IR.cellMembers (irG n nb) (IR.nodeAt (irG n nb) rf (IR.refine (irG n nb) rf s0) vs).c t ∧
      Match n op (IR.individualise (irG n nb) (IR.nodeAt (irG n nb) rf (IR.refine (irG n nb) rf s0) vs) t v))

/-- the refinement, when it does not report "worse", is `IR.refine` on the colouring (proved in `CanonFTreeLoop.lean`) -/
def RefineMatch : Prop :=
  ∀ {n : Nat} {nb : Nbrs} {cb fl : Sl Nat} {opts : Options} {op op' : OP} {sc sc' : Scratch} {s : IR.St},
    PartInv n op → AgeInv op → ScratchOK n sc → sc.timesSeen.len = n → BtcInv op → NbOK nb n → Match n op s →
    refine nb cb fl opts op sc = .ok (false, op', sc') →
    ∀ rf, 3 * n + 3 ≤ rf → Match n op' (IR.refine (irG n nb) rf s) ∧ op'.binsToCheck.len = 0

theorem irG_wf {n : Nat} {nb : Nbrs} (hnb : NbOK nb n) : IR.WF (irG n nb) where
  lt := fun v _ w hw => (hnb.lt v w hw).2
  nodup := fun v _ => hnb.nodup v
  symm := fun u v _ _ h => hnb.symm u v h
  irrefl := fun v _ => hnb.irrefl v

theorem LvOK.frame {n : Nat} {op op' : OP} {L : Int} {s : IR.St} (h : LvOK n op L s)
    (e1 : op'.order = op.order) (e2 : op'.binDividers = op.binDividers) (e3 : op'.binAges = op.binAges) :
    LvOK n op' L s := by
  have hd : ∀ a, oldDivs a op' = oldDivs a op := by intro a; unfold oldDivs divs; rw [e2, e3]
  exact ⟨by rw [h.col]; unfold lvCol; rw [hd, e1], by rw [hd]; exact h.cells, h.work⟩

/-- the order of a leaf is (the inverse of) a leaf of the unpruned tree below `r` -/
def TreeLeaf (n : Nat) (nb : Nbrs) (rf : Nat) (r : IR.St) (o : List Nat) : Prop :=
  IR.tab n (fun v => o.idxOf v) ∈ IR.leaves (irG n nb) rf n r

set_option maxHeartbeats 1000000 in
/-- the tree invariant is carried by every operation of the search -/
theorem treeOrdQ (hst : StablePerm) (hrm : RefineMatch) {n : Nat} {nb : Nbrs} {rf : Nat} {s0 : IR.St}
    (hnb : NbOK nb n) (hrf : 3 * n + 3 ≤ rf)
    (hA : IR.InvA (irG n nb) (IR.refine (irG n nb) rf s0)) (hD : IR.InvD (irG n nb) (IR.refine (irG n nb) rf s0)) :
    OrdQ n nb (TQA n nb rf (IR.refine (irG n nb) rf s0)) (TQN n nb rf (IR.refine (irG n nb) rf s0))
      (TQS n nb rf s0) (TreeLeaf n nb rf (IR.refine (irG n nb) rf s0)) (fun _ => True) where
  na := by
    rintro op ⟨k, hk, ht, _⟩
    cases k with
    | zero => exact Or.inl (by simpa using hk.symm)
    | succ k => exact Or.inr ⟨k, by simpa using hk, ht.mono (Nat.le_succ k)⟩
  sa := by
    rintro op ⟨_, h | ⟨k, vs, t, v, hk, hl, hpth, hlv, _⟩⟩
    · exact Or.inl h.1
    · exact Or.inr ⟨k, hk, vs, hl, hpth, hlv⟩
  frame := by
    rintro op op' e1 e2 e3 e4 e5 _ ⟨k, hk, ht, hbt⟩
    exact ⟨k, by rw [e5]; exact hk, ht.transfer (fun L _ s h => h.frame e1 e2 e3), by rw [e4]; exact hbt⟩
  deage := by
    intro op op' hp ha hage hq hd
    obtain ⟨_, _, d3, _, d5, _⟩ := deage_inv hp ha hage hd
    rcases hq with h0 | ⟨k, hk, ht⟩
    · omega
    · exact ⟨k, by omega, ht.transfer (fun L hL s h => lv_deage hp ha hage hd (by omega) h), d5⟩
  split := by
    rintro cb fl op op' i w hp ha hi hns hfb ⟨k, hk, ⟨vs, hl, hpth, hlv⟩, hbt⟩ hs
    have htake : vs.take k = vs := List.take_of_length_le (by omega)
    have hnode := hlv k (Nat.le_refl k)
    rw [htake] at hnode
    have hm : Match n op _ := hnode.toMatch hp ha (by omega) hbt
    obtain ⟨v, _, hvm, hm'⟩ := splitBin_match hp ha hi hns hm hbt hs
    have htgt := target_match (nb := nb) hp hm hi hns hfb
    obtain ⟨_, _, q3, _⟩ := splitBin_inv hp ha hi hns hs
    have hlv' : ∀ L, L ≤ k → LvOK n op' (L : Int) (IR.nodeAt (irG n nb) rf (IR.refine (irG n nb) rf s0) (vs.take L)) :=
      fun L hL => lv_split hp ha hi hns hs (by omega) (hlv L hL)
    refine ⟨fun _ => ?_, fun _ => ?_⟩
    · exact ⟨splitBin_btcInv hp ha hi hns hbt hs, Or.inr ⟨k, vs, _, v, by omega, hl, hpth, hlv', htgt, hvm, hm'⟩⟩
    · exact Or.inr ⟨k, by omega, vs, hl, hpth, hlv'⟩
  refine := by
    rintro cb fl opts op op' sc sc' w hp ha hsc htl ⟨hb, hq⟩ hr
    obtain ⟨r1, r2, r3, _⟩ := refine_inv hst hp ha hsc hr
    rcases hq with ⟨h0, hm⟩ | ⟨k, vs, t, v, hk, hl, hpth, hlv, htgt, hvm, hm⟩
    · refine ⟨fun hw => ?_, fun _ => Or.inl (by omega)⟩
      subst hw
      obtain ⟨hm', hbt'⟩ := hrm hp ha hsc htl hb hnb hm hr rf hrf
      refine ⟨0, by omega, ⟨[], rfl, trivial, ?_⟩, hbt'⟩
      intro L hL
      have : L = 0 := by omega
      subst this
      exact LvOK.ofMatch hm' r1 r2 (by omega) hbt'
    · have hlv' : ∀ L, L ≤ k →
          LvOK n op' (L : Int) (IR.nodeAt (irG n nb) rf (IR.refine (irG n nb) rf s0) (vs.take L)) :=
        fun L hL => lv_refine hst hp ha hsc hr (by omega) (hlv L hL)
      refine ⟨fun hw => ?_, fun _ => Or.inr ⟨k, by omega, vs, hl, hpth, hlv'⟩⟩
      subst hw
      obtain ⟨hm', hbt'⟩ := hrm hp ha hsc htl hb hnb hm hr rf hrf
      refine ⟨k + 1, by omega, ⟨vs ++ [v], by simp [hl], (IR.isPath_snoc vs _ v).2 ⟨hpth, t, htgt, hvm⟩, ?_⟩, hbt'⟩
      intro L hL
      rcases Nat.lt_or_ge L (k + 1) with hlt | hge
      · rw [List.take_append_of_le_length (by omega)]
        exact hlv' L (by omega)
      · have : L = k + 1 := by omega
        subst this
        rw [List.take_of_length_le (by simp [hl]), IR.nodeAt_snoc vs _ v t hpth htgt]
        exact LvOK.ofMatch hm' r1 r2 (by omega) hbt'
  leaf := by
    rintro op hp ha ⟨k, hk, ⟨vs, hl, hpth, hlv⟩, hbt⟩ hleaf
    have htake : vs.take k = vs := List.take_of_length_le (by omega)
    have hnode := hlv k (Nat.le_refl k)
    rw [htake] at hnode
    have hm : Match n op _ := hnode.toMatch hp ha (by omega) hbt
    have htn := target_none (nb := nb) hp hm hleaf
    obtain ⟨hc, _, _⟩ := IR.path_cells (irG_wf hnb) (rf := rf) vs _ hA hD hpth
    have hlen : vs.length ≤ n := by
      have := hm.cells
      rw [hleaf] at this
      omega
    have := IR.leaf_of_path vs _ n hpth htn hlen
    unfold TreeLeaf
    rw [hm.col] at this
    have e : colOf n op = IR.tab n (fun v => op.order.toList.idxOf v) := by
      unfold colOf
      apply tab_congr
      intro v hv
      have hmem : v ∈ op.order.toList := hp.perm.mem_iff.2 (List.mem_range.2 hv)
      rw [cellOf_order hp (getElem?_idxOf_of_mem hmem)]
      have hi := List.idxOf_lt_length_of_mem hmem
      have holen : op.order.toList.length = n := by rw [Sl.length_toList _ hp.wfOrder, hp.lenOrder]
      exact binIdx_eq_of_single _ hp.sorted n (ts_leaf_dividers hp hleaf) _ (by omega)
    rw [← e]
    exact this
  rel := fun _ _ _ _ _ _ => trivial

end CanonF
