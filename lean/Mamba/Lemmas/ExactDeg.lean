import Mamba.Lemmas.ExactBits
namespace Search
open GraphSpec GSearch

/-- degrees in a one-vertex extension -/
theorem deg_ext_old {g : G} (S : List Nat) {v : Nat} (hv : v < g.n) :
    (ext g S).deg v = g.deg v + (if v ∈ S then 1 else 0) := by
  unfold G.deg G.nbrs
  have hn : (ext g S).n = g.n + 1 := rfl
  rw [hn, List.range_succ, List.filter_append, List.length_append]
  have h1 : (List.range g.n).filter (fun u => (ext g S).adj v u) = (List.range g.n).filter (fun u => g.adj v u) := by
    apply List.filter_congr
    intro u hu
    have hu' : u < g.n := List.mem_range.1 hu
    have e1 : (v == g.n) = false := by simp [Nat.ne_of_lt hv]
    have e2 : (u == g.n) = false := by simp [Nat.ne_of_lt hu']
    simp [ext, hv, hu', e1, e2]
  rw [h1]
  congr 1
  have e1 : (v == g.n) = false := by simp [Nat.ne_of_lt hv]
  by_cases hm : v ∈ S
  · simp [ext, hv, e1, hm]
  · simp [ext, hv, e1, hm]

theorem deg_ext_new {g : G} {S : List Nat} (hnd : S.Nodup) (hS : ∀ v ∈ S, v < g.n) :
    (ext g S).deg g.n = S.length := by
  unfold G.deg G.nbrs
  have hn : (ext g S).n = g.n + 1 := rfl
  rw [hn, List.range_succ, List.filter_append, List.length_append]
  have h2 : ([g.n].filter fun u => (ext g S).adj g.n u) = [] := by simp [ext]
  rw [h2, List.length_nil, Nat.add_zero]
  have h1 : (List.range g.n).filter (fun u => (ext g S).adj g.n u) = (List.range g.n).filter (fun u => decide (u ∈ S)) := by
    apply List.filter_congr
    intro u hu
    have hu' : u < g.n := List.mem_range.1 hu
    simp [ext, hu']
  rw [h1]
  apply List.Perm.length_eq
  refine (List.perm_ext_iff_of_nodup (List.Nodup.filter _ List.nodup_range) hnd).2 ?_
  intro a
  simp only [List.mem_filter, List.mem_range, decide_eq_true_eq]
  exact ⟨fun h => h.2, fun h => ⟨hS a h, h⟩⟩

/-- the stored degree sequence is the degree sequence of the graph -/
def DG.DegOK (g : DG) : Prop := ∀ v, v < g.nv → g.degs[v]? = some ((g.toG.deg v : Nat) : Int)

theorem Built.degOK {g : DG} (h : Built g) : g.DegOK := by
  induction h with
  | one =>
    intro v hv
    have : v = 0 := by
      have : v < 1 := hv
      omega
    subst this
    decide
  | @add P g2 l hb hnd hl ha ih =>
    intro v hv
    have hs := hb.sized
    have hsz := addVertex_sized ha hs
    rw [addVertex_toG hs hnd hl ha]
    unfold DG.addVertex at ha
    simp only at ha
    split at ha
    · cases ha
    · split at ha
      · rename_i e d heq
        cases ha
        obtain ⟨-, -, -, f4, f5⟩ := addVertex_fold_spec (tri P.nv) l _ _ hnd heq
        simp only at f4 f5
        have fs := addVertex_fold_sizes _ _ _ _ heq
        have hds : d.size = P.nv := by rw [fs.2, hs.degs]
        have hv' : v < P.nv + 1 := hv
        show (d.push (l.length : Int))[v]? = _
        by_cases hvn : v < P.nv
        · rw [Array.getElem?_push_lt (by omega)]
          have hd : d[v]? = some d[v] := Array.getElem?_eq_getElem (by omega)
          rw [← hd, deg_ext_old (g := P.toG) l hvn]
          by_cases hm : v ∈ l
          · rw [f4 v hm, ih v hvn]; simp [hm]
          · rw [f5 v hm, ih v hvn]; simp [hm]
        · have : v = P.nv := by omega
          subst this
          rw [← hds]
          simp only [Array.getElem?_push_size]
          rw [hds]
          have := deg_ext_new (g := P.toG) hnd hl
          rw [show P.toG.n = P.nv from rfl] at this
          rw [this]
      · cases ha
      · cases ha

end Search
