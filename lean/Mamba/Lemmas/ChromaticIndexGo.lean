import Mamba.Model.ChromaticIndexGo
import Mamba.Lemmas.DsaturC8
import Mamba.Lemmas.CliqueColourLine
import Mamba.Lemmas.C06Line3
/-! Correctness of the faithful model of `graph.ChromaticIndex`: C06's `LineGraphDense` + the DSATUR model + the byte
array loop. -/
namespace CliqueColour
open GraphSpec

theorem ofSpec_sound (g : G) : Construct.GraphI.Sound (Construct.ofSpec g) g :=
  ⟨rfl, rfl, fun _ _ _ _ => rfl, fun _ _ => rfl, rfl⟩

theorem families_lineGraph_eq (g : G) : Families.lineGraph g = lineGraph g := by
  rw [Construct.lineGraph_eq]
  refine Construct.G_ext rfl fun u v => ?_
  rw [lineGraph_adj]
  simp only [Families.symm]
  have e : Construct.share (g.edges.getD u (0, 0)) (g.edges.getD v (0, 0)) =
      share (g.edges.getD u (0, 0)) (g.edges.getD v (0, 0)) := rfl
  have e' : Construct.share (g.edges.getD v (0, 0)) (g.edges.getD u (0, 0)) =
      share (g.edges.getD u (0, 0)) (g.edges.getD v (0, 0)) := by
    rw [show Construct.share (g.edges.getD v (0, 0)) (g.edges.getD u (0, 0)) =
      share (g.edges.getD v (0, 0)) (g.edges.getD u (0, 0)) from rfl, share_comm]
  rw [e, e', Bool.or_self]

/-- the byte written for the pair `p` -/
def ciByte (g : G) (col : List Int) (p : Nat × Nat) : Nat :=
  if g.adj p.1 p.2 then ((col.getD (g.edges.idxOf p) 0 + 1) % 256).toNat else 0

theorem ciFill_spec (g : G) (col : List Int) (hl : col.length = g.edges.length) :
    ∀ (rest P : List (Nat × Nat)) (ci : Nat) (acc : List Nat), Construct.pairs g.n = P ++ rest →
      acc.reverse = P.map (ciByte g col) → ci = (P.filter fun p => g.adj p.1 p.2).length →
      ciFill g col rest ci acc = .ok ((Construct.pairs g.n).map (ciByte g col)) := by
  have hes := Construct.edges_eq_filter g
  intro rest
  induction rest with
  | nil =>
    intro P ci acc hP hacc _
    simp only [ciFill]
    rw [hacc, hP]; simp
  | cons p rest ih =>
    intro P ci acc hP hacc hci
    obtain ⟨i, j⟩ := p
    have hP' : Construct.pairs g.n = (P ++ [(i, j)]) ++ rest := by rw [hP]; simp
    simp only [ciFill]
    by_cases hadj : g.adj i j = true
    · rw [if_pos hadj]
      have hedges : g.edges = (P.filter fun p => g.adj p.1 p.2) ++ (i, j) :: (rest.filter fun p => g.adj p.1 p.2) := by
        rw [hes, hP, List.filter_append, List.filter_cons]
        simp [hadj]
      have hnd := nodup_edges g
      rw [hedges] at hnd
      have hnotin : (i, j) ∉ (P.filter fun p => g.adj p.1 p.2) := by
        intro hm
        exact (List.nodup_append.1 hnd).2.2 _ hm _ List.mem_cons_self rfl
      have hidx : g.edges.idxOf (i, j) = ci := by
        rw [hedges, List.idxOf_append_of_notMem hnotin, List.idxOf_cons_self, hci]; simp
      have hcilt : ci < col.length := by
        rw [hl, hedges, hci]; simp
      rw [getElem?_eq_some_getD hcilt 0]
      simp only
      refine ih (P ++ [(i, j)]) (ci + 1) _ hP' ?_ ?_
      · rw [List.reverse_cons, hacc, List.map_append]
        simp [ciByte, hadj, hidx]
      · rw [List.filter_append, hci]; simp [hadj]
    · rw [if_neg hadj]
      refine ih (P ++ [(i, j)]) ci _ hP' ?_ ?_
      · rw [List.reverse_cons, hacc, List.map_append]
        simp [ciByte, hadj]
      · rw [List.filter_append, hci]
        have : (g.adj i j) = false := by simpa using hadj
        simp [this]

theorem eidx_eq_pos {u v : Nat} (h : u < v) : eidx u v = Construct.pos (u, v) := by
  unfold eidx Construct.pos
  rw [if_pos h]
  rfl

theorem eidx_opair (u v : Nat) (h : u ≠ v) : eidx u v = Construct.pos (opair u v) := by
  rcases Nat.lt_or_gt_of_ne h with hlt | hgt
  · rw [eidx_eq_pos hlt, opair, Nat.min_eq_left (by omega), Nat.max_eq_right (by omega)]
  · rw [eidx_comm, eidx_eq_pos hgt, opair, Nat.min_eq_right (by omega), Nat.max_eq_left (by omega)]

theorem pairs_getD_pos {n : Nat} {p : Nat × Nat} (hp : p ∈ Construct.pairs n) :
    Construct.pos p < (Construct.pairs n).length ∧ (Construct.pairs n)[Construct.pos p]? = some p := by
  obtain ⟨k, hk, he⟩ := List.getElem_of_mem hp
  have := Construct.pos_getElem_pairs n k hk
  rw [he] at this
  rw [this]
  exact ⟨hk, by rw [List.getElem?_eq_getElem hk, he]⟩

theorem map_getD_pos (g : G) (col : List Int) {p : Nat × Nat} (hp : p ∈ Construct.pairs g.n) :
    ((Construct.pairs g.n).map (ciByte g col)).getD (Construct.pos p) 0 = ciByte g col p := by
  obtain ⟨_, h2⟩ := pairs_getD_pos hp
  rw [List.getD_eq_getElem?_getD, List.getElem?_map, h2]
  rfl

theorem chromaticIndexGo_spec {g : G} (hw : g.WF) (h256 : chromaticIndexSpec g < 256) :
    ∃ b, chromaticIndexGo g = .ok ((chromaticIndexSpec g : Int), some b) ∧
      isProperEdgeColouring g b (chromaticIndexSpec g) = true ∧ usesExactly1 b (chromaticIndexSpec g) = true := by
  obtain ⟨d, hd, _, habs⟩ := Construct.lineGraphDense_ok (Construct.ofSpec g) g (ofSpec_sound g)
  rw [families_lineGraph_eq] at habs
  obtain ⟨col, hcn, hlen, hrange, hproper, huses⟩ := chromaticNumberGo_spec (lineGraph_wf g)
  rw [lineGraph_n] at hlen
  have hfill := ciFill_spec g col hlen (Construct.pairs g.n) [] 0 [] (by simp) (by simp) (by simp)
  refine ⟨(Construct.pairs g.n).map (ciByte g col), ?_, ?_, ?_⟩
  · unfold chromaticIndexGo
    rw [hd]
    simp only
    rw [habs, hcn]
    simp only
    have hne : (((chromaticNumberSpec (lineGraph g) : Nat) : Int) == -1) = false := by
      rw [beq_eq_false_iff_ne]; omega
    rw [hne]
    simp only [Bool.false_eq_true, if_false, hfill]
    rfl
  · -- the verified checker accepts the array
    have hχ : chromaticIndexSpec g = chromaticNumberSpec (lineGraph g) := rfl
    have hbyte : ∀ u v, g.adj u v = true → u ≠ v →
        ((Construct.pairs g.n).map (ciByte g col)).getD (eidx u v) 0 =
          (col.getD (g.edges.idxOf (opair u v)) 0 + 1).toNat ∧
        g.edges.idxOf (opair u v) < g.edges.length ∧
        0 ≤ col.getD (g.edges.idxOf (opair u v)) 0 ∧
        col.getD (g.edges.idxOf (opair u v)) 0 < (chromaticIndexSpec g : Int) := by
      intro u v hadj hne
      have hmem := opair_mem hw hadj
      have hmemp : opair u v ∈ Construct.pairs g.n := by
        rw [Construct.edges_eq_filter] at hmem
        exact (List.mem_filter.1 hmem).1
      have hadjp : g.adj (opair u v).1 (opair u v).2 = true := (mem_edges.1 hmem).2.2
      have hidx := List.idxOf_lt_length_of_mem hmem
      have hr := hrange (g.edges.idxOf (opair u v)) (by rw [lineGraph_n]; exact hidx)
      rw [eidx_opair u v hne, map_getD_pos g col hmemp]
      refine ⟨?_, hidx, hr.1, hr.2⟩
      unfold ciByte
      rw [if_pos hadjp]
      congr 1
      rw [hχ] at h256
      omega
    simp only [isProperEdgeColouring, Bool.and_eq_true, beq_iff_eq, List.all_eq_true, List.mem_range]
    refine ⟨⟨?_, ?_⟩, ?_⟩
    · rw [List.length_map, Construct.length_pairs]; rfl
    · intro v hv u hu
      by_cases hadj : g.adj u v = true
      · obtain ⟨hb, _, h0, hlt⟩ := hbyte u v hadj (by omega)
        simp only [hadj, if_true, Bool.and_eq_true, decide_eq_true_eq]
        rw [hb]; omega
      · have hf : g.adj u v = false := by simpa using hadj
        simp only [hf, Bool.false_eq_true, if_false, beq_iff_eq]
        have hmemp : (u, v) ∈ Construct.pairs g.n := Construct.mem_pairs.2 ⟨hu, hv⟩
        rw [eidx_eq_pos hu, map_getD_pos g col hmemp]
        simp [ciByte, hf]
    · intro u hu v hv w hw'
      by_cases hc : (v != w && g.adj u v && g.adj u w) = true
      · simp only [Bool.and_eq_true, bne_iff_ne, ne_eq] at hc
        obtain ⟨⟨hvw, ha1⟩, ha2⟩ := hc
        have hne1 : u ≠ v := by intro e; subst e; rw [hw.irrefl] at ha1; cases ha1
        have hne2 : u ≠ w := by intro e; subst e; rw [hw.irrefl] at ha2; cases ha2
        obtain ⟨hb1, hi1, h01, _⟩ := hbyte u v ha1 hne1
        obtain ⟨hb2, hi2, h02, _⟩ := hbyte u w ha2 hne2
        simp only [Bool.or_eq_true, Bool.not_eq_true', bne_iff_ne, ne_eq]
        right
        rw [hb1, hb2]
        -- the two edges are adjacent vertices of the line graph
        have hm1 := opair_mem hw ha1
        have hm2 := opair_mem hw ha2
        have hpne : opair u v ≠ opair u w := by
          simp only [opair, ne_eq, Prod.mk.injEq, not_and]
          intro h1' h2'; omega
        have e1 : g.edges.getD (g.edges.idxOf (opair u v)) (0, 0) = opair u v := by
          rw [List.getD_eq_getElem?_getD, List.getElem?_eq_getElem hi1, Option.getD_some, List.getElem_idxOf]
        have e2 : g.edges.getD (g.edges.idxOf (opair u w)) (0, 0) = opair u w := by
          rw [List.getD_eq_getElem?_getD, List.getElem?_eq_getElem hi2, Option.getD_some, List.getElem_idxOf]
        have hidxne : g.edges.idxOf (opair u v) ≠ g.edges.idxOf (opair u w) := by
          intro h; apply hpne; rw [← e1, ← e2, h]
        have hladj : (lineGraph g).adj (g.edges.idxOf (opair u v)) (g.edges.idxOf (opair u w)) = true := by
          rw [lineGraph_adj, e1, e2]
          simp only [hi1, hi2, decide_true, Bool.and_true, Bool.and_eq_true, bne_iff_ne, ne_eq, hidxne,
            not_false_eq_true, true_and]
          simp only [share, opair, Bool.or_eq_true, beq_iff_eq]
          omega
        have := hproper _ _ (by rw [lineGraph_n]; exact hi1) (by rw [lineGraph_n]; exact hi2) hladj
        omega
      · simp only [Bool.or_eq_true, Bool.not_eq_true']
        left
        simpa using hc
  · simp only [usesExactly1, List.all_eq_true, List.mem_range, List.contains_iff_mem]
    intro x hx
    obtain ⟨a, ha, hax⟩ := huses x (by
      have : x < chromaticNumberSpec (lineGraph g) := hx
      omega)
    rw [lineGraph_n] at ha
    have hmem : g.edges[a] ∈ g.edges := List.getElem_mem ha
    have hmemp : g.edges[a] ∈ Construct.pairs g.n := by
      have : g.edges[a] ∈ (Construct.pairs g.n).filter fun p => g.adj p.1 p.2 := by
        rw [← Construct.edges_eq_filter]; exact hmem
      exact (List.mem_filter.1 this).1
    have hadjp : g.adj (g.edges[a]).1 (g.edges[a]).2 = true := by
      have := (mem_edges (u := (g.edges[a]).1) (v := (g.edges[a]).2)).1 hmem
      exact this.2.2
    refine List.mem_map.2 ⟨g.edges[a], hmemp, ?_⟩
    unfold ciByte
    rw [if_pos hadjp]
    have hidx : g.edges.idxOf g.edges[a] = a := (nodup_edges g).idxOf_getElem a ha
    rw [hidx, hax]
    have : x < 256 := by omega
    omega

end CliqueColour
