import Mamba.Lemmas.CanonFInv
/-!
# `NewOrderedPartition` and `(*CanonicalOrderedPartition).Reset` of `Model/CanonF.lean`

* `classInner_spec`, `classLoop_spec`, `identLoop_spec` — total correctness of the loops (index-level description of the
  written slices; everything outside the written range is kept). `classLoop` sorts every class inside `order`
  (`sortNat`), so the resulting order is `(cls.map sortNat).flatten`; `binsToCheck` is `[0, …, len(binDividers) - 1]`.
* `InitSpec n vc op` — the observable initial state (`ordL`, `bdL` = vertex order / dividers determined by the classes);
  `new_spec`, `reset_spec` show that both functions establish it; `InitSpec.partInv` derives `PartInv`, `AgeInv`.
* the interface theorems `newOrderedPartition_inv`, `reset_eq_new`, `reset_inv`, `reset_panics_small_n/m`.
-/
namespace CanonF

/-- valid vertex classes: `none` (Go nil), or non-empty classes whose concatenation is a permutation of `0..n-1` -/
def ClassesOK (n : Nat) : Classes → Prop
  | none => True
  | some cls => cls.flatten.Perm (List.range n) ∧ ∀ c ∈ cls, c ≠ []

/-! ## running sums -/

/-- running sums `off + x₀, off + x₀ + x₁, …` -/
def psums (off : Nat) : List Nat → List Nat
  | [] => []
  | x :: xs => (off + x) :: psums (off + x) xs

theorem scanl_tail_eq_psums (l : List Nat) (off : Nat) : (l.scanl (· + ·) off).tail = psums off l := by
  induction l generalizing off with
  | nil => simp [psums]
  | cons x xs ih =>
    have := ih (off + x)
    cases hs : List.scanl (· + ·) (off + x) xs with
    | nil => cases xs <;> simp [List.scanl_cons] at hs
    | cons y ys =>
      have hy : y = off + x := by cases xs <;> simp [List.scanl_cons] at hs <;> omega
      rw [hs] at this
      simp only [List.scanl_cons, List.tail_cons, psums, hs]
      simp only [List.tail_cons] at this
      rw [← this, hy]

@[simp] theorem length_psums (off : Nat) (l : List Nat) : (psums off l).length = l.length := by
  induction l generalizing off with
  | nil => rfl
  | cons x xs ih => simp [psums, ih]

theorem psums_ge (off : Nat) (l : List Nat) : ∀ d ∈ psums off l, off ≤ d := by
  induction l generalizing off with
  | nil => simp [psums]
  | cons x xs ih =>
    intro d hd
    simp only [psums, List.mem_cons] at hd
    rcases hd with rfl | hd
    · omega
    · have := ih _ d hd; omega

theorem psums_sorted (off : Nat) (l : List Nat) (hp : ∀ x ∈ l, 0 < x) : (off :: psums off l).Pairwise (· < ·) := by
  induction l generalizing off with
  | nil => simp [psums]
  | cons x xs ih =>
    have hx : 0 < x := hp x (List.mem_cons_self ..)
    have h1 := ih (off + x) (fun y hy => hp y (List.mem_cons_of_mem _ hy))
    rw [psums, List.pairwise_cons]
    refine ⟨?_, h1⟩
    intro a ha
    rcases List.mem_cons.1 ha with rfl | ha
    · omega
    · have := psums_ge _ _ a ha; omega

theorem psums_getLast? (off : Nat) (l : List Nat) (hne : l ≠ []) : (psums off l).getLast? = some (off + l.sum) := by
  induction l generalizing off with
  | nil => exact absurd rfl hne
  | cons x xs ih =>
    cases xs with
    | nil => simp [psums]
    | cons y ys =>
      have := ih (off + x) (by simp)
      rw [psums, psums, List.getLast?_cons_cons, ← psums, this]
      simp [Nat.add_assoc]

theorem binIdx_cons (d : Nat) (l : List Nat) (p : Nat) :
    binIdx (d :: l) p = binIdx l p + if d ≤ p then 1 else 0 := by
  simp [binIdx, List.countP_cons]

theorem binIdx_eq_zero (l : List Nat) (p : Nat) (h : ∀ d ∈ l, p < d) : binIdx l p = 0 := by
  unfold binIdx
  rw [List.countP_eq_zero]
  intro d hd
  have := h d hd
  simp; omega

/-! ## slices -/

theorem Sl.toList_eq_of {α : Type} (s : Sl α) (l : List α) (hl : l.length = s.len)
    (h : ∀ i, i < s.len → s.data[i]? = l[i]?) : s.toList = l := by
  apply List.ext_getElem?
  intro i
  rw [Sl.getElem?_toList]
  by_cases hi : i < s.len
  · rw [if_pos hi, h i hi]
  · rw [if_neg hi]; symm; apply List.getElem?_eq_none; omega

/-! ## the loops -/

theorem classInner_spec (i : Nat) : ∀ (c : List Nat) (order inCell : Sl Nat) (index : Nat),
    order.WF → inCell.WF → index + c.length ≤ order.len → (∀ v ∈ c, v < inCell.len) →
    ∃ o' ic', forList (classLoopInner i) c (order, inCell, index) = .ok (o', ic', index + c.length) ∧
      o'.len = order.len ∧ o'.data.size = order.data.size ∧ ic'.len = inCell.len ∧ ic'.data.size = inCell.data.size ∧
      (∀ p, o'.data[p]? = if index ≤ p ∧ p < index + c.length then c[p - index]? else order.data[p]?) ∧
      (∀ v, ic'.data[v]? = if v ∈ c then some i else inCell.data[v]?) := by
  intro c
  induction c with
  | nil =>
    intro order inCell index _ _ _ _
    refine ⟨order, inCell, rfl, rfl, rfl, rfl, rfl, ?_, ?_⟩
    · intro p; simp; intro h1 h2; omega
    · intro v; simp
  | cons x xs ih =>
    intro order inCell index hwo hwi hlen hv
    simp only [List.length_cons] at hlen
    have hs1 := Sl.set_ok_of_lt hwo (show index < order.len by omega) x
    have hs2 := Sl.set_ok_of_lt hwi (hv x (List.mem_cons_self ..)) i
    obtain ⟨o', ic', hr, l1, z1, l2, z2, d1, d2⟩ := ih ⟨order.data.setIfInBounds index x, order.len⟩
      ⟨inCell.data.setIfInBounds x i, inCell.len⟩ (index + 1) (Sl.set_wf hwo hs1) (Sl.set_wf hwi hs2)
      (by simp only; omega) (fun v hv' => hv v (List.mem_cons_of_mem _ hv'))
    refine ⟨o', ic', ?_, l1, ?_, l2, ?_, ?_, ?_⟩
    · rw [forList]
      simp only [classLoopInner, hs1, hs2]
      rw [hr, List.length_cons, show index + 1 + xs.length = index + (xs.length + 1) by omega]
    · rw [z1]; simp
    · rw [z2]; simp
    · intro p
      rw [d1, Sl.set_data hs1]
      by_cases hp : p = index
      · subst hp
        rw [if_neg (by omega), if_pos rfl, if_pos (by simp)]
        simp
      · rw [if_neg hp]
        by_cases hq : index + 1 ≤ p ∧ p < index + 1 + xs.length
        · rw [if_pos hq, if_pos (by simp only [List.length_cons]; omega)]
          rw [show p - index = (p - (index + 1)) + 1 by omega, List.getElem?_cons_succ]
        · rw [if_neg hq, if_neg (by simp only [List.length_cons]; omega)]
    · intro v
      rw [d2, Sl.set_data hs2]
      by_cases h1 : v ∈ xs
      · simp [h1]
      · by_cases h2 : v = x
        · simp [h2]
        · simp [h1, h2]

/-! sorting a class -/

theorem length_sortNat (l : List Nat) : (sortNat l).length = l.length := List.length_mergeSort l

theorem sortNat_perm (l : List Nat) : (sortNat l).Perm l := List.mergeSort_perm l _

theorem mem_sortNat {l : List Nat} {v : Nat} : v ∈ sortNat l ↔ v ∈ l := (sortNat_perm l).mem_iff

theorem flatten_sorted_perm (cs : List (List Nat)) : (cs.map sortNat).flatten.Perm cs.flatten := by
  induction cs with
  | nil => simp
  | cons c cs ih => simp only [List.map_cons, List.flatten_cons]; exact (sortNat_perm c).append ih

theorem length_flatten_sorted (cs : List (List Nat)) : (cs.map sortNat).flatten.length = cs.flatten.length :=
  (flatten_sorted_perm cs).length_eq

theorem extract_toList_eq (a : Array Nat) (lo : Nat) (c : List Nat) (h : lo + c.length ≤ a.size)
    (hd : ∀ p, lo ≤ p → p < lo + c.length → a[p]? = c[p - lo]?) : (a.extract lo (lo + c.length)).toList = c := by
  apply List.ext_getElem?
  intro i
  rw [Array.getElem?_toList, Array.getElem?_extract]
  by_cases hi : i < c.length
  · rw [if_pos (by omega), hd (lo + i) (by omega) (by omega)]
    congr 1; omega
  · rw [if_neg (by omega)]; symm; apply List.getElem?_eq_none; omega

theorem classLoop_spec (n : Nat) : ∀ (cs : List (List Nat)) (i index : Nat) (order inCell bd : Sl Nat),
    order.WF → inCell.WF → bd.WF → order.len = n → inCell.len = n → index + cs.flatten.length ≤ n →
    (∀ v ∈ cs.flatten, v < n) → cs.flatten.Nodup → i + cs.length ≤ bd.len →
    ∃ o' ic' bd', classLoop cs i (order, inCell, bd, index) = .ok (o', ic', bd', index + cs.flatten.length) ∧
      o'.len = n ∧ o'.data.size = order.data.size ∧ ic'.len = n ∧ ic'.data.size = inCell.data.size ∧
      bd'.len = bd.len ∧ bd'.data.size = bd.data.size ∧
      (∀ p, o'.data[p]? = if index ≤ p ∧ p < index + cs.flatten.length then (cs.map sortNat).flatten[p - index]?
        else order.data[p]?) ∧
      (∀ v, v ∉ cs.flatten → ic'.data[v]? = inCell.data[v]?) ∧
      (∀ q v, (cs.map sortNat).flatten[q]? = some v →
        ic'.data[v]? = some (i + binIdx (psums index (cs.map List.length)) (index + q))) ∧
      (∀ j, bd'.data[j]? = if i ≤ j ∧ j < i + cs.length then (psums index (cs.map List.length))[j - i]? else bd.data[j]?) := by
  intro cs
  induction cs with
  | nil =>
    intro i index order inCell bd _ _ _ ho hi _ _ _ _
    refine ⟨order, inCell, bd, rfl, ho, rfl, hi, rfl, rfl, rfl, ?_, ?_, ?_, ?_⟩
    · intro p; simp; intro h1 h2; omega
    · intro v _; rfl
    · intro q v h; simp at h
    · intro j; simp; intro h1 h2; omega
  | cons c cs ih =>
    intro i index order inCell bd hwo hwi hwb ho hi hlen hv hnd hbl
    simp only [List.flatten_cons, List.length_append] at hlen
    simp only [List.flatten_cons] at hv hnd
    rw [List.nodup_append] at hnd
    obtain ⟨_, hnd2, hdisj⟩ := hnd
    simp only [List.length_cons] at hbl
    obtain ⟨o1, ic1, hr1, l1, z1, l2, z2, d1, d2⟩ := classInner_spec i c order inCell index hwo hwi (by omega)
      (fun v hv' => by rw [hi]; exact hv v (List.mem_append_left _ hv'))
    have hwo0 : order.len ≤ order.data.size := hwo
    have hwi1 : ic1.WF := by unfold Sl.WF at *; omega
    -- the sort
    have hext : (o1.data.extract index (index + c.length)).toList = c :=
      extract_toList_eq _ _ _ (by omega) (fun p h1 h2 => by rw [d1, if_pos ⟨h1, h2⟩])
    have hsort : o1.sortRange index (index + c.length) =
        .ok ⟨Sl.writeList o1.data index (sortNat c), o1.len⟩ := by
      rw [Sl.sortRange, if_pos ⟨by omega, by omega⟩, hext]
    have hwo2 : (⟨Sl.writeList o1.data index (sortNat c), o1.len⟩ : Sl Nat).WF := by
      show o1.len ≤ (Sl.writeList o1.data index (sortNat c)).size
      rw [Sl.size_writeList]; omega
    have d1' : ∀ p, (Sl.writeList o1.data index (sortNat c))[p]? =
        if index ≤ p ∧ p < index + c.length then (sortNat c)[p - index]? else order.data[p]? := by
      intro p
      rw [Sl.getElem?_writeList, length_sortNat, d1]
      by_cases h : index ≤ p ∧ p < index + c.length
      · have h' : index ≤ p ∧ p < index + c.length ∧ p < o1.data.size := ⟨h.1, h.2, by omega⟩
        simp only [if_pos h, if_pos h']
      · have h' : ¬ (index ≤ p ∧ p < index + c.length ∧ p < o1.data.size) := by omega
        simp only [if_neg h, if_neg h']
    have hs := Sl.set_ok_of_lt hwb (show i < bd.len by omega) (index + c.length)
    obtain ⟨o', ic', bd', hr, l3, z3, l4, z4, l5, z5, e1, e2, e3, e4⟩ := ih (i + 1) (index + c.length)
      ⟨Sl.writeList o1.data index (sortNat c), o1.len⟩ ic1
      ⟨bd.data.setIfInBounds i (index + c.length), bd.len⟩ hwo2 hwi1 (Sl.set_wf hwb hs) (by simp only; omega) (by omega)
      (by omega) (fun v hv' => hv v (List.mem_append_right _ hv')) hnd2 (by simp only; omega)
    simp only [Sl.size_writeList] at z3
    have hlc : (sortNat c).length = c.length := length_sortNat c
    refine ⟨o', ic', bd', ?_, l3, by omega, l4, by omega, l5, ?_, ?_, ?_, ?_, ?_⟩
    · rw [classLoop]
      simp only [hr1, hsort, hs]
      rw [hr, List.flatten_cons, List.length_append, Nat.add_assoc]
    · rw [z5]; simp
    · intro p
      rw [e1, d1', List.flatten_cons, List.length_append, List.map_cons, List.flatten_cons, List.getElem?_append, hlc]
      by_cases h1 : index + c.length ≤ p ∧ p < index + c.length + cs.flatten.length
      · rw [if_pos h1, if_pos (by omega), if_neg (by omega)]
        congr 1; omega
      · rw [if_neg h1]
        by_cases h2 : index ≤ p ∧ p < index + c.length
        · rw [if_pos h2, if_pos (by omega), if_pos (by omega)]
        · rw [if_neg h2, if_neg (by omega)]
    · intro v hvn
      rw [List.flatten_cons, List.mem_append, not_or] at hvn
      rw [e2 v hvn.2, d2, if_neg hvn.1]
    · intro q v hq
      rw [List.map_cons, List.flatten_cons, List.getElem?_append, hlc] at hq
      rw [List.map_cons, psums, binIdx_cons]
      by_cases h1 : q < c.length
      · rw [if_pos h1] at hq
        have hvc : v ∈ c := mem_sortNat.1 (List.mem_of_getElem? hq)
        have hvn : v ∉ cs.flatten := fun h => hdisj v hvc v h rfl
        rw [e2 v hvn, d2, if_pos hvc, if_neg (by omega),
          binIdx_eq_zero _ _ (fun d hd => by have := psums_ge _ _ d hd; omega)]
        rfl
      · rw [if_neg h1] at hq
        rw [e3 _ v hq, if_pos (by omega)]
        congr 1
        rw [show index + c.length + (q - c.length) = index + q by omega]; omega
    · intro j
      rw [e4, Sl.set_data hs, List.map_cons, psums, List.length_cons]
      by_cases h1 : i + 1 ≤ j ∧ j < i + 1 + cs.length
      · rw [if_pos h1, if_pos (by omega), show j - i = (j - (i + 1)) + 1 by omega, List.getElem?_cons_succ]
      · rw [if_neg h1]
        by_cases h2 : j = i
        · subst h2
          rw [if_pos rfl, if_pos (by omega)]; simp
        · rw [if_neg h2, if_neg (by omega)]

/-- `order[i] = i` for `i < n` -/
theorem identLoop_spec (n : Nat) (order : Sl Nat) (hw : order.WF) (hn : n ≤ order.len) :
    ∃ o', identLoop n order = .ok o' ∧ o'.len = order.len ∧ o'.data.size = order.data.size ∧
      ∀ p, o'.data[p]? = if p < n then some p else order.data[p]? := by
  obtain ⟨r, hr, hP⟩ := forRange_total (fun i (o : Sl Nat) => o.set i i)
    (fun i (o : Sl Nat) => o.WF ∧ o.len = order.len ∧ o.data.size = order.data.size ∧
      ∀ p, o.data[p]? = if p < i then some p else order.data[p]?)
    n 0 order ⟨hw, rfl, rfl, by intro p; simp⟩
    (by
      intro i o _ hi ⟨w, l, z, d⟩
      have hs := Sl.set_ok_of_lt w (show i < o.len by omega) i
      refine ⟨_, hs, Sl.set_wf w hs, by rw [Sl.set_len hs]; exact l, by rw [Sl.set_cap hs]; exact z, ?_⟩
      intro p
      rw [Sl.set_data hs, d]
      by_cases h1 : p = i
      · subst h1; simp
      · rw [if_neg h1]
        by_cases h2 : p < i
        · rw [if_pos h2, if_pos (by omega)]
        · rw [if_neg h2, if_neg (by omega)])
  obtain ⟨_, l, z, d⟩ := hP
  exact ⟨r, hr, l, z, by simpa using d⟩

/-! ## the initial state -/

/-- the initial vertex order -/
def ordL (n : Nat) : Classes → List Nat
  | none => List.range n
  | some cls => (cls.map sortNat).flatten

/-- the initial dividers -/
def bdL (n : Nat) : Classes → List Nat
  | none => [n]
  | some cls => psums 0 (cls.map List.length)

/-- the observable state after `NewOrderedPartition` / `Reset` -/
structure InitSpec (n : Nat) (vc : Classes) (op : OP) : Prop where
  wfOrder : op.order.WF
  wfBd : op.binDividers.WF
  wfAges : op.binAges.WF
  wfInCell : op.inCell.WF
  lenOrder : op.order.len = n
  lenInCell : op.inCell.len = n
  order : op.order.toList = ordL n vc
  bd : op.binDividers.toList = bdL n vc
  ages : op.binAges.toList = List.replicate (bdL n vc).length 0
  btc : op.binsToCheck.toList = (List.range (bdL n vc).length).map Int.ofNat
  value : op.value.len = 0
  age : op.age = 0
  spl : op.spl = 0
  inCell : ∀ p v, (ordL n vc)[p]? = some v → op.inCell.toList[v]? = some (binIdx (bdL n vc) p)

theorem length_le_flatten (cls : List (List Nat)) (h : ∀ c ∈ cls, c ≠ []) : cls.length ≤ cls.flatten.length := by
  induction cls with
  | nil => simp
  | cons c cs ih =>
    have h1 : c ≠ [] := h c (List.mem_cons_self ..)
    have h2 := ih (fun d hd => h d (List.mem_cons_of_mem _ hd))
    have : 0 < c.length := List.length_pos_iff.2 h1
    simp only [List.flatten_cons, List.length_append, List.length_cons]; omega

theorem classLoop_init {n : Nat} {cls : List (List Nat)} (hn : 0 < n) (hc : ClassesOK n (some cls))
    (od ic bd : Array Nat) (h1 : n ≤ od.size) (h2 : n ≤ ic.size) (h3 : n ≤ bd.size) :
    cls.length ≤ n ∧ 0 < cls.length ∧
    ∃ o' ic' bd' idx, classLoop cls 0 (⟨od, n⟩, ⟨ic, n⟩, ⟨bd, cls.length⟩, 0) = .ok (o', ic', bd', idx) ∧
      o'.len = n ∧ o'.data.size = od.size ∧ ic'.len = n ∧ ic'.data.size = ic.size ∧
      bd'.len = cls.length ∧ bd'.data.size = bd.size ∧
      o'.toList = (cls.map sortNat).flatten ∧ bd'.toList = psums 0 (cls.map List.length) ∧
      (∀ p v, (cls.map sortNat).flatten[p]? = some v →
        ic'.toList[v]? = some (binIdx (psums 0 (cls.map List.length)) p)) := by
  obtain ⟨hperm, hne⟩ := hc
  have hfl : cls.flatten.length = n := by rw [hperm.length_eq]; simp
  have hcl : cls.length ≤ n := by rw [← hfl]; exact length_le_flatten cls hne
  have hpos : 0 < cls.length := by
    cases cls with
    | nil => simp at hfl; omega
    | cons _ _ => simp
  have hlt : ∀ v ∈ cls.flatten, v < n := fun v hv => by simpa using hperm.mem_iff.1 hv
  have hnd : cls.flatten.Nodup := hperm.nodup_iff.2 List.nodup_range
  obtain ⟨o', ic', bd', hr, l1, z1, l2, z2, l3, z3, e1, _, e3, e4⟩ := classLoop_spec n cls 0 0 ⟨od, n⟩ ⟨ic, n⟩ ⟨bd, cls.length⟩
    h1 h2 (show cls.length ≤ bd.size by omega) rfl rfl (by omega) hlt hnd (by simp)
  simp only at l1 z1 l2 z2 l3 z3 e1 e4
  refine ⟨hcl, hpos, o', ic', bd', _, hr, l1, z1, l2, z2, l3, z3, ?_, ?_, ?_⟩
  · apply Sl.toList_eq_of _ _ (by rw [length_flatten_sorted]; omega)
    intro i hi
    rw [e1, if_pos (by omega)]; simp
  · apply Sl.toList_eq_of _ _ (by simp; omega)
    intro i hi
    rw [e4, if_pos (by omega)]; simp
  · intro p v hp
    have hv : v < n := hlt v ((flatten_sorted_perm cls).mem_iff.1 (List.mem_of_getElem? hp))
    rw [Sl.getElem?_toList, if_pos (by omega), e3 p v hp]
    simp

theorem initSpec_classesFacts {n : Nat} {vc : Classes} (hn : 0 < n) (hc : ClassesOK n vc) :
    (ordL n vc).Perm (List.range n) ∧ (0 :: bdL n vc).Pairwise (· < ·) ∧ (bdL n vc).getLast? = some n := by
  cases vc with
  | none => simp [ordL, bdL]; omega
  | some cls =>
    obtain ⟨hperm, hne⟩ := hc
    have hfl : cls.flatten.length = n := by rw [hperm.length_eq]; simp
    refine ⟨(flatten_sorted_perm cls).trans hperm, ?_, ?_⟩
    · apply psums_sorted
      intro x hx
      obtain ⟨c, hc, rfl⟩ := List.mem_map.1 hx
      exact List.length_pos_iff.2 (hne c hc)
    · simp only [bdL]
      rw [psums_getLast?, ← List.length_flatten, hfl]; simp
      intro h; simp at h; subst h; simp at hfl; omega

theorem allBins_size (b : Sl Int) : (allBins b).data.size = b.data.size := by simp [allBins]

theorem allBins_data (b : Sl Int) (hw : b.len ≤ b.data.size) (i : Nat) (hi : i < b.len) :
    (allBins b).data[i]? = some (i : Int) := by
  have h2 : i < b.data.size := by omega
  simp only [allBins]
  rw [Array.getElem?_mapIdx, Array.getElem?_eq_getElem h2, Option.map_some, if_pos hi]

theorem InitSpec.build {n : Nat} {vc : Classes} (o ic bd : Sl Nat) (ages btc : Sl Int) (val : Sl Nat)
    (ho : o.len = n) (hoz : n ≤ o.data.size) (hi : ic.len = n) (hiz : n ≤ ic.data.size)
    (hbw : bd.WF) (hol : o.toList = ordL n vc) (hbl : bd.toList = bdL n vc)
    (hic : ∀ p v, (ordL n vc)[p]? = some v → ic.toList[v]? = some (binIdx (bdL n vc) p))
    (hal : ages.len = bd.len) (haz : ages.WF) (had : ∀ i, i < ages.len → ages.data[i]? = some 0)
    (hbtl : btc.len = bd.len) (_hbtz : btc.WF) (hbtd : ∀ i, i < btc.len → btc.data[i]? = some (i : Int)) (hv : val.len = 0) :
    InitSpec n vc { order := o, binDividers := bd, binAges := ages, binsToCheck := btc, age := 0, value := val,
                    spl := 0, inCell := ic } := by
  have hbl' : (bdL n vc).length = bd.len := by rw [← hbl, Sl.length_toList _ hbw]
  refine ⟨by show o.len ≤ o.data.size; omega, hbw, haz, by show ic.len ≤ ic.data.size; omega, ho, hi, hol, hbl, ?_, ?_, hv, rfl, rfl, hic⟩
  · apply Sl.toList_eq_of _ _ (by simp; omega)
    intro i hi'
    simp only at hi' ⊢
    rw [had i hi', List.getElem?_replicate, if_pos (by omega)]
  · apply Sl.toList_eq_of _ _ (by simp; omega)
    intro i hi'
    simp only at hi' ⊢
    rw [hbtd i hi', List.getElem?_map, List.getElem?_range (by omega)]; rfl

theorem new_spec {n m : Nat} {vc : Classes} (hn : 0 < n) (hc : ClassesOK n vc) :
    ∃ op, newOrderedPartition n m vc = .ok (some op) ∧ InitSpec n vc op ∧
      op.order.data.size = n ∧ op.inCell.data.size = n ∧ op.binDividers.data.size = n ∧ op.binAges.data.size = n ∧
      op.binsToCheck.data.size = n ∧ op.value.data.size = m := by
  have hn0 : n ≠ 0 := by omega
  cases vc with
  | none =>
    obtain ⟨o', hr, l1, z1, d1⟩ := identLoop_spec n ⟨Array.replicate n 0, n⟩ (by simp [Sl.WF]) (Nat.le_refl _)
    simp only [Array.size_replicate] at l1 z1 d1
    have hset : (⟨Array.replicate n 0, 1⟩ : Sl Nat).set 0 n = .ok ⟨(Array.replicate n 0).setIfInBounds 0 n, 1⟩ := by
      simp [Sl.set, hn]
    refine ⟨{ order := o', binDividers := ⟨(Array.replicate n 0).setIfInBounds 0 n, 1⟩, binAges := ⟨Array.replicate n 0, 1⟩,
              binsToCheck := allBins ⟨Array.replicate n 0, 1⟩, age := 0, value := ⟨Array.replicate m 0, 0⟩, spl := 0,
              inCell := ⟨Array.replicate n 0, n⟩ }, ?_, ?_, ?_⟩
    · simp only [newOrderedPartition, if_neg hn0, Sl.mk', hr, Sl.reslice, Array.size_replicate,
        if_pos (show 1 ≤ n by omega), hset]
    · apply InitSpec.build
      · exact l1
      · omega
      · rfl
      · simp
      · simp [Sl.WF]; omega
      · apply Sl.toList_eq_of _ _ (by simp [ordL]; omega)
        intro i hi
        rw [d1, if_pos (by omega)]; simp only [ordL]; rw [List.getElem?_range (by omega)]
      · apply Sl.toList_eq_of _ _ (by simp [bdL])
        intro i hi
        simp only at hi
        have : i = 0 := by omega
        subst this; simp [bdL, hn]
      · intro p v hp
        simp only [ordL] at hp
        have hp' := List.getElem?_eq_some_iff.1 hp
        obtain ⟨h1, h2⟩ := hp'
        simp at h1 h2
        subst h2
        rw [Sl.getElem?_toList, if_pos (by simpa using h1)]
        simp [bdL, binIdx, h1]
      · rfl
      · simp [Sl.WF]; omega
      · intro i hi; simp only at hi ⊢; rw [Array.getElem?_replicate, if_pos (by omega)]
      · rfl
      · show 1 ≤ (allBins _).data.size
        rw [allBins_size]; simp; omega
      · intro i hi; exact allBins_data _ (by simp; omega) i hi
      · rfl
    · simp [z1, allBins_size]
  | some cls =>
    obtain ⟨hcl, hpos, o', ic', bd', idx, hr, l1, z1, l2, z2, l3, z3, e1, e2, e3⟩ :=
      classLoop_init hn hc (Array.replicate n 0) (Array.replicate n 0) (Array.replicate n 0) (by simp) (by simp) (by simp)
    simp only [Array.size_replicate] at z1 z2 z3
    refine ⟨{ order := o', binDividers := bd', binAges := ⟨Array.replicate n 0, bd'.len⟩,
              binsToCheck := allBins ⟨Array.replicate n 0, bd'.len⟩, age := 0, value := ⟨Array.replicate m 0, 0⟩, spl := 0,
              inCell := ic' }, ?_, ?_, ?_⟩
    · simp only [newOrderedPartition, if_neg hn0, Sl.mk', Sl.reslice, Array.size_replicate, if_pos hcl, hr]
    · apply InitSpec.build
      · exact l1
      · omega
      · exact l2
      · omega
      · unfold Sl.WF; omega
      · exact e1
      · exact e2
      · exact e3
      · rfl
      · simp [Sl.WF]; omega
      · intro i hi; simp only at hi ⊢; rw [Array.getElem?_replicate, if_pos (by omega)]
      · rfl
      · show bd'.len ≤ (allBins _).data.size
        rw [allBins_size]; simp; omega
      · intro i hi; exact allBins_data _ (by simp; omega) i hi
      · rfl
    · simp [z1, z2, z3, allBins_size]

theorem reset_spec {n m : Nat} {vc : Classes} (op : OP) (hn : 0 < n) (hc : ClassesOK n vc)
    (c1 : n ≤ op.order.data.size) (c2 : n ≤ op.inCell.data.size) (c3 : n ≤ op.binDividers.data.size)
    (c4 : n ≤ op.binAges.data.size) (c5 : n ≤ op.binsToCheck.data.size) (c6 : m ≤ op.value.data.size) :
    ∃ opR, reset op n m vc = .ok opR ∧ InitSpec n vc opR ∧
      opR.order.data.size = op.order.data.size ∧ opR.inCell.data.size = op.inCell.data.size ∧
      opR.binDividers.data.size = op.binDividers.data.size ∧ opR.binAges.data.size = op.binAges.data.size ∧
      opR.binsToCheck.data.size = op.binsToCheck.data.size ∧ opR.value.data = op.value.data := by
  have hn' : n > 0 := hn
  cases vc with
  | none =>
    obtain ⟨o', hr, l1, z1, d1⟩ := identLoop_spec n ⟨op.order.data, n⟩ c1 (Nat.le_refl _)
    simp only at l1 z1 d1
    have hset : (⟨op.binDividers.data, 1⟩ : Sl Nat).set 0 n = .ok ⟨op.binDividers.data.setIfInBounds 0 n, 1⟩ :=
      Sl.set_ok_of_lt (s := ⟨op.binDividers.data, 1⟩) (show 1 ≤ op.binDividers.data.size by omega) (Nat.zero_lt_one) n
    refine ⟨{ order := o', binDividers := ⟨op.binDividers.data.setIfInBounds 0 n, 1⟩,
              binAges := ⟨op.binAges.data.mapIdx (fun i v => if i < 1 then 0 else v), 1⟩,
              binsToCheck := allBins ⟨op.binsToCheck.data, 1⟩, age := 0, value := ⟨op.value.data, 0⟩, spl := 0,
              inCell := (⟨op.inCell.data, n⟩ : Sl Nat).fill0 }, ?_, ?_, ?_⟩
    · simp only [reset, Sl.cap, if_neg (Nat.not_lt.2 c1), if_neg (Nat.not_lt.2 c6), Sl.reslice, if_pos c1, if_pos c2,
        hr, if_pos hn', if_pos (show 1 ≤ op.binDividers.data.size by omega), hset,
        if_pos (show 1 ≤ op.binAges.data.size by omega), if_pos (show 1 ≤ op.binsToCheck.data.size by omega)]
    · apply InitSpec.build
      · exact l1
      · omega
      · rfl
      · simp [Sl.fill0]; omega
      · show 1 ≤ (op.binDividers.data.setIfInBounds 0 n).size
        simp; omega
      · apply Sl.toList_eq_of _ _ (by simp [ordL]; omega)
        intro i hi
        rw [d1, if_pos (by omega)]; simp only [ordL]; rw [List.getElem?_range (by omega)]
      · apply Sl.toList_eq_of _ _ (by simp [bdL])
        intro i hi
        simp only at hi
        have : i = 0 := by omega
        subst this
        have : 0 < op.binDividers.data.size := by omega
        simp [bdL, this]
      · intro p v hp
        simp only [ordL] at hp
        have hp' := List.getElem?_eq_some_iff.1 hp
        obtain ⟨h1, h2⟩ := hp'
        simp at h1 h2
        subst h2
        rw [Sl.getElem?_toList, if_pos (by simpa [Sl.fill0] using h1)]
        have : p < op.inCell.data.size := by omega
        simp [bdL, binIdx, h1, Sl.fill0, this]
      · rfl
      · show 1 ≤ (op.binAges.data.mapIdx _).size
        simp; omega
      · intro i hi; simp only at hi ⊢
        have h2 : i < op.binAges.data.size := by omega
        rw [Array.getElem?_mapIdx, Array.getElem?_eq_getElem h2, Option.map_some, if_pos hi]
      · rfl
      · show 1 ≤ (allBins _).data.size
        rw [allBins_size]; show 1 ≤ op.binsToCheck.data.size; omega
      · intro i hi; exact allBins_data _ (show 1 ≤ op.binsToCheck.data.size by omega) i hi
      · rfl
    · simp [z1, Sl.fill0, allBins_size]
  | some cls =>
    obtain ⟨hcl, hpos, o', ic', bd', idx, hr, l1, z1, l2, z2, l3, z3, e1, e2, e3⟩ :=
      classLoop_init hn hc op.order.data op.inCell.data op.binDividers.data c1 c2 c3
    refine ⟨{ order := o', binDividers := bd',
              binAges := ⟨op.binAges.data.mapIdx (fun i v => if i < bd'.len then 0 else v), bd'.len⟩,
              binsToCheck := allBins ⟨op.binsToCheck.data, bd'.len⟩, age := 0, value := ⟨op.value.data, 0⟩, spl := 0,
              inCell := ic' }, ?_, ?_, ?_⟩
    · simp only [reset, Sl.cap, if_neg (Nat.not_lt.2 c1), if_neg (Nat.not_lt.2 c6), Sl.reslice, if_pos c1, if_pos c2,
        if_pos (show cls.length ≤ op.binDividers.data.size by omega), hr, if_pos hn',
        if_pos (show bd'.len ≤ op.binAges.data.size by omega), if_pos (show bd'.len ≤ op.binsToCheck.data.size by omega)]
    · apply InitSpec.build
      · exact l1
      · omega
      · exact l2
      · omega
      · unfold Sl.WF; omega
      · exact e1
      · exact e2
      · exact e3
      · rfl
      · show bd'.len ≤ (op.binAges.data.mapIdx _).size
        simp; omega
      · intro i hi; simp only at hi ⊢
        have h2 : i < op.binAges.data.size := by omega
        rw [Array.getElem?_mapIdx, Array.getElem?_eq_getElem h2, Option.map_some, if_pos hi]
      · rfl
      · show bd'.len ≤ (allBins _).data.size
        rw [allBins_size]; show bd'.len ≤ op.binsToCheck.data.size; omega
      · intro i hi; exact allBins_data _ (show bd'.len ≤ op.binsToCheck.data.size by omega) i hi
      · rfl
    · simp [z1, z2, z3, allBins_size]

theorem InitSpec.partInv {n : Nat} {vc : Classes} {op : OP} (hn : 0 < n) (hc : ClassesOK n vc) (h : InitSpec n vc op) :
    PartInv n op ∧ AgeInv op := by
  obtain ⟨hperm, hsorted, hlast⟩ := initSpec_classesFacts hn hc
  have hlen : op.binAges.len = op.binDividers.len := by
    rw [← Sl.length_toList _ h.wfAges, ← Sl.length_toList _ h.wfBd, h.ages, h.bd]; simp
  have hne : bdL n vc ≠ [] := by intro e; rw [e] at hlast; simp at hlast
  constructor
  · refine ⟨h.wfOrder, h.wfBd, h.wfAges, h.wfInCell, h.lenOrder, h.lenInCell, hlen, ?_, ?_, ?_, ?_⟩
    · rw [h.order]; exact hperm
    · rw [h.bd]; exact hsorted
    · rw [h.bd]; exact hlast
    · rw [h.order, h.bd]; exact h.inCell
  · constructor
    · intro a ha
      rw [h.ages] at ha
      rw [List.eq_of_mem_replicate ha, h.age]; exact Int.le_refl _
    · rw [h.ages]
      have : 0 < (bdL n vc).length := List.length_pos_iff.2 hne
      rw [List.getLast?_replicate]; simp; omega

theorem InitSpec.inCell_eq {n : Nat} {vc : Classes} {op1 op2 : OP} (hn : 0 < n) (hc : ClassesOK n vc)
    (h1 : InitSpec n vc op1) (h2 : InitSpec n vc op2) : op1.inCell.toList = op2.inCell.toList := by
  obtain ⟨hperm, _, _⟩ := initSpec_classesFacts hn hc
  apply List.ext_getElem?
  intro v
  by_cases hv : v < n
  · have : v ∈ ordL n vc := hperm.mem_iff.2 (by simpa using hv)
    obtain ⟨p, hp⟩ := List.mem_iff_getElem?.1 this
    rw [h1.inCell p v hp, h2.inCell p v hp]
  · rw [Sl.getElem?_toList, Sl.getElem?_toList, if_neg (by rw [h1.lenInCell]; exact hv),
      if_neg (by rw [h2.lenInCell]; exact hv)]

theorem InitSpec.btc' {n : Nat} {vc : Classes} {op : OP} (h : InitSpec n vc op) :
    op.binsToCheck.toList = (List.range op.binDividers.len).map Int.ofNat := by
  rw [h.btc, ← Sl.length_toList _ h.wfBd, h.bd]

theorem ordL_eq (n : Nat) (vc : Classes) :
    ordL n vc = (match vc with | none => List.range n | some cls => (cls.map sortNat).flatten) := by
  cases vc <;> rfl

theorem bdL_eq (n : Nat) (vc : Classes) :
    bdL n vc = (match vc with | none => [n] | some cls => (cls.map List.length).scanl (· + ·) 0 |>.tail) := by
  cases vc with
  | none => rfl
  | some cls => simp only [bdL, scanl_tail_eq_psums]

/-! ## the requested theorems -/

theorem newOrderedPartition_inv {n m : Nat} {vc : Classes} (hn : 0 < n) (hc : ClassesOK n vc) :
    ∃ op, newOrderedPartition n m vc = .ok (some op) ∧ PartInv n op ∧ AgeInv op ∧ op.age = 0 ∧ op.spl = 0 ∧
      op.value.len = 0 ∧ op.value.data.size = m ∧
      op.binsToCheck.toList = (List.range op.binDividers.len).map Int.ofNat ∧
      op.order.data.size = n ∧ op.inCell.data.size = n ∧ op.binDividers.data.size = n ∧ op.binAges.data.size = n ∧
      op.binsToCheck.data.size = n ∧
      op.order.toList = (match vc with | none => List.range n | some cls => (cls.map sortNat).flatten) ∧
      op.binDividers.toList = (match vc with | none => [n] | some cls => (cls.map List.length).scanl (· + ·) 0 |>.tail) := by
  obtain ⟨op, hr, hs, z1, z2, z3, z4, z5, z6⟩ := new_spec (m := m) hn hc
  obtain ⟨hp, ha⟩ := hs.partInv hn hc
  refine ⟨op, hr, hp, ha, hs.age, hs.spl, hs.value, z6, hs.btc', z1, z2, z3, z4, z5, ?_, ?_⟩
  · rw [hs.order]; cases vc <;> rfl
  · rw [hs.bd, bdL_eq]; cases vc <;> rfl

theorem reset_eq_new {n m : Nat} {vc : Classes} (op : OP) (hn : 0 < n) (hc : ClassesOK n vc)
    (c1 : n ≤ op.order.data.size) (c2 : n ≤ op.inCell.data.size) (c3 : n ≤ op.binDividers.data.size)
    (c4 : n ≤ op.binAges.data.size) (c5 : n ≤ op.binsToCheck.data.size) (c6 : m ≤ op.value.data.size) :
    ∃ opN opR, newOrderedPartition n m vc = .ok (some opN) ∧ reset op n m vc = .ok opR ∧
      opR.order.toList = opN.order.toList ∧ opR.binDividers.toList = opN.binDividers.toList ∧
      opR.binAges.toList = opN.binAges.toList ∧ opR.binsToCheck.toList = opN.binsToCheck.toList ∧
      opR.value.toList = opN.value.toList ∧ opR.age = opN.age ∧ opR.spl = opN.spl ∧
      opR.inCell.toList = opN.inCell.toList ∧
      opR.order.data.size = op.order.data.size ∧ opR.inCell.data.size = op.inCell.data.size ∧
      opR.binDividers.data.size = op.binDividers.data.size ∧ opR.binAges.data.size = op.binAges.data.size ∧
      opR.binsToCheck.data.size = op.binsToCheck.data.size ∧ opR.value.data.size = op.value.data.size := by
  obtain ⟨opN, hN, sN, _⟩ := new_spec (m := m) hn hc
  obtain ⟨opR, hR, sR, z1, z2, z3, z4, z5, z6⟩ := reset_spec (m := m) op hn hc c1 c2 c3 c4 c5 c6
  refine ⟨opN, opR, hN, hR, by rw [sR.order, sN.order], by rw [sR.bd, sN.bd], by rw [sR.ages, sN.ages],
    by rw [sR.btc, sN.btc], ?_, by rw [sR.age, sN.age], by rw [sR.spl, sN.spl], InitSpec.inCell_eq hn hc sR sN,
    z1, z2, z3, z4, z5, by rw [z6]⟩
  simp [Sl.toList, sR.value, sN.value]

/-! non-vacuity: a partition value with stale contents and arbitrary lengths, reset to `n = 3`, `m = 2` -/

/-- stale storage: capacities 4, 3, 3, 3, 3, 4 -/
def staleOP : OP :=
  { order := ⟨#[9, 9, 9, 9], 1⟩, binDividers := ⟨#[7, 7, 7], 3⟩, binAges := ⟨#[5, 5, 5], 2⟩, binsToCheck := ⟨#[4, 4, 4], 2⟩,
    age := 17, value := ⟨#[8, 8, 8], 3⟩, spl := 2, inCell := ⟨#[6, 6, 6, 6], 4⟩ }

/-- the observable state -/
def obs (op : OP) : List Nat × List Nat × List Int × List Int × List Nat × Int × Nat × List Nat :=
  (op.order.toList, op.binDividers.toList, op.binAges.toList, op.binsToCheck.toList, op.value.toList, op.age, op.spl,
    op.inCell.toList)

example : (match reset staleOP 3 2 none with | .ok r => some (obs r) | _ => none)
    = some ([0, 1, 2], [3], [0], [0], [], 0, 0, [0, 0, 0]) := by rfl
/-- the hypotheses of `reset_eq_new` are satisfiable (stale contents, unsorted class `[1, 0]`); `List.mergeSort` does not
reduce by `rfl`, so the concrete vertex order is read off the theorems -/
example : ∃ opN opR, newOrderedPartition 3 2 (some [[2], [1, 0]]) = .ok (some opN) ∧
    reset staleOP 3 2 (some [[2], [1, 0]]) = .ok opR ∧ opR.order.toList = [2, 0, 1] ∧
    opR.binDividers.toList = [1, 3] ∧ opR.inCell.toList = opN.inCell.toList := by
  have hc : ClassesOK 3 (some [[2], [1, 0]]) := ⟨by decide, by decide⟩
  obtain ⟨opN, opR, h1, h2, ho, hb, _, _, _, _, _, h3, _⟩ :=
    reset_eq_new (n := 3) (m := 2) (vc := some [[2], [1, 0]]) staleOP (by decide) hc
      (by decide) (by decide) (by decide) (by decide) (by decide) (by decide)
  obtain ⟨opN', h1', _, _, _, _, _, _, _, _, _, _, _, _, ho', hb'⟩ := newOrderedPartition_inv (n := 3) (m := 2) (by decide) hc
  rw [h1] at h1'
  obtain rfl : opN = opN' := Option.some.inj (Outcome.ok.inj h1')
  refine ⟨opN, opR, h1, h2, ?_, ?_, h3⟩
  · rw [ho, ho']
    simp [sortNat, List.mergeSort, List.MergeSort.Internal.splitInTwo]
  · rw [hb, hb']; rfl

theorem reset_inv {n m : Nat} {vc : Classes} (op : OP) (hn : 0 < n) (hc : ClassesOK n vc)
    (c1 : n ≤ op.order.data.size) (c2 : n ≤ op.inCell.data.size) (c3 : n ≤ op.binDividers.data.size)
    (c4 : n ≤ op.binAges.data.size) (c5 : n ≤ op.binsToCheck.data.size) (c6 : m ≤ op.value.data.size) :
    ∃ opR, reset op n m vc = .ok opR ∧ PartInv n opR ∧ AgeInv opR ∧ opR.age = 0 ∧ opR.spl = 0 ∧
      opR.value.len = 0 ∧ opR.binsToCheck.toList = (List.range opR.binDividers.len).map Int.ofNat := by
  obtain ⟨opR, hR, sR, _⟩ := reset_spec (m := m) op hn hc c1 c2 c3 c4 c5 c6
  obtain ⟨hp, ha⟩ := sR.partInv hn hc
  exact ⟨opR, hR, hp, ha, sR.age, sR.spl, sR.value, sR.btc'⟩

theorem reset_panics_small_n (op : OP) (n m : Nat) (vc : Classes) (h : op.order.data.size < n) :
    reset op n m vc = .panic := by
  simp [reset, Sl.cap, h]

theorem reset_panics_small_m (op : OP) (n m : Nat) (vc : Classes) (h : op.value.data.size < m) :
    reset op n m vc = .panic := by
  unfold reset
  by_cases h1 : op.order.cap < n
  · rw [if_pos h1]
  · rw [if_neg h1, if_pos (by simpa [Sl.cap] using h)]

end CanonF
