import Mamba.Lemmas.Tri
import Mamba.Lemmas.GraphCount
/-!
# DenseGraph refines the abstract graph (property C05): definitions, observers, AddEdge / RemoveEdge
-/
namespace GraphRep
open GraphSpec

/-! ## generic facts about the checked accessors and loops -/

theorem getElem?_eq_some_getD {a : Array Nat} {k : Nat} (h : k < a.size) : a[k]? = some (a.getD k 0) := by
  simp [Array.getD, h]

theorem addA_ok {a : Array Int} {i : Nat} {x : Int} (d : Int) (h : a[i]? = some x) :
    addA a i d = .ok (a.setIfInBounds i (x + d)) := by
  simp [addA, h]

theorem setA_ok {α : Type} {a : Array α} {i : Nat} (x : α) (h : i < a.size) :
    setA a i x = .ok (a.setIfInBounds i x) := by
  simp [setA, h]

theorem get?_set_add {a : Array Int} {i : Nat} {x : Int} (d : Int) (h : a[i]? = some x) (v : Nat) :
    (a.setIfInBounds i (x + d))[v]? = if v = i then some (x + d) else a[v]? := by
  rw [Array.getElem?_setIfInBounds]
  have hi : i < a.size := by
    by_contra hc
    rw [Array.getElem?_eq_none (by omega)] at h; cases h
  by_cases hv : v = i
  · subst hv; simp [hi]
  · have : ¬ i = v := fun e => hv e.symm
    simp [this, hv]

theorem loopM_filter {f : List Nat → Nat → Outcome (List Nat)} {p : Nat → Bool} :
    ∀ (l : List Nat) (r : List Nat),
      (∀ r i, i ∈ l → f r i = .ok (if p i then r ++ [i] else r)) → loopM f l r = .ok (r ++ l.filter p) := by
  intro l
  induction l with
  | nil => intro r _; simp [loopM]
  | cons x xs ih =>
    intro r h
    rw [loopM, h r x (by simp)]
    simp only
    rw [ih _ (fun r i hi => h r i (by simp [hi]))]
    cases hp : p x <;> simp [hp]

theorem range_split {v n : Nat} (hv : v < n) :
    List.range n = List.range v ++ v :: List.range' (v + 1) (n - (v + 1)) := by
  have h1 : n = v + ((n - (v + 1)) + 1) := by omega
  conv => lhs; rw [h1, List.range_eq_range', ← List.range'_append (step := 1)]
  rw [List.range_eq_range', List.range'_succ]
  simp

/-! ## abstraction and invariant -/

/-- the byte of the pair `u < v` -/
def Dense.bit (g : Dense) (u v : Nat) : Bool := decide (g.edges.getD (tri v + u) 0 > 0)

/-- the abstract graph represented by a `DenseGraph` value -/
def Dense.abs (g : Dense) : G where
  n := g.n
  adj u v := decide (u < g.n) && decide (v < g.n) &&
    ((decide (u < v) && g.bit u v) || (decide (v < u) && g.bit v u))

/-- representation invariant of `DenseGraph` -/
structure Dense.WF (g : Dense) : Prop where
  deg_size : g.deg.size = g.n
  edges_size : g.edges.size = tri g.n
  m_eq : g.m = (g.abs.m : Int)
  deg_eq : ∀ v, v < g.n → g.deg[v]? = some (g.abs.deg v : Int)

theorem Dense.abs_wf (g : Dense) : g.abs.WF where
  symm := by
    intro u v
    simp only [Dense.abs]
    rw [Bool.and_comm (decide (u < g.n)), Bool.or_comm]
  irrefl := by intro v; simp [Dense.abs]
  supp := by
    intro u v h
    simp only [Dense.abs, Bool.and_eq_true, decide_eq_true_eq] at h
    exact h.1

theorem Dense.abs_adj_lt (g : Dense) {u v : Nat} (huv : u < v) :
    g.abs.adj u v = (decide (v < g.n) && g.bit u v) := by
  simp only [Dense.abs]
  have h1 : decide (u < v) = true := by simpa using huv
  have h2 : decide (v < u) = false := by simp; omega
  rw [h1, h2]
  by_cases hv : v < g.n
  · have : decide (u < g.n) = true := by simp; omega
    simp [this, hv]
  · simp [hv]

/-- two well-formed graphs agreeing on ordered pairs are equal -/
theorem G_ext_lt {g h : G} (hg : g.WF) (hh : h.WF) (hn : g.n = h.n)
    (ha : ∀ u v, u < v → g.adj u v = h.adj u v) : g = h := by
  refine G_ext hn ?_
  intro u v
  rcases Nat.lt_trichotomy u v with hlt | heq | hgt
  · exact ha u v hlt
  · subst heq; rw [hg.irrefl, hh.irrefl]
  · rw [hg.symm, hh.symm]; exact ha v u hgt

/-! ## observers -/

theorem Dense.isEdge_eq {g : Dense} (hs : g.edges.size = tri g.n) (i j : Nat) :
    g.isEdge i j = .ok (g.abs.adj i j) := by
  unfold Dense.isEdge
  by_cases hr : i ≥ g.n ∨ j ≥ g.n
  · rw [if_pos hr]
    have : g.abs.adj i j = false := by
      cases h : g.abs.adj i j
      · rfl
      · have := g.abs_wf.supp i j h
        simp only [Dense.abs] at this; omega
    rw [this]
  · rw [if_neg hr]
    have hi : i < g.n := by omega
    have hj : j < g.n := by omega
    by_cases hij : i < j
    · rw [if_pos hij, getElem?_eq_some_getD (by rw [hs]; exact tri_add_lt hij hj)]
      rw [g.abs_adj_lt hij]; simp [Dense.bit, hj]
    · rw [if_neg hij]
      by_cases hji : i > j
      · rw [if_pos hji, getElem?_eq_some_getD (by rw [hs]; exact tri_add_lt hji hi)]
        rw [g.abs_wf.symm, g.abs_adj_lt hji]; simp [Dense.bit, hi]
      · rw [if_neg hji]
        have : i = j := by omega
        subst this; rw [g.abs_wf.irrefl]

theorem Dense.neighbours_eq {g : Dense} (h : g.WF) {v : Nat} (hv : v < g.n) :
    g.neighbours v = .ok (g.abs.nbrs v) := by
  unfold Dense.neighbours
  rw [h.deg_eq v hv]
  simp only
  rw [if_neg (by omega)]
  rw [loopM_filter (p := fun i => g.bit i v) (List.range v) []]
  · simp only
    rw [loopM_filter (p := fun i => g.bit v i)]
    · congr 1
      unfold G.nbrs
      show _ = List.filter _ (List.range g.n)
      rw [range_split hv, List.filter_append, List.filter_cons, g.abs_wf.irrefl]
      simp only [List.nil_append, Bool.false_eq_true, if_false]
      congr 1
      · apply List.filter_congr
        intro i hi
        have hi : i < v := by simpa using hi
        rw [g.abs_wf.symm, g.abs_adj_lt hi]; simp [hv]
      · apply List.filter_congr
        intro i hi
        simp only [List.mem_range'_1] at hi
        rw [g.abs_adj_lt (by omega : v < i)]
        have : decide (i < g.n) = true := by simp; omega
        simp [this]
    · intro r i hi
      simp only [List.mem_range'_1] at hi
      rw [getElem?_eq_some_getD (by rw [h.edges_size]; exact tri_add_lt (by omega) (by omega))]
      simp [Dense.bit]
  · intro r i hi
    have hi : i < v := by simpa using hi
    rw [getElem?_eq_some_getD (by rw [h.edges_size]; exact tri_add_lt hi hv)]
    simp [Dense.bit]

/-! ## AddEdge / RemoveEdge -/

theorem Dense.bit_set {g g' : Dense} {idx : Nat} (x : Nat)
    (he : g'.edges = g.edges.setIfInBounds idx x) (hidx : idx < g.edges.size) (a b : Nat) :
    g'.bit a b = if tri b + a = idx then decide (x > 0) else g.bit a b := by
  unfold Dense.bit
  rw [he, Array.getD_eq_getD_getElem?, Array.getD_eq_getD_getElem?, Array.getElem?_setIfInBounds]
  by_cases h : idx = tri b + a
  · subst h; simp [hidx]
  · have : ¬ tri b + a = idx := fun e => h e.symm
    simp [h, this]

/-- writing the byte of the pair `lo < hi` changes exactly that pair -/
theorem Dense.abs_setPair {g g' : Dense} {lo hi : Nat} (hlt : lo < hi) (hhi : hi < g.n)
    (hs : g.edges.size = tri g.n) (x : Nat) (hn : g'.n = g.n)
    (he : g'.edges = g.edges.setIfInBounds (tri hi + lo) x) (u v : Nat) (huv : u < v) :
    g'.abs.adj u v = if u = lo ∧ v = hi then decide (x > 0) else g.abs.adj u v := by
  rw [g'.abs_adj_lt huv, g.abs_adj_lt huv,
    Dense.bit_set x he (by rw [hs]; exact tri_add_lt hlt hhi), hn]
  simp only [tri_eq_iff huv hlt]
  by_cases h : u = lo ∧ v = hi
  · obtain ⟨rfl, rfl⟩ := h; simp [hhi]
  · simp [h]

theorem pair_beq {i j lo hi u v : Nat} (hlt : lo < hi) (huv : u < v)
    (hp : (i = lo ∧ j = hi) ∨ (i = hi ∧ j = lo)) :
    ((u == i && v == j) || (u == j && v == i)) = (u == lo && v == hi) := by
  rcases hp with ⟨rfl, rfl⟩ | ⟨rfl, rfl⟩
  · have : (u == j && v == i) = false := by
      simp only [Bool.and_eq_false_imp, beq_iff_eq, beq_eq_false_iff_ne]; intro a b; omega
    rw [this]; simp
  · have : (u == i && v == j) = false := by
      simp only [Bool.and_eq_false_imp, beq_iff_eq, beq_eq_false_iff_ne]; intro a b; omega
    rw [this]; simp

theorem Dense.addEdge_core {g g' : Dense} (h : g.WF) {i j lo hi : Nat} (hlt : lo < hi) (hhi : hi < g.n)
    (hp : (i = lo ∧ j = hi) ∨ (i = hi ∧ j = lo)) (hadj : g.abs.adj i j = false)
    (hn : g'.n = g.n) (hm : g'.m = g.m + 1)
    (he : g'.edges = g.edges.setIfInBounds (tri hi + lo) 1)
    (hds : g'.deg.size = g.n)
    (hd : ∀ v, v < g.n → g'.deg[v]? = some ((g.abs.deg v : Int) + (if v = i ∨ v = j then 1 else 0))) :
    g'.WF ∧ g'.abs = addEdgeG g.abs i j := by
  have hi' : i < g.n := by rcases hp with ⟨rfl, rfl⟩ | ⟨rfl, rfl⟩ <;> omega
  have hj' : j < g.n := by rcases hp with ⟨rfl, rfl⟩ | ⟨rfl, rfl⟩ <;> omega
  have hij : i ≠ j := by rcases hp with ⟨rfl, rfl⟩ | ⟨rfl, rfl⟩ <;> omega
  have habs : g'.abs = addEdgeG g.abs i j := by
    refine G_ext_lt g'.abs_wf (addEdgeG_wf g.abs_wf hi' hj') hn ?_
    intro u v huv
    rw [Dense.abs_setPair hlt hhi h.edges_size 1 hn he u v huv]
    simp only [addEdgeG]
    rw [pair_beq hlt huv hp]
    have : (i != j) = true := by simpa using hij
    rw [this]
    by_cases hc : u = lo ∧ v = hi
    · simp [hc]
    · have : (u == lo && v == hi) = false := by simpa using hc
      simp [hc, this]
  refine ⟨⟨by rw [hds, hn], ?_, ?_, ?_⟩, habs⟩
  · rw [he, Array.size_setIfInBounds, h.edges_size, hn]
  · rw [habs, m_addEdgeG g.abs_wf hi' hj' hij hadj, hm, h.m_eq]; simp
  · intro v hv
    rw [hn] at hv
    rw [habs, deg_addEdgeG g.abs_wf hj' hi' hij hadj, hd v hv]
    split <;> simp

theorem Dense.addEdge_spec {g : Dense} (h : g.WF) {i j : Nat} (hi : i < g.n) (hj : j < g.n) :
    ∃ g', g.addEdge i j = .ok g' ∧ g'.WF ∧ g'.abs = addEdgeG g.abs i j := by
  unfold Dense.addEdge
  by_cases hij : i = j
  · rw [if_pos hij]; exact ⟨g, rfl, h, (addEdgeG_noop g.abs_wf (Or.inl hij)).symm⟩
  · rw [if_neg hij, Dense.isEdge_eq h.edges_size]
    cases hadj : g.abs.adj i j
    · simp only
      rw [addA_ok 1 (h.deg_eq i hi)]
      simp only
      have hj' : (g.deg.setIfInBounds i (↑(g.abs.deg i) + 1))[j]? = some (g.abs.deg j : Int) := by
        rw [get?_set_add 1 (h.deg_eq i hi), if_neg (fun e => hij e.symm)]; exact h.deg_eq j hj
      rw [addA_ok 1 hj']
      simp only
      have hidx : (if i < j then tri j + i else tri i + j) < g.edges.size := by
        rw [h.edges_size]; split
        · exact tri_add_lt (by omega) hj
        · exact tri_add_lt (by omega) hi
      rw [setA_ok 1 hidx]
      simp only
      refine ⟨_, rfl, ?_⟩
      have hd : ∀ v, v < g.n → ((g.deg.setIfInBounds i (↑(g.abs.deg i) + 1)).setIfInBounds j
          (↑(g.abs.deg j) + 1))[v]? = some ((g.abs.deg v : Int) + (if v = i ∨ v = j then 1 else 0)) := by
        intro v hv
        rw [get?_set_add 1 hj', get?_set_add 1 (h.deg_eq i hi)]
        by_cases hvj : v = j
        · simp [hvj]
        · by_cases hvi : v = i
          · simp [hvi, hij]
          · simp [hvi, hvj, h.deg_eq v hv]
      by_cases hlt : i < j
      · refine Dense.addEdge_core h hlt hj (Or.inl ⟨rfl, rfl⟩) hadj ?_ ?_ ?_ ?_ ?_
        · rfl
        · rfl
        · simp [hlt]
        · simp [h.deg_size]
        · exact hd
      · refine Dense.addEdge_core h (show j < i by omega) hi (Or.inr ⟨rfl, rfl⟩) hadj ?_ ?_ ?_ ?_ ?_
        · rfl
        · rfl
        · simp [hlt]
        · simp [h.deg_size]
        · exact hd
    · exact ⟨g, rfl, h, (addEdgeG_noop g.abs_wf (Or.inr hadj)).symm⟩

theorem Dense.removeEdge_core {g g' : Dense} (h : g.WF) {i j lo hi : Nat} (hlt : lo < hi) (hhi : hi < g.n)
    (hp : (i = lo ∧ j = hi) ∨ (i = hi ∧ j = lo)) (hadj : g.abs.adj i j = true)
    (hn : g'.n = g.n) (hm : g'.m = g.m - 1)
    (he : g'.edges = g.edges.setIfInBounds (tri hi + lo) 0)
    (hds : g'.deg.size = g.n)
    (hd : ∀ v, v < g.n → g'.deg[v]? = some ((g.abs.deg v : Int) + (if v = i ∨ v = j then -1 else 0))) :
    g'.WF ∧ g'.abs = removeEdgeG g.abs i j := by
  have hi' : i < g.n := by rcases hp with ⟨rfl, rfl⟩ | ⟨rfl, rfl⟩ <;> omega
  have hj' : j < g.n := by rcases hp with ⟨rfl, rfl⟩ | ⟨rfl, rfl⟩ <;> omega
  have hij : i ≠ j := by rcases hp with ⟨rfl, rfl⟩ | ⟨rfl, rfl⟩ <;> omega
  have habs : g'.abs = removeEdgeG g.abs i j := by
    refine G_ext_lt g'.abs_wf (removeEdgeG_wf g.abs_wf i j) hn ?_
    intro u v huv
    rw [Dense.abs_setPair hlt hhi h.edges_size 0 hn he u v huv]
    simp only [removeEdgeG]
    rw [pair_beq hlt huv hp]
    by_cases hc : u = lo ∧ v = hi
    · simp [hc]
    · have : (u == lo && v == hi) = false := by simpa using hc
      simp [hc, this]
  refine ⟨⟨by rw [hds, hn], ?_, ?_, ?_⟩, habs⟩
  · rw [he, Array.size_setIfInBounds, h.edges_size, hn]
  · have := m_removeEdgeG g.abs_wf hi' hj' hij hadj
    rw [habs, hm, h.m_eq, ← this]; simp
  · intro v hv
    rw [hn] at hv
    have := deg_removeEdgeG g.abs_wf hi' hj' hij hadj v
    rw [habs, hd v hv, ← this]
    split <;> simp

theorem Dense.removeEdge_spec {g : Dense} (h : g.WF) {i j : Nat} (hi : i < g.n) (hj : j < g.n) :
    ∃ g', g.removeEdge i j = .ok g' ∧ g'.WF ∧ g'.abs = removeEdgeG g.abs i j := by
  unfold Dense.removeEdge
  rw [Dense.isEdge_eq h.edges_size]
  cases hadj : g.abs.adj i j
  · exact ⟨g, rfl, h, (removeEdgeG_noop g.abs_wf hadj).symm⟩
  · simp only
    have hij : i ≠ j := by
      intro e; subst e; rw [g.abs_wf.irrefl] at hadj; cases hadj
    rw [if_neg hij]
    have hidx : (if i < j then tri j + i else tri i + j) < g.edges.size := by
      rw [h.edges_size]; split
      · exact tri_add_lt (by omega) hj
      · exact tri_add_lt (by omega) hi
    rw [setA_ok 0 hidx]
    simp only
    rw [addA_ok (-1) (h.deg_eq i hi)]
    simp only
    have hj' : (g.deg.setIfInBounds i (↑(g.abs.deg i) + -1))[j]? = some (g.abs.deg j : Int) := by
      rw [get?_set_add (-1) (h.deg_eq i hi), if_neg (fun e => hij e.symm)]; exact h.deg_eq j hj
    rw [addA_ok (-1) hj']
    simp only
    refine ⟨_, rfl, ?_⟩
    have hd : ∀ v, v < g.n → ((g.deg.setIfInBounds i (↑(g.abs.deg i) + -1)).setIfInBounds j
        (↑(g.abs.deg j) + -1))[v]? = some ((g.abs.deg v : Int) + (if v = i ∨ v = j then -1 else 0)) := by
      intro v hv
      rw [get?_set_add (-1) hj', get?_set_add (-1) (h.deg_eq i hi)]
      by_cases hvj : v = j
      · simp [hvj]
      · by_cases hvi : v = i
        · simp [hvi, hij]
        · simp [hvi, hvj, h.deg_eq v hv]
    by_cases hlt : i < j
    · refine Dense.removeEdge_core h hlt hj (Or.inl ⟨rfl, rfl⟩) hadj ?_ ?_ ?_ ?_ ?_
      · rfl
      · rfl
      · simp [hlt]
      · simp [h.deg_size]
      · exact hd
    · refine Dense.removeEdge_core h (show j < i by omega) hi (Or.inr ⟨rfl, rfl⟩) hadj ?_ ?_ ?_ ?_ ?_
      · rfl
      · rfl
      · simp [hlt]
      · simp [h.deg_size]
      · exact hd

theorem degs_aux (d : Array Int) (n : Nat) (f : Nat → Nat) (hs : d.size = n)
    (hd : ∀ v, v < n → d[v]? = some (f v : Int)) :
    d.toList = ((List.range n).map f).map Int.ofNat := by
  apply List.ext_getElem?
  intro k
  rw [Array.getElem?_toList, List.map_map, List.getElem?_map]
  by_cases hk : k < n
  · rw [hd k hk, List.getElem?_range hk]; rfl
  · rw [Array.getElem?_eq_none (by omega), List.getElem?_eq_none (by simp; omega)]; rfl

theorem Dense.degrees_eq {x : Dense} (h : x.WF) : x.degrees = x.abs.degrees.map Int.ofNat :=
  degs_aux x.deg x.n x.abs.deg h.deg_size h.deg_eq

/-! ## `NewDense(n, nil)` -/

theorem Dense.new_adj (n u v : Nat) : (Dense.new n).abs.adj u v = false := by
  have hb : ∀ a b, (Dense.new n).bit a b = false := by
    intro a b
    unfold Dense.bit Dense.new
    rw [Array.getD_eq_getD_getElem?]
    simp only [Array.getElem?_replicate]
    split <;> simp
  simp [Dense.abs, hb]

theorem Dense.new_wf (n : Nat) : (Dense.new n).WF := by
  have hc := empty_counts (g := (Dense.new n).abs) (Dense.new_adj n)
  refine ⟨by simp [Dense.new], by simp [Dense.new], ?_, ?_⟩
  · rw [hc.1]; rfl
  · intro v hv
    rw [hc.2 v]
    have hv' : v < n := hv
    simp [Dense.new, hv']

end GraphRep
