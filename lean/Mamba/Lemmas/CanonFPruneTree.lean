import Mamba.Lemmas.CanonFPrune
import Mamba.Lemmas.CanonFPruneLink
import Mamba.Lemmas.IRLeafPrefix
/-!
# Partial-certificate pruning at tree level

`worse_complete`: if `worseTest` holds for the certificate of the singleton prefix of a partition `op` whose colouring is
coarser than (and order-compatible with) the colouring of a node `χ` of the unpruned tree, then every leaf below `χ` has a
certificate smaller than `currentBest`.
-/
namespace CanonF

/-- all leaves below the node `s` have a certificate `≤ best` -/
def Complete (n : Nat) (nb : Nbrs) (rf : Nat) (best : List Nat) (s : IR.St) : Prop :=
  ∀ x, IR.CertBelow (irG n nb) rf s x → compare x best ≠ 1

theorem isPerm_of_target_none {g : IR.G} {s : IR.St} (hA : IR.InvA g s) (hD : IR.InvD g s)
    (ht : IR.target g s = none) : IR.IsPerm g.n s.c := by
  refine ⟨fun v hv => ?_, fun u v hu hv e => IR.target_none_inj hA ht hu hv e⟩
  have h1 := hA v hv
  have h2 := IR.D_le g.n s.c
  rw [hD] at h2
  omega

set_option maxHeartbeats 1000000 in
theorem worse_complete {n : Nat} {nb : Nbrs} (rf : Nat) (hnb : NbOK nb n) (hsz : nb.size = n) {op : OP}
    {cb fl : Sl Nat} {χ : IR.St}
    (hp : PartInv n op) (hps : PrefixSingle op) (hvw : op.value.WF)
    (hval : op.value.toList = certPos nb op.order.toList op.spl)
    (hwt : worseTest op.value cb fl = .ok true) (hcb : cb.WF) (hcbl : cb.len = ((nb.toList.map List.length).sum) / 2)
    (hmono : IR.Mono n (colOf n op) χ.c) (hA : IR.InvA (irG n nb) χ) (hD : IR.InvD (irG n nb) χ) :
    ∀ x, IR.CertBelow (irG n nb) rf χ x → compare x cb.toList = -1 := by
  rintro x ⟨vs, hpath, htn, hx⟩
  have hg := irG_wf hnb
  obtain ⟨_, hA', hD'⟩ := IR.path_cells hg (rf := rf) vs χ hA hD hpath
  have hperm : IR.IsPerm n (IR.nodeAt (irG n nb) rf χ vs).c := isPerm_of_target_none (g := irG n nb) hA' hD' htn
  have hmono' : IR.Mono n (colOf n op) (IR.nodeAt (irG n nb) rf χ vs).c := hmono.trans (path_mono hnb rf vs χ hpath)
  have holen : op.order.toList.length = n := by rw [Sl.length_toList _ hp.wfOrder, hp.lenOrder]
  have hnd : op.order.toList.Nodup := hp.perm.nodup_iff.2 List.nodup_range
  have hspl : op.spl ≤ n := Nat.le_trans hps.le hp.bdLen_le
  have hagree : ∀ p, p < op.spl →
      (IR.invOrder n (IR.nodeAt (irG n nb) rf χ vs).c)[p]? = op.order.toList[p]? := by
    intro p hpl
    have := IR.invOrder_prefix hperm hmono' (s := op.spl) (f := fun p => op.order.toList.getD p 0)
      (by
        intro q hq
        have hq' : q < op.order.toList.length := by omega
        have hget : op.order.toList[q]? = some (op.order.toList.getD q 0) := by
          rw [List.getD_eq_getElem?_getD, List.getElem?_eq_getElem hq', Option.getD_some]
        refine ⟨perm_range_lt hp.perm hget, ?_⟩
        rw [col_colOf (perm_range_lt hp.perm hget), cellOf_order hp hget]
        exact binIdx_eq_of_single _ hp.sorted op.spl hps.single q hq)
      (by
        intro v hv hne
        rw [col_colOf hv]
        have hmem : v ∈ op.order.toList := hp.perm.mem_iff.2 (List.mem_range.2 hv)
        have hget := getElem?_idxOf_of_mem hmem
        rw [cellOf_order hp hget]
        rcases Nat.lt_or_ge (binIdx op.binDividers.toList (op.order.toList.idxOf v)) op.spl with hlt | hge
        · exfalso
          have hq := (binIdx_lt_iff_of_single _ hp.sorted op.spl hps.single _).1 hlt
          apply hne _ hq
          rw [List.getD_eq_getElem?_getD, hget, Option.getD_some]
        · exact hge)
      (by
        intro a b ha hb e
        have ha' : a < op.order.toList.length := by omega
        have hb' : b < op.order.toList.length := by omega
        simp only [List.getD_eq_getElem?_getD, List.getElem?_eq_getElem ha', List.getElem?_eq_getElem hb',
          Option.getD_some] at e
        exact (List.getElem_inj hnd).mp e)
      p hpl
    rw [this, List.getD_eq_getElem?_getD, List.getElem?_eq_getElem (by omega : p < op.order.toList.length),
      Option.getD_some]
  have hoperm := IR.invOrder_perm hperm
  have hcert : x = certPos nb (IR.invOrder n (IR.nodeAt (irG n nb) rf χ vs).c) n := by
    rw [← hx, ← IR.cert_tab_invOrder hg hperm]
    exact cert_link hnb hoperm
  rw [hcert]
  exact worseTest_sound hval hvw hspl (by omega) (by rw [IR.invOrder_length]; exact hspl) hagree hcb
    (by rw [certPos_length hnb hsz hoperm, hcbl]) hwt

end CanonF
