import Mamba.Lemmas.SparseVertex
/-!
# SparseGraph.RemoveVertex refines `removeVertexG` (property C05)
-/
namespace GraphRep
open GraphSpec

/-- the renumbering of `RemoveVertex(i)` on one list element -/
def down (i : Nat) (z : Int) : Int := if z < (i : Int) then z else z - 1

/-- on a sorted list the lower-bound split of `renumber` is an element-wise map -/
theorem renumber_eq {l : List Int} (h : SInc l) (i : Nat) : Sparse.renumber i l = l.map (down i) := by
  induction l with
  | nil => rfl
  | cons y ys ih =>
    obtain ⟨hy, hys⟩ := sinc_cons h
    unfold Sparse.renumber
    simp only [searchInts_cons]
    by_cases hlt : y < (i : Int)
    · rw [if_pos hlt]
      simp only [List.take_succ_cons, List.drop_succ_cons, List.cons_append, List.map_cons]
      have := ih hys
      unfold Sparse.renumber at this
      simp only at this
      rw [this]
      simp [down, hlt]
    · rw [if_neg hlt]
      simp only [List.take_zero, List.drop_zero, List.nil_append]
      apply List.map_congr_left
      intro z hz
      have : ¬ z < (i : Int) := by
        rcases List.mem_cons.mp hz with rfl | hz
        · exact hlt
        · have := hy z hz; omega
      simp [down, this]

theorem down_lt {i : Nat} {a b : Int} (hab : a < b) (ha : a ≠ i) (hb : b ≠ i) : down i a < down i b := by
  unfold down; split <;> split <;> omega

theorem down_up (i v : Nat) : down i ((up i v : Nat) : Int) = (v : Int) := by
  unfold down up
  split
  · rename_i h; simp [h]
  · rename_i h
    have : ¬ ((v + 1 : Nat) : Int) < (i : Int) := by omega
    rw [if_neg this]; omega

theorem removeS_not_mem {l : List Int} (h : SInc l) {x : Int} (hx : x ∉ l) : removeS l x = l := by
  obtain ⟨s, m, _⟩ := removeS_spec h x
  apply sinc_ext s h
  intro z
  rw [m]
  exact ⟨fun hz => hz.1, fun hz => ⟨hz, fun e => hx (e ▸ hz)⟩⟩

theorem Sparse.removeVertex_spec {g : Sparse} (h : g.WF) {i : Nat} (hi : i < g.n) :
    ∃ g', g.removeVertex i = .ok g' ∧ g'.WF ∧ g'.abs = removeVertexG g.abs i := by
  have hw := Sparse.abs_wf h
  have hnd : (g.row i).Nodup := (h.sorted i hi).imp (fun hab => Int.ne_of_lt hab)
  obtain ⟨nb1, d1, hrun, s1, s2, g1, g2⟩ := Sparse.pairStep_loop (fun l => removeS l i) (· - 1) g.n
    (g.row i) g.nbrs g.deg hnd (h.inrange i hi) h.nbrs_size h.deg_size
  obtain ⟨nb2, hnb2, sz2, get2⟩ := eraseAt_ok (a := nb1) (v := i) (by omega)
  obtain ⟨d2, hd2, szd2, getd2⟩ := eraseAt_ok (a := d1) (v := i) (by omega)
  unfold Sparse.removeVertex
  rw [h.deg_len i hi, Sparse.row_get h hi]
  simp only
  rw [hrun]
  simp only
  rw [hnb2, hd2]
  simp only
  refine ⟨_, rfl, ?_⟩
  -- the list of `up i a` before renumbering
  have hpre : ∀ a, a < g.n - 1 → ∃ Rw, nb2[a]? = some Rw ∧ SInc Rw ∧
      (∀ z, z ∈ Rw ↔ z ∈ g.row (up i a) ∧ z ≠ (i : Int)) ∧
      (Rw.length : Int) = (g.row (up i a)).length - (if ((up i a : Nat) : Int) ∈ g.row i then 1 else 0) := by
    intro a ha
    have hua : up i a < g.n := by unfold up; split <;> omega
    obtain ⟨ss, mm, ll⟩ := removeS_spec (h.sorted _ hua) (i : Int)
    have hsym := h.symm i (up i a) hi hua
    rw [get2 a, g1 (up i a), Sparse.row_get h hua]
    simp only [Option.map_some]
    by_cases hm : ((up i a : Nat) : Int) ∈ g.row i
    · rw [if_pos hm]
      refine ⟨_, rfl, ss, mm, ?_⟩
      have hi' : (i : Int) ∈ g.row (up i a) := hsym.mp hm
      have : 0 < (g.row (up i a)).length := List.length_pos_of_mem hi'
      rw [ll, if_pos hi', if_pos hm]; omega
    · rw [if_neg hm]
      have hi' : (i : Int) ∉ g.row (up i a) := fun c => hm (hsym.mpr c)
      refine ⟨_, rfl, h.sorted _ hua, ?_, by rw [if_neg hm]; simp⟩
      intro z
      exact ⟨fun hz => ⟨hz, fun e => hi' (e ▸ hz)⟩, fun hz => hz.1⟩
  have hrow : ∀ a, a < g.n - 1 → ∃ Rw, Sparse.row ⟨g.n - 1, g.m - ((g.row i).length : Int),
        nb2.map (Sparse.renumber i), d2⟩ a = Rw.map (down i) ∧ SInc Rw ∧
      (∀ z, z ∈ Rw ↔ z ∈ g.row (up i a) ∧ z ≠ (i : Int)) ∧
      (Rw.length : Int) = (g.row (up i a)).length - (if ((up i a : Nat) : Int) ∈ g.row i then 1 else 0) := by
    intro a ha
    obtain ⟨Rw, e, p1, p2, p3⟩ := hpre a ha
    refine ⟨Rw, ?_, p1, p2, p3⟩
    unfold Sparse.row
    simp only
    rw [Array.getD_eq_getD_getElem?, Array.getElem?_map, e]
    simp only [Option.map_some, Option.getD_some]
    exact renumber_eq p1 i
  have hwG := removeVertexG_wf hw (v := i) hi
  apply Sparse.wf_of hwG
  · rfl
  · show (nb2.map _).size = g.n - 1
    rw [Array.size_map, sz2, s1]
  · show d2.size = g.n - 1
    rw [szd2, s2]
  · intro a ha
    obtain ⟨Rw, e, p1, p2, _⟩ := hrow a ha
    rw [e, SInc, List.pairwise_map]
    refine List.Pairwise.imp_of_mem ?_ p1
    intro x y hx hy hxy
    exact down_lt hxy ((p2 x).mp hx).2 ((p2 y).mp hy).2
  · intro a ha x
    have ha' : a < g.n - 1 := ha
    have hua : up i a < g.n := by unfold up; split <;> omega
    obtain ⟨Rw, e, _, p2, _⟩ := hrow a ha
    rw [e, List.mem_map]
    constructor
    · rintro ⟨z, hz, rfl⟩
      obtain ⟨hz1, hz2⟩ := (p2 z).mp hz
      obtain ⟨w, rfl, hwadj⟩ := (Sparse.mem_row h hua z).mp hz1
      have hwi : w ≠ i := fun e => hz2 (by rw [e])
      refine ⟨if w < i then w else w - 1, ?_, ?_⟩
      · unfold down; split <;> split <;> omega
      · show g.abs.adj (up i a) (up i (if w < i then w else w - 1)) = true
        have : up i (if w < i then w else w - 1) = w := by
          by_cases hwl : w < i
          · rw [if_pos hwl, up_lt hwl]
          · rw [if_neg hwl, up_ge (by omega)]; omega
        rw [this]; exact hwadj
    · rintro ⟨v, rfl, hv⟩
      have hv' : g.abs.adj (up i a) (up i v) = true := hv
      refine ⟨((up i v : Nat) : Int), (p2 _).mpr ⟨(Sparse.mem_row h hua _).mpr ⟨_, rfl, hv'⟩, ?_⟩, down_up i v⟩
      have := up_ne i v
      omega
  · intro a ha
    have ha' : a < g.n - 1 := ha
    have hua : up i a < g.n := by unfold up; split <;> omega
    obtain ⟨Rw, e, _, _, p3⟩ := hrow a ha
    rw [e, List.length_map, p3]
    show d2[a]? = _
    rw [getd2 a, g2 (up i a), h.deg_len _ hua]
    simp only [Option.map_some]
    split <;> simp
  · show g.m - ((g.row i).length : Int) = _
    have := m_removeVertexG hw (v := i) hi
    have hd : ((g.row i).length : Int) = (g.abs.deg i : Int) := by
      have := Sparse.deg_eq h hi
      rw [h.deg_len i hi] at this
      exact Option.some.inj this
    rw [h.m_eq, hd, ← this]; simp

end GraphRep
