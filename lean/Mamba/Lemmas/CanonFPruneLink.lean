import Mamba.Lemmas.CanonFTree
import Mamba.Lemmas.CanonFTreeCert
import Mamba.Lemmas.IRAut
import Mamba.Lemmas.IRClasses
/-!
# Equal-certificate leaves of the faithful model give colour-preserving automorphisms of the IR tree

Links `aut_of_cert` (`CanonFAut.lean`) with the IR-level pruning lemma `IR.certBelow_child_aut_iff` (`IRAut.lean`).
-/
namespace CanonF

theorem prl_getD_mem {o : List Nat} {p : Nat} (hp : p < o.length) : o.getD p 0 ∈ o := by
  rw [List.getD_eq_getElem?_getD, List.getElem?_eq_getElem hp, Option.getD_some]
  exact List.getElem_mem _

/-- an automorphism given as a list is a relabelling of the IR graph onto itself -/
theorem relabel_of_isAutL {n : Nat} {nb : Nbrs} {γ : List Nat} (hnb : NbOK nb n) (h : IsAutL nb n γ) :
    ∃ τ : Nat → Nat, IR.Relabel (irG n nb) (irG n nb) (fun v => γ.getD v 0) τ := by
  obtain ⟨hperm, hadj⟩ := h
  obtain ⟨hl, hnd, hmem⟩ := aut_perm_facts hperm
  have hleft : ∀ v, v < n → γ.idxOf (γ.getD v 0) = v := fun v hv => aut_idxOf_getD hnd (by omega)
  have hright : ∀ v, v < n → γ.getD (γ.idxOf v) 0 = v := fun v hv => aut_getD_idxOf ((hmem v).2 hv)
  have hσ : ∀ v, v < n → γ.getD v 0 < n := fun v hv => (hmem _).1 (prl_getD_mem (by omega))
  have hτ : ∀ v, v < n → γ.idxOf v < n := fun v hv => by
    rw [← hl]; exact List.idxOf_lt_length_of_mem ((hmem v).2 hv)
  refine ⟨fun w => γ.idxOf w, ?_⟩
  refine
    { n_eq := rfl
      left := hleft
      right := hright
      σ_lt := hσ
      τ_lt := hτ
      nbrs_lt := fun v _ w hw => (hnb.lt v w hw).2
      nbrs := ?_ }
  intro v hv
  show (nb.getD (γ.getD v 0) []).Perm ((nb.getD v []).map (fun v => γ.getD v 0))
  apply (List.perm_ext_iff_of_nodup (hnb.nodup _) ?_).2
  · intro a
    rw [List.mem_map]
    constructor
    · intro ha
      have han : a < n := (hnb.lt _ _ ha).2
      refine ⟨γ.idxOf a, ?_, hright a han⟩
      rw [hadj v (γ.idxOf a) hv (hτ a han), hright a han]
      exact ha
    · rintro ⟨w, hw, rfl⟩
      exact (hadj v w hv (hnb.lt _ _ hw).2).1 hw
  · apply List.Nodup.map_on _ (hnb.nodup v)
    intro a ha b hb e
    have han : a < n := (hnb.lt _ _ ha).2
    have hbn : b < n := (hnb.lt _ _ hb).2
    have := congrArg γ.idxOf e
    rwa [hleft a han, hleft b hbn] at this

/-- every node below `s` refines the colouring of `s` monotonically -/
theorem path_mono {n : Nat} {nb : Nbrs} (hnb : NbOK nb n) (rf : Nat) : ∀ (vs : List Nat) (s : IR.St),
    IR.IsPath (irG n nb) rf s vs → IR.Mono n s.c (IR.nodeAt (irG n nb) rf s vs).c := by
  intro vs
  induction vs with
  | nil => intro s _ u v _ _ h; exact h
  | cons v vs ih =>
    intro s hp
    obtain ⟨t, ht, hv, hp'⟩ := hp
    simp only [IR.nodeAt, ht]
    have m1 : IR.Mono (irG n nb).n s.c (IR.individualise (irG n nb) s t v).c :=
      IR.ind_mono s (IR.mem_cellMembers.1 hv).2
    have m2 : IR.Mono (irG n nb).n (IR.individualise (irG n nb) s t v).c (IR.childSt (irG n nb) rf s t v).c :=
      IR.refine_mono (irG_wf hnb) rf _
    exact (m1.trans m2).trans (ih _ hp')

/-- the leaf colouring `vertex ↦ position` of a vertex order is a permutation -/
theorem prl_isPerm_idxOf {n : Nat} {o : List Nat} (h : o.Perm (List.range n)) :
    IR.IsPerm n (IR.tab n (fun v => o.idxOf v)) := by
  obtain ⟨hl, hnd, hmem⟩ := aut_perm_facts h
  constructor
  · intro v hv
    rw [IR.col_tab _ hv, ← hl]
    exact List.idxOf_lt_length_of_mem ((hmem v).2 hv)
  · intro u v hu hv e
    rw [IR.col_tab _ hu, IR.col_tab _ hv] at e
    rw [← aut_getD_idxOf ((hmem u).2 hu), ← aut_getD_idxOf ((hmem v).2 hv), e]

/-- the automorphism read off two leaves below a node preserves the colouring of the node -/
theorem transport_preserves {n : Nat} {o1 o2 : List Nat} (h1 : o1.Perm (List.range n)) (h2 : o2.Perm (List.range n))
    {c0 : Array Nat}
    (hm1 : IR.Mono n c0 (IR.tab n (fun v => o1.idxOf v))) (hm2 : IR.Mono n c0 (IR.tab n (fun v => o2.idxOf v))) :
    ∀ v, v < n → IR.col c0 ((transport n o1 o2).getD v 0) = IR.col c0 v := by
  intro v hv
  obtain ⟨hl1, hnd1, hmem1⟩ := aut_perm_facts h1
  obtain ⟨hl2, hnd2, hmem2⟩ := aut_perm_facts h2
  have hi : o1.idxOf v < n := by rw [← hl1]; exact List.idxOf_lt_length_of_mem ((hmem1 v).2 hv)
  have hx : (transport n o1 o2).getD v 0 < n := by
    rw [aut_transport_getD hv]
    exact (hmem2 _).1 (prl_getD_mem (by omega))
  apply IR.same_class_of_leaves (prl_isPerm_idxOf h1) (prl_isPerm_idxOf h2) hm1 hm2 hv hx
  rw [IR.col_tab _ hx, IR.col_tab _ hv, aut_transport_getD hv]
  exact aut_idxOf_getD hnd2 (by omega)

/-- soundness core of the automorphism pruning: two leaves below the node `s` with the same certificate give the
automorphism `γ = transport n o1 o2`; the subtree of the child `γ v` has exactly the leaf certificates of the subtree of
the child `v` -/
theorem equal_leaves_subtrees {n : Nat} {nb : Nbrs} (hnb : NbOK nb n) (rf : Nat) {s : IR.St} {o1 o2 : List Nat}
    (h1 : o1.Perm (List.range n)) (h2 : o2.Perm (List.range n))
    (hm1 : IR.Mono n s.c (IR.tab n (fun v => o1.idxOf v))) (hm2 : IR.Mono n s.c (IR.tab n (fun v => o2.idxOf v)))
    (hc : certPos nb o1 n = certPos nb o2 n) {t v : Nat} (hv : v < n) (x : List Nat) :
    IR.CertBelow (irG n nb) rf (IR.childSt (irG n nb) rf s t ((transport n o1 o2).getD v 0)) x ↔
      IR.CertBelow (irG n nb) rf (IR.childSt (irG n nb) rf s t v) x := by
  obtain ⟨τ, R⟩ := relabel_of_isAutL hnb (aut_of_cert hnb h1 h2 hc)
  have hS : IR.SRel (irG n nb) (fun v => (transport n o1 o2).getD v 0) s s :=
    ⟨fun u hu => transport_preserves h1 h2 hm1 hm2 u hu, rfl, rfl⟩
  exact IR.certBelow_child_aut_iff R rf hS (t := t) (v := v) hv

end CanonF
