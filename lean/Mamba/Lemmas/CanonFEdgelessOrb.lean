import Mamba.Lemmas.CanonFEdgeless
import Mamba.Lemmas.DisjointArr

namespace CanonF

/-- the union–find returned by the `m == 0` shortcut: `[-2, 0, 0, …, 0]` -/
theorem edg_orbits_data {n : Nat} {st st' : Storage} {r : Res} (hn : n ≠ 0) (h : edgeless n st = .ok (r, st')) :
    ∃ ds : List Int, r.orbits = some ds ∧ ds.length = n ∧ ds[0]? = some (-2) ∧
      ∀ i, 0 < i → i < n → ds[i]? = some 0 := by
  unfold edgeless at h
  split at h
  · rename_i perm ds dsRest hperm hds
    have hsz : ds.size = n := by
      unfold dsSlice at hds
      split at hds
      · simp only [Outcome.ok.injEq, Prod.mk.injEq] at hds
        rw [← hds.1]; simp; omega
      · cases hds
    have key : ∀ dl : List Int,
        dl = ((ds.setIfInBounds 0 (-2)).mapIdx (fun i v => if 0 < i then 0 else v)).toList →
        dl.length = n ∧ dl[0]? = some (-2) ∧ ∀ i, 0 < i → i < n → dl[i]? = some 0 := by
      rintro dl rfl
      refine ⟨by simp [hsz], ?_, ?_⟩
      · have : 0 < ds.size := by omega
        rw [Array.getElem?_toList, Array.getElem?_mapIdx]
        simp [this]
      · intro i hi hin
        have : i < ds.size := by omega
        rw [Array.getElem?_toList, Array.getElem?_mapIdx]
        simp [this, hi, Nat.ne_of_lt hi]
    split at h
    · osplit h
      all_goals
        simp only [Outcome.ok.injEq, Prod.mk.injEq] at h
        rw [← h.1]
        exact ⟨_, rfl, key _ rfl⟩
    · cases h
    · cases h
  · cases h

theorem edg_rep_zero (D : Array Int) (h0 : D[0]? = some (-2))
    (hi : ∀ i, 0 < i → i < D.size → D[i]? = some 0) (a : Nat) (ha : a < D.size) : Disjoint.rep D a = 0 := by
  have p0 : (Disjoint.abs D).p 0 < 0 := by
    rw [Disjoint.abs_p]; simp [Array.getD_eq_getD_getElem?, h0]
  unfold Disjoint.rep Disjoint.Fn.rep
  rw [Disjoint.abs_n]
  obtain ⟨k, hk⟩ : ∃ k, D.size = k + 1 := ⟨D.size - 1, by omega⟩
  rw [hk]
  by_cases ha0 : a = 0
  · subst ha0
    simp [Disjoint.Fn.root, p0]
  · have pa : (Disjoint.abs D).p a = 0 := by
      rw [Disjoint.abs_p]; simp [Array.getD_eq_getD_getElem?, hi a (by omega) ha]
    rw [Disjoint.Fn.root, pa]
    simp only [Int.lt_irrefl, if_false, Int.toNat_zero]
    cases k with
    | zero => rfl
    | succ k => simp [Disjoint.Fn.root, p0]

theorem edgeless_orbits_all {n : Nat} {st st' : Storage} {r : Res} (hn : n ≠ 0) (h : edgeless n st = .ok (r, st')) :
    ∃ ds, r.orbits = some ds ∧ ds.length = n ∧
      ∀ a b, a < n → b < n → Disjoint.rep ds.toArray a = Disjoint.rep ds.toArray b := by
  obtain ⟨ds, ho, hl, h0, hi⟩ := edg_orbits_data hn h
  refine ⟨ds, ho, hl, ?_⟩
  have hz : ∀ a, a < n → Disjoint.rep ds.toArray a = 0 := by
    intro a ha
    apply edg_rep_zero
    · simpa using h0
    · intro i hi0 hin
      have := hi i hi0 (by simpa [hl] using hin)
      simpa using this
    · simpa [hl] using ha
  intro a b ha hb
  rw [hz a ha, hz b hb]

end CanonF
