import Mamba.Lemmas.DistanceSpanEdges
import Mamba.Lemmas.DistanceBiconStatic2
/-!
# Every simple cycle of the block lies in `Q`
-/
namespace GDist
open GraphSpec Model

variable {a : G}

theorem cycle_in_Q {st : PatonSt} {nt : List (Nat × Nat)} (F : PFinal a st nt)
    (hsym : ∀ u v, a.adj u v = a.adj v u) (hirr : ∀ v, a.adj v v = false) {Q : List (List Nat)}
    (hq : QInv st.fund Q) (hev : ∀ t ∈ Q, EvenSet a.n t) (c : List Nat) (hc : IsCycleSeq a c) :
    sortInts (cycCodes c) ∈ Q := by
  have hcc : IsCycCode a (sortInts (cycCodes c)) := ⟨c, hc, rfl⟩
  have h0s := isCycCode_strict hcc
  have h0e := isCycCode_even hcc
  have hmem0 : ∀ x, x ∈ sortInts (cycCodes c) ↔ x ∈ cycCodes c := fun x => mem_sortInts
  generalize ht0 : sortInts (cycCodes c) = t0 at h0s h0e hmem0 ⊢
  have h0ne : t0 ≠ [] := by
    intro h
    have : edgeCode (c.headD 0) (c.getLastD 0) ∈ t0 := (hmem0 _).2 (by simp [cycCodes])
    rw [h] at this; cases this
  obtain ⟨hlen3, hnd, hn, hch, hclose⟩ := hc
  -- the codes of the cycle are codes of edges of the graph
  have codes0 : ∀ x ∈ t0, TreeCode a st.T x ∨ ∃ e ∈ nt, x = edgeCode e.1 e.2 := by
    intro x hx
    have hx' := (hmem0 x).1 hx
    unfold cycCodes at hx'
    rcases List.mem_cons.1 hx' with h | h
    · have hcne : c ≠ [] := by
        intro h0; subst h0; simp at hlen3
      have hh : c.headD 0 ∈ c := by
        obtain ⟨y, t, rfl⟩ := List.exists_cons_of_ne_nil hcne; simp
      have hl : c.getLastD 0 ∈ c := by
        rw [List.getLastD_eq_getLast?, List.getLast?_eq_some_getLast hcne]
        exact List.getLast_mem _
      rw [h]
      exact edge_class F hsym hirr (hn _ hh) (hn _ hl) hclose
    · obtain ⟨x', y', hx'm, hy'm, hadj, hcx⟩ := mem_pathCodes_adj c hch x h
      rw [hcx]
      exact edge_class F hsym hirr (hn _ hx'm) (hn _ hy'm) (by rw [hsym]; exact hadj)
  -- the fundamental cycles whose non-tree edge lies on the cycle
  have hlen : st.fund.length = nt.length := F.pi.fnt.length_eq
  let Z := st.fund.zip nt
  let sel := Z.filter fun p => decide (edgeCode p.2.1 p.2.2 ∈ t0)
  have hZ1 : Z.map Prod.fst = st.fund := List.map_fst_zip (by omega)
  have hZ2 : Z.map Prod.snd = nt := List.map_snd_zip (by omega)
  have hselZ : ∀ p ∈ sel, p ∈ Z := fun p hp => (List.mem_filter.1 hp).1
  have hIsub : (sel.map Prod.fst).Sublist st.fund := by
    rw [← hZ1]; exact List.filter_sublist.map _
  have hsel_nt : ∀ e ∈ nt, edgeCode e.1 e.2 ∈ t0 → ∃ p ∈ sel, p.2 = e := by
    intro e he hin
    rw [← hZ2] at he
    obtain ⟨p, hp, rfl⟩ := List.mem_map.1 he
    exact ⟨p, List.mem_filter.2 ⟨hp, by simpa using hin⟩, rfl⟩
  have hocc : ∀ e ∈ nt, occ (sel.map Prod.fst) (edgeCode e.1 e.2) = if edgeCode e.1 e.2 ∈ t0 then 1 else 0 := by
    intro e he
    unfold occ
    rw [List.countP_map]
    have h1 : sel.countP ((fun f => decide (edgeCode e.1 e.2 ∈ f)) ∘ Prod.fst)
        = sel.countP ((fun e' => e' == e) ∘ Prod.snd) := by
      apply List.countP_congr
      intro p hp
      have hpZ : (p.1, p.2) ∈ st.fund.zip nt := hselZ p hp
      simp only [Function.comp, decide_eq_true_eq, beq_iff_eq]
      rw [fund_private F hsym hirr hpZ he]
      exact ⟨fun h => h.symm, fun h => h.symm⟩
    rw [h1, ← List.countP_map]
    have hnd2 : (sel.map Prod.snd).Nodup := by
      have : (sel.map Prod.snd).Sublist nt := by rw [← hZ2]; exact List.filter_sublist.map _
      exact F.pi.ntnd.sublist this
    have := hnd2.count (a := e)
    rw [List.count] at this
    rw [this]
    by_cases hin : edgeCode e.1 e.2 ∈ t0
    · obtain ⟨p, hp, hpe⟩ := hsel_nt e he hin
      have : e ∈ sel.map Prod.snd := List.mem_map.2 ⟨p, hp, hpe⟩
      simp [this, hin]
    · have : e ∉ sel.map Prod.snd := by
        intro hm
        obtain ⟨p, hp, hpe⟩ := List.mem_map.1 hm
        have := (List.mem_filter.1 hp).2
        rw [hpe] at this
        exact hin (by simpa using this)
      simp [this, hin]
  have hnd0 : t0.Nodup := h0s.imp (fun h => Nat.ne_of_lt h)
  have hI : sel.map Prod.fst ≠ [] := by
    intro hI
    have hsel : sel = [] := by simpa using hI
    apply h0ne
    apply tree_even_empty F.o hnd0 _ h0e
    intro x hx
    rcases codes0 x hx with h | ⟨e, he, hxe⟩
    · exact h
    · exfalso
      obtain ⟨p, hp, _⟩ := hsel_nt e he (hxe ▸ hx)
      rw [hsel] at hp; cases hp
  obtain ⟨t, htQ, hts, htm⟩ := hq.complete _ hI hIsub
  obtain ⟨hDs, hDm⟩ := sXor_spec t t0 hts h0s
  have hDe : EvenSet a.n (sXor t t0) := even_sXor (hev t htQ) h0e
  have hDtree : ∀ x ∈ sXor t t0, TreeCode a st.T x := by
    intro x hx
    rcases (hDm x).1 hx with ⟨hxt, hx0⟩ | ⟨hxt, hx0⟩
    · have hodd := (htm x).1 hxt
      have hpos : 0 < occ (sel.map Prod.fst) x := by omega
      unfold occ at hpos
      rw [List.countP_pos_iff] at hpos
      obtain ⟨f, hf, hxf⟩ := hpos
      obtain ⟨p, hp, rfl⟩ := List.mem_map.1 hf
      have hxf' : x ∈ p.1 := by simpa using hxf
      have hR : FundOf a st.T p.1 p.2 := (List.forall₂_iff_zip.1 F.pi.fnt).2 (hselZ p hp)
      rcases hR.2 x hxf' with h | h
      · exfalso
        have := (List.mem_filter.1 hp).2
        rw [← h] at this
        exact hx0 (by simpa using this)
      · exact h
    · rcases codes0 x hx0 with h | ⟨e, he, hxe⟩
      · exact h
      · exfalso
        have := hocc e he
        rw [← hxe, if_pos hx0] at this
        exact hxt ((htm x).2 (by omega))
  have hD : sXor t t0 = [] := tree_even_empty F.o (hDs.imp (fun h => Nat.ne_of_lt h)) hDtree hDe
  have heq : t = t0 := by
    apply strict_sorted_ext hts h0s
    intro x
    have := hDm x
    rw [hD] at this
    simp only [List.not_mem_nil, false_iff, not_or, not_and, not_not] at this
    exact ⟨this.1, fun h => by_contra fun hn => this.2 hn h⟩
  rw [← heq]; exact htQ

end GDist

namespace GDist
open GraphSpec Model

/-- **spanning half of Paton's theorem, in the terms of the algorithm**: on a connected simple graph every simple
cycle (as sorted edge-code list) is an element of Gibbs' `Q`, i.e. the XOR of a non-empty set of fundamental cycles -/
theorem cycles_in_Q (a : G) (hsym : ∀ u v, a.adj u v = a.adj v u) (hirr : ∀ v, a.adj v v = false)
    (hn : 0 < a.n) (hconn : ∀ x, x < a.n → Reach a 0 x) (fuel : Nat) (st : PatonSt)
    (hres : patonLoop a fuel (patonInit a.n) = .ok st)
    (f0 : List Nat) (fs : List (List Nat)) (hfund : st.fund = f0 :: fs) (gs : GibbsSt)
    (hg : gibbsLoop fs { S := [f0], Q := [f0] } = .ok gs) (c : List Nat) (hc : IsCycleSeq a c) :
    sortInts (cycCodes c) ∈ gs.Q ∧
      ∃ I, I ≠ [] ∧ I.Sublist st.fund ∧ IsXorOf I (sortInts (cycCodes c)) := by
  obtain ⟨nt, F⟩ := paton_final a hsym hirr hn hconn fuel st hres
  obtain ⟨hq, hev, _⟩ := gibbs_on_block a hsym hirr hn fuel st hres f0 fs hfund gs hg
  rw [← hfund] at hq
  have hm := cycle_in_Q F hsym hirr hq hev c hc
  exact ⟨hm, hq.sound _ hm⟩

end GDist
