import Mamba.Lemmas.CanonFPrune
import Mamba.Lemmas.IRCanon
/-!
# `ints.Compare` versus the lexicographic linear order on `List Nat` (the order of `IR.maxCert`)
-/
namespace CanonF

theorem compare_eq_one_iff_lt (a b : List Nat) : compare a b = 1 ↔ b < a := by
  induction a generalizing b with
  | nil => cases b <;> simp [compare]
  | cons p as ih =>
    cases b with
    | nil => simp [compare]
    | cons q bs =>
      rw [List.cons_lt_cons_iff]
      simp only [compare]
      by_cases h1 : p > q
      · simp [h1]
      · by_cases h2 : p < q
        · have : ¬ q = p := by omega
          simp [h1, h2, this]
        · have : q = p := by omega
          subst this
          simp [ih bs]

theorem compare_ne_one_iff_le (a b : List Nat) : compare a b ≠ 1 ↔ a ≤ b := by
  rw [Ne, compare_eq_one_iff_lt, not_lt]

theorem compare_eq_neg_one_iff_lt (a b : List Nat) : compare a b = -1 ↔ a < b := by
  rw [compare_eq_neg_one_iff, compare_eq_one_iff_lt]

example (a b : List Nat) (h : compare a b ≠ 1) : max a b = b := max_eq_right ((compare_ne_one_iff_le a b).1 h)
example (a b : List Nat) (h : compare a b = 1) : (if a < b then b else a) = a := by
  rw [IR.mx_eq_max]; exact max_eq_left (le_of_lt ((compare_eq_one_iff_lt a b).1 h))

end CanonF
