import Mamba.Lemmas.CanonFPhase
import Mamba.Lemmas.SortIntsUnionM
import Mamba.Lemmas.SortIntsAlgebra
/-!
# The equitable refinement `refine` (Go: `equitableRefinementProcedure`) keeps the partition invariants

Main results: `refine_inv`, `refine_not_worse`, `refine_phase1`, `refine_no_panic_partial`.
The stable sort is used through the hypothesis `StablePerm` (proved in CanonFSort.lean as `stable_perm`).
-/
namespace CanonF

/-- what is needed from the hand-written stable sort (proved in CanonFSort.lean as `stable_perm`) -/
def StablePerm : Prop := ∀ (d d' : Sl KV) (n : Nat), stable d n = .ok d' →
  d'.len = d.len ∧ d'.data.size = d.data.size ∧ d'.toList.Perm d.toList

/-- what is needed from the stable sort for the absence of panics (`stable_no_panic`) -/
def StableTotal : Prop := ∀ d : Sl KV, d.WF → ∃ d', stable d d.len = .ok d'

/-! ## `splitCell` cut into stages (continuation style), `splitCell_eq` is `rfl` -/

def scTail (nb : Nbrs) (cb fl : Sl Nat) (opts : Options) (j : Nat) (op : OP) (sc : Scratch) :
    Outcome (Bool × OP × Scratch) :=
  let ex : Outcome (Bool × OP) := if j = op.spl then expandValue nb cb fl op else .ok (false, op)
  match ex with
  | .ok (true, op) => .ok (true, op, sc)
  | .ok (false, op) =>
    if opts.checkViability then
      match op.inCell.get (op.order.len - 1) with
      | .ok cell =>
        if op.order.len = 0 then .panic else      -- Go: index -1
        match viabilityLoop op.inCell cell 64 0 (opts.viableBits % 2 ^ 64) with
        | .ok r => .ok (r, op, sc)
        | .panic => .panic
        | .outOfFuel => .outOfFuel
      | .panic => .panic
      | .outOfFuel => .outOfFuel
    else .ok (false, op, sc)
  | .panic => .panic
  | .outOfFuel => .outOfFuel

def scUpd2 (nb : Nbrs) (cb fl : Sl Nat) (opts : Options) (j : Nat) (op : OP) (sc : Scratch)
    (dws : Sl KV) (order nbs : Sl Nat) (nbsIndex : Nat) (btc : Sl Int) (bd : Sl Nat) : Outcome (Bool × OP × Scratch) :=
  match op.binAges.reslice (op.binAges.len + nbs.len) with
  | .ok ages =>
    match ages.copySelf (j + nbs.len) j ages.len with
    | .ok ages =>
      match forRange (fun i (a : Sl Int) => a.set (j + i) op.age) nbs.len 0 ages with
      | .ok ages =>
        match sc.space.reslice (nbsIndex + 1) with
        | .ok space =>
          match forRange (fun k (s : Sl Nat) => s.set (k - j) k) (nbsIndex + 1) j space with
          | .ok space =>
            match unionSl btc (space.toList.map Int.ofNat) with
            | .ok btc =>
              let op := { op with order := order, binsToCheck := btc, binDividers := bd, binAges := ages }
              match recomputeInCell op with
              | .ok op =>
                let sc := { sc with dws := dws, nbs := nbs, space := space }
                scTail nb cb fl opts j op sc
              | .panic => .panic
              | .outOfFuel => .outOfFuel
            | .panic => .panic
            | .outOfFuel => .outOfFuel
          | .panic => .panic
          | .outOfFuel => .outOfFuel
        | .panic => .panic
        | .outOfFuel => .outOfFuel
      | .panic => .panic
      | .outOfFuel => .outOfFuel
    | .panic => .panic
    | .outOfFuel => .outOfFuel
  | .panic => .panic
  | .outOfFuel => .outOfFuel

def scUpd1 (nb : Nbrs) (cb fl : Sl Nat) (opts : Options) (j : Nat) (op : OP) (sc : Scratch)
    (dws : Sl KV) (order nbs : Sl Nat) (nbsIndex : Nat) : Outcome (Bool × OP × Scratch) :=
  match nbs.reslice nbsIndex with
  | .ok nbs =>
    match shiftBtc j nbsIndex op.binsToCheck.len op.binsToCheck with
    | .ok btc =>
      match op.binDividers.reslice (op.binDividers.len + nbs.len) with
      | .ok bd =>
        match bd.copySelf (j + nbs.len) j bd.len with
        | .ok bd =>
          match bd.copyAt j nbs.toList with
          | .ok bd => scUpd2 nb cb fl opts j op sc dws order nbs nbsIndex btc bd
          | .panic => .panic
          | .outOfFuel => .outOfFuel
        | .panic => .panic
        | .outOfFuel => .outOfFuel
      | .panic => .panic
      | .outOfFuel => .outOfFuel
    | .panic => .panic
    | .outOfFuel => .outOfFuel
  | .panic => .panic
  | .outOfFuel => .outOfFuel

def scWrite (nb : Nbrs) (n : Nat) (cb fl : Sl Nat) (opts : Options) (j : Nat) (op : OP) (sc : Scratch)
    (binStart binSize : Nat) (dws : Sl KV) : Outcome (Bool × OP × Scratch) :=
  match sc.nbs.reslice n, dws.get 0 with
  | .ok nbs, .ok kv0 =>
    match op.order.set binStart kv0.2 with
    | .ok order =>
      match forRange (writeBackStep dws binStart) (binSize - 1) 1 (order, nbs, 0) with
      | .ok (order, nbs, nbsIndex) => scUpd1 nb cb fl opts j op sc dws order nbs nbsIndex
      | .panic => .panic
      | .outOfFuel => .outOfFuel
    | .panic => .panic
    | .outOfFuel => .outOfFuel
  | _, _ => .panic

def scFill (nb : Nbrs) (n : Nat) (cb fl : Sl Nat) (opts : Options) (j : Nat) (op : OP) (sc : Scratch)
    (binStart binSize mc nm : Nat) (dws0 : Sl KV) : Outcome (Bool × OP × Scratch) :=
  let filled : Outcome (Sl KV) :=
    if mc = 1 then
      let oneIndex : Option Nat := if nm ≤ binSize then some (binSize - nm) else none
      match forRange (fillOnesStep op.order sc.timesSeen binStart) binSize 0 (dws0, 0, oneIndex) with
      | .ok (dws, _, _) => .ok dws
      | .panic => .panic
      | .outOfFuel => .outOfFuel
    else
      match forRange (fillStep op.order sc.timesSeen binStart) binSize 0 dws0 with
      | .ok dws => stable dws dws.len
      | o => o
  match filled with
  | .ok dws => scWrite nb n cb fl opts j op sc binStart binSize dws
  | .panic => .panic
  | .outOfFuel => .outOfFuel

def scHead (nb : Nbrs) (n : Nat) (cb fl : Sl Nat) (opts : Options) (j : Nat) (op : OP) (sc : Scratch) :
    Outcome (Bool × OP × Scratch) :=
  let bs : Outcome Nat := if j > 0 then op.binDividers.get (j - 1) else .ok 0
  match bs, op.binDividers.get j with
  | .ok binStart, .ok dj =>
    let skip : Outcome Bool :=
      if dj = binStart + 1 then .ok true
      else
        match sc.maxCell.get j with
        | .ok mc =>
          if mc = 0 then .ok true
          else
            match sc.numberOfMax.get j with
            | .ok c => .ok (decide (binStart ≤ dj ∧ c = dj - binStart))
            | .panic => .panic
            | .outOfFuel => .outOfFuel
        | .panic => .panic
        | .outOfFuel => .outOfFuel
    match skip with
    | .ok true => .ok (false, op, sc)
    | .ok false =>
      if dj < binStart then .panic else
      match sc.maxCell.get j, sc.numberOfMax.get j, sc.dws.reslice (dj - binStart) with
      | .ok mc, .ok nm, .ok dws0 => scFill nb n cb fl opts j op sc binStart (dj - binStart) mc nm dws0
      | _, _, _ => .panic
    | .panic => .panic
    | .outOfFuel => .outOfFuel
  | _, _ => .panic

theorem splitCell_false (nb : Nbrs) (n : Nat) (cb fl : Sl Nat) (opts : Options) (j : Nat) (op : OP) (sc : Scratch) :
    splitCell nb n cb fl opts j (false, op, sc) = scHead nb n cb fl opts j op sc := rfl

theorem splitCell_true (nb : Nbrs) (n : Nat) (cb fl : Sl Nat) (opts : Options) (j : Nat) (op : OP) (sc : Scratch) :
    splitCell nb n cb fl opts j (true, op, sc) = .ok (true, op, sc) := rfl


/-! ## value views of slices -/

/-- `s[v]` of the visible part, `0` outside -/
def rfTv (s : Sl Nat) (v : Nat) : Nat := (s.toList[v]?).getD 0

/-- `s.data[c]`, `0` outside the backing array -/
def rfDv (s : Sl Nat) (c : Nat) : Nat := (s.data[c]?).getD 0

theorem rfTv_of_get {s : Sl Nat} {v t : Nat} (h : s.get v = .ok t) : rfTv s v = t := by
  unfold rfTv; rw [Sl.get_eq_toList.1 h]; rfl

theorem rfDv_of_get {s : Sl Nat} {v t : Nat} (h : s.get v = .ok t) : rfDv s v = t := by
  unfold rfDv; rw [(Sl.get_eq_ok.1 h).2]; rfl

theorem rfTv_set {s s' : Sl Nat} {i x : Nat} (h : s.set i x = .ok s') (u : Nat) :
    rfTv s' u = if u = i then x else rfTv s u := by
  unfold rfTv
  rw [Sl.getElem?_toList, Sl.getElem?_toList, Sl.set_data h, Sl.set_len h]
  obtain ⟨⟨h1, _⟩, _⟩ := Sl.set_eq_ok.1 h
  by_cases hu : u = i
  · subst hu; simp [h1]
  · simp [hu]

theorem rfDv_set {s s' : Sl Nat} {i x : Nat} (h : s.set i x = .ok s') (u : Nat) :
    rfDv s' u = if u = i then x else rfDv s u := by
  unfold rfDv
  rw [Sl.set_data h]
  by_cases hu : u = i
  · subst hu; simp
  · simp [hu]

theorem rf_fill0_data (s : Sl Nat) (i : Nat) :
    s.fill0.data[i]? = if i < s.len then (if i < s.data.size then some 0 else none) else s.data[i]? := by
  simp only [Sl.fill0, Array.getElem?_mapIdx]
  by_cases h1 : i < s.len
  · by_cases h2 : i < s.data.size
    · simp [h1, h2]
    · simp [h1, h2]
  · simp only [h1, if_false]
    cases s.data[i]? <;> simp

theorem rf_fill0_len (s : Sl Nat) : s.fill0.len = s.len := rfl
theorem rf_fill0_size (s : Sl Nat) : s.fill0.data.size = s.data.size := by simp [Sl.fill0]

theorem rfTv_fill0 (s : Sl Nat) (v : Nat) : rfTv s.fill0 v = 0 := by
  unfold rfTv
  rw [Sl.getElem?_toList, rf_fill0_data, rf_fill0_len]
  by_cases h1 : v < s.len
  · by_cases h2 : v < s.data.size <;> simp [h1, h2]
  · simp [h1]

/-- same header, same entries beyond the length -/
def SlFrame {α : Type} (s s' : Sl α) : Prop :=
  s'.len = s.len ∧ s'.data.size = s.data.size ∧ ∀ i, s.len ≤ i → s'.data[i]? = s.data[i]?

theorem SlFrame.refl {α : Type} (s : Sl α) : SlFrame s s := ⟨rfl, rfl, fun _ _ => rfl⟩

theorem SlFrame.trans {α : Type} {s t u : Sl α} (h1 : SlFrame s t) (h2 : SlFrame t u) : SlFrame s u :=
  ⟨h2.1.trans h1.1, h2.2.1.trans h1.2.1, fun i hi => (h2.2.2 i (by rw [h1.1]; exact hi)).trans (h1.2.2 i hi)⟩

theorem SlFrame.of_set {α : Type} {s s' : Sl α} {i : Nat} {x : α} (h : s.set i x = .ok s') : SlFrame s s' := by
  refine ⟨Sl.set_len h, Sl.set_cap h, ?_⟩
  intro k hk
  obtain ⟨⟨h1, _⟩, _⟩ := Sl.set_eq_ok.1 h
  rw [Sl.set_data h, if_neg (by omega)]

theorem rf_countP_range_update (n v : Nat) (hv : v < n) (p p' : Nat → Bool) (h : ∀ u, u < n → u ≠ v → p' u = p u) :
    (List.range n).countP p' + (if p v then 1 else 0) = (List.range n).countP p + (if p' v then 1 else 0) := by
  induction n with
  | zero => omega
  | succ n ih =>
    rw [List.range_succ, List.countP_append, List.countP_append, List.countP_singleton, List.countP_singleton]
    by_cases hvn : v = n
    · subst hvn
      have : (List.range v).countP p' = (List.range v).countP p := by
        apply List.countP_congr
        intro x hx
        rw [h x (by simp at hx; omega) (by simp at hx; omega)]
      rw [this]; omega
    · have := ih (by omega) (fun u hu huv => h u (by omega) huv)
      rw [h n (by omega) (by omega)]
      omega

/-- the counting invariant for one cell `c` with maximum `M` attained `N` times -/
def CellInv (n : Nat) (ic ts : Sl Nat) (M N c : Nat) : Prop :=
  (∀ v, v < n → ic.toList[v]? = some c → rfTv ts v ≤ M) ∧
  (0 < M → N = (List.range n).countP (fun v => decide (ic.toList[v]? = some c) && decide (rfTv ts v = M))) ∧
  (0 < M → 0 < N)

/-- the invariant of the counting loop -/
def CountInv (n : Nat) (ic ts mc nm : Sl Nat) : Prop :=
  ∀ c, c < mc.len → CellInv n ic ts (rfDv mc c) (rfDv nm c) c

theorem cellInv_other {n : Nat} {ic ts ts' : Sl Nat} {M N c cell v : Nat}
    (h : CellInv n ic ts M N c) (hv : ic.toList[v]? = some cell) (hc : c ≠ cell)
    (hts : ∀ u, u ≠ v → rfTv ts' u = rfTv ts u) : CellInv n ic ts' M N c := by
  have key : ∀ u, ic.toList[u]? = some c → rfTv ts' u = rfTv ts u := by
    intro u hu
    apply hts
    intro e; subst e
    rw [hv] at hu; exact hc (Option.some.inj hu).symm
  refine ⟨fun u hu hcu => by rw [key u hcu]; exact h.1 u hu hcu, fun hM => ?_, h.2.2⟩
  rw [h.2.1 hM]
  apply List.countP_congr
  intro u _
  by_cases hcu : ic.toList[u]? = some c
  · simp [hcu, key u hcu]
  · simp [hcu]

theorem cellInv_gt {n : Nat} {ic ts ts' : Sl Nat} {M N cell v t : Nat}
    (h : CellInv n ic ts M N cell) (hvn : v < n) (hv : ic.toList[v]? = some cell)
    (ht : rfTv ts v = t) (ht' : rfTv ts' v = t + 1) (hts : ∀ u, u ≠ v → rfTv ts' u = rfTv ts u)
    (hgt : t + 1 > M) : CellInv n ic ts' (t + 1) 1 cell := by
  refine ⟨?_, fun _ => ?_, fun _ => Nat.one_pos⟩
  · intro u hu hcu
    by_cases huv : u = v
    · subst huv; omega
    · rw [hts u huv]; have := h.1 u hu hcu; omega
  · have hupd := rf_countP_range_update n v hvn
      (fun _ => false)
      (fun u => decide (ic.toList[u]? = some cell) && decide (rfTv ts' u = t + 1))
      (by
        intro u h1 huv
        by_cases hcu : ic.toList[u]? = some cell
        · have := h.1 u h1 hcu
          rw [hts u huv]
          have : rfTv ts u ≠ t + 1 := by omega
          simp [this]
        · simp [hcu])
    simp only [hv, ht', decide_true, Bool.and_self, if_true, Bool.false_eq_true, if_false] at hupd
    have : (List.range n).countP (fun _ => false) = 0 := by simp
    omega


theorem cellInv_eq {n : Nat} {ic ts ts' : Sl Nat} {M N cell v t : Nat}
    (h : CellInv n ic ts M N cell) (hvn : v < n) (hv : ic.toList[v]? = some cell)
    (ht : rfTv ts v = t) (ht' : rfTv ts' v = t + 1) (hts : ∀ u, u ≠ v → rfTv ts' u = rfTv ts u)
    (heq : t + 1 = M) : CellInv n ic ts' M (N + 1) cell := by
  refine ⟨?_, fun hM => ?_, fun _ => Nat.succ_pos _⟩
  · intro u hu hcu
    by_cases huv : u = v
    · subst huv; omega
    · rw [hts u huv]; exact h.1 u hu hcu
  · have hupd := rf_countP_range_update n v hvn
      (fun u => decide (ic.toList[u]? = some cell) && decide (rfTv ts u = M))
      (fun u => decide (ic.toList[u]? = some cell) && decide (rfTv ts' u = M))
      (by intro u _ huv; simp only [hts u huv])
    have h1 : rfTv ts v ≠ M := by omega
    have h2 : rfTv ts' v = M := by omega
    simp only [hv, h1, h2, decide_true, decide_false, Bool.and_self, Bool.and_false, if_true, Bool.false_eq_true,
      if_false] at hupd
    rw [h.2.1 hM]; omega

theorem cellInv_lt {n : Nat} {ic ts ts' : Sl Nat} {M N cell v t : Nat}
    (h : CellInv n ic ts M N cell) (hvn : v < n) (hv : ic.toList[v]? = some cell)
    (ht : rfTv ts v = t) (ht' : rfTv ts' v = t + 1) (hts : ∀ u, u ≠ v → rfTv ts' u = rfTv ts u)
    (hlt : t + 1 < M) : CellInv n ic ts' M N cell := by
  refine ⟨?_, fun hM => ?_, h.2.2⟩
  · intro u hu hcu
    by_cases huv : u = v
    · subst huv; omega
    · rw [hts u huv]; exact h.1 u hu hcu
  · have hupd := rf_countP_range_update n v hvn
      (fun u => decide (ic.toList[u]? = some cell) && decide (rfTv ts u = M))
      (fun u => decide (ic.toList[u]? = some cell) && decide (rfTv ts' u = M))
      (by intro u _ huv; simp only [hts u huv])
    have h1 : rfTv ts v ≠ M := by omega
    have h2 : rfTv ts' v ≠ M := by omega
    simp only [hv, h1, h2, decide_true, decide_false, Bool.and_false, Bool.false_eq_true, if_false] at hupd
    rw [h.2.1 hM]; omega

/-- one increment keeps the counting invariant; the three slices keep their headers and their invisible parts -/
theorem countStep_inv {n : Nat} {ic ts mc nm ts' mc' nm' : Sl Nat} {v : Nat} (hic : ic.len ≤ n)
    (hI : CountInv n ic ts mc nm) (h : countStep ic v (ts, mc, nm) = .ok (ts', mc', nm')) :
    CountInv n ic ts' mc' nm' ∧ SlFrame ts ts' ∧ SlFrame mc mc' ∧ SlFrame nm nm' := by
  unfold countStep at h
  dsimp only at h
  cases hg : ts.get v with
  | ok t =>
    cases hs : ts.set v (t + 1) with
    | ok ts1 =>
      cases hc : ic.get v with
      | ok cell =>
        cases hm : mc.get cell with
        | ok m =>
          rw [hg] at h; dsimp only at h; rw [hs, hc] at h; dsimp only at h; rw [hm] at h; dsimp only at h
          have hvn : v < n := Nat.lt_of_lt_of_le (Sl.get_lt hc) hic
          have hv : ic.toList[v]? = some cell := Sl.get_eq_toList.1 hc
          have ht : rfTv ts v = t := rfTv_of_get hg
          have ht' : rfTv ts1 v = t + 1 := by rw [rfTv_set hs, if_pos rfl]
          have hts : ∀ u, u ≠ v → rfTv ts1 u = rfTv ts u := fun u hu => by rw [rfTv_set hs, if_neg hu]
          have hcl : cell < mc.len := Sl.get_lt hm
          have hdm : rfDv mc cell = m := rfDv_of_get hm
          have hcell := hI cell hcl
          rw [hdm] at hcell
          split at h
          · -- new maximum
            rename_i hgt
            cases hn1 : nm.set cell 1 with
            | ok nm1 =>
              cases hm1 : mc.set cell (t + 1) with
              | ok mc1 =>
                rw [hn1, hm1] at h
                simp only [Outcome.ok.injEq, Prod.mk.injEq] at h
                obtain ⟨rfl, rfl, rfl⟩ := h
                refine ⟨?_, SlFrame.of_set hs, SlFrame.of_set hm1, SlFrame.of_set hn1⟩
                intro c hc'
                rw [Sl.set_len hm1] at hc'
                rw [rfDv_set hm1, rfDv_set hn1]
                by_cases hcc : c = cell
                · subst hcc
                  rw [if_pos rfl, if_pos rfl]
                  exact cellInv_gt hcell hvn hv ht ht' hts hgt
                · rw [if_neg hcc, if_neg hcc]
                  exact cellInv_other (hI c hc') hv hcc hts
              | panic => rw [hn1, hm1] at h; simp at h
              | outOfFuel => rw [hn1, hm1] at h; simp at h
            | panic => rw [hn1] at h; simp at h
            | outOfFuel => rw [hn1] at h; simp at h
          · rename_i hngt
            split at h
            · rename_i heq
              cases hgn : nm.get cell with
              | ok cnt =>
                rw [hgn] at h; dsimp only at h
                cases hn1 : nm.set cell (cnt + 1) with
                | ok nm1 =>
                  rw [hn1] at h
                  simp only [Outcome.ok.injEq, Prod.mk.injEq] at h
                  obtain ⟨rfl, rfl, rfl⟩ := h
                  refine ⟨?_, SlFrame.of_set hs, SlFrame.refl _, SlFrame.of_set hn1⟩
                  intro c hc'
                  rw [rfDv_set hn1]
                  by_cases hcc : c = cell
                  · subst hcc
                    rw [if_pos rfl, hdm]
                    have := rfDv_of_get hgn
                    rw [this] at hcell
                    exact cellInv_eq hcell hvn hv ht ht' hts heq
                  · rw [if_neg hcc]
                    exact cellInv_other (hI c hc') hv hcc hts
                | panic => rw [hn1] at h; simp at h
                | outOfFuel => rw [hn1] at h; simp at h
              | panic => rw [hgn] at h; simp at h
              | outOfFuel => rw [hgn] at h; simp at h
            · rename_i hne
              simp only [Outcome.ok.injEq, Prod.mk.injEq] at h
              obtain ⟨rfl, rfl, rfl⟩ := h
              refine ⟨?_, SlFrame.of_set hs, SlFrame.refl _, SlFrame.refl _⟩
              intro c hc'
              by_cases hcc : c = cell
              · subst hcc
                rw [hdm]
                exact cellInv_lt hcell hvn hv ht ht' hts (by omega)
              · exact cellInv_other (hI c hc') hv hcc hts
        | panic => rw [hg] at h; dsimp only at h; rw [hs, hc] at h; dsimp only at h; rw [hm] at h; simp at h
        | outOfFuel => rw [hg] at h; dsimp only at h; rw [hs, hc] at h; dsimp only at h; rw [hm] at h; simp at h
      | panic => rw [hg] at h; dsimp only at h; rw [hs, hc] at h; simp at h
      | outOfFuel => rw [hg] at h; dsimp only at h; rw [hs, hc] at h; simp at h
    | panic => rw [hg] at h; dsimp only at h; rw [hs] at h; simp at h
    | outOfFuel => rw [hg] at h; dsimp only at h; rw [hs] at h; simp at h
  | panic => rw [hg] at h; simp at h
  | outOfFuel => rw [hg] at h; simp at h


/-- the state predicate carried through the counting loops -/
def CountSt (n : Nat) (ic ts mc nm : Sl Nat) (st : Sl Nat × Sl Nat × Sl Nat) : Prop :=
  CountInv n ic st.1 st.2.1 st.2.2 ∧ SlFrame ts st.1 ∧ SlFrame mc st.2.1 ∧ SlFrame nm st.2.2

theorem countStep_st {n : Nat} {ic ts mc nm : Sl Nat} (hic : ic.len ≤ n) (v : Nat) (st st' : Sl Nat × Sl Nat × Sl Nat)
    (hI : CountSt n ic ts mc nm st) (h : countStep ic v st = .ok st') : CountSt n ic ts mc nm st' := by
  obtain ⟨a, b, c⟩ := st
  obtain ⟨a', b', c'⟩ := st'
  obtain ⟨h1, h2, h3, h4⟩ := hI
  obtain ⟨g1, g2, g3, g4⟩ := countStep_inv hic h1 h
  exact ⟨g1, h2.trans g2, h3.trans g3, h4.trans g4⟩

theorem countBinStep_st {n : Nat} {ic ts mc nm : Sl Nat} (hic : ic.len ≤ n) (nb : Nbrs) (order : Sl Nat) (w : Nat)
    (st st' : Sl Nat × Sl Nat × Sl Nat)
    (hI : CountSt n ic ts mc nm st) (h : countBinStep nb order ic w st = .ok st') : CountSt n ic ts mc nm st' := by
  unfold countBinStep at h
  osplit h
  exact forList_inv (countStep ic) (CountSt n ic ts mc nm) _ st st' hI
    (fun x s s' _ hs hf => countStep_st hic x s s' hs hf) h

theorem countLoop_st {n : Nat} {ic ts mc nm : Sl Nat} (hic : ic.len ≤ n) (nb : Nbrs) (order : Sl Nat) (k lo : Nat)
    (st' : Sl Nat × Sl Nat × Sl Nat) (hI : CountInv n ic ts mc nm)
    (h : forRange (countBinStep nb order ic) k lo (ts, mc, nm) = .ok st') : CountSt n ic ts mc nm st' :=
  forRange_inv (countBinStep nb order ic) (fun _ st => CountSt n ic ts mc nm st) k lo (ts, mc, nm) st'
    ⟨hI, SlFrame.refl _, SlFrame.refl _, SlFrame.refl _⟩
    (fun i s s' _ _ hs hf => countBinStep_st hic nb order i s s' hs hf) h

/-- all-zero counters satisfy the counting invariant -/
theorem countInv_zero {n : Nat} {ic ts mc nm : Sl Nat} (hts : ∀ v, rfTv ts v = 0) (hmc : ∀ c, c < mc.len → rfDv mc c = 0) :
    CountInv n ic ts mc nm := by
  intro c hc
  rw [hmc c hc]
  exact ⟨fun v _ _ => Nat.le_of_eq (hts v), fun h => absurd h (Nat.lt_irrefl _),
    fun h => absurd h (Nat.lt_irrefl _)⟩

/-! ## bins as segments of `order` -/

theorem rf_binIdx_eq_iff {bd : List Nat} (hs : bd.Pairwise (· < ·)) {j bs dj : Nat}
    (hbs : (0 :: bd)[j]? = some bs) (hdj : bd[j]? = some dj) (p : Nat) :
    binIdx bd p = j ↔ bs ≤ p ∧ p < dj := by
  obtain ⟨hj, hdj'⟩ := List.getElem?_eq_some_iff.1 hdj
  rw [binIdx_eq]
  have h1 := sorted_lt_iff_idx bd hs (p + 1) j hj
  rw [hdj'] at h1
  cases j with
  | zero =>
    simp at hbs; subst hbs
    constructor
    · intro h; rw [h] at h1; omega
    · intro h; omega
  | succ j =>
    rw [List.getElem?_cons_succ] at hbs
    obtain ⟨hj2, hbs'⟩ := List.getElem?_eq_some_iff.1 hbs
    have h2 := sorted_lt_iff_idx bd hs (p + 1) j hj2
    rw [hbs'] at h2
    constructor
    · intro h; rw [h] at h1 h2; omega
    · intro h; omega

theorem rf_bd_le_last {bd : List Nat} {n : Nat} (hs : bd.Pairwise (· < ·)) (hl : bd.getLast? = some n) :
    ∀ x ∈ bd, x ≤ n := by
  obtain ⟨ys, rfl⟩ := List.getLast?_eq_some_iff.1 hl
  intro x hx
  rw [List.pairwise_append] at hs
  rcases List.mem_append.1 hx with h | h
  · exact Nat.le_of_lt (hs.2.2 x h n (by simp))
  · simp at h; omega

theorem rf_sorted_ge_idx : ∀ (l : List Nat) (lo : Nat), (lo :: l).Pairwise (· < ·) →
    ∀ k (hk : k < l.length), lo + k + 1 ≤ l[k] := by
  intro l
  induction l with
  | nil => intro lo _ k hk; simp at hk
  | cons x xs ih =>
    intro lo hs k hk
    rw [List.pairwise_cons] at hs
    cases k with
    | zero => have := hs.1 x (by simp); simp; omega
    | succ k =>
      have := ih x hs.2 k (by simpa using hk)
      have h2 := hs.1 x (by simp)
      simp only [List.getElem_cons_succ]; omega

/-- there are at most `n` bins -/
theorem rf_bins_le {bd : List Nat} {n : Nat} (hs : (0 :: bd).Pairwise (· < ·)) (hl : bd.getLast? = some n) :
    bd.length ≤ n := by
  rw [List.getLast?_eq_getElem?] at hl
  obtain ⟨hk, he⟩ := List.getElem?_eq_some_iff.1 hl
  have := rf_sorted_ge_idx bd 0 hs _ hk
  omega

/-- the segment `l[bs:dj]` -/
def rfSeg (l : List Nat) (bs dj : Nat) : List Nat := (l.drop bs).take (dj - bs)

theorem getElem?_rfSeg (l : List Nat) (bs dj i : Nat) : (rfSeg l bs dj)[i]? = if i < dj - bs then l[bs + i]? else none := by
  unfold rfSeg; rw [List.getElem?_take, List.getElem?_drop]

theorem length_rfSeg (l : List Nat) (bs dj : Nat) (h1 : bs ≤ dj) (h2 : dj ≤ l.length) : (rfSeg l bs dj).length = dj - bs := by
  unfold rfSeg; rw [List.length_take, List.length_drop]; omega

theorem mem_rfSeg {l : List Nat} {bs dj x : Nat} : x ∈ rfSeg l bs dj ↔ ∃ p, bs ≤ p ∧ p < dj ∧ l[p]? = some x := by
  rw [List.mem_iff_getElem?]
  constructor
  · rintro ⟨i, hi⟩
    rw [getElem?_rfSeg] at hi
    by_cases h : i < dj - bs
    · rw [if_pos h] at hi; exact ⟨bs + i, by omega, by omega, hi⟩
    · rw [if_neg h] at hi; cases hi
  · rintro ⟨p, h1, h2, h3⟩
    refine ⟨p - bs, ?_⟩
    rw [getElem?_rfSeg, if_pos (by omega), show bs + (p - bs) = p by omega]; exact h3

theorem split_rfSeg (l : List Nat) (bs dj : Nat) (h : bs ≤ dj) : l = l.take bs ++ rfSeg l bs dj ++ l.drop dj := by
  unfold rfSeg
  have : l.drop dj = (l.drop bs).drop (dj - bs) := by rw [List.drop_drop]; congr 1; omega
  rw [this, List.append_assoc, List.take_append_drop, List.take_append_drop]

/-- counting the vertices of cell `j` with a property = counting in the segment of bin `j` -/
theorem count_rfSeg {n : Nat} {order bd ict : List Nat} (hperm : order.Perm (List.range n))
    (hs : bd.Pairwise (· < ·))
    (hic : ∀ p v, order[p]? = some v → ict[v]? = some (binIdx bd p))
    {j bs dj : Nat} (hbs : (0 :: bd)[j]? = some bs) (hdj : bd[j]? = some dj) (hle : bs ≤ dj) (q : Nat → Bool) :
    (List.range n).countP (fun v => decide (ict[v]? = some j) && q v) = (rfSeg order bs dj).countP q := by
  rw [← hperm.countP_eq]
  have hiff := rf_binIdx_eq_iff hs hbs hdj
  conv => lhs; rw [split_rfSeg order bs dj hle]
  rw [List.countP_append, List.countP_append]
  have z1 : (order.take bs).countP (fun v => decide (ict[v]? = some j) && q v) = 0 := by
    rw [List.countP_eq_zero]
    intro a ha
    obtain ⟨i, hi⟩ := List.mem_iff_getElem?.1 ha
    rw [List.getElem?_take] at hi
    by_cases h : i < bs
    · rw [if_pos h] at hi
      have h1 := hic i a hi
      have : binIdx bd i ≠ j := fun e => by have := (hiff i).1 e; omega
      simp [h1, this]
    · rw [if_neg h] at hi; cases hi
  have z2 : (order.drop dj).countP (fun v => decide (ict[v]? = some j) && q v) = 0 := by
    rw [List.countP_eq_zero]
    intro a ha
    obtain ⟨i, hi⟩ := List.mem_iff_getElem?.1 ha
    rw [List.getElem?_drop] at hi
    have h1 := hic _ a hi
    have : binIdx bd (dj + i) ≠ j := fun e => by have := (hiff (dj + i)).1 e; omega
    simp [h1, this]
  rw [z1, z2]
  have : (rfSeg order bs dj).countP (fun v => decide (ict[v]? = some j) && q v) = (rfSeg order bs dj).countP q := by
    apply List.countP_congr
    intro a ha
    obtain ⟨p, h1, h2, h3⟩ := mem_rfSeg.1 ha
    have h4 := hic p a h3
    rw [(hiff p).2 ⟨h1, h2⟩] at h4
    simp [h4]
  omega

/-- the counting facts about bin `j` in the form used by `splitCell` -/
def CellCount (op : OP) (ts mc nm : Sl Nat) (j : Nat) : Prop :=
  ∀ bs dj, (0 :: op.binDividers.toList)[j]? = some bs → op.binDividers.toList[j]? = some dj →
    (∀ p v, bs ≤ p → p < dj → op.order.toList[p]? = some v → rfTv ts v ≤ rfDv mc j) ∧
    (0 < rfDv mc j → rfDv nm j = (rfSeg op.order.toList bs dj).countP (fun v => decide (rfTv ts v = rfDv mc j))) ∧
    (0 < rfDv mc j → 0 < rfDv nm j)

theorem rf_sorted_start_lt {bd : List Nat} (hs : (0 :: bd).Pairwise (· < ·)) {j bs dj : Nat}
    (hbs : (0 :: bd)[j]? = some bs) (hdj : bd[j]? = some dj) : bs < dj := by
  obtain ⟨h1, e1⟩ := List.getElem?_eq_some_iff.1 hbs
  have hdj' : (0 :: bd)[j + 1]? = some dj := by rw [List.getElem?_cons_succ]; exact hdj
  obtain ⟨h2, e2⟩ := List.getElem?_eq_some_iff.1 hdj'
  have := List.pairwise_iff_getElem.1 hs j (j + 1) h1 h2 (by omega)
  rw [e1, e2] at this; exact this

theorem cellCount_of_countInv {n : Nat} {op : OP} {ts mc nm : Sl Nat} (hp : PartInv n op)
    (hI : CountInv n op.inCell ts mc nm) {j : Nat} (hj : j < mc.len) : CellCount op ts mc nm j := by
  intro bs dj hbs hdj
  have hs : op.binDividers.toList.Pairwise (· < ·) := (List.pairwise_cons.1 hp.sorted).2
  have hiff := rf_binIdx_eq_iff hs hbs hdj
  obtain ⟨c1, c2, c3⟩ := hI j hj
  refine ⟨?_, fun hM => ?_, c3⟩
  · intro p v h1 h2 hv
    have hvn := perm_range_lt hp.perm hv
    have := hp.inCell p v hv
    rw [(hiff p).2 ⟨h1, h2⟩] at this
    exact c1 v hvn this
  · rw [c2 hM]
    exact count_rfSeg hp.perm hs hp.inCell hbs hdj (Nat.le_of_lt (rf_sorted_start_lt hp.sorted hbs hdj)) _

/-- bins below `j` are untouched -/
def LowerSame (j : Nat) (op op' : OP) : Prop :=
  ∀ j' d, j' < j → op.binDividers.toList[j']? = some d →
    op'.binDividers.toList[j']? = some d ∧ ∀ p, p < d → op'.order.toList[p]? = op.order.toList[p]?

theorem CellCount.transport {op op' : OP} {ts mc nm : Sl Nat} {j j' : Nat} (h : CellCount op ts mc nm j')
    (hl : LowerSame j op op') (hj : j' < j)
    (hlen : j ≤ op.binDividers.toList.length) : CellCount op' ts mc nm j' := by
  intro bs dj hbs hdj
  have hjl : j' < op.binDividers.toList.length := by omega
  obtain ⟨e1, e2⟩ := hl j' _ hj (List.getElem?_eq_getElem hjl)
  rw [e1] at hdj
  have hdj0 : op.binDividers.toList[j']? = some dj := by rw [← hdj]; exact List.getElem?_eq_getElem hjl
  have e2' : ∀ p, p < dj → op'.order.toList[p]? = op.order.toList[p]? := by
    have : op.binDividers.toList[j'] = dj := Option.some.inj hdj
    intro p hp; exact e2 p (by omega)
  have hbs0 : (0 :: op.binDividers.toList)[j']? = some bs := by
    cases j' with
    | zero => simpa using hbs
    | succ k =>
      rw [List.getElem?_cons_succ] at hbs ⊢
      have hk : k < op.binDividers.toList.length := by omega
      obtain ⟨e3, _⟩ := hl k _ (by omega) (List.getElem?_eq_getElem hk)
      rw [e3] at hbs; rw [← hbs]; exact List.getElem?_eq_getElem hk
  obtain ⟨c1, c2, c3⟩ := h bs dj hbs0 hdj0
  refine ⟨?_, ?_, c3⟩
  · intro p v h1 h2 hv
    rw [e2' p h2] at hv
    exact c1 p v h1 h2 hv
  · intro hM
    rw [c2 hM]
    congr 1
    apply List.ext_getElem?
    intro i
    rw [getElem?_rfSeg, getElem?_rfSeg]
    by_cases hi : i < dj - bs
    · rw [if_pos hi, if_pos hi, e2' _ (by omega)]
    · rw [if_neg hi, if_neg hi]

/-! ## filling `dws` -/

/-- rfKeys of the visible part -/
def rfKeys (d : Sl KV) : List Nat := d.toList.map Prod.snd

theorem getElem?_rfKeys (d : Sl KV) (i : Nat) : (rfKeys d)[i]? = if i < d.len then (d.data[i]?).map Prod.snd else none := by
  unfold rfKeys
  rw [List.getElem?_map, Sl.getElem?_toList]
  split <;> rfl

theorem fill_spec {order ts : Sl Nat} {bs B : Nat} {dws0 dws : Sl KV}
    (h : forRange (fillStep order ts bs) B 0 dws0 = .ok dws) :
    dws.len = dws0.len ∧ dws.data.size = dws0.data.size ∧
      ∀ k, k < B → ∃ v, order.toList[bs + k]? = some v ∧ dws.data[k]? = some (rfTv ts v, v) := by
  have := forRange_inv (fillStep order ts bs)
    (fun i (d : Sl KV) => d.len = dws0.len ∧ d.data.size = dws0.data.size ∧
      ∀ k, k < i → ∃ v, order.toList[bs + k]? = some v ∧ d.data[k]? = some (rfTv ts v, v))
    B 0 dws0 dws ⟨rfl, rfl, fun k hk => by omega⟩
    (by
      intro i d d' _ _ ⟨h1, h2, h3⟩ hf
      unfold fillStep at hf
      osplit hf
      rename_i v hv _ t ht
      refine ⟨by rw [Sl.set_len hf, h1], by rw [Sl.set_cap hf, h2], ?_⟩
      intro k hk
      by_cases hki : k = i
      · subst hki
        exact ⟨v, Sl.get_eq_toList.1 hv, by rw [Sl.set_data hf, if_pos rfl, rfTv_of_get ht]⟩
      · obtain ⟨u, hu1, hu2⟩ := h3 k (by omega)
        exact ⟨u, hu1, by rw [Sl.set_data hf, if_neg hki]; exact hu2⟩)
    h
  simpa using this

theorem rfKeys_of_fill {order : Sl Nat} {bs B : Nat} {dws : Sl KV} (hl : dws.len = B)
    {f : Nat → Nat} (h : ∀ k, k < B → ∃ v, order.toList[bs + k]? = some v ∧ dws.data[k]? = some (f v, v)) :
    rfKeys dws = rfSeg order.toList bs (bs + B) := by
  apply List.ext_getElem?
  intro i
  rw [getElem?_rfKeys, getElem?_rfSeg, hl, show bs + B - bs = B by omega]
  by_cases hi : i < B
  · rw [if_pos hi, if_pos hi]
    obtain ⟨v, h1, h2⟩ := h i hi
    rw [h1, h2]; rfl
  · rw [if_neg hi, if_neg hi]


/-- the invariant of the two-bucket fill after `k` elements of the segment `S` -/
def FOInv (S : List Nat) (p0 : Nat → Bool) (B nm sz k : Nat) (st : Sl KV × Nat × Option Nat) : Prop :=
  st.1.len = B ∧ st.1.data.size = sz ∧
  st.2.1 = ((S.take k).filter p0).length ∧
  st.2.2 = some (B - nm + ((S.take k).filter (fun x => !p0 x)).length) ∧
  (∀ i, i < ((S.take k).filter p0).length →
    st.1.data[i]? = (((S.take k).filter p0)[i]?).map (fun v => ((0 : Nat), v))) ∧
  (∀ i, i < ((S.take k).filter (fun x => !p0 x)).length →
    st.1.data[B - nm + i]? = (((S.take k).filter (fun x => !p0 x))[i]?).map (fun v => ((1 : Nat), v)))

theorem rf_take_succ_of_getElem? {l : List Nat} {k v : Nat} (h : l[k]? = some v) : l.take (k + 1) = l.take k ++ [v] := by
  rw [List.take_add_one, h]; rfl

theorem fillOnesStep_inv {order ts : Sl Nat} {bs B nm sz : Nat} {S : List Nat}
    (hS : ∀ k, k < B → S[k]? = order.toList[bs + k]?)
    (p0 : Nat → Bool) (hp0 : ∀ v, p0 v = decide (rfTv ts v = 0))
    (hz : S.countP p0 = B - nm)
    (k : Nat) (hk : k < B) (st st' : Sl KV × Nat × Option Nat)
    (hI : FOInv S p0 B nm sz k st)
    (h : fillOnesStep order ts bs k st = .ok st') :
    FOInv S p0 B nm sz (k + 1) st' := by
  obtain ⟨d, z, oi⟩ := st
  obtain ⟨h1, h2, h3, h4, h5, h6⟩ := hI
  simp only at h1 h2 h3 h4 h5 h6
  unfold fillOnesStep at h
  dsimp only at h
  cases hg : order.get (bs + k) with
  | ok v =>
    cases hgt : ts.get v with
    | ok t =>
      rw [hg] at h; dsimp only at h; rw [hgt] at h; dsimp only at h
      have hSk : S[k]? = some v := by rw [hS k hk]; exact Sl.get_eq_toList.1 hg
      have htk := rf_take_succ_of_getElem? hSk
      have htv : rfTv ts v = t := rfTv_of_get hgt
      have hzle : ((S.take (k + 1)).filter p0).length ≤ B - nm := by
        rw [← hz, ← List.countP_eq_length_filter]
        exact (List.take_sublist _ _).countP_le
      by_cases ht0 : t = 0
      · rw [if_pos ht0] at h
        cases hs : d.set z (0, v) with
        | ok d1 =>
          rw [hs] at h
          simp only [Outcome.ok.injEq] at h
          subst h
          have hp : p0 v = true := by rw [hp0]; simp [htv, ht0]
          have hf0 : (S.take (k + 1)).filter p0 =
              (S.take k).filter p0 ++ [v] := by
            rw [htk, List.filter_append, List.filter_cons_of_pos hp, List.filter_nil]
          have hf1 : (S.take (k + 1)).filter (fun x => !p0 x) =
              (S.take k).filter (fun x => !p0 x) := by
            rw [htk, List.filter_append, List.filter_cons_of_neg (by simp [hp]), List.filter_nil, List.append_nil]
          rw [hf0] at hzle
          simp only [List.length_append, List.length_singleton] at hzle
          refine ⟨by rw [Sl.set_len hs]; exact h1, by rw [Sl.set_cap hs]; exact h2, ?_, ?_, ?_, ?_⟩
          · simp only; rw [hf0, List.length_append, h3]; rfl
          · simp only; rw [hf1]; exact h4
          · simp only; rw [hf0]
            intro i hi
            simp only [List.length_append, List.length_singleton] at hi
            rw [Sl.set_data hs]
            by_cases hiz : i = z
            · rw [if_pos hiz, hiz, h3, List.getElem?_append_right (Nat.le_refl _)]; simp
            · rw [if_neg hiz, List.getElem?_append_left (by omega)]
              exact h5 i (by omega)
          · simp only; rw [hf1]
            intro i hi
            rw [Sl.set_data hs, if_neg (by omega)]
            exact h6 i hi
        | panic => rw [hs] at h; simp at h
        | outOfFuel => rw [hs] at h; simp at h
      · rw [if_neg ht0] at h
        subst h4
        dsimp only at h
        cases hs : d.set (B - nm + ((S.take k).filter (fun x => !p0 x)).length) (1, v) with
        | ok d1 =>
          rw [hs] at h
          simp only [Outcome.ok.injEq] at h
          subst h
          have hp : ¬ (p0 v = true) := by rw [hp0]; simp [htv, ht0]
          have hf0 : (S.take (k + 1)).filter p0 =
              (S.take k).filter p0 := by
            rw [htk, List.filter_append, List.filter_cons_of_neg hp, List.filter_nil, List.append_nil]
          have hf1 : (S.take (k + 1)).filter (fun x => !p0 x) =
              (S.take k).filter (fun x => !p0 x) ++ [v] := by
            rw [htk, List.filter_append, List.filter_cons_of_pos (by simp [hp]), List.filter_nil]
          rw [hf0] at hzle
          refine ⟨by rw [Sl.set_len hs]; exact h1, by rw [Sl.set_cap hs]; exact h2, ?_, ?_, ?_, ?_⟩
          · simp only; rw [hf0]; exact h3
          · simp only; rw [hf1, List.length_append]; rfl
          · simp only; rw [hf0]
            intro i hi
            rw [Sl.set_data hs, if_neg (by omega)]
            exact h5 i hi
          · simp only; rw [hf1]
            intro i hi
            simp only [List.length_append, List.length_singleton] at hi
            rw [Sl.set_data hs]
            by_cases hio : i = ((S.take k).filter (fun x => !p0 x)).length
            · rw [if_pos (by omega), hio, List.getElem?_append_right (Nat.le_refl _)]; simp
            · rw [if_neg (by omega), List.getElem?_append_left (by omega)]
              exact h6 i (by omega)
        | panic => rw [hs] at h; simp at h
        | outOfFuel => rw [hs] at h; simp at h
    | panic => rw [hg] at h; dsimp only at h; rw [hgt] at h; simp at h
    | outOfFuel => rw [hg] at h; dsimp only at h; rw [hgt] at h; simp at h
  | panic => rw [hg] at h; simp at h
  | outOfFuel => rw [hg] at h; simp at h


theorem fillOnes_spec {order ts : Sl Nat} {bs B nm : Nat} {dws0 dws : Sl KV} {z : Nat} {o : Option Nat}
    (hlen : dws0.len = B) (hB : bs + B ≤ order.toList.length)
    (hle : ∀ v ∈ rfSeg order.toList bs (bs + B), rfTv ts v ≤ 1)
    (hnm : nm = (rfSeg order.toList bs (bs + B)).countP (fun v => decide (rfTv ts v = 1)))
    (h : forRange (fillOnesStep order ts bs) B 0 (dws0, 0, if nm ≤ B then some (B - nm) else none) = .ok (dws, z, o)) :
    dws.len = B ∧ dws.data.size = dws0.data.size ∧ (rfKeys dws).Perm (rfSeg order.toList bs (bs + B)) ∧
      nm ≤ B ∧ ∀ i, i < B → (dws.data[i]?).map Prod.fst = some (if i < B - nm then 0 else 1) := by
  generalize hS : rfSeg order.toList bs (bs + B) = S at hle hnm ⊢
  have hSlen : S.length = B := by rw [← hS, length_rfSeg _ _ _ (by omega) hB]; omega
  have hSk : ∀ k, k < B → S[k]? = order.toList[bs + k]? := by
    intro k hk; rw [← hS, getElem?_rfSeg, if_pos (by omega)]
  let p0 : Nat → Bool := fun v => decide (rfTv ts v = 0)
  have hc1 : S.countP (fun x => !p0 x) = nm := by
    rw [hnm]
    apply List.countP_congr
    intro v hv
    have := hle v hv
    simp only [p0, Bool.not_eq_true', decide_eq_false_iff_not, decide_eq_true_eq]
    omega
  have hc2 : S.length = S.countP p0 + S.countP (fun x => !p0 x) := by
    have := List.length_eq_countP_add_countP (p := p0) (l := S)
    simpa using this
  have hnB : nm ≤ B := by omega
  have hz : S.countP p0 = B - nm := by omega
  rw [if_pos hnB] at h
  have hfin := forRange_inv (fillOnesStep order ts bs) (fun i st => FOInv S p0 B nm dws0.data.size i st)
    B 0 (dws0, 0, some (B - nm)) (dws, z, o)
    ⟨hlen, rfl, by simp, by simp, by intro i hi; simp at hi, by intro i hi; simp at hi⟩
    (fun i st st' _ hi hI hf => fillOnesStep_inv hSk p0 (fun _ => rfl) hz i (by omega) st st' hI hf) h
  obtain ⟨g1, g2, g3, g4, g5, g6⟩ := hfin
  simp only [Nat.zero_add] at g1 g2 g3 g4 g5 g6
  rw [List.take_of_length_le (by omega)] at g3 g4 g5 g6
  have hZ : (S.filter p0).length = B - nm := by rw [← List.countP_eq_length_filter]; exact hz
  have hO : (S.filter (fun x => !p0 x)).length = nm := by rw [← List.countP_eq_length_filter]; exact hc1
  refine ⟨g1, g2, ?_, hnB, ?_⟩
  rotate_left
  · intro i hi
    by_cases hi2 : i < B - nm
    · rw [if_pos hi2, g5 i (by omega)]
      obtain ⟨x, hx⟩ : ∃ x, (S.filter p0)[i]? = some x := ⟨_, List.getElem?_eq_getElem (by omega)⟩
      rw [hx]; rfl
    · rw [if_neg hi2]
      have := g6 (i - (B - nm)) (by omega)
      rw [show B - nm + (i - (B - nm)) = i by omega] at this
      rw [this]
      obtain ⟨x, hx⟩ : ∃ x, (S.filter (fun x => !p0 x))[i - (B - nm)]? = some x :=
        ⟨_, List.getElem?_eq_getElem (by omega)⟩
      rw [hx]; rfl
  have hk : rfKeys dws = S.filter p0 ++ S.filter (fun x => !p0 x) := by
    apply List.ext_getElem?
    intro i
    rw [getElem?_rfKeys, g1]
    by_cases hi : i < B
    · rw [if_pos hi]
      by_cases hi2 : i < (S.filter p0).length
      · rw [List.getElem?_append_left hi2, g5 i hi2, Option.map_map]
        cases (S.filter p0)[i]? <;> rfl
      · rw [List.getElem?_append_right (by omega)]
        have := g6 (i - (S.filter p0).length) (by omega)
        rw [show B - nm + (i - (S.filter p0).length) = i by omega] at this
        rw [this, Option.map_map]
        cases (S.filter (fun x => !p0 x))[i - (S.filter p0).length]? <;> rfl
    · rw [if_neg hi]
      symm; apply List.getElem?_eq_none
      rw [List.length_append]; omega
  rw [hk]
  exact List.filter_append_perm p0 S

/-! ## writing the sorted segment back -/

theorem rf_take_succ_set {l : List Nat} {i v : Nat} (h : i < l.length) : (l.set i v).take (i + 1) = l.take i ++ [v] := by
  apply List.ext_getElem?
  intro k
  rw [List.getElem?_take, List.getElem?_set]
  by_cases hk : k < i
  · rw [if_pos (by omega), if_neg (by omega), List.getElem?_append_left (by simp; omega), List.getElem?_take, if_pos hk]
  · by_cases hki : k = i
    · subst hki
      have hlen : (List.take k l).length = k := by simp; omega
      rw [if_pos (by omega), if_pos rfl, if_pos h, List.getElem?_append_right (by omega), hlen]
      simp
    · rw [if_neg (by omega)]
      symm; apply List.getElem?_eq_none
      simp; omega

/-- invariant of the write-back loop before index `k` -/
def WBInv (dws : Sl KV) (order0 nbs0 : Sl Nat) (bs n k : Nat) (st : Sl Nat × Sl Nat × Nat) : Prop :=
  st.1.len = order0.len ∧ st.1.data.size = order0.data.size ∧
  (∀ p, st.1.data[p]? = if bs ≤ p ∧ p < bs + k then (dws.data[p - bs]?).map Prod.snd else order0.data[p]?) ∧
  st.2.1.len = n ∧ st.2.1.data.size = nbs0.data.size ∧ st.2.2 + 1 ≤ k ∧
  (st.2.1.toList.take st.2.2).Pairwise (· < ·) ∧ (∀ x ∈ st.2.1.toList.take st.2.2, bs < x ∧ x < bs + k) ∧
  (∀ k', 1 ≤ k' → k' < k → (dws.data[k']?).map Prod.fst ≠ (dws.data[k' - 1]?).map Prod.fst → 1 ≤ st.2.2)

theorem writeBackStep_inv {dws : Sl KV} {order0 nbs0 : Sl Nat} {bs n : Nat} (k : Nat) (hk : 1 ≤ k)
    (st st' : Sl Nat × Sl Nat × Nat) (hI : WBInv dws order0 nbs0 bs n k st)
    (h : writeBackStep dws bs k st = .ok st') : WBInv dws order0 nbs0 bs n (k + 1) st' := by
  obtain ⟨o, nb, ix⟩ := st
  obtain ⟨h1, h2, h3, h4, h5, h6, h7, h8, h9⟩ := hI
  simp only at h1 h2 h3 h4 h5 h6 h7 h8 h9
  unfold writeBackStep at h
  dsimp only at h
  cases hx : dws.get k with
  | ok x =>
    cases hy : dws.get (k - 1) with
    | ok y =>
      rw [hx, hy] at h; dsimp only at h
      cases ho : o.set (bs + k) x.2 with
      | ok o1 =>
        rw [ho] at h; dsimp only at h
        have hdx : dws.data[k]? = some x := (Sl.get_eq_ok.1 hx).2
        have hdy : dws.data[k - 1]? = some y := (Sl.get_eq_ok.1 hy).2
        have ho1 : ∀ p, o1.data[p]? =
            if bs ≤ p ∧ p < bs + (k + 1) then (dws.data[p - bs]?).map Prod.snd else order0.data[p]? := by
          intro p
          rw [Sl.set_data ho, h3]
          by_cases hp : p = bs + k
          · subst hp
            rw [if_pos rfl, if_pos (by omega), show bs + k - bs = k by omega, hdx]; rfl
          · rw [if_neg hp]
            by_cases hp2 : bs ≤ p ∧ p < bs + k
            · rw [if_pos hp2, if_pos (by omega)]
            · rw [if_neg hp2, if_neg (by omega)]
        by_cases hne : x.1 ≠ y.1
        · rw [if_pos hne] at h
          cases hn : nb.set ix (bs + k) with
          | ok nb1 =>
            rw [hn] at h
            simp only [Outcome.ok.injEq] at h
            subst h
            obtain ⟨⟨g1, g2⟩, _⟩ := Sl.set_eq_ok.1 hn
            have hlt : ix < nb.toList.length := by simp [Sl.toList]; omega
            have ht : nb1.toList.take (ix + 1) = nb.toList.take ix ++ [bs + k] := by
              rw [Sl.toList_set hn]; exact rf_take_succ_set hlt
            refine ⟨by rw [Sl.set_len ho]; exact h1, by rw [Sl.set_cap ho]; exact h2, ho1,
              by rw [Sl.set_len hn]; exact h4, by rw [Sl.set_cap hn]; exact h5, by simp only; omega, ?_, ?_,
              fun _ _ _ _ => by simp only; omega⟩
            · simp only; rw [ht, List.pairwise_append]
              refine ⟨h7, by simp, ?_⟩
              intro a ha b hb
              simp at hb; subst hb
              exact (h8 a ha).2
            · simp only; rw [ht]
              intro a ha
              rcases List.mem_append.1 ha with ha | ha
              · have := h8 a ha; omega
              · simp at ha; omega
          | panic => rw [hn] at h; simp at h
          | outOfFuel => rw [hn] at h; simp at h
        · rw [if_neg hne] at h
          simp only [Outcome.ok.injEq] at h
          subst h
          refine ⟨by rw [Sl.set_len ho]; exact h1, by rw [Sl.set_cap ho]; exact h2, ho1, h4, h5,
            by simp only; omega, h7, ?_, ?_⟩
          · intro a ha
            have := h8 a ha; omega
          · intro k' hk1 hk2 hk3
            by_cases hkk : k' = k
            · subst hkk
              rw [hdx, hdy] at hk3
              exact absurd (by simp only [Option.map_some]; rw [Decidable.not_not.1 hne]) hk3
            · exact h9 k' hk1 (by omega) hk3
      | panic => rw [ho] at h; simp at h
      | outOfFuel => rw [ho] at h; simp at h
    | panic => rw [hx, hy] at h; simp at h
    | outOfFuel => rw [hx, hy] at h; simp at h
  | panic => rw [hx] at h; simp at h
  | outOfFuel => rw [hx] at h; simp at h

theorem writeBack_spec {dws : Sl KV} {bs B n : Nat} {order0 order1 order2 nbs0 nbs2 : Sl Nat} {idx : Nat} {kv0 : KV}
    (hdl : dws.len = B) (hnl : nbs0.len = n)
    (hk0 : dws.get 0 = .ok kv0) (hs0 : order0.set bs kv0.2 = .ok order1)
    (h : forRange (writeBackStep dws bs) (B - 1) 1 (order1, nbs0, 0) = .ok (order2, nbs2, idx)) :
    order2.len = order0.len ∧ order2.data.size = order0.data.size ∧
    (∀ p, order2.data[p]? = if bs ≤ p ∧ p < bs + B then (dws.data[p - bs]?).map Prod.snd else order0.data[p]?) ∧
    nbs2.len = n ∧ nbs2.data.size = nbs0.data.size ∧ idx + 1 ≤ B ∧
    (nbs2.toList.take idx).Pairwise (· < ·) ∧ (∀ x ∈ nbs2.toList.take idx, bs < x ∧ x < bs + B) ∧
    (∀ k', 1 ≤ k' → k' < B → (dws.data[k']?).map Prod.fst ≠ (dws.data[k' - 1]?).map Prod.fst → 1 ≤ idx) := by
  have hB : 1 ≤ B := by have := Sl.get_lt hk0; omega
  have hd0 : dws.data[0]? = some kv0 := (Sl.get_eq_ok.1 hk0).2
  have := forRange_inv (writeBackStep dws bs) (fun k st => WBInv dws order0 nbs0 bs n k st) (B - 1) 1
    (order1, nbs0, 0) (order2, nbs2, idx)
    ⟨Sl.set_len hs0, Sl.set_cap hs0, by
        intro p
        rw [Sl.set_data hs0]
        by_cases hp : p = bs
        · subst hp; rw [if_pos rfl, if_pos (by omega), Nat.sub_self, hd0]; rfl
        · rw [if_neg hp, if_neg (by omega)],
      hnl, rfl, by simp, by simp, by simp, fun k' h1 h2 => by omega⟩
    (fun k st st' hk _ hI hf => writeBackStep_inv k hk st st' hI hf) h
  rw [show 1 + (B - 1) = B by omega] at this
  exact this

/-! ## inserting a block into `binDividers` / `binAges` -/

theorem rf_insertBlock_shift {α : Type} {s s1 s2 : Sl α} {j m : Nat} (hj : j ≤ s.len)
    (h1 : s.reslice (s.len + m) = .ok s1) (h2 : s1.copySelf (j + m) j s1.len = .ok s2) :
    s2.len = s.len + m ∧ s2.data.size = s.data.size ∧ s2.WF ∧
    ∀ i, s2.data[i]? = if j + m ≤ i ∧ i < s.len + m then s.data[i - m]? else s.data[i]? := by
  obtain ⟨e1, e2, w1⟩ := Sl.reslice_len h1
  obtain ⟨l2, z2⟩ := Sl.copySelf_len h2
  have d2 := Sl.copySelf_data w1 h2
  refine ⟨by rw [l2, e1], by rw [z2, e2], by unfold Sl.WF at *; omega, ?_⟩
  intro i
  rw [d2, e1, e2]
  by_cases hc : j + m ≤ i ∧ i < s.len + m
  · rw [if_pos hc, if_pos (by omega), show j + (i - (j + m)) = i - m by omega]
  · rw [if_neg hc, if_neg (by omega)]

theorem rf_toList_insertBlock {α : Type} {s s3 : Sl α} {j : Nat} {l : List α} (hw : s.WF) (hj : j ≤ s.len)
    (hl : s3.len = s.len + l.length)
    (hd : ∀ i, i < s.len + l.length → s3.data[i]? =
      if i < j then s.data[i]? else if i < j + l.length then l[i - j]? else s.data[i - l.length]?) :
    s3.toList = s.toList.take j ++ l ++ s.toList.drop j := by
  have hlen : s.toList.length = s.len := Sl.length_toList s hw
  have htk : (s.toList.take j).length = j := by rw [List.length_take, hlen]; omega
  apply List.ext_getElem?
  intro i
  rw [Sl.getElem?_toList, hl]
  by_cases hi : i < s.len + l.length
  · rw [if_pos hi, hd i hi]
    by_cases h1 : i < j
    · rw [if_pos h1, List.append_assoc, List.getElem?_append_left (by omega), List.getElem?_take, if_pos h1,
        Sl.getElem?_toList, if_pos (by omega)]
    · rw [if_neg h1, List.append_assoc, List.getElem?_append_right (by omega), htk]
      by_cases h2 : i < j + l.length
      · rw [if_pos h2, List.getElem?_append_left (by omega)]
      · rw [if_neg h2, List.getElem?_append_right (by omega), List.getElem?_drop, Sl.getElem?_toList,
          if_pos (by omega)]
        congr 1; omega
  · rw [if_neg hi]
    symm; apply List.getElem?_eq_none
    simp only [List.length_append, List.length_drop, htk, hlen]; omega

/-- `bd = bd[:len+m]; copy(bd[j+m:], bd[j:]); copy(bd[j:], l)` -/
theorem rf_insertBlock_copy {α : Type} {s s1 s2 s3 : Sl α} {j : Nat} {l : List α} (hw : s.WF) (hj : j ≤ s.len)
    (h1 : s.reslice (s.len + l.length) = .ok s1) (h2 : s1.copySelf (j + l.length) j s1.len = .ok s2)
    (h3 : s2.copyAt j l = .ok s3) :
    s3.len = s.len + l.length ∧ s3.data.size = s.data.size ∧ s3.WF ∧
      s3.toList = s.toList.take j ++ l ++ s.toList.drop j := by
  obtain ⟨a1, a2, a3, a4⟩ := rf_insertBlock_shift hj h1 h2
  obtain ⟨b1, b2⟩ := Sl.copyAt_len h3
  have d3 := Sl.copyAt_data a3 h3
  have hl : s3.len = s.len + l.length := by rw [b1, a1]
  refine ⟨hl, by rw [b2, a2], by unfold Sl.WF at *; omega, ?_⟩
  apply rf_toList_insertBlock hw hj hl
  intro i hi
  rw [d3, a4, a1]
  by_cases h1 : i < j
  · rw [if_pos h1, if_neg (by omega), if_neg (by omega)]
  · rw [if_neg h1]
    by_cases h2 : i < j + l.length
    · rw [if_pos h2, if_pos (by omega)]
    · rw [if_neg h2, if_neg (by omega), if_pos (by omega)]

/-- `ages = ages[:len+m]; copy(ages[j+m:], ages[j:]); for i < m { ages[j+i] = a }` -/
theorem rf_insertBlock_fill {α : Type} {s s1 s2 s3 : Sl α} {j m : Nat} {a : α} (hw : s.WF) (hj : j ≤ s.len)
    (h1 : s.reslice (s.len + m) = .ok s1) (h2 : s1.copySelf (j + m) j s1.len = .ok s2)
    (h3 : forRange (fun i (x : Sl α) => x.set (j + i) a) m 0 s2 = .ok s3) :
    s3.len = s.len + m ∧ s3.data.size = s.data.size ∧ s3.WF ∧
      s3.toList = s.toList.take j ++ List.replicate m a ++ s.toList.drop j := by
  obtain ⟨a1, a2, a3, a4⟩ := rf_insertBlock_shift hj h1 h2
  have hinv := forRange_inv (fun i (x : Sl α) => x.set (j + i) a)
    (fun t (x : Sl α) => x.len = s2.len ∧ x.data.size = s2.data.size ∧
      ∀ i, x.data[i]? = if j ≤ i ∧ i < j + t then some a else s2.data[i]?)
    m 0 s2 s3 ⟨rfl, rfl, fun i => by rw [if_neg (by omega)]⟩
    (by
      intro t x x' _ _ ⟨g1, g2, g3⟩ hf
      refine ⟨by rw [Sl.set_len hf, g1], by rw [Sl.set_cap hf, g2], ?_⟩
      intro i
      rw [Sl.set_data hf, g3]
      by_cases hi : i = j + t
      · rw [if_pos hi, if_pos (by omega)]
      · rw [if_neg hi]
        by_cases h2 : j ≤ i ∧ i < j + t
        · rw [if_pos h2, if_pos (by omega)]
        · rw [if_neg h2, if_neg (by omega)])
    h3
  obtain ⟨b1, b2, b3⟩ := hinv
  rw [Nat.zero_add] at b3
  have hl : s3.len = s.len + (List.replicate m a).length := by rw [b1, a1, List.length_replicate]
  refine ⟨by rw [b1, a1], by rw [b2, a2], by unfold Sl.WF at *; omega, ?_⟩
  apply rf_toList_insertBlock hw hj hl
  intro i hi
  rw [List.length_replicate] at hi ⊢
  rw [b3, a4]
  by_cases h1 : i < j
  · rw [if_pos h1, if_neg (by omega), if_neg (by omega)]
  · rw [if_neg h1]
    by_cases h2 : i < j + m
    · rw [if_pos h2, if_pos (by omega), List.getElem?_replicate, if_pos (by omega)]
    · rw [if_neg h2, if_neg (by omega), if_pos (by omega)]

/-! ## list level: dividers, ages, order after one split -/

theorem rf_sorted_insert {bd nbs : List Nat} {j bs dj : Nat} (hs : (0 :: bd).Pairwise (· < ·))
    (hbs : (0 :: bd)[j]? = some bs) (hdj : bd[j]? = some dj)
    (hn : nbs.Pairwise (· < ·)) (hr : ∀ x ∈ nbs, bs < x ∧ x < dj) :
    (0 :: (bd.take j ++ nbs ++ bd.drop j)).Pairwise (· < ·) := by
  have e : 0 :: (bd.take j ++ nbs ++ bd.drop j) = ((0 :: bd).take (j + 1) ++ nbs) ++ (0 :: bd).drop (j + 1) := by
    simp
  rw [e]
  have hsplit := hs
  rw [← List.take_append_drop (j + 1) (0 :: bd), List.pairwise_append] at hsplit
  obtain ⟨p1, p2, p3⟩ := hsplit
  obtain ⟨hj1, ebs⟩ := List.getElem?_eq_some_iff.1 hbs
  have hdj' : (0 :: bd)[j + 1]? = some dj := by rw [List.getElem?_cons_succ]; exact hdj
  obtain ⟨hj2, edj⟩ := List.getElem?_eq_some_iff.1 hdj'
  have hpw := List.pairwise_iff_getElem.1 hs
  have hlow : ∀ a ∈ (0 :: bd).take (j + 1), a ≤ bs := by
    intro a ha
    obtain ⟨i, hi⟩ := List.mem_iff_getElem?.1 ha
    rw [List.getElem?_take] at hi
    by_cases h : i < j + 1
    · rw [if_pos h] at hi
      obtain ⟨hi1, hi2⟩ := List.getElem?_eq_some_iff.1 hi
      by_cases hij : i = j
      · subst hij; exact Nat.le_of_eq (by rw [← hi2, ebs])
      · have := hpw i j hi1 hj1 (by omega)
        rw [hi2, ebs] at this; omega
    · rw [if_neg h] at hi; cases hi
  have hhigh : ∀ b ∈ (0 :: bd).drop (j + 1), dj ≤ b := by
    intro b hb
    obtain ⟨i, hi⟩ := List.mem_iff_getElem?.1 hb
    rw [List.getElem?_drop] at hi
    obtain ⟨hi1, hi2⟩ := List.getElem?_eq_some_iff.1 hi
    by_cases hi0 : i = 0
    · subst hi0; exact Nat.le_of_eq (by rw [← hi2]; simp only [Nat.add_zero]; rw [edj])
    · have := hpw (j + 1) (j + 1 + i) hj2 hi1 (by omega)
      rw [hi2, edj] at this; omega
  rw [List.pairwise_append, List.pairwise_append]
  refine ⟨⟨p1, hn, ?_⟩, p2, ?_⟩
  · intro a ha b hb
    have := hlow a ha; have := hr b hb; omega
  · intro a ha b hb
    have hb' := hhigh b hb
    rcases List.mem_append.1 ha with ha | ha
    · have := hlow a ha
      have := rf_sorted_start_lt hs hbs hdj
      omega
    · have := hr a ha; omega

theorem rf_getLast?_insert {α : Type} {l m : List α} {j : Nat} (hj : j < l.length) :
    (l.take j ++ m ++ l.drop j).getLast? = l.getLast? := by
  rw [List.getLast?_append, List.getLast?_drop, if_neg (by omega)]
  cases h : l.getLast? with
  | none => rw [List.getLast?_eq_none_iff] at h; subst h; simp at hj
  | some a => rfl

theorem rf_filter_zip_insert {bd nbs : List Nat} {ag : List Int} {j m : Nat} {a : Int} (hl : bd.length = ag.length)
    (hm : nbs.length = m) :
    ((bd.take j ++ nbs ++ bd.drop j).zip (ag.take j ++ List.replicate m a ++ ag.drop j)).filter
        (fun x => decide (x.2 < a)) = (bd.zip ag).filter (fun x => decide (x.2 < a)) := by
  have h1 : (bd.take j).length = (ag.take j).length := by simp [hl]
  have h2 : (bd.take j ++ nbs).length = (ag.take j ++ List.replicate m a).length := by simp [hl, hm]
  rw [List.zip_append h2, List.zip_append h1, List.filter_append, List.filter_append]
  have hmid : (nbs.zip (List.replicate m a)).filter (fun x => decide (x.2 < a)) = [] := by
    rw [List.filter_eq_nil_iff]
    rintro ⟨x, y⟩ hx
    have := List.eq_of_mem_replicate (List.of_mem_zip hx).2
    subst this; simp
  rw [hmid, List.append_nil, ← List.filter_append, ← List.zip_append h1, List.take_append_drop,
    List.take_append_drop]

theorem rf_ages_le_insert {ag : List Int} {j m : Nat} {a : Int} (h : ∀ x ∈ ag, x ≤ a) :
    ∀ x ∈ ag.take j ++ List.replicate m a ++ ag.drop j, x ≤ a := by
  intro x hx
  rcases List.mem_append.1 hx with hx | hx
  · rcases List.mem_append.1 hx with hx | hx
    · exact h x (List.mem_of_mem_take hx)
    · exact Int.le_of_eq (List.eq_of_mem_replicate hx)
  · exact h x (List.mem_of_mem_drop hx)

theorem rf_toList_splice {o o2 : Sl Nat} {K : List Nat} {bs : Nat} (hw : o.WF) (hl : o2.len = o.len)
    (hb : bs + K.length ≤ o.len)
    (hd : ∀ p, p < o.len → o2.data[p]? = if bs ≤ p ∧ p < bs + K.length then K[p - bs]? else o.data[p]?) :
    o2.toList = o.toList.take bs ++ K ++ o.toList.drop (bs + K.length) := by
  have hlen : o.toList.length = o.len := Sl.length_toList o hw
  have htk : (o.toList.take bs).length = bs := by rw [List.length_take, hlen]; omega
  apply List.ext_getElem?
  intro i
  rw [Sl.getElem?_toList, hl]
  by_cases hi : i < o.len
  · rw [if_pos hi, hd i hi]
    by_cases h1 : i < bs
    · rw [if_neg (by omega), List.append_assoc, List.getElem?_append_left (by omega), List.getElem?_take, if_pos h1,
        Sl.getElem?_toList, if_pos hi]
    · rw [List.append_assoc, List.getElem?_append_right (by omega), htk]
      by_cases h2 : i < bs + K.length
      · rw [if_pos (by omega), List.getElem?_append_left (by omega)]
      · rw [if_neg (by omega), List.getElem?_append_right (by omega), List.getElem?_drop, Sl.getElem?_toList,
          if_pos (by omega)]
        congr 1; omega
  · rw [if_neg hi]
    symm; apply List.getElem?_eq_none
    simp only [List.length_append, List.length_drop, htk, hlen]; omega

theorem rf_perm_splice {l K : List Nat} {bs dj : Nat} (h : bs ≤ dj) (hK : K.Perm (rfSeg l bs dj)) :
    (l.take bs ++ K ++ l.drop dj).Perm l := by
  conv => rhs; rw [split_rfSeg l bs dj h]
  exact ((List.Perm.refl _).append hK).append (List.Perm.refl _)

/-! ## the stages of `splitCell`, decomposed -/

theorem scUpd2_ok {nb : Nbrs} {cb fl : Sl Nat} {opts : Options} {j : Nat} {op : OP} {sc : Scratch}
    {dws : Sl KV} {order nbs : Sl Nat} {nbsIndex : Nat} {btc : Sl Int} {bd : Sl Nat} {R : Bool × OP × Scratch}
    (h : scUpd2 nb cb fl opts j op sc dws order nbs nbsIndex btc bd = .ok R) :
    ∃ ag1 ag2 ag3 sp1 sp2 btc2 op2,
      op.binAges.reslice (op.binAges.len + nbs.len) = .ok ag1 ∧
      ag1.copySelf (j + nbs.len) j ag1.len = .ok ag2 ∧
      forRange (fun i (a : Sl Int) => a.set (j + i) op.age) nbs.len 0 ag2 = .ok ag3 ∧
      sc.space.reslice (nbsIndex + 1) = .ok sp1 ∧
      forRange (fun k (s : Sl Nat) => s.set (k - j) k) (nbsIndex + 1) j sp1 = .ok sp2 ∧
      unionSl btc (sp2.toList.map Int.ofNat) = .ok btc2 ∧
      recomputeInCell { op with order := order, binsToCheck := btc2, binDividers := bd, binAges := ag3 } = .ok op2 ∧
      scTail nb cb fl opts j op2 { sc with dws := dws, nbs := nbs, space := sp2 } = .ok R := by
  unfold scUpd2 at h
  osplit h
  exact ⟨_, _, _, _, _, _, _, ‹_›, ‹_›, ‹_›, ‹_›, ‹_›, ‹_›, ‹_›, h⟩


theorem scUpd1_ok {nb : Nbrs} {cb fl : Sl Nat} {opts : Options} {j : Nat} {op : OP} {sc : Scratch}
    {dws : Sl KV} {order nbs : Sl Nat} {nbsIndex : Nat} {R : Bool × OP × Scratch}
    (h : scUpd1 nb cb fl opts j op sc dws order nbs nbsIndex = .ok R) :
    ∃ nbs3 btc bd1 bd2 bd3,
      nbs.reslice nbsIndex = .ok nbs3 ∧
      shiftBtc j nbsIndex op.binsToCheck.len op.binsToCheck = .ok btc ∧
      op.binDividers.reslice (op.binDividers.len + nbs3.len) = .ok bd1 ∧
      bd1.copySelf (j + nbs3.len) j bd1.len = .ok bd2 ∧
      bd2.copyAt j nbs3.toList = .ok bd3 ∧
      scUpd2 nb cb fl opts j op sc dws order nbs3 nbsIndex btc bd3 = .ok R := by
  unfold scUpd1 at h
  osplit h
  exact ⟨_, _, _, _, _, ‹_›, ‹_›, ‹_›, ‹_›, ‹_›, h⟩

theorem scWrite_ok {nb : Nbrs} {n : Nat} {cb fl : Sl Nat} {opts : Options} {j : Nat} {op : OP} {sc : Scratch}
    {binStart binSize : Nat} {dws : Sl KV} {R : Bool × OP × Scratch}
    (h : scWrite nb n cb fl opts j op sc binStart binSize dws = .ok R) :
    ∃ nbs0 kv0 order1 order2 nbs2 idx,
      sc.nbs.reslice n = .ok nbs0 ∧ dws.get 0 = .ok kv0 ∧ op.order.set binStart kv0.2 = .ok order1 ∧
      forRange (writeBackStep dws binStart) (binSize - 1) 1 (order1, nbs0, 0) = .ok (order2, nbs2, idx) ∧
      scUpd1 nb cb fl opts j op sc dws order2 nbs2 idx = .ok R := by
  unfold scWrite at h
  osplit h
  exact ⟨_, _, _, _, _, _, ‹_›, ‹_›, ‹_›, ‹_›, h⟩

theorem scFill_ok {nb : Nbrs} {n : Nat} {cb fl : Sl Nat} {opts : Options} {j : Nat} {op : OP} {sc : Scratch}
    {binStart binSize mc nm : Nat} {dws0 : Sl KV} {R : Bool × OP × Scratch}
    (h : scFill nb n cb fl opts j op sc binStart binSize mc nm dws0 = .ok R) :
    ∃ dws,
      ((mc = 1 ∧ ∃ z o, forRange (fillOnesStep op.order sc.timesSeen binStart) binSize 0
          (dws0, 0, if nm ≤ binSize then some (binSize - nm) else none) = .ok (dws, z, o)) ∨
       (mc ≠ 1 ∧ ∃ dws1, forRange (fillStep op.order sc.timesSeen binStart) binSize 0 dws0 = .ok dws1 ∧
          stable dws1 dws1.len = .ok dws)) ∧
      scWrite nb n cb fl opts j op sc binStart binSize dws = .ok R := by
  unfold scFill at h
  dsimp only at h
  by_cases hmc : mc = 1
  · rw [if_pos hmc] at h
    cases hf : forRange (fillOnesStep op.order sc.timesSeen binStart) binSize 0
        (dws0, 0, if nm ≤ binSize then some (binSize - nm) else none) with
    | ok r =>
      obtain ⟨d, z, o⟩ := r
      rw [hf] at h
      exact ⟨d, Or.inl ⟨hmc, z, o, rfl⟩, h⟩
    | panic => rw [hf] at h; simp at h
    | outOfFuel => rw [hf] at h; simp at h
  · rw [if_neg hmc] at h
    cases hf : forRange (fillStep op.order sc.timesSeen binStart) binSize 0 dws0 with
    | ok d1 =>
      rw [hf] at h
      dsimp only at h
      cases hs : stable d1 d1.len with
      | ok d =>
        rw [hs] at h
        exact ⟨d, Or.inr ⟨hmc, d1, rfl, hs⟩, h⟩
      | panic => rw [hs] at h; simp at h
      | outOfFuel => rw [hs] at h; simp at h
    | panic => rw [hf] at h; simp at h
    | outOfFuel => rw [hf] at h; simp at h

theorem rf_binStart_eq {bd : Sl Nat} {j bs : Nat} (h : (if j > 0 then bd.get (j - 1) else .ok 0) = Outcome.ok bs) :
    (0 :: bd.toList)[j]? = some bs := by
  cases j with
  | zero => simp at h; subst h; rfl
  | succ k =>
    rw [if_pos (by omega)] at h
    rw [List.getElem?_cons_succ]
    exact Sl.get_eq_toList.1 h

theorem scHead_ok {nb : Nbrs} {n : Nat} {cb fl : Sl Nat} {opts : Options} {j : Nat} {op : OP} {sc : Scratch}
    {R : Bool × OP × Scratch} (h : scHead nb n cb fl opts j op sc = .ok R) :
    R = (false, op, sc) ∨
    ∃ bs dj mc nm dws0,
      (0 :: op.binDividers.toList)[j]? = some bs ∧ op.binDividers.toList[j]? = some dj ∧
      dj ≠ bs + 1 ∧ bs ≤ dj ∧ sc.maxCell.get j = .ok mc ∧ mc ≠ 0 ∧ sc.numberOfMax.get j = .ok nm ∧
      sc.dws.reslice (dj - bs) = .ok dws0 ∧
      scFill nb n cb fl opts j op sc bs (dj - bs) mc nm dws0 = .ok R := by
  unfold scHead at h
  dsimp only at h
  cases hbs : (if j > 0 then op.binDividers.get (j - 1) else Outcome.ok 0) with
  | ok bs =>
    cases hdj : op.binDividers.get j with
    | ok dj =>
      rw [hbs, hdj] at h
      dsimp only at h
      by_cases h1 : dj = bs + 1
      · rw [if_pos h1] at h
        simp only [Outcome.ok.injEq] at h
        exact Or.inl h.symm
      · rw [if_neg h1] at h
        cases hmc : sc.maxCell.get j with
        | ok mc =>
          rw [hmc] at h; dsimp only at h
          by_cases h2 : mc = 0
          · rw [if_pos h2] at h
            simp only [Outcome.ok.injEq] at h
            exact Or.inl h.symm
          · rw [if_neg h2] at h
            cases hnm : sc.numberOfMax.get j with
            | ok nm =>
              rw [hnm] at h; dsimp only at h
              by_cases h3 : bs ≤ dj ∧ nm = dj - bs
              · rw [decide_eq_true h3] at h
                simp only [Outcome.ok.injEq] at h
                exact Or.inl h.symm
              · rw [decide_eq_false h3] at h
                dsimp only at h
                by_cases h4 : dj < bs
                · rw [if_pos h4] at h; simp at h
                · rw [if_neg h4] at h
                  cases hd : sc.dws.reslice (dj - bs) with
                  | ok dws0 =>
                    rw [hd] at h
                    exact Or.inr ⟨bs, dj, mc, nm, dws0, rf_binStart_eq hbs, Sl.get_eq_toList.1 hdj, h1, by omega,
                      rfl, h2, rfl, hd, h⟩
                  | panic => rw [hd] at h; simp at h
                  | outOfFuel => rw [hd] at h; simp at h
            | panic => rw [hnm] at h; simp at h
            | outOfFuel => rw [hnm] at h; simp at h
        | panic => rw [hmc] at h; simp at h
        | outOfFuel => rw [hmc] at h; simp at h
    | panic => rw [hbs, hdj] at h; simp at h
    | outOfFuel => rw [hbs, hdj] at h; simp at h
  | panic => rw [hbs] at h; simp at h
  | outOfFuel => rw [hbs] at h; simp at h

theorem scTail_ok {nb : Nbrs} {cb fl : Sl Nat} {opts : Options} {j : Nat} {op : OP} {sc : Scratch}
    {r : Bool} {op' : OP} {sc' : Scratch} (h : scTail nb cb fl opts j op sc = .ok (r, op', sc')) :
    sc' = sc ∧ ∃ w, (if j = op.spl then expandValue nb cb fl op else .ok (false, op)) = .ok (w, op') ∧
      (w = true → r = true) ∧ (opts.checkViability = false → r = w) := by
  unfold scTail at h
  dsimp only at h
  cases hex : (if j = op.spl then expandValue nb cb fl op else Outcome.ok (false, op)) with
  | ok x =>
    obtain ⟨w, opx⟩ := x
    rw [hex] at h
    cases w with
    | true =>
      simp only [Outcome.ok.injEq, Prod.mk.injEq] at h
      obtain ⟨rfl, rfl, rfl⟩ := h
      exact ⟨rfl, true, rfl, fun _ => rfl, fun _ => rfl⟩
    | false =>
      dsimp only at h
      cases hv : opts.checkViability with
      | false =>
        rw [hv] at h
        simp only [Bool.false_eq_true, if_false, Outcome.ok.injEq, Prod.mk.injEq] at h
        obtain ⟨rfl, rfl, rfl⟩ := h
        exact ⟨rfl, false, rfl, (fun h => by cases h), (fun _ => rfl)⟩
      | true =>
        rw [hv] at h
        simp only [if_true] at h
        osplit h
        simp only [Outcome.ok.injEq, Prod.mk.injEq] at h
        obtain ⟨rfl, rfl, rfl⟩ := h
        exact ⟨rfl, false, rfl, (fun h => by cases h), (fun h => by cases h)⟩
  | panic => rw [hex] at h; simp at h
  | outOfFuel => rw [hex] at h; simp at h

/-! ## the stages of `splitCell`, specified -/

/-- after the fill (either path) `dws[:binSize]` holds the vertices of the bin, permuted -/
theorem fill_stage (hst : StablePerm) {n : Nat} {op : OP} {sc : Scratch} {j bs dj mc nm : Nat} {dws0 dws : Sl KV}
    (hp : PartInv n op) (hcc : CellCount op sc.timesSeen sc.maxCell sc.numberOfMax j)
    (hbs : (0 :: op.binDividers.toList)[j]? = some bs) (hdj : op.binDividers.toList[j]? = some dj)
    (hmc : sc.maxCell.get j = .ok mc) (hnm : sc.numberOfMax.get j = .ok nm)
    (hd0 : sc.dws.reslice (dj - bs) = .ok dws0)
    (hf : (mc = 1 ∧ ∃ z o, forRange (fillOnesStep op.order sc.timesSeen bs) (dj - bs) 0
            (dws0, 0, if nm ≤ dj - bs then some (dj - bs - nm) else none) = .ok (dws, z, o)) ∨
          (mc ≠ 1 ∧ ∃ dws1, forRange (fillStep op.order sc.timesSeen bs) (dj - bs) 0 dws0 = .ok dws1 ∧
            stable dws1 dws1.len = .ok dws)) :
    dws.len = dj - bs ∧ dws.data.size = sc.dws.data.size ∧ dws.WF ∧
      (rfKeys dws).Perm (rfSeg op.order.toList bs dj) := by
  have hlt : bs < dj := rf_sorted_start_lt hp.sorted hbs hdj
  have hs : op.binDividers.toList.Pairwise (· < ·) := (List.pairwise_cons.1 hp.sorted).2
  have hdn : dj ≤ n := rf_bd_le_last hs hp.last dj (List.mem_of_getElem? hdj)
  have holen : op.order.toList.length = n := by rw [Sl.length_toList _ hp.wfOrder, hp.lenOrder]
  obtain ⟨e1, e2, w0⟩ := Sl.reslice_len hd0
  have hsum : bs + (dj - bs) = dj := by omega
  have key : dws.len = dj - bs ∧ dws.data.size = sc.dws.data.size ∧ (rfKeys dws).Perm (rfSeg op.order.toList bs dj) := by
    rcases hf with ⟨hmc1, z, o, hfo⟩ | ⟨_, dws1, hf1, hstb⟩
    · subst hmc1
      obtain ⟨c1, c2, _⟩ := hcc bs dj hbs hdj
      rw [rfDv_of_get hmc] at c1 c2
      rw [rfDv_of_get hnm] at c2
      have := fillOnes_spec (order := op.order) (ts := sc.timesSeen) (bs := bs) (B := dj - bs) (nm := nm) e1
        (by rw [hsum, holen]; exact hdn)
        (by
          rw [hsum]; intro v hv
          obtain ⟨p, h1, h2, h3⟩ := mem_rfSeg.1 hv
          exact c1 p v h1 h2 h3)
        (by rw [hsum]; exact c2 (by omega)) hfo
      rw [hsum, e2] at this
      exact ⟨this.1, this.2.1, this.2.2.1⟩
    · obtain ⟨f1, f2, f3⟩ := fill_spec hf1
      have hk := rfKeys_of_fill (order := op.order) (bs := bs) (B := dj - bs) (dws := dws1) (by rw [f1, e1]) f3
      obtain ⟨g1, g2, g3⟩ := hst _ _ _ hstb
      refine ⟨by rw [g1, f1, e1], by rw [g2, f2, e2], ?_⟩
      rw [hsum] at hk
      rw [← hk]
      exact g3.map Prod.snd
  obtain ⟨k1, k2, k3⟩ := key
  refine ⟨k1, k2, ?_, k3⟩
  unfold Sl.WF at *
  rw [k1, k2, ← e2, ← e1]; exact w0


theorem length_rfKeys {d : Sl KV} (hw : d.WF) : (rfKeys d).length = d.len := by
  unfold rfKeys; rw [List.length_map, Sl.length_toList _ hw]

theorem write_stage {n : Nat} {op : OP} {sc : Scratch} {bs dj : Nat} {dws : Sl KV}
    {nbs0 order1 order2 nbs2 nbs3 : Sl Nat} {kv0 : KV} {idx : Nat}
    (hwo : op.order.WF) (hlo : op.order.len = n) (hlt : bs < dj) (hdn : dj ≤ n)
    (hdl : dws.len = dj - bs) (hdw : dws.WF)
    (h1 : sc.nbs.reslice n = .ok nbs0) (h2 : dws.get 0 = .ok kv0) (h3 : op.order.set bs kv0.2 = .ok order1)
    (h4 : forRange (writeBackStep dws bs) (dj - bs - 1) 1 (order1, nbs0, 0) = .ok (order2, nbs2, idx))
    (h5 : nbs2.reslice idx = .ok nbs3) :
    order2.WF ∧ order2.len = n ∧ order2.data.size = op.order.data.size ∧
    order2.toList = op.order.toList.take bs ++ rfKeys dws ++ op.order.toList.drop dj ∧
    nbs3.WF ∧ nbs3.data.size = sc.nbs.data.size ∧ nbs3.len + 1 ≤ dj - bs ∧
    nbs3.toList.Pairwise (· < ·) ∧ ∀ x ∈ nbs3.toList, bs < x ∧ x < dj := by
  obtain ⟨a1, a2, a3⟩ := Sl.reslice_len h1
  obtain ⟨b1, b2, b3, b4, b5, b6, b7, b8, _⟩ := writeBack_spec hdl a1 h2 h3 h4
  obtain ⟨c1, c2, c3⟩ := Sl.reslice_len h5
  have hsum : bs + (dj - bs) = dj := by omega
  rw [hsum] at b3 b8
  have hkl : (rfKeys dws).length = dj - bs := by rw [length_rfKeys hdw, hdl]
  have hw2 : order2.WF := by unfold Sl.WF at *; omega
  have e3 : nbs3.toList = nbs2.toList.take idx := by
    unfold Sl.toList
    rw [c1, c2, List.take_take, Nat.min_eq_left (by omega)]
  refine ⟨hw2, by rw [b1, hlo], b2, ?_, c3, by rw [c2, b5, a2], by rw [c1]; omega, by rw [e3]; exact b7,
    by rw [e3]; exact b8⟩
  have := rf_toList_splice (o := op.order) (o2 := order2) (K := rfKeys dws) (bs := bs) hwo b1 (by rw [hkl]; omega)
    (by
      intro p _
      rw [b3, hkl, hsum]
      by_cases hp : bs ≤ p ∧ p < dj
      · rw [if_pos hp, if_pos hp, getElem?_rfKeys, if_pos (by omega)]
      · rw [if_neg hp, if_neg hp])
  rw [hkl, hsum] at this
  exact this


/-- what one effective `splitCell j` does to the partition (`op2` = the state after the `inCell` update) -/
structure SplitRel (n j bs dj : Nat) (K nbsL : List Nat) (op op2 : OP) : Prop where
  hbs : (0 :: op.binDividers.toList)[j]? = some bs
  hdj : op.binDividers.toList[j]? = some dj
  ne1 : dj ≠ bs + 1
  order : op2.order.toList = op.order.toList.take bs ++ K ++ op.order.toList.drop dj
  kperm : K.Perm (rfSeg op.order.toList bs dj)
  bd : op2.binDividers.toList = op.binDividers.toList.take j ++ nbsL ++ op.binDividers.toList.drop j
  nsorted : nbsL.Pairwise (· < ·)
  nrange : ∀ x ∈ nbsL, bs < x ∧ x < dj
  ages : op2.binAges.toList =
    op.binAges.toList.take j ++ List.replicate nbsL.length op.age ++ op.binAges.toList.drop j
  age : op2.age = op.age
  value : op2.value = op.value
  spl : op2.spl = op.spl
  inv : PartInv n op2
  szOrder : op2.order.data.size = op.order.data.size
  szInCell : op2.inCell.data.size = op.inCell.data.size
  szBd : op2.binDividers.data.size = op.binDividers.data.size
  szAges : op2.binAges.data.size = op.binAges.data.size

/-- the scratch after one `splitCell`: the counters are untouched, the work slices keep their capacity -/
def ScrRel (sc sc2 : Scratch) : Prop :=
  sc2.timesSeen = sc.timesSeen ∧ sc2.maxCell = sc.maxCell ∧ sc2.numberOfMax = sc.numberOfMax ∧
  sc2.dws.data.size = sc.dws.data.size ∧ sc2.nbs.data.size = sc.nbs.data.size ∧
  sc2.space.data.size = sc.space.data.size

theorem ScrRel.refl (sc : Scratch) : ScrRel sc sc := ⟨rfl, rfl, rfl, rfl, rfl, rfl⟩

theorem ScrRel.trans {a b c : Scratch} (h1 : ScrRel a b) (h2 : ScrRel b c) : ScrRel a c := by
  obtain ⟨a1, a2, a3, a4, a5, a6⟩ := h1
  obtain ⟨b1, b2, b3, b4, b5, b6⟩ := h2
  exact ⟨b1.trans a1, b2.trans a2, b3.trans a3, b4.trans a4, b5.trans a5, b6.trans a6⟩

theorem rf_forRange_set_size {α : Type} (f : Nat → Nat) (g : Nat → α) (k lo : Nat) (s s' : Sl α)
    (h : forRange (fun i (x : Sl α) => x.set (f i) (g i)) k lo s = .ok s') : s'.data.size = s.data.size := by
  have := forRange_inv (fun i (x : Sl α) => x.set (f i) (g i)) (fun _ (x : Sl α) => x.data.size = s.data.size)
    k lo s s' rfl (fun i x x' _ _ hx hf => by rw [Sl.set_cap hf]; exact hx) h
  exact this

/-- the new dividers / ages / order make a partition again: the `inCell` update succeeds and the result is in
`SplitRel` with the old partition (for any work list `btcX`) -/
theorem upd_core {n j bs dj : Nat} {op : OP} {dws : Sl KV} {order2 nbs3 : Sl Nat} {bd1 bd2 bd3 : Sl Nat}
    {ag1 ag2 ag3 : Sl Int} (btcX : Sl Int)
    (hp : PartInv n op)
    (hbs : (0 :: op.binDividers.toList)[j]? = some bs) (hdj : op.binDividers.toList[j]? = some dj)
    (hne : dj ≠ bs + 1)
    (ho : order2.WF ∧ order2.len = n ∧ order2.data.size = op.order.data.size ∧
      order2.toList = op.order.toList.take bs ++ rfKeys dws ++ op.order.toList.drop dj)
    (hK : (rfKeys dws).Perm (rfSeg op.order.toList bs dj))
    (hn : nbs3.WF ∧ nbs3.toList.Pairwise (· < ·) ∧ ∀ x ∈ nbs3.toList, bs < x ∧ x < dj)
    (hb1 : op.binDividers.reslice (op.binDividers.len + nbs3.len) = .ok bd1)
    (hb2 : bd1.copySelf (j + nbs3.len) j bd1.len = .ok bd2)
    (hb3 : bd2.copyAt j nbs3.toList = .ok bd3)
    (ha1 : op.binAges.reslice (op.binAges.len + nbs3.len) = .ok ag1)
    (ha2 : ag1.copySelf (j + nbs3.len) j ag1.len = .ok ag2)
    (ha3 : forRange (fun i (a : Sl Int) => a.set (j + i) op.age) nbs3.len 0 ag2 = .ok ag3) :
    ∃ ic, recomputeInCell { op with order := order2, binsToCheck := btcX, binDividers := bd3, binAges := ag3 } =
        .ok { op with order := order2, binsToCheck := btcX, binDividers := bd3, binAges := ag3, inCell := ic } ∧
      SplitRel n j bs dj (rfKeys dws) nbs3.toList op
        { op with order := order2, binsToCheck := btcX, binDividers := bd3, binAges := ag3, inCell := ic } := by
  obtain ⟨o1, o2, o3, o4⟩ := ho
  obtain ⟨n1, n2, n3⟩ := hn
  have hlt : bs < dj := rf_sorted_start_lt hp.sorted hbs hdj
  have hjl : j < op.binDividers.toList.length := (List.getElem?_eq_some_iff.1 hdj).1
  have hbl : op.binDividers.toList.length = op.binDividers.len := Sl.length_toList _ hp.wfBd
  have hal : op.binAges.toList.length = op.binAges.len := Sl.length_toList _ hp.wfAges
  have hnl : nbs3.toList.length = nbs3.len := Sl.length_toList _ n1
  rw [← hnl] at hb1 hb2
  obtain ⟨b1, b2, b3, b4⟩ := rf_insertBlock_copy hp.wfBd (by omega) hb1 hb2 hb3
  obtain ⟨a1, a2, a3, a4⟩ := rf_insertBlock_fill hp.wfAges (by rw [hp.lenAges]; omega) ha1 ha2 ha3
  have hsorted := rf_sorted_insert hp.sorted hbs hdj n2 n3
  have hlast : (op.binDividers.toList.take j ++ nbs3.toList ++ op.binDividers.toList.drop j).getLast? = some n := by
    rw [rf_getLast?_insert hjl]; exact hp.last
  have hperm : order2.toList.Perm (List.range n) := by
    rw [o4]; exact (rf_perm_splice (Nat.le_of_lt hlt) hK).trans hp.perm
  obtain ⟨ic, hic, i1, i2, i3, i4⟩ := recomputeInCell_spec
    (op := { op with order := order2, binsToCheck := btcX, binDividers := bd3, binAges := ag3 })
    o1 b3 hp.wfInCell o2 hp.lenInCell hperm (by rw [b4]; exact hsorted) (by rw [b4]; exact hlast)
  refine ⟨ic, hic, ?_⟩
  exact
    { hbs := hbs, hdj := hdj, ne1 := hne, order := o4, kperm := hK, bd := b4, nsorted := n2, nrange := n3,
      ages := by rw [hnl]; exact a4, age := rfl, value := rfl, spl := rfl,
      inv :=
        { wfOrder := o1, wfBd := b3, wfAges := a3, wfInCell := i1, lenOrder := o2, lenInCell := i2,
          lenAges := by show ag3.len = bd3.len; rw [a1, b1, hp.lenAges, hnl],
          perm := hperm, sorted := by show (0 :: bd3.toList).Pairwise _; rw [b4]; exact hsorted,
          last := by show bd3.toList.getLast? = _; rw [b4]; exact hlast, inCell := i4 },
      szOrder := o3, szInCell := i3, szBd := b2, szAges := a2 }

theorem upd_stage {nb : Nbrs} {cb fl : Sl Nat} {opts : Options} {n j bs dj : Nat} {op : OP} {sc : Scratch}
    {dws : Sl KV} {order2 nbs3 : Sl Nat} {idx : Nat} {btc : Sl Int} {bd1 bd2 bd3 : Sl Nat} {R : Bool × OP × Scratch}
    (hp : PartInv n op)
    (hbs : (0 :: op.binDividers.toList)[j]? = some bs) (hdj : op.binDividers.toList[j]? = some dj)
    (hne : dj ≠ bs + 1)
    (ho : order2.WF ∧ order2.len = n ∧ order2.data.size = op.order.data.size ∧
      order2.toList = op.order.toList.take bs ++ rfKeys dws ++ op.order.toList.drop dj)
    (hK : (rfKeys dws).Perm (rfSeg op.order.toList bs dj))
    (hn : nbs3.WF ∧ nbs3.toList.Pairwise (· < ·) ∧ ∀ x ∈ nbs3.toList, bs < x ∧ x < dj)
    (hb1 : op.binDividers.reslice (op.binDividers.len + nbs3.len) = .ok bd1)
    (hb2 : bd1.copySelf (j + nbs3.len) j bd1.len = .ok bd2)
    (hb3 : bd2.copyAt j nbs3.toList = .ok bd3)
    (h : scUpd2 nb cb fl opts j op sc dws order2 nbs3 idx btc bd3 = .ok R) :
    ∃ op2 sp2, SplitRel n j bs dj (rfKeys dws) nbs3.toList op op2 ∧ sp2.data.size = sc.space.data.size ∧
      scTail nb cb fl opts j op2 { sc with dws := dws, nbs := nbs3, space := sp2 } = .ok R := by
  obtain ⟨ag1, ag2, ag3, sp1, sp2, btc2, op2, ha1, ha2, ha3, hs1, hs2, _, hrec, h⟩ := scUpd2_ok h
  obtain ⟨ic, hic, hrel⟩ := upd_core btc2 hp hbs hdj hne ho hK hn hb1 hb2 hb3 ha1 ha2 ha3
  rw [hic] at hrec
  simp only [Outcome.ok.injEq] at hrec
  subst hrec
  have hsz : sp2.data.size = sc.space.data.size := by
    rw [rf_forRange_set_size (fun k => k - j) (fun k => k) _ _ _ _ hs2, (Sl.reslice_len hs1).2.1]
  exact ⟨_, sp2, hrel, hsz, h⟩

/-- one call of `splitCell` either leaves the state alone or splits bin `j` (`SplitRel`) and runs the tail
(`expandValue` / viability check) -/
theorem splitCell_split (hst : StablePerm) {nb : Nbrs} {n : Nat} {cb fl : Sl Nat} {opts : Options} {j : Nat}
    {op op' : OP} {sc sc' : Scratch} {r : Bool}
    (hp : PartInv n op) (hcc : CellCount op sc.timesSeen sc.maxCell sc.numberOfMax j)
    (h : splitCell nb n cb fl opts j (false, op, sc) = .ok (r, op', sc')) :
    (r = false ∧ op' = op ∧ sc' = sc) ∨
    ∃ bs dj K nbsL op2 sc2, SplitRel n j bs dj K nbsL op op2 ∧ ScrRel sc sc2 ∧
      scTail nb cb fl opts j op2 sc2 = .ok (r, op', sc') := by
  rw [splitCell_false] at h
  rcases scHead_ok h with h | ⟨bs, dj, mc, nm, dws0, hbs, hdj, hne, _, hmc, _, hnm, hd0, h⟩
  · simp only [Prod.mk.injEq] at h
    exact Or.inl h
  · right
    obtain ⟨dws, hf, h⟩ := scFill_ok h
    obtain ⟨f1, f2, f3, f4⟩ := fill_stage hst hp hcc hbs hdj hmc hnm hd0 hf
    obtain ⟨nbs0, kv0, order1, order2, nbs2, idx, w1, w2, w3, w4, h⟩ := scWrite_ok h
    obtain ⟨nbs3, btc, bd1, bd2, bd3, u1, _, u3, u4, u5, h⟩ := scUpd1_ok h
    have hlt : bs < dj := rf_sorted_start_lt hp.sorted hbs hdj
    have hs : op.binDividers.toList.Pairwise (· < ·) := (List.pairwise_cons.1 hp.sorted).2
    have hdn : dj ≤ n := rf_bd_le_last hs hp.last dj (List.mem_of_getElem? hdj)
    obtain ⟨o1, o2, o3, o4, n1, n2, _, n4, n5⟩ :=
      write_stage hp.wfOrder hp.lenOrder hlt hdn f1 f3 w1 w2 w3 w4 u1
    obtain ⟨op2, sp2, hrel, hsz, h⟩ := upd_stage hp hbs hdj hne ⟨o1, o2, o3, o4⟩ f4 ⟨n1, n4, n5⟩ u3 u4 u5 h
    exact ⟨bs, dj, rfKeys dws, nbs3.toList, op2, { sc with dws := dws, nbs := nbs3, space := sp2 }, hrel, ⟨rfl, rfl, rfl, f2, n2, hsz⟩, h⟩

/-! ## consequences of one split -/

theorem SplitRel.lens {n j bs dj : Nat} {K nbsL : List Nat} {op op2 : OP} (h : SplitRel n j bs dj K nbsL op op2)
    (hp : PartInv n op) :
    j < op.binDividers.toList.length ∧ op.binDividers.toList.length = op.binAges.toList.length := by
  refine ⟨(List.getElem?_eq_some_iff.1 h.hdj).1, ?_⟩
  rw [Sl.length_toList _ hp.wfBd, Sl.length_toList _ hp.wfAges, hp.lenAges]

theorem SplitRel.ageInv {n j bs dj : Nat} {K nbsL : List Nat} {op op2 : OP} (h : SplitRel n j bs dj K nbsL op op2)
    (hp : PartInv n op) (ha : AgeInv op) : AgeInv op2 := by
  obtain ⟨l1, l2⟩ := h.lens hp
  constructor
  · rw [h.ages, h.age]; exact rf_ages_le_insert ha.le
  · rw [h.ages, rf_getLast?_insert (by omega)]; exact ha.last

theorem SplitRel.divs_filter {n j bs dj : Nat} {K nbsL : List Nat} {op op2 : OP}
    (h : SplitRel n j bs dj K nbsL op op2) (hp : PartInv n op) :
    (divs op2).filter (fun x => decide (x.2 < op.age)) = (divs op).filter (fun x => decide (x.2 < op.age)) := by
  obtain ⟨_, l2⟩ := h.lens hp
  unfold divs
  rw [h.bd, h.ages]
  exact rf_filter_zip_insert l2 rfl

theorem SplitRel.lowerSame {n j bs dj : Nat} {K nbsL : List Nat} {op op2 : OP}
    (h : SplitRel n j bs dj K nbsL op op2) (hp : PartInv n op) : LowerSame j op op2 := by
  obtain ⟨l1, _⟩ := h.lens hp
  intro j' d hj' hd
  have htk : (op.binDividers.toList.take j).length = j := by rw [List.length_take]; omega
  refine ⟨?_, ?_⟩
  · rw [h.bd, List.append_assoc, List.getElem?_append_left (by omega), List.getElem?_take, if_pos hj']; exact hd
  · -- d ≤ bs
    have hd' : (0 :: op.binDividers.toList)[j' + 1]? = some d := by rw [List.getElem?_cons_succ]; exact hd
    obtain ⟨k1, e1⟩ := List.getElem?_eq_some_iff.1 hd'
    obtain ⟨k2, e2⟩ := List.getElem?_eq_some_iff.1 h.hbs
    have hle : d ≤ bs := by
      by_cases hjj : j' + 1 = j
      · subst hjj; exact Nat.le_of_eq (by rw [← e1, e2])
      · have := List.pairwise_iff_getElem.1 hp.sorted (j' + 1) j k1 k2 (by omega)
        rw [e1, e2] at this; omega
    intro p hpd
    have holen : op.order.toList.length = n := by rw [Sl.length_toList _ hp.wfOrder, hp.lenOrder]
    have hs : op.binDividers.toList.Pairwise (· < ·) := (List.pairwise_cons.1 hp.sorted).2
    have hbn : bs < n := by
      have := rf_sorted_start_lt hp.sorted h.hbs h.hdj
      have := rf_bd_le_last hs hp.last dj (List.mem_of_getElem? h.hdj)
      omega
    rw [h.order, List.append_assoc, List.getElem?_append_left (by rw [List.length_take]; omega),
      List.getElem?_take, if_pos (by omega)]

/-- the relation between the partition at the start of the refinement and a later state -/
def OpRel (n : Nat) (op op' : OP) : Prop :=
  PartInv n op' ∧ AgeInv op' ∧ op'.age = op.age ∧
  (divs op').filter (fun x => decide (x.2 < op.age)) = (divs op).filter (fun x => decide (x.2 < op.age)) ∧
  op'.order.data.size = op.order.data.size ∧ op'.inCell.data.size = op.inCell.data.size ∧
  op'.binDividers.data.size = op.binDividers.data.size ∧ op'.binAges.data.size = op.binAges.data.size

theorem OpRel.refl {n : Nat} {op : OP} (hp : PartInv n op) (ha : AgeInv op) : OpRel n op op :=
  ⟨hp, ha, rfl, rfl, rfl, rfl, rfl, rfl⟩

theorem OpRel.trans {n : Nat} {a b c : OP} (h1 : OpRel n a b) (h2 : OpRel n b c) : OpRel n a c := by
  obtain ⟨_, _, a3, a4, a5, a6, a7, a8⟩ := h1
  obtain ⟨b1, b2, b3, b4, b5, b6, b7, b8⟩ := h2
  rw [a3] at b4
  exact ⟨b1, b2, b3.trans a3, b4.trans a4, b5.trans a5, b6.trans a6, b7.trans a7, b8.trans a8⟩

theorem OpRel.of_frame {n : Nat} {a b c : OP} (h : OpRel n a b)
    (e1 : c.order = b.order) (e2 : c.binDividers = b.binDividers) (e3 : c.binAges = b.binAges)
    (e4 : c.inCell = b.inCell) (e5 : c.age = b.age) : OpRel n a c := by
  obtain ⟨a1, a2, a3, a4, a5, a6, a7, a8⟩ := h
  refine ⟨PartInv.of_frame a1 e1 e2 e3 e4, AgeInv.of_frame a2 e3 e5, e5.trans a3, ?_,
    by rw [e1]; exact a5, by rw [e4]; exact a6, by rw [e2]; exact a7, by rw [e3]; exact a8⟩
  have : divs c = divs b := by unfold divs; rw [e2, e3]
  rw [this]; exact a4

theorem SplitRel.opRel {n j bs dj : Nat} {K nbsL : List Nat} {op op2 : OP} (h : SplitRel n j bs dj K nbsL op op2)
    (hp : PartInv n op) (ha : AgeInv op) : OpRel n op op2 :=
  ⟨h.inv, h.ageInv hp ha, h.age, h.divs_filter hp, h.szOrder, h.szInCell, h.szBd, h.szAges⟩

/-- the tail of `splitCell` (certificate extension, viability check) only touches `value` / `spl` -/
theorem scTail_frame {nb : Nbrs} {cb fl : Sl Nat} {opts : Options} {j : Nat} {op : OP} {sc : Scratch}
    {r : Bool} {op' : OP} {sc' : Scratch} (h : scTail nb cb fl opts j op sc = .ok (r, op', sc')) :
    sc' = sc ∧ op'.order = op.order ∧ op'.binDividers = op.binDividers ∧ op'.binAges = op.binAges ∧
      op'.binsToCheck = op.binsToCheck ∧ op'.age = op.age ∧ op'.inCell = op.inCell := by
  obtain ⟨e, w, hex, _, _⟩ := scTail_ok h
  refine ⟨e, ?_⟩
  by_cases hj : j = op.spl
  · rw [if_pos hj] at hex
    exact expandValue_frame hex
  · rw [if_neg hj] at hex
    simp only [Outcome.ok.injEq, Prod.mk.injEq] at hex
    obtain ⟨_, rfl⟩ := hex
    exact ⟨rfl, rfl, rfl, rfl, rfl, rfl⟩

/-- one call of `splitCell` -/
theorem splitCell_step (hst : StablePerm) {nb : Nbrs} {n : Nat} {cb fl : Sl Nat} {opts : Options} {j : Nat}
    {op op' : OP} {sc sc' : Scratch} {r : Bool}
    (hp : PartInv n op) (ha : AgeInv op) (hcc : CellCount op sc.timesSeen sc.maxCell sc.numberOfMax j)
    (h : splitCell nb n cb fl opts j (false, op, sc) = .ok (r, op', sc')) :
    OpRel n op op' ∧ ScrRel sc sc' ∧
      ∀ j', j' < j → CellCount op sc.timesSeen sc.maxCell sc.numberOfMax j' →
        CellCount op' sc.timesSeen sc.maxCell sc.numberOfMax j' := by
  rcases splitCell_split hst hp hcc h with ⟨_, rfl, rfl⟩ | ⟨bs, dj, K, nbsL, op2, sc2, hrel, hscr, ht⟩
  · exact ⟨OpRel.refl hp ha, ScrRel.refl _, fun _ _ hc => hc⟩
  · obtain ⟨e0, e1, e2, e3, _, e5, e6⟩ := scTail_frame ht
    subst e0
    refine ⟨(hrel.opRel hp ha).of_frame e1 e2 e3 e6 e5, hscr, ?_⟩
    intro j' hj' hc
    have hl := hrel.lowerSame hp
    have hl' : LowerSame j op op' := by
      intro a d h1 h2
      obtain ⟨g1, g2⟩ := hl a d h1 h2
      rw [e2, e1]; exact ⟨g1, g2⟩
    exact hc.transport hl' hj' (Nat.le_of_lt (hrel.lens hp).1)

/-! ## the loops of the refinement -/

theorem refineIter_ok {nb : Nbrs} {n : Nat} {cb fl : Sl Nat} {opts : Options} {op : OP} {sc : Scratch}
    {R : Bool × OP × Scratch} (h : refineIter nb n cb fl opts op sc = .ok R) :
    ∃ mc1 nm1 i btc a b ts2 mc2 nm2,
      sc.maxCell.fill0.reslice op.binDividers.len = .ok mc1 ∧
      sc.numberOfMax.fill0.reslice op.binDividers.len = .ok nm1 ∧
      op.binsToCheck.get (op.binsToCheck.len - 1) = .ok i ∧
      op.binsToCheck.reslice (op.binsToCheck.len - 1) = .ok btc ∧ ¬ i < 0 ∧
      (if i.toNat > 0 then op.binDividers.get (i.toNat - 1) else Outcome.ok 0) = .ok a ∧
      op.binDividers.get i.toNat = .ok b ∧
      forRange (countBinStep nb op.order op.inCell) (b - a) a (sc.timesSeen.fill0, mc1, nm1) = .ok (ts2, mc2, nm2) ∧
      forDown (splitCell nb n cb fl opts) op.binDividers.len
        (false, { op with binsToCheck := btc },
          { sc with timesSeen := ts2, maxCell := mc2, numberOfMax := nm2 }) = .ok R := by
  unfold refineIter at h
  osplit h
  exact ⟨_, _, _, _, _, _, _, _, _, ‹_›, ‹_›, ‹_›, ‹_›, ‹_›, ‹_›, ‹_›, ‹_›, h⟩

/-- the loop-invariant form of `ScratchOK`: `maxCell` may have been re-sliced to a previous number of bins, the entries
between its length and `n` are still zero -/
structure ScrInv (n : Nat) (sc : Scratch) : Prop where
  lenM : sc.maxCell.len ≤ n
  capM : n ≤ sc.maxCell.data.size
  zeroM : ∀ i, sc.maxCell.len ≤ i → i < n → sc.maxCell.data[i]? = some 0

theorem ScratchOK.scrInv {n : Nat} {sc : Scratch} (h : ScratchOK n sc) : ScrInv n sc :=
  ⟨Nat.le_of_eq h.lenM, by have := h.wfM; unfold Sl.WF at this; rw [h.lenM] at this; exact this,
    fun i h1 h2 => by rw [h.lenM] at h1; omega⟩

/-- all six scratch slices keep their capacity -/
def ScrSz (sc sc' : Scratch) : Prop :=
  sc'.dws.data.size = sc.dws.data.size ∧ sc'.nbs.data.size = sc.nbs.data.size ∧
  sc'.space.data.size = sc.space.data.size ∧ sc'.timesSeen.data.size = sc.timesSeen.data.size ∧
  sc'.maxCell.data.size = sc.maxCell.data.size ∧ sc'.numberOfMax.data.size = sc.numberOfMax.data.size

theorem ScrSz.refl (sc : Scratch) : ScrSz sc sc := ⟨rfl, rfl, rfl, rfl, rfl, rfl⟩

theorem ScrSz.trans {a b c : Scratch} (h1 : ScrSz a b) (h2 : ScrSz b c) : ScrSz a c := by
  obtain ⟨a1, a2, a3, a4, a5, a6⟩ := h1
  obtain ⟨b1, b2, b3, b4, b5, b6⟩ := h2
  exact ⟨b1.trans a1, b2.trans a2, b3.trans a3, b4.trans a4, b5.trans a5, b6.trans a6⟩

/-- what an extra invariant `Q` of the partition has to satisfy to be carried through the refinement -/
structure Carried (nb : Nbrs) (n : Nat) (cb fl : Sl Nat) (opts : Options) (Q : OP → Prop) : Prop where
  split : ∀ (j : Nat) (op op' : OP) (sc sc' : Scratch) (r : Bool), PartInv n op →
    CellCount op sc.timesSeen sc.maxCell sc.numberOfMax j → Q op →
    splitCell nb n cb fl opts j (false, op, sc) = .ok (r, op', sc') → Q op'
  btc : ∀ (op : OP) (b : Sl Int), Q op → Q { op with binsToCheck := b }

theorem carried_true (nb : Nbrs) (n : Nat) (cb fl : Sl Nat) (opts : Options) : Carried nb n cb fl opts (fun _ => True) :=
  ⟨fun _ _ _ _ _ _ _ _ _ _ => trivial, fun _ _ _ => trivial⟩

/-- as `Carried`, but the state in which the refinement returns `true` satisfies a second predicate `Q'` -/
structure Carried2 (nb : Nbrs) (n : Nat) (cb fl : Sl Nat) (opts : Options) (Q Q' : OP → Prop) : Prop where
  split : ∀ (j : Nat) (op op' : OP) (sc sc' : Scratch) (r : Bool), PartInv n op →
    CellCount op sc.timesSeen sc.maxCell sc.numberOfMax j → Q op →
    splitCell nb n cb fl opts j (false, op, sc) = .ok (r, op', sc') → (r = false → Q op') ∧ (r = true → Q' op')
  btc : ∀ (op : OP) (b : Sl Int), Q op → Q { op with binsToCheck := b }

theorem Carried.to2 {nb : Nbrs} {n : Nat} {cb fl : Sl Nat} {opts : Options} {Q : OP → Prop}
    (h : Carried nb n cb fl opts Q) : Carried2 nb n cb fl opts Q Q :=
  ⟨fun j op op' sc sc' r hp hcc hq hs => ⟨fun _ => h.split j op op' sc sc' r hp hcc hq hs,
    fun _ => h.split j op op' sc sc' r hp hcc hq hs⟩, h.btc⟩

/-- the loop over the bins -/
theorem splitLoop_inv2 (hst : StablePerm) {nb : Nbrs} {n : Nat} {cb fl : Sl Nat} {opts : Options} {Q Q' : OP → Prop}
    (hQ : Carried2 nb n cb fl opts Q Q') {k : Nat} {op op' : OP} {sc sc' : Scratch} {r : Bool}
    (hp : PartInv n op) (ha : AgeInv op) (hq : Q op)
    (hcc : ∀ j, j < k → CellCount op sc.timesSeen sc.maxCell sc.numberOfMax j)
    (h : forDown (splitCell nb n cb fl opts) k (false, op, sc) = .ok (r, op', sc')) :
    OpRel n op op' ∧ ScrRel sc sc' ∧ (r = false → Q op') ∧ (r = true → Q' op') := by
  have := forDown_inv (splitCell nb n cb fl opts)
    (fun i (st : Bool × OP × Scratch) => OpRel n op st.2.1 ∧ ScrRel sc st.2.2 ∧
      (st.1 = false → Q st.2.1 ∧ ∀ j, j < i → CellCount st.2.1 sc.timesSeen sc.maxCell sc.numberOfMax j) ∧
      (st.1 = true → Q' st.2.1))
    k (false, op, sc) (r, op', sc') ⟨OpRel.refl hp ha, ScrRel.refl _, (fun _ => ⟨hq, hcc⟩), (fun h => by cases h)⟩
    (by
      rintro i ⟨ret, op1, sc1⟩ ⟨r2, op2, sc2⟩ _ ⟨h1, h2, h3, h4⟩ hf
      simp only at h1 h2 h3 h4
      cases ret with
      | true =>
        rw [splitCell_true] at hf
        simp only [Outcome.ok.injEq, Prod.mk.injEq] at hf
        obtain ⟨rfl, rfl, rfl⟩ := hf
        exact ⟨h1, h2, (fun h => by cases h), h4⟩
      | false =>
        have h2' := h2
        obtain ⟨e1, e2, e3, _, _, _⟩ := h2'
        obtain ⟨hq1, hc1⟩ := h3 rfl
        have hcc1 : CellCount op1 sc1.timesSeen sc1.maxCell sc1.numberOfMax i := by
          rw [e1, e2, e3]; exact hc1 i (Nat.lt_succ_self i)
        obtain ⟨g1, g2, g3⟩ := splitCell_step hst h1.1 h1.2.1 hcc1 hf
        obtain ⟨q1, q2⟩ := hQ.split i op1 op2 sc1 sc2 r2 h1.1 hcc1 hq1 hf
        refine ⟨h1.trans g1, h2.trans g2, fun hr => ⟨q1 hr, ?_⟩, q2⟩
        intro j hj
        have := g3 j hj (by rw [e1, e2, e3]; exact hc1 j (by omega))
        rw [e1, e2, e3] at this; exact this)
    h
  exact ⟨this.1, this.2.1, fun hr => (this.2.2.1 hr).1, this.2.2.2⟩

theorem splitLoop_inv (hst : StablePerm) {nb : Nbrs} {n : Nat} {cb fl : Sl Nat} {opts : Options} {Q : OP → Prop}
    (hQ : Carried nb n cb fl opts Q) {k : Nat} {op op' : OP} {sc sc' : Scratch} {r : Bool}
    (hp : PartInv n op) (ha : AgeInv op) (hq : Q op)
    (hcc : ∀ j, j < k → CellCount op sc.timesSeen sc.maxCell sc.numberOfMax j)
    (h : forDown (splitCell nb n cb fl opts) k (false, op, sc) = .ok (r, op', sc')) :
    OpRel n op op' ∧ ScrRel sc sc' ∧ Q op' := by
  obtain ⟨a, b, c, d⟩ := splitLoop_inv2 hst hQ.to2 hp ha hq hcc h
  refine ⟨a, b, ?_⟩
  cases r with
  | true => exact d rfl
  | false => exact c rfl

theorem PartInv.of_btc {n : Nat} {op : OP} (h : PartInv n op) (b : Sl Int) : PartInv n { op with binsToCheck := b } :=
  PartInv.of_frame h rfl rfl rfl rfl

/-- the zeroed and re-sliced `maxCell` is zero at all bin indices -/
theorem rfDv_fill0_reslice {n k : Nat} {s s1 : Sl Nat} (hc : n ≤ s.data.size)
    (hz : ∀ i, s.len ≤ i → i < n → s.data[i]? = some 0) (h : s.fill0.reslice k = .ok s1) :
    ∀ c, c < n → s1.data[c]? = some 0 := by
  obtain ⟨_, e2, _⟩ := Sl.reslice_len h
  intro c hc'
  rw [e2, rf_fill0_data]
  by_cases h1 : c < s.len
  · rw [if_pos h1, if_pos (by omega)]
  · rw [if_neg h1]; exact hz c (by omega) hc'

/-- one iteration of the main loop -/
theorem refineIter_inv2 (hst : StablePerm) {nb : Nbrs} {n : Nat} {cb fl : Sl Nat} {opts : Options} {Q Q' : OP → Prop}
    (hQ : Carried2 nb n cb fl opts Q Q') {op op' : OP} {sc sc' : Scratch} {r : Bool}
    (hp : PartInv n op) (ha : AgeInv op) (hq : Q op) (hs : ScrInv n sc)
    (h : refineIter nb n cb fl opts op sc = .ok (r, op', sc')) :
    OpRel n op op' ∧ ((r = false → Q op') ∧ (r = true → Q' op')) ∧ ScrInv n sc' ∧ ScrSz sc sc' := by
  obtain ⟨mc1, nm1, i, btc, a, b, ts2, mc2, nm2, h1, h2, _, _, _, _, _, hcnt, h⟩ := refineIter_ok h
  obtain ⟨m1, m2, _⟩ := Sl.reslice_len h1
  obtain ⟨_, k2, _⟩ := Sl.reslice_len h2
  have hbn : op.binDividers.len ≤ n := by
    have := rf_bins_le hp.sorted hp.last
    rw [Sl.length_toList _ hp.wfBd] at this; exact this
  have hz1 := rfDv_fill0_reslice hs.capM hs.zeroM h1
  have hI0 : CountInv n op.inCell sc.timesSeen.fill0 mc1 nm1 :=
    countInv_zero (fun v => rfTv_fill0 _ v) (fun c hc => by unfold rfDv; rw [hz1 c (by omega)]; rfl)
  obtain ⟨hI, f1, f2, f3⟩ := countLoop_st (n := n) (Nat.le_of_eq hp.lenInCell) nb op.order _ _ _ hI0 hcnt
  simp only at hI f1 f2 f3
  have hp1 : PartInv n { op with binsToCheck := btc } := hp.of_btc btc
  have ha1 : AgeInv { op with binsToCheck := btc } := AgeInv.of_frame ha rfl rfl
  have hcc : ∀ j, j < op.binDividers.len → CellCount { op with binsToCheck := btc } ts2 mc2 nm2 j := by
    intro j hj
    exact cellCount_of_countInv hp1 hI (by rw [f2.1, m1]; exact hj)
  obtain ⟨g1, g2, g3⟩ := splitLoop_inv2 hst hQ hp1 ha1 (hQ.btc op btc hq) hcc h
  obtain ⟨s1, s2, s3, s4, s5, s6⟩ := g2
  simp only at s1 s2 s3 s4 s5 s6
  refine ⟨?_, g3, ?_, ?_⟩
  · obtain ⟨a1, a2, a3, a4, a5, a6, a7, a8⟩ := g1
    exact ⟨a1, a2, a3, a4, a5, a6, a7, a8⟩
  · constructor
    · rw [s2, f2.1, m1]; exact hbn
    · rw [s2, f2.2.1, m2, rf_fill0_size]; exact hs.capM
    · intro c h3 h4
      rw [s2] at h3 ⊢
      rw [f2.1, m1] at h3
      rw [f2.2.2 c (by rw [m1]; exact h3)]
      exact hz1 c h4
  · exact ⟨s4, s5, s6, by rw [s1, f1.2.1, rf_fill0_size], by rw [s2, f2.2.1, m2, rf_fill0_size],
      by rw [s3, f3.2.1, k2, rf_fill0_size]⟩

theorem refineIter_inv (hst : StablePerm) {nb : Nbrs} {n : Nat} {cb fl : Sl Nat} {opts : Options} {Q : OP → Prop}
    (hQ : Carried nb n cb fl opts Q) {op op' : OP} {sc sc' : Scratch} {r : Bool}
    (hp : PartInv n op) (ha : AgeInv op) (hq : Q op) (hs : ScrInv n sc)
    (h : refineIter nb n cb fl opts op sc = .ok (r, op', sc')) :
    OpRel n op op' ∧ Q op' ∧ ScrInv n sc' ∧ ScrSz sc sc' := by
  obtain ⟨a, ⟨b1, b2⟩, c, d⟩ := refineIter_inv2 hst hQ.to2 hp ha hq hs h
  refine ⟨a, ?_, c, d⟩
  cases r with
  | true => exact b2 rfl
  | false => exact b1 rfl

/-- the main loop -/
theorem refineLoop_inv2 (hst : StablePerm) {nb : Nbrs} {n : Nat} {cb fl : Sl Nat} {opts : Options} {Q Q' : OP → Prop}
    (hQ : Carried2 nb n cb fl opts Q Q') : ∀ (f : Nat) (op op' : OP) (sc sc' : Scratch) (w : Bool),
    PartInv n op → AgeInv op → Q op → ScrInv n sc →
    refineLoop nb n cb fl opts f op sc = .ok (w, op', sc') →
    OpRel n op op' ∧ ((w = false → Q op') ∧ (w = true → Q' op')) ∧ ScrSz sc sc' := by
  intro f
  induction f with
  | zero => intro op op' sc sc' w _ _ _ _ h; simp [refineLoop] at h
  | succ f ih =>
    intro op op' sc sc' w hp ha hq hs h
    rw [refineLoop] at h
    by_cases hb : op.binsToCheck.len > 0
    · rw [if_pos hb] at h
      cases hit : refineIter nb n cb fl opts op sc with
      | ok R =>
        obtain ⟨r, op1, sc1⟩ := R
        rw [hit] at h
        obtain ⟨g1, g2, g3, g4⟩ := refineIter_inv2 hst hQ hp ha hq hs hit
        cases r with
        | true =>
          simp only [Outcome.ok.injEq, Prod.mk.injEq] at h
          obtain ⟨rfl, rfl, rfl⟩ := h
          exact ⟨g1, g2, g4⟩
        | false =>
          simp only at h
          obtain ⟨k1, k2, k3⟩ := ih op1 op' sc1 sc' w g1.1 g1.2.1 (g2.1 rfl) g3 h
          exact ⟨g1.trans k1, k2, g4.trans k3⟩
      | panic => rw [hit] at h; simp at h
      | outOfFuel => rw [hit] at h; simp at h
    · rw [if_neg hb] at h
      simp only [Outcome.ok.injEq, Prod.mk.injEq] at h
      obtain ⟨rfl, rfl, rfl⟩ := h
      exact ⟨OpRel.refl hp ha, ⟨(fun _ => hq), (fun h => by cases h)⟩, ScrSz.refl _⟩

theorem refineLoop_inv (hst : StablePerm) {nb : Nbrs} {n : Nat} {cb fl : Sl Nat} {opts : Options} {Q : OP → Prop}
    (hQ : Carried nb n cb fl opts Q) (f : Nat) (op op' : OP) (sc sc' : Scratch) (w : Bool)
    (hp : PartInv n op) (ha : AgeInv op) (hq : Q op) (hs : ScrInv n sc)
    (h : refineLoop nb n cb fl opts f op sc = .ok (w, op', sc')) :
    OpRel n op op' ∧ Q op' ∧ ScrSz sc sc' := by
  obtain ⟨a, ⟨b1, b2⟩, c⟩ := refineLoop_inv2 hst hQ.to2 f op op' sc sc' w hp ha hq hs h
  refine ⟨a, ?_, c⟩
  cases w with
  | true => exact b2 rfl
  | false => exact b1 rfl

/-- the refinement keeps the partition invariants; every new divider gets age `op.age`, the old dividers keep their
ages and their relative order; all slices keep their capacity -/
theorem refine_inv (hst : StablePerm) {n : Nat} {nb : Nbrs} {cb fl : Sl Nat} {opts : Options} {op op' : OP}
    {sc sc' : Scratch} {w : Bool}
    (h : PartInv n op) (ha : AgeInv op) (hsc : ScratchOK n sc)
    (hr : refine nb cb fl opts op sc = .ok (w, op', sc')) :
    PartInv n op' ∧ AgeInv op' ∧ op'.age = op.age ∧
      (divs op').filter (fun x => decide (x.2 < op.age)) = (divs op).filter (fun x => decide (x.2 < op.age)) ∧
      sc'.dws.data.size = sc.dws.data.size ∧ sc'.nbs.data.size = sc.nbs.data.size ∧
      sc'.space.data.size = sc.space.data.size ∧ sc'.timesSeen.data.size = sc.timesSeen.data.size ∧
      sc'.maxCell.data.size = sc.maxCell.data.size ∧ sc'.numberOfMax.data.size = sc.numberOfMax.data.size ∧
      op'.order.data.size = op.order.data.size ∧ op'.inCell.data.size = op.inCell.data.size ∧
      op'.binDividers.data.size = op.binDividers.data.size ∧ op'.binAges.data.size = op.binAges.data.size := by
  unfold refine at hr
  rw [h.lenOrder] at hr
  obtain ⟨⟨a1, a2, a3, a4, a5, a6, a7, a8⟩, _, b1, b2, b3, b4, b5, b6⟩ :=
    refineLoop_inv hst (carried_true nb n cb fl opts) _ op op' sc sc' w h ha trivial hsc.scrInv hr
  exact ⟨a1, a2, a3, a4, b1, b2, b3, b4, b5, b6, a5, a6, a7, a8⟩

/-! ## without a certificate to compare with, the refinement never reports "worse" -/

theorem expandLoop_not_worse {nb : Nbrs} {cb fl : Sl Nat} (hcb : cb.len = 0) : ∀ (k j : Nat) (op : OP) (w : Bool) (op' : OP),
    expandLoop nb cb fl k j op = .ok (w, op') → w = false := by
  intro k
  induction k with
  | zero => intro j op w op' h; simp [expandLoop] at h; exact h.1
  | succ k ih =>
    intro j op w op' h
    rw [expandLoop] at h
    osplit h
    · simp at h; exact h.1
    · rename_i hw
      rw [worseTest_empty hcb] at hw; cases hw
    · exact ih _ _ _ _ h

theorem scTail_not_worse {nb : Nbrs} {cb fl : Sl Nat} {opts : Options} {j : Nat} {op op' : OP} {sc sc' : Scratch}
    {r : Bool} (hcb : cb.len = 0) (hv : opts.checkViability = false)
    (h : scTail nb cb fl opts j op sc = .ok (r, op', sc')) : r = false := by
  obtain ⟨_, w, hex, _, hr⟩ := scTail_ok h
  rw [hr hv]
  by_cases hj : j = op.spl
  · rw [if_pos hj] at hex
    exact expandLoop_not_worse hcb _ _ _ _ _ hex
  · rw [if_neg hj] at hex
    simp only [Outcome.ok.injEq, Prod.mk.injEq] at hex
    exact hex.1.symm

theorem splitCell_not_worse {nb : Nbrs} {n : Nat} {cb fl : Sl Nat} {opts : Options} {j : Nat} {op op' : OP}
    {sc sc' : Scratch} {r : Bool} (hcb : cb.len = 0) (hv : opts.checkViability = false)
    (h : splitCell nb n cb fl opts j (false, op, sc) = .ok (r, op', sc')) : r = false := by
  rw [splitCell_false] at h
  rcases scHead_ok h with h | ⟨bs, dj, mc, nm, dws0, _, _, _, _, _, _, _, _, h⟩
  · simp only [Prod.mk.injEq] at h; exact h.1
  · obtain ⟨dws, _, h⟩ := scFill_ok h
    obtain ⟨_, _, _, _, _, _, _, _, _, _, h⟩ := scWrite_ok h
    obtain ⟨_, _, _, _, _, _, _, _, _, _, h⟩ := scUpd1_ok h
    obtain ⟨_, _, _, _, _, _, _, _, _, _, _, _, _, _, h⟩ := scUpd2_ok h
    exact scTail_not_worse hcb hv h

theorem refineIter_not_worse {nb : Nbrs} {n : Nat} {cb fl : Sl Nat} {opts : Options} {op op' : OP}
    {sc sc' : Scratch} {r : Bool} (hcb : cb.len = 0) (hv : opts.checkViability = false)
    (h : refineIter nb n cb fl opts op sc = .ok (r, op', sc')) : r = false := by
  obtain ⟨mc1, nm1, i, btc, a, b, ts2, mc2, nm2, _, _, _, _, _, _, _, _, h⟩ := refineIter_ok h
  exact forDown_inv (splitCell nb n cb fl opts) (fun _ (st : Bool × OP × Scratch) => st.1 = false) _ _ (r, op', sc') rfl
    (by
      rintro i ⟨ret, op1, sc1⟩ ⟨r2, op2, sc2⟩ _ h1 hf
      simp only at h1
      subst h1
      exact splitCell_not_worse hcb hv hf)
    h

theorem refineLoop_not_worse {nb : Nbrs} {n : Nat} {cb fl : Sl Nat} {opts : Options} (hcb : cb.len = 0)
    (hv : opts.checkViability = false) : ∀ (f : Nat) (op op' : OP) (sc sc' : Scratch) (w : Bool),
    refineLoop nb n cb fl opts f op sc = .ok (w, op', sc') → w = false := by
  intro f
  induction f with
  | zero => intro op op' sc sc' w h; simp [refineLoop] at h
  | succ f ih =>
    intro op op' sc sc' w h
    rw [refineLoop] at h
    by_cases hb : op.binsToCheck.len > 0
    · rw [if_pos hb] at h
      cases hit : refineIter nb n cb fl opts op sc with
      | ok R =>
        obtain ⟨r, op1, sc1⟩ := R
        rw [hit] at h
        have := refineIter_not_worse hcb hv hit
        subst this
        exact ih _ _ _ _ _ h
      | panic => rw [hit] at h; simp at h
      | outOfFuel => rw [hit] at h; simp at h
    · rw [if_neg hb] at h
      simp only [Outcome.ok.injEq, Prod.mk.injEq] at h
      exact h.1.symm

theorem refine_not_worse {nb : Nbrs} {cb fl : Sl Nat} {opts : Options} {op op' : OP} {sc sc' : Scratch} {w : Bool}
    (hcb : cb.len = 0) (hv : opts.checkViability = false)
    (hr : refine nb cb fl opts op sc = .ok (w, op', sc')) : w = false :=
  refineLoop_not_worse hcb hv _ _ _ _ _ _ hr

/-! ## the certificate prefix is preserved while `currentBest` is empty -/

theorem SplitRel.order_lt {n j bs dj : Nat} {K nbsL : List Nat} {op op2 : OP}
    (h : SplitRel n j bs dj K nbsL op op2) (hp : PartInv n op) {p : Nat} (hpb : p < bs) :
    op2.order.toList[p]? = op.order.toList[p]? := by
  have holen : op.order.toList.length = n := by rw [Sl.length_toList _ hp.wfOrder, hp.lenOrder]
  have hs : op.binDividers.toList.Pairwise (· < ·) := (List.pairwise_cons.1 hp.sorted).2
  have hbn : bs < n := by
    have := rf_sorted_start_lt hp.sorted h.hbs h.hdj
    have := rf_bd_le_last hs hp.last dj (List.mem_of_getElem? h.hdj)
    omega
  rw [h.order, List.append_assoc, List.getElem?_append_left (by rw [List.length_take]; omega),
    List.getElem?_take, if_pos hpb]

theorem SplitRel.bd_lt {n j bs dj : Nat} {K nbsL : List Nat} {op op2 : OP}
    (h : SplitRel n j bs dj K nbsL op op2) (hp : PartInv n op) {k : Nat} (hk : k < j) :
    op2.binDividers.toList[k]? = op.binDividers.toList[k]? := by
  obtain ⟨l1, _⟩ := h.lens hp
  rw [h.bd, List.append_assoc, List.getElem?_append_left (by rw [List.length_take]; omega), List.getElem?_take,
    if_pos hk]

/-- a bin that is split is not in the singleton prefix, and everything in front of it stays in place -/
theorem SplitRel.spl_le {n j bs dj : Nat} {K nbsL : List Nat} {op op2 : OP}
    (h : SplitRel n j bs dj K nbsL op op2) (hp : PartInv n op) (hc : PrefixSingle op) : op.spl ≤ j ∧ j ≤ bs := by
  constructor
  · apply Nat.le_of_not_lt
    intro hj
    have h1 := hc.single j hj
    rw [h.hdj] at h1
    have hdj : dj = j + 1 := Option.some.inj h1
    have hbs : bs = j := by
      have h2 := h.hbs
      cases j with
      | zero => simpa using h2.symm
      | succ k =>
        rw [List.getElem?_cons_succ, hc.single k (by omega)] at h2
        exact (Option.some.inj h2).symm
    exact h.ne1 (by omega)
  · obtain ⟨k1, e1⟩ := List.getElem?_eq_some_iff.1 h.hbs
    have := sorted_getElem_ge (0 :: op.binDividers.toList) hp.sorted j k1
    rw [e1] at this
    simpa using this

theorem SplitRel.prefixSingle {n j bs dj : Nat} {K nbsL : List Nat} {op op2 : OP}
    (h : SplitRel n j bs dj K nbsL op op2) (hp : PartInv n op) (hc : PrefixSingle op) : PrefixSingle op2 := by
  obtain ⟨s1, _⟩ := h.spl_le hp hc
  obtain ⟨l1, _⟩ := h.lens hp
  constructor
  · rw [h.spl]
    have h1 : op2.binDividers.toList.length = op2.binDividers.len := Sl.length_toList _ h.inv.wfBd
    have h2 : op.binDividers.toList.length = op.binDividers.len := Sl.length_toList _ hp.wfBd
    rw [h.bd] at h1
    simp only [List.length_append, List.length_take, List.length_drop] at h1
    have := hc.le
    omega
  · intro k hk
    rw [h.spl] at hk
    rw [h.bd_lt hp (by omega)]
    exact hc.single k hk

theorem SplitRel.noEarlierNbr {n j bs dj : Nat} {K nbsL : List Nat} {op op2 : OP} {nb : Nbrs}
    (h : SplitRel n j bs dj K nbsL op op2) (hp : PartInv n op) (hc : PrefixSingle op) (hno : NoEarlierNbr nb op) :
    NoEarlierNbr nb op2 := by
  obtain ⟨s1, s2⟩ := h.spl_le hp hc
  intro hv k u v q hk hu hvm hq
  rw [h.spl] at hk
  rw [h.value] at hv
  rw [h.order_lt hp (by omega)] at hu
  by_cases hqb : q < bs
  · rw [h.order_lt hp hqb] at hq
    exact hno hv k u v q hk hu hvm hq
  · omega

/-- `splitCell` keeps `CleanPrefix` and `NoEarlierNbr` -/
theorem splitCell_phase1 (hst : StablePerm) {nb : Nbrs} {n : Nat} {cb fl : Sl Nat} {opts : Options} {j : Nat}
    {op op' : OP} {sc sc' : Scratch} {r : Bool} (hcb : cb.len = 0)
    (hp : PartInv n op) (hcc : CellCount op sc.timesSeen sc.maxCell sc.numberOfMax j)
    (hc : CleanPrefix op) (hno : NoEarlierNbr nb op)
    (h : splitCell nb n cb fl opts j (false, op, sc) = .ok (r, op', sc')) :
    CleanPrefix op' ∧ NoEarlierNbr nb op' := by
  rcases splitCell_split hst hp hcc h with ⟨_, rfl, rfl⟩ | ⟨bs, dj, K, nbsL, op2, sc2, hrel, _, ht⟩
  · exact ⟨hc, hno⟩
  · obtain ⟨_, w, hex, _, _⟩ := scTail_ok ht
    have hps := hrel.prefixSingle hp hc.toPrefixSingle
    have hno2 := hrel.noEarlierNbr hp hc.toPrefixSingle hno
    obtain ⟨s1, _⟩ := hrel.spl_le hp hc.toPrefixSingle
    by_cases hj : j = op2.spl
    · rw [if_pos hj] at hex
      obtain ⟨_, _, g3, g4, _, _⟩ := expandValue_phase1 hcb hrel.inv hps hno2 hex
      exact ⟨g3, g4⟩
    · rw [if_neg hj] at hex
      simp only [Outcome.ok.injEq, Prod.mk.injEq] at hex
      obtain ⟨_, rfl⟩ := hex
      refine ⟨⟨hps, ?_⟩, hno2⟩
      rw [hrel.spl] at hj ⊢
      rw [hrel.bd_lt hp (by omega)]
      exact hc.next

theorem carried_phase1 (hst : StablePerm) (nb : Nbrs) (n : Nat) {cb : Sl Nat} (fl : Sl Nat) (opts : Options)
    (hcb : cb.len = 0) : Carried nb n cb fl opts (fun op => CleanPrefix op ∧ NoEarlierNbr nb op) := by
  constructor
  · intro j op op' sc sc' r hp hcc hq h
    exact splitCell_phase1 hst hcb hp hcc hq.1 hq.2 h
  · intro op b hq
    exact ⟨⟨⟨hq.1.le, hq.1.single⟩, hq.1.next⟩, hq.2⟩

/-- the certificate-prefix facts are preserved by the refinement while `currentBest` is empty -/
theorem refine_phase1 (hst : StablePerm) {n : Nat} {nb : Nbrs} {cb fl : Sl Nat} {opts : Options} {op op' : OP}
    {sc sc' : Scratch} {w : Bool}
    (h : PartInv n op) (ha : AgeInv op) (hsc : ScratchOK n sc) (hc : CleanPrefix op) (hno : NoEarlierNbr nb op)
    (hcb : cb.len = 0) (hv : opts.checkViability = false)
    (hr : refine nb cb fl opts op sc = .ok (w, op', sc')) : CleanPrefix op' ∧ NoEarlierNbr nb op' := by
  have _ := hv
  unfold refine at hr
  rw [h.lenOrder] at hr
  exact (refineLoop_inv hst (carried_phase1 hst nb n fl opts hcb) _ op op' sc sc' w h ha ⟨hc, hno⟩ hsc.scrInv hr).2.1

/-! ## absence of panics: the small loops -/

theorem SlFrame.wf {α : Type} {s s' : Sl α} (h : SlFrame s s') (hw : s.WF) : s'.WF := by
  unfold Sl.WF at *; rw [h.1, h.2.1]; exact hw

theorem countStep_total {ic ts mc nm : Sl Nat} {v cell : Nat} (hts : ts.WF) (hv : v < ts.len)
    (hc : ic.get v = .ok cell) (hmc : mc.WF) (hcm : cell < mc.len) (hnm : nm.WF) (hcn : cell < nm.len) :
    ∃ st', countStep ic v (ts, mc, nm) = .ok st' ∧ SlFrame ts st'.1 ∧ SlFrame mc st'.2.1 ∧ SlFrame nm st'.2.2 := by
  obtain ⟨t, hg, _⟩ := Sl.get_ok_of_lt hts hv
  have hs := Sl.set_ok_of_lt hts hv (t + 1)
  obtain ⟨m, hgm, _⟩ := Sl.get_ok_of_lt hmc hcm
  obtain ⟨c, hgn, _⟩ := Sl.get_ok_of_lt hnm hcn
  unfold countStep
  simp only [hg, hs, hc, hgm]
  by_cases h1 : t + 1 > m
  · have s1 := Sl.set_ok_of_lt hnm hcn 1
    have s2 := Sl.set_ok_of_lt hmc hcm (t + 1)
    simp only [if_pos h1, s1, s2]
    exact ⟨_, rfl, SlFrame.of_set hs, SlFrame.of_set s2, SlFrame.of_set s1⟩
  · by_cases h2 : t + 1 = m
    · have s1 := Sl.set_ok_of_lt hnm hcn (c + 1)
      simp only [if_neg h1, if_pos h2, hgn, s1]
      exact ⟨_, rfl, SlFrame.of_set hs, SlFrame.refl _, SlFrame.of_set s1⟩
    · simp only [if_neg h1, if_neg h2]
      exact ⟨_, rfl, SlFrame.of_set hs, SlFrame.refl _, SlFrame.refl _⟩

/-- the counting loop does not panic -/
theorem countLoop_total {n K : Nat} {nb : Nbrs} {order ic ts mc nm : Sl Nat}
    (horder : ∀ p, p < n → ∃ w, order.get p = .ok w ∧ w < n)
    (hnb : ∀ w, w < n → ∃ l, nbrsGet nb w = .ok l ∧ ∀ v ∈ l, v < n)
    (hic : ∀ v, v < n → ∃ c, ic.get v = .ok c ∧ c < K)
    (hts : ts.WF) (htl : n ≤ ts.len) (hmc : mc.WF) (hml : K ≤ mc.len) (hnm : nm.WF) (hnl : K ≤ nm.len)
    (k lo : Nat) (hk : lo + k ≤ n) :
    ∃ st', forRange (countBinStep nb order ic) k lo (ts, mc, nm) = .ok st' := by
  obtain ⟨r, hr, _⟩ := forRange_total (countBinStep nb order ic)
    (fun _ (st : Sl Nat × Sl Nat × Sl Nat) => SlFrame ts st.1 ∧ SlFrame mc st.2.1 ∧ SlFrame nm st.2.2)
    k lo (ts, mc, nm) ⟨SlFrame.refl _, SlFrame.refl _, SlFrame.refl _⟩
    (by
      intro i st _ hi hP
      obtain ⟨w, hw, hwn⟩ := horder i (by omega)
      obtain ⟨l, hl, hln⟩ := hnb w hwn
      unfold countBinStep
      simp only [hw, hl]
      exact forList_total (countStep ic)
        (fun (st : Sl Nat × Sl Nat × Sl Nat) => SlFrame ts st.1 ∧ SlFrame mc st.2.1 ∧ SlFrame nm st.2.2) l st hP
        (by
          rintro v ⟨a, b, c⟩ hv ⟨f1, f2, f3⟩
          simp only at f1 f2 f3
          have hvn := hln v hv
          obtain ⟨cell, hc, hcK⟩ := hic v hvn
          obtain ⟨st', h1, g1, g2, g3⟩ := countStep_total (ic := ic) (v := v) (f1.wf hts) (by rw [f1.1]; omega) hc
            (f2.wf hmc) (by rw [f2.1]; omega) (f3.wf hnm) (by rw [f3.1]; omega)
          exact ⟨st', h1, f1.trans g1, f2.trans g2, f3.trans g3⟩))
  exact ⟨r, hr⟩

/-- the general fill does not panic -/
theorem fill_total {n : Nat} {order ts : Sl Nat} {bs B : Nat} {dws0 : Sl KV}
    (horder : ∀ p, p < n → ∃ w, order.get p = .ok w ∧ w < n) (hts : ts.WF) (htl : n ≤ ts.len)
    (hB : bs + B ≤ n) (hd : dws0.WF) (hdl : dws0.len = B) :
    ∃ dws, forRange (fillStep order ts bs) B 0 dws0 = .ok dws := by
  obtain ⟨r, hr, _⟩ := forRange_total (fillStep order ts bs)
    (fun _ (d : Sl KV) => d.len = dws0.len ∧ d.data.size = dws0.data.size) B 0 dws0 ⟨rfl, rfl⟩
    (by
      intro i d _ hi ⟨h1, h2⟩
      obtain ⟨w, hw, hwn⟩ := horder (bs + i) (by omega)
      obtain ⟨t, ht, _⟩ := Sl.get_ok_of_lt hts (show w < ts.len by omega)
      have hdw : d.WF := by unfold Sl.WF at *; omega
      have hs := Sl.set_ok_of_lt hdw (show i < d.len by omega) (t, w)
      unfold fillStep
      simp only [hw, ht, hs]
      exact ⟨_, rfl, h1, by simp [h2]⟩)
  exact ⟨r, hr⟩


/-- the two-bucket fill does not panic (this needs the counting facts) -/
theorem fillOnes_total {n : Nat} {order ts : Sl Nat} {bs B nm : Nat} {dws0 : Sl KV}
    (horder : ∀ p, p < n → ∃ w, order.get p = .ok w ∧ w < n) (hts : ts.WF) (htl : n ≤ ts.len)
    (hBn : bs + B ≤ n) (holen : order.toList.length = n) (hd : dws0.WF) (hlen : dws0.len = B)
    (hle : ∀ v ∈ rfSeg order.toList bs (bs + B), rfTv ts v ≤ 1)
    (hnm : nm = (rfSeg order.toList bs (bs + B)).countP (fun v => decide (rfTv ts v = 1))) :
    ∃ r, forRange (fillOnesStep order ts bs) B 0 (dws0, 0, if nm ≤ B then some (B - nm) else none) = .ok r := by
  generalize hS : rfSeg order.toList bs (bs + B) = S at hle hnm
  have hSlen : S.length = B := by rw [← hS, length_rfSeg _ _ _ (by omega) (by omega)]; omega
  have hSk : ∀ k, k < B → S[k]? = order.toList[bs + k]? := by
    intro k hk; rw [← hS, getElem?_rfSeg, if_pos (by omega)]
  let p0 : Nat → Bool := fun v => decide (rfTv ts v = 0)
  have hc1 : S.countP (fun x => !p0 x) = nm := by
    rw [hnm]
    apply List.countP_congr
    intro v hv
    have := hle v hv
    simp only [p0, Bool.not_eq_true', decide_eq_false_iff_not, decide_eq_true_eq]
    omega
  have hc2 : S.length = S.countP p0 + S.countP (fun x => !p0 x) := by
    have := List.length_eq_countP_add_countP (p := p0) (l := S)
    simpa using this
  have hnB : nm ≤ B := by omega
  have hz : S.countP p0 = B - nm := by omega
  rw [if_pos hnB]
  obtain ⟨r, hr, _⟩ := forRange_total (fillOnesStep order ts bs) (fun i st => FOInv S p0 B nm dws0.data.size i st)
    B 0 (dws0, 0, some (B - nm))
    ⟨hlen, rfl, by simp, by simp, by intro i hi; simp at hi, by intro i hi; simp at hi⟩
    (by
      rintro k ⟨d, z, oi⟩ _ hk hI
      have hk' : k < B := by omega
      suffices hex : ∃ st', fillOnesStep order ts bs k (d, z, oi) = .ok st' by
        obtain ⟨st', hst'⟩ := hex
        exact ⟨st', hst', fillOnesStep_inv hSk p0 (fun _ => rfl) hz k hk' _ st' hI hst'⟩
      obtain ⟨h1, h2, h3, h4, _, _⟩ := hI
      simp only at h1 h2 h3 h4
      obtain ⟨w, hw, hwn⟩ := horder (bs + k) (by omega)
      obtain ⟨t, ht, _⟩ := Sl.get_ok_of_lt hts (show w < ts.len by omega)
      have hSw : S[k]? = some w := by rw [hSk k hk']; exact Sl.get_eq_toList.1 hw
      have htk := rf_take_succ_of_getElem? hSw
      have htv : rfTv ts w = t := rfTv_of_get ht
      have hdw : d.WF := by unfold Sl.WF at *; omega
      have hsub0 : (S.take (k + 1)).countP p0 ≤ B - nm := by
        rw [← hz]; exact (List.take_sublist _ _).countP_le
      have hsub1 : (S.take (k + 1)).countP (fun x => !p0 x) ≤ nm := by
        rw [← hc1]; exact (List.take_sublist _ _).countP_le
      rw [htk, List.countP_append, List.countP_singleton] at hsub0 hsub1
      rw [List.countP_eq_length_filter] at hsub0 hsub1
      unfold fillOnesStep
      simp only [hw, ht]
      by_cases ht0 : t = 0
      · have hp : p0 w = true := by simp [p0, htv, ht0]
        rw [hp] at hsub0
        simp only [if_true] at hsub0
        have hs := Sl.set_ok_of_lt hdw (show z < d.len by omega) ((0 : Nat), w)
        simp only [if_pos ht0, hs]
        exact ⟨_, rfl⟩
      · have hp : (!p0 w) = true := by simp [p0, htv, ht0]
        rw [hp] at hsub1
        simp only [if_true] at hsub1
        subst h4
        have hs := Sl.set_ok_of_lt hdw
          (show B - nm + ((S.take k).filter (fun x => !p0 x)).length < d.len by omega) ((1 : Nat), w)
        simp only [if_neg ht0, hs]
        exact ⟨_, rfl⟩)
  exact ⟨r, hr⟩


/-- the write-back loop does not panic -/
theorem writeBack_total {dws : Sl KV} {bs B n : Nat} {order0 nbs0 : Sl Nat}
    (hdw : dws.WF) (hdl : dws.len = B) (hB : 1 ≤ B) (hwo : order0.WF) (hol : order0.len = n) (hBn : bs + B ≤ n)
    (hnw : nbs0.WF) (hnl : nbs0.len = n) :
    ∃ kv0 order1 r, dws.get 0 = .ok kv0 ∧ order0.set bs kv0.2 = .ok order1 ∧
      forRange (writeBackStep dws bs) (B - 1) 1 (order1, nbs0, 0) = .ok r := by
  obtain ⟨kv0, hk0, hd0⟩ := Sl.get_ok_of_lt hdw (show 0 < dws.len by omega)
  have hs0 := Sl.set_ok_of_lt hwo (show bs < order0.len by omega) kv0.2
  obtain ⟨r, hr, _⟩ := forRange_total (writeBackStep dws bs) (fun k st => WBInv dws order0 nbs0 bs n k st) (B - 1) 1
    (⟨order0.data.setIfInBounds bs kv0.2, order0.len⟩, nbs0, 0)
    ⟨Sl.set_len hs0, Sl.set_cap hs0, by
        intro p
        rw [Sl.set_data hs0]
        by_cases hp : p = bs
        · subst hp; rw [if_pos rfl, if_pos (by omega), Nat.sub_self, hd0]; rfl
        · rw [if_neg hp, if_neg (by omega)],
      hnl, rfl, by simp, by simp, by simp, fun k' h1 h2 => by omega⟩
    (by
      rintro k ⟨o, nb, ix⟩ hk1 hk2 hI
      suffices hex : ∃ st', writeBackStep dws bs k (o, nb, ix) = .ok st' by
        obtain ⟨st', hst'⟩ := hex
        exact ⟨st', hst', writeBackStep_inv k hk1 _ st' hI hst'⟩
      obtain ⟨h1, h2, _, h4, h5, h6, _, _, _⟩ := hI
      simp only at h1 h2 h4 h5 h6
      obtain ⟨x, hx, _⟩ := Sl.get_ok_of_lt hdw (show k < dws.len by omega)
      obtain ⟨y, hy, _⟩ := Sl.get_ok_of_lt hdw (show k - 1 < dws.len by omega)
      have how : o.WF := by unfold Sl.WF at *; omega
      have hnbw : nb.WF := by unfold Sl.WF at *; omega
      have hso := Sl.set_ok_of_lt how (show bs + k < o.len by omega) x.2
      have hsn := Sl.set_ok_of_lt hnbw (show ix < nb.len by omega) (bs + k)
      unfold writeBackStep
      simp only [hx, hy, hso]
      by_cases hne : x.1 ≠ y.1
      · simp only [if_pos hne, hsn]; exact ⟨_, rfl⟩
      · simp only [if_neg hne]; exact ⟨_, rfl⟩)
  exact ⟨kv0, _, r, hk0, hs0, hr⟩

/-! ## absence of panics: the work list -/

/-- what `shiftBtc j m` does to one entry -/
def btcShiftF (j m : Nat) (x : Int) : Int := if x ≤ (j : Int) then x else x + (m : Int)

theorem shiftBtc_spec (j m : Nat) : ∀ (k : Nat) (b : Sl Int), b.WF → k ≤ b.len → (b.toList.take k).Pairwise (· < ·) →
    ∃ b', shiftBtc j m k b = .ok b' ∧ b'.len = b.len ∧ b'.data.size = b.data.size ∧
      ∀ i, b'.data[i]? = if i < k then (b.data[i]?).map (btcShiftF j m) else b.data[i]? := by
  intro k
  induction k with
  | zero => intro b _ _ _; exact ⟨b, rfl, rfl, rfl, fun i => by simp⟩
  | succ k ih =>
    intro b hw hk hs
    obtain ⟨x, hx, hdx⟩ := Sl.get_ok_of_lt hw (show k < b.len by omega)
    have hlen : b.toList.length = b.len := Sl.length_toList _ hw
    rw [shiftBtc]
    simp only [hx]
    by_cases hxj : x ≤ (j : Int)
    · rw [if_pos hxj]
      refine ⟨b, rfl, rfl, rfl, ?_⟩
      intro i
      by_cases hi : i < k + 1
      · rw [if_pos hi]
        have hil : i < b.toList.length := by omega
        have hdi : b.data[i]? = some (b.toList[i]) := by
          have := Sl.getElem?_toList b i
          rw [if_pos (by omega), List.getElem?_eq_getElem hil] at this
          exact this.symm
        rw [hdi]
        -- the entry is ≤ x ≤ j
        have hle : b.toList[i] ≤ x := by
          have hxk : b.toList[k]? = some x := Sl.get_eq_toList.1 hx
          obtain ⟨hkl, hxk'⟩ := List.getElem?_eq_some_iff.1 hxk
          by_cases hik : i = k
          · subst hik; rw [hxk']
          · have hp := List.pairwise_iff_getElem.1 hs i k (by simp; omega) (by simp; omega) (by omega)
            simp only [List.getElem_take] at hp
            rw [hxk'] at hp; exact Int.le_of_lt hp
        simp only [Option.map_some, btcShiftF]
        rw [if_pos (Int.le_trans hle hxj)]
      · rw [if_neg hi]
    · rw [if_neg hxj]
      have hset := Sl.set_ok_of_lt hw (show k < b.len by omega) (x + (m : Int))
      simp only [hset]
      have hw1 : (⟨b.data.setIfInBounds k (x + (m : Int)), b.len⟩ : Sl Int).WF := Sl.set_wf hw hset
      have hs1 : ((⟨b.data.setIfInBounds k (x + (m : Int)), b.len⟩ : Sl Int).toList.take k).Pairwise (· < ·) := by
        rw [Sl.toList_set hset, List.take_set, List.set_eq_of_length_le (by simp)]
        exact List.Pairwise.sublist (List.take_sublist_take_left (by omega)) hs
      obtain ⟨b', h1, h2, h3, h4⟩ := ih _ hw1 (by show k ≤ b.len; omega) hs1
      refine ⟨b', h1, h2, by rw [h3]; simp, ?_⟩
      intro i
      rw [h4, Sl.set_data hset]
      by_cases hik : i < k
      · rw [if_pos hik, if_neg (show ¬ i = k by omega), if_pos (show i < k + 1 by omega)]
      · rw [if_neg hik]
        by_cases hik2 : i = k
        · subst hik2
          rw [if_pos rfl, if_pos (show i < i + 1 by omega), hdx]
          simp only [Option.map_some, btcShiftF]
          rw [if_neg hxj]
        · rw [if_neg hik2, if_neg (show ¬ i < k + 1 by omega)]

theorem btcShiftF_lt {j m : Nat} {a b : Int} (h : a < b) : btcShiftF j m a < btcShiftF j m b := by
  unfold btcShiftF
  split <;> split <;> omega

/-- `shiftBtc` on the whole work list -/
theorem shiftBtc_full (j m : Nat) (b : Sl Int) (hw : b.WF) (hs : b.toList.Pairwise (· < ·)) :
    ∃ b', shiftBtc j m b.len b = .ok b' ∧ b'.WF ∧ b'.len = b.len ∧ b'.data.size = b.data.size ∧
      b'.toList = b.toList.map (btcShiftF j m) := by
  have hlen : b.toList.length = b.len := Sl.length_toList _ hw
  obtain ⟨b', h1, h2, h3, h4⟩ := shiftBtc_spec j m b.len b hw (Nat.le_refl _)
    (by rw [List.take_of_length_le (by omega)]; exact hs)
  refine ⟨b', h1, by unfold Sl.WF at *; omega, h2, h3, ?_⟩
  apply List.ext_getElem?
  intro i
  rw [Sl.getElem?_toList, List.getElem?_map, Sl.getElem?_toList, h2, h4]
  by_cases hi : i < b.len
  · rw [if_pos hi, if_pos hi, if_pos hi]
  · rw [if_neg hi, if_neg hi]; rfl

/-- `unionSl` on strictly increasing operands (as `unionSl_spec` of CanonFSplit.lean) -/
theorem unionSl_ok (s : Sl Int) (b : List Int) (hs : s.toList.Pairwise (· < ·)) (hb : b.Pairwise (· < ·)) :
    ∃ s', unionSl s b = .ok s' ∧ s'.WF ∧ s'.toList = SortInts.union s.toList b ∧
      ((SortInts.union s.toList b).length ≤ s.data.size → s'.data.size = s.data.size) := by
  have hu := SortInts.unionM_result s.toList (s.data.toList.drop s.len) b hs hb
  unfold unionSl
  rw [hu]
  simp only
  by_cases hc : (SortInts.union s.toList b).length ≤ s.data.size
  · rw [if_pos hc]
    refine ⟨_, rfl, ?_, ?_, ?_⟩
    · simp [Sl.WF]
    · simp [Sl.toList]
    · intro _; simp; omega
  · rw [if_neg hc]
    refine ⟨_, rfl, ?_, ?_, ?_⟩
    · simp [Sl.WF]
    · simp [Sl.toList]
    · intro h; exact absurd h hc

/-- a strictly increasing list of integers in `[0, N)` has at most `N` elements -/
theorem rf_sortedInt_length_le : ∀ (l : List Int) (lo : Int) (N : Nat), l.Pairwise (· < ·) → (∀ x ∈ l, lo ≤ x ∧ x < (N : Int)) →
    lo ≤ (N : Int) → (l.length : Int) ≤ (N : Int) - lo := by
  intro l
  induction l with
  | nil => intro lo N _ _ h; simp; omega
  | cons x xs ih =>
    intro lo N hp hr hlo
    rw [List.pairwise_cons] at hp
    have hx := hr x (List.mem_cons_self ..)
    have := ih (x + 1) N hp.2 (by
      intro y hy
      have h1 := hp.1 y hy
      have h2 := hr y (List.mem_cons_of_mem _ hy)
      omega) (by omega)
    simp only [List.length_cons]
    omega


/-- the loop `space[k-j] = k` for `k = j .. j+m` -/
theorem spaceLoop_spec (j m : Nat) (sp : Sl Nat) (hw : sp.WF) (hl : sp.len = m + 1) :
    ∃ sp2, forRange (fun k (s : Sl Nat) => s.set (k - j) k) (m + 1) j sp = .ok sp2 ∧
      sp2.data.size = sp.data.size ∧ sp2.toList = List.range' j (m + 1) := by
  obtain ⟨r, hr, h1, h2, h3⟩ := forRange_total (fun k (s : Sl Nat) => s.set (k - j) k)
    (fun k (s : Sl Nat) => s.len = m + 1 ∧ s.data.size = sp.data.size ∧
      ∀ i, i + j < k → s.data[i]? = some (j + i)) (m + 1) j sp ⟨hl, rfl, fun i hi => by omega⟩
    (by
      intro k s hk1 hk2 ⟨g1, g2, g3⟩
      have hsw : s.WF := by unfold Sl.WF at *; omega
      have hs := Sl.set_ok_of_lt hsw (show k - j < s.len by omega) k
      refine ⟨_, hs, g1, by simp [g2], ?_⟩
      intro i hi
      rw [Sl.set_data hs]
      by_cases hik : i = k - j
      · rw [if_pos hik]; congr 1; omega
      · rw [if_neg hik]; exact g3 i (by omega))
  refine ⟨r, hr, h2, ?_⟩
  apply List.ext_getElem?
  intro i
  rw [Sl.getElem?_toList, h1]
  by_cases hi : i < m + 1
  · rw [if_pos hi, h3 i (by omega), List.getElem?_range' hi]; congr 1; omega
  · rw [if_neg hi]
    symm; apply List.getElem?_eq_none
    rw [List.length_range']; omega

/-- the three statements that insert a block into `binDividers` succeed when there is room -/
theorem insertBlock_copy_total {α : Type} (s : Sl α) (j : Nat) (l : List α) (hj : j ≤ s.len)
    (hc : s.len + l.length ≤ s.data.size) :
    ∃ s1 s2 s3, s.reslice (s.len + l.length) = .ok s1 ∧ s1.copySelf (j + l.length) j s1.len = .ok s2 ∧
      s2.copyAt j l = .ok s3 := by
  have h1 : s.reslice (s.len + l.length) = .ok ⟨s.data, s.len + l.length⟩ := Sl.reslice_eq_ok.2 ⟨hc, rfl⟩
  obtain ⟨s2, h2⟩ : ∃ s2, (⟨s.data, s.len + l.length⟩ : Sl α).copySelf (j + l.length) j (s.len + l.length) = .ok s2 :=
    ⟨_, Sl.copySelf_eq_ok.2 ⟨⟨by show j + l.length ≤ s.len + l.length; omega, by omega, hc⟩, rfl⟩⟩
  obtain ⟨l2, _⟩ := Sl.copySelf_len h2
  have l2' : s2.len = s.len + l.length := l2
  obtain ⟨s3, h3⟩ : ∃ s3, s2.copyAt j l = .ok s3 := ⟨_, Sl.copyAt_eq_ok.2 ⟨by omega, rfl⟩⟩
  exact ⟨_, s2, s3, h1, h2, h3⟩

theorem insertBlock_fill_total {α : Type} (s : Sl α) (j m : Nat) (a : α) (hj : j ≤ s.len)
    (hc : s.len + m ≤ s.data.size) :
    ∃ s1 s2 s3, s.reslice (s.len + m) = .ok s1 ∧ s1.copySelf (j + m) j s1.len = .ok s2 ∧
      forRange (fun i (x : Sl α) => x.set (j + i) a) m 0 s2 = .ok s3 := by
  have h1 : s.reslice (s.len + m) = .ok ⟨s.data, s.len + m⟩ := Sl.reslice_eq_ok.2 ⟨hc, rfl⟩
  obtain ⟨s2, h2⟩ : ∃ s2, (⟨s.data, s.len + m⟩ : Sl α).copySelf (j + m) j (s.len + m) = .ok s2 :=
    ⟨_, Sl.copySelf_eq_ok.2 ⟨⟨by show j + m ≤ s.len + m; omega, by omega, hc⟩, rfl⟩⟩
  obtain ⟨l2, z2⟩ := Sl.copySelf_len h2
  have l2' : s2.len = s.len + m := l2
  have z2' : s2.data.size = s.data.size := z2
  obtain ⟨s3, h3, _⟩ := forRange_total (fun i (x : Sl α) => x.set (j + i) a)
    (fun _ (x : Sl α) => x.len = s2.len ∧ x.data.size = s2.data.size) m 0 s2 ⟨rfl, rfl⟩
    (by
      intro i x _ hi ⟨g1, g2⟩
      have hxw : x.WF := by unfold Sl.WF at *; omega
      have hs := Sl.set_ok_of_lt hxw (show j + i < x.len by omega) a
      exact ⟨_, hs, g1, by simp [g2]⟩)
  exact ⟨_, s2, s3, h1, h2, h3⟩

/-! ## absence of panics: `expandValue` (with an empty `currentBest`) -/

theorem rf_append_wf {s : Sl Nat} (hw : s.WF) (x : Nat) : (s.append x).WF := by
  unfold Sl.WF at *
  unfold Sl.append
  by_cases h : s.len < s.data.size
  · rw [if_pos h]; simp; omega
  · rw [if_neg h]
    simp only [List.size_toArray, List.length_append, List.length_take, Array.length_toList, List.length_singleton,
      List.length_replicate]
    omega

theorem rf_codeLoop_total {n : Nat} {ic : Sl Nat} (hw : ic.WF) (hl : ic.len = n) (j : Nat) :
    ∀ (l : List Nat) (value : Sl Nat), (∀ v ∈ l, v < n) → value.WF →
      ∃ value', forList (codeStep ic j) l value = .ok value' ∧ value'.WF := by
  intro l value hln hv
  exact forList_total (codeStep ic j) (fun (s : Sl Nat) => s.WF) l value hv
    (by
      intro v s hvl hs
      obtain ⟨k, hk, _⟩ := Sl.get_ok_of_lt hw (show v < ic.len by have := hln v hvl; omega)
      unfold codeStep
      simp only [hk]
      by_cases hkj : k < j
      · rw [if_pos hkj]; exact ⟨_, rfl, rf_append_wf hs _⟩
      · rw [if_neg hkj]; exact ⟨_, rfl, hs⟩)

/-- with singleton bins `0 .. j-1` and `j < n` there is a bin `j` -/
theorem rf_single_lt_len {n : Nat} {op : OP} (hp : PartInv n op) {j : Nat}
    (hsing : ∀ t, t < j → op.binDividers.toList[t]? = some (t + 1)) (hj : j < n) :
    j < op.binDividers.toList.length := by
  apply Nat.lt_of_not_le
  intro hle
  have hpos : 0 < op.binDividers.toList.length := List.length_pos_of_mem (List.mem_of_getLast? hp.last)
  have h1 := hsing (op.binDividers.toList.length - 1) (by omega)
  have h2 := hp.last
  rw [List.getLast?_eq_getElem?, h1] at h2
  have := Option.some.inj h2
  omega


theorem rf_sortRange_total {s : Sl Nat} {a : Nat} (hw : s.WF) (ha : a ≤ s.len) :
    ∃ s', s.sortRange a s.len = .ok s' ∧ s'.WF := by
  unfold Sl.sortRange
  have : a ≤ s.len ∧ s.len ≤ s.data.size := ⟨ha, hw⟩
  rw [if_pos this]
  exact ⟨_, rfl, by unfold Sl.WF at *; simpa using hw⟩

/-- `expandValue` does not panic while `currentBest` is empty, and re-establishes `PrefixSingle` -/
theorem expandLoop_total {n : Nat} {nb : Nbrs} {cb fl : Sl Nat} (hnbs : nb.size = n)
    (hnbr : ∀ (u : Nat) (l : List Nat), nb[u]? = some l → ∀ v ∈ l, v < n) (hcb : cb.len = 0) :
    ∀ (k j : Nat) (op : OP), j + k = n → PartInv n op →
      (∀ t, t < j → op.binDividers.toList[t]? = some (t + 1)) → op.value.WF →
      ∃ op', expandLoop nb cb fl k j op = .ok (false, op') ∧ PrefixSingle op' ∧ op'.value.WF := by
  intro k
  induction k with
  | zero =>
    intro j op hjk hp hsing hv
    have hj : j = n := by omega
    subst hj
    refine ⟨_, rfl, ⟨?_, ?_⟩, hv⟩
    · show op.order.len ≤ op.binDividers.len
      rw [hp.lenOrder]
      have hn := hp.n_pos
      have := (List.getElem?_eq_some_iff.1 (hsing (j - 1) (by omega))).1
      rw [Sl.length_toList _ hp.wfBd] at this
      omega
    · intro t ht
      exact hsing t (by simpa [hp.lenOrder] using ht)
  | succ k ih =>
    intro j op hjk hp hsing hv
    have hjn : j < n := by omega
    have hjl := rf_single_lt_len hp hsing hjn
    have hbl : op.binDividers.toList.length = op.binDividers.len := Sl.length_toList _ hp.wfBd
    obtain ⟨a, hga, _⟩ := Sl.get_ok_of_lt hp.wfBd (show j < op.binDividers.len by omega)
    have hal : op.binDividers.toList[j]? = some a := Sl.get_eq_toList.1 hga
    have hg1 : j ≠ 0 → op.binDividers.get (j - 1) = .ok j := by
      intro h0
      rw [Sl.get_eq_toList, hsing (j - 1) (by omega)]
      congr 1; omega
    rw [expandLoop]
    split
    rotate_left
    · rename_i heq
      by_cases h0 : j = 0
      · subst h0; rw [if_pos rfl, hga] at heq; cases heq
      · rw [if_neg h0, hga, hg1 h0] at heq; cases heq
    · rename_i heq
      by_cases h0 : j = 0
      · subst h0; rw [if_pos rfl, hga] at heq; cases heq
      · rw [if_neg h0, hga, hg1 h0] at heq; cases heq
    rename_i bsz heq
    have hbsz : bsz = a - j := by
      by_cases h0 : j = 0
      · subst h0; rw [if_pos rfl, hga] at heq; cases heq; rfl
      · rw [if_neg h0, hga, hg1 h0] at heq; cases heq; rfl
    subst hbsz
    by_cases hne : a - j ≠ 1
    · rw [if_pos hne]
      exact ⟨_, rfl, ⟨by show j ≤ op.binDividers.len; omega, hsing⟩, hv⟩
    · rw [if_neg hne]
      have haj : a = j + 1 := by omega
      obtain ⟨u, hu, _⟩ := Sl.get_ok_of_lt hp.wfOrder (show j < op.order.len by rw [hp.lenOrder]; exact hjn)
      have hun : u < n := perm_range_lt hp.perm (Sl.get_eq_toList.1 hu)
      have hnu : nbrsGet nb u = .ok (nb[u]'(by omega)) := by
        unfold nbrsGet
        rw [Array.getElem?_eq_getElem (by omega)]
      have hln : ∀ v ∈ nb[u]'(by omega), v < n := hnbr u _ (Array.getElem?_eq_getElem (by omega))
      obtain ⟨value1, hc1, hw1⟩ := rf_codeLoop_total hp.wfInCell hp.lenInCell j _ op.value hln hv
      have hmono := (codeLoop_len _ _ _ hc1).1
      rw [Sl.length_toList _ hv, Sl.length_toList _ hw1] at hmono
      obtain ⟨value2, hs2, hw2⟩ := rf_sortRange_total hw1 hmono
      simp only [hu, hnu, hc1, hs2, worseTest_empty hcb]
      have hp2 : PartInv n { op with value := value2 } := PartInv.of_frame hp rfl rfl rfl rfl
      exact ih (j + 1) { op with value := value2 } (by omega) hp2
        (by
          intro t ht
          by_cases htj : t = j
          · subst htj; show op.binDividers.toList[t]? = some (t + 1); rw [hal, haj]
          · exact hsing t (by omega))
        hw2

theorem expandValue_total {n : Nat} {nb : Nbrs} {cb fl : Sl Nat} {op : OP} (hnbs : nb.size = n)
    (hnbr : ∀ (u : Nat) (l : List Nat), nb[u]? = some l → ∀ v ∈ l, v < n) (hcb : cb.len = 0)
    (hp : PartInv n op) (hps : PrefixSingle op) (hv : op.value.WF) :
    ∃ op', expandValue nb cb fl op = .ok (false, op') ∧ PrefixSingle op' ∧ op'.value.WF := by
  unfold expandValue
  have hle : op.spl ≤ n := Nat.le_trans hps.le hp.bdLen_le
  exact expandLoop_total hnbs hnbr hcb _ _ op (by rw [hp.lenOrder]; omega) hp hps.single hv

/-! ## absence of panics: a bin that is not skipped is really split -/

/-- a list with two different elements has two different neighbours -/
theorem rf_adjacent_ne : ∀ (l : List Nat), (∃ x ∈ l, ∃ y ∈ l, x ≠ y) → ∃ k, k + 1 < l.length ∧ l[k]? ≠ l[k + 1]? := by
  intro l
  induction l with
  | nil => rintro ⟨x, hx, _⟩; simp at hx
  | cons a t ih =>
    rintro ⟨x, hx, y, hy, hxy⟩
    cases t with
    | nil =>
      simp at hx hy; omega
    | cons b r =>
      by_cases hab : a = b
      · subst hab
        have hx' : x ∈ a :: r := by
          rcases List.mem_cons.1 hx with h | h
          · exact h ▸ List.mem_cons_self ..
          · exact h
        have hy' : y ∈ a :: r := by
          rcases List.mem_cons.1 hy with h | h
          · exact h ▸ List.mem_cons_self ..
          · exact h
        obtain ⟨k, hk1, hk2⟩ := ih ⟨x, hx', y, hy', hxy⟩
        exact ⟨k + 1, by simp at hk1 ⊢; omega, by simpa using hk2⟩
      · exact ⟨0, by simp, by simpa using hab⟩

/-- the values of `dws` after the fill of a bin that is not skipped are not all equal -/
theorem fill_nonconst (hst : StablePerm) {n : Nat} {op : OP} {sc : Scratch} {j bs dj mc nm : Nat} {dws0 dws : Sl KV}
    (hp : PartInv n op) (hcc : CellCount op sc.timesSeen sc.maxCell sc.numberOfMax j)
    (hbs : (0 :: op.binDividers.toList)[j]? = some bs) (hdj : op.binDividers.toList[j]? = some dj)
    (hmc : sc.maxCell.get j = .ok mc) (hnm : sc.numberOfMax.get j = .ok nm)
    (hmc0 : mc ≠ 0) (hnmB : nm ≠ dj - bs)
    (hd0 : sc.dws.reslice (dj - bs) = .ok dws0)
    (hf : (mc = 1 ∧ ∃ z o, forRange (fillOnesStep op.order sc.timesSeen bs) (dj - bs) 0
            (dws0, 0, if nm ≤ dj - bs then some (dj - bs - nm) else none) = .ok (dws, z, o)) ∨
          (mc ≠ 1 ∧ ∃ dws1, forRange (fillStep op.order sc.timesSeen bs) (dj - bs) 0 dws0 = .ok dws1 ∧
            stable dws1 dws1.len = .ok dws)) :
    ∃ k', 1 ≤ k' ∧ k' < dj - bs ∧ (dws.data[k']?).map Prod.fst ≠ (dws.data[k' - 1]?).map Prod.fst := by
  have hlt : bs < dj := rf_sorted_start_lt hp.sorted hbs hdj
  have hs : op.binDividers.toList.Pairwise (· < ·) := (List.pairwise_cons.1 hp.sorted).2
  have hdn : dj ≤ n := rf_bd_le_last hs hp.last dj (List.mem_of_getElem? hdj)
  have holen : op.order.toList.length = n := by rw [Sl.length_toList _ hp.wfOrder, hp.lenOrder]
  obtain ⟨e1, e2, w0⟩ := Sl.reslice_len hd0
  have hsum : bs + (dj - bs) = dj := by omega
  obtain ⟨c1, c2, c3⟩ := hcc bs dj hbs hdj
  rw [rfDv_of_get hmc] at c1 c2 c3
  rw [rfDv_of_get hnm] at c2 c3
  have hnm1 : 0 < nm := c3 (by omega)
  have hseglen : (rfSeg op.order.toList bs dj).length = dj - bs := length_rfSeg _ _ _ (by omega) (by omega)
  rcases hf with ⟨hmc1, z, o, hfo⟩ | ⟨_, dws1, hf1, hstb⟩
  · subst hmc1
    have := fillOnes_spec (order := op.order) (ts := sc.timesSeen) (bs := bs) (B := dj - bs) (nm := nm) e1
      (by rw [hsum, holen]; exact hdn)
      (by
        rw [hsum]; intro v hv
        obtain ⟨p, h1, h2, h3⟩ := mem_rfSeg.1 hv
        exact c1 p v h1 h2 h3)
      (by rw [hsum]; exact c2 (by omega)) hfo
    obtain ⟨_, _, _, hnB, hval⟩ := this
    refine ⟨dj - bs - nm, by omega, by omega, ?_⟩
    rw [hval _ (by omega), hval _ (by omega), if_neg (by omega), if_pos (by omega)]
    simp
  · obtain ⟨f1, f2, f3⟩ := fill_spec hf1
    obtain ⟨g1, g2, g3⟩ := hst _ _ _ hstb
    have hdl : dws.len = dj - bs := by rw [g1, f1, e1]
    have hdw : dws.WF := by unfold Sl.WF at *; omega
    -- the values of dws1 are the counts of the segment
    have hv1 : dws1.toList.map Prod.fst = (rfSeg op.order.toList bs dj).map (rfTv sc.timesSeen) := by
      apply List.ext_getElem?
      intro i
      rw [List.getElem?_map, List.getElem?_map, Sl.getElem?_toList, getElem?_rfSeg, f1, e1]
      by_cases hi : i < dj - bs
      · rw [if_pos hi, if_pos hi]
        obtain ⟨v, h1, h2⟩ := f3 i hi
        rw [h1, h2]; rfl
      · rw [if_neg hi, if_neg hi]; rfl
    have hperm : (dws.toList.map Prod.fst).Perm ((rfSeg op.order.toList bs dj).map (rfTv sc.timesSeen)) := by
      rw [← hv1]; exact g3.map Prod.fst
    -- two different values occur
    have h2 := c2 (by omega)
    obtain ⟨v, hv, hvm⟩ : ∃ v ∈ rfSeg op.order.toList bs dj, rfTv sc.timesSeen v = mc := by
      have : 0 < (rfSeg op.order.toList bs dj).countP (fun v => decide (rfTv sc.timesSeen v = mc)) := by omega
      obtain ⟨a, ha, hpa⟩ := List.countP_pos_iff.1 this
      exact ⟨a, ha, by simpa using hpa⟩
    obtain ⟨v', hv', hvm'⟩ : ∃ v ∈ rfSeg op.order.toList bs dj, rfTv sc.timesSeen v ≠ mc := by
      apply Classical.byContradiction
      intro hno
      have : (rfSeg op.order.toList bs dj).countP (fun v => decide (rfTv sc.timesSeen v = mc)) =
          (rfSeg op.order.toList bs dj).length := by
        rw [List.countP_eq_length]
        intro a ha
        have : rfTv sc.timesSeen a = mc := Classical.byContradiction (fun hne => hno ⟨a, ha, hne⟩)
        simpa using this
      omega
    have hm1 : rfTv sc.timesSeen v ∈ dws.toList.map Prod.fst :=
      hperm.mem_iff.2 (List.mem_map.2 ⟨v, hv, rfl⟩)
    have hm2 : rfTv sc.timesSeen v' ∈ dws.toList.map Prod.fst :=
      hperm.mem_iff.2 (List.mem_map.2 ⟨v', hv', rfl⟩)
    obtain ⟨k, hk1, hk2⟩ := rf_adjacent_ne _ ⟨_, hm1, _, hm2, by omega⟩
    rw [List.length_map, Sl.length_toList _ hdw, hdl] at hk1
    refine ⟨k + 1, by omega, hk1, ?_⟩
    rw [List.getElem?_map, List.getElem?_map, Sl.getElem?_toList, Sl.getElem?_toList, hdl, if_pos (by omega),
      if_pos hk1] at hk2
    rw [Nat.add_sub_cancel]
    exact fun h => hk2 h.symm

/-! ## absence of panics: evaluating the stages of `splitCell` forwards -/

theorem scTail_eval {nb : Nbrs} {cb fl : Sl Nat} {opts : Options} {j : Nat} {op op' : OP} (sc : Scratch)
    (hv : opts.checkViability = false)
    (hex : (if j = op.spl then expandValue nb cb fl op else .ok (false, op)) = .ok (false, op')) :
    scTail nb cb fl opts j op sc = .ok (false, op', sc) := by
  unfold scTail
  simp only [hex, hv, Bool.false_eq_true, if_false]

theorem scUpd2_eval {nb : Nbrs} {cb fl : Sl Nat} {opts : Options} {j : Nat} {op : OP} {sc : Scratch}
    {dws : Sl KV} {order nbs : Sl Nat} {nbsIndex : Nat} {btc : Sl Int} {bd : Sl Nat}
    {ag1 ag2 ag3 : Sl Int} {sp1 sp2 : Sl Nat} {btc2 : Sl Int} {op2 : OP}
    (h1 : op.binAges.reslice (op.binAges.len + nbs.len) = .ok ag1)
    (h2 : ag1.copySelf (j + nbs.len) j ag1.len = .ok ag2)
    (h3 : forRange (fun i (a : Sl Int) => a.set (j + i) op.age) nbs.len 0 ag2 = .ok ag3)
    (h4 : sc.space.reslice (nbsIndex + 1) = .ok sp1)
    (h5 : forRange (fun k (s : Sl Nat) => s.set (k - j) k) (nbsIndex + 1) j sp1 = .ok sp2)
    (h6 : unionSl btc (sp2.toList.map Int.ofNat) = .ok btc2)
    (h7 : recomputeInCell { op with order := order, binsToCheck := btc2, binDividers := bd, binAges := ag3 } = .ok op2) :
    scUpd2 nb cb fl opts j op sc dws order nbs nbsIndex btc bd =
      scTail nb cb fl opts j op2 { sc with dws := dws, nbs := nbs, space := sp2 } := by
  unfold scUpd2
  simp only [h1, h2, h3, h4, h5, h6, h7]

theorem scUpd1_eval {nb : Nbrs} {cb fl : Sl Nat} {opts : Options} {j : Nat} {op : OP} {sc : Scratch}
    {dws : Sl KV} {order nbs : Sl Nat} {nbsIndex : Nat} {nbs3 : Sl Nat} {btc : Sl Int} {bd1 bd2 bd3 : Sl Nat}
    (h1 : nbs.reslice nbsIndex = .ok nbs3)
    (h2 : shiftBtc j nbsIndex op.binsToCheck.len op.binsToCheck = .ok btc)
    (h3 : op.binDividers.reslice (op.binDividers.len + nbs3.len) = .ok bd1)
    (h4 : bd1.copySelf (j + nbs3.len) j bd1.len = .ok bd2)
    (h5 : bd2.copyAt j nbs3.toList = .ok bd3) :
    scUpd1 nb cb fl opts j op sc dws order nbs nbsIndex =
      scUpd2 nb cb fl opts j op sc dws order nbs3 nbsIndex btc bd3 := by
  unfold scUpd1
  simp only [h1, h2, h3, h4, h5]

theorem scWrite_eval {nb : Nbrs} {n : Nat} {cb fl : Sl Nat} {opts : Options} {j : Nat} {op : OP} {sc : Scratch}
    {binStart binSize : Nat} {dws : Sl KV} {nbs0 : Sl Nat} {kv0 : KV} {order1 order2 nbs2 : Sl Nat} {idx : Nat}
    (h1 : sc.nbs.reslice n = .ok nbs0) (h2 : dws.get 0 = .ok kv0) (h3 : op.order.set binStart kv0.2 = .ok order1)
    (h4 : forRange (writeBackStep dws binStart) (binSize - 1) 1 (order1, nbs0, 0) = .ok (order2, nbs2, idx)) :
    scWrite nb n cb fl opts j op sc binStart binSize dws = scUpd1 nb cb fl opts j op sc dws order2 nbs2 idx := by
  unfold scWrite
  simp only [h1, h2, h3, h4]

theorem scFill_eval {nb : Nbrs} {n : Nat} {cb fl : Sl Nat} {opts : Options} {j : Nat} {op : OP} {sc : Scratch}
    {binStart binSize mc nm : Nat} {dws0 dws : Sl KV}
    (hf : (mc = 1 ∧ ∃ z o, forRange (fillOnesStep op.order sc.timesSeen binStart) binSize 0
            (dws0, 0, if nm ≤ binSize then some (binSize - nm) else none) = .ok (dws, z, o)) ∨
          (mc ≠ 1 ∧ ∃ dws1, forRange (fillStep op.order sc.timesSeen binStart) binSize 0 dws0 = .ok dws1 ∧
            stable dws1 dws1.len = .ok dws)) :
    scFill nb n cb fl opts j op sc binStart binSize mc nm dws0 =
      scWrite nb n cb fl opts j op sc binStart binSize dws := by
  unfold scFill
  rcases hf with ⟨h1, z, o, h2⟩ | ⟨h1, dws1, h2, h3⟩
  · simp only [if_pos h1, h2]
  · simp only [if_neg h1, h2, h3]

theorem rf_binStart_get {bd : Sl Nat} {j bs : Nat} (h : (0 :: bd.toList)[j]? = some bs) :
    (if j > 0 then bd.get (j - 1) else Outcome.ok 0) = Outcome.ok bs := by
  cases j with
  | zero => simp at h; subst h; rfl
  | succ k =>
    rw [if_pos (by omega)]
    rw [List.getElem?_cons_succ] at h
    exact Sl.get_eq_toList.2 h

theorem scHead_eval {nb : Nbrs} {n : Nat} {cb fl : Sl Nat} {opts : Options} {j : Nat} {op : OP} {sc : Scratch}
    {bs dj mc nm : Nat} {dws0 : Sl KV}
    (hbs : (0 :: op.binDividers.toList)[j]? = some bs) (hdj : op.binDividers.get j = .ok dj)
    (hmc : sc.maxCell.get j = .ok mc) (hnm : sc.numberOfMax.get j = .ok nm) (hle : bs ≤ dj)
    (hd : sc.dws.reslice (dj - bs) = .ok dws0) :
    scHead nb n cb fl opts j op sc =
      if dj = bs + 1 ∨ mc = 0 ∨ nm = dj - bs then .ok (false, op, sc)
      else scFill nb n cb fl opts j op sc bs (dj - bs) mc nm dws0 := by
  unfold scHead
  simp only [rf_binStart_get hbs, hdj, hmc, hnm, hd]
  by_cases h1 : dj = bs + 1
  · simp [h1]
  · by_cases h2 : mc = 0
    · simp [h1, h2]
    · by_cases h3 : nm = dj - bs
      · simp [h1, h2, h3, hle]
      · have : ¬ (dj < bs) := by omega
        simp [h1, h2, h3, this]

/-! ## absence of panics: one call of `splitCell` -/

/-- the unchanging context of the no-panic theorem -/
structure NPCtx (n : Nat) (nb : Nbrs) (cb : Sl Nat) (opts : Options) : Prop where
  nbSize : nb.size = n
  nbRange : ∀ (u : Nat) (l : List Nat), nb[u]? = some l → ∀ v ∈ l, v < n
  cb0 : cb.len = 0
  noViab : opts.checkViability = false

/-- what the partition has to satisfy for the refinement not to panic -/
structure NPOp (n : Nat) (op : OP) : Prop where
  inv : PartInv n op
  capBd : n ≤ op.binDividers.data.size
  capAges : n ≤ op.binAges.data.size
  capBtc : n ≤ op.binsToCheck.data.size
  btcWF : op.binsToCheck.WF
  btcSorted : op.binsToCheck.toList.Pairwise (· < ·)
  btcRange : ∀ x ∈ op.binsToCheck.toList, 0 ≤ x ∧ x < (op.binDividers.len : Int)
  pre : PrefixSingle op
  valWF : op.value.WF

/-- the scratch slices inside one iteration -/
structure SplitScr (n : Nat) (sc : Scratch) : Prop where
  capDws : n ≤ sc.dws.data.size
  capNbs : n ≤ sc.nbs.data.size
  capSpace : n ≤ sc.space.data.size
  tsWF : sc.timesSeen.WF
  tsLen : n ≤ sc.timesSeen.len
  mcWF : sc.maxCell.WF
  nmWF : sc.numberOfMax.WF

/-- the termination measure of the main loop -/
def refinePotential (n : Nat) (op : OP) : Nat := op.binsToCheck.len + 2 * (n - op.binDividers.len)

/-- the new work list -/
theorem btc_union_facts {btc : List Int} {L j idx : Nat} (hs : btc.Pairwise (· < ·))
    (hr : ∀ x ∈ btc, 0 ≤ x ∧ x < (L : Int)) (hj : j < L) :
    let U := SortInts.union (btc.map (btcShiftF j idx)) ((List.range' j (idx + 1)).map Int.ofNat)
    U.Pairwise (· < ·) ∧ (∀ x ∈ U, 0 ≤ x ∧ x < ((L + idx : Nat) : Int)) ∧ U.length ≤ L + idx ∧
      U.length ≤ btc.length + idx + 1 := by
  intro U
  have h1 : (btc.map (btcShiftF j idx)).Pairwise (· < ·) := hs.map _ (fun a b h => btcShiftF_lt h)
  have h2 : ((List.range' j (idx + 1)).map Int.ofNat).Pairwise (· < ·) :=
    (List.pairwise_lt_range' (s := j) (n := idx + 1)).map _ (fun a b h => by simpa using h)
  have hsorted : U.Pairwise (· < ·) := SortInts.union_sorted _ _ h1 h2
  have hrange : ∀ x ∈ U, 0 ≤ x ∧ x < ((L + idx : Nat) : Int) := by
    intro x hx
    rcases (SortInts.mem_union _ _ x).1 hx with h | h
    · obtain ⟨y, hy, rfl⟩ := List.mem_map.1 h
      have := hr y hy
      unfold btcShiftF
      split <;> omega
    · obtain ⟨t, ht, rfl⟩ := List.mem_map.1 h
      rw [List.mem_range'_1] at ht
      simp only [Int.ofNat_eq_natCast]
      omega
  refine ⟨hsorted, hrange, ?_, ?_⟩
  · have := rf_sortedInt_length_le U 0 (L + idx) hsorted (fun x hx => by have := hrange x hx; omega) (by omega)
    omega
  · have : U.length + SortInts.intersectionSize (btc.map (btcShiftF j idx)) ((List.range' j (idx + 1)).map Int.ofNat) =
        (btc.map (btcShiftF j idx)).length + ((List.range' j (idx + 1)).map Int.ofNat).length :=
      SortInts.length_union_add (btc.map (btcShiftF j idx)) ((List.range' j (idx + 1)).map Int.ofNat)
    simp only [List.length_map, List.length_range'] at this
    omega


/-- one call of `splitCell` does not panic, returns `false`, keeps `NPOp` and does not increase the refinePotential -/
theorem splitCell_total (hst : StablePerm) (htot : StableTotal) {nb : Nbrs} {n : Nat} {cb fl : Sl Nat} {opts : Options}
    (hctx : NPCtx n nb cb opts) {j : Nat} {op : OP} {sc : Scratch}
    (ho : NPOp n op) (hs : SplitScr n sc) (hj : j < op.binDividers.len) (hjm : j < sc.maxCell.len)
    (hjn : j < sc.numberOfMax.len) (hcc : CellCount op sc.timesSeen sc.maxCell sc.numberOfMax j) :
    ∃ op' sc', splitCell nb n cb fl opts j (false, op, sc) = .ok (false, op', sc') ∧ NPOp n op' ∧
      refinePotential n op' ≤ refinePotential n op ∧ op.binDividers.len ≤ op'.binDividers.len := by
  have hp := ho.inv
  have hbl : op.binDividers.toList.length = op.binDividers.len := Sl.length_toList _ hp.wfBd
  obtain ⟨dj, hgd, _⟩ := Sl.get_ok_of_lt hp.wfBd hj
  have hdj : op.binDividers.toList[j]? = some dj := Sl.get_eq_toList.1 hgd
  obtain ⟨bs, hbs⟩ : ∃ bs, (0 :: op.binDividers.toList)[j]? = some bs :=
    ⟨_, List.getElem?_eq_getElem (by simp only [List.length_cons]; omega)⟩
  obtain ⟨mc, hmc, _⟩ := Sl.get_ok_of_lt hs.mcWF hjm
  obtain ⟨nm, hnm, _⟩ := Sl.get_ok_of_lt hs.nmWF hjn
  have hlt : bs < dj := rf_sorted_start_lt hp.sorted hbs hdj
  have hsd : op.binDividers.toList.Pairwise (· < ·) := (List.pairwise_cons.1 hp.sorted).2
  have hdn : dj ≤ n := rf_bd_le_last hsd hp.last dj (List.mem_of_getElem? hdj)
  have hd0 : sc.dws.reslice (dj - bs) = .ok ⟨sc.dws.data, dj - bs⟩ :=
    Sl.reslice_eq_ok.2 ⟨by have := hs.capDws; omega, rfl⟩
  rw [splitCell_false, scHead_eval hbs hgd hmc hnm (Nat.le_of_lt hlt) hd0]
  by_cases hskip : dj = bs + 1 ∨ mc = 0 ∨ nm = dj - bs
  · rw [if_pos hskip]; exact ⟨op, sc, rfl, ho, Nat.le_refl _, Nat.le_refl _⟩
  rw [if_neg hskip]
  have hne1 : dj ≠ bs + 1 := fun h => hskip (Or.inl h)
  have hmc0 : mc ≠ 0 := fun h => hskip (Or.inr (Or.inl h))
  have hnmB : nm ≠ dj - bs := fun h => hskip (Or.inr (Or.inr h))
  have horder : ∀ p, p < n → ∃ w, op.order.get p = .ok w ∧ w < n := by
    intro p hp'
    obtain ⟨w, hw, _⟩ := Sl.get_ok_of_lt hp.wfOrder (show p < op.order.len by rw [hp.lenOrder]; exact hp')
    exact ⟨w, hw, perm_range_lt hp.perm (Sl.get_eq_toList.1 hw)⟩
  have holen : op.order.toList.length = n := by rw [Sl.length_toList _ hp.wfOrder, hp.lenOrder]
  have hw0 : (⟨sc.dws.data, dj - bs⟩ : Sl KV).WF := (Sl.reslice_len hd0).2.2
  have hsum : bs + (dj - bs) = dj := by omega
  -- the fill
  have hfill : ∃ dws, (mc = 1 ∧ ∃ z o, forRange (fillOnesStep op.order sc.timesSeen bs) (dj - bs) 0
            ((⟨sc.dws.data, dj - bs⟩ : Sl KV), 0, if nm ≤ dj - bs then some (dj - bs - nm) else none) =
              .ok (dws, z, o)) ∨
          (mc ≠ 1 ∧ ∃ dws1, forRange (fillStep op.order sc.timesSeen bs) (dj - bs) 0
            (⟨sc.dws.data, dj - bs⟩ : Sl KV) = .ok dws1 ∧ stable dws1 dws1.len = .ok dws) := by
    by_cases hmc1 : mc = 1
    · obtain ⟨c1, c2, _⟩ := hcc bs dj hbs hdj
      rw [rfDv_of_get hmc] at c1 c2
      rw [rfDv_of_get hnm] at c2
      obtain ⟨r, hr⟩ := fillOnes_total (n := n) (order := op.order) (ts := sc.timesSeen) (bs := bs) (B := dj - bs)
        (nm := nm) (dws0 := ⟨sc.dws.data, dj - bs⟩) horder hs.tsWF hs.tsLen (by omega) holen hw0 rfl
        (by
          rw [hsum]; intro v hv
          obtain ⟨p, h1, h2, h3⟩ := mem_rfSeg.1 hv
          have := c1 p v h1 h2 h3; omega)
        (by rw [hsum]; have := c2 (by omega); rw [hmc1] at this; exact this)
      obtain ⟨d, z, o⟩ := r
      exact ⟨d, Or.inl ⟨hmc1, z, o, hr⟩⟩
    · obtain ⟨dws1, h1⟩ := fill_total (n := n) (order := op.order) (ts := sc.timesSeen) (bs := bs) (B := dj - bs)
        (dws0 := ⟨sc.dws.data, dj - bs⟩) horder hs.tsWF hs.tsLen (by omega) hw0 rfl
      obtain ⟨f1, f2, _⟩ := fill_spec h1
      have hw1 : dws1.WF := by unfold Sl.WF at *; omega
      obtain ⟨dws, h2⟩ := htot dws1 hw1
      exact ⟨dws, Or.inr ⟨hmc1, dws1, h1, h2⟩⟩
  obtain ⟨dws, hf⟩ := hfill
  rw [scFill_eval hf]
  obtain ⟨f1, f2, f3, f4⟩ := fill_stage hst hp hcc hbs hdj hmc hnm hd0 hf
  obtain ⟨k', hk1, hk2, hk3⟩ := fill_nonconst hst hp hcc hbs hdj hmc hnm hmc0 hnmB hd0 hf
  -- the write-back
  have hnbs0 : sc.nbs.reslice n = .ok ⟨sc.nbs.data, n⟩ := Sl.reslice_eq_ok.2 ⟨hs.capNbs, rfl⟩
  obtain ⟨kv0, order1, r, w2, w3, w4⟩ := writeBack_total (dws := dws) (bs := bs) (B := dj - bs) (n := n)
    (order0 := op.order) (nbs0 := ⟨sc.nbs.data, n⟩) f3 f1 (by omega) hp.wfOrder hp.lenOrder (by omega)
    (Sl.reslice_len hnbs0).2.2 rfl
  obtain ⟨order2, nbs2, idx⟩ := r
  rw [scWrite_eval hnbs0 w2 w3 w4]
  obtain ⟨_, _, _, _, b5, b6, _, _, b9⟩ := writeBack_spec (n := n) f1 rfl w2 w3 w4
  have hidx1 : 1 ≤ idx := b9 k' hk1 hk2 hk3
  have b5' : nbs2.data.size = sc.nbs.data.size := b5
  have hn3 : nbs2.reslice idx = .ok ⟨nbs2.data, idx⟩ :=
    Sl.reslice_eq_ok.2 ⟨by have := hs.capNbs; omega, rfl⟩
  obtain ⟨o1, o2, o3, o4, n1, _, _, n4, n5⟩ :=
    write_stage hp.wfOrder hp.lenOrder hlt hdn f1 f3 hnbs0 w2 w3 w4 hn3
  have hnl : (⟨nbs2.data, idx⟩ : Sl Nat).toList.length = idx := Sl.length_toList _ n1
  -- the work list
  obtain ⟨btc1, hsh, _, sl, sz, stl⟩ := shiftBtc_full j idx op.binsToCheck ho.btcWF ho.btcSorted
  -- room for the new dividers
  have hsorted := rf_sorted_insert hp.sorted hbs hdj n4 n5
  have hlast : (op.binDividers.toList.take j ++ (⟨nbs2.data, idx⟩ : Sl Nat).toList ++
      op.binDividers.toList.drop j).getLast? = some n := by
    rw [rf_getLast?_insert (by omega)]; exact hp.last
  have hroom : op.binDividers.len + idx ≤ n := by
    have := rf_bins_le hsorted hlast
    simp only [List.length_append, List.length_take, List.length_drop, hnl] at this
    omega
  obtain ⟨bd1, bd2, bd3, u3, u4, u5⟩ := insertBlock_copy_total op.binDividers j (⟨nbs2.data, idx⟩ : Sl Nat).toList
    (by omega) (by rw [hnl]; have := ho.capBd; omega)
  rw [hnl] at u3 u4
  rw [scUpd1_eval hn3 hsh u3 u4 u5]
  obtain ⟨ag1, ag2, ag3, a1, a2, a3⟩ := insertBlock_fill_total op.binAges j idx op.age
    (by rw [hp.lenAges]; omega) (by rw [hp.lenAges]; have := ho.capAges; omega)
  have hsp1 : sc.space.reslice (idx + 1) = .ok ⟨sc.space.data, idx + 1⟩ :=
    Sl.reslice_eq_ok.2 ⟨by have := hs.capSpace; omega, rfl⟩
  obtain ⟨sp2, hsp2, _, sptl⟩ := spaceLoop_spec j idx ⟨sc.space.data, idx + 1⟩ (Sl.reslice_len hsp1).2.2 rfl
  obtain ⟨u1, u2, u3', u4'⟩ := btc_union_facts (j := j) (idx := idx) ho.btcSorted ho.btcRange hj
  obtain ⟨btc2, hun, uw, utl, usz⟩ := unionSl_ok btc1 (sp2.toList.map Int.ofNat)
    (by rw [stl]; exact ho.btcSorted.map _ (fun a b h => btcShiftF_lt h))
    (by rw [sptl]; exact (List.pairwise_lt_range' (s := j) (n := idx + 1)).map _ (fun a b h => by simpa using h))
  rw [stl, sptl] at utl usz
  obtain ⟨ic, hic, hrel⟩ := upd_core btc2 hp hbs hdj hne1 ⟨o1, o2, o3, o4⟩ f4 ⟨n1, n4, n5⟩ u3 u4 u5 a1 a2 a3
  rw [scUpd2_eval a1 a2 a3 hsp1 hsp2 hun hic]
  -- the tail
  generalize hop2 : ({ op with order := order2, binsToCheck := btc2, binDividers := bd3, binAges := ag3, inCell := ic } : OP) = op2 at hrel
  have q1 : op2.order = order2 := by rw [← hop2]
  have q2 : op2.binDividers = bd3 := by rw [← hop2]
  have q3 : op2.binAges = ag3 := by rw [← hop2]
  have q4 : op2.binsToCheck = btc2 := by rw [← hop2]
  have q5 : op2.age = op.age := by rw [← hop2]
  have q6 : op2.inCell = ic := by rw [← hop2]
  have q7 : op2.value = op.value := by rw [← hop2]
  have q8 : op2.spl = op.spl := by rw [← hop2]
  have hps2 := hrel.prefixSingle hp ho.pre
  have hex : ∃ op', (if j = op2.spl then expandValue nb cb fl op2 else .ok (false, op2)) = .ok (false, op') ∧
        PrefixSingle op' ∧ op'.value.WF ∧
        op'.order = order2 ∧ op'.binDividers = bd3 ∧ op'.binAges = ag3 ∧ op'.binsToCheck = btc2 ∧
        op'.age = op.age ∧ op'.inCell = ic := by
    by_cases hjs : j = op2.spl
    · obtain ⟨op', he, g1, g2⟩ := expandValue_total hctx.nbSize hctx.nbRange hctx.cb0 (fl := fl) hrel.inv hps2
        (by rw [q7]; exact ho.valWF)
      obtain ⟨e1, e2, e3, e4, e5, e6⟩ := expandValue_frame he
      exact ⟨op', by rw [if_pos hjs]; exact he, g1, g2, e1.trans q1, e2.trans q2, e3.trans q3, e4.trans q4,
        e5.trans q5, e6.trans q6⟩
    · exact ⟨op2, by rw [if_neg hjs], hps2, by rw [q7]; exact ho.valWF, q1, q2, q3, q4, q5, q6⟩
  obtain ⟨op', hex, g1, g2, e1, e2, e3, e4, e5, e6⟩ := hex
  rw [scTail_eval _ hctx.noViab hex]
  have hbd3len : bd3.len = op.binDividers.len + idx := by
    have h1 : bd3.toList.length = bd3.len := Sl.length_toList _ (by rw [← q2]; exact hrel.inv.wfBd)
    have h3 : bd3.toList = op.binDividers.toList.take j ++ (⟨nbs2.data, idx⟩ : Sl Nat).toList ++
        op.binDividers.toList.drop j := by rw [← q2]; exact hrel.bd
    rw [h3] at h1
    simp only [List.length_append, List.length_take, List.length_drop, hnl] at h1
    omega
  have hbtc2len : btc2.len = (SortInts.union (op.binsToCheck.toList.map (btcShiftF j idx))
      ((List.range' j (idx + 1)).map Int.ofNat)).length := by
    rw [← utl, Sl.length_toList _ uw]
  have hbtclen : op.binsToCheck.toList.length = op.binsToCheck.len := Sl.length_toList _ ho.btcWF
  refine ⟨op', _, rfl, ?_, ?_, by rw [e2, hbd3len]; omega⟩
  · exact
      { inv := PartInv.of_frame hrel.inv (e1.trans q1.symm) (e2.trans q2.symm) (e3.trans q3.symm) (e6.trans q6.symm)
        capBd := by rw [e2, ← q2, hrel.szBd]; exact ho.capBd
        capAges := by rw [e3, ← q3, hrel.szAges]; exact ho.capAges
        capBtc := by
          rw [e4, usz (by have := ho.capBtc; omega), sz]; exact ho.capBtc
        btcWF := by rw [e4]; exact uw
        btcSorted := by rw [e4, utl]; exact u1
        btcRange := by
          rw [e4, e2, utl, hbd3len]; exact u2
        pre := g1
        valWF := g2 }
  · unfold refinePotential
    rw [e4, e2, hbtc2len, hbd3len]
    omega

/-! ## absence of panics and termination: the loops -/

theorem SplitScr.of_rel {n : Nat} {sc sc' : Scratch} (h : SplitScr n sc) (hr : ScrRel sc sc') : SplitScr n sc' := by
  obtain ⟨e1, e2, e3, e4, e5, e6⟩ := hr
  exact ⟨by rw [e4]; exact h.capDws, by rw [e5]; exact h.capNbs, by rw [e6]; exact h.capSpace,
    by rw [e1]; exact h.tsWF, by rw [e1]; exact h.tsLen, by rw [e2]; exact h.mcWF, by rw [e3]; exact h.nmWF⟩

/-- the loop over the bins does not panic -/
theorem splitLoop_total (hst : StablePerm) (htot : StableTotal) {nb : Nbrs} {n : Nat} {cb fl : Sl Nat} {opts : Options}
    (hctx : NPCtx n nb cb opts) {k : Nat} {op : OP} {sc : Scratch}
    (ho : NPOp n op) (ha : AgeInv op) (hs : SplitScr n sc) (hk : k ≤ op.binDividers.len)
    (hkm : k ≤ sc.maxCell.len) (hkn : k ≤ sc.numberOfMax.len)
    (hcc : ∀ j, j < k → CellCount op sc.timesSeen sc.maxCell sc.numberOfMax j) :
    ∃ op' sc', forDown (splitCell nb n cb fl opts) k (false, op, sc) = .ok (false, op', sc') ∧ NPOp n op' ∧
      AgeInv op' ∧ refinePotential n op' ≤ refinePotential n op ∧ ScrRel sc sc' := by
  obtain ⟨r, hr, hP⟩ := forDown_total (splitCell nb n cb fl opts)
    (fun i (st : Bool × OP × Scratch) => st.1 = false ∧ NPOp n st.2.1 ∧ AgeInv st.2.1 ∧
      refinePotential n st.2.1 ≤ refinePotential n op ∧ ScrRel sc st.2.2 ∧ i ≤ st.2.1.binDividers.len ∧
      ∀ j, j < i → CellCount st.2.1 sc.timesSeen sc.maxCell sc.numberOfMax j)
    k (false, op, sc) ⟨rfl, ho, ha, Nat.le_refl _, ScrRel.refl _, hk, hcc⟩
    (by
      rintro i ⟨ret, op1, sc1⟩ hi ⟨h0, h1, h2, h3, h4, h5, h6⟩
      simp only at h0 h1 h2 h3 h4 h5 h6
      subst h0
      have h4' := h4
      obtain ⟨e1, e2, e3, _, _, _⟩ := h4'
      have hcc1 : CellCount op1 sc1.timesSeen sc1.maxCell sc1.numberOfMax i := by
        rw [e1, e2, e3]; exact h6 i (Nat.lt_succ_self i)
      obtain ⟨op2, sc2, heq, g1, g2, g3⟩ := splitCell_total hst htot hctx (j := i) h1 (hs.of_rel h4) (by omega)
        (by rw [e2]; omega) (by rw [e3]; omega) hcc1
      obtain ⟨k1, k2, k3⟩ := splitCell_step hst h1.inv h2 hcc1 heq
      refine ⟨(false, op2, sc2), heq, rfl, g1, k1.2.1, Nat.le_trans g2 h3, h4.trans k2, by simp only; omega, ?_⟩
      intro j hj
      have := k3 j hj (by rw [e1, e2, e3]; exact h6 j (by omega))
      rw [e1, e2, e3] at this; exact this)
  obtain ⟨ret, op', sc'⟩ := r
  obtain ⟨h0, h1, h2, h3, h4, _, _⟩ := hP
  simp only at h0 h1 h2 h3 h4
  subst h0
  exact ⟨op', sc', hr, h1, h2, h3, h4⟩


theorem refineIter_eval {nb : Nbrs} {n : Nat} {cb fl : Sl Nat} {opts : Options} {op : OP} {sc : Scratch}
    {mc1 nm1 : Sl Nat} {i : Int} {btc : Sl Int} {a b : Nat} {ts2 mc2 nm2 : Sl Nat}
    (h1 : sc.maxCell.fill0.reslice op.binDividers.len = .ok mc1)
    (h2 : sc.numberOfMax.fill0.reslice op.binDividers.len = .ok nm1)
    (h3 : op.binsToCheck.get (op.binsToCheck.len - 1) = .ok i)
    (h4 : op.binsToCheck.reslice (op.binsToCheck.len - 1) = .ok btc) (hi : ¬ i < 0)
    (h5 : (if i.toNat > 0 then op.binDividers.get (i.toNat - 1) else Outcome.ok 0) = .ok a)
    (h6 : op.binDividers.get i.toNat = .ok b)
    (h7 : forRange (countBinStep nb op.order op.inCell) (b - a) a (sc.timesSeen.fill0, mc1, nm1) = .ok (ts2, mc2, nm2)) :
    refineIter nb n cb fl opts op sc =
      forDown (splitCell nb n cb fl opts) op.binDividers.len
        (false, { op with binsToCheck := btc }, { sc with timesSeen := ts2, maxCell := mc2, numberOfMax := nm2 }) := by
  unfold refineIter
  simp only [h1, h2, h3, h4, if_neg hi, h5, h6, h7]

/-- the scratch slices between two iterations -/
structure RefScr (n : Nat) (sc : Scratch) : Prop where
  capDws : n ≤ sc.dws.data.size
  capNbs : n ≤ sc.nbs.data.size
  capSpace : n ≤ sc.space.data.size
  tsWF : sc.timesSeen.WF
  tsLen : n ≤ sc.timesSeen.len
  inv : ScrInv n sc
  capNm : n ≤ sc.numberOfMax.data.size

theorem rf_fill0_wf {s : Sl Nat} (h : s.WF) : s.fill0.WF := by
  unfold Sl.WF at *; rw [rf_fill0_len, rf_fill0_size]; exact h

/-- every vertex lies in a cell whose index is a bin index -/
theorem PartInv.inCell_lt {n : Nat} {op : OP} (hp : PartInv n op) {v : Nat} (hv : v < n) :
    ∃ c, op.inCell.get v = .ok c ∧ c < op.binDividers.len := by
  have hmem : v ∈ op.order.toList := hp.perm.mem_iff.2 (List.mem_range.2 hv)
  obtain ⟨p, hpv⟩ := List.mem_iff_getElem?.1 hmem
  have hpl : p < n := by
    have := (List.getElem?_eq_some_iff.1 hpv).1
    rw [Sl.length_toList _ hp.wfOrder, hp.lenOrder] at this; exact this
  refine ⟨_, Sl.get_eq_toList.2 (hp.inCell p v hpv), ?_⟩
  have := binIdx_lt _ n p hp.last hpl
  rw [Sl.length_toList _ hp.wfBd] at this; exact this

theorem NPOp.pop {n : Nat} {op : OP} (ho : NPOp n op) :
    NPOp n { op with binsToCheck := ⟨op.binsToCheck.data, op.binsToCheck.len - 1⟩ } := by
  have hw : (⟨op.binsToCheck.data, op.binsToCheck.len - 1⟩ : Sl Int).WF := by
    have := ho.btcWF; unfold Sl.WF at *; simp only; omega
  have htl : (⟨op.binsToCheck.data, op.binsToCheck.len - 1⟩ : Sl Int).toList =
      op.binsToCheck.toList.take (op.binsToCheck.len - 1) := by
    unfold Sl.toList
    rw [List.take_take, Nat.min_eq_left (by omega)]
  exact
    { inv := PartInv.of_frame ho.inv rfl rfl rfl rfl
      capBd := ho.capBd
      capAges := ho.capAges
      capBtc := ho.capBtc
      btcWF := hw
      btcSorted := by
        show (⟨op.binsToCheck.data, op.binsToCheck.len - 1⟩ : Sl Int).toList.Pairwise (· < ·)
        rw [htl]; exact List.Pairwise.sublist (List.take_sublist _ _) ho.btcSorted
      btcRange := by
        intro x hx
        have hx' : x ∈ (⟨op.binsToCheck.data, op.binsToCheck.len - 1⟩ : Sl Int).toList := hx
        rw [htl] at hx'
        exact ho.btcRange x (List.mem_of_mem_take hx')
      pre := ⟨ho.pre.le, ho.pre.single⟩
      valWF := ho.valWF }


/-- one iteration of the main loop does not panic and decreases the refinePotential -/
theorem refineIter_total (hst : StablePerm) (htot : StableTotal) {nb : Nbrs} {n : Nat} {cb fl : Sl Nat} {opts : Options}
    (hctx : NPCtx n nb cb opts) {op : OP} {sc : Scratch}
    (ho : NPOp n op) (ha : AgeInv op) (hs : RefScr n sc) (hb : op.binsToCheck.len > 0) :
    ∃ op' sc', refineIter nb n cb fl opts op sc = .ok (false, op', sc') ∧ NPOp n op' ∧ AgeInv op' ∧ RefScr n sc' ∧
      refinePotential n op' + 1 ≤ refinePotential n op := by
  have hp := ho.inv
  have hbn : op.binDividers.len ≤ n := hp.bdLen_le
  have hbl : op.binDividers.toList.length = op.binDividers.len := Sl.length_toList _ hp.wfBd
  have h1 : sc.maxCell.fill0.reslice op.binDividers.len = .ok ⟨sc.maxCell.fill0.data, op.binDividers.len⟩ :=
    Sl.reslice_eq_ok.2 ⟨by rw [rf_fill0_size]; have := hs.inv.capM; omega, rfl⟩
  have h2 : sc.numberOfMax.fill0.reslice op.binDividers.len = .ok ⟨sc.numberOfMax.fill0.data, op.binDividers.len⟩ :=
    Sl.reslice_eq_ok.2 ⟨by rw [rf_fill0_size]; have := hs.capNm; omega, rfl⟩
  obtain ⟨i, h3, _⟩ := Sl.get_ok_of_lt ho.btcWF (show op.binsToCheck.len - 1 < op.binsToCheck.len by omega)
  have h4 : op.binsToCheck.reslice (op.binsToCheck.len - 1) = .ok ⟨op.binsToCheck.data, op.binsToCheck.len - 1⟩ :=
    Sl.reslice_eq_ok.2 ⟨by have := ho.btcWF; unfold Sl.WF at this; omega, rfl⟩
  have hir := ho.btcRange i (List.mem_of_getElem? (Sl.get_eq_toList.1 h3))
  have hi : ¬ i < 0 := by omega
  have hil : i.toNat < op.binDividers.len := by omega
  obtain ⟨dj, hgd, _⟩ := Sl.get_ok_of_lt hp.wfBd hil
  have hdj : op.binDividers.toList[i.toNat]? = some dj := Sl.get_eq_toList.1 hgd
  obtain ⟨bs, hbs⟩ : ∃ bs, (0 :: op.binDividers.toList)[i.toNat]? = some bs :=
    ⟨_, List.getElem?_eq_getElem (by simp only [List.length_cons]; omega)⟩
  have hlt : bs < dj := rf_sorted_start_lt hp.sorted hbs hdj
  have hsd : op.binDividers.toList.Pairwise (· < ·) := (List.pairwise_cons.1 hp.sorted).2
  have hdn : dj ≤ n := rf_bd_le_last hsd hp.last dj (List.mem_of_getElem? hdj)
  -- the counting loop
  have horder : ∀ p, p < n → ∃ w, op.order.get p = .ok w ∧ w < n := by
    intro p hp'
    obtain ⟨w, hw, _⟩ := Sl.get_ok_of_lt hp.wfOrder (show p < op.order.len by rw [hp.lenOrder]; exact hp')
    exact ⟨w, hw, perm_range_lt hp.perm (Sl.get_eq_toList.1 hw)⟩
  have hnb : ∀ w, w < n → ∃ l, nbrsGet nb w = .ok l ∧ ∀ v ∈ l, v < n := by
    intro w hw
    have hws : w < nb.size := by rw [hctx.nbSize]; exact hw
    refine ⟨nb[w], ?_, hctx.nbRange w _ (Array.getElem?_eq_getElem hws)⟩
    unfold nbrsGet
    rw [Array.getElem?_eq_getElem hws]
  have hmw : (⟨sc.maxCell.fill0.data, op.binDividers.len⟩ : Sl Nat).WF := (Sl.reslice_len h1).2.2
  have hnw : (⟨sc.numberOfMax.fill0.data, op.binDividers.len⟩ : Sl Nat).WF := (Sl.reslice_len h2).2.2
  obtain ⟨st', h7⟩ := countLoop_total (n := n) (K := op.binDividers.len) (nb := nb) (order := op.order)
    (ic := op.inCell) (ts := sc.timesSeen.fill0) (mc := ⟨sc.maxCell.fill0.data, op.binDividers.len⟩)
    (nm := ⟨sc.numberOfMax.fill0.data, op.binDividers.len⟩) horder hnb (fun v hv => hp.inCell_lt hv)
    (rf_fill0_wf hs.tsWF) (by rw [rf_fill0_len]; exact hs.tsLen) hmw (Nat.le_refl _) hnw (Nat.le_refl _)
    (dj - bs) bs (by omega)
  obtain ⟨ts2, mc2, nm2⟩ := st'
  rw [refineIter_eval h1 h2 h3 h4 hi (rf_binStart_get hbs) hgd h7]
  -- the counting invariant
  have hz1 := rfDv_fill0_reslice hs.inv.capM hs.inv.zeroM h1
  have hI0 : CountInv n op.inCell sc.timesSeen.fill0 ⟨sc.maxCell.fill0.data, op.binDividers.len⟩
      ⟨sc.numberOfMax.fill0.data, op.binDividers.len⟩ :=
    countInv_zero (fun v => rfTv_fill0 _ v) (fun c hc => by
      unfold rfDv; rw [hz1 c (by have : c < op.binDividers.len := hc; omega)]; rfl)
  obtain ⟨hI, f1, f2, f3⟩ := countLoop_st (n := n) (Nat.le_of_eq hp.lenInCell) nb op.order _ _ _ hI0 h7
  simp only at hI f1 f2 f3
  have ho1 := ho.pop
  have ha1 : AgeInv { op with binsToCheck := ⟨op.binsToCheck.data, op.binsToCheck.len - 1⟩ } :=
    AgeInv.of_frame ha rfl rfl
  have hs1 : SplitScr n { sc with timesSeen := ts2, maxCell := mc2, numberOfMax := nm2 } :=
    ⟨hs.capDws, hs.capNbs, hs.capSpace, f1.wf (rf_fill0_wf hs.tsWF), by
      show n ≤ ts2.len; rw [f1.1, rf_fill0_len]; exact hs.tsLen, f2.wf hmw, f3.wf hnw⟩
  have hm2l : mc2.len = op.binDividers.len := f2.1
  have hn2l : nm2.len = op.binDividers.len := f3.1
  obtain ⟨op', sc', heq, g1, g2, g3, g4⟩ := splitLoop_total hst htot hctx (k := op.binDividers.len) ho1 ha1 hs1
    (Nat.le_refl _) (by show op.binDividers.len ≤ mc2.len; omega) (by show op.binDividers.len ≤ nm2.len; omega)
    (fun j hj => cellCount_of_countInv ho1.inv hI (by rw [hm2l]; exact hj))
  refine ⟨op', sc', heq, g1, g2, ?_, ?_⟩
  · obtain ⟨e1, e2, e3, e4, e5, e6⟩ := g4
    simp only at e1 e2 e3 e4 e5 e6
    exact
      { capDws := by rw [e4]; exact hs.capDws
        capNbs := by rw [e5]; exact hs.capNbs
        capSpace := by rw [e6]; exact hs.capSpace
        tsWF := by rw [e1]; exact f1.wf (rf_fill0_wf hs.tsWF)
        tsLen := by rw [e1, f1.1, rf_fill0_len]; exact hs.tsLen
        inv :=
          { lenM := by rw [e2, hm2l]; exact hbn
            capM := by
              rw [e2, f2.2.1]; show n ≤ sc.maxCell.fill0.data.size; rw [rf_fill0_size]; exact hs.inv.capM
            zeroM := by
              intro c h3' h4'
              rw [e2] at h3' ⊢
              rw [hm2l] at h3'
              rw [f2.2.2 c h3']
              exact hz1 c h4' }
        capNm := by
          rw [e3, f3.2.1]; show n ≤ sc.numberOfMax.fill0.data.size; rw [rf_fill0_size]; exact hs.capNm }
  · have : refinePotential n { op with binsToCheck := ⟨op.binsToCheck.data, op.binsToCheck.len - 1⟩ } + 1 =
        refinePotential n op := by
      unfold refinePotential
      show op.binsToCheck.len - 1 + 2 * (n - op.binDividers.len) + 1 = _
      omega
    omega


/-- the main loop terminates within `refinePotential + 1` rounds and does not panic -/
theorem refineLoop_total (hst : StablePerm) (htot : StableTotal) {nb : Nbrs} {n : Nat} {cb fl : Sl Nat} {opts : Options}
    (hctx : NPCtx n nb cb opts) : ∀ (f : Nat) (op : OP) (sc : Scratch), refinePotential n op < f →
    NPOp n op → AgeInv op → RefScr n sc →
    ∃ op' sc', refineLoop nb n cb fl opts f op sc = .ok (false, op', sc') ∧ op'.binsToCheck.len = 0 ∧ NPOp n op' := by
  intro f
  induction f with
  | zero => intro op sc h; omega
  | succ f ih =>
    intro op sc hpot ho ha hs
    rw [refineLoop]
    by_cases hb : op.binsToCheck.len > 0
    · rw [if_pos hb]
      obtain ⟨op1, sc1, heq, g1, g2, g3, g4⟩ := refineIter_total hst htot hctx (fl := fl) ho ha hs hb
      rw [heq]
      exact ih op1 sc1 (by omega) g1 g2 g3
    · rw [if_neg hb]
      exact ⟨op, sc, rfl, by omega, ho⟩

/-- Termination and absence of panics of the refinement (with an empty `currentBest` and without the viability check):
the fuel `3 * n + 3` suffices, the result is `false` and the work list is empty afterwards.

Hypotheses beyond `PartInv` / `AgeInv` / `ScratchOK`: capacities `n ≤ cap` of `binDividers`, `binAges`, `binsToCheck`,
`dws`, `nbs`, `space`; `timesSeen` has length `≥ n`; the work list is well formed, strictly increasing and consists of
bin indices; the singleton prefix is consistent (`PrefixSingle`, needed by `expandValue`); `value` is well formed; the
neighbour lists are valid. -/
theorem refine_no_panic_partial (hst : StablePerm) (htot : StableTotal) {n : Nat} {nb : Nbrs} {cb fl : Sl Nat}
    {opts : Options} {op : OP} {sc : Scratch}
    (h : PartInv n op) (ha : AgeInv op) (hsc : ScratchOK n sc) (hpre : PrefixSingle op) (hval : op.value.WF)
    (cBd : n ≤ op.binDividers.data.size) (cAges : n ≤ op.binAges.data.size) (cBtc : n ≤ op.binsToCheck.data.size)
    (cDws : n ≤ sc.dws.data.size) (cNbs : n ≤ sc.nbs.data.size) (cSpace : n ≤ sc.space.data.size)
    (cTs : n ≤ sc.timesSeen.len)
    (hbw : op.binsToCheck.WF) (hbs : op.binsToCheck.toList.Pairwise (· < ·))
    (hbr : ∀ x ∈ op.binsToCheck.toList, 0 ≤ x ∧ x < (op.binDividers.len : Int))
    (hnb : nb.size = n) (hnbr : ∀ (u : Nat) (l : List Nat), nb[u]? = some l → ∀ v ∈ l, v < n)
    (hcb : cb.len = 0) (hv : opts.checkViability = false) :
    ∃ op' sc', refine nb cb fl opts op sc = .ok (false, op', sc') ∧ op'.binsToCheck.len = 0 ∧
      op'.binsToCheck.WF ∧ n ≤ op'.binsToCheck.data.size ∧ PrefixSingle op' ∧ op'.value.WF := by
  have hctx : NPCtx n nb cb opts := ⟨hnb, hnbr, hcb, hv⟩
  have ho : NPOp n op := ⟨h, cBd, cAges, cBtc, hbw, hbs, hbr, hpre, hval⟩
  have hs : RefScr n sc :=
    ⟨cDws, cNbs, cSpace, hsc.wfT, cTs, hsc.scrInv, by
      have := hsc.wfN; unfold Sl.WF at this; rw [hsc.lenN] at this; exact this⟩
  have hpot : refinePotential n op < refineFuel n := by
    unfold refinePotential refineFuel
    have h1 := rf_sortedInt_length_le op.binsToCheck.toList 0 op.binDividers.len hbs
      (fun x hx => by have := hbr x hx; omega) (by omega)
    rw [Sl.length_toList _ hbw] at h1
    have h2 := h.bdLen_le
    omega
  unfold refine
  rw [h.lenOrder]
  obtain ⟨op', sc', heq, g1, g2⟩ := refineLoop_total hst htot hctx (fl := fl) (refineFuel n) op sc hpot ho ha hs
  exact ⟨op', sc', heq, g1, g2.btcWF, g2.capBtc, g2.pre, g2.valWF⟩

end CanonF
