import Mamba.Spec.IntSort
import Mathlib.Data.Multiset.Basic
/-! Lemmas for C17 (`ints.Sort`): every write is a swap, so every function of the file preserves the
multiset of the elements of the slice. -/
set_option linter.unusedTactic false
set_option linter.unreachableTactic false
set_option linter.unnecessarySeqFocus false
set_option linter.unusedSimpArgs false
namespace IntSort

/-- the multiset of the elements of a slice -/
def ms (d : Data) : Multiset Int := (d.toList : Multiset Int)

theorem swap_ok {d d' : Data} {i j : Int} (h : swap d i j = .ok d') :
    ∃ (hi : i.toNat < d.size) (hj : j.toNat < d.size), 0 ≤ i ∧ 0 ≤ j ∧ d' = d.swap i.toNat j.toNat hi hj := by
  unfold swap at h
  split at h
  · rename_i hc
    exact ⟨hc.2.1, hc.2.2.2, hc.1, hc.2.2.1, by cases h; rfl⟩
  · cases h

theorem swap_ms {d d' : Data} {i j : Int} (h : swap d i j = .ok d') : ms d' = ms d := by
  obtain ⟨hi, hj, _, _, rfl⟩ := swap_ok h
  exact Multiset.coe_eq_coe.mpr (Array.swap_perm hi hj).toList

theorem swapIfLt_ms {d d' : Data} {i j : Int} (h : swapIfLt d i j = .ok d') : ms d' = ms d := by
  unfold swapIfLt at h
  repeat' split at h
  all_goals first | cases h; rfl | exact swap_ms h | cases h

theorem insertInner_ms (d : Data) (a j : Int) : ∀ d', insertInner d a j = .ok d' → ms d' = ms d := by
  fun_induction insertInner d a j <;> intro d' h <;> simp_all
  case case1 => grind [→ swap_ms]


theorem insertOuter_ms (d : Data) (a b i : Int) : ∀ d', insertOuter d a b i = .ok d' → ms d' = ms d := by
  fun_induction insertOuter d a b i <;> intro d' h <;> simp_all
  case case1 => grind [→ insertInner_ms]

theorem insertionSort_ms {d : Data} {a b : Int} {d' : Data} (h : insertionSort d a b = .ok d') : ms d' = ms d :=
  insertOuter_ms d a b (a+1) d' h

theorem siftLoop_ms (c : Cfg) (f : Nat) (d : Data) (root hi first : Int) :
    ∀ d', siftLoop c f d root hi first = .ok d' → ms d' = ms d := by
  fun_induction siftLoop c f d root hi first <;> intro d' h <;> simp_all
  case case4 => grind [→ swap_ms]

theorem siftDown_ms {c : Cfg} {d : Data} {lo hi first : Int} {d' : Data} (h : siftDown c d lo hi first = .ok d') :
    ms d' = ms d := siftLoop_ms c _ d lo hi first d' h

theorem heapBuild_ms (c : Cfg) (d : Data) (i hi first : Int) : ∀ d', heapBuild c d i hi first = .ok d' → ms d' = ms d := by
  fun_induction heapBuild c d i hi first <;> intro d' h <;> simp_all
  case case1 => grind [→ siftDown_ms]

theorem heapPop_ms (c : Cfg) (d : Data) (i first : Int) : ∀ d', heapPop c d i first = .ok d' → ms d' = ms d := by
  fun_induction heapPop c d i first <;> intro d' h <;> simp_all
  case case1 => grind [→ siftDown_ms, → swap_ms]

theorem heapSort_ms {c : Cfg} {d : Data} {a b : Int} {d' : Data} (h : heapSort c d a b = .ok d') : ms d' = ms d := by
  unfold heapSort at h
  simp only at h
  repeat' split at h
  all_goals first | cases h | skip
  all_goals grind [→ heapBuild_ms, → heapPop_ms]

theorem medianOfThree_ms {d : Data} {m1 m0 m2 : Int} {d' : Data} (h : medianOfThree d m1 m0 m2 = .ok d') :
    ms d' = ms d := by
  unfold medianOfThree at h
  repeat' split at h
  all_goals first | cases h | skip
  all_goals grind [→ swap_ms, → swapIfLt_ms]

theorem partLoop_ms (f : Nat) (d : Data) (pivot b c : Int) :
    ∀ r, partLoop f d pivot b c = .ok r → ms r.1 = ms d := by
  fun_induction partLoop f d pivot b c <;> intro r h <;> simp_all
  all_goals grind [→ swap_ms]

theorem protectLoop_ms (f : Nat) (d : Data) (pivot a b : Int) :
    ∀ r, protectLoop f d pivot a b = .ok r → ms r.1 = ms d := by
  fun_induction protectLoop f d pivot a b <;> intro r h <;> simp_all
  all_goals grind [→ swap_ms]

theorem dupsBlock_ms {d : Data} {pivot m hi b c : Int} {r : Data × Int × Int × Nat}
    (h : dupsBlock d pivot m hi b c = .ok r) : ms r.1 = ms d := by
  unfold dupsBlock dupsTail dupsLeft dupsMid at h
  repeat' split at h
  all_goals first | cases h | skip
  all_goals grind [→ swap_ms]


theorem doPivot_ms {c : Cfg} {d : Data} {lo hi : Int} {r : Data × Int × Int} (h : doPivot c d lo hi = .ok r) :
    ms r.1 = ms d := by
  unfold doPivot ninther dupsStage protectStage at h
  simp only at h
  repeat' split at h
  all_goals first | cases h | skip
  all_goals grind [→ swap_ms, → medianOfThree_ms, → partLoop_ms, → protectLoop_ms, → dupsBlock_ms]

theorem shellPass_ms (c : Cfg) (d : Data) (b i : Int) : ∀ d', shellPass c d b i = .ok d' → ms d' = ms d := by
  fun_induction shellPass c d b i <;> intro d' h <;> simp_all
  all_goals grind [→ swapIfLt_ms]

theorem quickSort_ms (c : Cfg) (f : Nat) (d : Data) (a b : Int) (md : Nat) :
    ∀ d', quickSort c f d a b md = .ok d' → ms d' = ms d := by
  fun_induction quickSort c f d a b md <;> intro d' h <;> simp_all
  all_goals grind [→ heapSort_ms, → doPivot_ms, → shellPass_ms, → insertionSort_ms]

theorem sort_ms {c : Cfg} {d d' : Data} (h : sort c d = .ok d') : ms d' = ms d := by
  unfold sort at h
  repeat' split at h
  all_goals first | cases h | skip
  exact quickSort_ms _ _ _ _ _ _ _ h

theorem sort_perm_toList {c : Cfg} {d d' : Data} (h : sort c d = .ok d') : d'.toList.Perm d.toList :=
  Multiset.coe_eq_coe.mp (sort_ms h)

end IntSort
