import Mamba.Lemmas.CanonFTreeDef
import Mamba.Lemmas.IRPerm
/-!
# Link between the faithful model and `Model/IR.lean`: the characterisation of one IR refinement pass that the link uses
-/
namespace IR

/-- `IR.pass` is determined by order-theoretic properties: any tight colouring `c'` (onto `0..k'-1`) that orders the
vertices by (old colour, number of neighbours in the splitter cell) is the colouring of the pass; the new work list is,
as a set, described by the predicate `W` on new cells (proved in `IRPass.lean`) -/
def PassChar : Prop :=
  ∀ {g : G}, WF g → ∀ (s : St), InvA g s → ∀ (i : Nat) (rest : List Nat),
    (∀ x ∈ rest, x < s.cells) → (∀ x, x < s.cells → ∃ v, v < g.n ∧ col s.c v = x) →
    ∀ (c' : Nat → Nat) (k' : Nat) (W : Nat → Prop),
    (∀ v, v < g.n → c' v < k') → (∀ x, x < k' → ∃ v, v < g.n ∧ c' v = x) →
    (∀ u v, u < g.n → v < g.n → (c' u < c' v ↔
      (col s.c u < col s.c v ∨ (col s.c u = col s.c v ∧ cnt g s.c i u < cnt g s.c i v)))) →
    (∀ v, v < g.n → (W (c' v) ↔
      ((col s.c v ∈ rest ∧ ∀ u, u < g.n → col s.c u = col s.c v → cnt g s.c i v ≤ cnt g s.c i u) ∨
        (∃ u, u < g.n ∧ col s.c u = col s.c v ∧ cnt g s.c i u ≠ cnt g s.c i v)))) →
    (pass g s i rest).c = tab g.n c' ∧ (pass g s i rest).cells = k' ∧ (pass g s i rest).work.Nodup ∧
      ∀ x, x ∈ (pass g s i rest).work ↔ (x < k' ∧ W x)

end IR
