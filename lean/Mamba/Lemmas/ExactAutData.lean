import Mamba.Lemmas.ExactPermScan
namespace Search
open Disjoint GSearch

variable {O : Oracle} {n : Nat}

/-- what `addAugmentations` needs of the automorphism data it works with -/
structure AutData (g : DG) (orb : DS) (gens : List (Array Nat)) : Prop where
  inv : Disjoint.Inv orb
  size : orb.size = g.nv
  orbits : ∀ u v, u < g.nv → v < g.nv → (rep orb u = rep orb v ↔ ∃ σ, IsAut g σ ∧ σ u = v)
  gensAut : GensAut g gens
  gensGen : ∀ σ, IsAut g σ → Word g.nv gens σ

theorem autData_of_answer (hO : OracleSpec O n) {g : DG} (hb : Built g) {a : Ans}
    (ha : getAut O n g none = .ok (some a)) : AutData g a.orbits a.gens :=
  ⟨(hO.orbits_inv hb ha).1, (hO.orbits_inv hb ha).2, hO.orbits hb ha, hO.gens_aut hb ha, hO.gens_gen hb ha⟩

/-- the cache left by an accepting `isCanonical` carries the same automorphism data (orbits path-compressed) -/
theorem autData_of_cache (hO : OracleSpec O n) {g : DG} (hb : Built g) {aug : List Nat} {c0 : Ans} {b : Bool}
    (h : isCanonical O n g aug none = .ok (some c0, b)) : AutData g c0.orbits c0.gens := by
  obtain ⟨hnv, degree, -, r0, -, hr⟩ := isCanonical_struct h
  have hcase : ∃ vb, OracleStage O n g vb (some c0) b := by
    rcases hr with ⟨-, hc, -⟩ | ⟨vb0, -, hr⟩
    · cases hc
    · rcases hr with ⟨-, hc, -⟩ | ⟨-, sum, square, -, r1, -, hr⟩
      · cases hc
      · rcases hr with ⟨-, hc, -⟩ | ⟨vb, -, hr⟩
        · cases hc
        · rcases hr with ⟨-, hc, -⟩ | ⟨-, hst⟩
          · cases hc
          · exact ⟨vb, hst⟩
  obtain ⟨vb, hst⟩ := hcase
  rcases hst with ⟨-, hc, -⟩ | ⟨a, ds1, correct, ds2, hga, hfind, hps, hc⟩
  · cases hc
  · have hfull : getAut O n g none = .ok (some a) := by
      rcases hO.early vb hb with he | he
      · rw [he] at hga; cases hga
      · rw [← he]; exact hga
    have hd := autData_of_answer hO hb hfull
    have hL : g.nv - 1 < a.orbits.size := by rw [hd.size]; omega
    obtain ⟨d1, f1, i1, s1, r1⟩ := find_spec hd.inv (g.nv - 1) hL
    rw [f1] at hfind
    simp only [Outcome.ok.injEq, Prod.mk.injEq] at hfind
    obtain ⟨rfl, -⟩ := hfind
    have hperm := hO.perm hb hfull
    have hlt : ∀ u ∈ a.perm.toList, u < d1.size := by
      intro u hu
      have := hperm.mem_iff.1 hu
      rw [s1, hd.size]; simpa using this
    obtain ⟨i2, s2, r2, -⟩ := permScan_spec g.nv vb correct _ d1 ds2 b i1 hlt hps
    simp only [Option.some.injEq] at hc
    subst hc
    refine ⟨i2, by simp only; rw [s2, s1, hd.size], ?_, hd.gensAut, hd.gensGen⟩
    intro u v hu hv
    have hu1 : u < a.orbits.size := by rw [hd.size]; exact hu
    have hv1 : v < a.orbits.size := by rw [hd.size]; exact hv
    simp only
    rw [r2 u (by omega), r2 v (by omega), r1 u hu1, r1 v hv1]
    exact hd.orbits u v hu hv

end Search
