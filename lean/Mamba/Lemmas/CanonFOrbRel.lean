import Mamba.Lemmas.CanonFOrbDef
/-!
# Orbit completeness: union–find lemmas (`ORel`, the orbit loop against a stored leaf, the fresh union–find)
-/
namespace CanonF

theorem ORel.refl (s : LS) (a : Nat) : ORel s a a := rfl
theorem ORel.symm {s : LS} {a b : Nat} (h : ORel s a b) : ORel s b a := Eq.symm h
theorem ORel.trans {s : LS} {a b c : Nat} (h : ORel s a b) (h' : ORel s b c) : ORel s a c := Eq.trans h h'

/-- the step `i ↦ order[permInv[i]]` of the orbit loop, read through the stored leaf `oX`: `i` sits at position
`oX.idxOf i` of `oX` -/
theorem orel_step {n : Nat} {order permInv : Sl Nat} {oX : List Nat} (hoX : oX.Perm (List.range n)) (hX : InvOf oX permInv)
    {i p v : Nat} (hi : i < n) (hp : permInv.get i = .ok p) (hv : order.get p = .ok v) :
    p = oX.idxOf i ∧ order.toList[oX.idxOf i]? = some v := by
  have hmem : i ∈ oX := hoX.mem_iff.2 (List.mem_range.2 hi)
  have h1 := hX _ _ (getElem?_idxOf_of_mem hmem)
  have h2 := Sl.get_eq_toList.1 hp
  rw [h1] at h2
  injection h2 with h2
  subst h2
  exact ⟨rfl, Sl.get_eq_toList.1 hv⟩

set_option linter.unusedVariables false in
/-- after the orbit loop for the leaf `order` against the stored leaf `oX` (inverse `permInv`): old classes are kept,
and vertices at the same position of the two leaves are in the same class -/
theorem orel_orbitLoop {n : Nat} {order permInv : Sl Nat} {ds ds' : Disjoint.DS} {merges : Bool} {oX : List Nat}
    (hinv : Disjoint.Inv ds) (hsz : ds.size = n)
    (hord : order.toList.Perm (List.range n)) (hwf : order.WF) (hlen : order.len = n)
    (hoX : oX.Perm (List.range n)) (hX : InvOf oX permInv)
    (h : forRange (orbitStep order permInv) n 0 (ds, false) = .ok (ds', merges)) :
    Disjoint.Inv ds' ∧ ds'.size = n ∧
    (∀ a b, a < n → b < n → Disjoint.rep ds a = Disjoint.rep ds b → Disjoint.rep ds' a = Disjoint.rep ds' b) ∧
    (∀ u v, u < n → v < n → IR.col (IR.tab n (fun x => oX.idxOf x)) u = IR.col (IR.tab n (fun x => order.toList.idxOf x)) v →
      Disjoint.rep ds' u = Disjoint.rep ds' v) ∧
    (∀ x, x < n → Disjoint.rep ds' x = Disjoint.rep ds' ((transport n oX order.toList).getD x 0)) := by
  obtain ⟨i1, i2, i3, i4, _, _⟩ := orbitLoop_spec hinv hsz h
  refine ⟨i1, i2, i4, ?_, ?_⟩
  · intro u v hu hv hcol
    rw [IR.col_tab _ hu, IR.col_tab _ hv] at hcol
    obtain ⟨p, w, hp, hw, _, hrep⟩ := i3 u hu
    obtain ⟨_, hw'⟩ := orel_step hoX hX hu hp hw
    have hvm : v ∈ order.toList := hord.mem_iff.2 (List.mem_range.2 hv)
    have := getElem?_idxOf_of_mem hvm
    rw [← hcol, hw'] at this
    injection this with this
    rw [hrep, this]
  · intro x hx
    obtain ⟨p, w, hp, hw, _, hrep⟩ := i3 x hx
    obtain ⟨_, hw'⟩ := orel_step hoX hX hx hp hw
    rw [aut_transport_getD hx, List.getD_eq_getElem?_getD, hw']
    exact hrep

/-- in the fresh union–find every vertex is its own representative -/
theorem orel_new {n a : Nat} (ha : a < n) : Disjoint.rep (Disjoint.new n) a = a := Disjoint.rep_new n a ha

end CanonF
