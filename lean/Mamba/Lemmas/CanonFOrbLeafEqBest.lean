import Mamba.Lemmas.CanonFOrbTree
import Mamba.Lemmas.CanonFOrbRel
/-!
# Orbit completeness at a leaf whose certificate equals `currentBest` (`orb_leaf_eqbest`)

A-layer companion of `dfs_leaf_eqbest_v` (`CanonFDfsLeafEqBest.lean`). The orbit loop against the best leaf merges
`firstLeafOrbits` position-wise along `γ = transport n bestPerm order` (`orel_orbitLoop`): the relation `ORel` grows and
relates every vertex to its `γ`-image. The child of the divergence node on the best-leaf path has been processed, hence
is covered (`abB`, `ob_best_child`); `acov_backjump` transfers the coverage to the child on the current path, which
becomes the processed child of the new top frame. `k` and `lv1` of the statement are determined by the D-layer after
the transition (`k` = level of the new top frame, `lv1 = lv.drop j`).
-/
namespace CanonF
open Relation

section
variable {n : Nat} {nb : Nbrs} {rf : Nat} {r : IR.St}

theorem ob_lFof {gh gh' : Gh} (e : gh'.oF = gh.oF) : lFof n gh' = lFof n gh := by unfold lFof; rw [e]

/-- `ACovChild` when the orbit partition grows, non-roots stay non-roots, and the vertex path is replaced by one with the
same prefix -/
theorem ob_acovChild_upd {gh gh' : Gh} {s s' : LS} {us us' ps : List Nat} {st w : Nat}
    (h : ACovChild n nb rf r gh s us ps st w)
    (eo : gh'.oF = gh.oF) (efl : s'.firstLeaf = s.firstLeaf)
    (hgrow : ∀ a b, a < n → b < n → ORel s a b → ORel s' a b)
    (e2 : ∀ qs, onFirstB s' qs = onFirstB s qs)
    (e4 : ∀ (w : Nat) (y : Int), s.flOrbits[w]? = some y → y ≥ 0 → ∃ y' : Int, s'.flOrbits[w]? = some y' ∧ y' ≥ 0)
    (ev : us'.take ps.length = us.take ps.length) : ACovChild n nb rf r gh' s' us' ps st w := by
  unfold ACovChild at h ⊢
  rw [ob_lFof eo, efl, nodeL_congr ev, e2]
  rcases h with h | ⟨h1, y, h2, h3⟩
  · exact Or.inl (h.mono hgrow)
  · exact Or.inr ⟨h1, e4 w y h2 h3⟩

theorem ob_acovFrames_upd {gh gh' : Gh} {s s' : LS} {us us' : List Nat}
    (eo : gh'.oF = gh.oF) (efl : s'.firstLeaf = s.firstLeaf)
    (hgrow : ∀ a b, a < n → b < n → ORel s a b → ORel s' a b)
    (e2 : ∀ qs, onFirstB s' qs = onFirstB s qs)
    (e4 : ∀ (w : Nat) (y : Int), s.flOrbits[w]? = some y → y ≥ 0 → ∃ y' : Int, s'.flOrbits[w]? = some y' ∧ y' ≥ 0) :
    ∀ (incl : Bool) (path choices : List Nat) (lv : List (Nat × Nat)),
      (∀ L, L < path.length → us'.take L = us.take L) →
      ACovFrames n nb rf r gh s us incl path choices lv → ACovFrames n nb rf r gh' s' us' incl path choices lv := by
  intro incl path
  induction path generalizing incl with
  | nil => intro choices lv _ h; cases choices <;> cases lv <;> simp_all [ACovFrames]
  | cons p ps ih =>
    intro choices lv hv h
    cases choices with
    | nil => simp [ACovFrames] at h
    | cons c cs =>
      cases lv with
      | nil => simp [ACovFrames] at h
      | cons x ls =>
        obtain ⟨st, sz⟩ := x
        simp only [ACovFrames] at h ⊢
        have ev := hv ps.length (by simp)
        refine ⟨fun i w hi hw => ?_, ih false cs ls (fun L hL => hv L (by simp only [List.length_cons]; omega)) h.2⟩
        rw [cellL_congr ev] at hw
        exact ob_acovChild_upd (h.1 i w hi hw) eo efl hgrow e2 e4 ev

theorem ob_acov_tail {gh : Gh} {s : LS} {us : List Nat} {incl : Bool} {p c : Nat} {ps cs : List Nat} {x : Nat × Nat}
    {ls : List (Nat × Nat)} (h : ACovFrames n nb rf r gh s us incl (p :: ps) (c :: cs) (x :: ls)) :
    ACovFrames n nb rf r gh s us false ps cs ls := by
  obtain ⟨st, sz⟩ := x
  simp only [ACovFrames] at h
  exact h.2

theorem ob_acov_drop {gh : Gh} {s : LS} {us : List Nat} :
    ∀ (j : Nat) (path choices : List Nat) (lv : List (Nat × Nat)),
      ACovFrames n nb rf r gh s us false path choices lv →
      ACovFrames n nb rf r gh s us false (path.drop j) (choices.drop j) (lv.drop j) := by
  intro j
  induction j with
  | zero => intro path choices lv h; simpa using h
  | succ j ih =>
    intro path choices lv h
    cases path with
    | nil => cases choices <;> cases lv <;> simp_all [ACovFrames]
    | cons p ps =>
      cases choices with
      | nil => simp [ACovFrames] at h
      | cons c cs =>
        cases lv with
        | nil => simp [ACovFrames] at h
        | cons x ls =>
          simp only [List.drop_succ_cons]
          exact ih ps cs ls (ob_acov_tail h)

theorem ob_acov_finish_child {gh : Gh} {s : LS} {us : List Nat} {p c : Nat} {ps cs : List Nat} {st sz : Nat}
    {ls : List (Nat × Nat)} (h : ACovFrames n nb rf r gh s us false (p :: ps) (c :: cs) ((st, sz) :: ls))
    (hnew : ∀ w, (cellL n nb rf r us ps.length st)[c - st]? = some w → ACovChild n nb rf r gh s us ps st w) :
    ACovFrames n nb rf r gh s us true (p :: ps) (c :: cs) ((st, sz) :: ls) := by
  simp only [ACovFrames] at h ⊢
  refine ⟨fun i w hi hw => ?_, h.2⟩
  simp only [if_true] at hi
  rcases Nat.lt_or_ge (c - st) i with hlt | hge
  · exact h.1 i w (by simp only [Bool.false_eq_true, if_false]; exact hlt) hw
  · have : i = c - st := by omega
    subst this
    exact hnew w hw

theorem ob_auxA1_upd {gh gh' : Gh} {s s' : LS} {us us' : List Nat} {incl : Bool} {ps : List Nat} {c st : Nat}
    (h : FrameAuxA1 n nb rf r gh s us incl ps c st) (hpos : 0 < s.count)
    (eo : gh'.oF = gh.oF) (eF : gh'.vsF = gh.vsF) (eB : gh'.vsB = gh.vsB) (efl : s'.firstLeaf = s.firstLeaf)
    (hgrow : ∀ a b, a < n → b < n → ORel s a b → ORel s' a b)
    (ev : us'.take ps.length = us.take ps.length) : FrameAuxA1 n nb rf r gh' s' us' incl ps c st := by
  have ec := cellL_congr (n := n) (nb := nb) (rf := rf) (r := r) (st := st) ev
  have en := nodeL_congr (n := n) (nb := nb) (rf := rf) (r := r) ev
  constructor
  · intro _; rw [ob_lFof eo, efl, ec, ev, en, eF]
    intro hpre i w hi hw hx
    exact (h.abF hpos hpre i w hi hw hx).mono hgrow
  · intro _; rw [ob_lFof eo, efl, ec, ev, en, eB]
    intro hpre i w hi hw hx
    exact (h.abB hpos hpre i w hi hw hx).mono hgrow

theorem ob_auxA_upd {gh gh' : Gh} {s s' : LS} {us us' : List Nat} (hpos : 0 < s.count)
    (eo : gh'.oF = gh.oF) (eF : gh'.vsF = gh.vsF) (eB : gh'.vsB = gh.vsB) (efl : s'.firstLeaf = s.firstLeaf)
    (hgrow : ∀ a b, a < n → b < n → ORel s a b → ORel s' a b) :
    ∀ (incl : Bool) (path choices : List Nat) (lv : List (Nat × Nat)),
      (∀ L, L < path.length → us'.take L = us.take L) →
      FrameAuxA n nb rf r gh s us incl path choices lv → FrameAuxA n nb rf r gh' s' us' incl path choices lv := by
  intro incl path
  induction path generalizing incl with
  | nil => intro choices lv _ h; cases choices <;> cases lv <;> simp_all [FrameAuxA]
  | cons p ps ih =>
    intro choices lv hv h
    cases choices with
    | nil => simp [FrameAuxA] at h
    | cons c cs =>
      cases lv with
      | nil => simp [FrameAuxA] at h
      | cons x ls =>
        obtain ⟨st, sz⟩ := x
        simp only [FrameAuxA] at h ⊢
        exact ⟨ob_auxA1_upd h.1 hpos eo eF eB efl hgrow (hv ps.length (by simp)),
          ih false cs ls (fun L hL => hv L (by simp only [List.length_cons]; omega)) h.2⟩

theorem ob_auxA_tail {gh : Gh} {s : LS} {us : List Nat} {incl : Bool} {p c : Nat} {ps cs : List Nat} {x : Nat × Nat}
    {ls : List (Nat × Nat)} (h : FrameAuxA n nb rf r gh s us incl (p :: ps) (c :: cs) (x :: ls)) :
    FrameAuxA n nb rf r gh s us false ps cs ls := by
  obtain ⟨st, sz⟩ := x
  simp only [FrameAuxA] at h
  exact h.2

theorem ob_auxA_drop {gh : Gh} {s : LS} {us : List Nat} :
    ∀ (j : Nat) (path choices : List Nat) (lv : List (Nat × Nat)),
      FrameAuxA n nb rf r gh s us false path choices lv →
      FrameAuxA n nb rf r gh s us false (path.drop j) (choices.drop j) (lv.drop j) := by
  intro j
  induction j with
  | zero => intro path choices lv h; simpa using h
  | succ j ih =>
    intro path choices lv h
    cases path with
    | nil => cases choices <;> cases lv <;> simp_all [FrameAuxA]
    | cons p ps =>
      cases choices with
      | nil => simp [FrameAuxA] at h
      | cons c cs =>
        cases lv with
        | nil => simp [FrameAuxA] at h
        | cons x ls =>
          simp only [List.drop_succ_cons]
          exact ih ps cs ls (ob_auxA_tail h)

theorem ob_auxA_finish_child {gh : Gh} {s : LS} {us : List Nat} {p c : Nat} {ps cs : List Nat} {st sz : Nat}
    {ls : List (Nat × Nat)} (h : FrameAuxA n nb rf r gh s us false (p :: ps) (c :: cs) ((st, sz) :: ls))
    (hnew : ∀ w, (cellL n nb rf r us ps.length st)[c - st]? = some w →
      ACov n nb rf (lFof n gh) s.firstLeaf.toList (ORel s) (IR.childSt (irG n nb) rf (nodeL n nb rf r us ps.length) st w)) :
    FrameAuxA n nb rf r gh s us true (p :: ps) (c :: cs) ((st, sz) :: ls) := by
  simp only [FrameAuxA] at h ⊢
  refine ⟨⟨?_, ?_⟩, h.2⟩
  · intro h0 hpre i w hi hw hx
    simp only [if_true] at hi
    rcases Nat.lt_or_ge (c - st) i with hlt | hge
    · exact h.1.abF h0 hpre i w (by simp only [Bool.false_eq_true, if_false]; exact hlt) hw hx
    · have : i = c - st := by omega
      subst this
      exact hnew w hw
  · intro h0 hpre i w hi hw hx
    simp only [if_true] at hi
    rcases Nat.lt_or_ge (c - st) i with hlt | hge
    · exact h.1.abB h0 hpre i w (by simp only [Bool.false_eq_true, if_false]; exact hlt) hw hx
    · have : i = c - st := by omega
      subst this
      exact hnew w hw

/-- the child of the divergence node on the best-leaf path has been processed, hence is covered (cf. `lb_child_complete`) -/
theorem ob_best_child {gh : Gh} {s : LS} {vs o1 PB : List Nat} {pinv : Sl Nat}
    (hp2 : IR.IsPath (irG n nb) rf r vs)
    (hB : LeafRec n nb rf r gh.vsB o1 s.currentBest.toList pinv PB)
    {p c st sz : Nat} {ps : List Nat}
    (hI : IdxPath n nb rf r vs ps.reverse ps.length) (hlen : ps.length < vs.length)
    (hagree : ∀ i, i < ps.length → ps.reverse[i]? = PB[i]?)
    (hdiff : ∃ x, PB[ps.length]? = some x ∧ x ≠ p)
    (htar : IR.target (irG n nb) (nodeL n nb rf r vs ps.length) = some st)
    (hcst : c - st = p) (hcnt : 0 < s.count)
    (hf : FrameAux1 n nb rf r gh s vs false ps c st sz) (hfa : FrameAuxA1 n nb rf r gh s vs false ps c st) :
    vs.take ps.length = gh.vsB.take ps.length ∧ ∃ b, gh.vsB[ps.length]? = some b ∧
      ACov n nb rf (lFof n gh) s.firstLeaf.toList (ORel s)
        (IR.childSt (irG n nb) rf (nodeL n nb rf r vs ps.length) st b) := by
  obtain ⟨hpre, hkle⟩ := lb_prefix_of_agree hI hp2 (Nat.le_of_lt hlen) hB.leaf hB.idx hagree
  refine ⟨hpre, ?_⟩
  have hk : ps.length < gh.vsB.length := by
    rcases Nat.lt_or_ge ps.length gh.vsB.length with h | h
    · exact h
    · exfalso
      have e : gh.vsB = vs.take ps.length := by rw [hpre, List.take_of_length_le h]
      have := hB.leaf
      rw [e] at this
      have htar' : IR.target (irG n nb) (IR.nodeAt (irG n nb) rf r (vs.take ps.length)) = some st := htar
      rw [this] at htar'
      cases htar'
  obtain ⟨t, j', v', b1, b2, b3, b4⟩ := hB.idx ps.length hk
  have en : nodeL n nb rf r gh.vsB ps.length = nodeL n nb rf r vs ps.length := nodeL_congr hpre.symm
  unfold cellL at b3
  rw [en] at b1 b3
  rw [htar] at b1
  cases b1
  obtain ⟨x, hx, hxp⟩ := hdiff
  rw [hx] at b4
  have ej : x = j' := Option.some.inj b4
  have hb3 : (cellL n nb rf r vs ps.length st)[j']? = some v' := b3
  have hge : ¬ j' < c - st := fun hlt => hf.futB hcnt j' v' hlt hb3 ⟨hpre, b2⟩
  exact ⟨v', b2, hfa.abB hcnt hpre j' v' (by simp only [Bool.false_eq_true, if_false]; omega) hb3 b2⟩

end

section
variable {n m : Nat} {nb : Nbrs} {rf : Nat} {r : IR.St}
  (hnb : NbOK nb n) (hA : IR.InvA (irG n nb) r) (hD : IR.InvD (irG n nb) r)

set_option linter.unusedVariables false in
include hnb hA hD in
/-- everything the D-layer proof `dfs_leaf_eqbest_v` knows about the state after the leaf and about the frame of the
divergence level -/
theorem ob_setup (lv : List (Nat × Nat)) (s s1 : LS) (gh : Gh) (hI : MInv n m nb s)
    (hlv : LevelsOK s.op s.path s.choices lv) (hleaf : s.op.binDividers.len = n)
    (hJ : CertM n m nb lv false s) (h : DNodev n nb rf r gh lv s) (hs1 : leafNode n m s = .ok s1)
    (hc1 : (compare s.op.value.toList s.currentBest.toList == 1 || s.count + 1 == 1) = false)
    (hc0 : (compare s.op.value.toList s.currentBest.toList == 0) = true) :
    ∃ (bo : Disjoint.DS) (b0 : Bool) (fo : Disjoint.DS) (merges : Bool) (gens' : Array (Sl Nat)) (ngens' : Nat)
      (op' : OP) (j p : Nat) (ps : List Nat) (c : Nat) (cs : List Nat) (st sz : Nat) (ls : List (Nat × Nat)),
      forRange (orbitStep s.op.order s.bestPermInv) n 0 (s.bestOrbits, false) = .ok (bo, b0) ∧
      forRange (orbitStep s.op.order s.bestPermInv) n 0 (s.flOrbits, false) = .ok (fo, merges) ∧
      (if merges = true then recordGenerator n s.op.order s.bestPermInv s.gens s.ngens
        else Outcome.ok (s.gens, s.ngens)) = .ok (gens', ngens') ∧
      s1 = { s with count := s.count + 1, bestOrbits := bo, flOrbits := fo, gens := gens', ngens := ngens',
                    op := op', path := s.path.drop j, choices := s.choices.drop j } ∧
      s.path.drop j = p :: ps ∧ s.choices.drop j = c :: cs ∧ lv.drop j = (st, sz) :: ls ∧ c = st + p ∧
      ps.length < gh.vs.length ∧ j + ps.length + 1 = s.path.length ∧
      LevelsOK op' (s.path.drop j) (s.choices.drop j) (lv.drop j) ∧
      IR.target (irG n nb) (nodeL n nb rf r gh.vs ps.length) = some st ∧
      gh.vs[ps.length]? = (cellL n nb rf r gh.vs ps.length st)[p]? ∧
      IdxPath n nb rf r gh.vs ps.reverse ps.length ∧
      (∀ i, i < ps.length → ps.reverse[i]? = s.bestPath.toList[i]?) ∧
      (∃ x, s.bestPath.toList[ps.length]? = some x ∧ x ≠ p) ∧
      IR.target (irG n nb) (IR.nodeAt (irG n nb) rf r gh.vs) = none ∧
      (IR.nodeAt (irG n nb) rf r gh.vs).c = IR.tab n (fun v => s.op.order.toList.idxOf v) ∧
      certPos nb s.bestPerm.toList n = certPos nb s.op.order.toList n ∧ 0 < s.count := by
  obtain ⟨hw, hG, hcov, haux, hoff⟩ := h
  have hc := hI.core
  obtain ⟨hvc, hspl⟩ := leaf_clean hc.part hleaf (hJ.2.2.1 rfl)
  have hc1' := hc1
  simp only [Bool.or_eq_false_iff, beq_eq_false_iff_ne, ne_eq] at hc1'
  have hcnt : 0 < s.count := by omega
  have hval : s.op.value.toList = certPos nb s.op.order.toList n := by rw [← hspl]; exact hvc.val
  have heq : s.op.value.toList = s.currentBest.toList := (compare_eq_zero _ _).1 (by simpa using hc0)
  have hB := hG.best hcnt
  have hcert : certPos nb s.bestPerm.toList n = certPos nb s.op.order.toList n := by
    rw [← hB.cert, ← heq, hval]
  have hw' := hw
  obtain ⟨h1, h2, h3, h4, h5, h6, h7⟩ := hw'
  -- the current node is a leaf
  have hm : Match n s.op (nodeL n nb rf r gh.vs gh.vs.length) :=
    (h4 gh.vs.length (Nat.le_refl _)).toMatch hc.part hc.age (by omega) h7
  have hnl : nodeL n nb rf r gh.vs gh.vs.length = IR.nodeAt (irG n nb) rf r gh.vs := by
    unfold nodeL; rw [List.take_length]
  rw [hnl] at hm
  have ht2 := target_none (nb := nb) hc.part hm hleaf
  have hc2 : (IR.nodeAt (irG n nb) rf r gh.vs).c = IR.tab n (fun v => s.op.order.toList.idxOf v) := by
    rw [hm.col, leaf_colOf hc.part hleaf]
  have hdn : gh.vs.length ≤ n := by
    obtain ⟨q1, _, q3⟩ := IR.path_cells (irG_wf hnb) (rf := rf) gh.vs r hA hD h1
    have := IR.D_le n (IR.nodeAt (irG n nb) rf r gh.vs).c
    have e : IR.D n (IR.nodeAt (irG n nb) rf r gh.vs).c = (IR.nodeAt (irG n nb) rf r gh.vs).cells := q3
    omega
  have hPBlen : s.bestPath.toList.length = n := by rw [Sl.length_toList _ hG.bpLen.2, hG.bpLen.1]
  obtain ⟨cl1, cl2⟩ := LevelsOK_length _ _ _ hlv
  -- the path is not empty
  have hdpos : 0 < s.path.length := by
    rcases Nat.eq_zero_or_pos s.path.length with h0 | hpos
    · exfalso
      rw [h0] at h3
      have hvs : gh.vs = [] := List.length_eq_zero_iff.1 h3
      have := (hoff hcnt).1
      rw [hvs] at this
      exact this (by simp)
    · exact hpos
  obtain ⟨bo, b0, fo, merges, gens', ngens', hl1, hl2, hrec, hbj⟩ := lb_leafNode_unfold hc1 hc0 hs1
  obtain ⟨idx, op', hidx, hdt, es⟩ := lb_backJump_shape hbj
  have hidx' : h1Index s.path.reverse s.bestPath (s.path.length - 1) 0 = .ok idx := hidx
  have hdt' : deageTimes (s.path.length - idx) s.op = .ok op' := hdt
  obtain ⟨a1, a2⟩ := lb_h1Index_spec _ _ _ _ _ hidx'
  simp only [List.length_reverse, Nat.zero_add, Nat.zero_le, forall_true_left] at a1 a2
  have hidx1 : 1 ≤ idx ∧ idx ≤ s.path.length := by
    rcases a2 with ⟨b1, _⟩ | ⟨b1, b2, _⟩ <;> omega
  rw [cl1] at es
  obtain ⟨j, hj⟩ : ∃ j, j = s.path.length - idx := ⟨_, rfl⟩
  rw [← hj] at es hdt'
  -- the frame of the level `idx - 1`
  have hlvd := LevelsOK_drop j _ _ _ hlv
  have hlvd0 := hlvd
  have h5d := h5.drop j
  have hauxd := lb_frameAux_drop j _ _ _ haux
  cases hq : s.path.drop j with
  | nil =>
    exfalso
    have := congrArg List.length hq
    simp only [List.length_drop, List.length_nil] at this
    omega
  | cons p ps =>
    rw [hq] at hlvd h5d hauxd
    obtain ⟨c, cs, st, sz, ls, eq1, eq2, hcp⟩ := lb_levelsOK_path_ne hlvd
    rw [eq1, eq2] at h5d hauxd
    have hpsl : ps.length + 1 = idx := by
      have := congrArg List.length hq
      simp only [List.length_drop, List.length_cons] at this
      omega
    have hsplit : s.path = s.path.take j ++ p :: ps := by rw [← hq, List.take_append_drop]
    obtain ⟨r1, r2⟩ := lb_rev_idx hsplit
    simp only [FramesOK] at h5d
    obtain ⟨g1, g2, g3, g4⟩ := h5d
    obtain ⟨g3a, g3b⟩ := g3 (by omega)
    have hIk := frames_idxPath ps cs ls g4 (by omega)
    have hf := FrameAux.head hauxd
    have hgetD : ∀ i q, s.path.reverse[i]? = some q → s.path.reverse.getD i 0 = q := by
      intro i q hiq; rw [List.getD_eq_getElem?_getD, hiq, Option.getD_some]
    -- index paths agree below `ps.length`
    have hagree : ∀ i, i < ps.length → ps.reverse[i]? = s.bestPath.toList[i]? := by
      intro i hi
      have e1 := r1 i hi
      have hil : i < ps.reverse.length := by simpa using hi
      rw [List.getElem?_eq_getElem hil] at e1
      have := Sl.get_eq_toList.1 (a1 i (by omega) (by omega))
      rw [hgetD i _ e1] at this
      rw [this, List.getElem?_eq_getElem hil]
    -- and differ at `ps.length`
    have hdiff : ∃ x, s.bestPath.toList[ps.length]? = some x ∧ x ≠ p := by
      rcases a2 with ⟨b1, b2⟩ | ⟨b1, b2, x, b3, b4⟩
      · have hlt : ps.length < s.bestPath.toList.length := by omega
        refine ⟨_, List.getElem?_eq_getElem hlt, fun hxp => ?_⟩
        have hIfull := frames_idxPath s.path s.choices lv h5 (by omega)
        have hag : ∀ i, i < s.path.length → s.path.reverse[i]? = s.bestPath.toList[i]? := by
          intro i hi
          rcases Nat.lt_or_ge i ps.length with hlt' | hge
          · rw [r1 i hlt']; exact hagree i hlt'
          · have : i = ps.length := by omega
            subst this
            rw [r2, List.getElem?_eq_getElem hlt, hxp]
        obtain ⟨e, _⟩ := lb_prefix_of_agree hIfull h1 (by omega) hB.leaf hB.idx hag
        rw [← h3, List.take_length] at e
        exact (hoff hcnt).2 e
      · refine ⟨x, ?_, ?_⟩
        · have := Sl.get_eq_toList.1 b3
          rw [show idx - 1 = ps.length by omega] at this
          exact this
        · rw [show idx - 1 = ps.length by omega, hgetD _ _ r2] at b4
          exact fun e => b4 e.symm
    have hlo : LevelsOK op' (s.path.drop j) (s.choices.drop j) (lv.drop j) := by
      obtain ⟨q1, q2, q3, q4, _⟩ := deageTimes_spec (StepQ.trivial n nb s.currentBest s.firstLeaf) j s.op op'
        hc.part hc.age (by rw [hI.age]; omega) trivial hdt'
      apply LevelsOK_frame q4 _ _ _ _ hlvd0
      simp only [List.length_drop]; rw [hI.age]; omega
    exact ⟨bo, b0, fo, merges, gens', ngens', op', j, p, ps, c, cs, st, sz, ls, hl1, hl2, hrec, es, hq, eq1, eq2, hcp,
      by omega, by omega, hlo, g1, g3a, hIk, hagree, hdiff, ht2, hc2, hcert, hcnt⟩

end
theorem ob_isAutL_lt {n : Nat} {nb : Nbrs} {γ : List Nat} (h : IsAutL nb n γ) {x : Nat} (hx : x < n) : γ.getD x 0 < n := by
  obtain ⟨hl, _, hmem⟩ := aut_perm_facts h.1
  exact (hmem _).1 (prl_getD_mem (by omega))

section
variable {n m : Nat} {nb : Nbrs} {rf : Nat} {r : IR.St}
  (hnb : NbOK nb n) (hA : IR.InvA (irG n nb) r) (hD : IR.InvD (irG n nb) r)

set_option linter.unusedVariables false in
include hnb hA hD in
theorem orb_leaf_eqbest (gh : Gh) (lv : List (Nat × Nat)) (s s1 : LS) (hI : MInv n m nb s)
    (hlv : LevelsOK s.op s.path s.choices lv) (hleaf : s.op.binDividers.len = n)
    (hJ : CertM n m nb lv false s) (hDv : DNodev n nb rf r gh lv s) (hAv : ANodev n nb rf r gh lv s)
    (hs1 : leafNode n m s = .ok s1) (hJ1 : CertA n m nb lv s1)
    (hc1 : (compare s.op.value.toList s.currentBest.toList == 1 || s.count + 1 == 1) = false)
    (hc0 : (compare s.op.value.toList s.currentBest.toList == 0) = true)
    (lv1 : List (Nat × Nat)) (k : Nat) (hl1 : LevelsOK s1.op s1.path s1.choices lv1)
    (hDv' : DAv n nb rf r { gh with vs := gh.vs.take k,
                                    bgs := transport n s.bestPerm.toList s.op.order.toList :: gh.bgs } lv1 s1) :
    AAv n nb rf r { gh with vs := gh.vs.take k,
                            bgs := transport n s.bestPerm.toList s.op.order.toList :: gh.bgs } lv1 s1 := by
  obtain ⟨bo, b0, fo, merges, gens', ngens', op', j, p, ps, c, cs, st, sz, ls, hl1', hl2, hrec, es, hq, eq1, eq2, hcp,
    hklt, hjd, hlo, g1, g3a, hIk, hagree, hdiff, ht2, hc2, hcert, hcnt⟩ :=
    ob_setup hnb hA hD lv s s1 gh hI hlv hleaf hJ hDv hs1 hc1 hc0
  obtain ⟨hw, hG, hcov, haux, hoff⟩ := hDv
  obtain ⟨hGA, hacov, hauxA⟩ := hAv
  have hc := hI.core
  have hB := hG.best hcnt
  obtain ⟨h1, h2, h3, h4, h5, h6, h7⟩ := hw
  subst es
  -- `lv1` and `k` are determined
  have elv : lv1 = lv.drop j := LevelsOK_unique _ _ _ _ hl1 hlo
  subst elv
  have ek : k = ps.length := by
    obtain ⟨_, w2, _⟩ := hDv'.1
    have w2' : s.path.drop j = [] ∨ (gh.vs.take k).length + 1 = (s.path.drop j).length := w2
    rw [hq] at w2'
    simp only [List.length_take, List.length_cons] at w2'
    rcases w2' with e | e
    · cases e
    · omega
  subst ek
  -- the orbit partition grows
  obtain ⟨o1, o2, o3, o4, o5⟩ := orel_orbitLoop (hJ.1.orb hcnt).1 hJ.1.orbSz.1 hc.part.perm hc.part.wfOrder
    hc.part.lenOrder hB.perm hB.inv hl2
  have hgrow : ∀ a b, a < n → b < n → ORel s a b →
      ORel { s with count := s.count + 1, bestOrbits := bo, flOrbits := fo, gens := gens', ngens := ngens',
                    op := op', path := s.path.drop j, choices := s.choices.drop j } a b :=
    fun a b ha hb h => o3 a b ha hb h
  have hRt : ∀ x, x < n →
      ORel { s with count := s.count + 1, bestOrbits := bo, flOrbits := fo, gens := gens', ngens := ngens',
                    op := op', path := s.path.drop j, choices := s.choices.drop j } x
        ((transport n s.bestPerm.toList s.op.order.toList).getD x 0) := fun x hx => o5 x hx
  -- the frame of the divergence level
  have hauxd := lb_frameAux_drop j _ _ _ haux
  have hauxAd := ob_auxA_drop j _ _ _ hauxA
  have hacovd := ob_acov_drop j _ _ _ hacov
  rw [hq, eq1, eq2] at hauxd hauxAd hacovd
  have hf := FrameAux.head hauxd
  have hfa : FrameAuxA1 n nb rf r gh s gh.vs false ps c st := by
    simp only [FrameAuxA] at hauxAd; exact hauxAd.1
  obtain ⟨hpre, b, hb, hcb⟩ := ob_best_child h1 hB hIk hklt hagree hdiff g1 (show c - st = p by omega) hcnt hf hfa
  have hv := List.getElem?_eq_getElem hklt
  have hnewC := acov_backjump (rf := rf) (R := ORel _) hnb hA hD (fun _ _ _ _ _ _ => ORel.trans) hB.path hB.leaf hB.col hB.perm h1 ht2 hc2
    hc.part.perm hcert hpre.symm hb hv g1 hRt (ACov.mono (R' := ORel _) hcb hgrow)
  have ev : (gh.vs.take ps.length).take ps.length = gh.vs.take ps.length := take_take_le gh.vs (Nat.le_refl _)
  have htake : ∀ L, L < (p :: ps).length → (gh.vs.take ps.length).take L = gh.vs.take L := by
    intro L hL
    simp only [List.length_cons] at hL
    exact take_take_le gh.vs (by omega)
  have hnewC' : ∀ w, (cellL n nb rf r (gh.vs.take ps.length) ps.length st)[c - st]? = some w →
      ACov n nb rf (lFof n gh) s.firstLeaf.toList
        (ORel { s with count := s.count + 1, bestOrbits := bo, flOrbits := fo, gens := gens', ngens := ngens',
                       op := op', path := s.path.drop j, choices := s.choices.drop j })
        (IR.childSt (irG n nb) rf (nodeL n nb rf r (gh.vs.take ps.length) ps.length) st w) := by
    intro w hw'
    rw [cellL_congr ev, show c - st = p by omega, ← g3a, hv] at hw'
    cases hw'
    rw [nodeL_congr ev]
    exact hnewC
  refine ⟨?_, ?_, ?_, ?_⟩
  · constructor
    · intro _; exact hGA.bgf hcnt
    · intro _ he u v hu hv' e
      exact hgrow u v hu hv' (hGA.bestA hcnt he u v hu hv' e)
    · intro γ' hγ' x hx
      rcases List.mem_cons.1 hγ' with e | e
      · rw [e]; exact hRt x hx
      · exact hgrow x _ hx (ob_isAutL_lt (hG.bgsAut _ e) hx) (hGA.bgsM _ e x hx)
    · intro k' hk' g hg x hx
      rcases lb_gens_new hB.perm hc.part.lenOrder hB.inv hrec k' hk' g hg with ⟨hk2, hg2⟩ | e
      · obtain ⟨g2, e2, haut⟩ := hJ.1.gens k' hk2
        rw [hg2] at e2
        cases e2
        exact hgrow x _ hx (ob_isAutL_lt haut hx) (hGA.gensM k' hk2 g hg2 x hx)
      · rw [e]; exact hRt x hx
  · have a2 := ob_acovFrames_upd (gh := gh) (s := s) (us := gh.vs) (us' := gh.vs.take ps.length)
      (gh' :=
        { gh with
          vs := gh.vs.take ps.length,
          bgs := transport n s.bestPerm.toList s.op.order.toList :: gh.bgs })
      (s' := { s with count := s.count + 1, bestOrbits := bo, flOrbits := fo, gens := gens', ngens := ngens',
                      op := op', path := s.path.drop j, choices := s.choices.drop j })
      rfl rfl hgrow (onFirstB_count_succ hcnt rfl rfl)
      (fun w y hw hy => nonroot_orbitLoop (hJ.1.orb hcnt).1 hl2 hw hy) false (p :: ps) (c :: cs) ((st, sz) :: ls)
      htake hacovd
    have a3 := ob_acov_finish_child a2 (fun w hw' => Or.inl (hnewC' w hw'))
    rw [← hq, ← eq1, ← eq2] at a3
    exact a3
  · have f2 := ob_auxA_upd (gh := gh) (s := s) (us := gh.vs) (us' := gh.vs.take ps.length)
      (gh' :=
        { gh with
          vs := gh.vs.take ps.length,
          bgs := transport n s.bestPerm.toList s.op.order.toList :: gh.bgs })
      (s' := { s with count := s.count + 1, bestOrbits := bo, flOrbits := fo, gens := gens', ngens := ngens',
                      op := op', path := s.path.drop j, choices := s.choices.drop j })
      hcnt rfl rfl rfl rfl hgrow false (p :: ps) (c :: cs) ((st, sz) :: ls) htake hauxAd
    have f3 := ob_auxA_finish_child f2 hnewC'
    rw [← hq, ← eq1, ← eq2] at f3
    exact f3
  · intro hp
    exfalso
    have hp' : s.path.drop j = [] := hp
    rw [hq] at hp'
    cases hp'

end

end CanonF
