import Mamba.Lemmas.CodecBits
import Mamba.Lemmas.CodecNn
import Mamba.Lemmas.CodecCount
import Mamba.Lemmas.CodecS6Dec
import Mathlib.Tactic.IntervalCases
/-!
`Sparse6Encode` of the model against the format's reader (C07 for sparse6): the output is `':' N(n) R(x)`, `x` the
`(b, x)` stream of the edges in the order of `G.edges` (`s6e_stream`) followed by the padding `Formats.s6PadBits`
(`s6_conforms`); `Formats.s6DecodeSpec` reads it back as exactly `(n, G.edges)` (`s6_spec_decodes`): the padding,
including the `0`-bit rule for `n = 2, 4, 8, 16`, never yields a spurious edge.
-/
namespace Codec
open Formats GraphSpec

/-! ### 1. bit level -/

theorem s6e_pushNum_eq (w : BitW) (k x : Nat) :
    w.pushNum k x = (natToBits k x).foldl (fun w b => w.pushOr b) w := by
  unfold BitW.pushNum natToBits
  rw [List.foldl_map]
  congr 1; funext w j
  rw [Nat.shiftRight_eq_div_pow, Nat.and_one_is_mod, Nat.sub_right_comm]

theorem s6e_natToBits_length (k x : Nat) : (natToBits k x).length = k := by simp [natToBits]

theorem s6e_pushNum_rep {w : BitW} {pre bits} (h : w.Rep pre bits) (k x : Nat) :
    (w.pushNum k x).Rep pre (bits ++ natToBits k x) := by
  rw [s6e_pushNum_eq]; exact h.foldl_pushOr _

theorem s6e_natToBits_succ (k x : Nat) : natToBits (k + 1) x = natToBits k (x / 2) ++ [x % 2 == 1] := by
  unfold natToBits
  rw [List.range_succ, List.map_append]
  congr 1
  · apply List.map_congr_left
    intro j hj
    rw [List.mem_range] at hj
    have e : k + 1 - 1 - j = (k - 1 - j) + 1 := by omega
    rw [e, Nat.pow_succ, Nat.mul_comm, Nat.div_div_eq_div_mul]
  · simp

theorem s6e_bitsToNat_snoc (l : List Bool) (b : Bool) : bitsToNat (l ++ [b]) = 2 * bitsToNat l + b.toNat := by
  simp [bitsToNat, List.foldl_append]

theorem s6e_bitsToNat_natToBits (k : Nat) : ∀ x, x < 2 ^ k → bitsToNat (natToBits k x) = x := by
  induction k with
  | zero => intro x hx; simp at hx; subst hx; rfl
  | succ k ih =>
    intro x hx
    rw [s6e_natToBits_succ, s6e_bitsToNat_snoc, ih (x / 2) (by rw [Nat.pow_succ] at hx; omega)]
    rcases Nat.mod_two_eq_zero_or_one x with h | h <;> simp [h] <;> omega

theorem s6e_bitsToNat_ones (k : Nat) : bitsToNat (List.replicate k true) = 2 ^ k - 1 := by
  induction k with
  | zero => rfl
  | succ k ih =>
    rw [List.replicate_succ', s6e_bitsToNat_snoc, ih, Nat.pow_succ]
    have := Nat.two_pow_pos k
    simp; omega

/-- one group of the reader -/
theorem s6e_read_group (n k g v : Nat) (b : Bool) (xs rest : List Bool) (hx : xs.length = k) :
    s6Read n k (g + 1) v (b :: (xs ++ rest)) =
      if (if b then v + 1 else v) ≥ n then []
      else if bitsToNat xs > (if b then v + 1 else v) then s6Read n k g (bitsToNat xs) rest
      else (bitsToNat xs, (if b then v + 1 else v)) :: s6Read n k g (if b then v + 1 else v) rest := by
  rw [s6Read]
  simp only [List.headD_cons, List.drop_succ_cons, List.drop_zero, List.take_left' hx, List.drop_left' hx]
  rfl

/-! ### 2. the abstract stream -/

/-- the bits the encoder emits for the edge list `es` (pairs `(u, i)`, `u < i`) when its pointer is `v` -/
def s6e_stream (k : Nat) : Nat → List (Nat × Nat) → List Bool
  | _, [] => []
  | v, p :: es =>
    if p.2 = v then false :: (natToBits k p.1 ++ s6e_stream k v es)
    else if p.2 = v + 1 then true :: (natToBits k p.1 ++ s6e_stream k (v + 1) es)
    else true :: (natToBits k p.2 ++ false :: (natToBits k p.1 ++ s6e_stream k p.2 es))

/-- number of `(b, x)` groups of the stream -/
def s6e_groups : Nat → List (Nat × Nat) → Nat
  | _, [] => 0
  | v, p :: es => if p.2 = v ∨ p.2 = v + 1 then 1 + s6e_groups p.2 es else 2 + s6e_groups p.2 es

/-- the pointer after the edge list -/
def s6e_ptr : Nat → List (Nat × Nat) → Nat
  | v, [] => v
  | _, p :: es => s6e_ptr p.2 es

/-- edge list acceptable from pointer `v`: `u < i < n`, upper endpoints non-decreasing from `v` -/
def s6e_ok (n : Nat) : Nat → List (Nat × Nat) → Prop
  | _, [] => True
  | v, p :: es => p.1 < p.2 ∧ p.2 < n ∧ v ≤ p.2 ∧ s6e_ok n p.2 es

theorem s6e_stream_length (k : Nat) (es : List (Nat × Nat)) :
    ∀ v, (s6e_stream k v es).length = s6e_groups v es * (k + 1) := by
  induction es with
  | nil => intro v; simp [s6e_stream, s6e_groups]
  | cons p es ih =>
    intro v
    unfold s6e_stream s6e_groups
    by_cases h1 : p.2 = v
    · rw [if_pos h1, if_pos (Or.inl h1)]
      simp only [List.length_cons, List.length_append, s6e_natToBits_length]
      rw [← h1, ih]; ring
    · by_cases h2 : p.2 = v + 1
      · rw [if_neg h1, if_pos h2, if_pos (Or.inr h2)]
        simp only [List.length_cons, List.length_append, s6e_natToBits_length]
        rw [← h2, ih]; ring
      · rw [if_neg h1, if_neg h2, if_neg (by simp [h1, h2])]
        simp only [List.length_cons, List.length_append, s6e_natToBits_length, ih]
        ring

theorem s6e_ptr_append (l1 l2 : List (Nat × Nat)) : ∀ v, s6e_ptr v (l1 ++ l2) = s6e_ptr (s6e_ptr v l1) l2 := by
  induction l1 with
  | nil => intro v; rfl
  | cons p l1 ih => intro v; simp [s6e_ptr, ih]

theorem s6e_ok_append (n : Nat) (l1 l2 : List (Nat × Nat)) :
    ∀ v, s6e_ok n v (l1 ++ l2) ↔ s6e_ok n v l1 ∧ s6e_ok n (s6e_ptr v l1) l2 := by
  induction l1 with
  | nil => intro v; simp [s6e_ok, s6e_ptr]
  | cons p l1 ih => intro v; simp [s6e_ok, s6e_ptr, ih, and_assoc]

theorem s6e_ptr_ge (n : Nat) (es : List (Nat × Nat)) :
    ∀ v, s6e_ok n v es → v ≤ s6e_ptr v es ∧ (es ≠ [] → 1 ≤ s6e_ptr v es) := by
  induction es with
  | nil => intro v _; simp [s6e_ptr]
  | cons p es ih =>
    intro v h
    obtain ⟨h1, h2, h3, h4⟩ := h
    have := (ih p.2 h4).1
    simp only [s6e_ptr]
    exact ⟨by omega, fun _ => by omega⟩

/-- one edge of the encoder -/
def s6e_step (k : Nat) (st : BitW × Nat) (p : Nat × Nat) : BitW × Nat := s6EdgeStep k p.2 st p.1

theorem s6e_edges_rep (k : Nat) (pre : List Nat) (es : List (Nat × Nat)) :
    ∀ (w : BitW) (v : Nat) (bits : List Bool), w.Rep pre bits →
      ((es.foldl (s6e_step k) (w, v)).1).Rep pre (bits ++ s6e_stream k v es) ∧
      (es.foldl (s6e_step k) (w, v)).2 = s6e_ptr v es := by
  induction es with
  | nil => intro w v bits h; simpa [s6e_stream, s6e_ptr] using h
  | cons p es ih =>
    intro w v bits h
    rw [List.foldl_cons]
    unfold s6e_stream s6e_ptr
    by_cases h1 : p.2 = v
    · have e : s6e_step k (w, v) p = ((w.pushOr false).pushNum k p.1, v) := by
        simp [s6e_step, s6EdgeStep, h1]
      have := ih _ v _ (s6e_pushNum_rep (h.pushOr false) k p.1)
      rw [e, if_pos h1]
      simpa [h1] using this
    · by_cases h2 : p.2 = v + 1
      · have e : s6e_step k (w, v) p = ((w.pushOr true).pushNum k p.1, v + 1) := by
          simp [s6e_step, s6EdgeStep, h2]
        have := ih _ (v + 1) _ (s6e_pushNum_rep (h.pushOr true) k p.1)
        rw [e, if_neg h1, if_pos h2]
        simpa [h2] using this
      · have e : s6e_step k (w, v) p = ((((w.pushOr true).pushNum k p.2).pushOr false).pushNum k p.1, p.2) := by
          simp [s6e_step, s6EdgeStep, h1, h2]
        have := ih _ p.2 _ (s6e_pushNum_rep ((s6e_pushNum_rep (h.pushOr true) k p.2).pushOr false) k p.1)
        rw [e, if_neg h1, if_neg h2]
        simpa using this

/-! ### 3. the reader on the stream -/

theorem s6e_read_stream (n k : Nat) (hk : n ≤ 2 ^ k) (es : List (Nat × Nat)) :
    ∀ (v r : Nat) (tail : List Bool), s6e_ok n v es →
      s6Read n k (s6e_groups v es + r) v (s6e_stream k v es ++ tail) =
        es ++ s6Read n k r (s6e_ptr v es) tail := by
  induction es with
  | nil => intro v r tail _; simp [s6e_groups, s6e_stream, s6e_ptr]
  | cons p es ih =>
    intro v r tail h
    obtain ⟨h1, h2, h3, h4⟩ := h
    obtain ⟨u, i⟩ := p
    simp only at h1 h2 h3 h4
    have hu : bitsToNat (natToBits k u) = u := s6e_bitsToNat_natToBits k u (by omega)
    have hi : bitsToNat (natToBits k i) = i := s6e_bitsToNat_natToBits k i (by omega)
    unfold s6e_stream s6e_groups s6e_ptr
    simp only
    by_cases c1 : i = v
    · rw [if_pos c1, if_pos (Or.inl c1)]
      have e : 1 + s6e_groups i es + r = (s6e_groups i es + r) + 1 := by omega
      rw [e, List.cons_append, List.append_assoc, s6e_read_group _ _ _ _ _ _ _ (s6e_natToBits_length k u), hu]
      simp only [Bool.false_eq_true, if_false]
      rw [if_neg (by omega), if_neg (by omega), ← c1, ih i r tail h4]
      rfl
    · by_cases c2 : i = v + 1
      · rw [if_neg c1, if_pos c2, if_pos (Or.inr c2)]
        have e : 1 + s6e_groups i es + r = (s6e_groups i es + r) + 1 := by omega
        rw [e, List.cons_append, List.append_assoc, s6e_read_group _ _ _ _ _ _ _ (s6e_natToBits_length k u), hu]
        simp only [if_true]
        rw [if_neg (by omega), if_neg (by omega), ← c2, ih i r tail h4]
        rfl
      · rw [if_neg c1, if_neg c2, if_neg (by simp [c1, c2])]
        have e : 2 + s6e_groups i es + r = ((s6e_groups i es + r) + 1) + 1 := by omega
        rw [e, List.cons_append, List.append_assoc, s6e_read_group _ _ _ _ _ _ _ (s6e_natToBits_length k i), hi]
        simp only [if_true]
        rw [if_neg (by omega), if_pos (by omega), List.cons_append, List.append_assoc,
          s6e_read_group _ _ _ _ _ _ _ (s6e_natToBits_length k u), hu]
        simp only [Bool.false_eq_true, if_false]
        rw [if_neg (by omega), if_neg (by omega), ih i r tail h4]
        rfl

/-! ### 4. the reader on the padding -/

theorem s6e_read_stop (n k r v : Nat) (bits : List Bool) (hb : r = 0 ∨ bits.headD false = true) (hv : n ≤ v + 1) :
    s6Read n k r v bits = [] := by
  cases r with
  | zero => rfl
  | succ r =>
    have hb : bits.headD false = true := by simpa using hb
    rw [s6Read]
    simp only [hb, if_true]
    rw [if_pos hv]

theorem s6e_ones_split (p k : Nat) (h : k + 1 ≤ p) :
    List.replicate p true = true :: (List.replicate k true ++ List.replicate (p - k - 1) true) := by
  have e : p = 1 + (k + (p - k - 1)) := by omega
  conv_lhs => rw [e, ← List.replicate_append_replicate, ← List.replicate_append_replicate]
  rfl

theorem s6e_headD_ones (p : Nat) (h : 0 < p) : (List.replicate p true).headD false = true := by
  cases p with
  | zero => omega
  | succ p => rfl

/-- an all-ones padding yields no edge, unless the pointer is `n - 2` and `n` is a power of two -/
theorem s6e_read_ones (n k r v p : Nat) (hk : n ≤ 2 ^ k) (hp : r * (k + 1) ≤ p) (hv : ¬(v + 2 = n ∧ n = 2 ^ k)) :
    s6Read n k r v (List.replicate p true) = [] := by
  cases r with
  | zero => rfl
  | succ r =>
    rw [Nat.succ_mul] at hp
    rw [s6e_ones_split p k (by omega), s6e_read_group _ _ _ _ _ _ _ (List.length_replicate ..), s6e_bitsToNat_ones]
    simp only [if_true]
    have h2 := Nat.two_pow_pos k
    by_cases c1 : v + 1 ≥ n
    · rw [if_pos c1]
    · rw [if_neg c1, if_pos (by omega)]
      apply s6e_read_stop _ _ _ _ _ _ (by omega)
      cases r with
      | zero => left; rfl
      | succ r =>
        right
        rw [Nat.succ_mul] at hp
        exact s6e_headD_ones _ (by omega)

/-- the padding `0 1 1 ..` when the pointer is `n - 2`, `n` a power of two -/
theorem s6e_read_zero_ones (n k r v p : Nat) (hk : n = 2 ^ k) (hv : v + 2 = n) (hp : r * (k + 1) ≤ p) :
    s6Read n k r v (false :: List.replicate (p - 1) true) = [] := by
  cases r with
  | zero => rfl
  | succ r =>
    rw [Nat.succ_mul] at hp
    have e : List.replicate (p - 1) true = List.replicate k true ++ List.replicate (p - 1 - k) true := by
      rw [List.replicate_append_replicate]; congr 1; omega
    rw [e, s6e_read_group _ _ _ _ _ _ _ (List.length_replicate ..), s6e_bitsToNat_ones]
    simp only [Bool.false_eq_true, if_false]
    rw [if_neg (by omega), if_pos (by omega)]
    apply s6e_read_stop _ _ _ _ _ _ (by omega)
    cases r with
    | zero => left; rfl
    | succ r =>
      right
      rw [Nat.succ_mul] at hp
      exact s6e_headD_ones _ (by omega)

/-! ### 5. the main double loop runs over `G.edges` -/

theorem s6e_foldl_congr {α β : Type} (f g : β → α → β) (l : List α) (h : ∀ b, ∀ a ∈ l, f b a = g b a) :
    ∀ b, l.foldl f b = l.foldl g b := by
  induction l with
  | nil => intro b; rfl
  | cons a l ih =>
    intro b
    rw [List.foldl_cons, List.foldl_cons, h b a (by simp)]
    exact ih (fun b a ha => h b a (by simp [ha])) _

/-- on an ascending list the `break` of the inner loop is a filter -/
theorem s6e_inner_sorted (k i : Nat) (l : List Nat) (hl : l.Pairwise (· < ·)) :
    ∀ st, s6Inner k i l st = (l.filter (· ≤ i)).foldl (s6EdgeStep k i) st := by
  induction l with
  | nil => intro st; rfl
  | cons u us ih =>
    intro st
    rw [List.pairwise_cons] at hl
    unfold s6Inner
    by_cases c : u > i
    · rw [if_pos c]
      have : (u :: us).filter (· ≤ i) = [] := by
        rw [List.filter_eq_nil_iff]
        intro a ha
        rcases List.mem_cons.1 ha with e | e
        · subst e; simp; omega
        · have := hl.1 a e; simp; omega
      rw [this]; rfl
    · rw [if_neg c, List.filter_cons_of_pos (by simp; omega), List.foldl_cons]
      exact ih hl.2 _

theorem s6e_filter_range (p : Nat → Bool) (i n : Nat) (hin : i ≤ n) (hp : ∀ u, p u = true → u < i) :
    (List.range n).filter p = (List.range i).filter p := by
  obtain ⟨d, rfl⟩ := Nat.exists_eq_add_of_le hin
  rw [List.range_add, List.filter_append]
  have : (List.map (fun x => i + x) (List.range d)).filter p = [] := by
    rw [List.filter_eq_nil_iff]
    intro a ha hpa
    obtain ⟨x, _, rfl⟩ := List.mem_map.1 ha
    have := hp _ hpa; omega
  rw [this, List.append_nil]

/-- the row of vertex `i` in `G.edges` -/
def s6e_row (g : G) (i : Nat) : List (Nat × Nat) := ((List.range i).filter fun u => g.adj u i).map fun u => (u, i)

theorem s6e_inner_row (g : GI) (hs : g.Sound) (k i : Nat) (hi : i < g.n) (st : BitW × Nat) :
    s6Inner k i (g.nbrs i) st = (s6e_row g.toG i).foldl (s6e_step k) st := by
  rw [hs.nbrs_eq i hi]
  unfold G.nbrs s6e_row
  rw [s6e_inner_sorted k i _ (List.Pairwise.filter _ List.pairwise_lt_range)]
  rw [List.filter_filter, List.foldl_map]
  have e : (List.range g.toG.n).filter (fun a => decide (a ≤ i) && g.toG.adj i a) =
      (List.range i).filter (fun u => g.toG.adj u i) := by
    rw [s6e_filter_range _ i g.toG.n (Nat.le_of_lt hi)]
    · apply List.filter_congr
      intro u hu
      rw [List.mem_range] at hu
      rw [hs.wf.symm u i]; simp; omega
    · intro u hu
      simp only [Bool.and_eq_true, decide_eq_true_eq] at hu
      rcases Nat.lt_or_ge u i with c | c
      · exact c
      · have : u = i := by omega
        subst this
        rw [hs.wf.irrefl] at hu; simp at hu
  rw [e]
  rfl

theorem s6e_edges_eq (g : G) : g.edges = (List.range g.n).flatMap (s6e_row g) := rfl

theorem s6e_main_loop (g : GI) (hs : g.Sound) (k : Nat) (hn : 1 ≤ g.n) (st : BitW × Nat) :
    (List.range' 1 (g.n - 1)).foldl (fun st i => s6Inner k i (g.nbrs i) st) st =
      g.toG.edges.foldl (s6e_step k) st := by
  rw [s6e_edges_eq, List.foldl_flatMap]
  have e : List.range g.toG.n = 0 :: List.range' 1 (g.n - 1) := by
    have : g.toG.n = (g.n - 1) + 1 := by show g.n = _; omega
    rw [this, List.range_eq_range', List.range'_succ]
  rw [e, List.foldl_cons]
  have : (s6e_row g.toG 0).foldl (s6e_step k) st = st := by simp [s6e_row]
  rw [this]
  apply s6e_foldl_congr
  intro b a ha
  rw [List.mem_range'_1] at ha
  exact s6e_inner_row g hs k a (by omega) b

/-! ### 6. `G.edges` is an acceptable edge list; the final pointer -/

theorem s6e_ok_map (n i : Nat) (hi : i < n) (l : List Nat) (hl : ∀ u ∈ l, u < i) :
    ∀ v, v ≤ i → s6e_ok n v (l.map fun u => (u, i)) := by
  induction l with
  | nil => intro v _; trivial
  | cons u us ih =>
    intro v hv
    exact ⟨hl u (by simp), hi, hv, ih (fun a ha => hl a (by simp [ha])) i (Nat.le_refl _)⟩

theorem s6e_ptr_map (i : Nat) (l : List Nat) (v : Nat) :
    s6e_ptr v (l.map fun u => (u, i)) = if l = [] then v else i := by
  induction l generalizing v with
  | nil => rfl
  | cons u us ih =>
    simp only [List.map_cons, s6e_ptr, ih]
    split <;> simp

theorem s6e_ok_row (g : G) (n i v : Nat) (hi : i < n) (hv : v ≤ i) : s6e_ok n v (s6e_row g i) := by
  apply s6e_ok_map n i hi _ _ v hv
  intro u hu
  exact List.mem_range.1 (List.mem_filter.1 hu).1

/-- the edges with upper endpoint below `m` -/
def s6e_E (g : G) (m : Nat) : List (Nat × Nat) := (List.range m).flatMap (s6e_row g)

theorem s6e_E_succ (g : G) (m : Nat) : s6e_E g (m + 1) = s6e_E g m ++ s6e_row g m := by
  simp [s6e_E, List.range_succ, List.flatMap_append]

/-- the pointer after the edges below `m`: the largest vertex `< m` with a smaller neighbour (0 if none) -/
theorem s6e_E_char (g : G) (n : Nat) : ∀ m, m ≤ n →
    s6e_ok n 0 (s6e_E g m) ∧
    (s6e_ptr 0 (s6e_E g m) = 0 ∨ (s6e_ptr 0 (s6e_E g m) < m ∧ ∃ u, u < s6e_ptr 0 (s6e_E g m) ∧
      g.adj u (s6e_ptr 0 (s6e_E g m)) = true)) ∧
    ∀ i, s6e_ptr 0 (s6e_E g m) < i → i < m → ∀ u, u < i → g.adj u i = false := by
  intro m
  induction m with
  | zero => intro _; simp [s6e_E, s6e_ok, s6e_ptr]
  | succ m ih =>
    intro hm
    obtain ⟨h1, h2, h3⟩ := ih (by omega)
    rw [s6e_E_succ, s6e_ok_append, s6e_ptr_append]
    generalize s6e_ptr 0 (s6e_E g m) = t at h1 h2 h3 ⊢
    have ht : t ≤ m := by rcases h2 with h | h <;> omega
    refine ⟨⟨h1, s6e_ok_row g n m t (by omega) ht⟩, ?_⟩
    unfold s6e_row
    rw [s6e_ptr_map]
    by_cases c : (List.range m).filter (fun u => g.adj u m) = []
    · rw [if_pos c]
      refine ⟨?_, ?_⟩
      · rcases h2 with h | ⟨h, h'⟩
        · left; exact h
        · right; exact ⟨by omega, h'⟩
      · intro i hi1 hi2 u hu
        rcases Nat.lt_or_ge i m with c2 | c2
        · exact h3 i hi1 c2 u hu
        · have : i = m := by omega
          subst this
          rw [List.filter_eq_nil_iff] at c
          have := c u (List.mem_range.2 hu)
          simpa using this
    · rw [if_neg c]
      refine ⟨?_, ?_⟩
      · right
        obtain ⟨u, hu⟩ := List.exists_mem_of_ne_nil _ c
        rw [List.mem_filter, List.mem_range] at hu
        exact ⟨by omega, u, hu.1, hu.2⟩
      · intro i hi1 hi2; omega

theorem s6e_edges_E (g : G) : g.edges = s6e_E g g.n := rfl

theorem s6e_edges_ok (g : G) : s6e_ok g.n 0 g.edges := (s6e_E_char g g.n g.n (Nat.le_refl _)).1

theorem s6e_deg_pos (g : G) (v : Nat) : g.deg v > 0 ↔ ∃ u, u < g.n ∧ g.adj v u = true := by
  unfold G.deg G.nbrs
  rw [gt_iff_lt, List.length_pos_iff_exists_mem]
  simp [List.mem_filter]

theorem s6e_deg_zero (g : G) (v : Nat) : g.deg v = 0 ↔ ∀ u, u < g.n → g.adj v u = false := by
  unfold G.deg G.nbrs
  rw [List.length_eq_zero_iff, List.filter_eq_nil_iff]
  simp

/-- the encoder's degree test implies that the pointer ends at `n - 2` (and it cannot hold for `n = 2`) -/
theorem s6e_ptr_of_deg (g : G) (h : g.WF) (hn : 2 ≤ g.n) (h1 : g.deg (g.n - 2) > 0) (h2 : g.deg (g.n - 1) = 0) :
    s6e_ptr 0 g.edges = g.n - 2 ∧ 3 ≤ g.n := by
  obtain ⟨_, c2, c3⟩ := s6e_E_char g g.n g.n (Nat.le_refl _)
  rw [← s6e_edges_E] at c2 c3
  generalize s6e_ptr 0 g.edges = t at c2 c3 ⊢
  obtain ⟨u, hu, hadj⟩ := (s6e_deg_pos g _).1 h1
  rw [s6e_deg_zero] at h2
  have hu1 : u ≠ g.n - 2 := by intro e; subst e; rw [h.irrefl] at hadj; cases hadj
  have hu2 : u ≠ g.n - 1 := by
    intro e; subst e; rw [h.symm, h2 _ (by omega)] at hadj; cases hadj
  have hu3 : u < g.n - 2 := by omega
  rw [h.symm] at hadj
  refine ⟨?_, by omega⟩
  rcases Nat.lt_trichotomy t (g.n - 2) with c | c | c
  · have := c3 (g.n - 2) c (by omega) u hu3
    rw [this] at hadj; cases hadj
  · exact c
  · rcases c2 with c2 | ⟨c2, w, hw, hw'⟩
    · omega
    · have : t = g.n - 1 := by omega
      subst this
      rw [h.symm, h2 w (by omega)] at hw'; cases hw'

/-- conversely -/
theorem s6e_deg_of_ptr (g : G) (h : g.WF) (hn : 3 ≤ g.n) (hp : s6e_ptr 0 g.edges = g.n - 2) :
    g.deg (g.n - 2) > 0 ∧ g.deg (g.n - 1) = 0 := by
  obtain ⟨_, c2, c3⟩ := s6e_E_char g g.n g.n (Nat.le_refl _)
  rw [← s6e_edges_E, hp] at c2 c3
  constructor
  · rw [s6e_deg_pos]
    rcases c2 with c2 | ⟨_, w, hw, hw'⟩
    · omega
    · exact ⟨w, by omega, by rw [h.symm]; exact hw'⟩
  · rw [s6e_deg_zero]
    intro u hu
    rcases Nat.lt_or_ge u (g.n - 1) with c | c
    · rw [h.symm]; exact c3 (g.n - 1) (by omega) (by omega) u c
    · have : u = g.n - 1 := by omega
      subst this; exact h.irrefl _

/-! ### 7. the final byte -/

theorem s6e_padOnes_push (w : BitW) (h : w.idx < 6) :
    (List.replicate (6 - w.idx) true).foldl (fun w x => w.pushAdd x) w =
      ⟨w.s.push (badd (s6PadOnes w.b w.idx) 63), 0, 0⟩ := by
  obtain ⟨s, b, idx⟩ := w
  simp only at h
  interval_cases idx <;> simp [BitW.pushAdd, s6PadOnes, List.range', List.replicate]

theorem s6e_fin {w : BitW} {pre bits} (h : w.Rep pre bits) :
    (w.s.push (badd (s6PadOnes w.b w.idx) 63)).toList = pre ++ R (bits ++ List.replicate (6 - w.idx) true) := by
  have h1 := h.foldl_pushAdd (List.replicate (6 - w.idx) true)
  rw [s6e_padOnes_push w h.idx_lt] at h1
  have := h1.flush
  simpa using this

/-! ### 8. the format's reader on `':' N(n) R(bits)` -/

theorem s6e_inRange (l : List Nat) (h : ∀ c ∈ l, 63 ≤ c ∧ c ≤ 126) : Formats.inRange l = true := by
  unfold Formats.inRange
  rw [List.all_eq_true]
  intro c hc
  have := h c hc
  simp; omega

theorem s6e_decode_bits (n : Nat) (hn : n ≤ 68719476735) (bits : List Bool) (hb : bits.length % 6 = 0) :
    s6DecodeSpec (58 :: (Nn n ++ R bits)) =
      some (n, s6Read n (Formats.bitLen (n - 1)) (bits.length / (Formats.bitLen (n - 1) + 1)) 0 bits) := by
  have hr : Formats.inRange (Nn n ++ R bits) = true := by
    apply s6e_inRange
    intro c hc
    rcases List.mem_append.1 hc with h | h
    · exact Nn_range n hn c h
    · exact R_range bits c h
  rw [s6DecodeSpec_cons, hr, readN_Nn n hn]
  have : unR (R bits) = bits := by rw [unR_R, hb]; simp
  simp only [this]
  rfl

theorem s6e_decode_stream (n : Nat) (hn : n ≤ 68719476735) (hk : n ≤ 2 ^ Formats.bitLen (n - 1))
    (es : List (Nat × Nat)) (hok : s6e_ok n 0 es) (pad : List Bool)
    (hb : (s6e_stream (Formats.bitLen (n - 1)) 0 es ++ pad).length % 6 = 0)
    (hpad : s6Read n (Formats.bitLen (n - 1)) (pad.length / (Formats.bitLen (n - 1) + 1)) (s6e_ptr 0 es) pad = []) :
    s6DecodeSpec (58 :: (Nn n ++ R (s6e_stream (Formats.bitLen (n - 1)) 0 es ++ pad))) = some (n, es) := by
  rw [s6e_decode_bits n hn _ hb]
  have e : (s6e_stream (Formats.bitLen (n - 1)) 0 es ++ pad).length / (Formats.bitLen (n - 1) + 1) =
      s6e_groups 0 es + pad.length / (Formats.bitLen (n - 1) + 1) := by
    rw [List.length_append, s6e_stream_length, Nat.add_comm, Nat.add_mul_div_right _ _ (by omega), Nat.add_comm]
  rw [e, s6e_read_stream n _ hk es 0 _ pad hok, hpad, List.append_nil]

theorem s6e_le_pow (n : Nat) (hn : 2 ≤ n) : n ≤ 2 ^ Formats.bitLen (n - 1) := by
  unfold Formats.bitLen
  rw [if_neg (by omega)]
  have := @Nat.lt_log2_self (n - 1)
  omega

/-! ### 9. the encoder's output -/

theorem s6e_ite_form {α : Type} (P1 P2 P3 P4 : Prop) [Decidable P1] [Decidable P2] [Decidable P3] [Decidable P4]
    (a b : α) :
    (if P1 ∧ P2 then if P3 then if P4 then Outcome.ok a else .ok b else .ok b else .ok b) =
      .ok (if P1 ∧ P2 ∧ P3 ∧ P4 then a else b) := by
  by_cases c1 : P1 <;> by_cases c2 : P2 <;> by_cases c3 : P3 <;> by_cases c4 : P4 <;> simp [c1, c2, c3, c4]

theorem s6e_degrees_get (g : GI) (v : Nat) (hv : v < g.n) : g.degrees[v]? = some (g.deg v) := by
  simp [GI.degrees, List.getElem?_map, List.getElem?_range hv]

/-- shape of the output for `n ≥ 2`: the writer state after the main loop, then the three ways to finish -/
theorem s6e_encode_form (g : GI) (hs : g.Sound) (h2 : 2 ≤ g.n) (hn : g.n ≤ 68719476735) :
    ∃ w : BitW, w.Rep (58 :: Nn g.n) (s6e_stream (Formats.bitLen (g.n - 1)) 0 g.toG.edges) ∧
      s6Encode g = .ok
        (if w.idx = 0 then w.s
         else if (((g.n = 2 ∨ g.n = 4) ∨ g.n = 8) ∨ g.n = 16) ∧ 6 - w.idx ≥ Formats.bitLen (g.n - 1) + 1 ∧
              g.deg (g.n - 2) > 0 ∧ g.deg (g.n - 1) = 0
           then w.s.push (badd (s6PadOnes w.b (w.idx + 1)) 63)
           else w.s.push (badd (s6PadOnes w.b w.idx) 63)) := by
  have hinit : (⟨#[58] ++ (Nn g.n).toArray, 0, 0⟩ : BitW).Rep (58 :: Nn g.n) [] := by
    have := BitW.Rep.init (#[58] ++ (Nn g.n).toArray)
    simpa using this
  obtain ⟨hrep, _⟩ := s6e_edges_rep (Formats.bitLen (g.n - 1)) _ g.toG.edges _ 0 _ hinit
  rw [List.nil_append] at hrep
  refine ⟨_, hrep, ?_⟩
  unfold s6Encode
  simp only [if_neg (by omega : ¬ g.n = 0), if_neg (by omega : ¬ g.n ≤ 1), encHeaderS6_eq g.n hn,
    s6e_main_loop g hs _ (by omega : 1 ≤ g.n), bitLen_eq,
    s6e_degrees_get g (g.n - 2) (by omega), s6e_degrees_get g (g.n - 1) (by omega)]
  generalize (List.foldl (s6e_step (Formats.bitLen (g.n - 1))) (⟨#[58] ++ (Nn g.n).toArray, 0, 0⟩, 0) g.toG.edges).1 = w
  simp only [Bool.and_eq_true, Bool.or_eq_true, decide_eq_true_eq]
  by_cases c0 : w.idx = 0
  · simp only [c0, if_true]
  · simp only [c0, if_false]
    exact s6e_ite_form _ _ _ _ _ _

theorem s6e_pow_cases (n : Nat) (h : ((n = 2 ∨ n = 4) ∨ n = 8) ∨ n = 16) : n = 2 ^ Formats.bitLen (n - 1) := by
  rcases h with ((h | h) | h) | h <;> subst h <;> decide

theorem s6e_stream_nil_iff (k v : Nat) (es : List (Nat × Nat)) : s6e_stream k v es = [] ↔ es = [] := by
  cases es with
  | nil => simp [s6e_stream]
  | cons p es => unfold s6e_stream; split <;> [simp; (split <;> simp)]

theorem s6e_padBits_eq (g : G) (len : Nat) :
    s6PadBits g len =
      if (((g.n = 2 ∨ g.n = 4) ∨ g.n = 8) ∨ g.n = 16) ∧ (6 - len % 6) % 6 ≥ Formats.bitLen (g.n - 1) + 1 ∧
          g.deg (g.n - 2) > 0 ∧ g.deg (g.n - 1) = 0
      then false :: List.replicate ((6 - len % 6) % 6 - 1) true
      else List.replicate ((6 - len % 6) % 6) true := by
  unfold s6PadBits
  simp only [Bool.and_eq_true, Bool.or_eq_true, decide_eq_true_eq, beq_iff_eq]
  by_cases c1 : (((g.n = 2 ∨ g.n = 4) ∨ g.n = 8) ∨ g.n = 16) <;>
  by_cases c2 : (6 - len % 6) % 6 ≥ Formats.bitLen (g.n - 1) + 1 <;>
  by_cases c3 : g.deg (g.n - 2) > 0 <;>
  by_cases c4 : g.deg (g.n - 1) = 0 <;> simp only [c1, c2, c3, c4, and_self, and_true, and_false, if_true, if_false]


/-- the output is `':' N(n) R(stream ++ padding)` with the padding the format prescribes, and what the format's
reader makes of it -/
theorem s6e_main (g : GI) (hs : g.Sound) (hn : g.n ≤ 68719476735) :
    ∃ a pad, s6Encode g = .ok a ∧
      a.toList = 58 :: (Nn g.n ++ R (s6e_stream (Formats.bitLen (g.n - 1)) 0 g.toG.edges ++ pad)) ∧
      pad = s6PadBits g.toG (s6e_stream (Formats.bitLen (g.n - 1)) 0 g.toG.edges).length ∧
      s6DecodeSpec (58 :: (Nn g.n ++ R (s6e_stream (Formats.bitLen (g.n - 1)) 0 g.toG.edges ++ pad))) =
        some (g.n, g.toG.edges) := by
  have hok : s6e_ok g.n 0 g.toG.edges := s6e_edges_ok g.toG
  by_cases h1 : g.n ≤ 1
  · have he : g.toG.edges = [] := by
      cases he : g.toG.edges with
      | nil => rfl
      | cons p es => rw [he] at hok; obtain ⟨a, b, _⟩ := hok; omega
    refine ⟨#[58, g.n + 63], [], ?_, ?_, ?_, ?_⟩
    · unfold s6Encode; simp only [h1, if_true]
    · simp [he, s6e_stream, Nn, R, (by omega : g.n ≤ 62)]
    · rw [s6e_padBits_eq, he]; simp [s6e_stream]
    · rw [he]
      simp only [s6e_stream, List.append_nil]
      rw [s6e_decode_bits g.n hn [] rfl]
      simp [s6Read]
  · have h2 : 2 ≤ g.n := by omega
    obtain ⟨w, hrep, henc⟩ := s6e_encode_form g hs h2 hn
    have hk := s6e_le_pow g.n h2
    have hidx := hrep.idx_eq
    have hlt := hrep.idx_lt
    rw [s6e_padBits_eq]
    simp only [show g.toG.n = g.n from rfl]
    generalize hkk : Formats.bitLen (g.n - 1) = k at *
    by_cases c0 : w.idx = 0
    · rw [if_pos c0] at henc
      refine ⟨_, [], henc, ?_, ?_, ?_⟩
      · have := hrep.flush
        simpa [c0] using this
      · rw [← hidx, c0]; simp
      · have := s6e_decode_stream g.n hn (by rw [hkk]; exact hk) g.toG.edges hok []
        rw [hkk] at this
        apply this
        · rw [List.append_nil]; omega
        · simp [s6Read]
    · rw [if_neg c0] at henc
      have hpk : (6 - w.idx) / (k + 1) * (k + 1) ≤ 6 - w.idx := Nat.div_mul_le_self _ _
      have hp6 : (6 - w.idx) % 6 = 6 - w.idx := by omega
      rw [← hidx, hp6]
      split at henc
      · -- the 0-bit is inserted
        rename_i hz
        obtain ⟨z1, z2, z3, z4⟩ := hz
        have hpow := s6e_pow_cases g.n z1
        rw [hkk] at hpow
        rw [hs.deg_eq _ (by omega)] at z3 z4
        obtain ⟨hptr, h3⟩ := s6e_ptr_of_deg g.toG hs.wf h2 z3 z4
        have hk1 : 1 ≤ k := by
          rcases Nat.eq_zero_or_pos k with e | e
          · rw [e] at hpow; simp at hpow; omega
          · exact e
        have e1 : w.pushOr false = ⟨w.s, w.b, w.idx + 1⟩ := by
          unfold BitW.pushOr
          simp only [Bool.false_eq_true, if_false]
          rw [if_neg (by omega)]
        have hrep1 := hrep.pushOr false
        rw [e1] at hrep1
        have hfin := s6e_fin hrep1
        simp only at hfin
        have epad : (s6e_stream k 0 g.toG.edges ++ [false]) ++ List.replicate (6 - (w.idx + 1)) true =
            s6e_stream k 0 g.toG.edges ++ (false :: List.replicate (6 - w.idx - 1) true) := by
          rw [List.append_assoc]; congr 2
        rw [epad] at hfin
        refine ⟨_, _, henc, hfin, ?_, ?_⟩
        · rw [if_pos ⟨z1, z2, z3, z4⟩]
        have := s6e_decode_stream g.n hn (by rw [hkk]; exact hk) g.toG.edges hok
          (false :: List.replicate (6 - w.idx - 1) true)
        rw [hkk] at this
        apply this
        · simp only [List.length_append, List.length_cons, List.length_replicate]; omega
        · have el : (false :: List.replicate (6 - w.idx - 1) true).length = 6 - w.idx := by
            simp only [List.length_cons, List.length_replicate]; omega
          rw [el, hptr]
          exact s6e_read_zero_ones g.n k _ (g.n - 2) (6 - w.idx) hpow (by show g.n - 2 + 2 = g.n; omega) hpk
      · -- all-ones padding
        rename_i hz
        have hfin := s6e_fin hrep
        refine ⟨_, _, henc, hfin, ?_, ?_⟩
        · rw [if_neg]
          rw [← hs.deg_eq _ (by omega), ← hs.deg_eq _ (by omega)]
          exact hz
        have := s6e_decode_stream g.n hn (by rw [hkk]; exact hk) g.toG.edges hok
          (List.replicate (6 - w.idx) true)
        rw [hkk] at this
        apply this
        · simp only [List.length_append, List.length_replicate]; omega
        · rw [List.length_replicate]
          by_cases cp : 6 - w.idx < k + 1
          · rw [Nat.div_eq_of_lt cp]; rfl
          · apply s6e_read_ones g.n k _ _ _ hk hpk
            rintro ⟨hv, hpow⟩
            apply hz
            have hk1 : 1 ≤ k := by
              rcases Nat.eq_zero_or_pos k with e | e
              · rw [e] at hpow; simp at hpow; omega
              · exact e
            have hcases : ((g.n = 2 ∨ g.n = 4) ∨ g.n = 8) ∨ g.n = 16 := by
              have : k ≤ 4 := by omega
              interval_cases k <;> simp at hpow <;> omega
            refine ⟨hcases, by omega, ?_⟩
            rw [hs.deg_eq _ (by omega), hs.deg_eq _ (by omega)]
            by_cases c3 : g.n = 2
            · exfalso
              have hne : g.toG.edges ≠ [] := by
                intro e
                rw [e] at hidx
                simp [s6e_stream] at hidx
                exact c0 hidx
              have := (s6e_ptr_ge g.n g.toG.edges 0 hok).2 hne
              omega
            · exact s6e_deg_of_ptr g.toG hs.wf (by show 3 ≤ g.n; omega) (by show _ = g.n - 2; omega)

/-- conformance to the writer rules of formats.txt: the output is `':' N(n) R(x)`, `x` the `(b, x)` stream of the
edges in the order of `G.edges` followed by the padding `Formats.s6PadBits` -/
theorem s6_conforms (g : GI) (hs : g.Sound) (hn : g.n ≤ 68719476735) :
    ∃ a, s6Encode g = .ok a ∧
      a.toList = 58 :: (Nn g.n ++ R (s6e_stream (Formats.bitLen (g.n - 1)) 0 g.toG.edges ++
        s6PadBits g.toG (s6e_stream (Formats.bitLen (g.n - 1)) 0 g.toG.edges).length)) := by
  obtain ⟨a, pad, h1, h2, h3, _⟩ := s6e_main g hs hn
  exact ⟨a, h1, by rw [← h3]; exact h2⟩

/-- a conforming sparse6 reader applied to the model's output reads exactly the edges of g, in the order of `G.edges`
    (so: no loop, no repeated edge, nothing missing), on the right number of vertices; the bytes are ':' then 63..126 -/
theorem s6_spec_decodes (g : GI) (hs : g.Sound) (hn : g.n ≤ 68719476735) :
    ∃ a, s6Encode g = .ok a ∧ a[0]? = some 58 ∧ (∀ c ∈ a.toList.drop 1, 63 ≤ c ∧ c ≤ 126) ∧
      Formats.s6DecodeSpec a.toList = some (g.n, g.toG.edges) := by
  obtain ⟨a, pad, h1, h2, _, h3⟩ := s6e_main g hs hn
  refine ⟨a, h1, ?_, ?_, ?_⟩
  · rw [← Array.getElem?_toList, h2]; rfl
  · rw [h2]
    intro c hc
    simp only [List.drop_succ_cons, List.drop_zero] at hc
    rcases List.mem_append.1 hc with h | h
    · exact Nn_range g.n hn c h
    · exact R_range _ c h
  · rw [h2]; exact h3

end Codec
