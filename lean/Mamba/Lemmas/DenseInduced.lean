import Mamba.Lemmas.DenseRemove
/-!
# DenseGraph.InducedSubgraph refines `G.induced` (property C05)
-/
namespace GraphRep
open GraphSpec

theorem cnt_split_ge (p : Nat → Bool) (c : Nat) {k : Nat} (hk : c ≤ k) :
    cnt k p = cnt c p + cnt k (fun b => decide (c ≤ b) && p b) := by
  induction k, hk using Nat.le_induction with
  | base =>
    rw [cnt_congr (p := fun b => decide (c ≤ b) && p b) (q := fun _ => false)
      (fun b hb => by simp; omega), cnt_false, Nat.add_zero]
  | succ k hk ih =>
    rw [cnt_succ, cnt_succ, ih]
    have : decide (c ≤ k) = true := by simpa using hk
    simp [this]; omega

/-- degree = lower neighbours + upper neighbours -/
theorem cnt_split (p : Nat → Bool) {c k : Nat} (hk : c ≤ k) (hc : p c = false) :
    cnt k p = cnt c p + cnt k (fun b => decide (c < b) && p b) := by
  rw [cnt_split_ge p c hk]
  congr 1
  apply cnt_congr
  intro b _
  by_cases hb : b = c
  · subst hb; simp [hc]
  · have : decide (c ≤ b) = decide (c < b) := by
      apply decide_eq_decide.mpr; omega
    rw [this]

/-- adjacency of the induced subgraph (abbreviation) -/
def indAdj (g : Dense) (V : List Nat) (a b : Nat) : Bool := (g.abs.induced V).adj a b

theorem indAdj_eq (g : Dense) (V : List Nat) {i j : Nat} (hi : i < V.length) (hj : j < V.length) :
    indAdj g V i j = g.abs.adj (V.getD i 0) (V.getD j 0) := induced_adj g.abs V hi hj

/-- one pair of the double loop of `InducedSubgraph` -/
theorem Dense.isInner_step {g : Dense} (hs : g.edges.size = tri g.n) (V : List Nat) {i j : Nat}
    (hij : i < j) (hj : j < V.length) (s : Dense.IsState)
    (hsz : s.edges.size = tri V.length) (hds : s.deg.size = V.length) (hidx : s.index = tri j + i) :
    ∃ s', Dense.isInner g V.toArray j s i = .ok s' ∧ s'.index = s.index + 1 ∧
      s'.edges.size = tri V.length ∧ s'.deg.size = V.length ∧
      s'.m = s.m + ((indAdj g V i j).toNat : Int) ∧
      (∀ p, s'.edges[p]? = if p = s.index ∧ indAdj g V i j = true then some 1 else s.edges[p]?) ∧
      (∀ c, s'.deg[c]? = (s.deg[c]?).map
        (· + (((if indAdj g V i j = true ∧ (c = i ∨ c = j) then 1 else 0 : Nat)) : Int))) := by
  have hi : i < V.length := by omega
  have e1 : V.toArray[i]? = some (V.getD i 0) := by simp [hi]
  have e2 : V.toArray[j]? = some (V.getD j 0) := by simp [hj]
  unfold Dense.isInner
  rw [e1, e2]
  simp only
  rw [Dense.isEdge_eq hs, ← indAdj_eq g V hi hj]
  cases hA : indAdj g V i j
  · simp only
    refine ⟨_, rfl, rfl, hsz, hds, by simp, ?_, ?_⟩
    · intro p; simp
    · intro c; cases s.deg[c]? <;> simp
  · simp only
    have hlt : s.index < s.edges.size := by rw [hsz, hidx]; exact tri_add_lt hij hj
    rw [setA_ok 1 hlt]
    simp only
    have x1 : s.deg[i]? = some s.deg[i] := Array.getElem?_eq_getElem (by omega)
    rw [addA_ok 1 x1]
    simp only
    have x2 : (s.deg.setIfInBounds i (s.deg[i] + 1))[j]? = some s.deg[j] := by
      rw [get?_set_add 1 x1, if_neg (by omega)]; exact Array.getElem?_eq_getElem (by omega)
    rw [addA_ok 1 x2]
    simp only
    refine ⟨_, rfl, rfl, by simp [hsz], by simp [hds], by simp, ?_, ?_⟩
    · intro p
      show (s.edges.setIfInBounds s.index 1)[p]? = _
      rw [Array.getElem?_setIfInBounds]
      by_cases hp : s.index = p
      · subst hp; simp [hlt]
      · have : ¬ p = s.index := fun e => hp e.symm
        simp [hp, this]
    · intro c
      show ((s.deg.setIfInBounds i _).setIfInBounds j _)[c]? = _
      rw [get?_set_add 1 x2, get?_set_add 1 x1]
      by_cases hcj : c = j
      · subst hcj
        rw [if_pos rfl, Array.getElem?_eq_getElem (by omega)]
        simp
      · rw [if_neg hcj]
        by_cases hci : c = i
        · subst hci; rw [if_pos rfl, x1]; simp
        · rw [if_neg hci]
          cases s.deg[c]? <;> simp [hci, hcj]

/-- one row `j` of the double loop -/
theorem Dense.isRow {g : Dense} (hs : g.edges.size = tri g.n) (V : List Nat) {j : Nat} (hj : j < V.length)
    (s0 : Dense.IsState) (hsz : s0.edges.size = tri V.length) (hds : s0.deg.size = V.length)
    (hidx : s0.index = tri j) :
    ∃ s, loopM (Dense.isInner g V.toArray j) (List.range j) s0 = .ok s ∧ s.index = tri j + j ∧
      s.edges.size = tri V.length ∧ s.deg.size = V.length ∧
      s.m = s0.m + ((cnt j (fun a => indAdj g V a j) : Nat) : Int) ∧
      (∀ p, s.edges[p]? = if tri j ≤ p ∧ p < tri j + j ∧ indAdj g V (p - tri j) j = true then some 1
        else s0.edges[p]?) ∧
      (∀ c, s.deg[c]? = (s0.deg[c]?).map (· + (((if c < j ∧ indAdj g V c j = true then 1 else 0) +
        (if c = j then cnt j (fun a => indAdj g V a j) else 0) : Nat) : Int))) := by
  have key := loopM_range' (Dense.isInner g V.toArray j) (fun t s =>
      s.index = tri j + t ∧ s.edges.size = tri V.length ∧ s.deg.size = V.length ∧
      s.m = s0.m + ((cnt t (fun a => indAdj g V a j) : Nat) : Int) ∧
      (∀ p, s.edges[p]? = if tri j ≤ p ∧ p < tri j + t ∧ indAdj g V (p - tri j) j = true then some 1
        else s0.edges[p]?) ∧
      (∀ c, s.deg[c]? = (s0.deg[c]?).map (· + (((if c < t ∧ indAdj g V c j = true then 1 else 0) +
        (if c = j then cnt t (fun a => indAdj g V a j) else 0) : Nat) : Int)))) 0 j 0 s0
    ⟨by omega, hsz, hds, by simp, fun p => by rw [if_neg (fun c => absurd c.2.1 (by omega))],
      fun c => by cases s0.deg[c]? <;> simp⟩
    (by
      intro t s _ ht ⟨i1, i2, i3, i4, i5, i6⟩
      have ht' : t < j := by omega
      obtain ⟨s', r0, r1, r2, r3, r4, r5, r6⟩ := Dense.isInner_step hs V ht' hj s i2 i3 i1
      refine ⟨s', by rw [Nat.zero_add]; exact r0, by omega, r2, r3, ?_, ?_, ?_⟩
      · rw [r4, i4, cnt_succ]; push_cast; omega
      · intro p
        rw [r5 p, i5 p, i1]
        by_cases hp : p = tri j + t
        · subst hp
          have e : tri j + t - tri j = t := by omega
          cases hA : indAdj g V t j
          · have h1 : ¬ (tri j ≤ tri j + t ∧ tri j + t < tri j + t ∧ indAdj g V (tri j + t - tri j) j = true) :=
              fun c => absurd c.2.1 (by omega)
            have h2 : ¬ (tri j ≤ tri j + t ∧ tri j + t < tri j + (t + 1) ∧
                indAdj g V (tri j + t - tri j) j = true) := by rw [e, hA]; simp
            rw [if_neg (by simp), if_neg h1, if_neg h2]
          · have h2 : (tri j ≤ tri j + t ∧ tri j + t < tri j + (t + 1) ∧
                indAdj g V (tri j + t - tri j) j = true) := ⟨by omega, by omega, by rw [e, hA]⟩
            rw [if_pos ⟨rfl, rfl⟩, if_pos h2]
        · rw [if_neg (fun c => hp c.1)]
          have : (tri j ≤ p ∧ p < tri j + t ∧ indAdj g V (p - tri j) j = true) ↔
              (tri j ≤ p ∧ p < tri j + (t + 1) ∧ indAdj g V (p - tri j) j = true) := by
            constructor
            · rintro ⟨a, b, c⟩; exact ⟨a, by omega, c⟩
            · rintro ⟨a, b, c⟩; exact ⟨a, by omega, c⟩
          by_cases hc : (tri j ≤ p ∧ p < tri j + t ∧ indAdj g V (p - tri j) j = true)
          · rw [if_pos hc, if_pos (this.mp hc)]
          · rw [if_neg hc, if_neg (fun c => hc (this.mpr c))]
      · intro c
        rw [r6 c, i6 c]
        cases s0.deg[c]? with
        | none => rfl
        | some d =>
          simp only [Option.map_some]
          congr 1
          rw [cnt_succ]
          have hX : ((if c < t + 1 ∧ indAdj g V c j = true then 1 else 0) +
              (if c = j then cnt t (fun a => indAdj g V a j) + (indAdj g V t j).toNat else 0) : Nat) =
              ((if c < t ∧ indAdj g V c j = true then 1 else 0) +
                (if c = j then cnt t (fun a => indAdj g V a j) else 0)) +
              (if indAdj g V t j = true ∧ (c = t ∨ c = j) then 1 else 0) := by
            by_cases hct : c = t
            · subst hct
              have : ¬ c = j := by omega
              cases hA : indAdj g V c j <;> simp [this]
            · by_cases hcj : c = j
              · subst hcj
                have h1 : ¬ c < t + 1 := by omega
                have h2 : ¬ c < t := by omega
                cases hA : indAdj g V t c <;> simp [h1, h2]
              · have : (c < t + 1) ↔ c < t := by omega
                simp [hct, hcj, this]
          rw [hX]; push_cast; omega)
  obtain ⟨s, hrun, i1, i2, i3, i4, i5, i6⟩ := key
  simp only [Nat.zero_add] at hrun i1 i4 i5 i6
  rw [List.range_eq_range']
  exact ⟨s, hrun, by omega, i2, i3, i4, i5, i6⟩

theorem indAdj_symm (g : Dense) (V : List Nat) (a b : Nat) : indAdj g V a b = indAdj g V b a :=
  (induced_wf g.abs_wf V).symm a b

theorem indAdj_irrefl (g : Dense) (V : List Nat) (a : Nat) : indAdj g V a a = false :=
  (induced_wf g.abs_wf V).irrefl a

theorem Dense.inducedSubgraph_spec {g : Dense} (hs : g.edges.size = tri g.n) (V : List Nat) :
    ∃ g', g.inducedSubgraph V = .ok g' ∧ g'.WF ∧ g'.abs = g.abs.induced V := by
  have key := loopM_range' (fun s j => loopM (Dense.isInner g V.toArray j) (List.range j) s) (fun t s =>
      s.index = tri (1 + t) ∧ s.edges.size = tri V.length ∧ s.deg.size = V.length ∧
      s.m = ((sumTo (1 + t) (fun b => cnt b (fun a => indAdj g V a b)) : Nat) : Int) ∧
      (∀ a b, a < b → b < V.length →
        s.edges[tri b + a]? = some (if b < 1 + t ∧ indAdj g V a b = true then 1 else 0)) ∧
      (∀ c, c < V.length → s.deg[c]? = some (((if c < 1 + t then cnt c (fun a => indAdj g V a c) else 0) +
        cnt (1 + t) (fun b => decide (c < b) && indAdj g V c b) : Nat) : Int))) 1 (V.length - 1) 0
    ⟨Array.replicate (tri V.length) 0, 0, Array.replicate V.length 0, 0⟩
    ⟨rfl, by simp, by simp, by simp [sumTo_succ], ?_, ?_⟩ ?_
  · obtain ⟨s, hrun, i1, i2, i3, i4, i5, i6⟩ := key
    unfold Dense.inducedSubgraph
    simp only
    rw [Nat.add_zero] at hrun
    rw [hrun]
    simp only
    refine ⟨_, rfl, ?_⟩
    by_cases hK : V.length = 0
    · -- no vertices
      have hV : V = [] := List.length_eq_zero_iff.mp hK
      subst hV
      simp only [List.length_nil] at i2 i3 i4 ⊢
      have hadj : ∀ u v, (Dense.abs ⟨0, s.m, s.deg, s.edges⟩).adj u v = false := by
        intro u v; simp [Dense.abs]
      have hc := empty_counts hadj
      refine ⟨⟨i3, i2, ?_, ?_⟩, ?_⟩
      · rw [hc.1, i4]; simp [sumTo_succ]
      · intro v hv; exact absurd hv (by simp)
      · refine G_ext rfl ?_
        intro u v; rw [hadj]; simp [G.induced]
    · have hend : 1 + (0 + (V.length - 1)) = V.length := by omega
      rw [hend] at i4 i5 i6
      have habs : Dense.abs ⟨V.length, s.m, s.deg, s.edges⟩ = g.abs.induced V := by
        refine G_ext_lt (Dense.abs_wf _) (induced_wf g.abs_wf V) rfl ?_
        intro a b hab
        rw [Dense.abs_adj_lt _ hab]
        simp only
        by_cases hb : b < V.length
        · have : Dense.bit ⟨V.length, s.m, s.deg, s.edges⟩ a b = indAdj g V a b := by
            unfold Dense.bit
            simp only
            rw [Array.getD_eq_getD_getElem?, i5 a b hab hb]
            cases hA : indAdj g V a b <;> simp [hb]
          rw [this]; simp [hb, indAdj]
        · have : (g.abs.induced V).adj a b = false := by
            cases hc : (g.abs.induced V).adj a b
            · rfl
            · have := ((induced_wf g.abs_wf V).supp _ _ hc).2
              simp only [G.induced] at this; omega
          rw [this]; simp [hb]
      refine ⟨⟨i3, i2, ?_, ?_⟩, habs⟩
      · rw [habs, i4, m_eq_sumTo]; rfl
      · intro c hc
        have hc' : c < V.length := hc
        rw [habs]
        show s.deg[c]? = _
        rw [i6 c hc', if_pos hc', deg_eq_cnt]
        show _ = some ((cnt V.length (fun b => indAdj g V c b) : Nat) : Int)
        rw [cnt_split (fun b => indAdj g V c b) (Nat.le_of_lt hc') (indAdj_irrefl g V c)]
        congr 3
        exact cnt_congr fun a _ => indAdj_symm g V a c
  · -- initial edges
    intro a b hab hb
    have : tri b + a < tri V.length := tri_add_lt hab hb
    have h1 : ¬ (b < 1 + 0 ∧ indAdj g V a b = true) := fun c => by omega
    rw [if_neg h1]
    simp [this]
  · -- initial degrees
    intro c hc
    simp only [Nat.add_zero, cnt_succ, cnt_zero]
    have : (decide (c < 0) && indAdj g V c 0) = false := by simp
    rw [this]
    by_cases h0 : c < 1
    · have : c = 0 := by omega
      subst this; simp [hc]
    · simp [h0, hc]
  · -- one row
    intro t s _ ht ⟨i1, i2, i3, i4, i5, i6⟩
    have hj : 1 + t < V.length := by omega
    obtain ⟨s', hrun, r1, r2, r3, r4, r5, r6⟩ := Dense.isRow hs V hj s i2 i3 i1
    have e3 : 1 + (t + 1) = 1 + t + 1 := by omega
    rw [e3]
    refine ⟨s', hrun, ?_, r2, r3, ?_, ?_, ?_⟩
    · rw [r1, ← tri_succ]
    · rw [r4, i4, sumTo_succ (1 + t)]; push_cast; rfl
    · intro a b hab hb
      rw [r5, i5 a b hab hb]
      by_cases hbj : b = 1 + t
      · subst hbj
        have e : tri (1 + t) + a - tri (1 + t) = a := by omega
        have h1 : ¬ (1 + t < 1 + t ∧ indAdj g V a (1 + t) = true) := fun c => by omega
        rw [e, if_neg h1]
        cases hA : indAdj g V a (1 + t)
        · rw [if_neg (by simp), if_neg (by simp)]
        · rw [if_pos ⟨by omega, by omega, rfl⟩, if_pos ⟨by omega, rfl⟩]
      · have h1 : ¬ (tri (1 + t) ≤ tri b + a ∧ tri b + a < tri (1 + t) + (1 + t) ∧
            indAdj g V (tri b + a - tri (1 + t)) (1 + t) = true) := by
          rintro ⟨c1, c2, _⟩
          rw [← tri_succ] at c2
          have := row_bounds hab c1 c2
          omega
        rw [if_neg h1]
        have : (b < 1 + t ∧ indAdj g V a b = true) ↔ (b < 1 + t + 1 ∧ indAdj g V a b = true) := by
          constructor
          · rintro ⟨x, y⟩; exact ⟨by omega, y⟩
          · rintro ⟨x, y⟩; exact ⟨by omega, y⟩
        by_cases hc : (b < 1 + t ∧ indAdj g V a b = true)
        · rw [if_pos hc, if_pos (this.mp hc)]
        · rw [if_neg hc, if_neg (fun c => hc (this.mpr c))]
    · intro c hc
      rw [r6 c, i6 c hc]
      simp only [Option.map_some]
      congr 1
      rw [cnt_succ (1 + t)]
      have hX : ((if c < 1 + t + 1 then cnt c (fun a => indAdj g V a c) else 0) +
          (cnt (1 + t) (fun b => decide (c < b) && indAdj g V c b) +
            (decide (c < 1 + t) && indAdj g V c (1 + t)).toNat) : Nat) =
          ((if c < 1 + t then cnt c (fun a => indAdj g V a c) else 0) +
            cnt (1 + t) (fun b => decide (c < b) && indAdj g V c b)) +
          ((if c < 1 + t ∧ indAdj g V c (1 + t) = true then 1 else 0) +
            (if c = 1 + t then cnt (1 + t) (fun a => indAdj g V a (1 + t)) else 0)) := by
        by_cases hlt : c < 1 + t
        · have h1 : c < 1 + t + 1 := by omega
          have h2 : ¬ c = 1 + t := by omega
          cases hA : indAdj g V c (1 + t) <;> simp [hlt, h1, h2] <;> omega
        · by_cases heq : c = 1 + t
          · subst heq; simp; omega
          · have h1 : ¬ c < 1 + t + 1 := by omega
            simp [hlt, h1, heq]
      rw [hX]; push_cast; omega

end GraphRep
