import Mamba.Lemmas.DsaturS2
/-! DSATUR model: the forward step preserves the state invariant. -/
namespace CliqueColour
open GraphSpec

theorem mem_dsOptions {s : Dsat} {v j : Nat} :
    j ∈ dsOptions s v ↔ ((j : Int) ≤ s.maxUsed + 1 ∧ (j : Int) + 2 ≤ s.upper ∧ seenAt s v j = 0) := by
  unfold dsOptions seenAt
  simp only [List.mem_filter, List.mem_range, beq_iff_eq]
  constructor
  · rintro ⟨h1, h2⟩
    refine ⟨?_, ?_, h2⟩ <;> (split at h1 <;> omega)
  · rintro ⟨h1, h2, h3⟩
    refine ⟨?_, h3⟩
    split <;> omega

theorem dsOptions_sorted (s : Dsat) (v : Nat) : (dsOptions s v).Pairwise (· < ·) := by
  unfold dsOptions
  exact List.Pairwise.sublist List.filter_sublist List.pairwise_lt_range

theorem colOf_set (s : Dsat) (v : Nat) (x : Int) (hv : v < s.colouring.length) (w : Nat) :
    (s.colouring.set v x).getD w 0 = if w = v then x else colOf s w := by
  rw [getD_set]
  by_cases h : w = v
  · subst h; rw [if_pos ⟨rfl, hv⟩, if_pos rfl]
  · rw [if_neg (fun e => h e.1.symm), if_neg h]; rfl

/-- everything the forward step does, in terms of the old state -/
theorem dsForward_facts (g : G) {U0 : Nat} {s : Dsat} (h : DSInv g U0 s) {v : Nat} {t : List Nat}
    (hheap : s.heap = v :: t) {tc : Nat} (opts : List Nat) (htc : tc + 2 ≤ U0) :
    ∃ s3, dsForward g { s with heap := heapRemove0 s.num s.deg s.heap } v opts tc = s3 ∧
      s3.heap.Perm t ∧ HeapOK s3.num s3.deg s3.heap ∧
      s3.chosen = s.chosen ++ [v] ∧ s3.cur = s.cur ++ [0] ∧ s3.choices = s.choices ++ [opts] ∧
      s3.colouring = s.colouring.set v (tc : Int) ∧
      s3.maxUsed = (if (tc : Int) > s.maxUsed then (tc : Int) else s.maxUsed) ∧
      s3.upper = s.upper ∧ s3.best = s.best ∧ s3.seen.length = s.seen.length ∧
      (∀ u, (s3.seen.getD u []).length = (s.seen.getD u []).length) ∧
      ∀ u c', seenAt s3 u c' = seenAt s u c' + (if u ∈ t ∧ g.adj u v = true ∧ c' = tc then 1 else 0) := by
  have hok0 : HeapOK s.num s.deg (v :: t) := by rw [← hheap]; exact h.hok
  obtain ⟨hrp, hrok⟩ := heapRemove0_spec s.num s.deg v t hok0
  have hnd0 : (v :: t).Nodup := by rw [← hheap]; exact h.hnd
  have htmem : ∀ u ∈ t, u < g.n := fun u hu => ((h.hmem u).1 (by rw [hheap]; exact List.mem_cons_of_mem _ hu)).1
  obtain ⟨hp, hok3, hfr, hseen⟩ := fwdLoop_spec g v tc
    ({ s with heap := heapRemove0 s.num s.deg s.heap, choices := s.choices ++ [opts], cur := s.cur ++ [0],
              chosen := s.chosen ++ [v], colouring := s.colouring.set v (tc : Int),
              maxUsed := if (tc : Int) > s.maxUsed then (tc : Int) else s.maxUsed } : Dsat)
    (by
      show (heapRemove0 s.num s.deg s.heap).Nodup
      rw [hheap]; exact hrp.nodup_iff.2 (List.nodup_cons.1 hnd0).2)
    (by
      show HeapOK s.num s.deg (heapRemove0 s.num s.deg s.heap)
      rw [hheap]; exact hrok)
    (by
      intro u hu
      have hu' : u ∈ t := by
        have : u ∈ heapRemove0 s.num s.deg s.heap := hu
        rw [hheap] at this
        exact hrp.subset this
      have hun := htmem u hu'
      show u < s.seen.length ∧ tc < (s.seen.getD u []).length
      rw [h.lseen, h.lrow u hun]
      exact ⟨hun, by omega⟩)
  refine ⟨_, rfl, ?_, hok3, hfr.chosen, hfr.cur, hfr.choices, hfr.colouring, hfr.maxUsed, hfr.upper, hfr.best,
    hfr.seenLen, hfr.rowLen, fun u c' => ?_⟩
  · refine hp.trans ?_
    show (heapRemove0 s.num s.deg s.heap).Perm t
    rw [hheap]; exact hrp
  · have := hseen u c'
    have hmem : (u ∈ heapRemove0 s.num s.deg s.heap) ↔ u ∈ t := by
      rw [hheap]; exact hrp.mem_iff
    simp only [dsForward]
    rw [this]
    show seenAt s u c' + _ = _
    congr 1
    by_cases hc : u ∈ t ∧ g.adj u v = true ∧ c' = tc
    · rw [if_pos hc, if_pos ⟨hmem.2 hc.1, hc.2⟩]
    · rw [if_neg hc, if_neg (fun hh => hc ⟨hmem.1 hh.1, hh.2⟩)]

theorem dsForward_inv {g : G} {U0 : Nat} {s : Dsat} (h : DSInv g U0 s) {v : Nat} {t : List Nat}
    (hheap : s.heap = v :: t) {tc : Nat} {rest : List Nat} (hopt : dsOptions s v = tc :: rest) :
    DSInv g U0 (dsForward g { s with heap := heapRemove0 s.num s.deg s.heap } v (tc :: rest) tc) := by
  have htcmem : tc ∈ dsOptions s v := by rw [hopt]; exact List.mem_cons_self
  obtain ⟨htc1, htc2, htc3⟩ := mem_dsOptions.1 htcmem
  have hup := h.uple
  have htcU : tc + 2 ≤ U0 := by omega
  obtain ⟨s3, hs3, hperm, hok3, hch, hcur, hcho, hcolr, hmax, hupp, hbest, hsl, hrl, hseen⟩ :=
    dsForward_facts g h hheap (tc :: rest) htcU
  rw [hs3]
  have hvheap : v ∈ s.heap := by rw [hheap]; exact List.mem_cons_self
  obtain ⟨hvn, hvch⟩ := (h.hmem v).1 hvheap
  have hnd0 : (v :: t).Nodup := by rw [← hheap]; exact h.hnd
  have hvt : v ∉ t := (List.nodup_cons.1 hnd0).1
  have hcol : ∀ w, colOf s3 w = if w = v then (tc : Int) else colOf s w := by
    intro w
    unfold colOf
    rw [hcolr]
    exact colOf_set s v tc (by rw [h.lcol]; exact hvn) w
  have hcolch : ∀ w ∈ s.chosen, colOf s3 w = colOf s w := by
    intro w hw
    have hne : w ≠ v := fun e => hvch (by rw [← e]; exact hw)
    rw [hcol w, if_neg hne]
  have hcolv : colOf s3 v = (tc : Int) := by rw [hcol v, if_pos rfl]
  have hd : s.chosen.length = s.cur.length := h.lcur.symm
  have hd2 : s.chosen.length = s.choices.length := h.lcho.symm
  -- counters of path vertices and of `v` are untouched
  have hseen_nt : ∀ u, u ∉ t → ∀ c, seenAt s3 u c = seenAt s u c := by
    intro u hu c
    rw [hseen u c, if_neg (fun hh => hu hh.1)]; omega
  have hch_nt : ∀ w ∈ s.chosen, w ∉ t := by
    intro w hw hwt
    have : w ∈ s.heap := by rw [hheap]; exact List.mem_cons_of_mem _ hwt
    exact ((h.hmem w).1 this).2 hw
  -- access to the extended lists
  have hget_ch : ∀ i, i < s.chosen.length → s3.chosen.getD i 0 = s.chosen.getD i 0 := by
    intro i hi; rw [hch, getD_append_lt _ _ hi]
  have hget_cur : ∀ i, i < s.chosen.length → s3.cur.getD i 0 = s.cur.getD i 0 := by
    intro i hi; rw [hcur, getD_append_lt _ _ (by omega)]
  have hget_cho : ∀ i, i < s.chosen.length → s3.choices.getD i [] = s.choices.getD i [] := by
    intro i hi; rw [hcho, getD_append_lt _ _ (by omega)]
  have hlast_ch : s3.chosen.getD s.chosen.length 0 = v := by rw [hch, getD_append_len]
  have hlast_cur : s3.cur.getD s.chosen.length 0 = 0 := by rw [hcur, hd, getD_append_len]
  have hlast_cho : s3.choices.getD s.chosen.length [] = tc :: rest := by rw [hcho, hd2, getD_append_len]
  have htake : ∀ i, i ≤ s.chosen.length → s3.chosen.take i = s.chosen.take i := by
    intro i hi; rw [hch, take_append_le _ hi]
  have hlen3 : s3.chosen.length = s.chosen.length + 1 := by rw [hch]; simp
  have hmaxtake : ∀ i, i ≤ s.chosen.length → maxCol (colOf s3) (s3.chosen.take i) = maxCol (colOf s) (s.chosen.take i) := by
    intro i hi
    rw [htake i hi]
    exact maxCol_congr fun w hw => hcolch w (List.mem_of_mem_take hw)
  have hcnttake : ∀ i, i ≤ s.chosen.length → ∀ u c,
      cntCol g (colOf s3) (s3.chosen.take i) u c = cntCol g (colOf s) (s.chosen.take i) u c := by
    intro i hi u c
    rw [htake i hi]
    exact cntCol_congr (fun w hw => hcolch w (List.mem_of_mem_take hw)) u c
  have hmaxall : maxCol (colOf s3) s3.chosen = max (maxCol (colOf s) s.chosen) (tc : Int) := by
    rw [hch, maxCol_snoc, hcolv, maxCol_congr (fun w hw => hcolch w hw)]
  refine
    { npos := h.npos
      lcol := by rw [hcolr]; simpa using h.lcol
      lseen := by rw [hsl]; exact h.lseen
      lrow := fun w hw => by rw [hrl]; exact h.lrow w hw
      chn := by
        rw [hch]
        exact List.nodup_append.2 ⟨h.chn, by simp, fun a ha b hb hab => by
          have : b = v := by simpa using hb
          subst this; subst hab; exact hvch ha⟩
      chlt := by
        intro w hw
        rw [hch] at hw
        rcases List.mem_append.1 hw with h1 | h1
        · exact h.chlt w h1
        · have : w = v := by simpa using h1
          subst this; exact hvn
      lcur := by rw [hcur, hch]; simp [h.lcur]
      lcho := by rw [hcho, hch]; simp [h.lcho]
      hnd := hperm.nodup_iff.2 (List.nodup_cons.1 hnd0).2
      hmem := by
        intro w
        rw [hperm.mem_iff, hch]
        constructor
        · intro hwt
          have hwh : w ∈ s.heap := by rw [hheap]; exact List.mem_cons_of_mem _ hwt
          obtain ⟨h1, h2⟩ := (h.hmem w).1 hwh
          refine ⟨h1, fun hm => ?_⟩
          rcases List.mem_append.1 hm with h3 | h3
          · exact h2 h3
          · have : w = v := by simpa using h3
            subst this; exact hvt hwt
        · rintro ⟨h1, h2⟩
          have hwh : w ∈ s.heap := (h.hmem w).2 ⟨h1, fun hm => h2 (List.mem_append_left _ hm)⟩
          rw [hheap] at hwh
          rcases List.mem_cons.1 hwh with h3 | h3
          · exact absurd (by simp [h3]) h2
          · exact h3
      colun := by
        intro w hw hwn
        rw [hch] at hwn
        have h1 : w ≠ v := fun e => hwn (by simp [e])
        have h2 : w ∉ s.chosen := fun hm => hwn (List.mem_append_left _ hm)
        rw [hcol w, if_neg h1]; exact h.colun w hw h2
      colch := by
        intro i hi
        rw [hlen3] at hi
        by_cases hid : i < s.chosen.length
        · rw [hget_cur i hid, hget_cho i hid, hget_ch i hid, hcolch _ (getD_mem' hid)]
          exact h.colch i hid
        · have : i = s.chosen.length := by omega
          subst this
          rw [hlast_cur, hlast_cho, hlast_ch, hcolv]
          exact ⟨by simp, by simp⟩
      hok := hok3
      seenH := by
        intro u hu c hc
        have hut : u ∈ t := hperm.subset hu
        have huh : u ∈ s.heap := by rw [hheap]; exact List.mem_cons_of_mem _ hut
        rw [hseen u c, h.seenH u huh c hc, hch, cntCol_snoc, hcolv,
          cntCol_congr (fun w hw => hcolch w hw) u c]
        congr 1
        by_cases hx : g.adj u v = true ∧ c = tc
        · rw [if_pos ⟨hut, hx⟩, if_pos ⟨hx.1, by rw [hx.2]⟩]
        · rw [if_neg (fun hh => hx hh.2), if_neg (fun hh => hx ⟨hh.1, by exact_mod_cast hh.2.symm⟩)]
      seenC := by
        intro i hi c hc
        rw [hlen3] at hi
        by_cases hid : i < s.chosen.length
        · rw [hget_ch i hid, hcnttake i (by omega), hseen_nt _ (hch_nt _ (getD_mem' hid))]
          exact h.seenC i hid c hc
        · have : i = s.chosen.length := by omega
          subst this
          rw [hlast_ch, hcnttake _ (Nat.le_refl _), List.take_length, hseen_nt v hvt]
          exact h.seenH v hvheap c hc
      optS := by
        intro i hi
        rw [hlen3] at hi
        by_cases hid : i < s.chosen.length
        · rw [hget_cho i hid]; exact h.optS i hid
        · have : i = s.chosen.length := by omega
          subst this
          rw [hlast_cho, ← hopt]; exact dsOptions_sorted s v
      optF := by
        intro i hi c hc
        rw [hlen3] at hi
        by_cases hid : i < s.chosen.length
        · rw [hget_cho i hid] at hc
          rw [hget_ch i hid, hmaxtake i (by omega), hseen_nt _ (hch_nt _ (getD_mem' hid))]
          exact h.optF i hid c hc
        · have : i = s.chosen.length := by omega
          subst this
          rw [hlast_cho, ← hopt] at hc
          obtain ⟨c1, c2, c3⟩ := mem_dsOptions.1 hc
          rw [hlast_ch, hmaxtake _ (Nat.le_refl _), List.take_length, hseen_nt v hvt, ← h.mused]
          exact ⟨c1, by omega, c3⟩
      optC := by
        intro i hi c hc1 hc2 hc3
        rw [hlen3] at hi
        by_cases hid : i < s.chosen.length
        · rw [hget_cho i hid]
          rw [hget_ch i hid, hseen_nt _ (hch_nt _ (getD_mem' hid))] at hc3
          rw [hmaxtake i (by omega)] at hc1
          rw [hupp] at hc2
          exact h.optC i hid c hc1 hc2 hc3
        · have : i = s.chosen.length := by omega
          subst this
          rw [hlast_cho, ← hopt]
          rw [hlast_ch, hseen_nt v hvt] at hc3
          rw [hmaxtake _ (Nat.le_refl _), List.take_length, ← h.mused] at hc1
          rw [hupp] at hc2
          exact mem_dsOptions.2 ⟨hc1, hc2, hc3⟩
      mused := by
        rw [hmax, hmaxall, h.mused]
        split <;> omega
      seg := by
        intro i hi c hc
        rw [hlen3] at hi
        by_cases hid : i ≤ s.chosen.length
        · rw [hmaxtake i hid] at hc
          obtain ⟨w, hw, hwc⟩ := h.seg i hid c hc
          refine ⟨w, by rw [htake i hid]; exact hw, ?_⟩
          rw [hcolch w (List.mem_of_mem_take hw)]; exact hwc
        · have hie : i = s3.chosen.length := by omega
          rw [hie, List.take_length] at hc ⊢
          rw [hmaxall] at hc
          by_cases hle : (c : Int) ≤ maxCol (colOf s) s.chosen
          · obtain ⟨w, hw, hwc⟩ := h.seg s.chosen.length (Nat.le_refl _) c (by rw [List.take_length]; exact hle)
            rw [List.take_length] at hw
            exact ⟨w, by rw [hch]; exact List.mem_append_left _ hw, by rw [hcolch w hw]; exact hwc⟩
          · have hms := h.mused
            have : c = tc := by omega
            subst this
            exact ⟨v, by rw [hch]; simp, hcolv⟩
      uple := by rw [hupp]; exact h.uple
      up1 := by rw [hupp]; exact h.up1
      best := by rw [hbest, hupp]; exact h.best }

end CliqueColour
