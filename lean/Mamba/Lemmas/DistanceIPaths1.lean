import Mamba.Lemmas.DistancePaths
import Mamba.Model.Subgraph
import Mamba.Lemmas.DistanceModel
import Mathlib.Data.List.Perm.Subperm
import Mathlib.Tactic.Ring
import Mathlib.Data.List.Basic
import Mathlib.Algebra.BigOperators.Group.List.Basic
/-!
# Lemmas for C10: the stack DFS of `NumberOfInducedPaths` accumulates the numbers of induced extensions
-/
namespace GDist
open GraphSpec Model

/-! ### the `sortints` operations -/

theorem mem_sMinus {a b : List Nat} {x : Nat} : x ∈ sMinus a b ↔ (x ∈ a ∧ x ∉ b) := by
  simp [sMinus, List.mem_filter]

theorem mem_sAdd {a : List Nat} {v x : Nat} : x ∈ sAdd a v ↔ (x ∈ a ∨ x = v) := by
  induction a with
  | nil => simp [sAdd]
  | cons y ys ih =>
    simp only [sAdd]
    split
    · simp; tauto
    · split
      · rename_i h; subst h; simp; tauto
      · simp [ih]; tauto

theorem mem_sUnion {a b : List Nat} {x : Nat} : x ∈ sUnion a b ↔ (x ∈ a ∨ x ∈ b) := by
  induction a, b using sUnion.induct with
  | case1 b => simp [sUnion]
  | case2 a h => simp [sUnion]
  | case3 x' a y b hlt ih => simp [sUnion, hlt, ih]; tauto
  | case4 x' a y b hlt hgt ih => simp [sUnion, hlt, hgt, ih]; tauto
  | case5 x' a y b hlt hgt ih =>
    have : x' = y := by omega
    subst this
    simp [sUnion, ih]; tauto

/-! ### extensions of a partial path -/

/-- all paths obtained from `q` by `k` extensions -/
def ext (g : G) (good : List Nat → Nat → Bool) : Nat → List Nat → List (List Nat)
  | 0, q => [q]
  | k+1, q => (ext g good k q).flatMap (extend g good)

theorem ext_succ' (g : G) (good : List Nat → Nat → Bool) (k : Nat) (q : List Nat) :
    ext g good (k+1) q = (extend g good q).flatMap (ext g good k) := by
  induction k generalizing q with
  | zero => simp [ext]
  | succ k ih =>
    rw [ext, ih, List.flatMap_assoc]
    rfl

theorem pathsFrom_eq_ext (g : G) (good : List Nat → Nat → Bool) {s : Nat} (hs : s < g.n) (k : Nat) :
    pathsFrom g good s k = ext g good k [s] := by
  induction k with
  | zero => simp [pathsFrom, ext, hs]
  | succ k ih => simp [pathsFrom, ext, ih]

theorem length_flatMap_sum {α β : Type} (l : List α) (f : α → List β) :
    (l.flatMap f).length = (l.map fun a => (f a).length).sum := by
  induction l with
  | nil => rfl
  | cons a t ih => simp [List.flatMap_cons, ih]

/-- the contribution of the subtree below the partial path `q` (with `L = |q| - 1` edges) to entry `l` of the
result, for the effective bound `M` -/
def contrib (g : G) (good : List Nat → Nat → Bool) (M : Nat) (q : List Nat) (l : Nat) : Nat :=
  if l = q.length ∨ (q.length + 1 ≤ l ∧ l ≤ M) then (ext g good (l + 1 - q.length) q).length else 0

theorem ext_of_extend_nil {g : G} {good : List Nat → Nat → Bool} {q : List Nat} (h : extend g good q = []) :
    ∀ k, ext g good (k+1) q = [] := by
  intro k; rw [ext_succ', h]; rfl

/-- the recursion satisfied by `contrib` -/
theorem contrib_step (g : G) (good : List Nat → Nat → Bool) (M : Nat) (q : List Nat) (l : Nat) (hq : q ≠ []) :
    contrib g good M q l =
      (if l = q.length then (extend g good q).length else 0) +
      (if q.length < M then ((extend g good q).map fun c => contrib g good M c l).sum else 0) := by
  have hchild : ∀ c ∈ extend g good q, c.length = q.length + 1 := by
    intro c hc
    obtain ⟨_, _, _, _, _, _, _, rfl⟩ := mem_extend.1 hc
    simp
  unfold contrib
  by_cases h1 : l = q.length
  · -- entry L+1: the number of extensions; the children contribute nothing here
    subst h1
    have e1 : q.length + 1 - q.length = 1 := by omega
    simp only [true_or, if_true, e1]
    have hz : ((extend g good q).map fun c =>
        if q.length = c.length ∨ (c.length + 1 ≤ q.length ∧ q.length ≤ M) then
          (ext g good (q.length + 1 - c.length) c).length else 0).sum = 0 := by
      apply List.sum_eq_zero
      intro x hx
      obtain ⟨c, hc, rfl⟩ := List.mem_map.1 hx
      have := hchild c hc
      have : ¬ (q.length = c.length ∨ (c.length + 1 ≤ q.length ∧ q.length ≤ M)) := by omega
      simp [this]
    rw [hz]
    have : ext g good 1 q = extend g good q := by simp [ext]
    rw [this]
    split <;> simp
  · simp only [h1, false_or, if_false, Nat.zero_add]
    by_cases h2 : q.length + 1 ≤ l ∧ l ≤ M
    · have hlt : q.length < M := by omega
      simp only [h2, and_self, if_true, hlt]
      have e : l + 1 - q.length = (l - q.length) + 1 := by omega
      rw [e, ext_succ', length_flatMap_sum]
      congr 1
      apply List.map_congr_left
      intro c hc
      have hcl := hchild c hc
      have hcond : l = c.length ∨ (c.length + 1 ≤ l ∧ True) := by
        rcases Nat.eq_or_lt_of_le (show c.length ≤ l by omega) with h | h
        · exact .inl h.symm
        · exact .inr ⟨h, trivial⟩
      have e2 : l + 1 - c.length = l - q.length := by omega
      rw [if_pos hcond, e2]
    · simp only [h2, if_false]
      by_cases hlt : q.length < M
      · simp only [hlt, if_true]
        symm
        apply List.sum_eq_zero
        intro x hx
        obtain ⟨c, hc, rfl⟩ := List.mem_map.1 hx
        have hcl := hchild c hc
        have : ¬ (l = c.length ∨ (c.length + 1 ≤ l ∧ l ≤ M)) := by omega
        simp [this]
      · simp [hlt]

/-! ### the records on the stack -/

structure RecOK (h : G) (P : IPath) : Prop where
  ne : P.p ≠ []
  len : P.length + 1 = P.p.length
  nd : P.p.Nodup
  rng : ∀ x ∈ P.p, x < h.n
  ban : ∀ x, x ∈ P.banned ↔ (x ∈ P.p ∨ (x < h.n ∧ ∃ y ∈ P.p.tail, h.adj y x = true))

/-- an upper bound for the number of stack operations below a path with `d` vertices still unused -/
def wtN (n : Nat) : Nat → Nat
  | 0 => 1
  | d+1 => 1 + n * wtN n d

def wtP (h : G) (P : IPath) : Nat := wtN h.n (h.n - P.p.length)

theorem wtN_pos (n d : Nat) : 1 ≤ wtN n d := by cases d <;> simp [wtN]

theorem wtN_le_pow (n d : Nat) : wtN n d ≤ (n + 1) ^ d := by
  induction d with
  | zero => simp [wtN]
  | succ d ih =>
    simp only [wtN, Nat.pow_succ]
    have h1 : 1 ≤ (n + 1) ^ d := Nat.one_le_pow _ _ (by omega)
    calc 1 + n * wtN n d ≤ (n + 1) ^ d + n * (n + 1) ^ d := by
          exact Nat.add_le_add h1 (Nat.mul_le_mul_left n ih)
      _ = (n + 1) ^ d * (n + 1) := by ring

variable {h : G}

/-- the options of the Go code are exactly the good extensions of the specification -/
theorem options_eq (hsym : ∀ u v, h.adj u v = h.adj v u) {P : IPath} (ok : RecOK h P) {last : Nat} {t : List Nat}
    (hp : P.p = last :: t) :
    sMinus (h.nbrs last) P.banned =
      (List.range h.n).filter fun w => h.adj last w && goodInduced h P.p w := by
  unfold sMinus G.nbrs
  rw [List.filter_filter]
  apply List.filter_congr
  intro w hw
  have hwn := List.mem_range.1 hw
  have hb := ok.ban w
  rw [hp] at hb ⊢
  simp only [List.tail_cons] at hb
  have e1 : (!P.banned.contains w) = true ↔ w ∉ P.banned := by simp
  have e2 : goodInduced h (last :: t) w = true ↔ (w ∉ last :: t ∧ ∀ x ∈ t, h.adj w x = false) := by
    simp [goodInduced]
  have key : w ∉ P.banned ↔ (w ∉ last :: t ∧ ∀ x ∈ t, h.adj w x = false) := by
    rw [hb]
    constructor
    · intro hn
      refine ⟨fun hm => hn (.inl hm), ?_⟩
      intro x hx
      cases hadj : h.adj w x with
      | false => rfl
      | true => exact absurd (.inr ⟨hwn, x, hx, by rw [hsym]; exact hadj⟩) hn
    · rintro ⟨h1, h2⟩ (hm | ⟨_, y, hy, hadj⟩)
      · exact h1 hm
      · have := h2 y hy
        rw [hsym] at this
        rw [this] at hadj; cases hadj
  have : (!P.banned.contains w) = goodInduced h (last :: t) w := by
    rw [Bool.eq_iff_iff, e1, e2, key]
  rw [this, Bool.and_comm]

theorem extend_eq_options (hsym : ∀ u v, h.adj u v = h.adj v u) {P : IPath} (ok : RecOK h P) {last : Nat}
    {t : List Nat} (hp : P.p = last :: t) :
    extend h (goodInduced h) P.p = (sMinus (h.nbrs last) P.banned).map (· :: P.p) := by
  rw [options_eq hsym ok hp, hp]
  rfl

theorem child_ok (hsym : ∀ u v, h.adj u v = h.adj v u) {P : IPath} (ok : RecOK h P) {last : Nat} {t : List Nat}
    (hp : P.p = last :: t) {v : Nat} (hv : v ∈ sMinus (h.nbrs last) P.banned) :
    RecOK h { p := v :: P.p, length := P.length + 1, banned := sAdd (sUnion P.banned (h.nbrs last)) v } := by
  obtain ⟨hvn, hvb⟩ := mem_sMinus.1 hv
  have hvn' : v < h.n ∧ h.adj last v = true := by simpa [G.nbrs, List.mem_filter] using hvn
  have hvp : v ∉ P.p := fun hm => hvb ((ok.ban v).2 (.inl hm))
  refine { ne := by simp, len := by simp [ok.len], nd := List.nodup_cons.2 ⟨hvp, ok.nd⟩, rng := ?_, ban := ?_ }
  · intro x hx
    rcases List.mem_cons.1 hx with rfl | hx
    · exact hvn'.1
    · exact ok.rng x hx
  · intro x
    simp only [mem_sAdd, mem_sUnion, ok.ban x, List.tail_cons, List.mem_cons]
    rw [hp]
    simp only [List.tail_cons, List.mem_cons, G.nbrs, List.mem_filter, List.mem_range]
    constructor
    · rintro (((h1 | ⟨h1, y, hy, hadj⟩) | ⟨h1, h2⟩) | h1)
      · exact Or.inl (Or.inr h1)
      · exact Or.inr ⟨h1, y, Or.inr hy, hadj⟩
      · exact Or.inr ⟨h1, last, Or.inl rfl, h2⟩
      · exact Or.inl (Or.inl h1)
    · rintro ((h1 | h1) | ⟨h1, y, (rfl | hy), hadj⟩)
      · exact Or.inr h1
      · exact Or.inl (Or.inl (Or.inl h1))
      · exact Or.inl (Or.inr ⟨h1, hadj⟩)
      · exact Or.inl (Or.inl (Or.inr ⟨h1, y, hy, hadj⟩))

theorem contrib_of_no_ext {good : List Nat → Nat → Bool} {M : Nat} {q : List Nat} (hq : q ≠ [])
    (he : extend h good q = []) (l : Nat) : contrib h good M q l = 0 := by
  rw [contrib_step h good M q l hq, he]
  simp

theorem sum_map_reverse {α : Type} (l : List α) (f : α → Nat) : (l.reverse.map f).sum = (l.map f).sum := by
  rw [List.map_reverse, List.sum_reverse]

/-- the stack loop of `NumberOfInducedPaths` adds, for every record on the stack, the contribution of its subtree -/
theorem ipLoop_spec (hsym : ∀ u v, h.adj u v = h.adj v u) (M : Nat) :
    ∀ (fuel : Nat) (st : List IPath) (r : Array Nat), (∀ P ∈ st, RecOK h P) → h.n ≤ r.size →
      (st.map (wtP h)).sum + 1 ≤ fuel →
      ∃ r', ipLoop h (M : Int) fuel st r = .ok r' ∧ r'.size = r.size ∧
        ∀ l, lbl r' l = lbl r l + (st.map fun P => contrib h (goodInduced h) M P.p l).sum := by
  intro fuel
  induction fuel with
  | zero => intro st r _ _ hf; omega
  | succ f ih =>
    intro st r hok hsize hf
    cases st with
    | nil => exact ⟨r, rfl, rfl, fun l => by simp⟩
    | cons P st =>
      have okP := hok P List.mem_cons_self
      have hok' : ∀ P' ∈ st, RecOK h P' := fun P' hP' => hok P' (List.mem_cons_of_mem _ hP')
      obtain ⟨last, t, hp⟩ := List.exists_cons_of_ne_nil okP.ne
      have hext := extend_eq_options hsym okP hp
      simp only [List.map_cons, List.sum_cons] at hf ⊢
      have hwpos : 1 ≤ wtP h P := wtN_pos h.n (h.n - P.p.length)
      unfold ipLoop
      simp only [hp]
      rw [← hp]
      by_cases hopt : (sMinus (h.nbrs last) P.banned).length = 0
      · -- no extension
        simp only [hopt, if_true]
        have hnil : extend h (goodInduced h) P.p = [] := by
          rw [hext, List.length_eq_zero_iff.1 hopt]; rfl
        obtain ⟨r', e, hs, hr⟩ := ih st r hok' hsize (by omega)
        refine ⟨r', e, hs, fun l => ?_⟩
        rw [hr l, contrib_of_no_ext okP.ne hnil]; omega
      · simp only [hopt, if_false]
        -- there is an unused vertex, so the path is short
        obtain ⟨v, hv⟩ := List.exists_mem_of_length_pos (Nat.pos_of_ne_zero hopt)
        have cok := child_ok hsym okP hp hv
        have hplen : P.p.length + 1 ≤ h.n := by
          have hsub : ∀ x ∈ v :: P.p, x ∈ List.range h.n := fun x hx => List.mem_range.2 (cok.rng x hx)
          have := (List.subperm_of_subset cok.nd hsub).length_le
          simpa using this
        have hidx : P.length + 1 < r.size := by have := okP.len; omega
        simp only [hidx, dif_pos]
        have hlen_ext : (extend h (goodInduced h) P.p).length = (sMinus (h.nbrs last) P.banned).length := by
          rw [hext, List.length_map]
        have hr1 : ∀ l, lbl (r.set (P.length + 1) (r[P.length + 1] + (sMinus (h.nbrs last) P.banned).length) hidx) l
            = lbl r l + (if l = P.p.length then (extend h (goodInduced h) P.p).length else 0) := by
          intro l
          rw [lbl_set hidx, hlen_ext, ← okP.len]
          by_cases hl : l = P.length + 1
          · simp [hl, lbl_of_lt hidx]
          · simp [hl]
        by_cases hcut : (P.length : Int) ≥ (M : Int) - 1
        · simp only [hcut, if_true]
          have hnlt : ¬ P.p.length < M := by have := okP.len; omega
          obtain ⟨r', e, hs, hr⟩ := ih st
            (r.set (P.length + 1) (r[P.length + 1] + (sMinus (h.nbrs last) P.banned).length) hidx) hok'
            (by simpa using hsize) (by omega)
          refine ⟨r', e, by simpa using hs, fun l => ?_⟩
          rw [hr l, hr1 l, contrib_step h _ M P.p l okP.ne]
          simp only [hnlt, if_false]
          omega
        · simp only [hcut, if_false]
          have hlt : P.p.length < M := by have := okP.len; omega
          -- the children
          let mk : Nat → IPath := fun v =>
            { p := v :: P.p, length := P.length + 1, banned := sAdd (sUnion P.banned (h.nbrs last)) v }
          have hchildren_ok : ∀ P' ∈ ((sMinus (h.nbrs last) P.banned).map mk).reverse ++ st, RecOK h P' := by
            intro P' hP'
            rcases List.mem_append.1 hP' with hP' | hP'
            · obtain ⟨v', hv', rfl⟩ := List.mem_map.1 (List.mem_reverse.1 hP')
              exact child_ok hsym okP hp hv'
            · exact hok' P' hP'
          have hwchild : ∀ v', wtP h (mk v') = wtN h.n (h.n - P.p.length - 1) := by
            intro v'; simp [wtP, mk]; congr 1
          have hwP : wtP h P = 1 + h.n * wtN h.n (h.n - P.p.length - 1) := by
            unfold wtP
            have : h.n - P.p.length = (h.n - P.p.length - 1) + 1 := by omega
            rw [this, wtN]
            simp
          have hoptle : (sMinus (h.nbrs last) P.banned).length ≤ h.n := by
            have : (sMinus (h.nbrs last) P.banned).length ≤ (List.range h.n).length := by
              rw [options_eq hsym okP hp]; exact List.length_filter_le _ _
            simpa using this
          have hfuel : ((((sMinus (h.nbrs last) P.banned).map mk).reverse ++ st).map (wtP h)).sum + 1 ≤ f := by
            rw [List.map_append, List.sum_append, sum_map_reverse, List.map_map]
            have : ((sMinus (h.nbrs last) P.banned).map (wtP h ∘ mk)).sum
                = (sMinus (h.nbrs last) P.banned).length * wtN h.n (h.n - P.p.length - 1) := by
              have hc : (sMinus (h.nbrs last) P.banned).map (wtP h ∘ mk)
                  = (sMinus (h.nbrs last) P.banned).map (fun _ => wtN h.n (h.n - P.p.length - 1)) :=
                List.map_congr_left (fun a _ => hwchild a)
              rw [hc]
              simp
            rw [this]
            have := Nat.mul_le_mul_right (wtN h.n (h.n - P.p.length - 1)) hoptle
            rw [hwP] at hf
            omega
          obtain ⟨r', e, hs, hr⟩ := ih _
            (r.set (P.length + 1) (r[P.length + 1] + (sMinus (h.nbrs last) P.banned).length) hidx) hchildren_ok
            (by simpa using hsize) hfuel
          refine ⟨r', e, by simpa using hs, fun l => ?_⟩
          rw [hr l, hr1 l, contrib_step h _ M P.p l okP.ne]
          simp only [hlt, if_true]
          rw [List.map_append, List.sum_append, sum_map_reverse, List.map_map, hext, List.map_map]
          have : (fun P' : IPath => contrib h (goodInduced h) M P'.p l) ∘ mk
              = (fun c => contrib h (goodInduced h) M c l) ∘ (fun v' => v' :: P.p) := rfl
          rw [this]
          omega

end GDist
