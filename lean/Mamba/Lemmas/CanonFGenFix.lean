import Mamba.Lemmas.CanonFGenDef
import Mamba.Lemmas.CanonFOrbTree
/-!
# The recorded generators generate Aut, tree level: automorphisms that fix a prefix of a path

* `aut_fix_leaf_id`: an automorphism that preserves the root colouring and fixes a whole path to a leaf is the identity;
* `acov_node_aut`: `acov_root_aut` at an inner node of the first-leaf path;
* `pres_node_fix_path`, `pres_node_pres_root`: a permutation that preserves the colouring of the node of level `K` of a path
  fixes the first `K` vertices of the path and preserves the colouring of the root.
-/
namespace CanonF

/-- a monotone refinement is a refinement -/
theorem gfx_mono_refines {n : Nat} {c0 c : Array Nat} (hm : IR.Mono n c0 c) {u v : Nat} (hu : u < n) (hv : v < n)
    (e : IR.col c u = IR.col c v) : IR.col c0 u = IR.col c0 v := by
  rcases Nat.lt_trichotomy (IR.col c0 u) (IR.col c0 v) with h | h | h
  · have := hm u v hu hv h; omega
  · exact h
  · have := hm v u hv hu h; omega

/-- a list that is mapped to itself elementwise -/
theorem gfx_map_fix {σ : Nat → Nat} {l : List Nat} (h : ∀ (j v : Nat), l[j]? = some v → σ v = v) : l.map σ = l := by
  have : l.map σ = l.map id := by
    apply List.map_congr_left
    intro v hv
    obtain ⟨j, hj⟩ := List.getElem?_of_mem hv
    exact h j v hj
  rw [this, List.map_id]

/-- a permutation list that fixes every point is `List.range n` -/
theorem gfx_eq_range {n : Nat} {γ : List Nat} (hγ : γ.Perm (List.range n)) (h : ∀ v, v < n → γ.getD v 0 = v) :
    γ = List.range n := by
  have hl : γ.length = n := by simpa using hγ.length_eq
  apply List.ext_getElem (by simp [hl])
  intro i h1 h2
  have hi : i < n := by omega
  have := h i hi
  rw [List.getD_eq_getElem?_getD, List.getElem?_eq_getElem h1, Option.getD_some] at this
  rw [this, List.getElem_range]

/-- in the child obtained by individualising `v` the vertex `v` is alone in its cell -/
theorem gfx_child_single {n : Nat} {nb : Nbrs} {rf : Nat} (hnb : NbOK nb n) (ν : IR.St) (t : Nat) {v u : Nat}
    (hv : v < n) (hu : u < n)
    (e : IR.col (IR.childSt (irG n nb) rf ν t v).c u = IR.col (IR.childSt (irG n nb) rf ν t v).c v) : u = v := by
  have hv' : v < (irG n nb).n := hv
  have hu' : u < (irG n nb).n := hu
  have e' := IR.refine_refines (irG_wf hnb) rf (IR.individualise (irG n nb) ν t v) hu' hv' e
  rw [IR.ind_col ν t v hu', IR.ind_col ν t v hv', if_pos rfl] at e'
  by_contra hne
  rw [if_neg hne] at e'
  split_ifs at e' <;> omega

section
variable {n : Nat} {nb : Nbrs} {rf : Nat} {r : IR.St}

set_option linter.unusedVariables false in
/-- an automorphism that preserves the colouring of the root and fixes every vertex of a path to a leaf is the identity -/
theorem aut_fix_leaf_id (hnb : NbOK nb n) (hA : IR.InvA (irG n nb) r) (hD : IR.InvD (irG n nb) r) {vs γ : List Nat}
    (hγ : IsAutL nb n γ) (hcol : ∀ v, v < n → IR.col r.c (γ.getD v 0) = IR.col r.c v)
    (hp : IR.IsPath (irG n nb) rf r vs) (ht : IR.target (irG n nb) (IR.nodeAt (irG n nb) rf r vs) = none)
    (hfix : ∀ (j v : Nat), vs[j]? = some v → γ.getD v 0 = v) : γ = List.range n := by
  obtain ⟨τ, Rl⟩ := relabel_of_isAutL hnb hγ
  have hS : IR.SRel (irG n nb) (fun v => γ.getD v 0) r r := ⟨fun u hu => hcol u hu, rfl, rfl⟩
  obtain ⟨_, h2⟩ := IR.path_rel Rl rf vs hS hp
  rw [gfx_map_fix (σ := fun v => γ.getD v 0) hfix] at h2
  obtain ⟨_, hAl, _⟩ := IR.path_cells (irG_wf hnb) (rf := rf) vs r hA hD hp
  apply gfx_eq_range hγ.1
  intro v hv
  have hσ : γ.getD v 0 < n := Rl.σ_lt v hv
  exact IR.target_none_inj hAl ht (u := γ.getD v 0) (v := v) hσ hv (h2.1 v hv)

set_option linter.unusedVariables false in
/-- `acov_root_aut` at an inner node of the first-leaf path: an automorphism that preserves the colouring of the root and
fixes the first `K` vertices of the first-leaf path maps the first leaf to a leaf below `nodeL vsF K` -/
theorem acov_node_aut (hnb : NbOK nb n) {R : Nat → Nat → Prop} {vsF oF : List Nat} {K : Nat}
    (hp : IR.IsPath (irG n nb) rf r vsF) (ht : IR.target (irG n nb) (IR.nodeAt (irG n nb) rf r vsF) = none)
    (hc : (IR.nodeAt (irG n nb) rf r vsF).c = IR.tab n (fun v => oF.idxOf v)) (hoF : oF.Perm (List.range n))
    (hK : K ≤ vsF.length)
    (h : ACov n nb rf (IR.tab n (fun v => oF.idxOf v)) (certPos nb oF n) R (nodeL n nb rf r vsF K))
    {γ : List Nat} (hγ : IsAutL nb n γ) (hcol : ∀ v, v < n → IR.col r.c (γ.getD v 0) = IR.col r.c v)
    (hfix : ∀ j v, j < K → vsF[j]? = some v → γ.getD v 0 = v) :
    ∀ u, u < n → R u (γ.getD u 0) := by
  intro u hu
  obtain ⟨τ, Rl⟩ := relabel_of_isAutL hnb hγ
  have hS : IR.SRel (irG n nb) (fun v => γ.getD v 0) r r := ⟨fun u hu => hcol u hu, rfl, rfl⟩
  obtain ⟨h1, h2⟩ := IR.path_rel Rl rf vsF hS hp
  -- the image path starts with the first `K` vertices of the first-leaf path
  have hsplit : vsF.map (fun v => γ.getD v 0) = vsF.take K ++ (vsF.drop K).map (fun v => γ.getD v 0) := by
    conv_lhs => rw [← List.take_append_drop K vsF]
    rw [List.map_append]
    congr 1
    apply gfx_map_fix
    intro j v hj
    rw [List.getElem?_take] at hj
    split at hj
    · next hjK => exact hfix j v hjK hj
    · cases hj
  rw [hsplit] at h1 h2
  obtain ⟨hpre, hsuf⟩ := (bj_isPath_append (vsF.take K) r _).1 h1
  rw [bj_nodeAt_append (vsF.take K) r _ hpre] at h2
  have h2 : IR.SRel (irG n nb) (fun v => γ.getD v 0) (IR.nodeAt (irG n nb) rf r vsF)
      (IR.nodeAt (irG n nb) rf (nodeL n nb rf r vsF K) ((vsF.drop K).map (fun v => γ.getD v 0))) := h2
  have hsuf : IR.IsPath (irG n nb) rf (nodeL n nb rf r vsF K) ((vsF.drop K).map (fun v => γ.getD v 0)) := hsuf
  have hσu : γ.getD u 0 < n := Rl.σ_lt u hu
  apply h ((vsF.drop K).map (fun v => γ.getD v 0)) hsuf (by rw [IR.target_rel Rl h2]; exact ht)
    (by rw [IR.cert_rel Rl h2.1, hc]; exact cert_link hnb hoF) u (γ.getD u 0) hu hσu
  have := h2.1 u hu
  rw [hc] at this
  exact this.symm

set_option linter.unusedVariables false in
/-- a permutation that preserves the colouring of the node of level `K` of a path fixes the first `K` vertices of the
path (they are singleton cells of that node) … -/
theorem pres_node_fix_path (hnb : NbOK nb n) (hA : IR.InvA (irG n nb) r) (hD : IR.InvD (irG n nb) r) {vs γ : List Nat}
    {K : Nat} (hp : IR.IsPath (irG n nb) rf r vs) (hK : K ≤ vs.length) (hγ : γ.Perm (List.range n))
    (hcol : ∀ v, v < n → IR.col (nodeL n nb rf r vs K).c (γ.getD v 0) = IR.col (nodeL n nb rf r vs K).c v) :
    ∀ j v, j < K → vs[j]? = some v → γ.getD v 0 = v := by
  intro j v hj hv
  obtain ⟨hl, _, hmem⟩ := aut_perm_facts hγ
  -- the node of level `j + 1` is the child by `v` of the node of level `j`
  have hpj : IR.IsPath (irG n nb) rf r (vs.take (j + 1)) := IR.isPath_take vs r _ hp
  have e : vs.take (j + 1) = vs.take j ++ [v] := by rw [List.take_add_one, hv]; rfl
  rw [e] at hpj
  obtain ⟨_, t, htj, hvm⟩ := (IR.isPath_snoc (vs.take j) r v).1 hpj
  have hvn : v < n := (IR.mem_cellMembers.1 hvm).1
  have hsucc : nodeL n nb rf r vs (j + 1) = IR.childSt (irG n nb) rf (nodeL n nb rf r vs j) t v :=
    nodeL_succ hp hv htj
  -- the node of level `K` lies below the node of level `j + 1`
  have hK' : vs.take K = vs.take (j + 1) ++ (vs.take K).drop (j + 1) := by
    have := (List.take_append_drop (j + 1) (vs.take K)).symm
    rwa [List.take_take, Nat.min_eq_left (by omega)] at this
  have hpK : IR.IsPath (irG n nb) rf r (vs.take K) := IR.isPath_take vs r _ hp
  rw [hK'] at hpK
  obtain ⟨hpre, hsuf⟩ := (bj_isPath_append (vs.take (j + 1)) r _).1 hpK
  have hnode : nodeL n nb rf r vs K =
      IR.nodeAt (irG n nb) rf (nodeL n nb rf r vs (j + 1)) ((vs.take K).drop (j + 1)) := by
    show IR.nodeAt (irG n nb) rf r (vs.take K) = _
    rw [hK', bj_nodeAt_append (vs.take (j + 1)) r _ hpre]
    rw [← hK']
    rfl
  have hmono := path_mono hnb rf ((vs.take K).drop (j + 1)) (nodeL n nb rf r vs (j + 1)) hsuf
  rw [← hnode] at hmono
  have hσ : γ.getD v 0 < n := (hmem _).1 (prl_getD_mem (by omega))
  have e1 := gfx_mono_refines hmono hσ hvn (hcol v hvn)
  rw [hsucc] at e1
  exact gfx_child_single hnb _ t hvn hσ e1

/-- … and preserves the colouring of the root (the node refines the root: `path_mono`) -/
theorem pres_node_pres_root (hnb : NbOK nb n) {vs γ : List Nat} {K : Nat} (hp : IR.IsPath (irG n nb) rf r vs)
    (hγ : γ.Perm (List.range n))
    (hcol : ∀ v, v < n → IR.col (nodeL n nb rf r vs K).c (γ.getD v 0) = IR.col (nodeL n nb rf r vs K).c v) :
    ∀ v, v < n → IR.col r.c (γ.getD v 0) = IR.col r.c v := by
  intro v hv
  obtain ⟨hl, _, hmem⟩ := aut_perm_facts hγ
  have hσ : γ.getD v 0 < n := (hmem _).1 (prl_getD_mem (by omega))
  have hmono : IR.Mono n r.c (nodeL n nb rf r vs K).c :=
    path_mono hnb rf (vs.take K) r (IR.isPath_take vs r K hp)
  exact gfx_mono_refines hmono hσ hv (hcol v hv)

end
end CanonF
