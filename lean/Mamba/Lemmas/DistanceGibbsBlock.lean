import Mamba.Lemmas.DistanceGibbsCodes
/-!
# Gibbs' loop on the fundamental cycles of a block
-/
namespace GDist
open GraphSpec Model

/-- step 3 only removes elements of `R` -/
theorem gibbsStep3_subset : ∀ (j : Nat) (R : Array (List Nat)) (P : List (List Nat)) (R' : Array (List Nat))
    (P' : List (List Nat)), gibbsStep3 j R P = .ok (R', P') → ∀ x ∈ R'.toList, x ∈ R.toList := by
  intro j
  induction j with
  | zero =>
    intro R P R' P' h x hx
    simp only [gibbsStep3, Outcome.ok.injEq, Prod.mk.injEq] at h
    rw [h.1]; exact hx
  | succ j ih =>
    intro R P R' P' h x hx
    unfold gibbsStep3 at h
    split at h
    · next hj =>
      simp only at h
      split at h
      · have := ih _ _ _ _ h x hx
        simp only [Array.toList_pop, Array.toList_set] at this
        have h1 := List.mem_of_mem_dropLast this
        rcases List.mem_or_eq_of_mem_set h1 with h2 | h2
        · exact h2
        · rw [h2]; exact Array.getElem_mem_toList _
      · exact ih _ _ _ _ h x hx
    · cases h

/-- `S ⊆ Q` along Gibbs' loop -/
theorem gibbsLoop_S_sub_Q : ∀ (fcs : List (List Nat)) (st : GibbsSt), (∀ V ∈ st.S, V ∈ st.Q) →
    ∀ gs, gibbsLoop fcs st = .ok gs → ∀ V ∈ gs.S, V ∈ gs.Q := by
  intro fcs
  induction fcs with
  | nil =>
    intro st h gs hres
    simp only [gibbsLoop] at hres
    cases hres; exact h
  | cons fc fcs ih =>
    intro st h gs hres
    unfold gibbsLoop at hres
    simp only at hres
    split at hres
    · next R' P' hstep =>
      refine ih _ ?_ gs hres
      intro V hV
      simp only [List.mem_append, List.mem_singleton] at hV ⊢
      rcases hV with (hV | hV) | hV
      · exact .inl (.inl (h V hV))
      · have := gibbsStep3_subset _ _ _ _ _ hstep V hV
        simp only [List.mem_map] at this
        obtain ⟨p, hp, rfl⟩ := this
        exact .inl (.inr (List.mem_map.2 ⟨p, (List.mem_filter.1 hp).1, rfl⟩))
      · exact .inr hV
    · cases hres
    · cases hres

theorem qinv_init {f0 : List Nat} (h : f0.Pairwise (· < ·)) : QInv [f0] [f0] := by
  refine ⟨?_, ?_, by simp⟩
  · intro t ht
    simp at ht; subst ht
    exact ⟨[t], by simp, List.Sublist.refl _, isXorOf_single h⟩
  · intro I hI hsub
    have : I = [f0] := by
      cases I with
      | nil => exact absurd rfl hI
      | cons i I' =>
        have hl := hsub.length_le
        have : I' = [] := by
          cases I' with
          | nil => rfl
          | cons _ _ => simp at hl
        subst this
        have := hsub.subset (List.mem_cons_self)
        simp at this; rw [this]
    subst this
    exact ⟨f0, by simp, isXorOf_single h⟩

/-- **Gibbs' loop on the fundamental cycles of a block**: `Q` is the list of all non-empty XOR combinations, every
element of `Q` has even degrees, `S ⊆ Q` -/
theorem gibbs_on_block (a : G) (hsym : ∀ u v, a.adj u v = a.adj v u) (hirr : ∀ v, a.adj v v = false)
    (hn : 0 < a.n) (fuel : Nat) (st : PatonSt) (hres : patonLoop a fuel (patonInit a.n) = .ok st)
    (f0 : List Nat) (fs : List (List Nat)) (hfund : st.fund = f0 :: fs) (gs : GibbsSt)
    (hg : gibbsLoop fs { S := [f0], Q := [f0] } = .ok gs) :
    QInv (f0 :: fs) gs.Q ∧ (∀ t ∈ gs.Q, EvenSet a.n t) ∧ (∀ V ∈ gs.S, V ∈ gs.Q) := by
  have hs := paton_fund_sound a hsym hirr hn fuel st hres
  rw [hfund] at hs
  have h0 := hs f0 List.mem_cons_self
  have hfs : ∀ f ∈ fs, IsCycCode a f := fun f hf => hs f (List.mem_cons_of_mem _ hf)
  refine ⟨?_, ?_, ?_⟩
  · have := gibbsLoop_Q fs _ [f0] (qinv_init (isCycCode_strict h0)) (fun f hf => isCycCode_strict (hfs f hf)) gs hg
    simpa using this
  · exact gibbsLoop_Q_closed (EvenSet a.n) (fun s t => even_sXor) fs _
      (fun t ht => by simp at ht; subst ht; exact isCycCode_even h0)
      (fun f hf => isCycCode_even (hfs f hf)) gs hg
  · exact gibbsLoop_S_sub_Q fs _ (fun V hV => hV) gs hg

end GDist
