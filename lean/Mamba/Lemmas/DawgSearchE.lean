import Mamba.Lemmas.DawgSearchA
/-!
# C13 helper lemmas, part E: `AnagramSearcher`

An `AnagramSearcher` may hold several `letterCount` entries for one letter (the odd comparator of the `sort.Slice`
call in `NewAnagramSearcher` can leave equal letters apart, and the `i > 1` test never merges the first two
elements), and `Backstep` gives a letter back to the *first* entry with that letter, not necessarily the one `Step`
took it from. All statements are therefore about the per-letter totals `tot`.
-/
namespace DawgSearch
open AnagramSearcher

/-- total count recorded for letter `c` (an `AnagramSearcher` may hold several entries for one letter) -/
def tot : List LetterCount → UInt8 → Int
  | [], _ => 0
  | e :: r, c => (if e.letter = c then e.count else 0) + tot r c

def NonNeg (cs : List LetterCount) : Prop := ∀ e ∈ cs, 0 ≤ e.count

theorem tot_nonneg : ∀ (cs : List LetterCount) (c : UInt8), NonNeg cs → 0 ≤ tot cs c
  | [], _, _ => by simp [tot]
  | e :: r, c, h => by
    have := tot_nonneg r c (fun x hx => h x (by simp [hx]))
    have := h e (by simp)
    simp only [tot]; split <;> omega

theorem hasLetter_iff : ∀ (cs : List LetterCount) (b : UInt8), NonNeg cs → (hasLetter cs b = true ↔ 0 < tot cs b)
  | [], _, _ => by simp [hasLetter, tot]
  | e :: r, b, h => by
    have ih := hasLetter_iff r b (fun x hx => h x (by simp [hx]))
    have h0 := h e (by simp)
    have hr := tot_nonneg r b (fun x hx => h x (by simp [hx]))
    simp only [hasLetter, tot]
    by_cases hl : e.letter = b
    · by_cases hc : e.count > 0
      · simp [hl, hc]; omega
      · simp only [hl, beq_self_eq_true, hc, decide_false, Bool.and_false, Bool.false_eq_true, if_false, ih,
          if_true]
        omega
    · simp [hl, ih]

theorem takeLetter_none : ∀ (cs : List LetterCount) (b : UInt8), takeLetter cs b = none ↔ hasLetter cs b = false
  | [], _ => by simp [takeLetter, hasLetter]
  | e :: r, b => by
    have ih := takeLetter_none r b
    simp only [takeLetter, hasLetter]
    split <;> simp [ih]

theorem takeLetter_some : ∀ (cs cs' : List LetterCount) (b : UInt8), NonNeg cs → takeLetter cs b = some cs' →
    NonNeg cs' ∧ (∀ c, tot cs' c = tot cs c - (if c = b then 1 else 0)) ∧
      cs'.map (·.letter) = cs.map (·.letter)
  | [], _, _, _, h => by simp [takeLetter] at h
  | e :: r, cs', b, hn, h => by
    simp only [takeLetter] at h
    split at h
    · rename_i hc
      simp only [Bool.and_eq_true, beq_iff_eq, decide_eq_true_eq] at hc
      cases h
      refine ⟨?_, ?_, by simp⟩
      · intro x hx
        simp only [List.mem_cons] at hx
        rcases hx with rfl | hx
        · simp; omega
        · exact hn x (by simp [hx])
      · intro c
        simp only [tot, hc.1]
        by_cases hcb : c = b
        · subst hcb; simp; omega
        · have : ¬ b = c := fun h => hcb h.symm
          simp [hcb, this]
    · cases ht : takeLetter r b with
      | none => simp [ht] at h
      | some r' =>
        simp only [ht, Option.map_some, Option.some.injEq] at h
        subst h
        obtain ⟨h1, h2, h3⟩ := takeLetter_some r r' b (fun x hx => hn x (by simp [hx])) ht
        refine ⟨?_, ?_, by simp [h3]⟩
        · intro x hx
          simp only [List.mem_cons] at hx
          rcases hx with rfl | hx
          · exact hn _ (by simp)
          · exact h1 x hx
        · intro c
          simp only [tot, h2 c]; omega

theorem giveLetter_spec : ∀ (cs : List LetterCount) (b : UInt8), NonNeg cs → b ∈ cs.map (·.letter) →
    NonNeg (giveLetter cs b) ∧ (∀ c, tot (giveLetter cs b) c = tot cs c + (if c = b then 1 else 0)) ∧
      (giveLetter cs b).map (·.letter) = cs.map (·.letter)
  | [], _, _, h => by simp at h
  | e :: r, b, hn, hm => by
    simp only [giveLetter]
    by_cases hl : e.letter = b
    · simp only [hl, beq_self_eq_true, if_true]
      refine ⟨?_, ?_, by simp [hl]⟩
      · intro x hx
        simp only [List.mem_cons] at hx
        rcases hx with rfl | hx
        · have := hn e (by simp); simp; omega
        · exact hn x (by simp [hx])
      · intro c
        simp only [tot, hl]
        by_cases hcb : c = b
        · subst hcb; simp; omega
        · have : ¬ b = c := fun h => hcb h.symm
          simp [hcb, this]
    · have hm' : b ∈ r.map (·.letter) := by
        simp only [List.map_cons, List.mem_cons] at hm
        rcases hm with h | h
        · exact absurd h.symm hl
        · exact h
      obtain ⟨h1, h2, h3⟩ := giveLetter_spec r b (fun x hx => hn x (by simp [hx])) hm'
      have hlb : (e.letter == b) = false := by simp [hl]
      simp only [hlb, Bool.false_eq_true, if_false]
      refine ⟨?_, ?_, by simp [h3]⟩
      · intro x hx
        simp only [List.mem_cons] at hx
        rcases hx with rfl | hx
        · exact hn _ (by simp)
        · exact h1 x hx
      · intro c
        simp only [tot, h2 c]; omega

/-- letters still available after the (reversed) path `rp`, starting from the multiset `L` -/
def remL (L : List UInt8) : Word → List UInt8
  | [] => L
  | c :: rp => (remL L rp).erase c

/-- blanks still available after the path -/
def blanksLeft (L : List UInt8) (B : Int) : Word → Int
  | [] => B
  | c :: rp => if c ∈ remL L rp then blanksLeft L B rp else blanksLeft L B rp - 1

/-- the searcher's `currPath` (last element first) after the path -/
def pathOf (L : List UInt8) (blank : UInt8) : Word → List UInt8
  | [] => []
  | c :: rp => (if c ∈ remL L rp then c else blank) :: pathOf L blank rp

theorem pathOf_length (L : List UInt8) (blank : UInt8) : ∀ rp, (pathOf L blank rp).length = rp.length
  | [] => rfl
  | c :: rp => by simp [pathOf, pathOf_length L blank rp]

theorem remL_subset (L : List UInt8) : ∀ rp c, c ∈ remL L rp → c ∈ L
  | [], _, h => h
  | _ :: rp, c, h => remL_subset L rp c (List.mem_of_mem_erase h)

/-- what an `AnagramSearcher` with letters `L` (no blank among them), `B` blanks and target length `n` does as a
function of the path -/
def anagramSpec (L : List UInt8) (B : Int) (blank : UInt8) (n : Nat) : Spec SState where
  R rp s := ∃ a, s = .ana a ∧ a.blank = blank ∧ a.targetLength = n ∧ a.currPath = pathOf L blank rp ∧
    a.blanks = blanksLeft L B rp ∧ NonNeg a.counts ∧ (∀ c, tot a.counts c = (remL L rp).count c) ∧
    (∀ c ∈ L, c ∈ a.counts.map (·.letter))
  A rp c := decide (rp.length < n) && (decide (0 < blanksLeft L B rp) || decide (c ∈ remL L rp))
  W rp := n == rp.length

theorem anagramSpec_lawful (L : List UInt8) (B : Int) (blank : UInt8) (n : Nat) (hb : blank ∉ L) :
    Lawful goOps (anagramSpec L B blank n) where
  allowStep := by
    rintro rp s c ⟨a, rfl, h1, h2, h3, h4, h5, h6, h7⟩
    simp only [goOps, AnagramSearcher.allowStep, anagramSpec, h2, h3, pathOf_length, h4]
    by_cases hn : n ≤ rp.length
    · have : ¬ rp.length < n := by omega
      simp [hn, this]
    · have : rp.length < n := by omega
      simp only [hn, if_false, this, decide_true, Bool.true_and]
      by_cases hbl : 0 < blanksLeft L B rp
      · simp [hbl]
      · have : ¬ blanksLeft L B rp > 0 := hbl
        simp only [this, if_false, decide_false, Bool.false_or]
        congr 1
        rw [Bool.eq_iff_iff, hasLetter_iff _ _ h5, h6 c]
        simp [List.count_pos_iff]
  step := by
    rintro rp s c ⟨a, rfl, h1, h2, h3, h4, h5, h6, h7⟩ _
    simp only [goOps, AnagramSearcher.step]
    cases ht : takeLetter a.counts c with
    | none =>
      have hnot : c ∉ remL L rp := by
        intro hc
        have := (hasLetter_iff a.counts c h5).2 (by rw [h6 c]; exact_mod_cast List.count_pos_iff.2 hc)
        rw [(takeLetter_none _ _).1 ht] at this
        exact Bool.false_ne_true this
      refine ⟨_, rfl, _, rfl, h1, h2, ?_, ?_, h5, ?_, h7⟩
      · simp [pathOf, hnot, h3, h1]
      · simp [blanksLeft, hnot, h4]
      · intro d; simp [remL, List.erase_of_not_mem hnot, h6 d]
    | some cs' =>
      have hin : c ∈ remL L rp := by
        have hh : hasLetter a.counts c = true := by
          cases hx : hasLetter a.counts c with
          | true => rfl
          | false => rw [(takeLetter_none _ _).2 hx] at ht; cases ht
        have := (hasLetter_iff a.counts c h5).1 hh
        rw [h6 c] at this
        exact List.count_pos_iff.1 (by exact_mod_cast this)
      obtain ⟨g1, g2, g3⟩ := takeLetter_some a.counts cs' c h5 ht
      refine ⟨_, rfl, _, rfl, h1, h2, ?_, ?_, g1, ?_, ?_⟩
      · simp [pathOf, hin, h3]
      · simp [blanksLeft, hin, h4]
      · intro d
        simp only [g2 d, h6 d, remL]
        by_cases hdc : d = c
        · subst hdc
          have := List.count_pos_iff.2 hin
          simp [List.count_erase_self]; omega
        · have : (d == c) = false := by simp [hdc]
          simp [hdc, List.count_erase_of_ne hdc]
      · simpa [g3] using h7
  backstep := by
    rintro rp s c ⟨a, rfl, h1, h2, h3, h4, h5, h6, h7⟩
    simp only [goOps, AnagramSearcher.backstep, h3, pathOf]
    by_cases hin : c ∈ remL L rp
    · have hcb : c ≠ blank := fun h => hb (h ▸ remL_subset L rp c hin)
      have hcb' : (c == a.blank) = false := by simp [h1, hcb]
      simp only [hin, if_true, hcb', Bool.false_eq_true, if_false, Outcome.bind_ok, Outcome.pure_eq]
      obtain ⟨g1, g2, g3⟩ := giveLetter_spec a.counts c h5 (h7 c (remL_subset L rp c hin))
      refine ⟨_, rfl, _, rfl, h1, h2, rfl, ?_, g1, ?_, ?_⟩
      · simpa [blanksLeft, hin] using h4
      · intro d
        have := h6 d
        simp only [remL] at this
        rw [g2 d, this]
        by_cases hdc : d = c
        · subst hdc
          have := List.count_pos_iff.2 hin
          simp [List.count_erase_self]; omega
        · simp [hdc, List.count_erase_of_ne hdc]
      · simpa [g3] using h7
    · simp only [hin, if_false, h1, beq_self_eq_true, if_true, Outcome.bind_ok, Outcome.pure_eq]
      refine ⟨_, rfl, _, rfl, rfl, h2, rfl, ?_, h5, ?_, h7⟩
      · simp only [blanksLeft, hin, if_false] at h4
        simp [h4]
      · intro d
        have := h6 d
        simpa [remL, List.erase_of_not_mem hin] using this
  allowWord := by
    rintro rp s ⟨a, rfl, h1, h2, h3, h4, h5, h6, h7⟩
    simp [goOps, AnagramSearcher.allowWord, anagramSpec, h2, h3, pathOf_length]
  chosen := by
    rintro rp s ⟨a, rfl, h⟩
    exact ⟨.ana a, rfl, a, rfl, h⟩

theorem anagramSpec_accFrom (L : List UInt8) (B : Int) (blank : UInt8) (n : Nat) : ∀ (w rp : Word),
    0 ≤ blanksLeft L B rp →
    ((anagramSpec L B blank n).accFrom rp w = true ↔
      rp.length + w.length = n ∧ (deficit (remL L rp) w : Int) ≤ blanksLeft L B rp)
  | [], rp, h0 => by
    have hW : (anagramSpec L B blank n).W rp = (n == rp.length) := rfl
    simp only [Spec.accFrom, hW, deficit, beq_iff_eq, List.length_nil]
    constructor
    · intro h; exact ⟨by omega, by simpa using h0⟩
    · intro h; omega
  | c :: w, rp, h0 => by
    have hA : (anagramSpec L B blank n).A rp c
        = (decide (rp.length < n) && (decide (0 < blanksLeft L B rp) || decide (c ∈ remL L rp))) := rfl
    simp only [Spec.accFrom, Bool.and_eq_true, hA, decide_eq_true_eq, Bool.or_eq_true, List.length_cons]
    by_cases hin : c ∈ remL L rp
    · have e1 : remL L (c :: rp) = (remL L rp).erase c := rfl
      have e2 : blanksLeft L B (c :: rp) = blanksLeft L B rp := by simp [blanksLeft, hin]
      have e3 : deficit (remL L rp) (c :: w) = deficit ((remL L rp).erase c) w := by simp [deficit, hin]
      have ih := anagramSpec_accFrom L B blank n w (c :: rp) (by rw [e2]; exact h0)
      rw [ih, e1, e2, e3]
      simp only [hin, or_true, and_true, List.length_cons]
      constructor
      · rintro ⟨h1, h2, h3⟩; exact ⟨by omega, h3⟩
      · rintro ⟨h1, h3⟩; exact ⟨by omega, by omega, h3⟩
    · have e1 : remL L (c :: rp) = remL L rp := by simp [remL, List.erase_of_not_mem hin]
      have e2 : blanksLeft L B (c :: rp) = blanksLeft L B rp - 1 := by simp [blanksLeft, hin]
      have e3 : deficit (remL L rp) (c :: w) = deficit (remL L rp) w + 1 := by simp [deficit, hin]
      rw [e3]
      simp only [hin, or_false]
      by_cases hpos : 0 < blanksLeft L B rp
      · have ih := anagramSpec_accFrom L B blank n w (c :: rp) (by rw [e2]; omega)
        rw [ih, e1, e2]
        simp only [List.length_cons]
        constructor
        · rintro ⟨⟨h1, _⟩, h2, h3⟩; refine ⟨by omega, ?_⟩; push_cast; omega
        · rintro ⟨h1, h3⟩
          push_cast at h3
          exact ⟨⟨by omega, by omega⟩, by omega, by omega⟩
      · constructor
        · rintro ⟨⟨_, h⟩, _⟩; exact absurd h hpos
        · rintro ⟨_, h3⟩; push_cast at h3; omega

theorem anagramSpec_accepts (L : List UInt8) (B : Nat) (blank : UInt8) (n : Nat) (w : Word) :
    (anagramSpec L B blank n).accepts w = (w.length == n && decide (deficit L w ≤ B)) := by
  rw [Bool.eq_iff_iff, Spec.accepts, anagramSpec_accFrom L B blank n w [] (by simp [blanksLeft])]
  simp [remL, blanksLeft]

theorem swapAdj_perm : ∀ (l : List UInt8) (j : Nat), (swapAdj l j).Perm l
  | [], _ => by simp [swapAdj]
  | [a], 0 => by simp [swapAdj]
  | a :: b :: r, 0 => by simpa [swapAdj] using List.Perm.swap a b r
  | a :: r, j + 1 => by
    cases r with
    | nil => simp [swapAdj]
    | cons b r' => simpa [swapAdj] using swapAdj_perm (b :: r') j

theorem insInner_perm (orig : List UInt8) : ∀ (j : Nat) (tmp : List UInt8), (insInner orig tmp j).Perm tmp
  | 0, tmp => by simp [insInner]
  | j + 1, tmp => by
    simp only [insInner]
    split
    · split
      · exact (insInner_perm orig j _).trans (swapAdj_perm tmp j)
      · exact List.Perm.refl _
    · exact List.Perm.refl _

theorem insOuter_perm (orig : List UInt8) : ∀ (k i : Nat) (tmp : List UInt8), (insOuter orig tmp i k).Perm tmp
  | 0, _, tmp => by simp [insOuter]
  | k + 1, i, tmp => by
    simp only [insOuter]
    exact (insOuter_perm orig k (i + 1) _).trans (insInner_perm orig i tmp)

theorem quirkSort_perm (a : List UInt8) : (quirkSort a).Perm a := insOuter_perm a _ _ _

theorem tot_append (cs ds : List LetterCount) (c : UInt8) : tot (cs ++ ds) c = tot cs c + tot ds c := by
  induction cs with
  | nil => simp [tot]
  | cons e r ih => simp only [List.cons_append, tot, ih]; omega

/-- `bumpLast` on a list whose last entry has letter `x` -/
theorem bumpLast_spec : ∀ (cs : List LetterCount) (e : LetterCount),
    bumpLast (cs ++ [e]) = .ok (cs ++ [{ e with count := e.count + 1 }])
  | [], e => rfl
  | [d], e => by simp [bumpLast]
  | d :: d' :: r, e => by
    have := bumpLast_spec (d' :: r) e
    simp only [List.cons_append] at this ⊢
    simp [bumpLast, this]

/-- the invariant of the counting loop: if the previous element was a non-blank letter, it is the letter of the
last entry -/
def LastIs (blank : UInt8) (prev : Option UInt8) (cs : List LetterCount) : Prop :=
  ∀ x, prev = some x → x ≠ blank → ∃ init e, cs = init ++ [e] ∧ e.letter = x

theorem countLoop_spec (blank : UInt8) : ∀ (tmp : List UInt8) (i : Nat) (prev : Option UInt8)
    (cs : List LetterCount) (bl : Int), NonNeg cs → LastIs blank prev cs →
    ∃ cs' bl', countLoop blank tmp i prev cs bl = .ok (cs', bl') ∧ NonNeg cs' ∧
      bl' = bl + (tmp.filter (· == blank)).length ∧
      (∀ c, tot cs' c = tot cs c + (tmp.filter (· != blank)).count c) ∧
      (∀ c, c ∈ cs.map (·.letter) ∨ c ∈ tmp.filter (· != blank) → c ∈ cs'.map (·.letter))
  | [], i, prev, cs, bl, hn, _ => ⟨cs, bl, rfl, hn, by simp, by simp, by simp⟩
  | l :: r, i, prev, cs, bl, hn, hlast => by
    simp only [countLoop]
    by_cases hb : l = blank
    · subst hb
      obtain ⟨cs', bl', h1, h2, h3, h4, h5⟩ := countLoop_spec l r (i + 1) (some l) cs (bl + 1) hn
        (fun x hx hne => by cases hx; exact absurd rfl hne)
      refine ⟨cs', bl', by simp [h1], h2, ?_, ?_, ?_⟩
      · simp [h3]; omega
      · intro c; simp [h4 c]
      · intro c hc; apply h5; simpa using hc
    · have hb' : (l == blank) = false := by simp [hb]
      have hne : (l != blank) = true := by simp [hb]
      simp only [hb', Bool.false_eq_true, if_false]
      by_cases hq : (decide (i > 1) && prev == some l) = true
      · simp only [hq, if_true]
        simp only [Bool.and_eq_true, decide_eq_true_eq, beq_iff_eq] at hq
        obtain ⟨init, e, hcs, hel⟩ := hlast l hq.2 hb
        subst hcs
        rw [bumpLast_spec]
        simp only [Outcome.bind_ok]
        have hn' : NonNeg (init ++ [{ e with count := e.count + 1 }]) := by
          intro x hx
          simp only [List.mem_append, List.mem_singleton] at hx
          rcases hx with hx | rfl
          · exact hn x (by simp [hx])
          · have := hn e (by simp); simp; omega
        obtain ⟨cs', bl', h1, h2, h3, h4, h5⟩ := countLoop_spec blank r (i + 1) (some l)
          (init ++ [{ e with count := e.count + 1 }]) bl hn'
          (fun x hx _ => by cases hx; exact ⟨init, _, rfl, hel⟩)
        refine ⟨cs', bl', h1, h2, ?_, ?_, ?_⟩
        · simp [h3, hb']
        · intro c
          rw [h4 c]
          simp only [tot_append, tot, hel, List.filter_cons, hne, if_true, List.count_cons]
          by_cases hlc : l = c <;> simp [hlc] <;> omega
        · intro c hc
          apply h5
          have hm : (init ++ [{ e with count := e.count + 1 }]).map LetterCount.letter
              = (init ++ [e]).map LetterCount.letter := by
            simp
          rcases hc with hc | hc
          · left; rw [hm]; exact hc
          · simp only [List.filter_cons, hne, if_true] at hc
            rcases List.mem_cons.1 hc with rfl | hc
            · left; rw [hm]; simp [hel]
            · right; exact hc
      · have hq' : (decide (i > 1) && prev == some l) = false := by simpa using hq
        simp only [hq', Bool.false_eq_true, if_false]
        have hn' : NonNeg (cs ++ [⟨l, 1⟩]) := by
          intro x hx
          simp only [List.mem_append, List.mem_singleton] at hx
          rcases hx with hx | rfl
          · exact hn x hx
          · simp
        obtain ⟨cs', bl', h1, h2, h3, h4, h5⟩ := countLoop_spec blank r (i + 1) (some l)
          (cs ++ [⟨l, 1⟩]) bl hn' (fun x hx _ => by cases hx; exact ⟨cs, _, rfl, rfl⟩)
        refine ⟨cs', bl', h1, h2, ?_, ?_, ?_⟩
        · simp [h3, hb']
        · intro c
          rw [h4 c]
          simp only [tot_append, tot, List.filter_cons, hne, if_true, List.count_cons]
          by_cases hlc : l = c <;> simp [hlc] <;> omega
        · intro c hc
          apply h5
          rcases hc with hc | hc
          · left; simp only [List.map_append, List.mem_append]; exact Or.inl hc
          · simp only [List.filter_cons, hne, if_true] at hc
            rcases List.mem_cons.1 hc with rfl | hc
            · left; simp
            · right; exact hc

/-- the non-blank letters of an anagram string -/
def anagramLetters (blank : UInt8) (anagram : List UInt8) : List UInt8 := anagram.filter (· != blank)
/-- the number of blanks of an anagram string -/
def anagramBlanks (blank : UInt8) (anagram : List UInt8) : Nat := (anagram.filter (· == blank)).length

theorem blank_not_mem_anagramLetters (blank : UInt8) (anagram : List UInt8) :
    blank ∉ anagramLetters blank anagram := by
  simp [anagramLetters]

/-- `NewAnagramSearcher` never panics and returns a searcher in a legitimate initial state, whatever permutation
its odd `sort.Slice` call produces -/
theorem newAnagramSearcher_spec (anagram : List UInt8) (blank : UInt8) :
    ∃ a0, newAnagramSearcher anagram blank = .ok a0 ∧
      (anagramSpec (anagramLetters blank anagram) (anagramBlanks blank anagram) blank anagram.length).R []
        (.ana a0) := by
  obtain ⟨cs', bl', h1, h2, h3, h4, h5⟩ := countLoop_spec blank (quirkSort anagram) 0 none [] 0
    (by intro x hx; simp at hx) (by intro x hx; cases hx)
  have hp := quirkSort_perm anagram
  refine ⟨⟨cs', bl', blank, anagram.length, []⟩, by simp [newAnagramSearcher, h1], _, rfl, rfl, rfl, rfl, ?_, h2,
    ?_, ?_⟩
  · simp only [blanksLeft, h3, anagramBlanks]
    rw [(hp.filter _).length_eq]; simp
  · intro c
    simp only [h4 c, tot, remL, anagramLetters]
    rw [(hp.filter _).count_eq]; simp
  · intro c hc
    apply h5
    right
    exact ((hp.filter _).mem_iff).2 hc

end DawgSearch
