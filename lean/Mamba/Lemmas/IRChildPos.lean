import Mamba.Lemmas.IRLeafPrefix
/-!
# The individualised vertex sits at the position of the target cell in every leaf below the child

`child_pos`: in every leaf below the child obtained by individualising `v` in the target cell `t` of the node `s`, the
vertex `v` has position `t`. The cells before the target cell are singletons (`target_prefix_single`) and non-empty
(`cell_nonempty`, from `InvA`/`InvD`); the leaf is a permutation (`isPerm_of_leaf`) refining the individualised colouring
monotonically (`path_mono'`), so `mono_singleton_prefix` applies with `s := t + 1`.
-/
namespace IR
open Finset

theorem target_prefix_single {g : G} {s : St} {t : Nat} (ht : target g s = some t) :
    ∀ x, x < t → (cellMembers g s.c x).length ≤ 1 := by
  unfold target at ht
  obtain ⟨_, _, h⟩ := List.find?_range_eq_some.1 ht
  intro x hx
  have := h x hx
  simp only [gt_iff_lt, Bool.not_eq_eq_eq_not, Bool.not_true, decide_eq_false_iff_not, Nat.not_lt] at this
  exact this

theorem eq_of_mem_length_le_one {l : List Nat} (h : l.length ≤ 1) {a b : Nat} (ha : a ∈ l) (hb : b ∈ l) : a = b := by
  match l, h with
  | [], _ => cases ha
  | [x], _ =>
    simp only [List.mem_singleton] at ha hb
    rw [ha, hb]
  | _ :: _ :: _, h => simp at h

/-- every colour below `s.cells` occurs -/
theorem cell_nonempty {g : G} {s : St} (hA : InvA g s) (hD : InvD g s) {p : Nat} (hp : p < s.cells) :
    ∃ u, u < g.n ∧ col s.c u = p := by
  have hsub : (Finset.range g.n).image (col s.c) ⊆ Finset.range s.cells := by
    intro y hy
    obtain ⟨u, hu, rfl⟩ := Finset.mem_image.1 hy
    exact Finset.mem_range.2 (hA u (Finset.mem_range.1 hu))
  have heq := Finset.eq_of_subset_of_card_le hsub (by
    have : ((Finset.range g.n).image (col s.c)).card = s.cells := hD
    rw [this, Finset.card_range])
  have : p ∈ (Finset.range g.n).image (col s.c) := by rw [heq]; exact Finset.mem_range.2 hp
  obtain ⟨u, hu, e⟩ := Finset.mem_image.1 this
  exact ⟨u, Finset.mem_range.1 hu, e⟩

/-- a node without target cell is a permutation -/
theorem isPerm_of_leaf {g : G} {s : St} (hA : InvA g s) (hD : InvD g s) (ht : target g s = none) : IsPerm g.n s.c := by
  refine ⟨fun v hv => ?_, fun u v hu hv e => target_none_inj hA ht hu hv e⟩
  have := hA v hv
  have := D_le g.n s.c
  rw [hD] at this
  omega

/-- along a path the colouring is refined monotonically -/
theorem path_mono' {g : G} (hg : WF g) {rf : Nat} : ∀ (vs : List Nat) (s : St), IsPath g rf s vs →
    Mono g.n s.c (nodeAt g rf s vs).c := by
  intro vs
  induction vs with
  | nil => intro s _ u v _ _ h; exact h
  | cons x xs ih =>
    intro s hp
    obtain ⟨t, ht, hx, hp'⟩ := hp
    simp only [nodeAt, ht]
    exact ((ind_mono s (mem_cellMembers.1 hx).2).trans (refine_mono hg rf _)).trans (ih _ hp')

theorem child_pos {g : G} (hg : WF g) (rf : Nat) {s : St} (hA : InvA g s) (hD : InvD g s) {t v : Nat}
    (ht : target g s = some t) (hv : v ∈ cellMembers g s.c t) (vs : List Nat)
    (hpath : IsPath g rf (childSt g rf s t v) vs)
    (hleaf : target g (nodeAt g rf (childSt g rf s t v) vs) = none) :
    col (nodeAt g rf (childSt g rf s t v) vs).c v = t := by
  classical
  obtain ⟨htc, hlen⟩ := target_some ht
  obtain ⟨hvn, hvt⟩ := mem_cellMembers.1 hv
  have hA1 := ind_invA hA htc v
  have hD1 := ind_invD hA hD htc hv hlen
  have hinv := refine_inv rf _ ⟨hA1, hD1⟩
  obtain ⟨_, hAN, hDN⟩ := path_cells hg vs (childSt g rf s t v) hinv.1 hinv.2 hpath
  have hperm := isPerm_of_leaf hAN hDN hleaf
  have hmono : Mono g.n (individualise g s t v).c (nodeAt g rf (childSt g rf s t v) vs).c :=
    (refine_mono hg rf (individualise g s t v)).trans (path_mono' hg vs _ hpath)
  -- the vertex of colour `p` for `p < t`
  let f0 : Nat → Nat := fun p => if h : ∃ u, u < g.n ∧ col s.c u = p then Classical.choose h else 0
  have hf0 : ∀ p, p < s.cells → f0 p < g.n ∧ col s.c (f0 p) = p := by
    intro p hp
    have h := cell_nonempty hA hD hp
    simp only [f0, dif_pos h]
    exact Classical.choose_spec h
  let f : Nat → Nat := fun p => if p = t then v else f0 p
  have hf : ∀ p, p < t + 1 → f p < g.n ∧ col (individualise g s t v).c (f p) = p := by
    intro p hp
    by_cases e : p = t
    · simp only [f, if_pos e]
      rw [ind_col s t v hvn, if_pos rfl]
      exact ⟨hvn, e.symm⟩
    · simp only [f, if_neg e]
      obtain ⟨h1, h2⟩ := hf0 p (by omega)
      refine ⟨h1, ?_⟩
      have hne : f0 p ≠ v := by intro h; rw [h, hvt] at h2; exact e h2.symm
      rw [ind_col s t v h1, if_neg hne, h2]
      split_ifs <;> omega
  have hrest : ∀ u, u < g.n → (∀ p, p < t + 1 → u ≠ f p) → t + 1 ≤ col (individualise g s t v).c u := by
    intro u hu hne
    have huv : u ≠ v := by simpa [f] using hne t (by omega)
    rw [ind_col s t v hu, if_neg huv]
    by_cases h1 : col s.c u > t
    · rw [if_pos h1]; omega
    · rw [if_neg h1]
      by_cases h2 : col s.c u = t
      · rw [if_pos h2]
      · exfalso
        have hlt : col s.c u < t := by omega
        obtain ⟨h3, h4⟩ := hf0 (col s.c u) (by omega)
        have e := eq_of_mem_length_le_one (target_prefix_single ht _ hlt)
          (mem_cellMembers.2 ⟨hu, rfl⟩) (mem_cellMembers.2 ⟨h3, h4⟩)
        apply hne (col s.c u) (by omega)
        simp only [f, if_neg h2]
        exact e
  have hinj : ∀ p q, p < t + 1 → q < t + 1 → f p = f q → p = q := by
    intro p q hp hq e
    have h1 := (hf p hp).2
    rw [e, (hf q hq).2] at h1
    exact h1.symm
  have := mono_singleton_prefix hperm hmono hf hrest hinj t (by omega)
  simpa [f] using this

end IR
