import Mamba.Lemmas.SearchInv
namespace Search

/-- state of the `AddVertex` loop after processing `l`: positions `old+v` (v ∈ l) set to 1, degrees of `l` incremented -/
theorem addVertex_fold_spec (old : Nat) :
    ∀ (l : List Nat) (p q : Array Nat × Array Int), l.Nodup →
      l.foldlM (m := Outcome) (fun (p : Array Nat × Array Int) v =>
        if old + v < p.1.size ∧ v < p.2.size then
          Outcome.ok (p.1.setIfInBounds (old + v) 1, p.2.modify v (· + 1))
        else Outcome.panic) p = .ok q →
      (∀ v ∈ l, old + v < p.1.size ∧ v < p.2.size) ∧
      (∀ v ∈ l, q.1[old + v]? = some 1) ∧
      (∀ j, (∀ v ∈ l, j ≠ old + v) → q.1[j]? = p.1[j]?) ∧
      (∀ i ∈ l, q.2[i]? = (p.2[i]?).map (· + 1)) ∧
      (∀ i, i ∉ l → q.2[i]? = p.2[i]?)
  | [], p, q, _, h => by
    simp only [List.foldlM_nil] at h
    cases h
    simp
  | v :: vs, p, q, hnd, h => by
    simp only [List.foldlM_cons] at h
    by_cases hc : old + v < p.1.size ∧ v < p.2.size
    · simp only [hc, and_self, if_true] at h
      have hnd' := (List.nodup_cons.1 hnd)
      obtain ⟨h1, h2, h3, h4, h5⟩ := addVertex_fold_spec old vs _ q hnd'.2 h
      simp only [Array.size_setIfInBounds, Array.size_modify] at h1
      refine ⟨?_, ?_, ?_, ?_, ?_⟩
      · intro w hw
        rcases List.mem_cons.1 hw with rfl | hw
        · exact hc
        · exact h1 w hw
      · intro w hw
        rcases List.mem_cons.1 hw with rfl | hw
        · rw [h3 (old + w) (fun a ha he => hnd'.1 ((by omega : w = a) ▸ ha))]
          simp [Array.getElem?_setIfInBounds, hc.1]
        · exact h2 w hw
      · intro j hj
        rw [h3 j (fun a ha => hj a (List.mem_cons_of_mem _ ha))]
        have := hj v (List.mem_cons_self)
        simp [Array.getElem?_setIfInBounds, Ne.symm this]
      · intro i hi
        rcases List.mem_cons.1 hi with rfl | hi
        · rw [h5 i hnd'.1]
          simp [Array.getElem?_modify]
        · rw [h4 i hi]
          have : i ≠ v := fun e => hnd'.1 (e ▸ hi)
          simp [Array.getElem?_modify, Ne.symm this]
      · intro i hi
        have hiv : i ≠ v := fun e => hi (e ▸ List.mem_cons_self)
        rw [h5 i (fun hm => hi (List.mem_cons_of_mem _ hm))]
        simp [Array.getElem?_modify, Ne.symm hiv]
    · simp only [hc, if_false] at h
      cases h

end Search

namespace Search

theorem decNbrs_ok (edges : Array Nat) (base : Nat) :
    ∀ (l : List Nat) (d : Array Int), l.Nodup → (∀ i ∈ l, base + i < edges.size ∧ i < d.size) →
      ∃ d', decNbrs edges base l d = .ok d' ∧ d'.size = d.size ∧
        (∀ i ∈ l, edges.getD (base + i) 0 > 0 → d'[i]? = (d[i]?).map (· - 1)) ∧
        (∀ i, (i ∉ l ∨ edges.getD (base + i) 0 = 0) → d'[i]? = d[i]?)
  | [], d, _, _ => ⟨d, rfl, rfl, by simp, by simp⟩
  | i :: is, d, hnd, hb => by
    have hnd' := List.nodup_cons.1 hnd
    have hbi := hb i List.mem_cons_self
    have hb' : ∀ j ∈ is, base + j < edges.size ∧ j < d.size := fun j hj => hb j (List.mem_cons_of_mem _ hj)
    simp only [decNbrs, Array.getElem?_eq_getElem hbi.1]
    have hget : edges.getD (base + i) 0 = edges[base + i] := by
      simp [Array.getD_eq_getD_getElem?, Array.getElem?_eq_getElem hbi.1]
    by_cases hpos : edges[base + i] > 0
    · simp only [hpos, if_true, hbi.2]
      obtain ⟨d', h1, h2, h3, h4⟩ := decNbrs_ok edges base is (d.modify i (· - 1)) hnd'.2
        (fun j hj => by simpa using hb' j hj)
      refine ⟨d', h1, by simpa using h2, ?_, ?_⟩
      · intro j hj hp
        rcases List.mem_cons.1 hj with rfl | hj
        · rw [h4 j (Or.inl hnd'.1)]
          simp [Array.getElem?_modify]
        · rw [h3 j hj hp]
          have : j ≠ i := fun e => hnd'.1 (e ▸ hj)
          simp [Array.getElem?_modify, Ne.symm this]
      · intro j hj
        have hji : j ≠ i := by
          rintro rfl
          rcases hj with hj | hj
          · exact hj List.mem_cons_self
          · rw [hget] at hj; omega
        have : d'[j]? = (d.modify i (· - 1))[j]? := by
          apply h4
          rcases hj with hj | hj
          · exact Or.inl fun hm => hj (List.mem_cons_of_mem _ hm)
          · exact Or.inr hj
        rw [this]
        simp [Array.getElem?_modify, Ne.symm hji]
    · simp only [hpos, if_false]
      obtain ⟨d', h1, h2, h3, h4⟩ := decNbrs_ok edges base is d hnd'.2 hb'
      refine ⟨d', h1, h2, ?_, ?_⟩
      · intro j hj hp
        rcases List.mem_cons.1 hj with rfl | hj
        · rw [hget] at hp; exact absurd hp hpos
        · exact h3 j hj hp
      · intro j hj
        apply h4
        by_cases hji : j = i
        · subst hji
          right; rw [hget]; omega
        · rcases hj with hj | hj
          · exact Or.inl fun hm => hj (List.mem_cons.2 (Or.inr hm))
          · exact Or.inr hj

end Search

namespace Search

/-- `RemoveVertex(last)` undoes `AddVertex(l)` (for a duplicate-free neighbour list) -/
theorem removeLast_addVertex {g g' : DG} {l : List Nat} (hs : g.Sized) (hnd : l.Nodup)
    (h : g.addVertex l = .ok g') : g'.removeLast = .ok g := by
  have hsz := addVertex_sized h hs
  unfold DG.addVertex at h
  simp only at h
  split at h
  · cases h
  · split at h
    · rename_i e d heq
      cases h
      obtain ⟨f1, f2, f3, f4, f5⟩ := addVertex_fold_spec (tri g.nv) l _ _ hnd heq
      have fs := addVertex_fold_sizes _ _ _ _ heq
      simp only [Array.size_append, Array.size_replicate] at f1 fs
      simp only at f2 f3 f4 f5
      have hes : e.size = tri g.nv + g.nv := by rw [fs.1, hs.edges]
      have hds : d.size = g.nv := by rw [fs.2, hs.degs]
      have hl : ∀ v ∈ l, v < g.nv := fun v hv => by have := (f1 v hv).2; rw [hs.degs] at this; exact this
      -- the decrement loop
      have hb : ∀ i ∈ List.range g.nv, tri g.nv + i < e.size ∧ i < (d.push (l.length : Int)).size := by
        intro i hi
        have := List.mem_range.1 hi
        simp only [Array.size_push]
        omega
      obtain ⟨d', h1, h2, h3, h4⟩ := decNbrs_ok e (tri g.nv) (List.range g.nv) (d.push (l.length : Int))
        List.nodup_range hb
      unfold DG.removeLast
      have hnv : ¬ (g.nv + 1 = 0) := by omega
      simp only [hnv, if_false, Nat.add_sub_cancel]
      have hsz' : ¬ (e.size ≠ tri (g.nv + 1) ∨ (d.push (l.length : Int)).size ≠ g.nv + 1) := by
        rw [tri_succ, hes]; simp [hds]
      simp only [hsz', if_false]
      have hlast : (d.push (l.length : Int))[g.nv]? = some (l.length : Int) := by
        rw [← hds]; simp
      simp only [hlast, h1]
      -- edge bits of the new row
      have hbit : ∀ i, i < g.nv → (e.getD (tri g.nv + i) 0 > 0 ↔ i ∈ l) := by
        intro i hi
        by_cases hm : i ∈ l
        · have := f2 i hm
          simp [Array.getD_eq_getD_getElem?, this, hm]
        · have := f3 (tri g.nv + i) (fun v hv he => hm ((by omega : i = v) ▸ hv))
          have hz : (g.edges ++ Array.replicate g.nv 0)[tri g.nv + i]? = some 0 := by
            rw [Array.getElem?_append_right (by rw [hs.edges]; omega)]
            simp [hs.edges, hi]
          simp [Array.getD_eq_getD_getElem?, this, hz, hm]
      congr 1
      -- the four fields
      have hdegs : d'.pop = g.degs := by
        apply Array.ext_getElem?
        intro i
        by_cases hi : i < g.nv
        · have hpop : d'.pop[i]? = d'[i]? := by
            simp [Array.getElem?_pop, h2, hi, hds]
          rw [hpop]
          have hpush : (d.push (l.length : Int))[i]? = d[i]? := by
            rw [Array.getElem?_push_lt (by omega)]
            simp [hds, hi]
          by_cases hm : i ∈ l
          · rw [h3 i (List.mem_range.2 hi) ((hbit i hi).2 hm), hpush, f4 i hm]
            cases hg : g.degs[i]? with
            | none => simp
            | some x => simp
          · have hz : e.getD (tri g.nv + i) 0 = 0 := by
              have : ¬ e.getD (tri g.nv + i) 0 > 0 := fun hp => hm ((hbit i hi).1 hp)
              omega
            rw [h4 i (Or.inr hz), hpush, f5 i hm]
        · have : d'.pop.size = g.nv := by simp [h2, hds]
          rw [Array.getElem?_eq_none (by omega), Array.getElem?_eq_none (by rw [hs.degs]; omega)]
      have hedges : e.extract 0 (tri g.nv) = g.edges := by
        apply Array.ext_getElem?
        intro j
        by_cases hj : j < tri g.nv
        · have : (e.extract 0 (tri g.nv))[j]? = e[j]? := by
            simp [Array.getElem?_extract]
            omega
          rw [this, f3 j (fun v _ => by omega)]
          rw [Array.getElem?_append_left (by rw [hs.edges]; exact hj)]
        · have h1' : (e.extract 0 (tri g.nv)).size = tri g.nv := by simp [hes]
          rw [Array.getElem?_eq_none (by omega), Array.getElem?_eq_none (by rw [hs.edges]; omega)]
      cases g
      simp only at hdegs hedges ⊢
      simp [hdegs, hedges]
    · cases h
    · cases h

end Search
