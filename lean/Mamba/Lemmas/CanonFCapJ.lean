import Mamba.Lemmas.CanonFTotalInv
import Mamba.Lemmas.CanonFNumRoots
/-!
# Totality: the capacity invariant is carried by the main loop (`capMainJX`)

`CapInv0 n m s` = `CapInv n m s` ∧ (`s.count = 0 → s.ngens = 0`) (the extra conjunct is needed at the first leaf, where
`firstLeafOrbits` is reset to `n` singleton classes). Capacities: `binDividers`, `binAges` keep their backing arrays'
size through `deage`, `splitBin`, the refinement; that of `binsToCheck` never shrinks (`unionSl` may reallocate a larger
array); the scratch slices keep theirs (`refine_inv`); `currentBest` is re-sliced and copied into; `generators` is only
written with `setIfInBounds`. `genCnt`: `numRoots_new`, `numRoots_orbitLoop`.
-/
namespace CanonF

/-- the capacity invariant, with the fact needed at the first leaf -/
def CapInv0 (n m : Nat) (s : LS) : Prop := CapInv n m s ∧ (s.count = 0 → s.ngens = 0)

/-! ## capacities are preserved (or grow) -/

theorem cj_unionSl_size {s s' : Sl Int} {b : List Int} (h : unionSl s b = .ok s') : s.data.size ≤ s'.data.size := by
  unfold unionSl at h
  split at h
  · rename_i r _
    split at h
    · cases h
      simp only [List.size_toArray, List.length_append, List.length_drop, Array.length_toList]
      omega
    · cases h
      simp only [List.size_toArray]
      omega
  · cases h
  · cases h

theorem cj_shiftBtc_size (j nbsIndex : Nat) : ∀ (k : Nat) (b b' : Sl Int), shiftBtc j nbsIndex k b = .ok b' →
    b'.data.size = b.data.size := by
  intro k
  induction k with
  | zero => intro b b' h; simp [shiftBtc] at h; subst h; rfl
  | succ k ih =>
    intro b b' h
    rw [shiftBtc] at h
    split at h
    · split at h
      · cases h; rfl
      · split at h
        · rename_i b1 hb1
          rw [ih _ _ h, Sl.set_cap hb1]
        · rename_i o ho
          exact absurd h (ho _)
    · cases h
    · cases h

theorem cj_recompute_btc {op op' : OP} (h : recomputeInCell op = .ok op') : op'.binsToCheck = op.binsToCheck := by
  unfold recomputeInCell at h
  split at h
  · cases h; rfl
  · cases h
  · cases h

theorem cj_scTail_btc {nb : Nbrs} {cb fl : Sl Nat} {opts : Options} {j : Nat} {op : OP} {sc : Scratch}
    {r : Bool} {op' : OP} {sc' : Scratch} (h : scTail nb cb fl opts j op sc = .ok (r, op', sc')) :
    op'.binsToCheck = op.binsToCheck := by
  obtain ⟨_, w, hex, _, _⟩ := scTail_ok h
  by_cases hj : j = op.spl
  · rw [if_pos hj] at hex
    exact (expandValue_frame hex).2.2.2.1
  · rw [if_neg hj] at hex
    simp only [Outcome.ok.injEq, Prod.mk.injEq] at hex
    rw [← hex.2]

/-- one `splitCell` never shrinks the capacity of `binsToCheck` -/
theorem cj_splitCell_btc {nb : Nbrs} {n : Nat} {cb fl : Sl Nat} {opts : Options} {j : Nat} {b : Bool} {op op' : OP}
    {sc sc' : Scratch} {r : Bool} (h : splitCell nb n cb fl opts j (b, op, sc) = .ok (r, op', sc')) :
    op.binsToCheck.data.size ≤ op'.binsToCheck.data.size := by
  cases b with
  | true =>
    rw [splitCell_true] at h
    simp only [Outcome.ok.injEq, Prod.mk.injEq] at h
    rw [← h.2.1]
  | false =>
    rw [splitCell_false] at h
    rcases scHead_ok h with h | ⟨bs, dj, mc, nm, dws0, _, _, _, _, _, _, _, _, h⟩
    · simp only [Prod.mk.injEq] at h
      rw [h.2.1]
    · obtain ⟨dws, _, h⟩ := scFill_ok h
      obtain ⟨nbs0, kv0, order1, order2, nbs2, idx, _, _, _, _, h⟩ := scWrite_ok h
      obtain ⟨nbs3, btc, bd1, bd2, bd3, _, hshift, _, _, _, h⟩ := scUpd1_ok h
      obtain ⟨ag1, ag2, ag3, sp1, sp2, btc2, op2, _, _, _, _, _, hun, hrec, h⟩ := scUpd2_ok h
      rw [cj_scTail_btc h, cj_recompute_btc hrec]
      show op.binsToCheck.data.size ≤ btc2.data.size
      have := cj_unionSl_size hun
      rw [cj_shiftBtc_size _ _ _ _ _ hshift] at this
      exact this

theorem cj_refineIter_btc {nb : Nbrs} {n : Nat} {cb fl : Sl Nat} {opts : Options} {op op' : OP} {sc sc' : Scratch}
    {r : Bool} (h : refineIter nb n cb fl opts op sc = .ok (r, op', sc')) :
    op.binsToCheck.data.size ≤ op'.binsToCheck.data.size := by
  obtain ⟨mc1, nm1, i, btc, a, b, ts2, mc2, nm2, _, _, _, hbt, _, _, _, _, h⟩ := refineIter_ok h
  obtain ⟨_, hd, _⟩ := Sl.reslice_len hbt
  have := forDown_inv (splitCell nb n cb fl opts)
    (fun _ (st : Bool × OP × Scratch) => op.binsToCheck.data.size ≤ st.2.1.binsToCheck.data.size) _ _ (r, op', sc')
    (by show op.binsToCheck.data.size ≤ btc.data.size; rw [hd])
    (by
      rintro k ⟨b0, o0, s0⟩ ⟨b1, o1, s1⟩ _ hP hs
      exact Nat.le_trans hP (cj_splitCell_btc hs)) h
  exact this

theorem cj_refineLoop_btc {nb : Nbrs} {n : Nat} {cb fl : Sl Nat} {opts : Options} :
    ∀ (f : Nat) (op op' : OP) (sc sc' : Scratch) (w : Bool),
    refineLoop nb n cb fl opts f op sc = .ok (w, op', sc') →
    op.binsToCheck.data.size ≤ op'.binsToCheck.data.size := by
  intro f
  induction f with
  | zero => intro op op' sc sc' w h; simp [refineLoop] at h
  | succ f ih =>
    intro op op' sc sc' w h
    rw [refineLoop] at h
    by_cases hb : op.binsToCheck.len > 0
    · rw [if_pos hb] at h
      cases hit : refineIter nb n cb fl opts op sc with
      | ok R =>
        obtain ⟨r1, o1, s1⟩ := R
        rw [hit] at h
        have h1 := cj_refineIter_btc hit
        cases r1 with
        | true =>
          simp only [Outcome.ok.injEq, Prod.mk.injEq] at h
          rw [← h.2.1]; exact h1
        | false =>
          exact Nat.le_trans h1 (ih _ _ _ _ _ h)
      | panic => rw [hit] at h; cases h
      | outOfFuel => rw [hit] at h; cases h
    · rw [if_neg hb] at h
      simp only [Outcome.ok.injEq, Prod.mk.injEq] at h
      rw [← h.2.1]

theorem cj_refine_btc {nb : Nbrs} {cb fl : Sl Nat} {opts : Options} {op op' : OP} {sc sc' : Scratch} {w : Bool}
    (h : refine nb cb fl opts op sc = .ok (w, op', sc')) :
    op.binsToCheck.data.size ≤ op'.binsToCheck.data.size := by
  unfold refine at h
  exact cj_refineLoop_btc _ _ _ _ _ _ h

theorem cj_insertAt_size {α : Type} {s s' : Sl α} {b : Nat} {v : α} (h : insertAt s b v = .ok s') :
    s'.data.size = s.data.size := by
  unfold insertAt at h
  split at h
  · rename_i s1 h1
    split at h
    · rename_i s2 h2
      rw [Sl.set_cap h, (Sl.copySelf_len h2).2, (Sl.reslice_len h1).2.1]
    · rename_i o ho
      exact absurd h (ho _)
  · rename_i o ho
    exact absurd h (ho _)

/-- `splitBin` keeps the capacities of `binDividers`, `binAges`; that of `binsToCheck` does not shrink -/
theorem cj_splitBin_sizes {n : Nat} {nb : Nbrs} {cb fl : Sl Nat} {op op' : OP} {i : Nat} {w : Bool}
    (hp : PartInv n op) (hi : i < n) (hs : splitBin nb cb fl op i = .ok (w, op')) :
    op'.binDividers.data.size = op.binDividers.data.size ∧ op'.binAges.data.size = op.binAges.data.size ∧
      op.binsToCheck.data.size ≤ op'.binsToCheck.data.size := by
  obtain ⟨order, ic, hfront, _⟩ := splitBin_front (nb := nb) (cb := cb) (fl := fl) hp hi
  rw [hfront] at hs
  unfold splitTail at hs
  cases hbd : insertAt op.binDividers (binIdx op.binDividers.toList i) (binStartOf op.binDividers.toList i + 1) with
  | ok bd' =>
    cases hag : insertAt op.binAges (binIdx op.binDividers.toList i) (op.age + 1) with
    | ok ages' =>
      rw [hbd, hag] at hs
      simp only at hs
      cases hbt : unionSl op.binsToCheck [(binIdx op.binDividers.toList i : Int), (binIdx op.binDividers.toList i : Int) + 1] with
      | ok btc =>
        rw [hbt] at hs
        simp only at hs
        have z1 := cj_insertAt_size hbd
        have z2 := cj_insertAt_size hag
        have z3 := cj_unionSl_size hbt
        by_cases hsp : binIdx op.binDividers.toList i = op.spl
        · rw [if_pos hsp] at hs
          obtain ⟨_, e2, e3, e4, _, _⟩ := expandValue_frame hs
          rw [e2, e3, e4]
          exact ⟨z1, z2, z3⟩
        · rw [if_neg hsp] at hs
          simp only [Outcome.ok.injEq, Prod.mk.injEq] at hs
          rw [← hs.2]
          exact ⟨z1, z2, z3⟩
      | panic => rw [hbt] at hs; simp at hs
      | outOfFuel => rw [hbt] at hs; simp at hs
    | panic => rw [hbd, hag] at hs; simp at hs
    | outOfFuel => rw [hbd, hag] at hs; simp at hs
  | panic => rw [hbd] at hs; simp at hs
  | outOfFuel => rw [hbd] at hs; simp at hs

theorem cj_deage_sizes {n : Nat} {op op' : OP} (h : PartInv n op) (ha : AgeInv op) (hage : 0 < op.age)
    (hd : deage op = .ok op') :
    op'.binDividers.data.size = op.binDividers.data.size ∧ op'.binAges.data.size = op.binAges.data.size ∧
      op'.binsToCheck.data.size = op.binsToCheck.data.size := by
  obtain ⟨_, _, _, _, _, e, _, _, _, _, _, z1, z2⟩ := deage_inv h ha hage hd
  exact ⟨z1, z2, by rw [e]⟩

theorem cj_deageTimes_sizes {n : Nat} : ∀ (k : Nat) (op op' : OP), PartInv n op → AgeInv op → (k : Int) ≤ op.age →
    deageTimes k op = .ok op' →
    op'.binDividers.data.size = op.binDividers.data.size ∧ op'.binAges.data.size = op.binAges.data.size ∧
      op'.binsToCheck.data.size = op.binsToCheck.data.size := by
  intro k
  induction k with
  | zero => intro op op' _ _ _ h; simp [deageTimes] at h; subst h; exact ⟨rfl, rfl, rfl⟩
  | succ k ih =>
    intro op op' hp ha hk h
    rw [deageTimes] at h
    cases hd : deage op with
    | panic => rw [hd] at h; cases h
    | outOfFuel => rw [hd] at h; cases h
    | ok op1 =>
      rw [hd] at h
      simp only at h
      obtain ⟨d1, d2, d3, _⟩ := deage_inv hp ha (by omega) hd
      obtain ⟨a1, a2, a3⟩ := cj_deage_sizes hp ha (by omega) hd
      obtain ⟨b1, b2, b3⟩ := ih op1 op' d1 d2 (by rw [d3]; omega) h
      exact ⟨b1.trans a1, b2.trans a2, b3.trans a3⟩


/-! ## the leaf -/

theorem cj_numRoots_le (ds : Disjoint.DS) : numRoots ds ≤ ds.size := by
  unfold numRoots
  have := List.length_filter_le (fun x => decide (x < 0)) ds.toList
  simpa using this

/-- the orbit loop on `firstLeafOrbits` followed by the conditional recording of a generator -/
theorem cj_record_cap {n m : Nat} {nb : Nbrs} {s : LS} {pinv : Sl Nat} {fo : Disjoint.DS} {merges : Bool}
    {gens' : Array (Sl Nat)} {ngens' : Nat} (hp : PartInv n s.op) (hg : GInv n m nb s) (hc : CapInv n m s)
    (hcnt : 0 < s.count)
    (hl : forRange (orbitStep s.op.order pinv) n 0 (s.flOrbits, false) = .ok (fo, merges))
    (hr : (if merges = true then recordGenerator n s.op.order pinv s.gens s.ngens else Outcome.ok (s.gens, s.ngens))
      = .ok (gens', ngens')) :
    gens'.size = s.gens.size ∧ ngens' + numRoots fo ≤ n := by
  obtain ⟨a1, a2, _⟩ := numRoots_orbitLoop (hg.orb hcnt).1 hg.orbSz.1 hp.n_pos hl
  have hgc := hc.genCnt hcnt
  cases merges with
  | true =>
    rw [if_pos rfl] at hr
    obtain ⟨b1, _, b3, _⟩ := recordGenerator_spec hp.lenOrder hr
    have := a2 rfl
    exact ⟨b3, by omega⟩
  | false =>
    rw [if_neg (by simp)] at hr
    simp only [Outcome.ok.injEq, Prod.mk.injEq] at hr
    rw [← hr.1, ← hr.2]
    exact ⟨rfl, by omega⟩

/-- the back-jump keeps the capacities -/
theorem cj_backJump_cap {n m : Nat} {s0 s1 : LS} {ref : Sl Nat} (h : backJump s0 ref = .ok s1) (hp : PartInv n s0.op)
    (ha : AgeInv s0.op) (hage : s0.op.age = s0.path.length) (hc : CapInv0 n m s0) : CapInv0 n m s1 := by
  obtain ⟨j, op', hj, _, hd, rfl⟩ := backJump_shape h
  obtain ⟨z1, z2, z3⟩ := cj_deageTimes_sizes j s0.op op' hp ha (by rw [hage]; exact_mod_cast hj) hd
  obtain ⟨hc, h0⟩ := hc
  refine ⟨⟨?_, ?_, ?_, hc.dws, hc.nbs, hc.space, hc.cb, hc.gens, hc.genCnt⟩, h0⟩
  · show n ≤ op'.binDividers.data.size
    rw [z1]; exact hc.bd
  · show n ≤ op'.binAges.data.size
    rw [z2]; exact hc.ages
  · show n ≤ op'.binsToCheck.data.size
    rw [z3]; exact hc.btc

theorem cj_leafNode_cap {n m : Nat} {nb : Nbrs} {s s1 : LS} (hc : Core n s) (hage : s.op.age = s.path.length)
    (hg : GInv n m nb s) (hg1 : GInv n m nb s1) (hcap : CapInv0 n m s) (h : leafNode n m s = .ok s1) :
    CapInv0 n m s1 := by
  obtain ⟨hcp, h0⟩ := hcap
  by_cases hc1 : (compare s.op.value.toList s.currentBest.toList == 1 || s.count + 1 == 1) = true
  · -- a new best leaf
    have hsz1 := hg1.orbSz.1
    have hnr := cj_numRoots_le s1.flOrbits
    unfold leafNode at h
    dsimp only at h
    rw [if_pos hc1] at h
    osplit h
    all_goals
      rename_i cb hcb _ _ _ hloop _
      cases h
      obtain ⟨_, hd, _⟩ := Sl.reslice_len hcb
    · -- the first leaf
      rename_i hcount
      have hs0 : s.count = 0 := by omega
      have hn0 := h0 hs0
      refine ⟨⟨hcp.bd, hcp.ages, hcp.btc, hcp.dws, hcp.nbs, hcp.space, ?_, hcp.gens, fun _ => ?_⟩, fun hz => ?_⟩
      · show m ≤ (cb.copyFrom s.op.value.toList).data.size
        rw [Sl.copyFrom_cap, hd]; exact hcp.cb
      · show s.ngens + numRoots _ ≤ n
        omega
      · have : s.count + 1 = 0 := hz
        omega
    · rename_i hcount
      have hs0 : 0 < s.count := by omega
      refine ⟨⟨hcp.bd, hcp.ages, hcp.btc, hcp.dws, hcp.nbs, hcp.space, ?_, hcp.gens, fun _ => hcp.genCnt hs0⟩, fun hz => ?_⟩
      · show m ≤ (cb.copyFrom s.op.value.toList).data.size
        rw [Sl.copyFrom_cap, hd]; exact hcp.cb
      · have : s.count + 1 = 0 := hz
        omega
  · have hc1f : (compare s.op.value.toList s.currentBest.toList == 1 || s.count + 1 == 1) = false := by
      simpa using hc1
    have hcnt : 0 < s.count := by
      simp only [Bool.or_eq_false_iff, beq_eq_false_iff_ne, ne_eq] at hc1f
      omega
    by_cases hc0 : (compare s.op.value.toList s.currentBest.toList == 0) = true
    · obtain ⟨bo, b0, fo, merges, gens', ngens', _, hl2, hrec, hbj⟩ := lb_leafNode_unfold hc1f hc0 h
      obtain ⟨r1, r2⟩ := cj_record_cap hc.part hg hcp hcnt hl2 hrec
      refine cj_backJump_cap (n := n) (m := m) hbj hc.part hc.age hage ?_
      refine ⟨⟨hcp.bd, hcp.ages, hcp.btc, hcp.dws, hcp.nbs, hcp.space, hcp.cb, ?_, fun _ => r2⟩, fun hz => ?_⟩
      · show n ≤ gens'.size + 1
        rw [r1]; exact hcp.gens
      · have : s.count + 1 = 0 := hz
        omega
    · have hc0f : (compare s.op.value.toList s.currentBest.toList == 0) = false := by simpa using hc0
      by_cases hcf : (compare s.op.value.toList s.firstLeaf.toList == 0) = true
      · obtain ⟨fo, merges, gens', ngens', hl2, hrec, hbj⟩ := le_leaf_unfold h hc1f hc0f hcf
        obtain ⟨r1, r2⟩ := cj_record_cap hc.part hg hcp hcnt hl2 hrec
        refine cj_backJump_cap (n := n) (m := m) hbj hc.part hc.age hage ?_
        refine ⟨⟨hcp.bd, hcp.ages, hcp.btc, hcp.dws, hcp.nbs, hcp.space, hcp.cb, ?_, fun _ => r2⟩, fun hz => ?_⟩
        · show n ≤ gens'.size + 1
          rw [r1]; exact hcp.gens
        · have : s.count + 1 = 0 := hz
          omega
      · have hcff : (compare s.op.value.toList s.firstLeaf.toList == 0) = false := by simpa using hcf
        have es := lo_leafNode_eq hc1f hc0f hcff h
        subst es
        exact ⟨⟨hcp.bd, hcp.ages, hcp.btc, hcp.dws, hcp.nbs, hcp.space, hcp.cb, hcp.gens, fun _ => hcp.genCnt hcnt⟩,
          fun hz => by have : s.count + 1 = 0 := hz; omega⟩

/-! ## the main loop -/

section
variable {n m : Nat} {nb : Nbrs}

/-- the capacity invariant is carried by the main loop (on top of the certificate invariants, which provide
`Disjoint.Inv firstLeafOrbits` and the sizes needed for the counting argument at the equal leaves) -/
theorem capMainJX :
    MainJX n m nb (CertA n m nb) (CertN n m nb) (CertN n m nb) (CertM n m nb)
      (fun _ s => CapInv0 n m s) (fun _ s => CapInv0 n m s) (fun _ s => CapInv0 n m s) (fun _ _ s => CapInv0 n m s) where
  na := fun _ _ _ h => h
  deage := fun lv s op' k hc ht hsk hage _ hx hd => by
    have hpos : 0 < s.op.age := by
      rw [hage]
      cases hp : s.path with
      | nil => rw [hp] at ht; cases hch : s.choices <;> cases lv <;> simp [TopOK] at ht
      | cons p ps => simp
    obtain ⟨z1, z2, z3⟩ := cj_deage_sizes hc.part hc.age hpos hd
    obtain ⟨hx, h0⟩ := hx
    exact ⟨⟨by show n ≤ op'.binDividers.data.size; rw [z1]; exact hx.bd,
      by show n ≤ op'.binAges.data.size; rw [z2]; exact hx.ages,
      by show n ≤ op'.binsToCheck.data.size; rw [z3]; exact hx.btc,
      hx.dws, hx.nbs, hx.space, hx.cb, hx.gens, hx.genCnt⟩, h0⟩
  noskip := fun _ _ _ _ hx => ⟨⟨hx.1.bd, hx.1.ages, hx.1.btc, hx.1.dws, hx.1.nbs, hx.1.space, hx.1.cb, hx.1.gens,
    hx.1.genCnt⟩, hx.2⟩
  skipA := fun _ _ _ _ _ _ _ _ _ _ _ _ _ _ _ _ _ _ _ _ _ _ hx =>
    ⟨⟨hx.1.bd, hx.1.ages, hx.1.btc, hx.1.dws, hx.1.nbs, hx.1.space, hx.1.cb, hx.1.gens, hx.1.genCnt⟩, hx.2⟩
  skipB := fun _ _ _ _ _ _ _ _ _ _ _ _ _ _ _ _ _ _ _ _ _ hx =>
    ⟨⟨hx.1.bd, hx.1.ages, hx.1.btc, hx.1.dws, hx.1.nbs, hx.1.space, hx.1.cb, hx.1.gens, hx.1.genCnt⟩, hx.2⟩
  split := fun st sz ls s c cs p ps ce bo w op' k hc _ _ _ _ _ hget _ _ _ hs _ hx => by
    have hi : c - 1 < n := by rw [← hc.part.lenOrder]; exact Sl.get_lt hget
    obtain ⟨z1, z2, z3⟩ := cj_splitBin_sizes hc.part hi hs
    have key : CapInv0 n m { s with choices := (c - 1) :: cs, bestOrbits := bo, op := op', path := k :: ps } :=
      ⟨⟨by show n ≤ op'.binDividers.data.size; rw [z1]; exact hx.1.bd,
        by show n ≤ op'.binAges.data.size; rw [z2]; exact hx.1.ages,
        by show n ≤ op'.binsToCheck.data.size; exact Nat.le_trans hx.1.btc z3,
        hx.1.dws, hx.1.nbs, hx.1.space, hx.1.cb, hx.1.gens, hx.1.genCnt⟩, hx.2⟩
    exact ⟨fun _ _ => key, fun _ _ => key⟩
  pop := fun _ _ _ _ _ _ _ _ _ hx =>
    ⟨⟨hx.1.bd, hx.1.ages, hx.1.btc, hx.1.dws, hx.1.nbs, hx.1.space, hx.1.cb, hx.1.gens, hx.1.genCnt⟩, hx.2⟩
  node := fun lv worse s s1 lv1 hI _ _ hM hx hs1 _ hA1 _ => by
    have key : CapInv0 n m s1 := by
      cases worse with
      | true =>
        simp only [Bool.not_true, Bool.false_and, Bool.false_eq_true, if_false, Outcome.ok.injEq] at hs1
        rw [← hs1]; exact hx
      | false =>
        by_cases hleaf : s.op.binDividers.len = n
        · rw [if_pos (by simp [hleaf])] at hs1
          exact cj_leafNode_cap hI.core hI.age hM.1 hA1.1 hx hs1
        · rw [if_neg (by simp [hleaf]), if_pos (by simp)] at hs1
          unfold innerNode at hs1
          split at hs1
          · cases hs1
            exact ⟨⟨hx.1.bd, hx.1.ages, hx.1.btc, hx.1.dws, hx.1.nbs, hx.1.space, hx.1.cb, hx.1.gens, hx.1.genCnt⟩, hx.2⟩
          · cases hs1; exact hx
          · cases hs1
          · cases hs1
    exact ⟨key, fun _ => key⟩
  refine := fun lv s w op' sc' hc _ _ _ _ _ hx hr _ => by
    obtain ⟨_, _, _, _, y1, y2, y3, _, _, _, _, _, z1, z2⟩ := refine_inv stablePerm hc.part hc.age hc.scr hr
    have z3 := cj_refine_btc hr
    exact ⟨⟨by show n ≤ op'.binDividers.data.size; rw [z1]; exact hx.1.bd,
      by show n ≤ op'.binAges.data.size; rw [z2]; exact hx.1.ages,
      by show n ≤ op'.binsToCheck.data.size; exact Nat.le_trans hx.1.btc z3,
      by show n ≤ sc'.dws.data.size; rw [y1]; exact hx.1.dws,
      by show n ≤ sc'.nbs.data.size; rw [y2]; exact hx.1.nbs,
      by show n ≤ sc'.space.data.size; rw [y3]; exact hx.1.space,
      hx.1.cb, hx.1.gens, hx.1.genCnt⟩, hx.2⟩

end
end CanonF
